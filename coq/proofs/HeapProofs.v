(* Proofs for the priority-queue part of C18: the binary max-heap with an item -> index map
   (model/Heap.v) refines a finite map item -> score (model/HeapSpec.v) along every history. *)
From Coq Require Import ZArith List Bool Arith Lia ZifyBool ZifyNat.
From WH.Model Require Import Heap HeapSpec.
Import ListNotations.
Local Open Scope nat_scope.

Ltac Zify.zify_post_hook ::= Z.to_euclidean_division_equations.
Ltac plia := unfold parent in *; lia.

(* ------------------------------------------------------------------------------------------ *)
(* 1. `lower` is a strict total order                                                           *)

Lemma lower_irrefl : forall a, lower a a = false.
Proof.
  induction a as [|x a IH]; cbn [lower]; [reflexivity|].
  destruct (Z.ltb_spec x x) as [Hlt|Hge]; [lia|exact IH].
Qed.

Lemma lower_trans : forall a b c, lower a b = true -> lower b c = true -> lower a c = true.
Proof.
  induction a as [|x a IH]; intros [|y b] [|z c]; cbn [lower]; intros Hab Hbc;
    try discriminate; try reflexivity.
  destruct (Z.ltb_spec x y) as [Hxy|Hxy]; destruct (Z.ltb_spec y x) as [Hyx|Hyx];
    destruct (Z.ltb_spec y z) as [Hyz|Hyz]; destruct (Z.ltb_spec z y) as [Hzy|Hzy];
    destruct (Z.ltb_spec x z) as [Hxz|Hxz]; destruct (Z.ltb_spec z x) as [Hzx|Hzx];
    try lia; try discriminate; try reflexivity.
  exact (IH _ _ Hab Hbc).
Qed.

Lemma lower_tri : forall a b, lower a b = false -> lower b a = false -> a = b.
Proof.
  induction a as [|x a IH]; intros [|y b]; cbn [lower]; intros Hab Hba;
    try discriminate; try reflexivity.
  destruct (Z.ltb_spec x y) as [Hxy|Hxy]; destruct (Z.ltb_spec y x) as [Hyx|Hyx];
    try lia; try discriminate.
  assert (x = y) as -> by lia. f_equal. exact (IH _ Hab Hba).
Qed.

Lemma lower_strict_total :
  (forall a, lower a a = false) /\
  (forall a b c, lower a b = true -> lower b c = true -> lower a c = true) /\
  (forall a b, lower a b = false -> lower b a = false -> a = b).
Proof. split; [exact lower_irrefl|split; [exact lower_trans|exact lower_tri]]. Qed.

Lemma lower_asym : forall a b, lower a b = true -> lower b a = false.
Proof.
  intros a b Hab. destruct (lower b a) eqn:Hba; [|reflexivity].
  pose proof (lower_trans _ _ _ Hab Hba) as H. rewrite lower_irrefl in H. discriminate.
Qed.

(* a >= b, b >= c  ->  a >= c   (reading `lower a b = false` as a >= b) *)
Lemma nl_trans : forall a b c, lower a b = false -> lower b c = false -> lower a c = false.
Proof.
  intros a b c Hab Hbc. destruct (lower a c) eqn:Hac; [|reflexivity].
  destruct (lower b a) eqn:Hba.
  - rewrite (lower_trans _ _ _ Hba Hac) in Hbc. discriminate.
  - pose proof (lower_tri _ _ Hab Hba) as ->. rewrite Hac in Hbc. discriminate.
Qed.

(* a < b, a >= c  ->  b >= c *)
Lemma lower_nl_trans : forall a b c, lower a b = true -> lower a c = false -> lower b c = false.
Proof.
  intros a b c Hab Hac. destruct (lower b c) eqn:Hbc; [|reflexivity].
  rewrite (lower_trans _ _ _ Hab Hbc) in Hac. discriminate.
Qed.

(* a >= c, b < c  ->  a >= b *)
Lemma nl_lower_trans : forall a b c, lower a c = false -> lower b c = true -> lower a b = false.
Proof.
  intros a b c Hac Hbc. destruct (lower a b) eqn:Hab; [|reflexivity].
  rewrite (lower_trans _ _ _ Hab Hbc) in Hac. discriminate.
Qed.

Lemma score_eqb_refl : forall a, score_eqb a a = true.
Proof. induction a as [|x a IH]; cbn [score_eqb]; [reflexivity|]. rewrite Z.eqb_refl, IH. reflexivity. Qed.

Lemma score_eqb_eq : forall a b, score_eqb a b = true -> a = b.
Proof.
  induction a as [|x a IH]; intros [|y b]; cbn [score_eqb]; intros H; try discriminate; [reflexivity|].
  apply andb_true_iff in H as [Hxy Hab]. apply Z.eqb_eq in Hxy. subst y. f_equal. exact (IH _ Hab).
Qed.

(* ------------------------------------------------------------------------------------------ *)
(* 2. the heap array: hget / hset                                                               *)

Lemma length_hset : forall h i e, length (hset h i e) = length h.
Proof. induction h as [|x h IH]; intros [|i] e; cbn [hset length]; try reflexivity. rewrite IH. reflexivity. Qed.

Lemma hget_hset_eq : forall h i e, i < length h -> hget (hset h i e) i = e.
Proof.
  unfold hget. induction h as [|x h IH]; intros [|i] e Hi; cbn [hset length nth] in *; try lia; [reflexivity|].
  apply IH. lia.
Qed.

Lemma hget_hset_neq : forall h i j e, i <> j -> hget (hset h i e) j = hget h j.
Proof.
  unfold hget. induction h as [|x h IH]; intros [|i] [|j] e Hij; cbn [hset nth]; try reflexivity; try lia.
  apply IH. lia.
Qed.

Lemma In_hget : forall (h : list entry) e, In e h <-> exists i, i < length h /\ hget h i = e.
Proof.
  intros h e. unfold hget. split.
  - intros Hin. destruct (In_nth h e dflt Hin) as (i & Hi & He). exists i. split; assumption.
  - intros (i & Hi & He). subst e. apply nth_In. exact Hi.
Qed.

Lemma hget_app_l : forall h l i, i < length h -> hget (h ++ l) i = hget h i.
Proof. intros h l i Hi. unfold hget. apply app_nth1. exact Hi. Qed.

Lemma hget_app_last : forall h e, hget (h ++ [e]) (length h) = e.
Proof. intros h e. unfold hget. rewrite app_nth2 by lia. rewrite Nat.sub_diag. reflexivity. Qed.

(* ------------------------------------------------------------------------------------------ *)
(* 3. the position map                                                                          *)

Fixpoint nodupk (p : posmap) : Prop :=
  match p with
  | [] => True
  | (k, _) :: p' => pos_find p' k = None /\ nodupk p'
  end.

Lemma pos_find_set : forall p k v k',
  pos_find (pos_set p k v) k' = if (k =? k')%Z then Some v else pos_find p k'.
Proof.
  induction p as [|[k0 w] p IH]; intros k v k'; cbn [pos_set pos_find]; [reflexivity|].
  destruct (Z.eqb_spec k0 k) as [E|NE]; cbn [pos_find].
  - subst k0. destruct (Z.eqb_spec k k'); reflexivity.
  - destruct (Z.eqb_spec k0 k') as [E'|NE'].
    + subst k0. destruct (Z.eqb_spec k k'); [congruence|reflexivity].
    + apply IH.
Qed.

Lemma nodupk_set : forall p k v, nodupk p -> nodupk (pos_set p k v).
Proof.
  induction p as [|[k0 w] p IH]; intros k v Hnd; cbn [pos_set nodupk pos_find] in *; [auto|].
  destruct Hnd as [Hnone Hnd].
  destruct (Z.eqb_spec k0 k) as [E|NE]; cbn [nodupk]; split; auto.
  rewrite pos_find_set. destruct (Z.eqb_spec k k0); [congruence|exact Hnone].
Qed.

Lemma pos_find_erase : forall p k k', nodupk p ->
  pos_find (pos_erase p k) k' = if (k =? k')%Z then None else pos_find p k'.
Proof.
  induction p as [|[k0 w] p IH]; intros k k' Hnd; cbn [pos_erase pos_find nodupk] in *.
  - destruct (k =? k')%Z; reflexivity.
  - destruct Hnd as [Hnone Hnd].
    destruct (Z.eqb_spec k0 k) as [E|NE]; cbn [pos_find].
    + subst k0. destruct (Z.eqb_spec k k') as [E'|NE']; [subst k'; exact Hnone|reflexivity].
    + destruct (Z.eqb_spec k0 k') as [E'|NE'].
      * subst k0. destruct (Z.eqb_spec k k'); [congruence|reflexivity].
      * apply IH. exact Hnd.
Qed.

Lemma nodupk_erase : forall p k, nodupk p -> nodupk (pos_erase p k).
Proof.
  induction p as [|[k0 w] p IH]; intros k Hnd; cbn [pos_erase nodupk] in *; [auto|].
  destruct Hnd as [Hnone Hnd].
  destruct (Z.eqb_spec k0 k) as [E|NE]; cbn [nodupk]; [exact Hnd|]. split; [|auto].
  rewrite pos_find_erase by exact Hnd. destruct (Z.eqb_spec k k0); [reflexivity|exact Hnone].
Qed.

(* ------------------------------------------------------------------------------------------ *)
(* 4. the abstract map                                                                          *)

Fixpoint anodup (m : amap) : Prop :=
  match m with
  | [] => True
  | (k, _) :: m' => aget m' k = None /\ anodup m'
  end.

Lemma aget_aremove : forall m k k',
  aget (aremove m k) k' = if (k =? k')%Z then None else aget m k'.
Proof.
  induction m as [|[k0 s0] m IH]; intros k k'; cbn [aremove aget].
  - destruct (k =? k')%Z; reflexivity.
  - destruct (Z.eqb_spec k0 k) as [E|NE]; cbn [aget].
    + subst k0. rewrite IH. destruct (Z.eqb_spec k k'); reflexivity.
    + destruct (Z.eqb_spec k0 k') as [E'|NE'].
      * subst k0. destruct (Z.eqb_spec k k'); [congruence|reflexivity].
      * apply IH.
Qed.

Lemma anodup_aremove : forall m k, anodup m -> anodup (aremove m k).
Proof.
  induction m as [|[k0 s0] m IH]; intros k Hnd; cbn [aremove anodup] in *; [auto|].
  destruct Hnd as [Hnone Hnd].
  destruct (Z.eqb_spec k0 k) as [E|NE]; cbn [anodup]; [auto|]. split; [|auto].
  rewrite aget_aremove. destruct (k =? k0)%Z; [reflexivity|exact Hnone].
Qed.

Lemma anodup_aset : forall m k s, anodup m -> anodup (aset m k s).
Proof.
  intros m k s Hnd. unfold aset. cbn [anodup]. split; [|apply anodup_aremove; exact Hnd].
  rewrite aget_aremove, Z.eqb_refl. reflexivity.
Qed.

Lemma aget_aset : forall m k s k',
  aget (aset m k s) k' = if (k =? k')%Z then Some s else aget m k'.
Proof.
  intros m k s k'. unfold aset. cbn [aget]. rewrite aget_aremove.
  destruct (k =? k')%Z; reflexivity.
Qed.

Lemma aremove_none : forall m k, aget m k = None -> aremove m k = m.
Proof.
  induction m as [|[k0 s0] m IH]; intros k H; cbn [aremove aget] in *; [reflexivity|].
  destruct (Z.eqb_spec k0 k) as [E|NE]; [discriminate|]. rewrite IH by exact H. reflexivity.
Qed.

Lemma length_aremove_some : forall m k s, anodup m -> aget m k = Some s ->
  S (length (aremove m k)) = length m.
Proof.
  induction m as [|[k0 s0] m IH]; intros k s Hnd H; cbn [aremove aget anodup length] in *; [discriminate|].
  destruct Hnd as [Hnone Hnd].
  destruct (Z.eqb_spec k0 k) as [E|NE].
  - subst k0. rewrite aremove_none by exact Hnone. reflexivity.
  - cbn [length]. rewrite (IH _ _ Hnd H). reflexivity.
Qed.

Lemma In_aget : forall m k s, anodup m -> In (k, s) m -> aget m k = Some s.
Proof.
  induction m as [|[k0 s0] m IH]; intros k s Hnd Hin; cbn [aget anodup In] in *; [contradiction|].
  destruct Hnd as [Hnone Hnd]. destruct Hin as [E|Hin].
  - inversion E; subst. rewrite Z.eqb_refl. reflexivity.
  - pose proof (IH _ _ Hnd Hin) as Hget.
    destruct (Z.eqb_spec k0 k) as [E|NE]; [subst k0; congruence|exact Hget].
Qed.

Lemma aget_In : forall m k s, aget m k = Some s -> In (k, s) m.
Proof.
  induction m as [|[k0 s0] m IH]; intros k s H; cbn [aget In] in *; [discriminate|].
  destruct (Z.eqb_spec k0 k) as [E|NE]; [left; congruence|right; auto].
Qed.

(* ------------------------------------------------------------------------------------------ *)
(* 5. well-formedness of the concrete state: `pos` is the inverse of the heap array            *)

Definition WF (q : pq) : Prop :=
  nodupk (pos q) /\
  forall it i, pos_find (pos q) it = Some i <-> i < length (heap q) /\ snd (hget (heap q) i) = it.

Lemma WF_inj : forall q i j, WF q -> i < length (heap q) -> j < length (heap q) ->
  snd (hget (heap q) i) = snd (hget (heap q) j) -> i = j.
Proof.
  intros q i j [_ Hpos] Hi Hj E.
  assert (pos_find (pos q) (snd (hget (heap q) i)) = Some i) as H1 by (apply Hpos; auto).
  assert (pos_find (pos q) (snd (hget (heap q) i)) = Some j) as H2 by (apply Hpos; auto).
  congruence.
Qed.

Lemma WF_pos_get : forall q i, WF q -> i < length (heap q) ->
  pos_get (pos q) (snd (hget (heap q) i)) = i.
Proof.
  intros q i [_ Hpos] Hi. unfold pos_get.
  assert (pos_find (pos q) (snd (hget (heap q) i)) = Some i) as -> by (apply Hpos; auto).
  reflexivity.
Qed.

(* h' is h with the entries at a and b exchanged *)
Definition swapped (h h' : list entry) (a b : nat) : Prop :=
  length h' = length h /\
  forall k, hget h' k = if k =? a then hget h b else if k =? b then hget h a else hget h k.

Lemma swap_spec : forall q a b, WF q -> a < length (heap q) -> b < length (heap q) -> a <> b ->
  WF (swap q a b) /\ swapped (heap q) (heap (swap q a b)) a b.
Proof.
  intros q a b HWF Ha Hb Hab.
  assert (Hsw : swapped (heap q) (heap (swap q a b)) a b).
  { unfold swap; cbn [heap]. split.
    - rewrite !length_hset. reflexivity.
    - intros k. destruct (Nat.eqb_spec k a) as [->|Hka].
      + rewrite hget_hset_neq by congruence. apply hget_hset_eq. exact Ha.
      + destruct (Nat.eqb_spec k b) as [->|Hkb].
        * apply hget_hset_eq. rewrite length_hset. exact Hb.
        * rewrite !hget_hset_neq by congruence. reflexivity. }
  split; [|exact Hsw].
  destruct Hsw as [Hlen Hk].
  pose proof HWF as [Hnd Hpos].
  assert (Hne : snd (hget (heap q) a) <> snd (hget (heap q) b)).
  { intros E. apply Hab. apply (WF_inj q); assumption. }
  split.
  - unfold swap; cbn [pos]. apply nodupk_set, nodupk_set, Hnd.
  - intros it i. rewrite Hlen, Hk. unfold swap; cbn [pos].
    rewrite (WF_pos_get q a), (WF_pos_get q b) by assumption.
    rewrite !pos_find_set.
    destruct (Z.eqb_spec (snd (hget (heap q) b)) it) as [E2|N2].
    + split.
      * intros [= <-]. split; [exact Ha|]. rewrite Nat.eqb_refl. exact E2.
      * intros [Hi Hs]. destruct (Nat.eqb_spec i a) as [->|Hia]; [reflexivity|]. exfalso.
        destruct (Nat.eqb_spec i b) as [->|Hib]; [congruence|].
        apply Hib. apply (WF_inj q); try assumption. congruence.
    + destruct (Z.eqb_spec (snd (hget (heap q) a)) it) as [E1|N1].
      * split.
        -- intros [= <-]. split; [exact Hb|].
           destruct (Nat.eqb_spec b a); [congruence|]. rewrite Nat.eqb_refl. exact E1.
        -- intros [Hi Hs]. destruct (Nat.eqb_spec i a) as [->|Hia]; [congruence|].
           destruct (Nat.eqb_spec i b) as [->|Hib]; [reflexivity|]. exfalso.
           apply Hia. apply (WF_inj q); try assumption. congruence.
      * split.
        -- intros Hf. apply Hpos in Hf as [Hi Hs]. split; [exact Hi|].
           destruct (Nat.eqb_spec i a) as [->|Hia]; [exfalso; apply N1; exact Hs|].
           destruct (Nat.eqb_spec i b) as [->|Hib]; [exfalso; apply N2; exact Hs|exact Hs].
        -- intros [Hi Hs]. destruct (Nat.eqb_spec i a) as [->|Hia]; [contradiction|].
           destruct (Nat.eqb_spec i b) as [->|Hib]; [contradiction|].
           apply Hpos. split; assumption.
Qed.

Lemma swapped_In : forall h h' a b, swapped h h' a b -> a < length h -> b < length h ->
  forall e, In e h' <-> In e h.
Proof.
  intros h h' a b [Hlen Hk] Ha Hb e. rewrite !In_hget. rewrite Hlen. split.
  - intros (i & Hi & He). rewrite Hk in He.
    destruct (i =? a); [exists b; auto|]. destruct (i =? b); [exists a; auto|]. exists i; auto.
  - intros (i & Hi & He). destruct (Nat.eq_dec i b) as [->|Hib].
    + exists a. split; [exact Ha|]. rewrite Hk, Nat.eqb_refl. exact He.
    + destruct (Nat.eq_dec i a) as [->|Hia].
      * exists b. split; [exact Hb|]. rewrite Hk.
        destruct (Nat.eqb_spec b a) as [E|_]; [rewrite E; exact He|].
        rewrite Nat.eqb_refl. exact He.
      * exists i. split; [exact Hi|]. rewrite Hk.
        destruct (Nat.eqb_spec i a); [contradiction|].
        destruct (Nat.eqb_spec i b); [contradiction|]. exact He.
Qed.

(* ------------------------------------------------------------------------------------------ *)
(* 6. heap order, and heap order with one defect                                                *)

Definition sc (h : list entry) (k : nat) : score := fst (hget h k).

Lemma score_lower_sc : forall q a b, score_lower q a b = lower (sc (heap q) a) (sc (heap q) b).
Proof. reflexivity. Qed.

Definition hord (h : list entry) : Prop :=
  forall j, 0 < j < length h -> lower (sc h (parent j)) (sc h j) = false.

(* the node at i may be too high for its position (sift_up will repair) *)
Definition up_ok (h : list entry) (i : nat) : Prop :=
  (forall j, 0 < j < length h -> j <> i -> lower (sc h (parent j)) (sc h j) = false) /\
  (forall j, 0 < j < length h -> parent j = i -> 0 < i -> lower (sc h (parent i)) (sc h j) = false).

(* the node at i may be too low for its position (sift_down will repair) *)
Definition down_ok (h : list entry) (i : nat) : Prop :=
  (forall j, 0 < j < length h -> parent j <> i -> lower (sc h (parent j)) (sc h j) = false) /\
  (forall j, 0 < j < length h -> parent j = i -> 0 < i -> lower (sc h (parent i)) (sc h j) = false).

Lemma swapped_sc3 : forall h h' a b, swapped h h' a b -> a <> b ->
  sc h' a = sc h b /\ sc h' b = sc h a /\ (forall k, k <> a -> k <> b -> sc h' k = sc h k).
Proof.
  intros h h' a b [_ Hk] Hab. unfold sc. split; [|split].
  - rewrite Hk, Nat.eqb_refl. reflexivity.
  - rewrite Hk. destruct (Nat.eqb_spec b a); [congruence|]. rewrite Nat.eqb_refl. reflexivity.
  - intros k Ha Hb. rewrite Hk.
    destruct (Nat.eqb_spec k a); [contradiction|]. destruct (Nat.eqb_spec k b); [contradiction|].
    reflexivity.
Qed.

Lemma up_step : forall h h' i, swapped h h' (parent i) i -> 0 < i < length h -> up_ok h i ->
  lower (sc h (parent i)) (sc h i) = true -> up_ok h' (parent i).
Proof.
  intros h h' i Hsw Hi [H1 H2] Hlow.
  assert (Hp : parent i < i) by plia.
  destruct (swapped_sc3 _ _ _ _ Hsw) as (E1 & E2 & E3); [lia|].
  destruct Hsw as [Hlen _].
  split.
  - intros j Hj Hjp. rewrite Hlen in Hj.
    destruct (Nat.eq_dec j i) as [->|Hji].
    + rewrite E1, E2. apply lower_asym. exact Hlow.
    + destruct (Nat.eq_dec (parent j) i) as [Hpj|Hpj].
      * rewrite Hpj, E2. rewrite (E3 j) by plia. apply H2; [exact Hj|exact Hpj|lia].
      * destruct (Nat.eq_dec (parent j) (parent i)) as [Hpp|Hpp].
        -- rewrite Hpp, E1. rewrite (E3 j) by plia.
           apply lower_nl_trans with (a := sc h (parent i)); [exact Hlow|].
           rewrite <- Hpp. apply H1; assumption.
        -- rewrite (E3 j), (E3 (parent j)) by plia. apply H1; assumption.
  - intros j Hj Hpj Hpos. rewrite Hlen in Hj.
    rewrite (E3 (parent (parent i))) by plia.
    destruct (Nat.eq_dec j i) as [->|Hji].
    + rewrite E2. apply H1; plia.
    + rewrite (E3 j) by plia.
      apply nl_trans with (b := sc h (parent i)); [apply H1; plia|].
      rewrite <- Hpj. apply H1; assumption.
Qed.

Lemma up_done : forall h i, up_ok h i ->
  (i = 0 \/ lower (sc h (parent i)) (sc h i) = false) -> hord h.
Proof.
  intros h i [H1 _] Hi j Hj.
  destruct (Nat.eq_dec j i) as [->|NE]; [destruct Hi; [lia|assumption]|apply H1; assumption].
Qed.

Lemma down_step : forall h h' i c, swapped h h' c i -> c < length h -> 0 < c -> parent c = i ->
  down_ok h i -> lower (sc h i) (sc h c) = true ->
  (forall j, 0 < j < length h -> parent j = i -> lower (sc h c) (sc h j) = false) ->
  down_ok h' c.
Proof.
  intros h h' i c Hsw Hc Hc0 Hpc [H1 H2] Hlow Hmax.
  assert (Hic : i < c) by plia.
  destruct (swapped_sc3 _ _ _ _ Hsw) as (E1 & E2 & E3); [lia|].
  destruct Hsw as [Hlen _].
  split.
  - intros j Hj Hpj. rewrite Hlen in Hj.
    destruct (Nat.eq_dec (parent j) i) as [Hpji|Hpji].
    + rewrite Hpji, E2. destruct (Nat.eq_dec j c) as [->|Hjc].
      * rewrite E1. apply lower_asym. exact Hlow.
      * rewrite (E3 j) by plia. apply Hmax; assumption.
    + destruct (Nat.eq_dec j i) as [->|Hji].
      * rewrite E2. rewrite (E3 (parent i)) by plia. apply H2; [lia|exact Hpc|lia].
      * rewrite (E3 j), (E3 (parent j)) by plia. apply H1; assumption.
  - intros j Hj Hpj _. rewrite Hlen in Hj.
    rewrite Hpc, E2. rewrite (E3 j) by plia. rewrite <- Hpj. apply H1; [exact Hj|plia].
Qed.

Lemma down_done : forall h i, down_ok h i ->
  (forall j, 0 < j < length h -> parent j = i -> lower (sc h i) (sc h j) = false) -> hord h.
Proof.
  intros h i [H1 _] Hc j Hj.
  destruct (Nat.eq_dec (parent j) i) as [E|NE]; [rewrite E; apply Hc; assumption|apply H1; assumption].
Qed.

Lemma root_max : forall h, hord h -> forall i, i < length h -> lower (sc h 0) (sc h i) = false.
Proof.
  intros h Hord i. induction i as [i IH] using lt_wf_ind. intros Hi.
  destruct i as [|i']; [apply lower_irrefl|].
  apply nl_trans with (b := sc h (parent (S i'))).
  - apply IH; plia.
  - apply Hord. lia.
Qed.

(* ------------------------------------------------------------------------------------------ *)
(* 7. sift_up and sift_down repair the defect and keep everything else                          *)

Definition sift_post (q q' : pq) : Prop :=
  WF q' /\ length (heap q') = length (heap q) /\
  (forall e, In e (heap q') <-> In e (heap q)) /\ hord (heap q').

Lemma sift_post_refl : forall q, WF q -> hord (heap q) -> sift_post q q.
Proof. intros q HWF Hord. split; [exact HWF|]. split; [reflexivity|]. split; [tauto|exact Hord]. Qed.

Lemma sift_up_spec : forall f q i, WF q -> i < length (heap q) -> i < f -> up_ok (heap q) i ->
  sift_post q (sift_up f q i).
Proof.
  induction f as [|f IH]; intros q i HWF Hi Hf Hup; [lia|].
  cbn [sift_up]. destruct i as [|i'].
  - apply sift_post_refl; [exact HWF|]. apply (up_done _ 0 Hup). left; reflexivity.
  - rewrite score_lower_sc.
    destruct (lower (sc (heap q) (parent (S i'))) (sc (heap q) (S i'))) eqn:Hlow.
    + assert (Hp : parent (S i') < S i') by plia.
      destruct (swap_spec q (parent (S i')) (S i') HWF ltac:(lia) Hi ltac:(lia)) as [HWF' Hsw].
      pose proof (up_step _ _ _ Hsw ltac:(lia) Hup Hlow) as Hup'.
      assert (Hlen : length (heap (swap q (parent (S i')) (S i'))) = length (heap q)) by apply Hsw.
      destruct (IH _ (parent (S i')) HWF' ltac:(lia) ltac:(lia) Hup') as (W & L & I & O).
      split; [exact W|]. split; [lia|]. split; [|exact O].
      intros e. rewrite I. apply (swapped_In _ _ _ _ Hsw); lia.
    + apply sift_post_refl; [exact HWF|]. apply (up_done _ (S i') Hup). right; exact Hlow.
Qed.

Lemma sift_down_step : forall f q i c,
  (forall q i, WF q -> length (heap q) <= i + f -> down_ok (heap q) i ->
               sift_post q (sift_down f q i)) ->
  WF q -> length (heap q) <= i + S f -> down_ok (heap q) i ->
  c < length (heap q) -> 0 < c -> parent c = i ->
  lower (sc (heap q) i) (sc (heap q) c) = true ->
  (forall j, 0 < j < length (heap q) -> parent j = i ->
             lower (sc (heap q) c) (sc (heap q) j) = false) ->
  sift_post q (sift_down f (swap q c i) c).
Proof.
  intros f q i c IH HWF Hf Hdn Hc Hc0 Hpc Hlow Hmax.
  assert (Hic : i < c) by plia.
  destruct (swap_spec q c i HWF Hc ltac:(lia) ltac:(lia)) as [HWF' Hsw].
  pose proof (down_step _ _ _ _ Hsw Hc Hc0 Hpc Hdn Hlow Hmax) as Hdn'.
  assert (Hlen : length (heap (swap q c i)) = length (heap q)) by apply Hsw.
  destruct (IH _ c HWF' ltac:(lia) Hdn') as (W & L & I & O).
  split; [exact W|]. split; [lia|]. split; [|exact O].
  intros e. rewrite I. apply (swapped_In _ _ _ _ Hsw); lia.
Qed.

Lemma sift_down_spec : forall f q i, WF q -> length (heap q) <= i + f -> down_ok (heap q) i ->
  sift_post q (sift_down f q i).
Proof.
  induction f as [|f IH]; intros q i HWF Hf Hdn.
  - cbn [sift_down]. apply sift_post_refl; [exact HWF|].
    apply (down_done _ i Hdn). intros j Hj Hpj. exfalso. plia.
  - cbn [sift_down]. rewrite !score_lower_sc.
    assert (Hkids : forall j, 0 < j -> parent j = i -> j = 2 * i + 1 \/ j = 2 * i + 2)
      by (intros j Hj0 Hpj; plia).
    assert (Hpl : parent (2 * i + 1) = i) by plia.
    assert (Hpr : parent (2 * i + 2) = i) by plia.
    destruct (Nat.ltb_spec (2 * i + 2) (length (heap q))) as [Hr|Hr].
    + destruct (lower (sc (heap q) (2 * i + 1)) (sc (heap q) (2 * i + 2))) eqn:Hlr.
      * destruct (lower (sc (heap q) i) (sc (heap q) (2 * i + 2))) eqn:Hir.
        -- apply (sift_down_step f q i (2 * i + 2) IH); try assumption; try lia.
           intros j Hj Hpj. destruct (Hkids j ltac:(lia) Hpj) as [-> | ->].
           ++ apply lower_asym. exact Hlr.
           ++ apply lower_irrefl.
        -- apply sift_post_refl; [exact HWF|]. apply (down_done _ i Hdn).
           intros j Hj Hpj. destruct (Hkids j ltac:(lia) Hpj) as [-> | ->].
           ++ apply nl_lower_trans with (c := sc (heap q) (2 * i + 2)); assumption.
           ++ exact Hir.
      * destruct (lower (sc (heap q) i) (sc (heap q) (2 * i + 1))) eqn:Hil.
        -- apply (sift_down_step f q i (2 * i + 1) IH); try assumption; try lia.
           intros j Hj Hpj. destruct (Hkids j ltac:(lia) Hpj) as [-> | ->].
           ++ apply lower_irrefl.
           ++ exact Hlr.
        -- apply sift_post_refl; [exact HWF|]. apply (down_done _ i Hdn).
           intros j Hj Hpj. destruct (Hkids j ltac:(lia) Hpj) as [-> | ->].
           ++ exact Hil.
           ++ apply nl_trans with (b := sc (heap q) (2 * i + 1)); assumption.
    + destruct (Nat.ltb_spec (2 * i + 1) (length (heap q))) as [Hl|Hl].
      * destruct (lower (sc (heap q) i) (sc (heap q) (2 * i + 1))) eqn:Hil.
        -- apply (sift_down_step f q i (2 * i + 1) IH); try assumption; try lia.
           intros j Hj Hpj. destruct (Hkids j ltac:(lia) Hpj) as [-> | ->].
           ++ apply lower_irrefl.
           ++ exfalso. lia.
        -- apply sift_post_refl; [exact HWF|]. apply (down_done _ i Hdn).
           intros j Hj Hpj. destruct (Hkids j ltac:(lia) Hpj) as [-> | ->].
           ++ exact Hil.
           ++ exfalso. lia.
      * apply sift_post_refl; [exact HWF|]. apply (down_done _ i Hdn).
        intros j Hj Hpj. exfalso. destruct (Hkids j ltac:(lia) Hpj); lia.
Qed.

(* ------------------------------------------------------------------------------------------ *)
(* 8. the refinement relation                                                                   *)

Definition Rel (h : list entry) (m : amap) : Prop :=
  anodup m /\ length m = length h /\ forall it s, aget m it = Some s <-> In (s, it) h.

Definition Inv (q : pq) (m : amap) : Prop := WF q /\ hord (heap q) /\ Rel (heap q) m.

Lemma Inv_empty : Inv empty_pq [].
Proof.
  split; [|split].
  - split; [exact I|]. intros it i. cbn. split; [discriminate|lia].
  - intros j Hj. cbn in Hj. lia.
  - split; [exact I|]. split; [reflexivity|]. intros it s. cbn. split; [discriminate|tauto].
Qed.

Lemma Rel_set : forall (h h' : list entry) (m : amap) (it : Z) (s : score),
  Rel h m ->
  (forall s' it', In (s', it') h' <-> (it' = it /\ s' = s) \/ (it' <> it /\ In (s', it') h)) ->
  length h' = match aget m it with None => S (length h) | Some _ => length h end ->
  Rel h' (aset m it s).
Proof.
  intros h h' m it s (Hnd & Hlen & Hget) Hin Hl.
  split; [apply anodup_aset; exact Hnd|]. split.
  - unfold aset. cbn [length]. rewrite Hl. destruct (aget m it) eqn:Hg.
    + rewrite <- Hlen. apply (length_aremove_some _ _ _ Hnd Hg).
    + rewrite (aremove_none _ _ Hg). lia.
  - intros it' s'. rewrite aget_aset, Hin. destruct (Z.eqb_spec it it') as [E|NE].
    + subst it'. split.
      * intros [= <-]. left. split; reflexivity.
      * intros [[_ ->]|[NE _]]; [reflexivity|contradiction].
    + rewrite Hget. split.
      * intros H. right. split; [congruence|exact H].
      * intros [[E _]|[_ H]]; [congruence|exact H].
Qed.

Lemma Rel_remove : forall (h h' : list entry) (m : amap) (it0 : Z),
  Rel h m -> (exists s0, In (s0, it0) h) ->
  (forall e, In e h' <-> In e h /\ snd e <> it0) ->
  S (length h') = length h ->
  Rel h' (aremove m it0).
Proof.
  intros h h' m it0 (Hnd & Hlen & Hget) [s0 Hin0] Hin Hl.
  split; [apply anodup_aremove; exact Hnd|]. split.
  - apply Hget in Hin0. pose proof (length_aremove_some _ _ _ Hnd Hin0). lia.
  - intros it s. rewrite aget_aremove, Hin. cbn [snd]. destruct (Z.eqb_spec it0 it) as [E|NE].
    + split; [discriminate|]. intros [_ H]. congruence.
    + rewrite Hget. split; [intros H; split; [exact H|congruence]|intros [H _]; exact H].
Qed.

Lemma Inv_find_some : forall q m it i, Inv q m -> pos_find (pos q) it = Some i ->
  aget m it = Some (sc (heap q) i).
Proof.
  intros q m it i ((_ & Hpos) & _ & (_ & _ & Hget)) Hf.
  apply Hpos in Hf as [Hi Hs]. apply Hget. apply In_hget. exists i. split; [exact Hi|].
  unfold sc. rewrite <- Hs. apply surjective_pairing.
Qed.

Lemma Inv_aget_some : forall q m it s, Inv q m -> aget m it = Some s ->
  exists i, i < length (heap q) /\ hget (heap q) i = (s, it) /\ pos_find (pos q) it = Some i.
Proof.
  intros q m it s ((_ & Hpos) & _ & (_ & _ & Hget)) Hg.
  apply Hget in Hg. apply In_hget in Hg as (i & Hi & He). exists i.
  split; [exact Hi|]. split; [exact He|]. apply Hpos. split; [exact Hi|]. rewrite He. reflexivity.
Qed.

Lemma get_ok : forall q m it, Inv q m -> oscore_eqb (get_score q it) (aget m it) = true.
Proof.
  intros q m it HInv. unfold get_score. destruct (pos_find (pos q) it) as [i|] eqn:Hf.
  - rewrite (Inv_find_some _ _ _ _ HInv Hf). cbn [oscore_eqb]. apply score_eqb_refl.
  - destruct (aget m it) as [s|] eqn:Hg; [|reflexivity].
    destruct (Inv_aget_some _ _ _ _ HInv Hg) as (i & _ & _ & Hf'). congruence.
Qed.

(* ------------------------------------------------------------------------------------------ *)
(* 9. one lemma per operation                                                                   *)

Lemma push_ok : forall q m s it, Inv q m -> aget m it = None -> Inv (push q s it) (aset m it s).
Proof.
  intros q m s it (HWF & Hord & HRel) Hnone.
  assert (Hfresh : forall i, i < length (heap q) -> snd (hget (heap q) i) <> it).
  { intros i Hi E. destruct HRel as (_ & _ & Hget).
    assert (In (sc (heap q) i, it) (heap q)) as Hin.
    { apply In_hget. exists i. split; [exact Hi|]. unfold sc. rewrite <- E. apply surjective_pairing. }
    apply Hget in Hin. congruence. }
  set (q1 := PQ (heap q ++ [(s, it)]) (pos_set (pos q) it (length (heap q)))).
  assert (Hlen1 : length (heap q1) = S (length (heap q))).
  { unfold q1; cbn [heap]. rewrite app_length. cbn [length]. lia. }
  assert (HWF1 : WF q1).
  { destruct HWF as [Hnd Hpos]. split.
    - unfold q1; cbn [pos]. apply nodupk_set; exact Hnd.
    - intros it' i. rewrite Hlen1. unfold q1; cbn [pos heap]. rewrite pos_find_set.
      destruct (Z.eqb_spec it it') as [E|NE].
      + subst it'. split.
        * intros [= <-]. split; [lia|]. rewrite hget_app_last. reflexivity.
        * intros [Hi Hs]. f_equal.
          destruct (Nat.eq_dec i (length (heap q))) as [Ei|NEi]; [auto|]. exfalso.
          rewrite hget_app_l in Hs by lia. apply (Hfresh i); [lia|exact Hs].
      + split.
        * intros Hf. apply Hpos in Hf as [Hi Hs]. split; [lia|].
          rewrite hget_app_l by lia. exact Hs.
        * intros [Hi Hs]. destruct (Nat.eq_dec i (length (heap q))) as [->|NEi].
          -- rewrite hget_app_last in Hs. cbn [snd] in Hs. congruence.
          -- rewrite hget_app_l in Hs by lia. apply Hpos. split; [lia|exact Hs]. }
  assert (Hup : up_ok (heap q1) (length (heap q))).
  { split.
    - intros j Hj Hjn. rewrite Hlen1 in Hj. unfold q1; cbn [heap]. unfold sc.
      rewrite !hget_app_l by plia. apply Hord. lia.
    - intros j Hj Hpj _. rewrite Hlen1 in Hj. exfalso. plia. }
  change (push q s it) with (sift_up (S (length (heap q))) q1 (length (heap q))).
  destruct (sift_up_spec (S (length (heap q))) q1 (length (heap q)) HWF1 ltac:(lia) ltac:(lia) Hup)
    as (W & L & I & O).
  split; [exact W|]. split; [exact O|].
  apply (Rel_set (heap q)); [exact HRel| |].
  - intros s' it'. rewrite I. unfold q1; cbn [heap]. rewrite in_app_iff. cbn [In]. split.
    + intros [Hin|[E|[]]].
      * right. split; [|exact Hin]. apply In_hget in Hin as (i & Hi & He). intros ->.
        apply (Hfresh i Hi). rewrite He. reflexivity.
      * left. inversion E. split; reflexivity.
    + intros [[-> ->]|[_ Hin]]; [right; left; reflexivity|left; exact Hin].
  - rewrite Hnone, L. exact Hlen1.
Qed.

Lemma change_ok : forall q m it s s0, Inv q m -> aget m it = Some s0 ->
  Inv (change_score q it s) (aset m it s).
Proof.
  intros q m it s s0 HInv Hsome.
  destruct (Inv_aget_some _ _ _ _ HInv Hsome) as (k & Hk & Hek & Hfk).
  destruct HInv as (HWF & Hord & HRel).
  unfold change_score. cbv zeta. unfold pos_get. rewrite Hfk, Hek. cbn [fst snd].
  set (q1 := PQ (hset (heap q) k (s, it)) (pos q)).
  assert (Hsnd : forall i, snd (hget (heap q1) i) = snd (hget (heap q) i)).
  { intros i. unfold q1; cbn [heap]. destruct (Nat.eq_dec k i) as [<-|NE].
    - rewrite hget_hset_eq by exact Hk. rewrite Hek. reflexivity.
    - rewrite hget_hset_neq by exact NE. reflexivity. }
  assert (Hlen1 : length (heap q1) = length (heap q)) by (unfold q1; cbn [heap]; apply length_hset).
  assert (HWF1 : WF q1).
  { destruct HWF as [Hnd Hpos]. split; [exact Hnd|]. intros it' i. rewrite Hlen1, Hsnd.
    change (pos q1) with (pos q). apply Hpos. }
  assert (Hsck : sc (heap q1) k = s).
  { unfold sc, q1; cbn [heap]. rewrite hget_hset_eq by exact Hk. reflexivity. }
  assert (Hsc1 : forall i, i <> k -> sc (heap q1) i = sc (heap q) i).
  { intros i NE. unfold sc, q1; cbn [heap]. rewrite hget_hset_neq by congruence. reflexivity. }
  assert (Hsc0 : sc (heap q) k = s0) by (unfold sc; rewrite Hek; reflexivity).
  assert (Hgp : forall j, 0 < j < length (heap q1) -> parent j = k -> 0 < k ->
                lower (sc (heap q1) (parent k)) (sc (heap q1) j) = false).
  { intros j Hj Hpj Hk0. rewrite Hlen1 in Hj. rewrite (Hsc1 j), (Hsc1 (parent k)) by plia.
    apply nl_trans with (b := sc (heap q) k); [apply Hord; lia|].
    rewrite <- Hpj. apply Hord. exact Hj. }
  assert (Hin1 : forall s' it', In (s', it') (heap q1) <->
                 (it' = it /\ s' = s) \/ (it' <> it /\ In (s', it') (heap q))).
  { intros s' it'. rewrite !In_hget. rewrite Hlen1. split.
    - intros (j & Hj & He). unfold q1 in He; cbn [heap] in He.
      destruct (Nat.eq_dec j k) as [->|NE].
      + left. rewrite hget_hset_eq in He by exact Hk. inversion He. split; reflexivity.
      + right. rewrite hget_hset_neq in He by congruence. split; [|exists j; split; assumption].
        intros ->. apply NE. apply (WF_inj q); try assumption. rewrite He, Hek. reflexivity.
    - intros [[-> ->]|[NE (j & Hj & He)]].
      + exists k. split; [exact Hk|]. unfold q1; cbn [heap]. apply hget_hset_eq. exact Hk.
      + exists j. split; [exact Hj|]. unfold q1; cbn [heap]. rewrite hget_hset_neq; [exact He|].
        intros ->. rewrite Hek in He. congruence. }
  assert (Hfin : forall q', sift_post q1 q' -> Inv q' (aset m it s)).
  { intros q' (W & L & I & O). split; [exact W|]. split; [exact O|].
    apply (Rel_set (heap q)); [exact HRel| |].
    - intros s' it'. rewrite I. apply Hin1.
    - rewrite Hsome. lia. }
  destruct (lower s0 s) eqn:Hlow; apply Hfin.
  - apply sift_up_spec; [exact HWF1|lia|lia|]. split; [|exact Hgp].
    intros j Hj Hjk. rewrite Hlen1 in Hj. destruct (Nat.eq_dec (parent j) k) as [E|NE].
    + rewrite E, Hsck, (Hsc1 j) by exact Hjk.
      apply lower_nl_trans with (a := s0); [exact Hlow|].
      rewrite <- Hsc0, <- E. apply Hord. exact Hj.
    + rewrite (Hsc1 j), (Hsc1 (parent j)) by assumption. apply Hord. exact Hj.
  - apply sift_down_spec; [exact HWF1|lia|]. split; [|exact Hgp].
    intros j Hj Hpj. rewrite Hlen1 in Hj. destruct (Nat.eq_dec j k) as [->|NE].
    + rewrite Hsck, (Hsc1 (parent k)) by plia.
      apply nl_trans with (b := s0); [|exact Hlow].
      rewrite <- Hsc0. apply Hord. exact Hj.
    + rewrite (Hsc1 j), (Hsc1 (parent j)) by assumption. apply Hord. exact Hj.
Qed.

Lemma pop_none : forall q m, Inv q m -> pop q = None -> m = [].
Proof.
  intros q m (_ & _ & (_ & Hlen & _)) Hp. unfold pop in Hp. revert Hp Hlen.
  destruct (heap q) as [|first t]; intros Hp Hlen.
  - destruct m; [reflexivity|cbn [length] in Hlen; lia].
  - exfalso. cbv zeta in Hp. destruct (Nat.eqb _ _) in Hp; discriminate.
Qed.

Lemma NoDup_items : forall q, WF q -> NoDup (map snd (heap q)).
Proof.
  intros q HWF. apply (NoDup_nth _ (snd dflt)). intros i j Hi Hj E.
  rewrite map_length in Hi, Hj. rewrite !map_nth in E. apply (WF_inj q); assumption.
Qed.

Lemma list_last_cases : forall (A : Type) (l : list A), l = [] \/ exists l' a, l = l' ++ [a].
Proof.
  intros A l. destruct l as [|x l0]; [left; reflexivity|right].
  destruct (@exists_last _ (x :: l0)) as (l' & a & E); [discriminate|].
  exists l', a. exact E.
Qed.

Lemma some_pair_inj : forall (A B : Type) (a a' : A) (b b' : B),
  Some (a, b) = Some (a', b') -> a = a' /\ b = b'.
Proof. intros A B a a' b b' H. inversion H. split; reflexivity. Qed.

Lemma pair_eta : forall (e : entry), (fst e, snd e) = e.
Proof. intros [a b]. reflexivity. Qed.

Lemma pop_some : forall q m e q', Inv q m -> pop q = Some (e, q') ->
  Inv q' (aremove m (snd e)) /\ aget m (snd e) = Some (fst e) /\
  (forall k s, aget m k = Some s -> lower (fst e) s = false).
Proof.
  intros q m e q' (HWF & Hord & HRel) Hp.
  pose proof (NoDup_items q HWF) as Hnd.
  pose proof (fun i j => WF_inj q i j HWF) as Hinj.
  assert (Hmax : forall x, In x (heap q) -> lower (sc (heap q) 0) (fst x) = false).
  { intros x Hx. apply In_hget in Hx as (i & Hi & <-). apply root_max; assumption. }
  destruct q as [h p]. cbn [heap pos] in *. unfold pop in Hp. cbn [heap pos] in Hp.
  destruct h as [|first t]; [discriminate|]. cbv beta iota zeta in Hp.
  assert (Hfirst : In (fst first, snd first) (first :: t)) by (left; symmetry; apply pair_eta).
  assert (Hgfirst : aget m (snd first) = Some (fst first)) by (apply HRel; exact Hfirst).
  assert (Hmx : forall k s, aget m k = Some s -> lower (fst first) s = false).
  { intros k s Hks. apply HRel in Hks. exact (Hmax _ Hks). }
  destruct (list_last_cases _ t) as [->|(t' & lst & ->)].
  - (* a single element *)
    cbn [length Nat.eqb] in Hp. apply some_pair_inj in Hp as [<- <-].
    split; [|split; assumption].
    split; [|split].
    + destruct HWF as [Hndk Hpos]. cbn [heap pos] in *. split; cbn [heap pos].
      * apply nodupk_erase; exact Hndk.
      * intros it i. rewrite pos_find_erase by exact Hndk. cbn [length].
        destruct (Z.eqb_spec (snd first) it) as [E|NE]; [split; [discriminate|lia]|].
        split; [|lia]. intros Hf. apply Hpos in Hf as [Hi Hs]. cbn [length] in Hi.
        assert (i = 0) as -> by lia. cbn in Hs. contradiction.
    + intros j Hj. cbn [heap length] in Hj. lia.
    + cbn [heap]. apply (Rel_remove [first]); [exact HRel|exists (fst first); exact Hfirst| |reflexivity].
      intros e. cbn [In]. split; [tauto|]. intros [[<-|[]] Hne]. exfalso. apply Hne. reflexivity.
  - (* at least two elements *)
    assert (Hn : length (first :: t' ++ [lst]) = S (S (length t'))).
    { cbn [length]. rewrite app_length. cbn [length]. lia. }
    assert (Hg0 : hget (first :: t' ++ [lst]) 0 = first) by reflexivity.
    assert (Hgl : hget (first :: t' ++ [lst]) (S (length t')) = lst).
    { unfold hget. cbn [nth]. exact (hget_app_last t' lst). }
    assert (Hgi : forall i, 0 < i < S (length t') ->
                  hget (lst :: t') i = hget (first :: t' ++ [lst]) i).
    { intros i Hi. destruct i as [|i']; [lia|]. unfold hget. cbn [nth]. symmetry.
      apply app_nth1. lia. }
    assert (Hh1 : removelast (hset (first :: t' ++ [lst]) 0 lst) = lst :: t').
    { cbn [hset]. change (lst :: t' ++ [lst]) with ((lst :: t') ++ [lst]). apply removelast_last. }
    rewrite Hn in Hp. cbn [Nat.eqb] in Hp.
    replace (S (S (length t')) - 1) with (S (length t')) in Hp by lia.
    rewrite Hgl, Hh1 in Hp. apply some_pair_inj in Hp as [<- <-].
    set (h := first :: t' ++ [lst]) in *.
    set (p1 := pos_erase (pos_set p (snd lst) 0) (snd first)).
    assert (HWF1 : WF (PQ (lst :: t') p1)).
    { destruct HWF as [Hndk Hpos]. cbn [heap pos] in Hpos, Hndk. split; cbn [heap pos].
      - apply nodupk_erase, nodupk_set, Hndk.
      - intros it i. unfold p1. rewrite pos_find_erase by (apply nodupk_set; exact Hndk).
        rewrite pos_find_set. cbn [length].
        destruct (Z.eqb_spec (snd first) it) as [E1|N1].
        + split; [discriminate|]. intros [Hi Hs]. exfalso. destruct i as [|i'].
          * cbn in Hs. assert (S (length t') = 0); [|lia].
            apply Hinj; [lia|lia|]. rewrite Hgl, Hg0. congruence.
          * rewrite Hgi in Hs by lia. assert (S i' = 0); [|lia].
            apply Hinj; [lia|lia|]. rewrite Hg0. congruence.
        + destruct (Z.eqb_spec (snd lst) it) as [E2|N2].
          * split.
            -- intros [= <-]. split; [lia|exact E2].
            -- intros [Hi Hs]. f_equal. destruct i as [|i']; [reflexivity|]. exfalso.
               rewrite Hgi in Hs by lia. assert (S i' = S (length t')); [|lia].
               apply Hinj; [lia|lia|]. rewrite Hgl. congruence.
          * split.
            -- intros Hf. apply Hpos in Hf as [Hi Hs].
               assert (i <> 0) by (intros ->; rewrite Hg0 in Hs; contradiction).
               assert (i <> S (length t')) by (intros ->; rewrite Hgl in Hs; contradiction).
               split; [lia|]. rewrite Hgi by lia. exact Hs.
            -- intros [Hi Hs]. destruct i as [|i']; [cbn in Hs; contradiction|].
               rewrite Hgi in Hs by lia. apply Hpos. split; [lia|exact Hs]. }
    assert (Hdn : down_ok (lst :: t') 0).
    { split.
      - intros j Hj Hpj. cbn [length] in Hj. unfold sc. rewrite !Hgi by plia.
        apply Hord. lia.
      - intros j _ _ H0. lia. }
    destruct (sift_down_spec (S (S (length t'))) (PQ (lst :: t') p1) 0 HWF1
                ltac:(cbn [heap length]; lia) Hdn) as (W & L & I & O).
    cbn [heap] in L, I.
    split; [|split; assumption].
    split; [exact W|]. split; [exact O|].
    apply (Rel_remove h); [exact HRel|exists (fst first); exact Hfirst| |].
    + intros e. rewrite I.
      assert (Hiff : In e (lst :: t') <-> In e (t' ++ [lst])).
      { cbn [In]. rewrite in_app_iff. cbn [In]. tauto. }
      rewrite Hiff. unfold h in Hnd |- *. cbn [map] in Hnd. apply NoDup_cons_iff in Hnd as [Hnotin _].
      cbn [In]. split.
      * intros Hin. split; [right; exact Hin|]. intros E. apply Hnotin. rewrite <- E.
        apply in_map. exact Hin.
      * intros [[<-|Hin] Hne]; [exfalso; apply Hne; reflexivity|exact Hin].
    + rewrite L. cbn [length]. lia.
Qed.

(* ------------------------------------------------------------------------------------------ *)
(* 10. histories                                                                                *)

Lemma step_ok : forall q m o, Inv q m -> valid_op m o = true ->
  ok_out m o (snd (step q o)) = true /\ Inv (fst (step q o)) (astep m o (snd (step q o))).
Proof.
  intros q m o HInv Hv. destruct o as [s it| |it s|it| ]; cbn [step].
  - cbn [fst snd ok_out astep]. split; [reflexivity|]. cbn [valid_op] in Hv.
    destruct (aget m it) eqn:Hg; [discriminate|]. apply push_ok; assumption.
  - destruct (pop q) as [[e q']|] eqn:Hp; cbn [fst snd].
    + destruct (pop_some _ _ _ _ HInv Hp) as (HI & Hg & Hmx). destruct e as [s it].
      cbn [fst snd] in *. cbn [ok_out astep]. split; [|exact HI].
      rewrite Hg. cbn [oscore_eqb]. rewrite score_eqb_refl. cbn [andb].
      apply forallb_forall. intros [k s'] Hin. cbn [snd].
      rewrite (Hmx k s'); [reflexivity|].
      destruct HInv as (_ & _ & (Hnd & _ & _)). apply In_aget; assumption.
    + cbn [ok_out astep]. split; [|exact HInv]. rewrite (pop_none _ _ HInv Hp). reflexivity.
  - cbn [valid_op] in Hv. destruct (aget m it) eqn:Hg; [|discriminate].
    cbn [fst snd ok_out astep]. split; [reflexivity|]. apply (change_ok _ _ _ _ _ HInv Hg).
  - cbn [fst snd ok_out astep]. split; [apply get_ok; exact HInv|exact HInv].
  - cbn [fst snd ok_out astep]. split; [|exact HInv]. unfold size. apply Nat.eqb_eq.
    destruct HInv as (_ & _ & (_ & Hlen & _)). symmetry. exact Hlen.
Qed.

Lemma run_ok : forall ops q m, Inv q m -> check_trace m ops (run q ops) = true.
Proof.
  induction ops as [|o ops IH]; intros q m HInv; cbn [run]; [reflexivity|].
  destruct (step q o) as [q' r] eqn:Hs. cbn [check_trace].
  destruct (valid_op m o) eqn:Hv; [|reflexivity].
  destruct (step_ok q m o HInv Hv) as [Hok HI]. rewrite Hs in Hok, HI. cbn [fst snd] in Hok, HI.
  rewrite Hok. cbn [andb]. apply IH. exact HI.
Qed.

Lemma pq_refines_map : forall ops : list op, check_trace [] ops (run empty_pq ops) = true.
Proof. intros ops. apply run_ok. exact Inv_empty. Qed.

Lemma run_app : forall a q b, run q (a ++ b) = run q a ++ run (run_state q a) b.
Proof.
  induction a as [|o a IH]; intros q b; cbn [app run run_state]; [reflexivity|].
  destruct (step q o) as [q' r]. cbn [fst app]. rewrite IH. reflexivity.
Qed.

Lemma all_valid_inv : forall ops q m, Inv q m -> all_valid m ops (run q ops) = true ->
  exists m', Inv (run_state q ops) m'.
Proof.
  induction ops as [|o ops IH]; intros q m HInv Hav; cbn [run run_state] in *;
    [exists m; exact HInv|].
  revert Hav. destruct (step q o) as [q' r] eqn:Hs. intros Hav.
  cbn [all_valid fst] in *. apply andb_true_iff in Hav as [Hv Hav].
  destruct (step_ok q m o HInv Hv) as [_ HI]. rewrite Hs in HI. cbn [fst snd] in HI.
  exact (IH _ _ HI Hav).
Qed.

Lemma run2 : forall q o1 o2,
  run q [o1; o2] = [snd (step q o1); snd (step (fst (step q o1)) o2)].
Proof.
  intros q o1 o2. cbn [run]. destruct (step q o1) as [q1 r1]. cbn [fst snd].
  destruct (step q1 o2) as [q2 r2]. reflexivity.
Qed.

Lemma drain_sorted : forall (ops : list op) e1 e2 pre,
  all_valid [] ops (run empty_pq ops) = true ->
  run empty_pq (ops ++ [OPop; OPop]) = pre ++ [RPop (Some e1); RPop (Some e2)] ->
  lower (fst e1) (fst e2) = false.
Proof.
  intros ops e1 e2 pre Hav Hrun.
  destruct (all_valid_inv ops empty_pq [] Inv_empty Hav) as [m HInv].
  rewrite run_app, run2 in Hrun.
  set (q := run_state empty_pq ops) in *.
  change (pre ++ [RPop (Some e1); RPop (Some e2)])
    with (pre ++ [RPop (Some e1)] ++ [RPop (Some e2)]) in Hrun.
  change [snd (step q OPop); snd (step (fst (step q OPop)) OPop)]
    with ([snd (step q OPop)] ++ [snd (step (fst (step q OPop)) OPop)]) in Hrun.
  rewrite !app_assoc in Hrun.
  apply app_inj_tail in Hrun as [Hrun E2]. apply app_inj_tail in Hrun as [_ E1].
  cbn [step] in E1, E2.
  destruct (pop q) as [[x1 q1]|] eqn:Hp1; cbn [fst snd] in E1, E2; [|discriminate].
  destruct (pop q1) as [[x2 q2]|] eqn:Hp2; cbn [fst snd] in E2; [|discriminate].
  inversion E1. inversion E2. subst x1 x2.
  destruct (pop_some _ _ _ _ HInv Hp1) as (HI1 & _ & Hmx).
  destruct (pop_some _ _ _ _ HI1 Hp2) as (_ & Hg2 & _).
  rewrite aget_aremove in Hg2. destruct (snd e1 =? snd e2)%Z; [discriminate|].
  exact (Hmx _ _ Hg2).
Qed.
