(* Lemmas about the writer model of coq/model/VcfRecord.v (used by props/C04.v and props/C09.v). *)
From Coq Require Import ZArith List Bool Arith Lia Permutation.
From WH.Model Require Import VcfRecord.
Import ListNotations.
Open Scope Z_scope.

(* ------------------------------------------------------------------ boolean equalities *)
Lemma all2_refl {A} (f : A -> A -> bool) (l : list A) :
  (forall x, In x l -> f x x = true) -> all2 f l l = true.
Proof.
  induction l as [|x l IH]; intros H; cbn [all2]; [reflexivity|].
  rewrite H by (left; reflexivity). cbn. apply IH. intros y Hy. apply H. right. exact Hy.
Qed.

Lemma opt_eqb_refl {A} (f : A -> A -> bool) (o : option A) :
  (forall x, o = Some x -> f x x = true) -> opt_eqb f o o = true.
Proof. destruct o; cbn; auto. Qed.

Lemma allele_eqb_refl a : allele_eqb a a = true.
Proof. apply opt_eqb_refl. intros x _. apply Nat.eqb_refl. Qed.

Lemma hpitem_eqb_refl x : hpitem_eqb x x = true.
Proof. destruct x; cbn; rewrite ?Z.eqb_refl; reflexivity. Qed.

Lemma gt_eqb_refl g : gt_eqb g g = true.
Proof.
  apply opt_eqb_refl. intros l _. apply all2_refl. intros; apply allele_eqb_refl.
Qed.

Lemma hp_eqb_refl h : hp_eqb h h = true.
Proof. apply opt_eqb_refl. intros l _. apply all2_refl. intros; apply hpitem_eqb_refl. Qed.

Lemma other_eqb_refl o : other_eqb o o = true.
Proof.
  apply all2_refl. intros [a b] _. unfold pair_eqb. cbn. rewrite !Z.eqb_refl. reflexivity.
Qed.

Lemma oz_eqb_refl (o : option Z) : opt_eqb Z.eqb o o = true.
Proof. apply opt_eqb_refl. intros; apply Z.eqb_refl. Qed.

Lemma call_eqb_refl c : call_eqb c c = true.
Proof.
  unfold call_eqb. rewrite gt_eqb_refl, Bool.eqb_reflx, !oz_eqb_refl, hp_eqb_refl, other_eqb_refl.
  reflexivity.
Qed.

Lemma call_sim_refl c : call_sim c c = true.
Proof. apply call_eqb_refl. Qed.

Lemma info_eqb_refl i : info_eqb i i = true.
Proof.
  apply all2_refl. intros [a b] _. unfold pair_eqb. cbn. rewrite !Z.eqb_refl. reflexivity.
Qed.

Lemma list_z_eqb_refl (l : list Z) : list_eqb Z.eqb l l = true.
Proof. apply all2_refl. intros; apply Z.eqb_refl. Qed.

Lemma list_nat_eqb_refl l : list_nat_eqb l l = true.
Proof. induction l; cbn; [reflexivity|]. rewrite Nat.eqb_refl. exact IHl. Qed.

Lemma list_nat_eqb_eq a b : list_nat_eqb a b = true -> a = b.
Proof.
  revert b. induction a as [|x a IH]; intros [|y b] H; cbn in H; try discriminate; [reflexivity|].
  apply andb_prop in H. destruct H as [H1 H2]. apply Nat.eqb_eq in H1. subst. f_equal. auto.
Qed.

(* ------------------------------------------------------------------ insertion sort *)
Lemma insert_asc_perm a l : Permutation (insert_asc a l) (a :: l).
Proof.
  induction l as [|b l IH]; cbn [insert_asc]; [reflexivity|].
  destruct (a <=? b)%nat; [reflexivity|].
  rewrite IH. apply perm_swap.
Qed.

Lemma sort_asc_perm l : Permutation (sort_asc l) l.
Proof.
  induction l as [|a l IH]; cbn; [reflexivity|].
  unfold sort_asc in *. cbn [fold_right]. rewrite insert_asc_perm. constructor. exact IH.
Qed.

Lemma insert_asc_comm a b l : insert_asc a (insert_asc b l) = insert_asc b (insert_asc a l).
Proof.
  induction l as [|c l IH]; cbn [insert_asc].
  - destruct (a <=? b)%nat eqn:E1, (b <=? a)%nat eqn:E2; cbn [insert_asc]; rewrite ?E1, ?E2; try reflexivity.
    + apply Nat.leb_le in E1, E2. assert (a = b) by lia. subst. reflexivity.
    + apply Nat.leb_gt in E1, E2. lia.
  - destruct (b <=? c)%nat eqn:Ebc, (a <=? c)%nat eqn:Eac; cbn [insert_asc].
    + destruct (a <=? b)%nat eqn:E1, (b <=? a)%nat eqn:E2; cbn [insert_asc]; rewrite ?Ebc, ?Eac, ?E1, ?E2; try reflexivity.
      * apply Nat.leb_le in E1, E2. assert (a = b) by lia. subst. reflexivity.
      * apply Nat.leb_gt in E1, E2. lia.
    + assert (Hab : (a <=? b)%nat = false).
      { apply Nat.leb_gt. apply Nat.leb_le in Ebc. apply Nat.leb_gt in Eac. lia. }
      rewrite Hab, Ebc. cbn [insert_asc]. rewrite Eac.
      assert (Hba : (b <=? a)%nat = true).
      { apply Nat.leb_le. apply Nat.leb_le in Ebc. apply Nat.leb_gt in Eac. lia. }
      reflexivity.
    + assert (Hba : (b <=? a)%nat = false).
      { apply Nat.leb_gt. apply Nat.leb_gt in Ebc. apply Nat.leb_le in Eac. lia. }
      rewrite Eac. cbn [insert_asc]. rewrite Hba, Ebc. reflexivity.
    + rewrite Eac, Ebc. f_equal. exact IH.
Qed.

Lemma sort_asc_perm_eq a b : Permutation a b -> sort_asc a = sort_asc b.
Proof.
  unfold sort_asc. induction 1; cbn [fold_right].
  - reflexivity.
  - f_equal. assumption.
  - apply insert_asc_comm.
  - congruence.
Qed.

Lemma sort_asc_idem l : sort_asc (sort_asc l) = sort_asc l.
Proof. apply sort_asc_perm_eq. apply sort_asc_perm. Qed.

Lemma insert_asc_map_S a l : insert_asc (S a) (map S l) = map S (insert_asc a l).
Proof.
  induction l as [|b l IH]; cbn; [reflexivity|].
  destruct (a <=? b)%nat; cbn; [reflexivity|]. f_equal. exact IH.
Qed.

Lemma sort_asc_map_S l : sort_asc (map S l) = map S (sort_asc l).
Proof.
  induction l as [|a l IH]; [reflexivity|].
  unfold sort_asc in *. cbn [map fold_right]. rewrite IH. apply insert_asc_map_S.
Qed.

Lemma sort_asc_length l : length (sort_asc l) = length l.
Proof. apply Permutation_length. apply sort_asc_perm. Qed.

Lemma sort_asc_nil l : sort_asc l = [] -> l = [].
Proof.
  intros H. apply (f_equal (@length nat)) in H. rewrite sort_asc_length in H.
  destruct l; [reflexivity|discriminate].
Qed.

(* ------------------------------------------------------------------ called genotypes *)
Lemma all_called_map_Some ns : all_called (map Some ns) = Some ns.
Proof. induction ns; cbn; [reflexivity|]. rewrite IHns. reflexivity. Qed.

Lemma all_called_Some l ns : all_called l = Some ns -> l = map Some ns.
Proof.
  revert ns. induction l as [|[a|] l IH]; intros ns H; cbn in H.
  - inversion H. reflexivity.
  - destruct (all_called l) eqn:E; [|discriminate]. inversion H. subst. cbn. f_equal. auto.
  - discriminate.
Qed.

Lemma map_acode_Some ns : map acode (map Some ns) = map S ns.
Proof. induction ns; cbn; congruence. Qed.

(* homozygosity depends on the multiset only *)
Lemma is_homozygous_true_iff l :
  is_homozygous l = true <-> exists a, l <> [] /\ Forall (eq a) l.
Proof.
  destruct l as [|a t]; cbn.
  - split; [discriminate|]. intros [a [H _]]. congruence.
  - rewrite forallb_forall. split.
    + intros H. exists a. split; [discriminate|]. constructor; [reflexivity|].
      apply Forall_forall. intros x Hx. specialize (H x Hx). apply Nat.eqb_eq in H. exact H.
    + intros [b [_ H]]. inversion H as [|? ? H1 H2]. subst. intros x Hx.
      rewrite Forall_forall in H2. specialize (H2 x Hx). subst. apply Nat.eqb_refl.
Qed.

Lemma is_homozygous_perm a b : Permutation a b -> is_homozygous a = is_homozygous b.
Proof.
  intros P.
  destruct (is_homozygous a) eqn:Ea, (is_homozygous b) eqn:Eb; try reflexivity.
  - apply is_homozygous_true_iff in Ea. destruct Ea as [x [Hn Hf]].
    assert (is_homozygous b = true); [|congruence].
    apply is_homozygous_true_iff. exists x. split.
    + intros ->. symmetry in P. apply Permutation_nil in P. congruence.
    + eapply Permutation_Forall; eauto.
  - apply is_homozygous_true_iff in Eb. destruct Eb as [x [Hn Hf]].
    assert (is_homozygous a = true); [|congruence].
    apply is_homozygous_true_iff. exists x. split.
    + intros ->. apply Permutation_nil in P. congruence.
    + eapply Permutation_Forall; [symmetry|]; eauto.
Qed.

Lemma is_homozygous_sort l : is_homozygous (sort_asc l) = is_homozygous l.
Proof. apply is_homozygous_perm. apply sort_asc_perm. Qed.

Lemma het_call_of_list c ns :
  gt c = Some (map Some ns) -> ns <> [] -> is_homozygous ns = false -> het_call c = true.
Proof.
  intros Hg Hn Hh. unfold het_call. rewrite Hg, all_called_map_Some.
  destruct ns as [|a t]; [congruence|]. cbn in Hh. rewrite Hh. reflexivity.
Qed.

(* ------------------------------------------------------------------ updating one column *)
Lemma upd_nth_spec {A} (l : list A) j f l' :
  upd_nth l j f = Ok l' ->
  length l' = length l /\
  (forall i, i <> j -> nth_error l' i = nth_error l i) /\
  (forall x, nth_error l j = Some x -> exists y, f x = Ok y /\ nth_error l' j = Some y).
Proof.
  revert j l'. induction l as [|a l IH]; intros j l' H.
  - cbn in H. inversion H. subst. repeat split; auto. intros x Hx. destruct j; discriminate.
  - destruct j as [|j]; cbn [upd_nth] in H.
    + destruct (f a) as [y|e] eqn:Ef; cbn in H; [|discriminate]. inversion H. subst.
      repeat split; auto.
      * intros [|i] Hi; [congruence|reflexivity].
      * intros x Hx. cbn in Hx. inversion Hx. subst. exists y. split; auto.
    + destruct (upd_nth l j f) as [t'|e] eqn:Eu; cbn in H; [|discriminate]. inversion H. subst.
      destruct (IH _ _ Eu) as [Hl [Hn Hj]].
      repeat split.
      * cbn. congruence.
      * intros [|i] Hi; [reflexivity|]. cbn. apply Hn. congruence.
      * intros x Hx. cbn in Hx. destruct (Hj x Hx) as [y [Hy1 Hy2]]. exists y. split; auto.
Qed.

Lemma upd_nth_total {A} (l : list A) j (f : A -> A) :
  exists l', upd_nth l j (fun x => Ok (f x)) = Ok l'.
Proof.
  revert j. induction l as [|a l IH]; intros j; [exists []; reflexivity|].
  destruct j as [|j]; cbn [upd_nth bind]; [eexists; reflexivity|].
  destruct (IH j) as [l' Hl']. rewrite Hl'. cbn. eexists; reflexivity.
Qed.

Lemma map_nth_spec {A} (l : list A) j (f : A -> A) :
  length (map_nth l j f) = length l /\
  (forall i, i <> j -> nth_error (map_nth l j f) i = nth_error l i) /\
  nth_error (map_nth l j f) j = option_map f (nth_error l j).
Proof.
  unfold map_nth. destruct (upd_nth_total l j f) as [l' Hl']. rewrite Hl'.
  destruct (upd_nth_spec _ _ _ _ Hl') as [H1 [H2 H3]]. repeat split; auto.
  destruct (nth_error l j) as [x|] eqn:E.
  - destruct (H3 x eq_refl) as [y [Hy1 Hy2]]. inversion Hy1. subst. exact Hy2.
  - cbn. apply nth_error_None. rewrite H1. apply nth_error_None. exact E.
Qed.

Lemma is_target_cons t ts i :
  is_target (t :: ts) i = Nat.eqb (t_sample t) i || is_target ts i.
Proof. reflexivity. Qed.

Lemma target_of_none_iff ts i : target_of ts i = None <-> is_target ts i = false.
Proof.
  unfold target_of, is_target. induction ts as [|t ts IH]; cbn; [tauto|].
  destruct (Nat.eqb (t_sample t) i); cbn; [split; discriminate|exact IH].
Qed.

Lemma target_of_some ts i t : target_of ts i = Some t -> In t ts /\ t_sample t = i.
Proof.
  unfold target_of. intros H. apply find_some in H. destruct H as [H1 H2].
  apply Nat.eqb_eq in H2. auto.
Qed.

Lemma target_of_not_in ts i : ~ In i (map t_sample ts) -> target_of ts i = None.
Proof.
  intros H. destruct (target_of ts i) as [t|] eqn:E; [|reflexivity].
  apply target_of_some in E. destruct E as [E1 E2]. exfalso. apply H. subst. apply in_map. exact E1.
Qed.

(* _remove_existing_phasing over all targets, column by column *)
Lemma remove_existing_spec ru tg ts cs :
  NoDup (map t_sample ts) ->
  length (remove_existing ru tg ts cs) = length cs /\
  forall i, nth_error (remove_existing ru tg ts cs) i =
            option_map (fun c => if is_target ts i then rm_phasing ru tg c else c) (nth_error cs i).
Proof.
  unfold remove_existing. revert cs. induction ts as [|t ts IH]; intros cs ND.
  - cbn. split; [reflexivity|]. intros i. destruct (nth_error cs i); reflexivity.
  - cbn [fold_left map] in *. inversion ND as [|? ? Hnin ND']. subst.
    destruct (map_nth_spec cs (t_sample t) (rm_phasing ru tg)) as [M1 [M2 M3]].
    destruct (IH (map_nth cs (t_sample t) (rm_phasing ru tg)) ND') as [I1 I2].
    split; [congruence|].
    intros i. rewrite I2. rewrite is_target_cons.
    destruct (Nat.eqb (t_sample t) i) eqn:E.
    + apply Nat.eqb_eq in E. subst i. rewrite M3.
      assert (Hn : is_target ts (t_sample t) = false).
      { apply target_of_none_iff. apply target_of_not_in. exact Hnin. }
      rewrite Hn. cbn. destruct (nth_error cs (t_sample t)); reflexivity.
    + apply Nat.eqb_neq in E. rewrite M2 by congruence. cbn. reflexivity.
Qed.

Lemma fold_err {A B} (f : res A -> B -> res A) (l : list B) e :
  (forall b e', f (Err e') b = Err e') -> fold_left f l (Err e) = Err e.
Proof. intros H. induction l as [|b l IH]; cbn; [reflexivity|]. rewrite H. exact IH. Qed.

Lemma update_targets_cons cf ru t ts p cs :
  update_targets cf ru (t :: ts) p cs =
  bind (upd_nth cs (t_sample t) (update_call cf ru t p)) (update_targets cf ru ts p).
Proof.
  unfold update_targets. cbn [fold_left bind].
  destruct (upd_nth cs (t_sample t) (update_call cf ru t p)) as [cs1|e]; cbn [bind]; [reflexivity|].
  apply fold_err. intros; reflexivity.
Qed.

Lemma target_of_cons t ts i :
  target_of (t :: ts) i = if Nat.eqb (t_sample t) i then Some t else target_of ts i.
Proof. reflexivity. Qed.

(* the loop `for sample in sample_superreads:` over all targets, column by column *)
Lemma update_targets_spec cf ru ts p cs cs2 :
  NoDup (map t_sample ts) ->
  update_targets cf ru ts p cs = Ok cs2 ->
  length cs2 = length cs /\
  forall i c, nth_error cs i = Some c ->
    match target_of ts i with
    | None => nth_error cs2 i = Some c
    | Some t => exists c', update_call cf ru t p c = Ok c' /\ nth_error cs2 i = Some c'
    end.
Proof.
  revert cs cs2. induction ts as [|t ts IH]; intros cs cs2 ND H.
  - cbn in H. inversion H. subst. split; [reflexivity|]. intros i c Hc. cbn. exact Hc.
  - rewrite update_targets_cons in H.
    destruct (upd_nth cs (t_sample t) (update_call cf ru t p)) as [cs1|e] eqn:Eu; cbn [bind] in H; [|discriminate].
    cbn [map] in ND. inversion ND as [|? ? Hnin ND']. subst.
    destruct (upd_nth_spec _ _ _ _ Eu) as [U1 [U2 U3]].
    destruct (IH _ _ ND' H) as [I1 I2].
    split; [congruence|].
    intros i c Hc. rewrite target_of_cons.
    destruct (Nat.eqb (t_sample t) i) eqn:E.
    + apply Nat.eqb_eq in E. subst i.
      destruct (U3 c Hc) as [c' [Hc1 Hc2]].
      exists c'. split; [exact Hc1|].
      specialize (I2 _ _ Hc2). rewrite (target_of_not_in _ _ Hnin) in I2. exact I2.
    + apply Nat.eqb_neq in E. apply I2. rewrite U2 by congruence. exact Hc.
Qed.

(* ------------------------------------------------------------------ the switchable rules *)
Record rules_ok (ru : rules) : Prop := mkRulesOk {
  rk_other : forall tg c, other (rm_phasing ru tg c) = other c;
  rk_gt_none : forall tg c, gt (rm_phasing ru tg c) = None <-> gt c = None;
  rk_multiset : forall tg c, gt_multiset_eqb (gt c) (gt (rm_phasing ru tg c)) = true;
  rk_code : forall tg c, genotype_code (gt (rm_phasing ru tg c)) = genotype_code (gt c);
  rk_ps_unmarked : forall c, marked TagPS (rm_phasing ru TagPS c) = false;
  rk_hp_marked : forall c, marked TagHP (rm_phasing ru TagHP c) = true -> rm_phasing ru TagHP c = c;
  rk_chg : forall g, Permutation (chg_order ru g) g;
  rk_unset : hp_missing (unset_hp ru) = true
}.

Lemma gt_multiset_eqb_refl g : gt_multiset_eqb g g = true.
Proof. destruct g; cbn; [apply list_nat_eqb_refl|reflexivity]. Qed.

Lemma unph_map {A B} (f : A -> B) (l : list A) : unph (map f l) = unph l.
Proof. unfold unph. rewrite map_length. reflexivity. Qed.

Lemma unphase_call_other c : other (unphase_call c) = other c.
Proof. unfold unphase_call. destruct (gt c) as [l|]; [|reflexivity]. destruct (all_called l); reflexivity. Qed.

Lemma unphase_call_gt_none c : gt (unphase_call c) = None <-> gt c = None.
Proof.
  unfold unphase_call. destruct (gt c) as [l|] eqn:E; [|rewrite E; tauto].
  destruct (all_called l); cbn; rewrite ?E; split; discriminate.
Qed.

Lemma unphase_call_multiset c : gt_multiset_eqb (gt c) (gt (unphase_call c)) = true.
Proof.
  unfold unphase_call. destruct (gt c) as [l|] eqn:E; [|rewrite E; reflexivity].
  destruct (all_called l) as [ns|] eqn:Ea; cbn [gt set_gt set_phased]; [|rewrite E; apply gt_multiset_eqb_refl].
  apply all_called_Some in Ea. subst l. cbn [gt_multiset_eqb].
  rewrite !map_acode_Some, !sort_asc_map_S, sort_asc_idem. apply list_nat_eqb_refl.
Qed.

Lemma unphase_call_code c : genotype_code (gt (unphase_call c)) = genotype_code (gt c).
Proof.
  unfold unphase_call. destruct (gt c) as [l|] eqn:E; [|rewrite E; reflexivity].
  destruct (all_called l) as [ns|] eqn:Ea; cbn [gt set_gt set_phased]; [|rewrite E; reflexivity].
  cbn [genotype_code]. rewrite all_called_map_Some, Ea. apply sort_asc_idem.
Qed.

Lemma unphase_call_unmarked c : marked TagPS (unphase_call c) = false.
Proof.
  unfold unphase_call. destruct (gt c) as [l|] eqn:E.
  - destruct (all_called l) as [ns|] eqn:Ea; cbn [marked gt phased set_gt set_phased].
    + apply all_called_Some in Ea. subst l. rewrite !unph_map.
      unfold unph. rewrite sort_asc_length. destruct (length ns <=? 1)%nat; reflexivity.
    + rewrite E. destruct (unph l); reflexivity.
  - cbn [marked]. rewrite E. apply andb_false_r.
Qed.

Lemma orig_rules_ok : rules_ok orig_rules.
Proof.
  constructor; cbn [rm_phasing chg_order unset_hp orig_rules].
  - intros [|] c; cbn; [apply unphase_call_other|reflexivity].
  - intros [|] c; cbn; [apply unphase_call_gt_none|tauto].
  - intros [|] c; cbn; [apply unphase_call_multiset|apply gt_multiset_eqb_refl].
  - intros [|] c; cbn; [apply unphase_call_code|reflexivity].
  - intros c. apply unphase_call_unmarked.
  - intros c _. reflexivity.
  - intros g. unfold as_vector. symmetry. apply Permutation_rev.
  - reflexivity.
Qed.

Lemma clear_hp_facts c :
  other (clear_hp c) = other c /\ gt (clear_hp c) = gt c /\ phased (clear_hp c) = phased c /\
  ps (clear_hp c) = ps c /\ pq (clear_hp c) = pq c /\ marked TagHP (clear_hp c) = false.
Proof. unfold clear_hp. destruct (hp c) eqn:E; cbn; rewrite ?E; repeat split; reflexivity. Qed.

Lemma fix_rules_ok : rules_ok fix_rules.
Proof.
  constructor; cbn [rm_phasing chg_order unset_hp fix_rules]; unfold fix_rm.
  - intros tg c. cbn. destruct (clear_hp_facts (set_ps (unphase_call c) None)) as [H _]. rewrite H. cbn.
    apply unphase_call_other.
  - intros tg c. cbn. destruct (clear_hp_facts (set_ps (unphase_call c) None)) as [_ [H _]]. rewrite H. cbn.
    apply unphase_call_gt_none.
  - intros tg c. cbn. destruct (clear_hp_facts (set_ps (unphase_call c) None)) as [_ [H _]]. rewrite H. cbn.
    apply unphase_call_multiset.
  - intros tg c. cbn. destruct (clear_hp_facts (set_ps (unphase_call c) None)) as [_ [H _]]. rewrite H. cbn.
    apply unphase_call_code.
  - intros c. cbn [marked set_pq gt phased].
    destruct (clear_hp_facts (set_ps (unphase_call c) None)) as [_ [H1 [H2 _]]]. rewrite H1, H2. cbn.
    apply unphase_call_unmarked.
  - intros c H. exfalso. cbn [marked set_pq hp] in H.
    destruct (clear_hp_facts (set_ps (unphase_call c) None)) as [_ [_ [_ [_ [_ H6]]]]].
    cbn [marked] in H6. rewrite H6 in H. discriminate.
  - intros g. reflexivity.
  - reflexivity.
Qed.

(* ------------------------------------------------------------------ one target call *)
Ltac splits := repeat match goal with |- _ /\ _ => split end.
Lemma phase_at_allowed cf t p ph : phase_at cf t p = Some ph -> allowed cf ph = true.
Proof.
  unfold phase_at. generalize (t_super t). intros l.
  induction l as [|[k v] l IH]; cbn [filter dict_get]; [discriminate|].
  destruct (allowed cf (snd (k, v))) eqn:Ea; cbn [dict_get]; [|exact IH].
  destruct (dict_get p (filter (fun e => allowed cf (snd e)) l)) eqn:Ed.
  - intros H. inversion H. subst. apply IH. reflexivity.
  - destruct (k =? p); [|discriminate]. intros H. inversion H. subst. exact Ea.
Qed.

Lemma allowed_nonempty cf ph : allowed cf ph = true -> ph <> [].
Proof. unfold allowed. intros H ->. cbn in H. discriminate. Qed.

Lemma marked_unset ru tg c : rules_ok ru -> marked tg (unset_tag ru tg c) = marked tg (set_ps c None) \/ tg = TagHP.
Proof. intros _. destruct tg; [left; reflexivity|right; reflexivity]. Qed.

Lemma stmt_eqb_refl tg c : stmt_eqb tg c c = true.
Proof.
  destruct tg; cbn.
  - rewrite gt_eqb_refl, Bool.eqb_reflx, oz_eqb_refl. reflexivity.
  - apply hp_eqb_refl.
Qed.

Lemma update_call_spec cf ru t p c c' :
  rules_ok ru ->
  update_call cf ru t p c = Ok c' ->
  other c' = other c /\ pq c' = pq c /\ gt c <> None /\ gt c' <> None /\
  (tag cf = TagPS -> hp c' = hp c) /\ (tag cf = TagHP -> ps c' = ps c) /\
  (marked (tag cf) c' = true -> (tag cf = TagPS -> marked TagPS c = false) ->
     het_call c' = true /\ phased_in cf p t = true) /\
  (agrees_call cf t p c = true -> gt_multiset_eqb (gt c) (gt c') = true).
Proof.
  intros RK H. unfold update_call in H.
  destruct (gt c) as [l|] eqn:Eg; [|discriminate].
  unfold agrees_call, phased_in. rewrite Eg.
  destruct (phase_at cf t p) as [phv|] eqn:Eph.
  - pose proof (allowed_nonempty _ _ (phase_at_allowed _ _ _ _ Eph)) as Hne.
    assert (Hsne : sort_asc phv <> []) by (intros Hs; apply sort_asc_nil in Hs; contradiction).
    destruct (list_nat_eqb (sort_asc phv) (genotype_code (Some l))) eqn:Eag; cbn [fst snd] in H.
    + (* genotype unchanged *)
      apply list_nat_eqb_eq in Eag.
      assert (Hl : exists ns, l = map Some ns /\ sort_asc ns = sort_asc phv).
      { cbn [genotype_code] in Eag. destruct (all_called l) as [ns|] eqn:Ea.
        - exists ns. split; [apply all_called_Some; exact Ea|congruence].
        - congruence. }
      destruct Hl as [ns [Hl Hs]].
      assert (Hnsne : ns <> []).
      { intros ->. cbn in Hs. symmetry in Hs. contradiction. }
      assert (Hhom : is_homozygous (genotype_code (Some l)) = is_homozygous ns).
      { rewrite <- Eag, <- Hs. apply is_homozygous_sort. }
      destruct (dict_get p (t_comp t)) as [comp|] eqn:Ec.
      * destruct (negb (is_homozygous (genotype_code (Some l)))) eqn:Eh.
        -- inversion H. subst c'. clear H.
           destruct (tag cf) eqn:Et; cbn [set_tag set_PS set_HP set_ps set_gt set_hp other pq gt hp ps].
           ++ splits; try discriminate; try (intros; reflexivity).
              ** intros _ _. split; [|reflexivity]. eapply het_call_of_list; [reflexivity|exact Hne|].
                 rewrite <- (is_homozygous_sort phv), <- Hs, is_homozygous_sort, <- Hhom.
                 apply negb_true_iff. exact Eh.
              ** intros _. rewrite Hl. cbn [gt_multiset_eqb].
                 rewrite !map_acode_Some, !sort_asc_map_S, Hs. apply list_nat_eqb_refl.
           ++ splits; try discriminate; try (intros; reflexivity); rewrite ?Eg; try discriminate.
              ** intros _ _. split; [|reflexivity]. eapply het_call_of_list; [cbn; rewrite Eg, Hl; reflexivity|exact Hnsne|].
                 rewrite <- Hhom. apply negb_true_iff. exact Eh.
              ** intros _. apply gt_multiset_eqb_refl.
        -- inversion H. subst c'. clear H.
           destruct (tag cf) eqn:Et; cbn [unset_tag set_ps set_hp other pq gt hp ps marked phased];
             rewrite ?Eg; splits; try discriminate; try (intros; reflexivity).
           ++ intros Hm Hc. specialize (Hc eq_refl). cbn [marked] in Hc. rewrite ?Eg in Hc. congruence.
           ++ intros _. apply gt_multiset_eqb_refl.
           ++ intros Hm. rewrite (rk_unset _ RK) in Hm. discriminate.
           ++ intros _. apply gt_multiset_eqb_refl.
      * inversion H. subst c'. clear H.
        destruct (tag cf) eqn:Et; cbn [unset_tag set_ps set_hp other pq gt hp ps marked phased];
          rewrite ?Eg; splits; try discriminate; try (intros; reflexivity).
        -- intros Hm Hc. specialize (Hc eq_refl). cbn [marked] in Hc. rewrite ?Eg in Hc. congruence.
        -- intros _. apply gt_multiset_eqb_refl.
        -- intros Hm. rewrite (rk_unset _ RK) in Hm. discriminate.
        -- intros _. apply gt_multiset_eqb_refl.
    + (* genotype-change branch *)
      set (g := sort_asc phv) in *.
      pose proof (rk_chg _ RK g) as Pg.
      assert (Hcne : chg_order ru g <> []).
      { intros Hc. rewrite Hc in Pg. apply Permutation_nil in Pg. contradiction. }
      assert (Hhom : is_homozygous (chg_order ru g) = is_homozygous g) by (apply is_homozygous_perm; exact Pg).
      assert (Hunm : forall x, marked TagPS (set_ps (set_gt c (Some (map Some (chg_order ru g))) (unph g)) x) = false).
      { intros x. cbn [marked set_ps set_gt gt phased]. rewrite unph_map.
        unfold unph. rewrite (Permutation_length Pg). destruct (length g <=? 1)%nat; reflexivity. }
      destruct (dict_get p (t_comp t)) as [comp|] eqn:Ec.
      * destruct (negb (is_homozygous g)) eqn:Eh.
        -- inversion H. subst c'. clear H.
           destruct (tag cf) eqn:Et; cbn [set_tag set_PS set_HP set_ps set_gt set_hp other pq gt hp ps].
           ++ splits; try discriminate; try (intros; reflexivity).
              ** intros _ _. split; [|reflexivity]. eapply het_call_of_list; [reflexivity|exact Hne|].
                 rewrite <- (is_homozygous_sort phv). apply negb_true_iff. exact Eh.
           ++ splits; try discriminate; try (intros; reflexivity).
              ** intros _ _. split; [|reflexivity]. eapply het_call_of_list; [reflexivity|exact Hcne|].
                 rewrite Hhom. apply negb_true_iff. exact Eh.
        -- inversion H. subst c'. clear H.
           destruct (tag cf) eqn:Et; cbn [unset_tag]; [|cbn [set_hp set_gt other pq gt hp ps marked]];
             splits; try discriminate; try (intros; reflexivity).
           ++ intros Hm _. rewrite Hunm in Hm. discriminate.
           ++ intros Hm. rewrite (rk_unset _ RK) in Hm. discriminate.
      * inversion H. subst c'. clear H.
        destruct (tag cf) eqn:Et; cbn [unset_tag]; [|cbn [set_hp set_gt other pq gt hp ps marked]];
          splits; try discriminate; try (intros; reflexivity).
        -- intros Hm _. rewrite Hunm in Hm. discriminate.
        -- intros Hm. rewrite (rk_unset _ RK) in Hm. discriminate.
  - cbn [fst snd] in H.
    assert (H' : c' = unset_tag ru (tag cf) c).
    { destruct (dict_get p (t_comp t)); inversion H; reflexivity. }
    subst c'. clear H.
    destruct (tag cf) eqn:Et; cbn [unset_tag set_ps set_hp other pq gt hp ps marked phased];
      rewrite ?Eg; splits; try discriminate; try (intros; reflexivity).
    + intros Hm Hc. specialize (Hc eq_refl). cbn [marked] in Hc. rewrite ?Eg in Hc. congruence.
    + intros _. apply gt_multiset_eqb_refl.
    + intros Hm. rewrite (rk_unset _ RK) in Hm. discriminate.
    + intros _. apply gt_multiset_eqb_refl.
Qed.

(* ------------------------------------------------------------------ one record *)
Definition same_site (o r : vrec) : Prop :=
  chrom o = chrom r /\ pos o = pos r /\ fixed o = fixed r /\ info o = info r /\
  ref_len o = ref_len r /\ alt_lens o = alt_lens r /\ symbolic o = symbolic r.

Lemma record_step_spec cf ru ts prev r prev' o :
  NoDup (map t_sample ts) ->
  record_step cf ru ts prev r = Ok (prev', o) ->
  same_site o r /\ length (calls o) = length (calls r) /\
  (ts = [] -> o = r) /\
  (prev' = match skip cf ts prev r with Some _ => prev | None => Some (pos r) end) /\
  forall i c, nth_error (calls r) i = Some c ->
    match target_of ts i with
    | None => nth_error (calls o) i = Some c
    | Some t =>
      match skip cf ts prev r with
      | Some _ => nth_error (calls o) i = Some (rm_phasing ru (tag cf) c)
      | None => exists c', update_call cf ru t (pos r) (rm_phasing ru (tag cf) c) = Ok c'
                           /\ nth_error (calls o) i = Some c'
      end
    end.
Proof.
  intros ND H. unfold record_step in H.
  destruct (remove_existing_spec ru (tag cf) ts (calls r) ND) as [R1 R2].
  destruct (skip cf ts prev r) as [why|] eqn:Es.
  - inversion H. subst prev' o. clear H. cbn [calls set_calls chrom pos fixed info ref_len alt_lens symbolic].
    split; [repeat split|]. split; [exact R1|]. split.
    { intros ->. cbn. destruct r; reflexivity. }
    split; [reflexivity|].
    intros i c Hc. rewrite R2, Hc. cbn [option_map].
    destruct (target_of ts i) as [t|] eqn:Et.
    + assert (Hit : is_target ts i = true).
      { destruct (is_target ts i) eqn:E; [reflexivity|]. apply target_of_none_iff in E. congruence. }
      rewrite Hit. reflexivity.
    + apply target_of_none_iff in Et. rewrite Et. reflexivity.
  - destruct (update_targets cf ru ts (pos r) (remove_existing ru (tag cf) ts (calls r))) as [cs2|e] eqn:Eu;
      cbn [bind] in H; [|discriminate].
    inversion H. subst prev' o. clear H. cbn [calls set_calls chrom pos fixed info ref_len alt_lens symbolic].
    destruct (update_targets_spec _ _ _ _ _ _ ND Eu) as [U1 U2].
    split; [repeat split|]. split; [congruence|]. split.
    { intros ->. cbn in Eu. inversion Eu. subst. destruct r, (tag cf); reflexivity. }
    split; [reflexivity|].
    intros i c Hc.
    assert (Hr : nth_error (remove_existing ru (tag cf) ts (calls r)) i =
                 Some (if is_target ts i then rm_phasing ru (tag cf) c else c)).
    { rewrite R2, Hc. reflexivity. }
    specialize (U2 _ _ Hr).
    destruct (target_of ts i) as [t|] eqn:Et.
    + assert (Hit : is_target ts i = true).
      { destruct (is_target ts i) eqn:E; [reflexivity|]. apply target_of_none_iff in E. congruence. }
      rewrite Hit in U2. exact U2.
    + apply target_of_none_iff in Et. rewrite Et in U2. exact U2.
Qed.

(* pysam's END re-synchronisation touches INFO/END only *)
Lemma sync_end_spec d r :
  chrom (sync_end d r) = chrom r /\ pos (sync_end d r) = pos r /\ fixed (sync_end d r) = fixed r /\
  calls (sync_end d r) = calls r /\ ps_key (sync_end d r) = ps_key r /\
  ref_len (sync_end d r) = ref_len r /\ alt_lens (sync_end d r) = alt_lens r /\
  no_end (info (sync_end d r)) = no_end (info r).
Proof.
  unfold sync_end. destruct (info_get K_END (info r)) as [e|].
  - destruct (negb (symbolic r) && (negb d || (e =? implied_end r))); cbn; repeat split; try reflexivity.
    unfold no_end. induction (info r) as [|[k v] l IH]; cbn; [reflexivity|].
    destruct (k =? K_END) eqn:E; cbn; rewrite ?E; cbn; [exact IH|]. f_equal. exact IH.
  - destruct (symbolic r); cbn; repeat split; try reflexivity.
    unfold no_end. rewrite filter_app. cbn. apply app_nil_r.
Qed.

(* a record that needs no re-synchronisation: no symbolic ALT without END, no redundant or undeclared END *)
Definition end_stable (d : bool) (r : vrec) : bool :=
  match info_get K_END (info r) with
  | None => negb (symbolic r)
  | Some e => symbolic r || (d && negb (e =? implied_end r))
  end.

Lemma sync_end_stable d r : end_stable d r = true -> sync_end d r = r.
Proof.
  unfold end_stable, sync_end. destruct (info_get K_END (info r)) as [e|].
  - destruct (symbolic r); cbn; [reflexivity|]. intros H. apply andb_prop in H. destruct H as [Hd He].
    rewrite Hd. apply negb_true_iff in He. rewrite He. reflexivity.
  - destruct (symbolic r); cbn; [discriminate|reflexivity].
Qed.

(* ------------------------------------------------------------------ a run, a file *)
Definition step_rel (cf : cfg) (ru : rules) (ts : list target) (r o : vrec) : Prop :=
  exists prev prev' o', record_step cf ru ts prev r = Ok (prev', o') /\ o = sync_end (end_decl cf) o'.

Lemma steps_forall2 cf ru ts prev l out :
  steps cf ru ts prev l = Ok out -> Forall2 (step_rel cf ru ts) l out.
Proof.
  revert prev out. induction l as [|r l IH]; intros prev out H; cbn [steps] in H.
  - inversion H. constructor.
  - destruct (record_step cf ru ts prev r) as [[p' o']|e] eqn:Er; cbn [bind] in H; [|discriminate].
    cbn [fst snd] in H.
    destruct (steps cf ru ts p' l) as [out'|e] eqn:Es; cbn [bind] in H; [|discriminate].
    inversion H. subst. constructor; [|eapply IH; eauto].
    exists prev, p', o'. auto.
Qed.

(* the same processing without the carried-record mechanics *)
Fixpoint simple (cf : cfg) (ru : rules) (plan : list (token * list target)) (l : list vrec) : res (list vrec) :=
  match plan with
  | [] => Ok []
  | (c, ts) :: more =>
    let '(run, tl) := take_run c l in
    bind (steps cf ru ts None run) (fun o => bind (simple cf ru more tl) (fun out => Ok (o ++ out)))
  end.

Lemma simple_forall2 cf ru plan l out :
  simple cf ru plan l = Ok out ->
  Forall2 (fun a o => step_rel cf ru (snd a) (fst a) o) (annotate plan l) out.
Proof.
  revert l out. induction plan as [|[c ts] more IH]; intros l out H; cbn [simple annotate] in *.
  - inversion H. constructor.
  - destruct (take_run c l) as [run tl] eqn:Et.
    destruct (steps cf ru ts None run) as [o|e] eqn:Es; cbn [bind] in H; [|discriminate].
    destruct (simple cf ru more tl) as [out'|e] eqn:Em; cbn [bind] in H; [|discriminate].
    inversion H. subst. apply Forall2_app; [|apply IH; exact Em].
    apply steps_forall2 in Es. clear -Es. induction Es; cbn; constructor; auto.
Qed.

Lemma take_run_app c l run tl : take_run c l = (run, tl) -> l = run ++ tl.
Proof.
  revert run tl. induction l as [|r l IH]; intros run tl H; cbn in H.
  - inversion H. reflexivity.
  - destruct (chrom r =? c).
    + destruct (take_run c l) as [a b]. inversion H. subst. cbn. f_equal. apply IH. reflexivity.
    + inversion H. reflexivity.
Qed.

Lemma runs_cons2 r r' t :
  runs (r :: r' :: t) = if chrom r' =? chrom r then runs (r' :: t) else chrom r :: runs (r' :: t).
Proof. reflexivity. Qed.

Lemma runs_cons_take r t run tl :
  take_run (chrom r) t = (run, tl) -> runs (r :: t) = chrom r :: runs tl /\
  match tl with [] => True | x :: _ => chrom x <> chrom r end.
Proof.
  revert r run tl. induction t as [|r' t IH]; intros r run tl H.
  - cbn in H. inversion H. subst. cbn. auto.
  - cbn [take_run] in H. rewrite runs_cons2.
    destruct (chrom r' =? chrom r) eqn:E.
    + apply Z.eqb_eq in E. destruct (take_run (chrom r) t) as [a b] eqn:Et. inversion H. subst.
      rewrite <- E in Et. destruct (IH r' _ _ Et) as [I1 I2]. rewrite I1, E. split; [reflexivity|].
      destruct tl; [exact I|]. rewrite <- E. exact I2.
    + inversion H. subst. split; [reflexivity|]. apply Z.eqb_neq in E. exact E.
Qed.

Lemma runs_nil l : runs l = [] -> l = [].
Proof.
  induction l as [|r t IH]; [reflexivity|]. destruct t as [|r' t']; [discriminate|].
  rewrite runs_cons2. destruct (chrom r' =? chrom r); [|discriminate]. intros H. specialize (IH H). discriminate.
Qed.

Lemma runs_head r t : exists cs, runs (r :: t) = chrom r :: cs.
Proof.
  destruct (take_run (chrom r) t) as [run tl] eqn:E. destruct (runs_cons_take _ _ _ _ E) as [H _].
  eexists. exact H.
Qed.

(* what a stream state stands for: the records still to be delivered *)
Definition repr (s : stream) (l : list vrec) : Prop :=
  (carried s = None /\ rest s = l) \/ (exists r, carried s = Some r /\ l = r :: rest s).

Lemma iterrecords_spec c s r t run tl :
  repr s (r :: t) -> chrom r = c -> take_run c (r :: t) = (run, tl) ->
  exists s', iterrecords c s = Ok (run, s') /\ (tl <> [] -> repr s' tl).
Proof.
  intros [[Hc Hr]|[r0 [Hc Hl]]] Hch Ht; unfold iterrecords; rewrite Hc.
  - rewrite Hr, Ht. destruct tl as [|x tl'].
    + eexists. split; [reflexivity|]. congruence.
    + assert (run <> []).
      { cbn in Ht. rewrite Hch, Z.eqb_refl in Ht. destruct (take_run c t). inversion Ht. discriminate. }
      destruct run; [congruence|]. eexists. split; [reflexivity|]. intros _. right. exists x. auto.
  - inversion Hl. subst r0. rewrite Hch, Z.eqb_refl.
    cbn [take_run] in Ht. rewrite Hch, Z.eqb_refl in Ht. rewrite <- H1.
    destruct (take_run c t) as [a b] eqn:E. inversion Ht. subst.
    destruct tl as [|x tl'].
    + eexists. split; [reflexivity|]. congruence.
    + eexists. split; [reflexivity|]. intros _. right. exists x. auto.
Qed.

(* the stream theorem: driven with one write() per chromosome run, the carried-record mechanism
   delivers every record exactly once, in order *)
Lemma write_all_simple cf ru plan l s :
  repr s l -> map fst plan = runs l -> write_all cf ru plan s = simple cf ru plan l.
Proof.
  revert l s. induction plan as [|[c ts] more IH]; intros l s Hr Hp; [reflexivity|].
  cbn [map fst] in Hp. destruct l as [|r t]; [discriminate|].
  destruct (runs_head r t) as [cs Hcs]. rewrite Hcs in Hp. inversion Hp as [[Hc Hmore]]. subst c.
  cbn [write_all simple]. unfold write_call.
  destruct (take_run (chrom r) (r :: t)) as [run tl] eqn:Et.
  destruct (iterrecords_spec _ _ _ _ _ _ Hr eq_refl Et) as [s' [Hi Hs']].
  rewrite Hi. cbn [bind fst snd].
  destruct (steps cf ru ts None run) as [o|e]; cbn [bind]; [|reflexivity].
  assert (Hruns : runs (r :: t) = chrom r :: runs tl).
  { cbn [take_run] in Et. rewrite Z.eqb_refl in Et. destruct (take_run (chrom r) t) as [a b] eqn:E.
    inversion Et. subst. apply (runs_cons_take _ _ _ _ E). }
  rewrite Hruns in Hcs. inversion Hcs as [Hcs']. rewrite <- Hcs' in Hmore.
  destruct tl as [|x tl'].
  - cbn in Hmore. destruct more; [|discriminate]. reflexivity.
  - cbn [fst snd]. rewrite (IH (x :: tl') s'); [reflexivity| |exact Hmore]. apply Hs'. discriminate.
Qed.

Lemma phase_writer_simple cf ru plan input :
  map fst plan = runs input -> phase_writer cf ru plan input = simple cf ru plan input.
Proof. intros H. apply write_all_simple; [left; split; reflexivity|exact H]. Qed.

Lemma annotate_fst plan l : map fst plan = runs l -> map fst (annotate plan l) = l.
Proof.
  revert l. induction plan as [|[c ts] more IH]; intros l H.
  - cbn in H. symmetry in H. apply runs_nil in H. subst. reflexivity.
  - cbn [map fst] in H. destruct l as [|r t]; [discriminate|].
    destruct (runs_head r t) as [cs Hcs]. rewrite Hcs in H. inversion H. subst c.
    cbn [annotate]. destruct (take_run (chrom r) (r :: t)) as [run tl] eqn:Et.
    assert (Hruns : runs (r :: t) = chrom r :: runs tl).
    { cbn [take_run] in Et. rewrite Z.eqb_refl in Et. destruct (take_run (chrom r) t) as [a b] eqn:E.
      inversion Et. subst. apply (runs_cons_take _ _ _ _ E). }
    rewrite Hruns in Hcs. inversion Hcs. subst cs.
    assert (Hm : map fst (map (fun r0 : vrec => (r0, ts)) run) = run).
    { clear. induction run as [|x run IHr]; cbn; congruence. }
    rewrite map_app, Hm. rewrite IH by congruence.
    symmetry. apply (take_run_app _ _ _ _ Et).
Qed.

Lemma Forall2_all2 {A B} (R : A -> B -> Prop) (f : A -> B -> bool) a b :
  Forall2 R a b -> (forall x y, R x y -> f x y = true) -> all2 f a b = true.
Proof. induction 1; intros H'; cbn; [reflexivity|]. rewrite H' by assumption. cbn. apply IHForall2. exact H'. Qed.

Lemma Forall2_impl {A B} (R R' : A -> B -> Prop) a b :
  (forall x y, R x y -> R' x y) -> Forall2 R a b -> Forall2 R' a b.
Proof. intros H F. induction F; constructor; auto. Qed.

Lemma Forall2_map_l {A B C} (R : B -> C -> Prop) (f : A -> B) a c :
  Forall2 (fun x y => R (f x) y) a c -> Forall2 R (map f a) c.
Proof. induction 1; cbn; constructor; auto. Qed.

(* ------------------------------------------------------------------ from columns to the boolean specs *)
Lemma all2_nth {A B} (f : A -> B -> bool) (a : list A) (b : list B) :
  length a = length b ->
  (forall i x y, nth_error a i = Some x -> nth_error b i = Some y -> f x y = true) ->
  all2 f a b = true.
Proof.
  revert b. induction a as [|x a IH]; intros [|y b] Hl H; cbn in Hl; try discriminate; [reflexivity|].
  cbn [all2]. rewrite (H O x y eq_refl eq_refl). cbn. apply IH; [congruence|].
  intros i x' y' Hx Hy. apply (H (S i)); assumption.
Qed.

Lemma calls_frame_intro ts k a b :
  length a = length b ->
  (forall i x y, nth_error a i = Some x -> nth_error b i = Some y ->
                 call_frame (is_target ts (k + i)) x y = true) ->
  calls_frame ts k a b = true.
Proof.
  revert k b. induction a as [|x a IH]; intros k [|y b] Hl H; cbn in Hl; try discriminate; [reflexivity|].
  cbn [calls_frame]. specialize (H O x y eq_refl eq_refl) as H0. rewrite Nat.add_0_r in H0. rewrite H0. cbn.
  apply IH; [congruence|]. intros i x' y' Hx Hy. replace (S k + i)%nat with (k + S i)%nat by lia.
  apply H; assumption.
Qed.

Lemma calls_only_het_intro tg ts k a b :
  (forall i x y, nth_error a i = Some x -> nth_error b i = Some y ->
                 is_target ts (k + i) = true -> newly_marked tg x y = true -> het_call y = true) ->
  calls_only_het tg ts k a b = true.
Proof.
  revert k b. induction a as [|x a IH]; intros k [|y b] H; try reflexivity.
  cbn [calls_only_het]. apply andb_true_intro. split.
  - destruct (is_target ts k && newly_marked tg x y) eqn:E; [|reflexivity]. cbn.
    apply andb_prop in E. destruct E as [E1 E2]. apply (H O x y eq_refl eq_refl); [rewrite Nat.add_0_r|]; assumption.
  - apply IH. intros i x' y' Hx Hy. replace (S k + i)%nat with (k + S i)%nat by lia. apply H; assumption.
Qed.

Lemma calls_any_new_elim tg ts k a b :
  calls_any_new tg ts k a b = true ->
  exists i x y, nth_error a i = Some x /\ nth_error b i = Some y /\
                is_target ts (k + i) = true /\ newly_marked tg x y = true.
Proof.
  revert k b. induction a as [|x a IH]; intros k [|y b] H; cbn in H; try discriminate.
  apply orb_prop in H. destruct H as [H|H].
  - apply andb_prop in H. destruct H as [H1 H2]. exists O, x, y. rewrite Nat.add_0_r. auto.
  - destruct (IH _ _ H) as [i [x' [y' [Hx [Hy [Ht Hn]]]]]]. exists (S i), x', y'.
    replace (k + S i)%nat with (S k + i)%nat by lia. auto.
Qed.

Lemma is_target_true_some ts i : is_target ts i = true -> exists t, target_of ts i = Some t.
Proof.
  intros H. destruct (target_of ts i) as [t|] eqn:E; [eauto|].
  apply target_of_none_iff in E. congruence.
Qed.

Lemma skip_none_supported cf ts prev r : skip cf ts prev r = None -> supported cf r = true.
Proof.
  unfold skip, supported. destruct (alt_lens r) as [|a more] eqn:Ea; [discriminate|].
  destruct (negb (unph (a :: more)) && negb (mav cf)) eqn:E1; [discriminate|].
  destruct (match prev with Some q => pos r =? q | None => false end); [discriminate|].
  destruct (only_snvs cf && negb (is_snv r)) eqn:E2; [discriminate|].
  intros _. apply andb_true_intro. split.
  - destruct (unph (a :: more)), (mav cf); cbn in *; congruence.
  - destruct (only_snvs cf), (is_snv r); cbn in *; congruence.
Qed.

Lemma skip_none_phased cf ts prev r :
  skip cf ts prev r = None ->
  exists t, In t ts /\ phased_in cf (pos r) t = true /\
            match prev with Some q => pos r <> q | None => True end.
Proof.
  unfold skip. destruct (alt_lens r) as [|a more]; [discriminate|].
  destruct (negb (unph (a :: more)) && negb (mav cf)); [discriminate|].
  destruct prev as [q|].
  - destruct (pos r =? q) eqn:Eq; [discriminate|].
    destruct (only_snvs cf && negb (is_snv r)); [discriminate|].
    destruct (existsb _ ts) eqn:Ex; cbn; [|discriminate]. intros _.
    apply existsb_exists in Ex. destruct Ex as [t [Ht1 Ht2]]. apply andb_prop in Ht2.
    exists t. repeat split; try tauto. apply Z.eqb_neq. exact Eq.
  - destruct (only_snvs cf && negb (is_snv r)); [discriminate|].
    destruct (existsb _ ts) eqn:Ex; cbn; [|discriminate]. intros _.
    apply existsb_exists in Ex. destruct Ex as [t [Ht1 Ht2]]. apply andb_prop in Ht2.
    exists t. repeat split; tauto.
Qed.

(* ------------------------------------------------------------------ whole-file statements (C04) *)
Definition plan_wf (plan : list (token * list target)) : Prop :=
  Forall (fun e => NoDup (map t_sample (snd e))) plan.

Lemma annotate_wf plan l : plan_wf plan -> Forall (fun a => NoDup (map t_sample (snd a))) (annotate plan l).
Proof.
  revert l. induction plan as [|[c ts] more IH]; intros l W; cbn [annotate]; [constructor|].
  inversion W as [|? ? W1 W2]. subst. destruct (take_run c l) as [run tl].
  apply Forall_app. split; [|apply IH; exact W2].
  apply Forall_forall. intros a Ha. apply in_map_iff in Ha. destruct Ha as [r [<- _]]. exact W1.
Qed.

Lemma Forall2_Forall_l {A B} (P : A -> Prop) (R : A -> B -> Prop) a b :
  Forall P a -> Forall2 R a b -> Forall2 (fun x y => P x /\ R x y) a b.
Proof. intros F H. induction H; inversion F; subst; constructor; auto. Qed.

Lemma writer_forall2 cf ru plan input out :
  plan_wf plan -> map fst plan = runs input -> phase_writer cf ru plan input = Ok out ->
  Forall2 (fun a o => NoDup (map t_sample (snd a)) /\ step_rel cf ru (snd a) (fst a) o) (annotate plan input) out.
Proof.
  intros W Hp H. rewrite phase_writer_simple in H by exact Hp.
  apply Forall2_Forall_l; [apply annotate_wf; exact W|apply simple_forall2; exact H].
Qed.

Lemma length_fold_map_nth {A} (f : A -> A) (js : list nat) (l : list A) :
  length (fold_left (fun acc j => map_nth acc j f) js l) = length l.
Proof.
  revert l. induction js as [|j js IH]; intros l; cbn; [reflexivity|].
  rewrite IH. apply (map_nth_spec l j f).
Qed.

Lemma remove_existing_length ru tg ts cs : length (remove_existing ru tg ts cs) = length cs.
Proof.
  unfold remove_existing. revert cs. induction ts as [|t ts IH]; intros cs; cbn; [reflexivity|].
  rewrite IH. apply (map_nth_spec cs (t_sample t) (rm_phasing ru tg)).
Qed.

Lemma update_targets_length cf ru ts p cs cs2 :
  update_targets cf ru ts p cs = Ok cs2 -> length cs2 = length cs.
Proof.
  revert cs cs2. induction ts as [|t ts IH]; intros cs cs2 H.
  - cbn in H. inversion H. reflexivity.
  - rewrite update_targets_cons in H.
    destruct (upd_nth cs (t_sample t) (update_call cf ru t p)) as [cs1|e] eqn:Eu; cbn [bind] in H; [|discriminate].
    rewrite (IH _ _ H). apply (upd_nth_spec _ _ _ _ Eu).
Qed.

Lemma record_step_site cf ru ts prev r prev' o :
  record_step cf ru ts prev r = Ok (prev', o) -> same_site o r /\ length (calls o) = length (calls r).
Proof.
  unfold record_step. destruct (skip cf ts prev r).
  - intros H. inversion H. subst. cbn. split; [repeat split|apply remove_existing_length].
  - destruct (update_targets _ _ _ _ _) as [cs2|e] eqn:Eu; cbn [bind]; [|discriminate].
    intros H. inversion H. subst. cbn. split; [repeat split|].
    rewrite (update_targets_length _ _ _ _ _ _ Eu). apply remove_existing_length.
Qed.

Lemma step_rel_site cf ru ts r o :
  step_rel cf ru ts r o ->
  chrom o = chrom r /\ pos o = pos r /\ fixed o = fixed r /\ no_end (info o) = no_end (info r) /\
  length (calls o) = length (calls r) /\
  (end_stable (end_decl cf) r = true -> info o = info r).
Proof.
  intros [prev [prev' [o' [Hs ->]]]]. destruct (record_step_site _ _ _ _ _ _ _ Hs) as [[S1 [S2 [S3 [S4 [S5 [S6 S7]]]]]] L].
  destruct (sync_end_spec (end_decl cf) o') as [E1 [E2 [E3 [E4 [E5 [E6 [E7 E8]]]]]]].
  repeat split; try congruence.
  intros St. assert (St' : end_stable (end_decl cf) o' = true).
  { unfold end_stable, implied_end in *. rewrite S4, S7, S2, S5. exact St. }
  rewrite (sync_end_stable _ _ St'). exact S4.
Qed.

Lemma simple_forall2_any cf ru plan l out :
  simple cf ru plan l = Ok out ->
  Forall2 (fun r o => exists ts, step_rel cf ru ts r o) (map fst (annotate plan l)) out.
Proof.
  intros H. apply Forall2_map_l. apply simple_forall2 in H.
  induction H; constructor; eauto.
Qed.

(* write_stream_conserves *)
Theorem write_stream_conserves_mod_end cf ru plan input out :
  map fst plan = runs input -> phase_writer cf ru plan input = Ok out ->
  conserves fixed_mod_end_eqb input out = true.
Proof.
  intros Hp H. rewrite phase_writer_simple in H by exact Hp.
  apply simple_forall2_any in H. rewrite annotate_fst in H by exact Hp.
  unfold conserves. eapply Forall2_all2; [exact H|].
  intros r o [ts Hs]. destruct (step_rel_site _ _ _ _ _ Hs) as [H1 [H2 [H3 [H4 [H5 _]]]]].
  unfold fixed_mod_end_eqb. rewrite H1, H2, H3, H4, !Z.eqb_refl, list_z_eqb_refl, info_eqb_refl, H5, Nat.eqb_refl.
  reflexivity.
Qed.

Theorem write_stream_conserves_stable cf ru plan input out :
  map fst plan = runs input -> phase_writer cf ru plan input = Ok out ->
  forallb (end_stable (end_decl cf)) input = true ->
  conserves fixed_eqb input out = true.
Proof.
  intros Hp H St. rewrite phase_writer_simple in H by exact Hp.
  apply simple_forall2_any in H. rewrite annotate_fst in H by exact Hp.
  unfold conserves. rewrite forallb_forall in St.
  assert (H'' : Forall2 (fun r o => end_stable (end_decl cf) r = true /\ exists ts, step_rel cf ru ts r o) input out).
  { apply Forall2_Forall_l; [|exact H]. apply Forall_forall. exact St. }
  eapply Forall2_all2; [exact H''|].
  intros r o [Hst [ts Hs]]. destruct (step_rel_site _ _ _ _ _ Hs) as [H1 [H2 [H3 [H4 [H5 H6]]]]].
  unfold fixed_eqb. rewrite H1, H2, H3, (H6 Hst), !Z.eqb_refl, list_z_eqb_refl, info_eqb_refl, H5, Nat.eqb_refl.
  reflexivity.
Qed.

(* the column-wise description of one written record *)
Lemma step_rel_columns cf ru ts r o :
  NoDup (map t_sample ts) -> step_rel cf ru ts r o ->
  length (calls o) = length (calls r) /\
  (ts = [] -> calls o = calls r /\ ps_key o = ps_key r) /\
  exists prev,
  forall i c, nth_error (calls r) i = Some c ->
    match target_of ts i with
    | None => nth_error (calls o) i = Some c
    | Some t =>
      match skip cf ts prev r with
      | Some _ => nth_error (calls o) i = Some (rm_phasing ru (tag cf) c)
      | None => exists c', update_call cf ru t (pos r) (rm_phasing ru (tag cf) c) = Ok c'
                           /\ nth_error (calls o) i = Some c'
      end
    end.
Proof.
  intros ND [prev [prev' [o' [Hs ->]]]].
  destruct (record_step_spec _ _ _ _ _ _ _ ND Hs) as [_ [L [Hnil [_ Hc]]]].
  destruct (sync_end_spec (end_decl cf) o') as [_ [_ [_ [E4 [E5 _]]]]].
  rewrite E4, E5. split; [exact L|]. split.
  - intros Hts. rewrite (Hnil Hts). auto.
  - exists prev. exact Hc.
Qed.

Lemma gt_multiset_eqb_trans a b c :
  gt_multiset_eqb a b = true -> gt_multiset_eqb b c = true -> gt_multiset_eqb a c = true.
Proof.
  destruct a, b, c; cbn; try discriminate; try reflexivity.
  intros H1 H2. apply list_nat_eqb_eq in H1, H2. rewrite H1, H2. apply list_nat_eqb_refl.
Qed.

(* write_frames *)
Theorem write_frames cf ru plan input out :
  rules_ok ru -> plan_wf plan -> map fst plan = runs input -> phase_writer cf ru plan input = Ok out ->
  frames (annotate plan input) out = true.
Proof.
  intros RK W Hp H. unfold frames.
  eapply Forall2_all2; [apply (writer_forall2 _ _ _ _ _ W Hp H)|].
  intros [r ts] o [ND Hs]. cbn [fst snd] in *.
  destruct (step_rel_columns _ _ _ _ _ ND Hs) as [L [_ [prev Hc]]].
  apply calls_frame_intro; [congruence|].
  intros i x y Hx Hy. cbn [Nat.add]. specialize (Hc _ _ Hx).
  destruct (target_of ts i) as [t|] eqn:Et.
  - assert (Hit : is_target ts i = true).
    { destruct (is_target ts i) eqn:E; [reflexivity|]. apply target_of_none_iff in E. congruence. }
    rewrite Hit. unfold call_frame.
    destruct (skip cf ts prev r).
    + rewrite Hc in Hy. inversion Hy. subst y.
      rewrite (rk_other _ RK), other_eqb_refl. cbn.
      pose proof (rk_gt_none _ RK (tag cf) x) as Hn.
      destruct (gt x), (gt (rm_phasing ru (tag cf) x)); try reflexivity.
      * destruct Hn as [Hn _]. specialize (Hn eq_refl). discriminate.
      * destruct Hn as [_ Hn]. specialize (Hn eq_refl). discriminate.
    + destruct Hc as [c' [Hu Hn]]. rewrite Hn in Hy. inversion Hy. subst y.
      destruct (update_call_spec _ _ _ _ _ _ RK Hu) as [U1 [_ [U3 [U4 _]]]].
      rewrite U1, (rk_other _ RK), other_eqb_refl. cbn.
      pose proof (rk_gt_none _ RK (tag cf) x) as Hn'.
      destruct (gt x); [|destruct Hn' as [_ Hn']; specialize (Hn' eq_refl); congruence].
      destruct (gt c'); [reflexivity|congruence].
  - apply target_of_none_iff in Et. rewrite Et. unfold call_frame. rewrite Hc in Hy. inversion Hy.
    apply call_sim_refl.
Qed.

(* the current code: in a target call only GT, the phased flag and the tag's own key can differ;
   a record of a write() call without targets is written as it is *)
Theorem write_frames_cur cf plan input out :
  plan_wf plan -> map fst plan = runs input -> phase_writer cf orig_rules plan input = Ok out ->
  Forall2 (fun a o =>
     length (calls o) = length (calls (fst a)) /\
     (snd a = [] -> calls o = calls (fst a) /\ ps_key o = ps_key (fst a)) /\
     forall i c c', nth_error (calls (fst a)) i = Some c -> nth_error (calls o) i = Some c' ->
       (is_target (snd a) i = false -> c' = c) /\
       other c' = other c /\ pq c' = pq c /\
       (tag cf = TagPS -> hp c' = hp c) /\ (tag cf = TagHP -> ps c' = ps c))
    (annotate plan input) out.
Proof.
  intros W Hp H.
  eapply Forall2_impl; [|apply (writer_forall2 _ _ _ _ _ W Hp H)].
  intros [r ts] o [ND Hs]. cbn [fst snd] in *.
  destruct (step_rel_columns _ _ _ _ _ ND Hs) as [L [Hnil [prev Hc]]].
  split; [exact L|]. split; [exact Hnil|].
  intros i c c' Hx Hy. specialize (Hc _ _ Hx).
  assert (Hrm : forall x, other (rm_phasing orig_rules (tag cf) x) = other x /\
                          pq (rm_phasing orig_rules (tag cf) x) = pq x /\
                          hp (rm_phasing orig_rules (tag cf) x) = hp x /\
                          ps (rm_phasing orig_rules (tag cf) x) = ps x).
  { intros x. cbn. destruct (tag cf); cbn; [|auto]. unfold unphase_call.
    destruct (gt x) as [l|]; [|auto]. destruct (all_called l); cbn; auto. }
  destruct (target_of ts i) as [t|] eqn:Et.
  - assert (Hit : is_target ts i = true).
    { destruct (is_target ts i) eqn:E; [reflexivity|]. apply target_of_none_iff in E. congruence. }
    rewrite Hit. destruct (Hrm c) as [R1 [R2 [R3 R4]]].
    destruct (skip cf ts prev r).
    + rewrite Hc in Hy. inversion Hy. subst c'. repeat split; auto; discriminate.
    + destruct Hc as [c2 [Hu Hn]]. rewrite Hn in Hy. inversion Hy. subst c2.
      destruct (update_call_spec _ _ _ _ _ _ orig_rules_ok Hu) as [U1 [U2 [_ [_ [U5 [U6 _]]]]]].
      repeat split; try congruence; try discriminate.
      * intros Ht. rewrite (U5 Ht). exact R3.
      * intros Ht. rewrite (U6 Ht). exact R4.
  - rewrite Hc in Hy. inversion Hy. subst c'. repeat split; auto.
Qed.

(* alleles_preserved *)
Lemma agrees_rec_call cf ts r i t c :
  agrees_rec cf ts r = true -> target_of ts i = Some t -> nth_error (calls r) i = Some c ->
  agrees_call cf t (pos r) c = true.
Proof.
  intros H Ht Hc. unfold agrees_rec in H. rewrite forallb_forall in H.
  apply target_of_some in Ht. destruct Ht as [Hin Hs]. specialize (H t Hin). rewrite Hs, Hc in H. exact H.
Qed.

Theorem alleles_preserved cf ru plan input out :
  rules_ok ru -> plan_wf plan -> map fst plan = runs input -> phase_writer cf ru plan input = Ok out ->
  superreads_agree cf (annotate plan input) = true ->
  alleles_kept input out = true.
Proof.
  intros RK W Hp H Ag. unfold alleles_kept, superreads_agree in *.
  rewrite forallb_forall in Ag.
  pose proof (writer_forall2 _ _ _ _ _ W Hp H) as F.
  assert (F' : Forall2 (fun a o => agrees_rec cf (snd a) (fst a) = true /\
                                   (NoDup (map t_sample (snd a)) /\ step_rel cf ru (snd a) (fst a) o))
                       (annotate plan input) out).
  { apply Forall2_Forall_l; [|exact F]. apply Forall_forall. exact Ag. }
  rewrite <- (annotate_fst plan input Hp) at 1.
  apply Forall2_all2 with (R := fun r o => exists ts, agrees_rec cf ts r = true /\ NoDup (map t_sample ts) /\ step_rel cf ru ts r o).
  { apply Forall2_map_l. eapply Forall2_impl; [|exact F']. intros [r ts] o [A [B C]]. exists ts. auto. }
  intros r o [ts [A [ND Hs]]].
  destruct (step_rel_columns _ _ _ _ _ ND Hs) as [L [_ [prev Hc]]].
  apply all2_nth; [congruence|].
  intros i x y Hx Hy. specialize (Hc _ _ Hx).
  destruct (target_of ts i) as [t|] eqn:Et.
  - destruct (skip cf ts prev r).
    + rewrite Hc in Hy. inversion Hy. apply (rk_multiset _ RK).
    + destruct Hc as [c' [Hu Hn]]. rewrite Hn in Hy. inversion Hy. subst y.
      destruct (update_call_spec _ _ _ _ _ _ RK Hu) as [_ [_ [_ [_ [_ [_ [_ U8]]]]]]].
      eapply gt_multiset_eqb_trans; [apply (rk_multiset _ RK (tag cf))|]. apply U8.
      pose proof (agrees_rec_call _ _ _ _ _ _ A Et Hx) as Hag.
      unfold agrees_call in *. rewrite (rk_code _ RK). exact Hag.
  - rewrite Hc in Hy. inversion Hy. apply gt_multiset_eqb_refl.
Qed.

(* only_het_supported_phased *)
Lemma newly_marked_step cf ru ts prev r t c c' :
  rules_ok ru ->
  (match skip cf ts prev r with
   | Some _ => c' = rm_phasing ru (tag cf) c
   | None => update_call cf ru t (pos r) (rm_phasing ru (tag cf) c) = Ok c'
   end) ->
  newly_marked (tag cf) c c' = true ->
  skip cf ts prev r = None /\ het_call c' = true /\ phased_in cf (pos r) t = true.
Proof.
  intros RK Hc Hn. unfold newly_marked in Hn. apply andb_prop in Hn. destruct Hn as [Hm Hd].
  destruct (skip cf ts prev r) as [why|].
  - exfalso. subst c'. destruct (tag cf) eqn:Et.
    + rewrite (rk_ps_unmarked _ RK) in Hm. discriminate.
    + pose proof (rk_hp_marked _ RK c Hm) as Heq. rewrite Heq in *.
      rewrite Hm, stmt_eqb_refl in Hd. discriminate.
  - destruct (update_call_spec _ _ _ _ _ _ RK Hc) as [_ [_ [_ [_ [_ [_ [U7 _]]]]]]].
    destruct (U7 Hm) as [Hh Hp]; [intros Et; rewrite Et; apply (rk_ps_unmarked _ RK)|]. auto.
Qed.

Theorem only_het_supported_phased cf ru plan input out :
  rules_ok ru -> plan_wf plan -> map fst plan = runs input -> phase_writer cf ru plan input = Ok out ->
  only_het_supported cf (annotate plan input) out = true.
Proof.
  intros RK W Hp H. unfold only_het_supported.
  eapply Forall2_all2; [apply (writer_forall2 _ _ _ _ _ W Hp H)|].
  intros [r ts] o [ND Hs]. cbn [fst snd] in *.
  destruct (step_rel_columns _ _ _ _ _ ND Hs) as [L [_ [prev Hc]]].
  assert (Key : forall i x y, nth_error (calls r) i = Some x -> nth_error (calls o) i = Some y ->
                is_target ts i = true -> newly_marked (tag cf) x y = true ->
                het_call y = true /\ supported cf r = true).
  { intros i x y Hx Hy Ht Hn. specialize (Hc _ _ Hx).
    destruct (is_target_true_some _ _ Ht) as [t Et]. rewrite Et in Hc.
    assert (Hc' : match skip cf ts prev r with
                  | Some _ => y = rm_phasing ru (tag cf) x
                  | None => update_call cf ru t (pos r) (rm_phasing ru (tag cf) x) = Ok y end).
    { destruct (skip cf ts prev r); [congruence|]. destruct Hc as [c' [Hu Hn']]. congruence. }
    destruct (newly_marked_step _ _ _ _ _ _ _ _ RK Hc' Hn) as [Hsk [Hh _]].
    split; [exact Hh|]. eapply skip_none_supported; eauto. }
  apply andb_true_intro. split.
  - apply calls_only_het_intro. intros i x y Hx Hy Ht Hn. cbn [Nat.add] in Ht. apply (Key i x y Hx Hy Ht Hn).
  - destruct (calls_any_new (tag cf) ts 0 (calls r) (calls o)) eqn:E; [|reflexivity]. cbn.
    apply calls_any_new_elim in E. destruct E as [i [x [y [Hx [Hy [Ht Hn]]]]]]. cbn [Nat.add] in Ht.
    apply (Key i x y Hx Hy Ht Hn).
Qed.

(* the same with the position bookkeeping: a newly marked call sits in a record that write() did not
   skip (supported type, not the position of the previously processed record, phased in some sample) *)
Theorem only_het_supported_phased_records cf ru plan input out :
  rules_ok ru -> plan_wf plan -> map fst plan = runs input -> phase_writer cf ru plan input = Ok out ->
  Forall2 (fun a o => exists prev,
     forall i c c', nth_error (calls (fst a)) i = Some c -> nth_error (calls o) i = Some c' ->
       is_target (snd a) i = true -> newly_marked (tag cf) c c' = true ->
       skip cf (snd a) prev (fst a) = None /\ het_call c' = true /\
       exists t, target_of (snd a) i = Some t /\ phased_in cf (pos (fst a)) t = true)
    (annotate plan input) out.
Proof.
  intros RK W Hp H.
  eapply Forall2_impl; [|apply (writer_forall2 _ _ _ _ _ W Hp H)].
  intros [r ts] o [ND Hs]. cbn [fst snd] in *.
  destruct (step_rel_columns _ _ _ _ _ ND Hs) as [L [_ [prev Hc]]].
  exists prev. intros i x y Hx Hy Ht Hn. specialize (Hc _ _ Hx).
  destruct (is_target_true_some _ _ Ht) as [t Et]. rewrite Et in Hc.
  assert (Hc' : match skip cf ts prev r with
                | Some _ => y = rm_phasing ru (tag cf) x
                | None => update_call cf ru t (pos r) (rm_phasing ru (tag cf) x) = Ok y end).
  { destruct (skip cf ts prev r); [congruence|]. destruct Hc as [c' [Hu Hn']]. congruence. }
  destruct (newly_marked_step _ _ _ _ _ _ _ _ RK Hc' Hn) as [Hsk [Hh Hp']].
  repeat split; auto. exists t. auto.
Qed.

(* ------------------------------------------------------------------ header *)
Lemma mem_In x l : mem x l = true <-> In x l.
Proof.
  unfold mem. rewrite existsb_exists. split.
  - intros [y [Hy He]]. apply Z.eqb_eq in He. subst. exact Hy.
  - intros H. exists x. split; [exact H|apply Z.eqb_refl].
Qed.

Lemma add_new_keeps l xs x : In x l -> In x (add_new l xs).
Proof.
  unfold add_new. revert l. induction xs as [|y xs IH]; intros l H; cbn; [exact H|].
  apply IH. destruct (mem y l); [exact H|]. apply in_or_app. left. exact H.
Qed.

Lemma subset_add_new l xs : subset l (add_new l xs) = true.
Proof. unfold subset. apply forallb_forall. intros x Hx. apply mem_In. apply add_new_keeps. exact Hx. Qed.

Lemma subset_trans a b c : subset a b = true -> subset b c = true -> subset a c = true.
Proof.
  unfold subset. rewrite !forallb_forall. intros H1 H2 x Hx. apply H2. apply mem_In. apply H1. exact Hx.
Qed.

Lemma remove_first_key_keeps k l kv :
  In kv l -> fst kv <> k -> In kv (remove_first_key k l).
Proof.
  induction l as [|[k' v] l IH]; intros H Hk; cbn; [exact H|].
  destruct (k' =? k) eqn:E.
  - destruct H as [<-|H]; [|exact H]. apply Z.eqb_eq in E. cbn in Hk. congruence.
  - destruct H as [<-|H]; [left; reflexivity|right; apply IH; assumption].
Qed.

Theorem header_superset_holds predef_f predef_i tg cmd u hin hout :
  out_header predef_f predef_i tg cmd u hin = HOk hout -> header_superset hin hout = true.
Proof.
  unfold out_header. destruct (first_not_in _ predef_f); [discriminate|].
  destruct (first_not_in _ predef_i); [discriminate|]. intros H. injection H as H. subst hout.
  unfold header_superset. cbn [h_contigs h_infos h_filters h_formats h_generic h_samples].
  change (if mem F_PASS (h_filters hin) then h_filters hin else h_filters hin ++ [F_PASS])
    with (add_new (h_filters hin) [F_PASS]).
  match goal with |- context [if mem ?x ?l then ?l else ?l ++ [?x]] =>
    change (if mem x l then l else l ++ [x]) with (add_new l [x]) end.
  repeat (apply andb_true_intro; split); try apply subset_add_new; try apply list_z_eqb_refl.
  { eapply subset_trans; apply subset_add_new. }
  unfold generic_kept. apply forallb_forall. intros [k v] Hkv. cbn [fst].
  destruct (k =? K_phasing) eqn:E; [reflexivity|]. cbn. apply existsb_exists. exists (k, v). split.
  - assert (Hin : In (k, v) (remove_first_key K_phasing (h_generic hin))).
    { apply remove_first_key_keeps; [exact Hkv|]. cbn. apply Z.eqb_neq. exact E. }
    destruct cmd; [apply in_or_app; left|]; exact Hin.
  - unfold pair_eqb. cbn. rewrite !Z.eqb_refl. reflexivity.
Qed.

(* ------------------------------------------------------------------ the only failure is the KeyError *)
Lemma update_call_err cf ru t p c e : update_call cf ru t p c = Err e -> e = EKey.
Proof.
  unfold update_call. destruct (gt c); [|intros H; inversion H; reflexivity].
  destruct (phase_at cf t p); [|destruct (dict_get p (t_comp t)); discriminate].
  destruct (dict_get p (t_comp t)); [|discriminate].
  match goal with |- context [if ?b then _ else _] => destruct b end; cbn [fst snd];
  match goal with |- context [if ?b then _ else _] => destruct b end; discriminate.
Qed.

Lemma upd_nth_err {A} (l : list A) j f e :
  upd_nth l j f = Err e -> exists x, f x = Err e.
Proof.
  revert j. induction l as [|a l IH]; intros j H; cbn in H; [discriminate|].
  destruct j as [|j].
  - destruct (f a) eqn:E; cbn in H; [discriminate|]. inversion H. subst. eauto.
  - destruct (upd_nth l j f) eqn:E; cbn in H; [discriminate|]. inversion H. subst. eauto.
Qed.

Lemma update_targets_err cf ru ts p cs e : update_targets cf ru ts p cs = Err e -> e = EKey.
Proof.
  revert cs. induction ts as [|t ts IH]; intros cs H; [discriminate|].
  rewrite update_targets_cons in H.
  destruct (upd_nth cs (t_sample t) (update_call cf ru t p)) as [cs1|e'] eqn:Eu; cbn [bind] in H.
  - eapply IH; eauto.
  - inversion H. subst. apply upd_nth_err in Eu. destruct Eu as [x Hx]. eapply update_call_err; eauto.
Qed.

Lemma steps_err cf ru ts prev l e : steps cf ru ts prev l = Err e -> e = EKey.
Proof.
  revert prev. induction l as [|r l IH]; intros prev H; cbn [steps] in H; [discriminate|].
  destruct (record_step cf ru ts prev r) as [[p' o']|e'] eqn:Er; cbn [bind] in H.
  - cbn [fst snd] in H. destruct (steps cf ru ts p' l) eqn:Es; cbn [bind] in H; [discriminate|].
    inversion H. subst. eapply IH; eauto.
  - inversion H. subst. unfold record_step in Er. destruct (skip cf ts prev r); [discriminate|].
    destruct (update_targets _ _ _ _ _) eqn:Eu; cbn [bind] in Er; [discriminate|].
    inversion Er. subst. eapply update_targets_err; eauto.
Qed.

Theorem writer_error_is_keyerror cf ru plan input e :
  map fst plan = runs input -> phase_writer cf ru plan input = Err e -> e = EKey.
Proof.
  intros Hp H. rewrite phase_writer_simple in H by exact Hp. clear Hp.
  revert input H. induction plan as [|[c ts] more IH]; intros l H; cbn [simple] in H; [discriminate|].
  destruct (take_run c l) as [run tl].
  destruct (steps cf ru ts None run) as [o|e'] eqn:Es; cbn [bind] in H.
  - destruct (simple cf ru more tl) eqn:Em; cbn [bind] in H; [discriminate|]. inversion H. subst. eauto.
  - inversion H. subst. eapply steps_err; eauto.
Qed.

(* ... and it needs a processed record without GT key *)
Lemma update_call_ok_of_gt cf ru t p c : gt c <> None -> exists c', update_call cf ru t p c = Ok c'.
Proof.
  intros H. unfold update_call. destruct (gt c); [|congruence].
  destruct (phase_at cf t p); [|destruct (dict_get p (t_comp t)); eauto].
  destruct (dict_get p (t_comp t)); [|eauto].
  match goal with |- context [if ?b then _ else _] => destruct b end; cbn [fst snd];
  match goal with |- context [if ?b then _ else _] => destruct b end; eauto.
Qed.

(* ------------------------------------------------------------------ frames of the code as it is now *)
Lemma fix_rm_fields tg c :
  other (fix_rm tg c) = other c /\ ps (fix_rm tg c) = None /\ pq (fix_rm tg c) = None /\
  (hp (fix_rm tg c) = None \/ hp (fix_rm tg c) = Some [HPdot]).
Proof.
  unfold fix_rm. destruct (clear_hp_facts (set_ps (unphase_call c) None)) as [O [_ [_ [S _]]]].
  cbn [other ps pq hp set_pq]. rewrite O, S. cbn [other ps set_ps]. rewrite unphase_call_other.
  repeat split; try reflexivity.
  unfold clear_hp. destruct (hp (set_ps (unphase_call c) None)) eqn:E; cbn; rewrite ?E; auto.
Qed.

(* In a target call only the phase encoding changes: GT (separator and order; the alleles only in the
   genotype-change branch, see alleles_preserved), PS, HP and PQ.  Precisely: every other FORMAT field is
   unchanged, PQ is cleared, and the key of the other encoding is cleared (PS under --tag HP; HP under
   --tag PS, to '.' if the record has the key). Calls of non-target samples, and all calls of a write()
   without targets, are unchanged. *)
Theorem write_frames_fix cf plan input out :
  plan_wf plan -> map fst plan = runs input -> phase_writer cf fix_rules plan input = Ok out ->
  Forall2 (fun a o =>
     length (calls o) = length (calls (fst a)) /\
     (snd a = [] -> calls o = calls (fst a) /\ ps_key o = ps_key (fst a)) /\
     forall i c c', nth_error (calls (fst a)) i = Some c -> nth_error (calls o) i = Some c' ->
       (is_target (snd a) i = false -> c' = c) /\
       (is_target (snd a) i = true ->
          other c' = other c /\ (gt c' = None <-> gt c = None) /\ pq c' = None /\
          (tag cf = TagPS -> hp c' = None \/ hp c' = Some [HPdot]) /\
          (tag cf = TagHP -> ps c' = None)))
    (annotate plan input) out.
Proof.
  intros W Hp H.
  eapply Forall2_impl; [|apply (writer_forall2 _ _ _ _ _ W Hp H)].
  intros [r ts] o [ND Hs]. cbn [fst snd] in *.
  destruct (step_rel_columns _ _ _ _ _ ND Hs) as [L [Hnil [prev Hc]]].
  split; [exact L|]. split; [exact Hnil|].
  intros i c c' Hx Hy. specialize (Hc _ _ Hx).
  destruct (fix_rm_fields (tag cf) c) as [R1 [R2 [R3 R4]]].
  pose proof (rk_gt_none _ fix_rules_ok (tag cf) c) as Rg. cbn [rm_phasing fix_rules] in Rg.
  destruct (target_of ts i) as [t|] eqn:Et.
  - assert (Hit : is_target ts i = true).
    { destruct (is_target ts i) eqn:E; [reflexivity|]. apply target_of_none_iff in E. congruence. }
    rewrite Hit. split; [discriminate|]. intros _.
    destruct (skip cf ts prev r).
    + cbn [rm_phasing fix_rules] in Hc. rewrite Hc in Hy. inversion Hy. subst c'.
      repeat split; auto; try apply Rg.
    + destruct Hc as [c2 [Hu Hn]]. rewrite Hn in Hy. inversion Hy. subst c2.
      cbn [rm_phasing fix_rules] in Hu.
      destruct (update_call_spec _ _ _ _ _ _ fix_rules_ok Hu) as [U1 [U2 [U3 [U4 [U5 [U6 _]]]]]].
      split; [congruence|]. split.
      { split; intros G; [exfalso; exact (U4 G)|]. exfalso. apply U3. apply Rg. exact G. }
      split; [congruence|]. split.
      * intros Ht. rewrite (U5 Ht). exact R4.
      * intros Ht. rewrite (U6 Ht). exact R2.
  - apply target_of_none_iff in Et. rewrite Et. rewrite Hc in Hy. inversion Hy. subst c'.
    split; [reflexivity|discriminate].
Qed.
