(* Proofs about the executable (Ped)MEC model (model/PedMEC.v): bridge to the generic semiring
   column-DP theorem (SemiringDP.v) in the (min,+) semiring (Tropical.v). ssreflect style. *)
From mathcomp Require Import all_ssreflect.
From WH.Model Require Import PedMEC.
From WH.Proofs Require Import SemiringDP Tropical.
Set Implicit Arguments.
Unset Strict Implicit.
Unset Printing Implicit Defensive.
Import Monoid.Theory.

(* ------------------------------------------------------------------ basic bridges *)
Lemma ominE : omin = tmin. Proof. by []. Qed.
Lemma oaddE : oadd = tadd. Proof. by []. Qed.

Lemma bvsE n : bvs n = bits n.
Proof. by elim: n => [|n IH] //=; rewrite bitsS -IH. Qed.

Lemma mem_bvs n v : (v \in bvs n) = (size v == n).
Proof. by rewrite bvsE mem_bitsE. Qed.

Lemma ominlE (s : seq (option nat)) : ominl s = \big[tmin/None]_(x <- s) x.
Proof. by rewrite /ominl foldrE. Qed.

Lemma ominl_map (T : Type) (f : T -> option nat) (s : seq T) :
  ominl [seq f x | x <- s] = \big[tmin/None]_(x <- s) f x.
Proof. by rewrite ominlE big_map. Qed.

Lemma ominl_map_filter (T : Type) (f : T -> option nat) (p : pred T) (s : seq T) :
  ominl [seq f x | x <- s & p x] = \big[tmin/None]_(x <- s | p x) f x.
Proof. by rewrite ominl_map big_filter. Qed.

(* ------------------------------------------------------------------ order on nat + infinity *)
Lemma ole_refl x : ole x x.
Proof. by case: x => //= a. Qed.

Lemma ole_trans y x z : ole x y -> ole y z -> ole x z.
Proof. by case: x y z => [a|] [b|] [c|] //=; exact: leq_trans. Qed.

Lemma ole_ominl x y : ole (omin x y) x.
Proof. by case: x y => [a|] [b|] //=; rewrite ?geq_minl ?leqnn. Qed.

Lemma ole_ominr x y : ole (omin x y) y.
Proof. by case: x y => [a|] [b|] //=; rewrite ?geq_minr ?leqnn. Qed.

Lemma ole_ominl_mem (s : seq (option nat)) x : x \in s -> ole (ominl s) x.
Proof.
elim: s => [|y s IH] //=; rewrite inE => /orP[/eqP->|/IH h]; first exact: ole_ominl.
exact: ole_trans (ole_ominr _ _) h.
Qed.

Lemma ole_ominl_map (T : eqType) (f : T -> option nat) (s : seq T) x :
  x \in s -> ole (ominl [seq f y | y <- s]) (f x).
Proof. by move=> hx; apply: ole_ominl_mem; apply: map_f. Qed.

Lemma ole_omin_glb x y z : ole z x -> ole z y -> ole z (omin x y).
Proof. by case: x y z => [a|] [b|] [c|] //=; rewrite leq_min => -> ->. Qed.

Lemma ominl_glb (s : seq (option nat)) z : (forall x, x \in s -> ole z x) -> ole z (ominl s).
Proof.
elim: s => [|y s IH] h /=; first by case: z {h}.
apply: ole_omin_glb; first by apply: h; rewrite inE eqxx.
by apply: IH => x hx; apply: h; rewrite inE hx orbT.
Qed.

Lemma ominl_mem (s : seq (option nat)) : ominl s = None \/ ominl s \in s.
Proof.
elim: s => [|y s [IH|IH]] /=; first by left.
  by rewrite IH; case: y => [a|]; [right; rewrite inE eqxx | left].
case: y => [a|] /=; last by right; rewrite inE IH orbT.
case e: (ominl s) IH => [b|] IH /=; last by right; rewrite inE eqxx.
right; rewrite inE; case: (leqP a b) => hab.
  by rewrite eqxx.
by rewrite IH orbT.
Qed.

(* ------------------------------------------------------------------ transmission paths *)
Lemma mem_tuples T n p : (p \in tuples T n) = (size p == n) && all (fun t => t < T) p.
Proof.
elim: n p => [|n IH] p /=; first by rewrite inE; case: p.
apply/allpairsP/andP => [[[q t] /= [hq ht ->]]|[hs ha]].
  move: hq; rewrite IH => /andP[/eqP hs ha].
  by rewrite size_rcons hs eqxx all_rcons ha andbT; move: ht; rewrite mem_iota add0n.
case/lastP: p hs ha => // q t; rewrite size_rcons eqSS all_rcons => hs /andP[ht ha].
by exists (q, t); split=> //=; rewrite ?IH ?hs ?ha // mem_iota add0n.
Qed.

(* ------------------------------------------------------------------ witness_cost *)
Section Witness.
Variable I : inst.

Lemma witness_cost beta tau :
  size beta = nreads I -> size tau = i_ncols I -> all (fun t => t < nT I) tau ->
  ole (opt_spec I) (cost_of I beta tau).
Proof.
move=> hb ht ha; rewrite /opt_spec.
have hbm : beta \in bvs (nreads I) by rewrite mem_bvs hb.
have htm : tau \in tuples (nT I) (i_ncols I) by rewrite mem_tuples ht eqxx.
apply: ole_trans (ole_ominl_map _ hbm) _.
exact: (ole_ominl_map (fun tau => cost_of I beta tau) htm).
Qed.
End Witness.

(* ------------------------------------------------------------------ structure of the active sets *)
Lemma filter_prefix (p : pred nat) n :
  (forall i j, i <= j -> j < n -> p j -> p i) ->
  [seq i <- iota 0 n | p i] = iota 0 (count p (iota 0 n)).
Proof.
elim: n => [|n IH] H //.
rewrite -addn1 iotaD filter_cat count_cat /= add0n.
have H' : forall i j, i <= j -> j < n -> p j -> p i.
  by move=> i j hij hj; apply: H => //; exact: ltnW.
case pn: (p n); last by rewrite cats0 !addn0 IH.
have hall : all p (iota 0 n).
  apply/allP => i; rewrite mem_iota add0n /= => hi.
  by apply: (H i n) => //; exact: ltnW.
rewrite (all_filterP hall); move: hall; rewrite all_count size_iota => /eqP->.
by rewrite addn0 -[iota 0 n ++ _]/(iota 0 n ++ iota (0 + n) 1) -iotaD.
Qed.

Section Structure.
Variable I : inst.
Let N := nreads I.
Let f i := r_first (rd I i).
Let l i := r_last (rd I i).

Definition seen c := count (fun i => f i < c) (iota 0 N).
Definition nnew c := count (fun i => f i == c) (iota 0 N).
Definition kept c := [seq i <- iota 0 N | (f i < c) && (c <= l i)].

Lemma f_le_l i : f i <= l i.
Proof. by rewrite /l /r_last leq_addr. Qed.

Lemma seenS c : seen c.+1 = seen c + nnew c.
Proof.
rewrite /seen /nnew -count_predUI.
rewrite [X in _ = _ + X](@eq_count _ _ pred0) ?count_pred0 ?addn0.
  by apply: eq_count => i /=; rewrite ltnS leq_eqVlt orbC.
by move=> i /=; case: ltngtP.
Qed.

Lemma seen_le c : seen c <= N.
Proof. by rewrite /seen -[X in _ <= X](size_iota 0 N) count_size. Qed.

Lemma activeE c : active I c = [seq i <- iota 0 N | (f i <= c) && (c <= l i)].
Proof. by []. Qed.

Lemma mem_active c i : (i \in active I c) = [&& i < N, f i <= c & c <= l i].
Proof. by rewrite activeE mem_filter mem_iota add0n /= andbC. Qed.

Lemma kept_mask c : mask (fmask I c) (active I c) = kept c.+1.
Proof.
rewrite /fmask -filter_mask activeE -filter_predI; apply: eq_in_filter => i.
rewrite mem_iota add0n /= => hi; rewrite mem_active hi /= ltnS.
case h1: (f i <= c) => /=; last by rewrite andbF.
rewrite (leq_trans h1 (leqnSn c)) /=.
by case h2: (c < l i); rewrite ?andbF //= (ltnW h2).
Qed.

Lemma fmask_count c : count id (fmask I c) = size (kept c.+1).
Proof. by rewrite -kept_mask size_mask // size_map. Qed.

Lemma bw_kept c : bw I c = size (kept c).
Proof.
case: c => [|c] /=.
  by rewrite /kept size_filter (@eq_count _ _ pred0) ?count_pred0.
rewrite activeE count_filter size_filter; apply: eq_in_count => i.
rewrite mem_iota add0n /= => hi; rewrite mem_active hi /= ltnS.
case h1: (f i <= c) => /=; last by rewrite ?andbF.
rewrite (leq_trans h1 (leqnSn c)) /=.
by case h2: (c < l i); rewrite ?andbF //= (ltnW h2).
Qed.

Hypothesis Hs : sorted_reads I.

Lemma f_mono i j : i <= j -> j < N -> f i <= f j.
Proof.
move=> hij hj; have hi : i < N := leq_ltn_trans hij hj.
have e k : k < N -> f k = nth 0 [seq r_first r | r <- i_reads I] k.
  by move=> hk; rewrite (nth_map dflt_read).
rewrite (e _ hi) (e _ hj).
apply: (sorted_leq_nth leq_trans leqnn 0 Hs) => //; rewrite inE size_map //.
Qed.

Lemma seen_lt c i : i < N -> (f i < c) = (i < seen c).
Proof.
move=> hi.
have hp : [seq i <- iota 0 N | f i < c] = iota 0 (seen c).
  apply: filter_prefix => a b hab hb; apply: leq_ltn_trans; exact: f_mono.
have : (i \in [seq i <- iota 0 N | f i < c]) = (i \in iota 0 (seen c)) by rewrite hp.
by rewrite mem_filter !mem_iota !add0n /= hi andbT.
Qed.

Lemma active_split c : active I c = kept c ++ iota (seen c) (nnew c).
Proof.
have hab : seen c + nnew c <= N by rewrite -seenS seen_le.
have hA : active I c = [seq i <- iota 0 N | predI (fun i => c <= l i) (fun i => i < seen c + nnew c) i].
  rewrite activeE; apply: eq_in_filter => i; rewrite mem_iota add0n /= => hi.
  by rewrite andbC -seenS -seen_lt // ltnS.
have hK : kept c = [seq i <- iota 0 N | predI (fun i => c <= l i) (fun i => i < seen c) i].
  apply: eq_in_filter => i; rewrite mem_iota add0n /= => hi.
  by rewrite andbC -seen_lt.
rewrite hA hK !filter_predI.
rewrite -[in LHS](add0n (seen c + nnew c)) filter_iota_ltn // -[in RHS](add0n (seen c)) filter_iota_ltn ?seen_le //.
rewrite iotaD filter_cat add0n; congr (_ ++ _).
apply/all_filterP/allP => i; rewrite mem_iota => /andP[h1 h2].
have hi : i < N := leq_trans h2 hab.
apply: leq_trans (f_le_l i); rewrite leqNgt seen_lt // -leqNgt.
exact: h1.
Qed.

Lemma size_active c : size (active I c) = size (kept c) + nnew c.
Proof. by rewrite active_split size_cat size_iota. Qed.

Hypothesis Hl : forall i, i < N -> l i < i_ncols I.

Lemma active_last : active I (i_ncols I) = [::].
Proof.
rewrite activeE; apply/eqP; rewrite -[_ == _]negbK -has_filter; apply/hasPn => i.
rewrite mem_iota add0n /= => hi; rewrite negb_and orbC -ltnNge (Hl hi) //.
Qed.

Lemma kept_last : kept (i_ncols I) = [::].
Proof.
rewrite /kept; apply/eqP; rewrite -[_ == _]negbK -has_filter; apply/hasPn => i.
rewrite mem_iota add0n /= => hi; rewrite negb_and orbC -ltnNge (Hl hi) //.
Qed.

Lemma seen_last : seen (i_ncols I) = N.
Proof.
rewrite /seen -[RHS](size_iota 0 N); apply/eqP; rewrite -all_count; apply/allP => i.
rewrite mem_iota add0n /= => hi; exact: leq_ltn_trans (f_le_l i) (Hl hi).
Qed.
End Structure.

(* ------------------------------------------------------------------ tables *)
Section Tables.
Variable I : inst.

Definition mktab (ks : seq (seq bool)) (g : seq bool -> nat -> option nat) : table :=
  [seq (k, [seq g k t | t <- ts I]) | k <- ks].

Lemma nth_ts (g : nat -> option nat) t : t < nT I -> nth None [seq g t' | t' <- ts I] t = g t.
Proof. by move=> ht; rewrite (nth_map 0) ?size_iota // nth_iota // add0n. Qed.

Lemma tlook_mktab ks g k t : k \in ks -> t < nT I -> tlook (mktab ks g) k t = g k t.
Proof.
move=> hk ht; rewrite /tlook; elim: ks hk => [|k' ks IH] //=.
rewrite inE; case: (k' =P k) => [->|ne] /=; first by rewrite nth_ts.
by rewrite eq_sym; case: (k' =P k) ne => //= _ _ /IH.
Qed.

Lemma map_mktab_filter ks g (p : pred (seq bool)) t : t < nT I ->
  [seq nth None e.2 t | e <- mktab ks g & p e.1] = [seq g k t | k <- ks & p k].
Proof.
move=> ht; rewrite /mktab filter_map -map_comp.
by apply: eq_map => k /=; rewrite nth_ts.
Qed.

Lemma conflict_mktab ks g :
  conflict_in (mktab ks g) = has (fun x => all (fun t => ~~ isSome (g x t)) (ts I)) ks.
Proof. by rewrite /conflict_in /mktab has_map; apply: eq_has => x /=; rewrite all_map. Qed.

Lemma local_rowsE c :
  local_rows I c = mktab (bvs (size (active I c))) (fun x t => local_cost I c x t).
Proof.
rewrite /local_rows /mktab /colents size_map; apply: eq_map => x.
by rewrite -map_comp.
Qed.

Lemma ominl_mktab ks g :
  ominl [seq ominl e.2 | e <- mktab ks g] =
  \big[tmin/None]_(x <- ks) \big[tmin/None]_(t <- ts I) g x t.
Proof.
rewrite /mktab -map_comp ominl_map; apply: eq_bigr => x _ /=.
by rewrite ominl_map.
Qed.

Lemma isSome_ominl_somes (A : eqType) (h : A -> nat) (s : seq A) :
  s != [::] -> isSome (ominl [seq Some (h a) | a <- s]).
Proof. by case: s => [|a s] //= _; case: (ominl _). Qed.

Lemma local_cost_some c x t : allowed I c t != [::] -> isSome (local_cost I c x t).
Proof.
rewrite /local_cost /lcost /assignment_costs /allowed -map_comp => h.
exact: (isSome_ominl_somes (fun ag => ag.2 + flip_cost (mk_cc I c t).1 (colents I c) x ag.1) h).
Qed.
End Tables.
