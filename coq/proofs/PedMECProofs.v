(* Proofs about the executable (Ped)MEC model (model/PedMEC.v): bridge to the generic semiring
   column-DP theorem (SemiringDP.v) in the (min,+) semiring (Tropical.v). ssreflect style. *)
From mathcomp Require Import all_ssreflect.
From WH.Model Require Import PedMEC.
From WH.Proofs Require Import SemiringDP Tropical.
Set Implicit Arguments.
Unset Strict Implicit.
Unset Printing Implicit Defensive.
Import Monoid.Theory.

(* ------------------------------------------------------------------ basic bridges *)
Lemma ominE : omin = tmin. Proof. by []. Qed.
Lemma oaddE : oadd = tadd. Proof. by []. Qed.

Lemma bvsE n : bvs n = bits n.
Proof. by elim: n => [|n IH] //=; rewrite bitsS -IH. Qed.

Lemma mem_bvs n v : (v \in bvs n) = (size v == n).
Proof. by rewrite bvsE mem_bitsE. Qed.

Lemma ominlE (s : seq (option nat)) : ominl s = \big[tmin/None]_(x <- s) x.
Proof. by rewrite /ominl foldrE. Qed.

Lemma ominl_map (T : Type) (f : T -> option nat) (s : seq T) :
  ominl [seq f x | x <- s] = \big[tmin/None]_(x <- s) f x.
Proof. by rewrite ominlE big_map. Qed.

Lemma ominl_map_filter (T : Type) (f : T -> option nat) (p : pred T) (s : seq T) :
  ominl [seq f x | x <- s & p x] = \big[tmin/None]_(x <- s | p x) f x.
Proof. by rewrite ominl_map big_filter. Qed.

(* ------------------------------------------------------------------ order on nat + infinity *)
Lemma ole_refl x : ole x x.
Proof. by case: x => //= a. Qed.

Lemma ole_trans y x z : ole x y -> ole y z -> ole x z.
Proof. by case: x y z => [a|] [b|] [c|] //=; exact: leq_trans. Qed.

Lemma ole_ominl x y : ole (omin x y) x.
Proof. by case: x y => [a|] [b|] //=; rewrite ?geq_minl ?leqnn. Qed.

Lemma ole_ominr x y : ole (omin x y) y.
Proof. by case: x y => [a|] [b|] //=; rewrite ?geq_minr ?leqnn. Qed.

Lemma ole_ominl_mem (s : seq (option nat)) x : x \in s -> ole (ominl s) x.
Proof.
elim: s => [|y s IH] //=; rewrite inE => /orP[/eqP->|/IH h]; first exact: ole_ominl.
exact: ole_trans (ole_ominr _ _) h.
Qed.

Lemma ole_ominl_map (T : eqType) (f : T -> option nat) (s : seq T) x :
  x \in s -> ole (ominl [seq f y | y <- s]) (f x).
Proof. by move=> hx; apply: ole_ominl_mem; apply: map_f. Qed.

Lemma ole_omin_glb x y z : ole z x -> ole z y -> ole z (omin x y).
Proof. by case: x y z => [a|] [b|] [c|] //=; rewrite leq_min => -> ->. Qed.

Lemma ominl_glb (s : seq (option nat)) z : (forall x, x \in s -> ole z x) -> ole z (ominl s).
Proof.
elim: s => [|y s IH] h /=; first by case: z {h}.
apply: ole_omin_glb; first by apply: h; rewrite inE eqxx.
by apply: IH => x hx; apply: h; rewrite inE hx orbT.
Qed.

Lemma ominl_mem (s : seq (option nat)) : ominl s = None \/ ominl s \in s.
Proof.
elim: s => [|y s [IH|IH]] /=; first by left.
  by rewrite IH; case: y => [a|]; [right; rewrite inE eqxx | left].
case: y => [a|] /=; last by right; rewrite inE IH orbT.
case e: (ominl s) IH => [b|] IH /=; last by right; rewrite inE eqxx.
right; rewrite inE; case: (leqP a b) => hab.
  by rewrite eqxx.
by rewrite IH orbT.
Qed.

(* ------------------------------------------------------------------ transmission paths *)
Lemma mem_tuples T n p : (p \in tuples T n) = (size p == n) && all (fun t => t < T) p.
Proof.
elim: n p => [|n IH] p /=; first by rewrite inE; case: p.
apply/allpairsP/andP => [[[q t] /= [hq ht ->]]|[hs ha]].
  move: hq; rewrite IH => /andP[/eqP hs ha].
  by rewrite size_rcons hs eqxx all_rcons ha andbT; move: ht; rewrite mem_iota add0n.
case/lastP: p hs ha => // q t; rewrite size_rcons eqSS all_rcons => hs /andP[ht ha].
by exists (q, t); split=> //=; rewrite ?IH ?hs ?ha // mem_iota add0n.
Qed.

(* ------------------------------------------------------------------ witness_cost *)
Section Witness.
Variable I : inst.

Lemma witness_cost beta tau :
  size beta = nreads I -> size tau = i_ncols I -> all (fun t => t < nT I) tau ->
  ole (opt_spec I) (cost_of I beta tau).
Proof.
move=> hb ht ha; rewrite /opt_spec.
have hbm : beta \in bvs (nreads I) by rewrite mem_bvs hb.
have htm : tau \in tuples (nT I) (i_ncols I) by rewrite mem_tuples ht eqxx.
apply: ole_trans (ole_ominl_map _ hbm) _.
exact: (ole_ominl_map (fun tau => cost_of I beta tau) htm).
Qed.
End Witness.
