(* Proofs about the executable (Ped)MEC model (model/PedMEC.v): bridge to the generic semiring
   column-DP theorem (SemiringDP.v) in the (min,+) semiring (Tropical.v). ssreflect style. *)
From mathcomp Require Import all_ssreflect.
From WH.Model Require Import PedMEC.
From WH.Proofs Require Import SemiringDP Tropical.
Set Implicit Arguments.
Unset Strict Implicit.
Unset Printing Implicit Defensive.
Import Monoid.Theory.

(* ------------------------------------------------------------------ basic bridges *)
Lemma ominE : omin = tmin. Proof. by []. Qed.
Lemma oaddE : oadd = tadd. Proof. by []. Qed.

Lemma bvsE n : bvs n = bits n.
Proof. by elim: n => [|n IH] //=; rewrite bitsS -IH. Qed.

Lemma mem_bvs n v : (v \in bvs n) = (size v == n).
Proof. by rewrite bvsE mem_bitsE. Qed.

Lemma ominlE (s : seq (option nat)) : ominl s = \big[tmin/None]_(x <- s) x.
Proof. by rewrite /ominl foldrE. Qed.

Lemma ominl_map (T : Type) (f : T -> option nat) (s : seq T) :
  ominl [seq f x | x <- s] = \big[tmin/None]_(x <- s) f x.
Proof. by rewrite ominlE big_map. Qed.

Lemma ominl_map_filter (T : Type) (f : T -> option nat) (p : pred T) (s : seq T) :
  ominl [seq f x | x <- s & p x] = \big[tmin/None]_(x <- s | p x) f x.
Proof. by rewrite ominl_map big_filter. Qed.

(* ------------------------------------------------------------------ order on nat + infinity *)
Lemma ole_refl x : ole x x.
Proof. by case: x => //= a. Qed.

Lemma ole_trans y x z : ole x y -> ole y z -> ole x z.
Proof. by case: x y z => [a|] [b|] [c|] //=; exact: leq_trans. Qed.

Lemma ole_ominl x y : ole (omin x y) x.
Proof. by case: x y => [a|] [b|] //=; rewrite ?geq_minl ?leqnn. Qed.

Lemma ole_ominr x y : ole (omin x y) y.
Proof. by case: x y => [a|] [b|] //=; rewrite ?geq_minr ?leqnn. Qed.

Lemma ole_ominl_mem (s : seq (option nat)) x : x \in s -> ole (ominl s) x.
Proof.
elim: s => [|y s IH] //=; rewrite inE => /orP[/eqP->|/IH h]; first exact: ole_ominl.
exact: ole_trans (ole_ominr _ _) h.
Qed.

Lemma ole_ominl_map (T : eqType) (f : T -> option nat) (s : seq T) x :
  x \in s -> ole (ominl [seq f y | y <- s]) (f x).
Proof. by move=> hx; apply: ole_ominl_mem; apply: map_f. Qed.

Lemma ole_omin_glb x y z : ole z x -> ole z y -> ole z (omin x y).
Proof. by case: x y z => [a|] [b|] [c|] //=; rewrite leq_min => -> ->. Qed.

Lemma ominl_glb (s : seq (option nat)) z : (forall x, x \in s -> ole z x) -> ole z (ominl s).
Proof.
elim: s => [|y s IH] h /=; first by case: z {h}.
apply: ole_omin_glb; first by apply: h; rewrite inE eqxx.
by apply: IH => x hx; apply: h; rewrite inE hx orbT.
Qed.

Lemma ominl_mem (s : seq (option nat)) : ominl s = None \/ ominl s \in s.
Proof.
elim: s => [|y s [IH|IH]] /=; first by left.
  by rewrite IH; case: y => [a|]; [right; rewrite inE eqxx | left].
case: y => [a|] /=; last by right; rewrite inE IH orbT.
case e: (ominl s) IH => [b|] IH /=; last by right; rewrite inE eqxx.
right; rewrite inE; case: (leqP a b) => hab.
  by rewrite eqxx.
by rewrite IH orbT.
Qed.

(* ------------------------------------------------------------------ transmission paths *)
Lemma mem_tuples T n p : (p \in tuples T n) = (size p == n) && all (fun t => t < T) p.
Proof.
elim: n p => [|n IH] p /=; first by rewrite inE; case: p.
apply/allpairsP/andP => [[[q t] /= [hq ht ->]]|[hs ha]].
  move: hq; rewrite IH => /andP[/eqP hs ha].
  by rewrite size_rcons hs eqxx all_rcons ha andbT; move: ht; rewrite mem_iota add0n.
case/lastP: p hs ha => // q t; rewrite size_rcons eqSS all_rcons => hs /andP[ht ha].
by exists (q, t); split=> //=; rewrite ?IH ?hs ?ha // mem_iota add0n.
Qed.

(* ------------------------------------------------------------------ witness_cost *)
Section Witness.
Variable I : inst.

Lemma witness_cost beta tau :
  size beta = nreads I -> size tau = i_ncols I -> all (fun t => t < nT I) tau ->
  ole (opt_spec I) (cost_of I beta tau).
Proof.
move=> hb ht ha; rewrite /opt_spec.
have hbm : beta \in bvs (nreads I) by rewrite mem_bvs hb.
have htm : tau \in tuples (nT I) (i_ncols I) by rewrite mem_tuples ht eqxx.
apply: ole_trans (ole_ominl_map _ hbm) _.
exact: (ole_ominl_map (fun tau => cost_of I beta tau) htm).
Qed.
End Witness.

(* ------------------------------------------------------------------ structure of the active sets *)
Lemma filter_prefix (p : pred nat) n :
  (forall i j, i <= j -> j < n -> p j -> p i) ->
  [seq i <- iota 0 n | p i] = iota 0 (count p (iota 0 n)).
Proof.
elim: n => [|n IH] H //.
rewrite -addn1 iotaD filter_cat count_cat /= add0n.
have H' : forall i j, i <= j -> j < n -> p j -> p i.
  by move=> i j hij hj; apply: H => //; exact: ltnW.
case pn: (p n); last by rewrite cats0 !addn0 IH.
have hall : all p (iota 0 n).
  apply/allP => i; rewrite mem_iota add0n /= => hi.
  by apply: (H i n) => //; exact: ltnW.
rewrite (all_filterP hall); move: hall; rewrite all_count size_iota => /eqP->.
by rewrite addn0 -[iota 0 n ++ _]/(iota 0 n ++ iota (0 + n) 1) -iotaD.
Qed.

Section Structure.
Variable I : inst.
Let N := nreads I.
Let f i := r_first (rd I i).
Let l i := r_last (rd I i).

Definition seen c := count (fun i => f i < c) (iota 0 N).
Definition nnew c := count (fun i => f i == c) (iota 0 N).
Definition kept c := [seq i <- iota 0 N | (f i < c) && (c <= l i)].

Lemma f_le_l i : f i <= l i.
Proof. by rewrite /l /r_last leq_addr. Qed.

Lemma seenS c : seen c.+1 = seen c + nnew c.
Proof.
rewrite /seen /nnew -count_predUI.
rewrite [X in _ = _ + X](@eq_count _ _ pred0) ?count_pred0 ?addn0.
  by apply: eq_count => i /=; rewrite ltnS leq_eqVlt orbC.
by move=> i /=; case: ltngtP.
Qed.

Lemma seen_le c : seen c <= N.
Proof. by rewrite /seen -[X in _ <= X](size_iota 0 N) count_size. Qed.

Lemma activeE c : active I c = [seq i <- iota 0 N | (f i <= c) && (c <= l i)].
Proof. by []. Qed.

Lemma mem_active c i : (i \in active I c) = [&& i < N, f i <= c & c <= l i].
Proof. by rewrite activeE mem_filter mem_iota add0n /= andbC. Qed.

Lemma kept_mask c : mask (fmask I c) (active I c) = kept c.+1.
Proof.
rewrite /fmask -filter_mask activeE -filter_predI; apply: eq_in_filter => i.
rewrite mem_iota add0n /= => hi; rewrite mem_active hi /= ltnS.
case h1: (f i <= c) => /=; last by rewrite andbF.
rewrite (leq_trans h1 (leqnSn c)) /=.
by case h2: (c < l i); rewrite ?andbF //= (ltnW h2).
Qed.

Lemma fmask_count c : count id (fmask I c) = size (kept c.+1).
Proof. by rewrite -kept_mask size_mask // size_map. Qed.

Lemma bw_kept c : bw I c = size (kept c).
Proof.
case: c => [|c] /=.
  by rewrite /kept size_filter (@eq_count _ _ pred0) ?count_pred0.
rewrite activeE count_filter size_filter; apply: eq_in_count => i.
rewrite mem_iota add0n /= => hi; rewrite mem_active hi /= ltnS.
case h1: (f i <= c) => /=; last by rewrite ?andbF.
rewrite (leq_trans h1 (leqnSn c)) /=.
by case h2: (c < l i); rewrite ?andbF //= (ltnW h2).
Qed.

Hypothesis Hs : sorted_reads I.

Lemma f_mono i j : i <= j -> j < N -> f i <= f j.
Proof.
move=> hij hj; have hi : i < N := leq_ltn_trans hij hj.
have e k : k < N -> f k = nth 0 [seq r_first r | r <- i_reads I] k.
  by move=> hk; rewrite (nth_map dflt_read).
rewrite (e _ hi) (e _ hj).
apply: (sorted_leq_nth leq_trans leqnn 0 Hs) => //; rewrite inE size_map //.
Qed.

Lemma seen_lt c i : i < N -> (f i < c) = (i < seen c).
Proof.
move=> hi.
have hp : [seq i <- iota 0 N | f i < c] = iota 0 (seen c).
  apply: filter_prefix => a b hab hb; apply: leq_ltn_trans; exact: f_mono.
have : (i \in [seq i <- iota 0 N | f i < c]) = (i \in iota 0 (seen c)) by rewrite hp.
by rewrite mem_filter !mem_iota !add0n /= hi andbT.
Qed.

Lemma active_split c : active I c = kept c ++ iota (seen c) (nnew c).
Proof.
have hab : seen c + nnew c <= N by rewrite -seenS seen_le.
have hA : active I c = [seq i <- iota 0 N | predI (fun i => c <= l i) (fun i => i < seen c + nnew c) i].
  rewrite activeE; apply: eq_in_filter => i; rewrite mem_iota add0n /= => hi.
  by rewrite andbC -seenS -seen_lt // ltnS.
have hK : kept c = [seq i <- iota 0 N | predI (fun i => c <= l i) (fun i => i < seen c) i].
  apply: eq_in_filter => i; rewrite mem_iota add0n /= => hi.
  by rewrite andbC -seen_lt.
rewrite hA hK !filter_predI.
rewrite -[in LHS](add0n (seen c + nnew c)) filter_iota_ltn // -[in RHS](add0n (seen c)) filter_iota_ltn ?seen_le //.
rewrite iotaD filter_cat add0n; congr (_ ++ _).
apply/all_filterP/allP => i; rewrite mem_iota => /andP[h1 h2].
have hi : i < N := leq_trans h2 hab.
apply: leq_trans (f_le_l i); rewrite leqNgt seen_lt // -leqNgt.
exact: h1.
Qed.

Lemma size_active c : size (active I c) = size (kept c) + nnew c.
Proof. by rewrite active_split size_cat size_iota. Qed.

Hypothesis Hl : forall i, i < N -> l i < i_ncols I.

Lemma active_last : active I (i_ncols I) = [::].
Proof.
rewrite activeE; apply/eqP; rewrite -[_ == _]negbK -has_filter; apply/hasPn => i.
rewrite mem_iota add0n /= => hi; rewrite negb_and orbC -ltnNge (Hl hi) //.
Qed.

Lemma kept_last : kept (i_ncols I) = [::].
Proof.
rewrite /kept; apply/eqP; rewrite -[_ == _]negbK -has_filter; apply/hasPn => i.
rewrite mem_iota add0n /= => hi; rewrite negb_and orbC -ltnNge (Hl hi) //.
Qed.

Lemma seen_last : seen (i_ncols I) = N.
Proof.
rewrite /seen -[RHS](size_iota 0 N); apply/eqP; rewrite -all_count; apply/allP => i.
rewrite mem_iota add0n /= => hi; exact: leq_ltn_trans (f_le_l i) (Hl hi).
Qed.
End Structure.

(* ------------------------------------------------------------------ tables *)
Section Tables.
Variable I : inst.

Definition mktab (ks : seq (seq bool)) (g : seq bool -> nat -> option nat) : table :=
  [seq (k, [seq g k t | t <- ts I]) | k <- ks].

Lemma nth_ts (g : nat -> option nat) t : t < nT I -> nth None [seq g t' | t' <- ts I] t = g t.
Proof. by move=> ht; rewrite (nth_map 0) ?size_iota // nth_iota // add0n. Qed.

Lemma tlook_mktab ks g k t : k \in ks -> t < nT I -> tlook (mktab ks g) k t = g k t.
Proof.
move=> hk ht; rewrite /tlook; elim: ks hk => [|k' ks IH] //=.
rewrite inE; case: (k' =P k) => [->|ne] /=; first by rewrite nth_ts.
by rewrite eq_sym; case: (k' =P k) ne => //= _ _ /IH.
Qed.

Lemma map_mktab_filter ks g (p : pred (seq bool)) t : t < nT I ->
  [seq nth None e.2 t | e <- mktab ks g & p e.1] = [seq g k t | k <- ks & p k].
Proof.
move=> ht; rewrite /mktab filter_map -map_comp.
by apply: eq_map => k /=; rewrite nth_ts.
Qed.

Lemma conflict_mktab ks g :
  conflict_in (mktab ks g) = has (fun x => all (fun t => ~~ isSome (g x t)) (ts I)) ks.
Proof. by rewrite /conflict_in /mktab has_map; apply: eq_has => x /=; rewrite all_map. Qed.

Lemma local_rowsE c :
  local_rows I c = mktab (bvs (size (active I c))) (fun x t => local_cost I c x t).
Proof.
rewrite /local_rows /mktab /colents size_map; apply: eq_map => x.
by rewrite -map_comp.
Qed.

Lemma ominl_mktab ks g :
  ominl [seq ominl e.2 | e <- mktab ks g] =
  \big[tmin/None]_(x <- ks) \big[tmin/None]_(t <- ts I) g x t.
Proof.
rewrite /mktab -map_comp ominl_map; apply: eq_bigr => x _ /=.
by rewrite ominl_map.
Qed.

Lemma isSome_ominl_somes (A : eqType) (h : A -> nat) (s : seq A) :
  s != [::] -> isSome (ominl [seq Some (h a) | a <- s]).
Proof. by case: s => [|a s] //= _; case: (ominl _). Qed.

Lemma local_cost_some c x t : allowed I c t != [::] -> isSome (local_cost I c x t).
Proof.
rewrite /local_cost /lcost /assignment_costs /allowed -map_comp => h.
exact: (isSome_ominl_somes (fun ag => ag.2 + flip_cost (mk_cc I c t).1 (colents I c) x ag.1) h).
Qed.
End Tables.

(* ------------------------------------------------------------------ the executable DP is SemiringDP.run *)
Section DP.
Variable I : inst.
Hypothesis Hs : sorted_reads I.
Hypothesis Hl : forall i, i < nreads I -> r_last (rd I i) < i_ncols I.
Let n := i_ncols I.

Definition Lc c : seq bool -> nat -> option nat := fun x t => local_cost I c x t.
Definition Tc c : nat -> nat -> option nat := fun t' t => Some (trans_cost I c t' t).
Definition mkcol c : col (option nat) := Col (nnew I c) (Lc c) (Tc c) (fmask I c).
Definition cols : seq (col (option nat)) := [seq mkcol c | c <- iota 0 n].
Definition ini : nat -> option nat := fun _ => Some 0.
Definition St c : st (option nat) := run tmin_addoid (nT I) ini (take c cols).

Lemma St_step c : c < n -> St c.+1 = step tmin_addoid (nT I) (St c) (mkcol c).
Proof.
move=> hc; rewrite /St (take_nth (mkcol 0)) ?size_map ?size_iota //.
by rewrite /run -cats1 foldl_cat /= (nth_map 0) ?size_iota // nth_iota // add0n.
Qed.

Lemma seen0 : seen I 0 = 0.
Proof. by rewrite /seen (@eq_count _ _ pred0) ?count_pred0. Qed.
Lemma kept0 : kept I 0 = [::].
Proof. by rewrite /kept (@eq_filter _ _ pred0) ?filter_pred0. Qed.

Lemma St_shape c : c <= n -> sm (St c) = seen I c /\ sS (St c) = kept I c.
Proof.
elim: c => [|c IH] hc; first by rewrite /St take0 /= seen0 kept0.
case: (IH (ltnW hc)) => h1 h2; rewrite St_step //= h1 h2 seenS; split=> //.
by rewrite /act -active_split // kept_mask.
Qed.

Definition tab_ok c (prev : table) : Prop :=
  forall sigma t, size sigma = size (kept I c) -> t < nT I -> tlook prev sigma t = sP (St c) sigma t.

Lemma tab_ok0 : tab_ok 0 (prev0 I).
Proof.
move=> sigma t; rewrite kept0 /= => /size0nil-> ht.
by rewrite /tlook /= nth_nseq ht /St take0.
Qed.

Definition Dc c : seq bool -> nat -> option nat :=
  D tmin_addoid (nT I) (kept I c) (sP (St c)) (Lc c) (Tc c).

Lemma dp_columnE c prev : tab_ok c prev ->
  dp_column I c (local_rows I c) prev = mktab I (bvs (size (active I c))) (Dc c).
Proof.
move=> hprev; rewrite local_rowsE /dp_column /mktab -map_comp.
apply/eq_in_map => x; rewrite mem_bvs => /eqP hx /=; congr pair.
apply/eq_in_map => t; rewrite mem_iota add0n /= => ht.
rewrite nth_ts // /Dc /D /= /Lc; congr tadd.
rewrite ominl_map; apply: eq_big_seq => t'; rewrite mem_iota add0n /= => ht'.
rewrite -/(tlook prev _ t') hprev // ?bw_kept //.
rewrite size_take hx size_active //; case: ltnP => // h; apply/eqP; by rewrite eqn_leq h leq_addr.
Qed.

Lemma projectE c g :
  project I c (mktab I (bvs (size (active I c))) g) =
  mktab I (bvs (size (kept I c.+1)))
    (fun s t => \big[tmin/None]_(x <- bits (size (kept I c) + nnew I c) | mask (fmask I c) x == s) g x t).
Proof.
rewrite /project fmask_count /mktab; apply: eq_map => s; congr pair.
apply/eq_in_map => t; rewrite mem_iota add0n /= => ht.
rewrite -/(mktab I (bvs (size (active I c))) g).
rewrite (map_mktab_filter _ g (fun x => mask (fmask I c) x == s) ht).
by rewrite ominl_map_filter bvsE size_active.
Qed.

Lemma tab_ok_step c prev : c < n -> tab_ok c prev ->
  tab_ok c.+1 (project I c (dp_column I c (local_rows I c) prev)).
Proof.
move=> hc hprev sigma t hs ht.
rewrite dp_columnE // projectE tlook_mktab ?mem_bvs ?hs //.
rewrite St_step //= /P'.
by case: (St_shape (ltnW hc)) => _ ->.
Qed.

Lemma final_ok c prev : c.+1 = n -> tab_ok c prev ->
  ominl [seq ominl e.2 | e <- dp_column I c (local_rows I c) prev] = dp_total tmin_addoid (nT I) (St n).
Proof.
move=> hc hprev; rewrite dp_columnE // ominl_mktab /dp_total.
have hcn : c < n by rewrite -hc.
case: (St_shape (leqnn n)) => _ ->; rewrite kept_last //= bits0 big_seq1.
rewrite -hc St_step //= /P'.
case: (St_shape (ltnW hcn)) => _ ->.
rewrite exchange_big /= bvsE size_active //; apply: eq_bigr => t _.
rewrite [RHS]big_mkcond /=; apply: eq_big_seq => x; rewrite mem_bitsE => /eqP hx.
have -> : mask (fmask I c) x = [::]; last by [].
apply: size0nil; rewrite size_mask ?fmask_count ?hc ?kept_last //.
by rewrite size_map hx size_active.
Qed.

Hypothesis Hnc : no_conflict I.

Lemma no_conflict_in c : c < n -> conflict_in (local_rows I c) = false.
Proof.
move=> hc; rewrite local_rowsE conflict_mktab; apply/negbTE/hasPn => x _.
move/allP: Hnc => /(_ c); rewrite mem_iota add0n => /(_ hc) /hasP[t ht hal].
rewrite -has_predC; apply/hasP; exists t => //=.
by rewrite negbK; apply: local_cost_some.
Qed.

Lemma dp_loop_ok k c prev : c + k.+1 = n -> tab_ok c prev ->
  dp_loop I (iota c k.+1) prev = Cost (dp_total tmin_addoid (nT I) (St n)).
Proof.
elim: k c prev => [|k IH] c prev hck hprev.
  rewrite /= no_conflict_in; last by rewrite -hck addn1.
  by rewrite final_ok // -hck addn1.
have hc : c < n by rewrite -hck -addSnnS ltn_addr.
rewrite [iota c _]/= [dp_loop _ _ _]/= no_conflict_in //.
by apply: IH; [rewrite addSnnS | apply: tab_ok_step].
Qed.

Lemma take_cols : St n = run tmin_addoid (nT I) ini cols.
Proof. by rewrite /St take_oversize // size_map size_iota. Qed.

Lemma dp_cost_total : 0 < n -> dp_cost I = Cost (dp_total tmin_addoid (nT I) (run tmin_addoid (nT I) ini cols)).
Proof.
rewrite -take_cols /dp_cost -/n; case: n (@dp_loop_ok) => // m H _.
by apply: H; [rewrite add0n | exact: tab_ok0].
Qed.
End DP.

(* ------------------------------------------------------------------ expansion of sF into the explicit objective *)
Lemma oaddl_map (A : Type) (h : A -> option nat) (s : seq A) :
  oaddl [seq h a | a <- s] = \big[tadd/Some 0]_(a <- s) h a.
Proof. by rewrite /oaddl foldrE big_map. Qed.

Lemma hamming_refl nb t : hamming nb t t = 0.
Proof. by elim: nb t => [|nb IH] t //=; rewrite eqxx IH. Qed.

Lemma big_tmin_zero (s : seq nat) (g : nat -> nat) t :
  t \in s -> g t = 0 -> \big[tmin/None]_(t' <- s) Some (g t') = Some 0.
Proof.
move=> hin hg; elim: s hin => [|a s IH] //; rewrite inE big_cons.
case: (t =P a) => [<- _|_ /= /IH->]; last by rewrite /= minn0.
by rewrite hg; case: (\big[tmin/None]_(j <- s) _) => [b|] //=; rewrite min0n.
Qed.

Section Expand.
Variable I : inst.
Hypothesis Hs : sorted_reads I.
Hypothesis Hl : forall i, i < nreads I -> r_last (rd I i) < i_ncols I.
Let n := i_ncols I.

Lemma sF_step c beta t : c < n ->
  sF (St I c.+1) beta t =
  tadd (local_cost I c (restrict (active I c) beta) t)
       (\big[tmin/None]_(t' <- iota 0 (nT I)) tadd (sF (St I c) beta t') (Some (trans_cost I c t' t))).
Proof.
move=> hc; rewrite St_step //= /F' /=.
case: (St_shape Hs (ltnW hc)) => -> ->.
by rewrite /act -active_split.
Qed.

Lemma nth_rcons_lt (p : seq nat) t c : c < size p -> nth 0 (rcons p t) c = nth 0 p c.
Proof. by move=> h; rewrite nth_rcons h. Qed.

Lemma term_rcons beta p t c : c < size p -> term I beta (rcons p t) c = term I beta p c.
Proof.
move=> hc; rewrite /term nth_rcons_lt //; case: c hc => [|c] hc //.
by rewrite nth_rcons_lt // ltnW.
Qed.

Lemma term_last beta p t' t : term I beta (rcons (rcons p t') t) (size p).+1 =
  tadd (Some (trans_cost I (size p).+1 t' t)) (local_cost I (size p).+1 (restrict (active I (size p).+1) beta) t).
Proof.
rewrite /term !nth_rcons !size_rcons ltnn eqxx ltnS leqnn ltnn eqxx.
by [] .
Qed.

Lemma sF_expand j beta t : j < n -> t < nT I ->
  sF (St I j.+1) beta t =
  \big[tmin/None]_(p <- tuples (nT I) j) \big[tadd/Some 0]_(c <- iota 0 j.+1) term I beta (rcons p t) c.
Proof.
elim: j t => [|j IH] t hj ht.
  rewrite sF_step // /= big_seq1 /= big_seq1 /term /= /St take0 /= /ini.
  rewrite (@big_tmin_zero _ (fun t' => 0 + trans_cost I 0 t' t) t) ?mem_iota ?add0n //; last first.
    by rewrite /trans_cost hamming_refl.
  by rewrite taddx1; case: (local_cost _ _ _ _).
rewrite sF_step //.
transitivity (\big[tmin/None]_(p <- tuples (nT I) j) \big[tmin/None]_(t' <- iota 0 (nT I))
               tadd (\big[tadd/Some 0]_(c <- iota 0 j.+1) term I beta (rcons p t') c)
                    (tadd (Some (trans_cost I j.+1 t' t))
                          (local_cost I j.+1 (restrict (active I j.+1) beta) t))).
  rewrite exchange_big /= big_distrr /=; apply: eq_big_seq => t'; rewrite mem_iota add0n /= => ht'.
  rewrite IH // ?(ltnW hj) // big_distrl /= big_distrr /=; apply: eq_bigr => p _.
  by rewrite taddC -taddA.
rewrite [tuples _ j.+1]/= big_allpairs_dep.
apply: eq_big_seq => p; rewrite mem_tuples => /andP[/eqP hp _].
apply: eq_bigr => t' _.
rewrite -[in RHS]addn1 iotaD big_cat big_seq1 add0n.
rewrite -[in X in term _ _ _ X]hp term_last hp; congr tadd.
apply: eq_big_seq => c; rewrite mem_iota add0n /= => hc.
by rewrite [RHS]term_rcons // size_rcons hp.
Qed.

Lemma total_expand : 0 < n ->
  \big[tmin/None]_(beta <- bits (nreads I)) \big[tmin/None]_(t <- iota 0 (nT I)) sF (St I n) beta t
  = opt_spec I.
Proof.
rewrite /opt_spec /cost_of ominl_map bvsE -/n; case: n (@sF_expand) => // m H _.
apply: eq_bigr => beta _; rewrite ominl_map [tuples _ _]/= big_allpairs_dep /= exchange_big /=.
apply: eq_big_seq => t; rewrite mem_iota add0n /= => ht.
rewrite H //; apply: eq_bigr => p _.
by rewrite oaddl_map [LHS]/= big_cons.
Qed.
End Expand.

Lemma ominl_const0 (A : Type) (s : seq A) : s <> [::] -> ominl [seq Some 0 | _ <- s] = Some 0.
Proof. by elim: s => [|a [|b s] IH] // _; rewrite /= in IH *; rewrite IH. Qed.

(* ------------------------------------------------------------------ dp_cost_optimal *)
Lemma wf_last I : wf I -> forall i, i < nreads I -> r_last (rd I i) < i_ncols I.
Proof.
rewrite /wf /wf_reads => /andP[/andP[/andP[_ /(all_nthP dflt_read) h] _] _] i hi.
by have /andP[/andP[_ ->] _] := h _ hi.
Qed.

Lemma wf_sorted I : wf I -> sorted_reads I.
Proof. by rewrite /wf /wf_reads => /andP[/andP[/andP[-> _] _] _]. Qed.

Lemma dp_cost_optimal_gen I :
  sorted_reads I -> (forall i, i < nreads I -> r_last (rd I i) < i_ncols I) -> no_conflict I ->
  dp_cost I = Cost (opt_spec I).
Proof.
move=> Hs Hl hnc.
case: (posnP (i_ncols I)) => [h0|hpos].
  rewrite /dp_cost /opt_spec /cost_of h0 /=; congr Cost.
  rewrite (@ominl_const0 _ (bvs (nreads I))) //.
  have: nseq (nreads I) false \in bvs (nreads I) by rewrite mem_bvs size_nseq.
  by case: (bvs _).
rewrite dp_cost_total // dp_total_spec -take_cols.
case: (St_shape Hs (leqnn (i_ncols I))) => -> _; rewrite seen_last //.
by congr Cost; apply: total_expand.
Qed.

Theorem dp_cost_optimal I : wf I -> no_conflict I -> dp_cost I = Cost (opt_spec I).
Proof. by move=> hwf; apply: dp_cost_optimal_gen; [exact: wf_sorted | exact: wf_last]. Qed.

(* ------------------------------------------------------------------ alleles_non_tie_forced *)
Lemma ole_anti x y : ole x y -> ole y x -> x = y.
Proof. by case: x y => [a|] [b|] //= h1 h2; congr Some; apply/eqP; rewrite eqn_leq h1 h2. Qed.

Lemma ominl_min_attained (A : eqType) (cost : A -> nat) (s : seq A) a :
  a \in s -> (forall b, b \in s -> cost a <= cost b) ->
  ominl [seq Some (cost b) | b <- s] = Some (cost a).
Proof.
move=> ha hmin; apply: ole_anti.
  by apply: ole_ominl_mem; apply/mapP; exists a.
by apply: ominl_glb => y /mapP[b hb ->] /=; apply: hmin.
Qed.

Lemma last_best_rcons acs ac :
  last_best (rcons acs ac) =
  if ole (Some ac.2) (last_best acs).1 then (Some ac.2, ac.1) else last_best acs.
Proof. by rewrite /last_best -cats1 foldl_cat. Qed.

Lemma last_best_spec acs :
  match last_best acs with
  | (None, _) => acs = [::]
  | (Some m, a) => (a, m) \in acs /\ forall ac, ac \in acs -> m <= ac.2
  end.
Proof.
elim/last_ind: acs => [|acs [a c] IH] //; rewrite last_best_rcons /=.
case: (last_best acs) IH => [[m|] a'] /= IH.
  case: (leqP c m) => hcm.
    split; first by rewrite mem_rcons inE eqxx.
    move=> ac; rewrite mem_rcons inE => /orP[/eqP->//|/(proj2 IH) h].
    exact: leq_trans hcm h.
  case: IH => h1 h2; split; first by rewrite mem_rcons inE h1 orbT.
  move=> ac; rewrite mem_rcons inE => /orP[/eqP->/=|/h2 //].
  exact: ltnW.
split; first by rewrite mem_rcons inE eqxx.
by move=> ac; rewrite IH mem_rcons inE orbF => /eqP->.
Qed.

Section Alleles.
Variable I : inst.

Lemma acode_forced q b : acode q b != 3 -> (q != 0) /\ acode q b = nat_of_bool b.
Proof. by rewrite /acode; case: (q == 0) => //; case: b. Qed.

Theorem alleles_non_tie_forced c x t v i (h : bool) a :
  get_alleles I c x t = Some v -> i < i_nind I ->
  (if h then (nth (0, 0, 0) v i).1.2 else (nth (0, 0, 0) v i).1.1) != 3 ->
  a \in optimal_assignments I c x t ->
  (if h then (nth (0, 0, 0) v i).1.2 else (nth (0, 0, 0) v i).1.1) =
  nat_of_bool (allele_of (h2p_map I t) a i h).
Proof.
rewrite /get_alleles /get_alleles_cc /optimal_assignments.
set k := mk_cc I c t; set acs := assignment_costs k _ x; set hp := k.1.
have hhp : hp = h2p_map I t by [].
case hlb: (last_best acs) (last_best_spec acs) => [[m|] astar] //= [hstar hmin] [<-] hi.
rewrite (nth_map 0) ?size_iota // nth_iota // add0n => hcode /mapP[[a' ca]].
rewrite mem_filter /= => /andP[/eqP hopt hin] ->.
have hm : ominl [seq Some ac.2 | ac <- acs] = Some m.
  exact: (@ominl_min_attained _ (fun ac => ac.2) acs (astar, m) hstar hmin).
move: hopt; rewrite hm => -[hca]; rewrite -hhp.
have hbest ac : ac \in acs -> ac.2 = m ->
    best_for hp acs i h (allele_of hp ac.1 i h) = Some m.
  move=> hac hc; rewrite /best_for -hc.
  apply: (@ominl_min_attained _ (fun ac => ac.2) [seq ac0 <- acs | allele_of hp ac0.1 i h == allele_of hp ac.1 i h] ac).
    by rewrite mem_filter eqxx.
  by move=> b; rewrite mem_filter hc => /andP[_ /hmin].
have h1 := hbest _ hstar (erefl _); have h2 := hbest _ hin hca; rewrite /= in h1 h2.
have hq : quality (best_for hp acs i h false) (best_for hp acs i h true) != 0 ->
          allele_of hp astar i h = allele_of hp a' i h.
  move: h1 h2; case: (allele_of hp astar i h); case: (allele_of hp a' i h) => // -> -> /=;
  by rewrite subnn.
by case: h hcode hq {hbest h1 h2} => /= /acode_forced[hq0 ->] /(_ hq0) ->.
Qed.
End Alleles.

(* ------------------------------------------------------------------ the shared-precomputation evaluator *)
Lemma opt_fastE I : opt_fast I = opt_spec I.
Proof.
rewrite /opt_fast /opt_spec /cost_of; congr ominl; apply: eq_map => beta /=; congr ominl.
apply/eq_in_map => tau; rewrite mem_tuples => /andP[/eqP hsz /all_nthP hall].
congr oaddl; apply/eq_in_map => c; rewrite mem_iota add0n /= => hc.
have htc : nth 0 tau c < nT I by apply: hall; rewrite hsz.
rewrite -!map_comp /term.
rewrite (nth_map 0) ?size_iota // nth_iota // add0n /=.
rewrite (nth_map 0) ?size_iota // nth_iota // add0n /= -map_comp.
rewrite (nth_map 0) ?size_iota // nth_iota // add0n /=.
Qed.

(* ------------------------------------------------------------------ readable characterisations *)
Section Readable.
Variable I : inst.

(* local_cost is the minimum, over the allele assignments admitted by the genotypes, of
   genotype cost + weight of the entries that disagree with the allele of their partition *)
Lemma local_cost_lower c x t a g :
  (a, g) \in allowed I c t ->
  ole (local_cost I c x t) (Some (g + flip_cost (h2p_map I t) (colents I c) x a)).
Proof.
move=> h; rewrite /local_cost /lcost /assignment_costs -map_comp.
by apply: ole_ominl_mem; apply/mapP; exists (a, g).
Qed.

Lemma local_cost_attained c x t v :
  local_cost I c x t = Some v ->
  exists a g, (a, g) \in allowed I c t /\ v = g + flip_cost (h2p_map I t) (colents I c) x a.
Proof.
rewrite /local_cost /lcost /assignment_costs -map_comp => h.
case: (ominl_mem [seq (Some \o (fun ac => ac.2) \o (fun ag => (ag.1, ag.2 + flip_cost (mk_cc I c t).1 (colents I c) x ag.1))) a | a <- (mk_cc I c t).2]).
  by rewrite h.
by rewrite h => /mapP[[a g] hin /= [->]]; exists a, g.
Qed.

Lemma allowedP c t a g :
  (a, g) \in allowed I c t <->
  a \in assignments I /\ geno_cost I (h2p_map I t) (nth [::] (i_geno I) c) a = Some g.
Proof.
rewrite /allowed /mk_cc /= mem_pmap; split.
  case/mapP => a' ha'; case e: (geno_cost _ _ _ a') => [g'|] //= [-> ->].
  by split.
by case=> ha hg; apply/mapP; exists a => //; rewrite hg.
Qed.

(* without a Mendelian conflict some solution has finite cost *)
Lemma oaddl_some (s : seq (option nat)) : all isSome s -> isSome (oaddl s).
Proof. by elim: s => [|[a|] s IH] //= /IH; case: (oaddl s). Qed.

Lemma opt_finite : no_conflict I -> exists v, opt_spec I = Some v.
Proof.
move=> hnc.
pose tau := [seq find (fun t => allowed I c t != [::]) (ts I) | c <- iota 0 (i_ncols I)].
pose beta := nseq (nreads I) false.
have htau c : c < i_ncols I -> nth 0 tau c < nT I /\ allowed I c (nth 0 tau c) != [::].
  move=> hc; rewrite (nth_map 0) ?size_iota // nth_iota // add0n.
  move/allP: hnc => /(_ c); rewrite mem_iota add0n => /(_ hc) hh.
  have := hh; rewrite has_find size_iota => hf; split=> //.
  by have := nth_find 0 hh; rewrite nth_iota // add0n.
have hfin : isSome (cost_of I beta tau).
  rewrite /cost_of; apply: oaddl_some; rewrite all_map; apply/allP => c.
  rewrite mem_iota add0n /= => hc; rewrite /term.
  by case: (htau _ hc) => _ /(local_cost_some (restrict (active I c) beta)); case: (local_cost _ _ _ _).
have := @witness_cost I beta tau.
rewrite size_nseq size_map size_iota => /(_ erefl erefl).
have -> : all (fun t => t < nT I) tau.
  by apply/(all_nthP 0) => c; rewrite size_map size_iota => /htau[].
move/(_ isT); case: (cost_of _ _ _) hfin => // v _; case: (opt_spec I) => // w _.
by exists w.
Qed.
End Readable.

(* an optimal witness exists (the brute-force minimum is attained) *)
Lemma opt_attained I v : opt_spec I = Some v ->
  exists beta tau, [/\ size beta = nreads I, size tau = i_ncols I, all (fun t => t < nT I) tau
                     & cost_of I beta tau = Some v].
Proof.
rewrite /opt_spec => h.
case: (ominl_mem [seq ominl [seq cost_of I beta tau | tau <- tuples (nT I) (i_ncols I)] | beta <- bvs (nreads I)]).
  by rewrite h.
rewrite h => /mapP[beta]; rewrite mem_bvs => /eqP hb hv.
case: (ominl_mem [seq cost_of I beta tau | tau <- tuples (nT I) (i_ncols I)]); first by rewrite -hv.
rewrite -hv => /mapP[tau]; rewrite mem_tuples => /andP[/eqP ht ha] hc.
by exists beta, tau; split.
Qed.
