(* C12 — one chromosome: what get_detailed_stats reports in terms of the block dictionary, the
   counting identities (for every rule set), no crash. *)
From Coq Require Import ZArith List Bool Arith Lia Sorted Permutation.
From WH.Model Require Import Stats.
From WH.Proofs Require Import StatsSort StatsPieces StatsCounts.
Import ListNotations.
Open Scope Z_scope.

(* ---------------------------------------------------------------------------------------------- *)
(* small list facts                                                                                *)
Lemma filter_map_comm : forall (A B : Type) (f : A -> B) (p : B -> bool) l,
  filter p (map f l) = map f (filter (fun x => p (f x)) l).
Proof.
  induction l as [|x l IH]; cbn [map filter]. reflexivity.
  destruct (p (f x)); cbn [map]; rewrite IH; reflexivity.
Qed.
Lemma Permutation_filter : forall (A : Type) (f : A -> bool) l l', Permutation l l' -> Permutation (filter f l) (filter f l').
Proof.
  intros A f l l' H. induction H; cbn [filter].
  - constructor.
  - destruct (f x). constructor; assumption. assumption.
  - destruct (f x), (f y); try apply perm_swap; try apply Permutation_refl.
  - eapply perm_trans; eassumption.
Qed.
Lemma filter_ext_in' : forall (A : Type) (f g : A -> bool) l, (forall x, In x l -> f x = g x) -> filter f l = filter g l.
Proof.
  induction l as [|x l IH]; intros H; cbn [filter]. reflexivity.
  rewrite (H x (or_introl eq_refl)), IH. reflexivity. intros y Hy. apply H. right; exact Hy.
Qed.
Lemma filter_all : forall (A : Type) (f : A -> bool) l, (forall x, In x l -> f x = true) -> filter f l = l.
Proof.
  induction l as [|x l IH]; intros H; cbn [filter]. reflexivity.
  rewrite (H x (or_introl eq_refl)), IH. reflexivity. intros y Hy. apply H. right; exact Hy.
Qed.
Lemma zsum_nonneg_mem : forall l x, (forall y, In y l -> 0 <= y) -> In x l -> x <= zsum l.
Proof.
  induction l as [|a l IH]; intros x Hnn Hin. destruct Hin. unfold zsum in *. cbn [fold_right].
  assert (0 <= fold_right Z.add 0 l).
  { clear - Hnn. induction l as [|b l IH]; cbn [fold_right]. lia.
    assert (0 <= b) by (apply Hnn; right; left; reflexivity).
    assert (0 <= fold_right Z.add 0 l). { apply IH. intros y [<-|Hy]. apply Hnn; left; reflexivity. apply Hnn; right; right; exact Hy. }
    lia. }
  destruct Hin as [<-|Hin]. lia.
  assert (0 <= a) by (apply Hnn; left; reflexivity).
  specialize (IH x (fun y Hy => Hnn y (or_intror Hy)) Hin). lia.
Qed.

(* ---------------------------------------------------------------------------------------------- *)
(* get_detailed_stats as a total function                                                          *)
Definition bigb (b : pblock) : bool := Nat.ltb 1 (pb_len b).
Definition zlen (b : pblock) : Z := Z.of_nat (pb_len b).
Definition st_sizes (st : pstats) : list Z := map zlen (filter bigb (ps_blocks st)).
Definition st_lens (st : pstats) : list Z :=
  map (fun cp => pb_span (snd cp)) (filter (fun cp => Nat.ltb 1 (pb_len (snd cp))) (ps_split st)).
Definition st_singles (st : pstats) : Z :=
  Z.of_nat (length (filter (fun b => Nat.eqb (pb_len b) 1) (ps_blocks st))).
Definition st_phsnv (st : pstats) : Z := zsum (map pb_count_snvs (filter bigb (ps_blocks st))).
Definition rowfun (chrlen : Z -> option Z) (st : pstats) : dstats :=
  match st_sizes st with
  | [] => mkD (ps_variants st) 0 (ps_unphased st) (st_singles st) 0 0 0 0 0 0 0 (ps_het st) (ps_hetsnv st) 0 None
  | _ :: _ =>
      mkD (ps_variants st) (zsum (st_sizes st)) (ps_unphased st) (st_singles st) (Z.of_nat (length (st_sizes st)))
          (zmin_list 0 (st_sizes st)) (zmax_list 0 (st_sizes st)) (zsum (st_sizes st))
          (zmin_list 0 (st_lens st)) (zmax_list 0 (st_lens st)) (zsum (st_lens st))
          (ps_het st) (ps_hetsnv st) (st_phsnv st) (compute_ng50 chrlen (ps_split st))
  end.

Lemma detailed_rowfun : forall chrlen st, (st_sizes st = [] \/ st_lens st <> []) ->
  get_detailed_stats chrlen st = Some (rowfun chrlen st).
Proof.
  intros chrlen st H. unfold get_detailed_stats, rowfun. fold bigb. fold (st_sizes st).
  change (map (fun b => Z.of_nat (pb_len b)) (filter bigb (ps_blocks st))) with (st_sizes st).
  fold (st_lens st). fold (st_singles st). fold (st_phsnv st).
  destruct (sort_asc (st_sizes st)) as [|a0 r0] eqn:Es.
  - apply (proj1 (sort_asc_nil_iff _)) in Es. rewrite Es. reflexivity.
  - assert (Hne : st_sizes st <> []).
    { intro E. apply (proj2 (sort_asc_nil_iff _)) in E. congruence. }
    destruct H as [H|H]; [contradiction|].
    destruct (sort_asc (st_lens st)) as [|a1 r1] eqn:El.
    { apply (proj1 (sort_asc_nil_iff _)) in El. contradiction. }
    rewrite <- Es, <- El.
    rewrite !zsum_sort_asc, sort_asc_length, !hd_sort_asc, !last_sort_asc.
    destruct (st_sizes st) eqn:E'. contradiction. reflexivity.
Qed.

(* ---------------------------------------------------------------------------------------------- *)
(* sums over a key list                                                                            *)
Definition ksum (f : key -> nat) (ks : list key) : nat := fold_right (fun k n => (f k + n)%nat) O ks.

Lemma ksum_ext : forall f g ks, (forall k, In k ks -> f k = g k) -> ksum f ks = ksum g ks.
Proof.
  induction ks as [|k ks IH]; intros H; cbn [ksum fold_right]. reflexivity.
  unfold ksum in IH. rewrite IH, (H k). reflexivity. left; reflexivity. intros k' Hk'. apply H. right; exact Hk'.
Qed.
Lemma ksum_add : forall f g ks, ksum (fun k => (f k + g k)%nat) ks = (ksum f ks + ksum g ks)%nat.
Proof. induction ks as [|k ks IH]; cbn [ksum fold_right]. reflexivity. unfold ksum in IH. rewrite IH. lia. Qed.
Lemma ksum_single : forall (Q : key -> bool) k0 ks, NoDup ks -> In k0 ks ->
  ksum (fun k => if Q k && key_eqb k0 k then 1%nat else O) ks = if Q k0 then 1%nat else O.
Proof.
  intros Q k0 ks Hn. induction Hn as [|k ks Hnin Hn IH]; intros Hin. destruct Hin.
  cbn [ksum fold_right]. fold (ksum (fun k => if Q k && key_eqb k0 k then 1%nat else O) ks).
  destruct Hin as [->|Hin].
  - rewrite key_eqb_refl, andb_true_r.
    rewrite (ksum_ext _ (fun _ => O)). 2:{ intros k Hk. assert (key_eqb k0 k = false). { apply key_eqb_neq. intro; subst; contradiction. } rewrite H, andb_false_r. reflexivity. }
    assert (ksum (fun _ => O) ks = O) by (clear; induction ks; cbn; auto). rewrite H. lia.
  - assert (key_eqb k0 k = false). { apply key_eqb_neq. intro; subst; contradiction. }
    rewrite H, andb_false_r, IH. reflexivity. exact Hin.
Qed.

Lemma sel_cons : forall k e l, sel k (e :: l) = (if key_eqb (fst e) k then [snd e] else []) ++ sel k l.
Proof. intros k e l. unfold sel. cbn [filter]. destruct (key_eqb (fst e) k); reflexivity. Qed.

(* counting the entries whose key satisfies Q, key by key *)
Lemma partition_count : forall (Q : key -> bool) ks l, NoDup ks -> (forall e, In e l -> In (fst e) ks) ->
  length (filter (fun e => Q (fst e)) l) = ksum (fun k => if Q k then length (sel k l) else O) ks.
Proof.
  intros Q ks l Hn. induction l as [|e l IH]; intros Hin.
  - cbn [filter length]. clear. induction ks as [|k ks IH]; cbn [ksum fold_right]. reflexivity.
    unfold ksum in IH. rewrite <- IH. unfold sel. cbn. destruct (Q k); reflexivity.
  - cbn [filter]. specialize (IH (fun e' He' => Hin e' (or_intror He'))).
    rewrite (ksum_ext _ (fun k => ((if Q k && key_eqb (fst e) k then 1 else 0) + (if Q k then length (sel k l) else 0))%nat)).
    2:{ intros k _. rewrite sel_cons. destruct (Q k); cbn [andb]. 2: reflexivity.
        destruct (key_eqb (fst e) k); cbn [app length]; lia. }
    rewrite ksum_add, <- IH, ksum_single. 2: exact Hn. 2: apply Hin; left; reflexivity.
    destruct (Q (fst e)); cbn [length]; lia.
Qed.

(* ---------------------------------------------------------------------------------------------- *)
(* facts about the built dictionary                                                                *)
Lemma dict_build_inv : forall l2 l1 d, dinv d l1 -> dinv (dict_build l2 d) (l1 ++ l2).
Proof.
  induction l2 as [|[k v] l2 IH]; intros l1 d H; unfold dict_build in *; cbn [fold_left fst snd].
  - rewrite app_nil_r. exact H.
  - replace (l1 ++ (k, v) :: l2) with ((l1 ++ [(k, v)]) ++ l2) by (rewrite <- app_assoc; reflexivity).
    apply IH. apply dinv_step. exact H.
Qed.
Lemma dict_build_dinv : forall l, dinv (dict_build l []) l.
Proof.
  intros l. apply (dict_build_inv l [] []). constructor. constructor. intros k. reflexivity.
Qed.

Section Dict.
  Variable d : list (key * pblock).
  Variable l : list (key * var).
  Hypothesis Hd : dinv d l.

  Lemma dict_entry : forall k b, In (k, b) d -> sel k l <> [] /\ b = pb_of_vars (sel k l).
  Proof.
    intros k b Hin. pose proof (dget_In d k b (dinv_nodup d l Hd) Hin) as E.
    rewrite (dinv_get d l Hd) in E. destruct (sel k l) eqn:Es. discriminate.
    injection E as <-. split. discriminate. reflexivity.
  Qed.
  Lemma dict_keys : forall k, In k (map fst d) <-> sel k l <> [].
  Proof.
    intros k. pose proof (dget_None_keys d k) as H. rewrite (dinv_get d l Hd) in H.
    destruct (sel k l) eqn:Es.
    - split. intro Hin. exfalso. apply (proj1 H eq_refl). exact Hin. intro Hc. contradiction.
    - split. intros _. discriminate. intros _.
      destruct (existsb (key_eqb k) (map fst d)) eqn:Ex.
      + apply existsb_key_In. exact Ex.
      + assert (Hni : ~ In k (map fst d)).
        { intro Hc. apply existsb_key_In in Hc. congruence. }
        apply H in Hni. discriminate.
  Qed.
  Lemma dict_covers : forall e, In e l -> In (fst e) (map fst d).
  Proof.
    intros e He. apply dict_keys. unfold sel. intro E.
    assert (In (snd e) (map snd (filter (fun e0 => key_eqb (fst e0) (fst e)) l))).
    { apply in_map. apply filter_In. split. exact He. apply key_eqb_refl. }
    rewrite E in H. destruct H.
  Qed.
  Lemma dict_len : forall k b, In (k, b) d -> pb_len b = length (sel k l).
  Proof. intros k b Hin. destruct (dict_entry k b Hin) as [_ ->]. apply pb_of_vars_len. Qed.
  Lemma dict_wf : Forall pb_wf (map snd d).
  Proof.
    rewrite Forall_forall. intros b Hb. apply in_map_iff in Hb. destruct Hb as ([k b'] & E & Hin). cbn [snd] in E. subst b'.
    destruct (dict_entry k b Hin) as [Hne ->]. apply pb_of_vars_wf. exact Hne.
  Qed.
  Lemma dict_len_pos : forall k b, In (k, b) d -> (1 <= pb_len b)%nat.
  Proof.
    intros k b Hin. rewrite (dict_len k b Hin). destruct (dict_entry k b Hin) as [Hne _].
    destruct (sel k l). contradiction. cbn [length]. lia.
  Qed.

  (* sums over the dictionary as sums over its keys *)
  Lemma dict_sum : forall (P : nat -> bool) d', incl d' d ->
    fold_right (fun kb n => ((if P (pb_len (snd kb)) then pb_len (snd kb) else O) + n)%nat) O d' =
    ksum (fun k => if P (length (sel k l)) then length (sel k l) else O) (map fst d').
  Proof.
    intros P d'. induction d' as [|[k b] d' IH]; intros Hinc; cbn [fold_right map fst ksum snd]. reflexivity.
    fold (ksum (fun k => if P (length (sel k l)) then length (sel k l) else O) (map fst d')).
    rewrite IH. 2:{ intros x Hx. apply Hinc. right; exact Hx. }
    rewrite (dict_len k b). reflexivity. apply Hinc. left; reflexivity.
  Qed.
End Dict.

(* ---------------------------------------------------------------------------------------------- *)
(* all entries = unphased complement                                                               *)
Lemma hrows_split : forall R rows,
  Z.of_nat (length (hrows R rows)) = count (phase_none R) (hrows R rows) + Z.of_nat (length (entries R rows)).
Proof.
  intros R rows. unfold entries. induction (hrows R rows) as [|row hs IH]. reflexivity.
  rewrite count_cons. cbn [flat_map length]. rewrite app_length. unfold phase_none at 1, entry_of at 1.
  destruct (eff_phase R row); cbn [length]; lia.
Qed.

(* ---------------------------------------------------------------------------------------------- *)
(* fields of rowfun                                                                                *)
Lemma rowfun_fields : forall chrlen st,
  let r := rowfun chrlen st in
  d_variants r = ps_variants st /\ d_phased r = zsum (st_sizes st) /\ d_unphased r = ps_unphased st /\
  d_singletons r = st_singles st /\ d_blocks r = Z.of_nat (length (st_sizes st)) /\
  d_vsum r = zsum (st_sizes st) /\ d_het r = ps_het st /\ d_hetsnv r = ps_hetsnv st /\
  d_vmin r = zmin_list 0 (st_sizes st) /\ d_vmax r = zmax_list 0 (st_sizes st).
Proof.
  intros chrlen st. unfold rowfun. destruct (st_sizes st) eqn:E; cbn; repeat split; reflexivity.
Qed.

(* ---------------------------------------------------------------------------------------------- *)
(* sizes and singletons of the dictionary, entry by entry                                          *)
Lemma sizes_fold : forall d : list (key * pblock),
  zsum (map zlen (filter bigb (map snd d))) =
  Z.of_nat (fold_right (fun kb n => ((if Nat.ltb 1 (pb_len (snd kb)) then pb_len (snd kb) else O) + n)%nat) O d).
Proof.
  induction d as [|[k b] d IH]; cbn [map snd filter fold_right]. reflexivity.
  unfold bigb at 1. destruct (Nat.ltb 1 (pb_len b)); cbn [map]; unfold zsum in *; cbn [fold_right]; rewrite IH; unfold zlen; lia.
Qed.
Lemma singles_fold : forall d : list (key * pblock),
  Z.of_nat (length (filter (fun b => Nat.eqb (pb_len b) 1) (map snd d))) =
  Z.of_nat (fold_right (fun kb n => ((if Nat.eqb (pb_len (snd kb)) 1 then pb_len (snd kb) else O) + n)%nat) O d).
Proof.
  induction d as [|[k b] d IH]; cbn [map snd filter fold_right]. reflexivity.
  destruct (Nat.eqb (pb_len b) 1) eqn:E; cbn [length].
  - apply Nat.eqb_eq in E. rewrite E. lia.
  - lia.
Qed.

Section DictCounts.
  Variable d : list (key * pblock).
  Variable l : list (key * var).
  Hypothesis Hd : dinv d l.
  Let cnt (k : key) : nat := length (sel k l).

  Lemma dict_phased_entries :
    zsum (map zlen (filter bigb (map snd d))) = Z.of_nat (length (filter (fun e => Nat.ltb 1 (cnt (fst e))) l)).
  Proof.
    rewrite sizes_fold. f_equal.
    rewrite (dict_sum d l Hd (Nat.ltb 1) d (incl_refl d)).
    rewrite (partition_count (fun k => Nat.ltb 1 (cnt k)) (map fst d) l (dinv_nodup d l Hd) (dict_covers d l Hd)).
    reflexivity.
  Qed.
  Lemma dict_singles_entries :
    Z.of_nat (length (filter (fun b => Nat.eqb (pb_len b) 1) (map snd d))) =
    Z.of_nat (length (filter (fun e => Nat.eqb (cnt (fst e)) 1) l)).
  Proof.
    rewrite singles_fold. f_equal.
    rewrite (dict_sum d l Hd (fun n => Nat.eqb n 1) d (incl_refl d)).
    rewrite (partition_count (fun k => Nat.eqb (cnt k) 1) (map fst d) l (dinv_nodup d l Hd) (dict_covers d l Hd)).
    reflexivity.
  Qed.
  Lemma entry_cnt_pos : forall e, In e l -> (1 <= cnt (fst e))%nat.
  Proof.
    intros e He. unfold cnt, sel.
    assert (In (snd e) (map snd (filter (fun e0 => key_eqb (fst e0) (fst e)) l))).
    { apply in_map. apply filter_In. split. exact He. apply key_eqb_refl. }
    destruct (map snd (filter (fun e0 => key_eqb (fst e0) (fst e)) l)). destruct H. cbn [length]. lia.
  Qed.
  Lemma entries_split :
    (length (filter (fun e => Nat.ltb 1 (cnt (fst e))) l) + length (filter (fun e => Nat.eqb (cnt (fst e)) 1) l) = length l)%nat.
  Proof.
    assert (H : forall l', incl l' l ->
      (length (filter (fun e => Nat.ltb 1 (cnt (fst e))) l') + length (filter (fun e => Nat.eqb (cnt (fst e)) 1) l') = length l')%nat).
    { induction l' as [|e l' IH]; intros Hinc. reflexivity. cbn [filter length].
      pose proof (entry_cnt_pos e (Hinc e (or_introl eq_refl))) as Hp.
      specialize (IH (fun x Hx => Hinc x (or_intror Hx))).
      destruct (Nat.ltb 1 (cnt (fst e))) eqn:E1; destruct (Nat.eqb (cnt (fst e)) 1) eqn:E2; cbn [length].
      - apply Nat.ltb_lt in E1. apply Nat.eqb_eq in E2. lia.
      - lia.
      - lia.
      - apply Nat.ltb_ge in E1. apply Nat.eqb_neq in E2. lia. }
    apply H. apply incl_refl.
  Qed.
End DictCounts.

(* ---------------------------------------------------------------------------------------------- *)
(* one chromosome                                                                                  *)
Definition chrom_stats (R : rules) (cid : Z) (rows : list trow) (pieces : list pblock) : pstats :=
  mkPS (map snd (dict_build (entries R rows) [])) (map (fun p => (cid, p)) pieces)
       (count (phase_none R) (hrows R rows)) (Z.of_nat (length rows)) (Z.of_nat (length (hrows R rows)))
       (count t_snv (hrows R rows)).

Lemma lens_of_pieces : forall cid pieces, Forall (fun p => (2 <= pb_len p)%nat) pieces ->
  map (fun cp : Z * pblock => pb_span (snd cp)) (filter (fun cp => Nat.ltb 1 (pb_len (snd cp))) (map (fun p => (cid, p)) pieces))
  = map pb_span pieces.
Proof.
  intros cid pieces H. induction H as [|p ps Hp Hall IH]; cbn [map filter snd]. reflexivity.
  assert (E : Nat.ltb 1 (pb_len p) = true) by (apply Nat.ltb_lt; lia). rewrite E. cbn [map snd]. rewrite IH. reflexivity.
Qed.

Lemma chrom_identity : forall R chrlen cid rows pieces,
  print_ok (rowfun chrlen (chrom_stats R cid rows pieces)) = true.
Proof.
  intros R chrlen cid rows pieces. unfold print_ok.
  destruct (rowfun_fields chrlen (chrom_stats R cid rows pieces)) as (_ & E2 & E3 & E4 & _ & _ & E7 & _).
  rewrite E2, E3, E4, E7. apply Z.eqb_eq.
  unfold st_sizes, st_singles, chrom_stats. cbn [ps_blocks ps_unphased ps_het].
  pose proof (dict_build_dinv (entries R rows)) as Hd.
  rewrite (dict_phased_entries _ _ Hd), (dict_singles_entries _ _ Hd), hrows_split.
  pose proof (entries_split (entries R rows)) as Hsp. cbv beta in Hsp. lia.
Qed.

Theorem process_rows_spec : forall R chrlen cid rows,
  mixed_keys (dict_build (entries R rows) []) = false ->
  exists pieces,
    get_nonoverlapping_blocks (map snd (dict_build (entries R rows) [])) = NOk pieces /\
    Forall (fun p => pb_wf p /\ (2 <= pb_len p)%nat /\
                     exists b, In b (map snd (dict_build (entries R rows) [])) /\ subseq (pb_vars p) (pb_vars b)) pieces /\
    ForallOrdPairs (fun p q => pb_rm p <= pb_lm q) pieces /\
    (forall lo hi, (forall b, In b (map snd (dict_build (entries R rows) [])) -> (2 <= pb_len b)%nat -> lo <= pb_lm b /\ pb_rm b <= hi) ->
                   pieces <> [] -> zsum (map pb_span pieces) <= hi - lo) /\
    (st_sizes (chrom_stats R cid rows pieces) = [] <-> pieces = []) /\
    st_lens (chrom_stats R cid rows pieces) = map pb_span pieces /\
    process_rows R chrlen cid rows =
      Some (mkCR (chrom_stats R cid rows pieces) (rowfun chrlen (chrom_stats R cid rows pieces))
                 (map bl_line (sort_keys (dict_build (entries R rows) []))) (gtf_finish (get_phase_blocks R rows))).
Proof.
  intros R chrlen cid rows Hmix.
  set (d := dict_build (entries R rows) []) in *.
  pose proof (dict_build_dinv (entries R rows)) as Hd. fold d in Hd.
  destruct (nonoverlapping_blocks_spec (map snd d) (dict_wf d _ Hd)) as (pieces & Eno & Hgood & Hchain & Hne & Hsum).
  exists pieces. split. exact Eno. split. exact Hgood. split. exact Hchain. split. exact Hsum.
  assert (Hlen2 : Forall (fun p => (2 <= pb_len p)%nat) pieces).
  { rewrite Forall_forall in Hgood |- *. intros p Hp. apply Hgood. exact Hp. }
  assert (Hlens : st_lens (chrom_stats R cid rows pieces) = map pb_span pieces).
  { unfold st_lens, chrom_stats. cbn [ps_split]. apply lens_of_pieces. exact Hlen2. }
  assert (Hsz : st_sizes (chrom_stats R cid rows pieces) = [] <-> pieces = []).
  { unfold st_sizes, chrom_stats. cbn [ps_blocks]. fold d. split.
    - intros E. destruct pieces as [|p ps]. reflexivity. exfalso.
      rewrite Forall_forall in Hgood. destruct (Hgood p (or_introl eq_refl)) as (_ & Hl & b & Hb & Hsub).
      assert (In b (filter bigb (map snd d))).
      { apply filter_In. split. exact Hb. unfold bigb. apply Nat.ltb_lt.
        pose proof (subseq_length _ _ _ Hsub). unfold pb_len in *. lia. }
      apply (in_map zlen) in H. rewrite E in H. destruct H.
    - intros ->. destruct (filter bigb (map snd d)) as [|b bs] eqn:E. reflexivity. exfalso.
      assert (Hb : In b (filter bigb (map snd d))) by (rewrite E; left; reflexivity).
      apply filter_In in Hb. destruct Hb as [Hb Hbig]. unfold bigb in Hbig. apply Nat.ltb_lt in Hbig.
      apply Hne. exists b. split. exact Hb. lia. reflexivity. }
  split. exact Hsz. split. exact Hlens.
  unfold process_rows.
  destruct (gpb_fold R rows g_init) as (E1 & E2 & E3 & E4 & E5). cbn zeta in E1, E2, E3, E4, E5.
  cbn [g_init g_variants g_het g_hetsnv g_unph g_blocks] in E1, E2, E3, E4, E5.
  unfold get_phase_blocks at 1 2 3 4 5 6. rewrite E1, E2, E3, E4, E5. fold d.
  unfold write_to_block_list. rewrite Hmix.
  unfold ps_add_blocks. cbn [ps_blocks ps_split ps_unphased ps_variants ps_het ps_hetsnv app]. rewrite Eno.
  rewrite !Z.add_0_l.
  change (mkPS (map snd d) (map (fun p => (cid, p)) pieces) (count (phase_none R) (hrows R rows))
               (Z.of_nat (length rows)) (Z.of_nat (length (hrows R rows))) (count t_snv (hrows R rows)))
    with (chrom_stats R cid rows pieces).
  rewrite detailed_rowfun.
  - rewrite chrom_identity. reflexivity.
  - destruct pieces as [|p ps]. left. apply Hsz. reflexivity. right. rewrite Hlens. discriminate.
Qed.

(* ---------------------------------------------------------------------------------------------- *)
(* the identities of the property on a reported row and its block-list lines (every rule set)      *)
Lemma ltb_of_nat : forall n, (1 <? Z.of_nat n) = Nat.ltb 1 n.
Proof. intros n. destruct (Nat.ltb 1 n) eqn:E. apply Nat.ltb_lt in E. apply Z.ltb_lt. lia. apply Nat.ltb_ge in E. apply Z.ltb_ge. lia. Qed.
Lemma eqb_of_nat : forall n, (Z.of_nat n =? 1) = Nat.eqb n 1.
Proof. intros n. destruct (Nat.eqb n 1) eqn:E. apply Nat.eqb_eq in E. apply Z.eqb_eq. lia. apply Nat.eqb_neq in E. apply Z.eqb_neq. lia. Qed.

Lemma bl_sizes_big : forall X : list (key * pblock),
  map snd (filter (fun l : key * Z * Z * Z => 1 <? snd l) (map bl_line X)) = map zlen (filter bigb (map snd X)).
Proof.
  induction X as [|[k b] X IH]; cbn [map filter snd bl_line]. reflexivity.
  rewrite ltb_of_nat. unfold bigb at 1. destruct (Nat.ltb 1 (pb_len b)); cbn [map snd]; rewrite IH; reflexivity.
Qed.
Lemma bl_count_big : forall X : list (key * pblock),
  length (filter (fun l : key * Z * Z * Z => 1 <? snd l) (map bl_line X)) = length (filter bigb (map snd X)).
Proof.
  intros X. rewrite <- (map_length snd), bl_sizes_big, map_length. reflexivity.
Qed.
Lemma bl_count_one : forall X : list (key * pblock),
  length (filter (fun l : key * Z * Z * Z => snd l =? 1) (map bl_line X)) =
  length (filter (fun b => Nat.eqb (pb_len b) 1) (map snd X)).
Proof.
  induction X as [|[k b] X IH]; cbn [map filter snd bl_line]. reflexivity.
  rewrite eqb_of_nat. destruct (Nat.eqb (pb_len b) 1); cbn [length]; rewrite IH; reflexivity.
Qed.

Lemma perm_sizes : forall X Y : list (key * pblock), Permutation X Y ->
  Permutation (map zlen (filter bigb (map snd X))) (map zlen (filter bigb (map snd Y))).
Proof. intros X Y H. apply Permutation_map, Permutation_filter, Permutation_map. exact H. Qed.

Theorem process_rows_identities : forall R chrlen cid rows cr,
  process_rows R chrlen cid rows = Some cr -> identities_ok (cr_row cr) (cr_blocklist cr) = true.
Proof.
  intros R chrlen cid rows cr H.
  destruct (mixed_keys (dict_build (entries R rows) [])) eqn:Hmix.
  { exfalso. unfold process_rows in H.
    destruct (gpb_fold R rows g_init) as (_ & _ & _ & _ & E5). cbn zeta in E5. cbn [g_init g_blocks] in E5.
    unfold get_phase_blocks in H at 1. rewrite E5 in H. unfold write_to_block_list in H. rewrite Hmix in H. discriminate. }
  destruct (process_rows_spec R chrlen cid rows Hmix) as (pieces & _ & _ & _ & _ & _ & _ & E).
  rewrite E in H. injection H as <-. cbn [cr_row cr_blocklist].
  set (d := dict_build (entries R rows) []).
  set (st := chrom_stats R cid rows pieces).
  pose proof (chrom_identity R chrlen cid rows pieces) as Hid. fold st in Hid. unfold print_ok in Hid.
  destruct (rowfun_fields chrlen st) as (_ & E2 & _ & E4 & E5 & E6 & _).
  assert (Hperm : Permutation (sort_keys d) d) by apply sort_by_perm.
  assert (Hsz : st_sizes st = map zlen (filter bigb (map snd d))) by reflexivity.
  unfold identities_ok. rewrite Hid, E6, E2, E4, E5, Z.eqb_refl. cbn [andb].
  rewrite bl_sizes_big. unfold count. rewrite bl_count_big, bl_count_one.
  rewrite (zsum_perm _ _ (perm_sizes _ _ Hperm)), <- Hsz, Z.eqb_refl. cbn [andb].
  rewrite <- (map_length zlen), (Permutation_length (perm_sizes _ _ Hperm)), <- Hsz, Z.eqb_refl. cbn [andb].
  unfold st_singles, st. unfold chrom_stats. cbn [ps_blocks]. fold d.
  rewrite (Permutation_length (Permutation_filter _ _ _ _ (Permutation_map snd Hperm))). apply Z.eqb_refl.
Qed.
