(* C12 — the whole run (repaired rules): for every file whose chromosomes VcfReader accepts, run_stats
   ends normally and its complete output passes the specification check l1_run that the correspondence
   harness evaluates on the implementation's outputs. *)
From Coq Require Import ZArith List Bool Arith Lia Sorted Permutation.
From WH.Model Require Import Stats.
From WH.Proofs Require Import StatsSort StatsPieces StatsCounts StatsRows StatsSpec StatsAll StatsProofs StatsGtf.
Import ListNotations.
Open Scope Z_scope.

Local Notation RR := repaired_rules.

Lemma process_rows_gtf : forall R chrlen cid rows cr,
  process_rows R chrlen cid rows = Some cr -> cr_gtf cr = gtf_finish (get_phase_blocks R rows).
Proof.
  intros R chrlen cid rows cr H. unfold process_rows in H.
  destruct (write_to_block_list _); [|discriminate].
  destruct (ps_add_blocks _ _ _); [|discriminate].
  destruct (get_detailed_stats _ _); [|discriminate].
  destruct (print_ok _); [|discriminate]. injection H as <-. reflexivity.
Qed.

(* lines_of *)
Lemma lines_of_app : forall (A : Type) c (a b : list (Z * A)), lines_of c (a ++ b) = lines_of c a ++ lines_of c b.
Proof. intros. unfold lines_of. rewrite filter_app, map_app. reflexivity. Qed.
Lemma lines_of_tagged : forall (A : Type) c cid (x : list A),
  lines_of c (map (fun l => (cid, l)) x) = if cid =? c then x else [].
Proof.
  intros A c cid x. unfold lines_of. induction x as [|a x IH]; cbn [map filter fst]. destruct (cid =? c); reflexivity.
  destruct (cid =? c) eqn:E; cbn [map snd]; rewrite IH; reflexivity.
Qed.
Lemma lines_of_none : forall (A : Type) c (l : list (Z * A)), (forall x, In x l -> fst x <> c) -> lines_of c l = [].
Proof.
  intros A c l H. unfold lines_of. induction l as [|a l IH]; cbn [filter map]. reflexivity.
  assert (E : (fst a =? c) = false) by (apply Z.eqb_neq; apply H; left; reflexivity). rewrite E.
  apply IH. intros x Hx. apply H. right; exact Hx.
Qed.

Lemma subset_spec : forall a b, subset a b = true <-> forall c, In c a -> In c b.
Proof.
  intros a b. unfold subset. rewrite forallb_forall. split; intros H c Hc.
  apply zmem_In. apply H; exact Hc. apply zmem_In. apply H; exact Hc.
Qed.

Section Run.
  Variables (o : bool) (header : list (Z * option Z)) (groups : list (Z * list vrec)) (given : list Z).
  Let chrlen := lookup_len header.
  Let gnil := match given with [] => true | _ => false end.
  Hypothesis Hgroups : NoDup (map fst groups).
  Hypothesis Hsorted : forall g, In g groups -> sorted_recs o (snd g).

  Lemma lookup_recs_group : forall g, In g groups -> lookup_recs groups (fst g) = snd g.
  Proof.
    clear Hsorted. induction groups as [|[c l] gs IH]; intros g Hg. destruct Hg.
    cbn [map fst] in Hgroups. inversion Hgroups as [|? ? Hnin Hn]; subst. cbn [lookup_recs].
    destruct Hg as [<-|Hg]. cbn [fst snd]. rewrite Z.eqb_refl. reflexivity.
    destruct (c =? fst g) eqn:E.
    - apply Z.eqb_eq in E. subst c. exfalso. apply Hnin. apply in_map. exact Hg.
    - apply IH. exact Hn. exact Hg.
  Qed.

  Lemma lookup_recs_sorted : forall c, sorted_recs o (lookup_recs groups c).
  Proof.
    intros c. clear Hgroups. induction groups as [|[c' l] gs IH]. unfold sorted_recs. cbn. constructor.
    cbn [lookup_recs]. destruct (c' =? c). apply (Hsorted (c', l)). left; reflexivity.
    apply IH. intros g Hg. apply Hsorted. right; exact Hg.
  Qed.

  Definition row_check (bl : list (Z * (key * Z * Z * Z))) (gtf : list (Z * (Z * Z * Z))) (row : Z * dstats) : bool :=
    let recs := lookup_recs groups (fst row) in
    l1_row o recs (snd row) (lines_of (fst row) bl) &&
    gtf_ok (s_blocklist (spec_of o recs)) None (lines_of (fst row) gtf).

  Lemma chrom_ok : forall cid,
    exists trows cr,
      read_rows o None (lookup_recs groups cid) = Some trows /\
      process_rows RR chrlen cid trows = Some cr /\
      l1_row o (lookup_recs groups cid) (cr_row cr) (cr_blocklist cr) = true /\
      gtf_ok (s_blocklist (spec_of o (lookup_recs groups cid))) None (cr_gtf cr) = true.
  Proof.
    intros cid. pose proof (lookup_recs_sorted cid) as Hs.
    destruct (chrom_spec_repaired o _ chrlen cid Hs) as (cr & E1 & E2 & E3).
    exists (map row_of (counted o (lookup_recs groups cid))), cr. split. exact E1. split. exact E2. split. exact E3.
    rewrite (process_rows_gtf _ _ _ _ _ E2). apply gtf_ok_chrom. exact Hs.
  Qed.

  Record linv (done seen : list Z) (total : pstats) (rows : list (Z * dstats))
         (bl : list (Z * (key * Z * Z * Z))) (gtf : list (Z * (Z * Z * Z))) : Prop := mkLinv {
    li_seen : seen = rev done;
    li_nodup : NoDup (map fst rows);
    li_rows : forall c, In c (map fst rows) <-> (In c done /\ (gnil = true \/ In c given));
    li_order : gnil = true -> map fst rows = done;
    li_check : forall row, In row rows -> row_check bl gtf row = true;
    li_bl : forall l, In l bl -> In (fst l) (map fst rows);
    li_gtf : forall l, In l gtf -> In (fst l) (map fst rows);
    li_total : exists crs,
        Forall (fun cr => exists cid trows, process_rows RR chrlen cid trows = Some cr) crs /\
        map snd rows = map cr_row crs /\ total = fold_left ps_iadd (map cr_stats crs) ps_empty }.

  Lemma finish_ok : forall done seen total rows bl gtf, linv done seen total rows bl gtf ->
    exists out, finish chrlen seen total rows bl gtf = ROk out /\
                o_rows out = rows /\ o_blocklist out = bl /\ o_gtf out = gtf /\ all_row_ok rows (o_all out) = true.
  Proof.
    intros done seen total rows bl gtf H. destruct (li_total _ _ _ _ _ _ H) as (crs & Hcrs & Erows & Etot).
    unfold finish. destruct (Nat.ltb 1 (length (znodup seen))).
    - destruct (all_row_additive RR chrlen crs Hcrs) as (d & E1 & E2 & E3). rewrite <- Etot in E1. rewrite E1, E2.
      eexists. split. reflexivity. cbn [o_rows o_blocklist o_gtf o_all]. repeat split; try reflexivity.
      unfold all_row_ok. rewrite Erows. exact E3.
    - eexists. split. reflexivity. cbn. repeat split; reflexivity.
  Qed.

  Definition post (cs : list Z) (out : output) : Prop :=
    forallb (row_check (o_blocklist out) (o_gtf out)) (o_rows out) = true /\
    all_row_ok (o_rows out) (o_all out) = true /\
    (gnil = true -> map fst (o_rows out) = cs) /\
    (gnil = false -> (forall row, In row (o_rows out) -> In (fst row) given) /\
                     (forall c, In c given -> In c cs -> In c (map fst (o_rows out)))) /\
    (forall l, In l (o_blocklist out) -> In (fst l) (map fst (o_rows out))) /\
    (forall l, In l (o_gtf out) -> In (fst l) (map fst (o_rows out))).

  Lemma linv_step : forall done seen total rows bl gtf cid cr,
    linv done seen total rows bl gtf -> ~ In cid done -> (gnil = true \/ In cid given) ->
    (exists trows, process_rows RR chrlen cid trows = Some cr) ->
    l1_row o (lookup_recs groups cid) (cr_row cr) (cr_blocklist cr) = true ->
    gtf_ok (s_blocklist (spec_of o (lookup_recs groups cid))) None (cr_gtf cr) = true ->
    linv (done ++ [cid]) (cid :: seen) (ps_iadd total (cr_stats cr)) (rows ++ [(cid, cr_row cr)])
         (bl ++ map (fun l => (cid, l)) (cr_blocklist cr)) (gtf ++ map (fun l => (cid, l)) (cr_gtf cr)).
  Proof.
    intros done seen total rows bl gtf cid cr H Hnd Hproc (trows & Eproc) Hl1 Hgtf.
    destruct H as [Hseen Hn Hrows Hord Hchk Hbl Hg (crs & Hcrs & Erows & Etot)].
    assert (Hcid_rows : ~ In cid (map fst rows)).
    { intro Hc. apply Hrows in Hc. destruct Hc as [Hc _]. contradiction. }
    constructor.
    - rewrite Hseen, rev_app_distr. reflexivity.
    - rewrite map_app. cbn [map fst]. apply NoDup_app_single; assumption.
    - intros c. rewrite map_app, in_app_iff, in_app_iff, Hrows. cbn [map fst In]. split.
      + intros [[H1 H2]|[<-|[]]]. split; [left; exact H1|exact H2]. split; [right; left; reflexivity|exact Hproc].
      + intros [[H1|[<-|[]]] H2]. left; split; assumption. right; left; reflexivity.
    - intros Hg'. rewrite map_app, (Hord Hg'). reflexivity.
    - intros row Hrow. apply in_app_or in Hrow. unfold row_check. destruct Hrow as [Hrow|[<-|[]]].
      + assert (Hne : cid <> fst row).
        { intro E. apply Hcid_rows. rewrite E. apply in_map. exact Hrow. }
        rewrite !lines_of_app, !lines_of_tagged. assert (E : (cid =? fst row) = false) by (apply Z.eqb_neq; exact Hne).
        rewrite E, !app_nil_r. apply (Hchk row Hrow).
      + cbn [fst snd]. rewrite !lines_of_app, !lines_of_tagged, Z.eqb_refl.
        rewrite (lines_of_none _ cid bl), (lines_of_none _ cid gtf). cbn [app]. rewrite Hl1, Hgtf. reflexivity.
        * intros x Hx E. apply Hcid_rows. rewrite <- E. apply Hg. exact Hx.
        * intros x Hx E. apply Hcid_rows. rewrite <- E. apply Hbl. exact Hx.
    - intros l Hl. rewrite map_app, in_app_iff. apply in_app_or in Hl. destruct Hl as [Hl|Hl].
      left. apply Hbl; exact Hl. right. apply in_map_iff in Hl. destruct Hl as (x & <- & _). left; reflexivity.
    - intros l Hl. rewrite map_app, in_app_iff. apply in_app_or in Hl. destruct Hl as [Hl|Hl].
      left. apply Hg; exact Hl. right. apply in_map_iff in Hl. destruct Hl as (x & <- & _). left; reflexivity.
    - exists (crs ++ [cr]). split; [|split].
      + apply Forall_app. split. exact Hcrs. constructor. exists cid, trows. exact Eproc. constructor.
      + rewrite !map_app, Erows. reflexivity.
      + rewrite map_app, fold_left_app, <- Etot. reflexivity.
  Qed.

  Lemma linv_skip : forall done seen total rows bl gtf cid,
    linv done seen total rows bl gtf -> ~ In cid done -> gnil = false -> ~ In cid given ->
    linv (done ++ [cid]) (cid :: seen) total rows bl gtf.
  Proof.
    intros done seen total rows bl gtf cid [Hseen Hn Hrows Hord Hchk Hbl Hg Htot] Hnd Hg0 Hng.
    constructor; try assumption.
    - rewrite Hseen, rev_app_distr. reflexivity.
    - intros c. rewrite Hrows, in_app_iff. cbn [In]. split.
      + intros [H1 H2]. split. left; exact H1. exact H2.
      + intros [[H1|[<-|[]]] H2]. split; assumption. destruct H2 as [H2|H2]. congruence. contradiction.
    - intros Hg'. congruence.
  Qed.

  Lemma post_of_finish : forall done seen total rows bl gtf cs out,
    linv done seen total rows bl gtf ->
    finish chrlen seen total rows bl gtf = ROk out ->
    (gnil = true -> done = cs) ->
    (gnil = false -> forall c, In c given -> In c cs -> In c done) ->
    post cs out.
  Proof.
    intros done seen total rows bl gtf cs out H Ef Hd1 Hd2.
    destruct (finish_ok _ _ _ _ _ _ H) as (out' & E & E1 & E2 & E3 & E4). rewrite Ef in E. injection E as <-.
    destruct H as [Hseen Hn Hrows Hord Hchk Hbl Hg Htot].
    unfold post. rewrite E1, E2, E3. split; [|split; [|split; [|split; [|split]]]].
    - apply forallb_forall. exact Hchk.
    - exact E4.
    - intros Hg0. rewrite (Hord Hg0). apply Hd1. exact Hg0.
    - intros Hg0. split.
      + intros row Hrow. assert (Hin : In (fst row) (map fst rows)) by (apply in_map; exact Hrow).
        apply Hrows in Hin. destruct Hin as [_ [Hc|Hc]]. congruence. exact Hc.
      + intros c Hc Hcs. apply Hrows. split. apply Hd2; assumption. right; exact Hc.
    - exact Hbl.
    - exact Hg.
  Qed.

  Lemma run_loop_ok : forall todo done seen total rows bl gtf,
    NoDup (done ++ todo) -> linv done seen total rows bl gtf ->
    exists out,
      run_loop RR o chrlen given (map (fun c => (c, Some (lookup_recs groups c))) todo) seen total rows bl gtf = ROk out /\
      post (done ++ todo) out.
  Proof.
    induction todo as [|cid todo IH]; intros done seen total rows bl gtf Hnd Hinv.
    - cbn [map run_loop]. destruct (finish_ok _ _ _ _ _ _ Hinv) as (out & E & _). exists out. split. exact E.
      rewrite app_nil_r. eapply post_of_finish. exact Hinv. exact E. intros _. reflexivity. intros _ c _ Hc. exact Hc.
    - cbn [map run_loop].
      destruct (chrom_ok cid) as (trows & cr & E1 & E2 & E3 & E4). rewrite E1.
      assert (Hcid : ~ In cid done).
      { intro Hc. apply NoDup_remove_2 in Hnd. apply Hnd. apply in_or_app. left; exact Hc. }
      assert (Hnd' : NoDup ((done ++ [cid]) ++ todo)) by (rewrite <- app_assoc; exact Hnd).
      assert (Eapp : done ++ cid :: todo = (done ++ [cid]) ++ todo) by (rewrite <- app_assoc; reflexivity).
      fold gnil. destruct gnil eqn:Eg; cbn [negb andb].
      + (* no --chromosome: every chromosome is processed, no early exit *)
        rewrite E2.
        destruct (IH (done ++ [cid]) (cid :: seen) (ps_iadd total (cr_stats cr)) (rows ++ [(cid, cr_row cr)])
                     (bl ++ map (fun l => (cid, l)) (cr_blocklist cr)) (gtf ++ map (fun l => (cid, l)) (cr_gtf cr)) Hnd')
          as (out & Eo & Hp).
        { apply linv_step; try assumption. left; exact Eg. exists trows; exact E2. }
        exists out. split. exact Eo. rewrite Eapp. exact Hp.
      + destruct (zmem cid given) eqn:Em; cbn [negb].
        * (* requested chromosome *)
          rewrite E2.
          assert (Hinv' : linv (done ++ [cid]) (cid :: seen) (ps_iadd total (cr_stats cr)) (rows ++ [(cid, cr_row cr)])
                               (bl ++ map (fun l => (cid, l)) (cr_blocklist cr)) (gtf ++ map (fun l => (cid, l)) (cr_gtf cr))).
          { apply linv_step; try assumption. right. apply zmem_In. exact Em. exists trows; exact E2. }
          destruct (subset given (cid :: seen)) eqn:Esub.
          -- (* early exit *)
             destruct (finish_ok _ _ _ _ _ _ Hinv') as (out & Eo & _). exists out. split. exact Eo.
             eapply post_of_finish. exact Hinv'. exact Eo. intros Hc. fold gnil in Hc. congruence.
             intros _ c Hc _. apply (proj1 (subset_spec _ _) Esub) in Hc.
             rewrite (li_seen _ _ _ _ _ _ Hinv') in Hc. apply in_rev in Hc. exact Hc.
          -- destruct (IH _ _ _ _ _ _ Hnd' Hinv') as (out & Eo & Hp). exists out. split. exact Eo. rewrite Eapp. exact Hp.
        * (* chromosome not requested: skipped *)
          destruct (IH (done ++ [cid]) (cid :: seen) total rows bl gtf Hnd') as (out & Eo & Hp).
          { apply linv_skip; try assumption. apply zmem_false. exact Em. }
          exists out. split. exact Eo. rewrite Eapp. exact Hp.
  Qed.

  Lemma linv_init : linv [] [] ps_empty [] [] [].
  Proof.
    constructor; try (intros ? []); try reflexivity. constructor.
    - intros c. cbn. tauto.
    - exists []. repeat split. constructor.
  Qed.

  Theorem run_stats_spec : forall indexed,
    NoDup given ->
    (indexed = true -> forall c, In c given -> In c (map fst header)) ->
    exists out, run_stats RR o indexed header groups given = ROk out /\ l1_run o groups given out = true.
  Proof.
    intros indexed Hgiven Hhdr. unfold run_stats. fold gnil. fold chrlen.
    set (cs := if indexed && negb gnil then given else map fst groups).
    assert (Etodo : (if indexed && negb gnil
                     then map (fun c => (c, if zmem c (map fst header) then Some (lookup_recs groups c) else None)) given
                     else map (fun g => (fst g, Some (snd g))) groups)
                    = map (fun c => (c, Some (lookup_recs groups c))) cs).
    { unfold cs. destruct (indexed && negb gnil) eqn:E.
      - apply andb_true_iff in E. destruct E as [Ei _]. apply map_ext_in. intros c Hc.
        assert (Hm : zmem c (map fst header) = true) by (apply zmem_In; apply Hhdr; assumption). rewrite Hm. reflexivity.
      - rewrite map_map. apply map_ext_in. intros g Hg. rewrite (lookup_recs_group g Hg). reflexivity. }
    rewrite Etodo.
    assert (Hcs : NoDup cs) by (unfold cs; destruct (indexed && negb gnil); assumption).
    destruct (run_loop_ok cs [] [] ps_empty [] [] [] Hcs linv_init) as (out & Eo & Hp).
    exists out. split. exact Eo. cbn [app] in Hp.
    destruct Hp as (P1 & P2 & P3 & P4 & P5 & P6).
    unfold l1_run, l1_run_gen.
    apply andb_true_iff; split; [apply andb_true_iff; split; [apply andb_true_iff; split; [apply andb_true_iff; split|]|]|].
    - exact P1.
    - exact P2.
    - unfold gnil in *. destruct given as [|g0 gs] eqn:Egiven.
      + rewrite (P3 eq_refl). unfold cs. rewrite andb_false_r.
        clear. induction (map fst groups) as [|x l IH]; cbn [list_eqb]. reflexivity. rewrite Z.eqb_refl, IH. reflexivity.
      + destruct (P4 eq_refl) as [Q1 Q2]. apply andb_true_iff. split.
        * apply forallb_forall. intros row Hrow. apply zmem_In. apply Q1. exact Hrow.
        * apply forallb_forall. intros c Hc. destruct (zmem c (map fst groups)) eqn:Em; cbn [negb orb]. 2: reflexivity.
          apply zmem_In. apply Q2. exact Hc. unfold cs. destruct (indexed && negb false). exact Hc. apply zmem_In. exact Em.
    - apply forallb_forall. intros l Hl. apply zmem_In. apply P5. exact Hl.
    - apply forallb_forall. intros l Hl. apply zmem_In. apply P6. exact Hl.
  Qed.
End Run.

(* ---------------------------------------------------------------------------------------------- *)
(* any output that passes l1_run has an ALL row whose sum of block lengths is within the covered span *)
Lemma fold_row_add_bsum : forall rows x, d_bsum (fold_left row_add rows x) = d_bsum x + zsum (map d_bsum rows).
Proof.
  induction rows as [|r rows IH]; intros x; cbn [fold_left map]. unfold zsum. cbn. lia.
  rewrite IH. unfold row_add at 1. cbn [d_bsum]. unfold zsum. cbn [fold_right]. lia.
Qed.

Lemma int_eqb_bsum : forall a b, dstats_int_eqb a b = true -> d_bsum a = d_bsum b.
Proof.
  intros a b H. unfold dstats_int_eqb, dstats_eqb in H. cbn [d_variants d_phased d_unphased d_singletons d_blocks d_vmin d_vmax
    d_vsum d_bmin d_bmax d_bsum d_het d_hetsnv d_phsnv d_n50] in H.
  repeat (apply andb_true_iff in H; destruct H as [H ?]).
  repeat match goal with E : (_ =? _) = true |- _ => apply Z.eqb_eq in E end. assumption.
Qed.

Theorem l1_run_all_span : forall only_snvs groups given out,
  l1_run only_snvs groups given out = true -> all_span_ok only_snvs groups out = true.
Proof.
  intros o groups given out H. unfold l1_run, l1_run_gen in H.
  repeat (apply andb_true_iff in H; destruct H as [H ?]).
  unfold all_span_ok. unfold all_row_ok in *. destruct (o_all out) as [a|]. 2: reflexivity.
  apply Z.leb_le. match goal with E : dstats_int_eqb a _ = true |- _ => rewrite (int_eqb_bsum _ _ E) end.
  unfold row_sum. rewrite fold_row_add_bsum. cbn [row_zero d_bsum]. rewrite map_map.
  rewrite forallb_forall in H. clear - H.
  induction (o_rows out) as [|row rows IH]. unfold zsum. cbn. lia.
  cbn [map]. unfold zsum in *. cbn [fold_right].
  assert (Hrow := H row (or_introl eq_refl)). cbv zeta in Hrow. apply andb_true_iff in Hrow. destruct Hrow as [Hrow _].
  unfold l1_row in Hrow. cbv zeta in Hrow. apply andb_true_iff in Hrow. destruct Hrow as [Hrow _].
  apply andb_true_iff in Hrow. destruct Hrow as [Hrow _].
  apply andb_true_iff in Hrow. destruct Hrow as [_ Hlen]. apply lengths_ok_prop in Hlen.
  specialize (IH (fun r Hr => H r (or_intror Hr))). lia.
Qed.
