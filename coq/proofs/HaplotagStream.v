From Coq Require Import ZArith List Bool Arith Lia Sorted Permutation.
From WH.Model Require Import Haplotag.
Import ListNotations.
Open Scope Z_scope.
From Coq Require Import ZifyBool.

(* Stream conservation of whatshap haplotag (property C10, finding F8):
   - without --regions both the current and the repaired code copy every alignment once, in order;
   - the repaired region rule (norm_regs / fetch_dedup) writes exactly the alignments overlapping at
     least one region, each once, in file order, for arbitrary (overlapping, unsorted, duplicated,
     open-ended) valid region lists;
   - the current rule does so only for "benign" region lists and is refuted otherwise. *)

Definition alns_ok (alns : list aln) : Prop := forall a, In a alns -> 0 <= a_start a < a_end a.
Definition sorted_start (alns : list aln) : Prop := StronglySorted (fun a b => a_start a <= a_start b) alns.
Definition reg_valid (r : region) : Prop := 0 <= fst r /\ match snd r with Some e => fst r < e | None => True end.
Definition regs_valid (l : list region) : Prop := forall r, In r l -> reg_valid r.
(* current code, benign region list: sorted, pairwise disjoint, and no alignment overlaps two of them *)
Definition benign (alns : list aln) (regs : list region) : Prop :=
  StronglySorted (fun r1 r2 => (match snd r1 with Some e => e <= fst r2 | None => False end)
                               /\ forall a, In a alns -> overlaps r1 a = true -> overlaps r2 a = false) regs.

(* ------------------------------------------------------------------------------------------------ *)
(* generic list facts *)

Lemma list_eqb_Z_iff : forall a b : list Z, list_eqb Z.eqb a b = true <-> a = b.
Proof.
  induction a as [|x a IH]; intros [|y b]; cbn [list_eqb]; split; intro H;
    try reflexivity; try discriminate.
  - apply andb_true_iff in H. destruct H as [H1 H2].
    apply Z.eqb_eq in H1. apply IH in H2. subst. reflexivity.
  - inversion H; subst. rewrite Z.eqb_refl. cbn [andb]. apply IH. reflexivity.
Qed.

Lemma filter_all_true : forall (A : Type) (f : A -> bool) (l : list A),
  (forall x, In x l -> f x = true) -> filter f l = l.
Proof.
  intros A f l. induction l as [|x l IH]; intro H; cbn [filter].
  - reflexivity.
  - rewrite (H x (or_introl eq_refl)). f_equal. apply IH. intros y Hy. apply H. right. exact Hy.
Qed.

Lemma filter_all_false : forall (A : Type) (f : A -> bool) (l : list A),
  (forall x, In x l -> f x = false) -> filter f l = [].
Proof.
  intros A f l. induction l as [|x l IH]; intro H; cbn [filter].
  - reflexivity.
  - rewrite (H x (or_introl eq_refl)). apply IH. intros y Hy. apply H. right. exact Hy.
Qed.

Lemma filter_filter_and : forall (A : Type) (f g : A -> bool) (l : list A),
  filter f (filter g l) = filter (fun x => g x && f x) l.
Proof.
  intros A f g l. induction l as [|x l IH]; cbn [filter].
  - reflexivity.
  - destruct (g x) eqn:Hg; cbn [andb filter].
    + destruct (f x); rewrite IH; reflexivity.
    + exact IH.
Qed.

Lemma flat_map_flat_map : forall (A B C : Type) (f : B -> list C) (g : A -> list B) (l : list A),
  flat_map f (flat_map g l) = flat_map (fun x => flat_map f (g x)) l.
Proof.
  intros A B C f g l. induction l as [|x l IH]; cbn [flat_map].
  - reflexivity.
  - rewrite flat_map_app, IH. reflexivity.
Qed.

Lemma flat_map_map : forall (A B C : Type) (f : B -> list C) (g : A -> B) (l : list A),
  flat_map f (map g l) = flat_map (fun x => f (g x)) l.
Proof.
  intros A B C f g l. induction l as [|x l IH]; cbn [flat_map map].
  - reflexivity.
  - rewrite IH. reflexivity.
Qed.

Lemma map_flat_map : forall (A B C : Type) (f : B -> C) (g : A -> list B) (l : list A),
  map f (flat_map g l) = flat_map (fun x => map f (g x)) l.
Proof.
  intros A B C f g l. induction l as [|x l IH]; cbn [flat_map map].
  - reflexivity.
  - rewrite map_app, IH. reflexivity.
Qed.

Lemma flat_map_ext_in : forall (A B : Type) (f g : A -> list B) (l : list A),
  (forall x, In x l -> f x = g x) -> flat_map f l = flat_map g l.
Proof.
  intros A B f g l. induction l as [|x l IH]; intro H; cbn [flat_map].
  - reflexivity.
  - rewrite (H x (or_introl eq_refl)). f_equal. apply IH. intros y Hy. apply H. right. exact Hy.
Qed.

Lemma flat_map_nil : forall (A B : Type) (f : A -> list B) (l : list A),
  (forall x, In x l -> f x = []) -> flat_map f l = [].
Proof.
  intros A B f l. induction l as [|x l IH]; intro H; cbn [flat_map].
  - reflexivity.
  - rewrite (H x (or_introl eq_refl)). cbn [app]. apply IH. intros y Hy. apply H. right. exact Hy.
Qed.

(* enumerating a list by index = zipping it with seq *)
Lemma flat_map_seq_combine : forall (A B : Type) (G : nat -> A -> list B) (H : nat -> list B) (l : list A) (s : nat),
  (forall k c, nth_error l k = Some c -> H (s + k)%nat = G (s + k)%nat c) ->
  flat_map H (seq s (length l)) = flat_map (fun kc => G (fst kc) (snd kc)) (combine (seq s (length l)) l).
Proof.
  intros A B G H l. induction l as [|c l IH]; intros s Hk.
  - reflexivity.
  - cbn [length seq combine flat_map fst snd].
    assert (H0 : H s = G s c).
    { specialize (Hk 0%nat c eq_refl). rewrite Nat.add_0_r in Hk. exact Hk. }
    rewrite H0. f_equal. apply IH. intros k c' Hn.
    specialize (Hk (S k) c' Hn). rewrite Nat.add_succ_r in Hk. exact Hk.
Qed.

(* a list sorted by start splits at a cut c *)
Lemma filter_app_sorted : forall (P Q : aln -> bool) (c : Z) (l : list aln),
  sorted_start l ->
  (forall x, In x l -> P x = true -> a_start x < c) ->
  (forall x, In x l -> Q x = true -> c <= a_start x) ->
  filter P l ++ filter Q l = filter (fun x => P x || Q x) l.
Proof.
  intros P Q c l. induction l as [|x l IH]; intros Hs HP HQ.
  - reflexivity.
  - apply StronglySorted_inv in Hs. destruct Hs as [Hs Hx].
    rewrite Forall_forall in Hx.
    assert (IH' : filter P l ++ filter Q l = filter (fun x => P x || Q x) l).
    { apply IH.
      - exact Hs.
      - intros y Hy. apply HP. right. exact Hy.
      - intros y Hy. apply HQ. right. exact Hy. }
    cbn [filter].
    destruct (P x) eqn:HPx.
    + assert (HQx : Q x = false).
      { destruct (Q x) eqn:HQx; [|reflexivity].
        pose proof (HP x (or_introl eq_refl) HPx). pose proof (HQ x (or_introl eq_refl) HQx). lia. }
      rewrite HQx. cbn [orb app]. rewrite IH'. reflexivity.
    + destruct (Q x) eqn:HQx; cbn [orb].
      * assert (Hnil : filter P l = []).
        { apply filter_all_false. intros y Hy.
          destruct (P y) eqn:HPy; [|reflexivity].
          pose proof (HP y (or_intror Hy) HPy). pose proof (HQ x (or_introl eq_refl) HQx).
          pose proof (Hx y Hy). lia. }
        rewrite Hnil in *. cbn [app] in *. rewrite IH'. reflexivity.
      * exact IH'.
Qed.

(* ------------------------------------------------------------------------------------------------ *)
(* 1. the executable conservation check decides the equality *)
Theorem conserved_spec_iff : forall chroms user tail out,
  conserved_spec chroms user tail out = true <-> map fst out = expected_ids chroms user tail.
Proof.
  intros chroms user tail out. unfold conserved_spec. apply list_eqb_Z_iff.
Qed.

(* ------------------------------------------------------------------------------------------------ *)
(* 2. without --regions *)
Lemma map_fst_out_rec : forall cfg st w, map fst (map (out_rec cfg st) w) = map a_id w.
Proof.
  intros cfg st w. rewrite map_map. apply map_ext. intro a. reflexivity.
Qed.

Lemma map_fst_out_of_plan : forall cfg (pl : plan),
  map fst (out_of_plan cfg pl) = flat_map (fun x => map a_id (snd x)) pl.
Proof.
  intros cfg pl. unfold out_of_plan. rewrite map_flat_map.
  apply flat_map_ext. intro x. cbv zeta. apply map_fst_out_rec.
Qed.

Lemma fetch_whole : forall alns, alns_ok alns -> fetch alns whole = alns.
Proof.
  intros alns Hok. unfold fetch. apply filter_all_true. intros a Ha.
  specialize (Hok a Ha). unfold overlaps, whole, lt_end. cbn [fst snd]. lia.
Qed.

Lemma ids_plan_none : forall (l : list chrom) (s : nat),
  (forall c, In c l -> alns_ok (c_alns c)) ->
  flat_map (fun kc : nat * chrom => map a_id (fetch (c_alns (snd kc)) whole)) (combine (seq s (length l)) l)
  = flat_map (fun c => map a_id (c_alns c)) l.
Proof.
  induction l as [|c l IH]; intros s Hok.
  - reflexivity.
  - cbn [length seq combine flat_map snd].
    rewrite fetch_whole by (apply Hok; left; reflexivity).
    f_equal. apply IH. intros c' Hc'. apply Hok. right. exact Hc'.
Qed.

Lemma stream_none_plan : forall cfg chroms tail,
  (forall c, In c chroms -> alns_ok (c_alns c)) ->
  map fst (out_of_plan cfg (plan_none chroms) ++ map (fun a => (a_id a, a_old a)) tail)
  = expected_ids chroms None tail.
Proof.
  intros cfg chroms tail Hok. rewrite map_app, map_fst_out_of_plan, map_map.
  unfold expected_ids, plan_none. cbn [fst].
  f_equal. rewrite flat_map_map. cbn [snd]. apply ids_plan_none. exact Hok.
Qed.

Theorem stream_none_current : forall cfg chroms tail out,
  (forall c, In c chroms -> alns_ok (c_alns c)) ->
  run_current cfg chroms None tail = Some out ->
  map fst out = expected_ids chroms None tail.
Proof.
  intros cfg chroms tail out Hok Hrun. unfold run_current in Hrun.
  destruct (negb (input_wf cfg chroms)); [discriminate|].
  injection Hrun as Hout. subst out. apply stream_none_plan. exact Hok.
Qed.

Theorem stream_none_fixed : forall cfg chroms tail out,
  (forall c, In c chroms -> alns_ok (c_alns c)) ->
  run_fixed cfg chroms None tail = Some out ->
  map fst out = expected_ids chroms None tail.
Proof.
  intros cfg chroms tail out Hok Hrun. unfold run_fixed in Hrun.
  destruct (negb (input_wf cfg chroms)); [discriminate|].
  injection Hrun as Hout. subst out. apply stream_none_plan. exact Hok.
Qed.

(* ------------------------------------------------------------------------------------------------ *)
(* 3. the repaired region rule writes exactly the alignments overlapping some region, once, in order *)
Definition sorted_fst (l : list region) : Prop := StronglySorted (fun r1 r2 => fst r1 <= fst r2) l.
(* every region ends strictly before each later one starts; hence only the last may be open-ended *)
Definition separated (l : list region) : Prop :=
  StronglySorted (fun r1 r2 => match snd r1 with Some e => e < fst r2 | None => False end) l.

Lemma in_regions_cons : forall r l a, in_regions (r :: l) a = overlaps r a || in_regions l a.
Proof. reflexivity. Qed.

Lemma in_insert_reg : forall r x l, In r (insert_reg x l) -> r = x \/ In r l.
Proof.
  intros r x l. induction l as [|h t IH]; cbn [insert_reg]; intro H.
  - destruct H as [H|[]]. left. symmetry. exact H.
  - destruct (fst x <=? fst h) eqn:E.
    + destruct H as [H|H]; [left; symmetry; exact H | right; exact H].
    + destruct H as [H|H]; [right; left; exact H |].
      apply IH in H. destruct H as [H|H]; [left; exact H | right; right; exact H].
Qed.

Lemma insert_reg_sorted : forall x l, sorted_fst l -> sorted_fst (insert_reg x l).
Proof.
  unfold sorted_fst. intros x l. induction l as [|h t IH]; intro Hs; cbn [insert_reg].
  - constructor; constructor.
  - destruct (fst x <=? fst h) eqn:E.
    + constructor; [exact Hs|].
      apply StronglySorted_inv in Hs. destruct Hs as [Hs Hh].
      constructor; [lia|]. rewrite Forall_forall in *. intros y Hy. specialize (Hh y Hy). lia.
    + apply StronglySorted_inv in Hs. destruct Hs as [Hs Hh].
      constructor; [apply IH; exact Hs|].
      rewrite Forall_forall in *. intros y Hy. apply in_insert_reg in Hy.
      destruct Hy as [Hy|Hy]; [subst; lia | apply Hh; exact Hy].
Qed.

Lemma in_regions_insert : forall r l a, in_regions (insert_reg r l) a = overlaps r a || in_regions l a.
Proof.
  intros r l a. induction l as [|h t IH]; cbn [insert_reg].
  - reflexivity.
  - destruct (fst r <=? fst h) eqn:E.
    + reflexivity.
    + rewrite !in_regions_cons, IH. destruct (overlaps r a), (overlaps h a); reflexivity.
Qed.

Lemma sort_regs_sorted : forall l, sorted_fst (sort_regs l).
Proof.
  induction l as [|r l IH]; unfold sort_regs in *; cbn [fold_right].
  - constructor.
  - apply insert_reg_sorted. exact IH.
Qed.

Lemma sort_regs_valid : forall l, regs_valid l -> regs_valid (sort_regs l).
Proof.
  induction l as [|r l IH]; intro Hv; unfold sort_regs in *; cbn [fold_right].
  - intros x [].
  - intros x Hx. apply in_insert_reg in Hx. destruct Hx as [Hx|Hx].
    + subst. apply Hv. left. reflexivity.
    + apply IH; [|exact Hx]. intros y Hy. apply Hv. right. exact Hy.
Qed.

Lemma in_regions_sort : forall l a, in_regions (sort_regs l) a = in_regions l a.
Proof.
  induction l as [|r l IH]; intro a; unfold sort_regs in *; cbn [fold_right].
  - reflexivity.
  - rewrite in_regions_insert, in_regions_cons, IH. reflexivity.
Qed.

Lemma overlaps_merge : forall cur r a,
  fst cur <= fst r -> touches cur r = true -> a_start a < a_end a ->
  overlaps (fst cur, max_end (snd cur) (snd r)) a = overlaps cur a || overlaps r a.
Proof.
  intros [s1 e1] [s2 e2] a H1 H2 H3. unfold overlaps, touches, max_end, lt_end in *. cbn [fst snd] in *.
  destruct e1 as [e1|]; destruct e2 as [e2|]; lia.
Qed.

Lemma merge_from_spec : forall l cur,
  reg_valid cur -> regs_valid l -> (forall r, In r l -> fst cur <= fst r) -> sorted_fst l ->
  separated (merge_from cur l) /\ regs_valid (merge_from cur l) /\
  (forall r, In r (merge_from cur l) -> fst cur <= fst r) /\
  (forall a, a_start a < a_end a -> in_regions (merge_from cur l) a = overlaps cur a || in_regions l a).
Proof.
  induction l as [|r t IH]; intros cur Hc Hl Hle Hs; cbn [merge_from].
  - split; [|split; [|split]].
    + constructor; constructor.
    + intros x [Hx|[]]. subst. exact Hc.
    + intros x [Hx|[]]. subst. lia.
    + intros a _. reflexivity.
  - unfold sorted_fst in Hs. apply StronglySorted_inv in Hs. destruct Hs as [Hst Hr].
    rewrite Forall_forall in Hr.
    assert (Hvt : regs_valid t) by (intros x Hx; apply Hl; right; exact Hx).
    pose proof (Hle r (or_introl eq_refl)) as Hcr.
    destruct (touches cur r) eqn:Ht.
    + destruct (IH (fst cur, max_end (snd cur) (snd r))) as (HS & HV & HF & HC).
      * destruct Hc as [Hc1 Hc2]. pose proof (Hl r (or_introl eq_refl)) as [Hr1 Hr2].
        split; cbn [fst snd]; [exact Hc1|].
        destruct (snd cur) as [e1|]; destruct (snd r) as [e2|]; cbn [max_end]; try exact I. lia.
      * exact Hvt.
      * intros x Hx. cbn [fst]. apply Hle. right. exact Hx.
      * exact Hst.
      * split; [exact HS|]. split; [exact HV|]. split; [exact HF|].
        intros a Ha. rewrite (HC a Ha), (overlaps_merge cur r a Hcr Ht Ha), in_regions_cons.
        rewrite orb_assoc. reflexivity.
    + destruct (IH r) as (HS & HV & HF & HC).
      * apply Hl. left. reflexivity.
      * exact Hvt.
      * exact Hr.
      * exact Hst.
      * split; [|split; [|split]].
        -- constructor; [exact HS|]. rewrite Forall_forall. intros y Hy. specialize (HF y Hy).
           unfold touches in Ht. destruct (snd cur) as [e|]; [lia|discriminate].
        -- intros y [Hy|Hy]; [subst; exact Hc | apply HV; exact Hy].
        -- intros y [Hy|Hy]; [subst; lia | specialize (HF y Hy); lia].
        -- intros a Ha. rewrite !in_regions_cons, (HC a Ha). reflexivity.
Qed.

Lemma in_regions_end : forall t a e,
  in_regions t a = true -> (forall r, In r t -> e < fst r) -> e < a_end a.
Proof.
  intros t a e H Hr. unfold in_regions in H. apply existsb_exists in H. destruct H as [r [Hin Ho]].
  specialize (Hr r Hin). unfold overlaps in Ho. apply andb_true_iff in Ho. destruct Ho as [_ Ho]. lia.
Qed.

Lemma fetch_dedup_spec : forall alns, sorted_start alns ->
  forall m p, separated m -> regs_valid m -> (forall r, In r m -> p <= fst r) ->
  fetch_dedup alns (Some p) m = filter (fun a => negb (a_start a <? p) && in_regions m a) alns.
Proof.
  intros alns Hsa. induction m as [|rg t IH]; intros p Hsep Hv Hp.
  - cbn [fetch_dedup]. symmetry. apply filter_all_false. intros a _. apply andb_false_r.
  - cbn [fetch_dedup]. unfold separated in Hsep. apply StronglySorted_inv in Hsep.
    destruct Hsep as [Hsep Hrg]. rewrite Forall_forall in Hrg.
    unfold fetch at 1. rewrite filter_filter_and.
    destruct t as [|r2 t'].
    + cbn [fetch_dedup]. rewrite app_nil_r. apply filter_ext. intro a.
      rewrite in_regions_cons. unfold in_regions. cbn [existsb lt_end]. rewrite orb_false_r. apply andb_comm.
    + pose proof (Hv rg (or_introl eq_refl)) as [Hv1 Hv2].
      remember (snd rg) as er eqn:He. destruct er as [e|].
      2:{ exfalso. exact (Hrg r2 (or_introl eq_refl)). }
      assert (Hrg' : forall r, In r (r2 :: t') -> e < fst r) by exact Hrg.
      cbn beta iota in Hv2.
      pose proof (Hp rg (or_introl eq_refl)) as Hprg.
      rewrite (IH e);
        [ | exact Hsep | intros r Hr; apply Hv; right; exact Hr | intros r Hr; specialize (Hrg' r Hr); lia ].
      rewrite (filter_app_sorted _ _ e alns Hsa).
      * apply filter_ext_in. intros a Ha. cbv beta. rewrite (in_regions_cons rg).
        unfold overlaps. rewrite <- He. cbn [lt_end].
        destruct (in_regions (r2 :: t') a) eqn:Hit.
        -- pose proof (in_regions_end _ _ e Hit Hrg'). lia.
        -- lia.
      * intros x _ HP. unfold overlaps in HP. rewrite <- He in HP. cbn [lt_end] in HP. lia.
      * intros x _ HQ. lia.
Qed.

Theorem written_fixed_spec : forall alns regs,
  alns_ok alns -> sorted_start alns -> regs_valid regs ->
  written_fixed alns (norm_regs regs) = filter (in_regions regs) alns.
Proof.
  intros alns regs Hok Hsa Hv. unfold written_fixed, norm_regs.
  pose proof (sort_regs_sorted regs) as Hss. pose proof (sort_regs_valid regs Hv) as Hsv.
  pose proof (in_regions_sort regs) as Hsi.
  destruct (sort_regs regs) as [|r t].
  - cbn [merge_regs fetch_dedup]. symmetry. apply filter_all_false. intros a _. rewrite <- Hsi. reflexivity.
  - cbn [merge_regs]. unfold sorted_fst in Hss. apply StronglySorted_inv in Hss. destruct Hss as [Hst Hr].
    rewrite Forall_forall in Hr.
    pose proof (Hsv r (or_introl eq_refl)) as Hvr.
    destruct (merge_from_spec t r) as (HS & HV & HF & HC).
    + exact Hvr.
    + intros x Hx. apply Hsv. right. exact Hx.
    + exact Hr.
    + exact Hst.
    + rewrite (fetch_dedup_spec alns Hsa _ 0 HS HV).
      * apply filter_ext_in. intros a Ha. specialize (Hok a Ha).
        rewrite HC by lia. rewrite <- Hsi, in_regions_cons.
        assert (E : (a_start a <? 0) = false) by lia. rewrite E. reflexivity.
      * intros x Hx. specialize (HF x Hx). destruct Hvr as [Hvr _]. lia.
Qed.

(* ------------------------------------------------------------------------------------------------ *)
(* 4. conservation for the repaired code, arbitrary valid region lists *)
Lemma regs_of_valid : forall k l, regs_valid (map snd l) -> regs_valid (regs_of k l).
Proof.
  intros k l Hv r Hr. unfold regs_of in Hr. apply in_map_iff in Hr. destruct Hr as [x [Hx Hin]].
  apply filter_In in Hin. destruct Hin as [Hin _]. apply Hv. subst r. apply in_map. exact Hin.
Qed.

Lemma filter_in_regions_nil : forall alns, filter (in_regions []) alns = [].
Proof. intro alns. apply filter_all_false. intros a _. reflexivity. Qed.

Theorem stream_fixed : forall cfg chroms l tail out,
  (forall c, In c chroms -> alns_ok (c_alns c) /\ sorted_start (c_alns c)) ->
  regs_valid (map snd l) ->
  run_fixed cfg chroms (Some l) tail = Some out ->
  map fst out = expected_ids chroms (Some l) tail.
Proof.
  intros cfg chroms l tail out Hc Hv Hrun. unfold run_fixed in Hrun.
  destruct (negb (input_wf cfg chroms)); [discriminate|].
  injection Hrun as Hout. subst out. rewrite map_fst_out_of_plan.
  unfold plan_fixed, plan_of, norm_fixed, expected_ids. rewrite !flat_map_flat_map.
  apply (flat_map_seq_combine _ _
           (fun k c => map a_id (filter (in_regions (regs_of (Z.of_nat k) l)) (c_alns c)))).
  intros k c Hn. cbn [Nat.add].
  pose proof (regs_of_valid (Z.of_nat k) l Hv) as Hvk.
  destruct (regs_of (Z.of_nat k) l) as [|r0 rs].
  - cbn [flat_map]. rewrite filter_in_regions_nil. reflexivity.
  - cbn [flat_map app fst snd]. rewrite app_nil_r, Nat2Z.id, Hn. cbn [flat_map snd]. rewrite app_nil_r.
    destruct (Hc c (nth_error_In _ _ Hn)) as [Hok Hsa].
    rewrite (written_fixed_spec _ _ Hok Hsa Hvk). reflexivity.
Qed.

(* ------------------------------------------------------------------------------------------------ *)
(* 5. the current rule on a benign region list *)
Theorem written_current_benign : forall alns regs,
  alns_ok alns -> sorted_start alns -> regs_valid regs -> benign alns regs ->
  written_current alns regs = filter (in_regions regs) alns.
Proof.
  intros alns regs Hok Hsa. unfold written_current.
  induction regs as [|r t IH]; intros Hv Hb.
  - cbn [flat_map]. rewrite filter_in_regions_nil. reflexivity.
  - cbn [flat_map]. unfold benign in Hb. apply StronglySorted_inv in Hb. destruct Hb as [Hbt Hr].
    rewrite Forall_forall in Hr.
    rewrite IH; [| intros x Hx; apply Hv; right; exact Hx | exact Hbt].
    destruct t as [|r2 t'].
    + rewrite filter_in_regions_nil, app_nil_r. unfold fetch. apply filter_ext. intro a.
      rewrite in_regions_cons. cbn [in_regions existsb]. rewrite orb_false_r. reflexivity.
    + pose proof (Hv r (or_introl eq_refl)) as [Hv1 Hv2].
      remember (snd r) as er eqn:He. destruct er as [e|].
      2:{ exfalso. destruct (Hr r2 (or_introl eq_refl)) as [F _]. exact F. }
      unfold fetch. rewrite (filter_app_sorted _ _ e alns Hsa).
      * apply filter_ext. intro a. rewrite in_regions_cons. reflexivity.
      * intros x _ HP. unfold overlaps in HP. rewrite <- He in HP. cbn [lt_end] in HP. lia.
      * intros x Hx HQ. unfold in_regions in HQ. apply existsb_exists in HQ.
        destruct HQ as [r' [Hin Ho']]. destruct (Hr r' Hin) as [Hle Hex].
        destruct (overlaps r x) eqn:Hox.
        { rewrite (Hex x Hx Hox) in Ho'. discriminate. }
        unfold overlaps in Hox, Ho'. rewrite <- He in Hox. cbn [lt_end] in Hox.
        apply andb_true_iff in Ho'. destruct Ho' as [_ Ho']. lia.
Qed.

(* ------------------------------------------------------------------------------------------------ *)
(* 6. conservation for the current code when every chromosome's region list is benign and the
      chromosomes are first mentioned in BAM order *)
Lemma lookup_upd : forall (A : Type) (k k' : Z) (v : A) (m : list (Z * A)),
  lookup k (upd k' v m) = if k =? k' then Some v else lookup k m.
Proof.
  intros A k k' v m. induction m as [|[k0 v0] t IH]; cbn [upd lookup].
  - reflexivity.
  - destruct (k' =? k0) eqn:E0; cbn [lookup].
    + destruct (k =? k') eqn:E1; [reflexivity|].
      assert (E2 : (k =? k0) = false) by lia. rewrite E2. reflexivity.
    + destruct (k =? k0) eqn:E2; [|exact IH].
      destruct (k =? k') eqn:E1; [lia|reflexivity].
Qed.

Lemma keys_upd : forall (A : Type) (k : Z) (v : A) (m : list (Z * A)) (x : Z),
  In x (map fst (upd k v m)) <-> x = k \/ In x (map fst m).
Proof.
  intros A k v m x. induction m as [|[k0 v0] t IH]; cbn [upd map fst In].
  - intuition congruence.
  - destruct (k =? k0) eqn:E; cbn [map fst In].
    + apply Z.eqb_eq in E. subst k0. intuition congruence.
    + rewrite IH. intuition congruence.
Qed.

Lemma lookup_none_keys : forall (A : Type) (k : Z) (m : list (Z * A)),
  lookup k m = None <-> ~ In k (map fst m).
Proof.
  intros A k m. induction m as [|[k0 v0] t IH]; cbn [lookup map fst In].
  - split; [intros _ []|reflexivity].
  - destruct (k =? k0) eqn:E.
    + split; [discriminate|]. intro H. exfalso. apply H. left. lia.
    + rewrite IH. split.
      * intros H [H1|H1]; [lia|exact (H H1)].
      * intros H H1. apply H. right. exact H1.
Qed.

Lemma lookup_in_nodup : forall (A : Type) (m : list (Z * A)) (k : Z) (v : A),
  NoDup (map fst m) -> In (k, v) m -> lookup k m = Some v.
Proof.
  intros A m. induction m as [|[k0 v0] t IH]; intros k v Hnd Hin.
  - destruct Hin.
  - cbn [lookup]. cbn [map fst] in Hnd. inversion Hnd as [|? ? Hnotin Hnd']. subst.
    destruct Hin as [Hin|Hin].
    + injection Hin as H1 H2. subst. rewrite Z.eqb_refl. reflexivity.
    + destruct (k =? k0) eqn:E.
      * apply Z.eqb_eq in E. subst k0. exfalso. apply Hnotin.
        apply (in_map fst) in Hin. exact Hin.
      * apply IH; assumption.
Qed.

Lemma sorted_lt_nodup : forall l : list Z, StronglySorted Z.lt l -> NoDup l.
Proof.
  induction l as [|x l IH]; intro Hs.
  - constructor.
  - apply StronglySorted_inv in Hs. destruct Hs as [Hs Hx]. rewrite Forall_forall in Hx.
    constructor; [|apply IH; exact Hs]. intro Hin. specialize (Hx x Hin). lia.
Qed.

Lemma lookup_list_app_at : forall (A : Type) (k k' : Z) (x : A) (m : list (Z * list A)),
  lookup_list k (app_at k' x m) = if k =? k' then lookup_list k m ++ [x] else lookup_list k m.
Proof.
  intros A k k' x m. unfold app_at. unfold lookup_list at 1. rewrite lookup_upd.
  destruct (k =? k') eqn:E.
  - apply Z.eqb_eq in E. subst k'. reflexivity.
  - reflexivity.
Qed.

Lemma group_fold_lookup : forall (l : list (Z * region)) (m : list (Z * list region)) (k : Z),
  lookup_list k (fold_left (fun m x => app_at (fst x) (snd x) m) l m) = lookup_list k m ++ regs_of k l.
Proof.
  induction l as [|x l IH]; intros m k; cbn [fold_left].
  - unfold regs_of. cbn [filter map]. rewrite app_nil_r. reflexivity.
  - rewrite IH, lookup_list_app_at. unfold regs_of. cbn [filter]. rewrite (Z.eqb_sym (fst x) k).
    destruct (k =? fst x); cbn [map]; [rewrite <- app_assoc|]; reflexivity.
Qed.

Lemma group_fold_keys : forall (l : list (Z * region)) (m : list (Z * list region)) (x : Z),
  In x (map fst (fold_left (fun m x => app_at (fst x) (snd x) m) l m)) ->
  In x (map fst m) \/ In x (map fst l).
Proof.
  induction l as [|y l IH]; intros m x H; cbn [fold_left] in H.
  - left. exact H.
  - apply IH in H. destruct H as [H|H].
    + unfold app_at in H. apply keys_upd in H. destruct H as [H|H].
      * right. left. symmetry. exact H.
      * left. exact H.
    + right. right. exact H.
Qed.

Lemma group_regions_lookup_list : forall l k, lookup_list k (group_regions l) = regs_of k l.
Proof. intros l k. unfold group_regions. rewrite group_fold_lookup. reflexivity. Qed.

Lemma group_regions_keys : forall l k, In k (map fst (group_regions l)) -> In k (map fst l).
Proof.
  intros l k H. unfold group_regions in H. apply group_fold_keys in H. destruct H as [[]|H]. exact H.
Qed.

(* a key list in strictly ascending order is a sub-enumeration of seq *)
Lemma sweep_keys : forall (B V : Type) (T : nat -> list B) (cnt s : nat) (g : list (Z * V)),
  StronglySorted Z.lt (map fst g) ->
  (forall k, In k (map fst g) -> Z.of_nat s <= k) ->
  (forall k, (s <= k)%nat -> ~ In (Z.of_nat k) (map fst g) -> T k = []) ->
  (forall k, (s + cnt <= k)%nat -> T k = []) ->
  flat_map (fun kr => T (Z.to_nat (fst kr))) g = flat_map T (seq s cnt).
Proof.
  intros B V T. induction cnt as [|c IH]; intros s g Hss Hge Hnk Hbig.
  - cbn [seq flat_map]. apply flat_map_nil. intros [k v] Hin. cbn [fst]. apply Hbig.
    pose proof (Hge k (in_map fst _ _ Hin)) as Hk. lia.
  - cbn [seq flat_map]. destruct g as [|[k v] g'].
    + cbn [flat_map]. rewrite (Hnk s); [|lia|intros []]. cbn [app].
      rewrite <- (IH (S s) []).
      * reflexivity.
      * constructor.
      * intros k [].
      * intros k Hk _. apply Hnk; [lia|intros []].
      * intros k Hk. apply Hbig. lia.
    + cbn [map fst] in Hss, Hge, Hnk. apply StronglySorted_inv in Hss. destruct Hss as [Hss' Hk].
      rewrite Forall_forall in Hk.
      destruct (Z.eq_dec k (Z.of_nat s)) as [E|E].
      * subst k. cbn [flat_map fst]. rewrite Nat2Z.id. f_equal. apply IH.
        -- exact Hss'.
        -- intros k Hin. specialize (Hk k Hin). lia.
        -- intros k Hsk Hnin. apply Hnk; [lia|]. intros [H|H]; [lia|exact (Hnin H)].
        -- intros k Hsk. apply Hbig. lia.
      * assert (Hlt : Z.of_nat s < k) by (specialize (Hge k (or_introl eq_refl)); lia).
        rewrite (Hnk s); [| lia | intros [H1|H1]; [lia | specialize (Hk _ H1); lia]].
        cbn [app]. apply IH.
        -- cbn [map fst]. constructor; [exact Hss' | rewrite Forall_forall; exact Hk].
        -- cbn [map fst]. intros k0 [H1|H1]; [subst; lia | specialize (Hk _ H1); lia].
        -- cbn [map fst]. intros k0 Hsk Hnin. apply Hnk; [lia|exact Hnin].
        -- intros k0 Hsk. apply Hbig. lia.
Qed.

Theorem stream_current_benign : forall cfg chroms l tail out,
  (forall c, In c chroms -> alns_ok (c_alns c) /\ sorted_start (c_alns c)) ->
  regs_valid (map snd l) ->
  (forall x, In x l -> 0 <= fst x) ->
  StronglySorted Z.lt (map fst (group_regions l)) ->
  (forall k c, nth_error chroms k = Some c -> benign (c_alns c) (regs_of (Z.of_nat k) l)) ->
  run_current cfg chroms (Some l) tail = Some out ->
  map fst out = expected_ids chroms (Some l) tail.
Proof.
  intros cfg chroms l tail out Hc Hv Hpos Hss Hb Hrun. unfold run_current in Hrun.
  destruct (negb (input_wf cfg chroms)); [discriminate|].
  injection Hrun as Hout. subst out. rewrite map_fst_out_of_plan.
  unfold plan_current, plan_of, expected_ids. rewrite flat_map_flat_map.
  set (T := fun k : nat =>
              match nth_error chroms k with
              | Some c => map a_id (filter (in_regions (regs_of (Z.of_nat k) l)) (c_alns c))
              | None => []
              end).
  assert (Hkeys : forall k, In k (map fst (group_regions l)) -> 0 <= k).
  { intros k Hin. apply group_regions_keys in Hin. apply in_map_iff in Hin.
    destruct Hin as [x [Hx Hin]]. subst k. apply Hpos. exact Hin. }
  transitivity (flat_map T (seq 0 (length chroms))).
  2:{ apply (flat_map_seq_combine _ _
               (fun k c => map a_id (filter (in_regions (regs_of (Z.of_nat k) l)) (c_alns c)))).
      intros k c Hn. cbn [Nat.add]. unfold T. rewrite Hn. reflexivity. }
  transitivity (flat_map (fun kr : Z * list region => T (Z.to_nat (fst kr))) (group_regions l)).
  - apply flat_map_ext_in. intros [k rs] Hin. cbn [fst snd].
    assert (Hk0 : 0 <= k) by (apply Hkeys; apply (in_map fst) in Hin; exact Hin).
    assert (Hrs : rs = regs_of k l).
    { rewrite <- group_regions_lookup_list. unfold lookup_list.
      rewrite (lookup_in_nodup _ _ k rs (sorted_lt_nodup _ Hss) Hin). reflexivity. }
    unfold T. destruct (nth_error chroms (Z.to_nat k)) as [c|] eqn:Hn; cbn [flat_map snd]; [|reflexivity].
    rewrite app_nil_r. destruct (Hc c (nth_error_In _ _ Hn)) as [Hok Hsa].
    pose proof (Hb _ _ Hn) as Hbk. rewrite Z2Nat.id in * by exact Hk0. subst rs.
    rewrite (written_current_benign _ _ Hok Hsa (regs_of_valid k l Hv) Hbk). reflexivity.
  - apply sweep_keys.
    + exact Hss.
    + intros k Hin. specialize (Hkeys k Hin). lia.
    + intros k _ Hnin. apply lookup_none_keys in Hnin. unfold T.
      pose proof (group_regions_lookup_list l (Z.of_nat k)) as Hll. unfold lookup_list in Hll.
      rewrite Hnin in Hll. rewrite <- Hll. destruct (nth_error chroms k); [|reflexivity].
      rewrite filter_in_regions_nil. reflexivity.
    + intros k Hk. unfold T. cbn [Nat.add] in Hk. apply nth_error_None in Hk. rewrite Hk. reflexivity.
Qed.

(* ------------------------------------------------------------------------------------------------ *)
(* 7. the current code does not conserve the stream for overlapping regions, for an alignment spanning
      two disjoint regions, or for regions given out of order; the repaired code does on the same inputs *)
Definition wcfg : config := mkCfg 2%nat true 50000 false.
Definition wal (i s e : Z) : aln := mkAln i i s e false false false None no_tags.

(* two overlapping regions, one alignment inside the overlap *)
Definition w1_chroms : list chrom := [mkChrom [] [wal 1 100 140]].
Definition w1_l : list (Z * region) := [(0, (0, Some 150)); (0, (99, Some 300))].
(* two disjoint sorted regions, one alignment reaching from the first into the second *)
Definition w2_chroms : list chrom := [mkChrom [] [wal 1 111 281]].
Definition w2_l : list (Z * region) := [(0, (0, Some 120)); (0, (129, Some 400))].
(* two disjoint regions in descending order, one alignment in each *)
Definition w3_chroms : list chrom := [mkChrom [] [wal 1 10 50; wal 2 210 250]].
Definition w3_l : list (Z * region) := [(0, (200, Some 300)); (0, (0, Some 100))].

Definition disjoint_sorted (regs : list region) : Prop :=
  StronglySorted (fun r1 r2 => match snd r1 with Some e => e <= fst r2 | None => False end) regs.

Theorem stream_overlapping_refuted :
  exists cfg chroms l tail out,
    run_current cfg chroms (Some l) tail = Some out /\
    map fst out <> expected_ids chroms (Some l) tail /\
    (* class: both regions on chromosome 0, the second starts inside the first, the only alignment
       lies inside the overlap and is written twice *)
    l = [(0, (0, Some 150)); (0, (99, Some 300))] /\
    map c_alns chroms = [[wal 1 100 140]] /\ tail = [] /\
    map fst out = [1; 1] /\ expected_ids chroms (Some l) tail = [1].
Proof.
  exists wcfg, w1_chroms, w1_l, [], [(1, no_tags); (1, no_tags)].
  split; [vm_compute; reflexivity|].
  split; [intro H; vm_compute in H; discriminate H|].
  repeat split; reflexivity.
Qed.

Theorem stream_spanning_refuted :
  exists cfg chroms l tail out,
    run_current cfg chroms (Some l) tail = Some out /\
    map fst out <> expected_ids chroms (Some l) tail /\
    (* class: the regions are sorted and disjoint (not even adjacent); one alignment overlaps both *)
    disjoint_sorted (map snd l) /\
    l = [(0, (0, Some 120)); (0, (129, Some 400))] /\
    map c_alns chroms = [[wal 1 111 281]] /\ tail = [] /\
    map fst out = [1; 1] /\ expected_ids chroms (Some l) tail = [1].
Proof.
  exists wcfg, w2_chroms, w2_l, [], [(1, no_tags); (1, no_tags)].
  split; [vm_compute; reflexivity|].
  split; [intro H; vm_compute in H; discriminate H|].
  split.
  { unfold disjoint_sorted, w2_l. cbn [map snd].
    apply SSorted_cons; [apply SSorted_cons; [apply SSorted_nil|apply Forall_nil]|].
    apply Forall_cons; [cbn [fst snd]; lia|apply Forall_nil]. }
  repeat split; reflexivity.
Qed.

Theorem stream_unsorted_refuted :
  exists cfg chroms l tail out,
    run_current cfg chroms (Some l) tail = Some out /\
    map fst out <> expected_ids chroms (Some l) tail /\
    (* class: the regions are disjoint but given in descending order; no alignment is lost or
       duplicated, the output order differs from the input order *)
    disjoint_sorted (rev (map snd l)) /\
    l = [(0, (200, Some 300)); (0, (0, Some 100))] /\
    map c_alns chroms = [[wal 1 10 50; wal 2 210 250]] /\ tail = [] /\
    Permutation (map fst out) (expected_ids chroms (Some l) tail) /\
    map fst out = [2; 1] /\ expected_ids chroms (Some l) tail = [1; 2].
Proof.
  exists wcfg, w3_chroms, w3_l, [], [(2, no_tags); (1, no_tags)].
  split; [vm_compute; reflexivity|].
  split; [intro H; vm_compute in H; discriminate H|].
  split.
  { unfold disjoint_sorted, w3_l. cbn [map snd rev app].
    apply SSorted_cons; [apply SSorted_cons; [apply SSorted_nil|apply Forall_nil]|].
    apply Forall_cons; [cbn [fst snd]; lia|apply Forall_nil]. }
  split; [reflexivity|]. split; [reflexivity|]. split; [reflexivity|].
  split; [vm_compute; apply perm_swap|].
  split; reflexivity.
Qed.

(* the repaired code on the same three inputs *)
Example stream_overlapping_fixed :
  option_map (map fst) (run_fixed wcfg w1_chroms (Some w1_l) []) = Some (expected_ids w1_chroms (Some w1_l) []).
Proof. vm_compute. reflexivity. Qed.
Example stream_spanning_fixed :
  option_map (map fst) (run_fixed wcfg w2_chroms (Some w2_l) []) = Some (expected_ids w2_chroms (Some w2_l) []).
Proof. vm_compute. reflexivity. Qed.
Example stream_unsorted_fixed :
  option_map (map fst) (run_fixed wcfg w3_chroms (Some w3_l) []) = Some (expected_ids w3_chroms (Some w3_l) []).
Proof. vm_compute. reflexivity. Qed.

(* ------------------------------------------------------------------------------------------------ *)
(* the hypotheses of the implication-shaped theorems are satisfiable by non-trivial inputs *)
Ltac solve_ssorted :=
  repeat first [apply SSorted_nil | apply Forall_nil | apply SSorted_cons | apply Forall_cons].
Ltac solve_in H :=
  cbn [In] in H; repeat (destruct H as [H|H]; [subst|]); try contradiction.

Definition ex_alns : list aln :=
  [wal 1 0 5; wal 2 3 12; wal 3 3 4; wal 4 9 10; wal 5 10 11; wal 6 10 25; wal 7 19 21; wal 8 20 30;
   wal 9 35 36; wal 10 40 50].
(* unsorted, nested, duplicated, adjacent and open-ended regions *)
Definition ex_regs : list region := [(20, Some 22); (4, Some 6); (36, None); (21, Some 23); (6, Some 7); (4, Some 6)].

Example ex_alns_ok : alns_ok ex_alns.
Proof. intros a Ha. unfold ex_alns in Ha. solve_in Ha; cbn [wal a_start a_end]; lia. Qed.
Example ex_sorted_start : sorted_start ex_alns.
Proof. unfold sorted_start, ex_alns. solve_ssorted; cbn [wal a_start]; lia. Qed.
Example ex_regs_valid : regs_valid ex_regs.
Proof. intros r Hr. unfold ex_regs in Hr. solve_in Hr; split; cbn [fst snd]; try exact I; lia. Qed.
Example ex_written_fixed :
  map a_id (written_fixed ex_alns (norm_regs ex_regs)) = [1; 2; 6; 7; 8; 10]
  /\ norm_regs ex_regs = [(4, Some 7); (20, Some 23); (36, None)].
Proof. vm_compute. split; reflexivity. Qed.

(* a benign input for the current code: two chromosomes, regions in BAM order, sorted, disjoint, no
   alignment overlapping two regions *)
Definition ex_chroms : list chrom := [mkChrom [] ex_alns; mkChrom [] [wal 11 1 9; wal 12 7 8]].
Definition ex_l : list (Z * region) := [(0, (4, Some 10)); (1, (5, Some 8)); (0, (35, None)); (5, (0, None))].

Example ex_benign : forall k c, nth_error ex_chroms k = Some c -> benign (c_alns c) (regs_of (Z.of_nat k) ex_l).
Proof.
  intros k c Hn. destruct k as [|[|k]].
  - injection Hn as Hn. subst c. unfold benign. vm_compute regs_of. solve_ssorted.
    split; [cbn [fst snd]; lia|]. intros a Ha Ho. cbn [c_alns ex_alns] in Ha. unfold ex_alns in Ha.
    solve_in Ha; first [discriminate Ho | reflexivity].
  - injection Hn as Hn. subst c. unfold benign. vm_compute regs_of. solve_ssorted.
  - cbn [nth_error ex_chroms] in Hn. destruct k; discriminate Hn.
Qed.
Example ex_current_benign :
  StronglySorted Z.lt (map fst (group_regions ex_l))
  /\ option_map (map fst) (run_current wcfg ex_chroms (Some ex_l) []) = Some (expected_ids ex_chroms (Some ex_l) [])
  /\ expected_ids ex_chroms (Some ex_l) [] = [1; 2; 4; 9; 10; 11; 12].
Proof.
  split; [|split; vm_compute; reflexivity].
  assert (E : map fst (group_regions ex_l) = [0; 1; 5]) by (vm_compute; reflexivity).
  rewrite E. solve_ssorted; lia.
Qed.

Print Assumptions conserved_spec_iff.
Print Assumptions stream_none_current.
Print Assumptions stream_none_fixed.
Print Assumptions written_fixed_spec.
Print Assumptions stream_fixed.
Print Assumptions written_current_benign.
Print Assumptions stream_current_benign.
Print Assumptions stream_overlapping_refuted.
Print Assumptions stream_spanning_refuted.
Print Assumptions stream_unsorted_refuted.
