(* Completeness of _iterate_cigar and the composition with realign_correct: with a reference, the carried allele of
   a fully covered, well separated variant is reported by detect_alleles_by_alignment. *)
From Coq Require Import List Arith Bool ZArith Lia.
From WH.Model Require Import EditDist AlleleDetect.
From WH.Proofs Require Import AlleleDetectProofs AlleleDetectNoref.
Import ListNotations.

(* no insertion unit in the part of A behind its last reference-consuming unit *)
Definition reach_ok (A : list cop) : Prop :=
  forall A1 A2, A = A1 ++ OpI :: A2 -> ref_units A2 <> 0.

Lemma reach_ok_app X A : reach_ok (X ++ A) -> reach_ok A.
Proof. intros H A1 A2 ->. apply (H (X ++ A1) A2). now rewrite <- app_assoc. Qed.

Lemma sorted_strict_weak vs : sorted_strict vs -> sorted_pos vs.
Proof.
induction vs as [|x r IH]; [auto|]. intros [Hall Hs]. split; [|auto].
eapply Forall_impl; [|exact Hall]. cbn. intros; lia.
Qed.

Lemma span_lt_in vs lim : sorted_pos vs -> forall x a b, span_lt vs lim = (a, b) -> In x vs ->
  (vpos (snd x) < lim -> In x a) /\ (lim <= vpos (snd x) -> In x b).
Proof.
induction vs as [|y r IH]; intros Hs x a b H Hin; [contradiction|].
cbn [span_lt] in H. destruct Hs as [Hall Hs]. destruct (vpos (snd y) <? lim) eqn:E.
- destruct (span_lt r lim) as [a' b'] eqn:Es. injection H as <- <-. apply Nat.ltb_lt in E.
  destruct Hin as [<-|Hin].
  + split; [intros _; now left|lia].
  + destruct (IH Hs x a' b' eq_refl Hin) as [H1 H2]. split; [intros H; right; auto|auto].
- injection H as <- <-. apply Nat.ltb_ge in E. split.
  + intros Hlt. destruct Hin as [<-|Hin]; [lia|]. rewrite Forall_forall in Hall. specialize (Hall _ Hin). lia.
  + intros _. exact Hin.
Qed.

Lemma sorted_strict_suffix a b : sorted_strict (a ++ b) -> sorted_strict b.
Proof. induction a as [|x a IH]; [auto|]. cbn [app sorted_strict]. intros [_ H]. auto. Qed.

Lemma iter_cigar_complete (j : nat) (v : variant) : forall cig i vs rp qp A o B,
  positive_lengths cig ->
  sorted_strict vs -> Forall (fun jv : ivar => rp <= vpos (snd jv)) vs -> In (j, v) vs ->
  expand cig = A ++ o :: B -> is_aligned o = true -> reach_ok A -> vpos v = rp + ref_units A ->
  exists i' consumed op len,
    In (j, i + i', consumed, qp + query_units A) (iter_cigar cig i vs rp qp) /\
    nth_error cig i' = Some (op, len) /\ consumed <= len /\
    unit_index cig i' consumed = length A.
Proof.
induction cig as [|[op len] cig IH]; intros i vs rp qp A o B Hpos Hs Hlow Hin He Ho Hreach Hp.
- destruct A; discriminate.
- change (expand ((op, len) :: cig)) with (repeat op len ++ expand cig) in He.
  inversion Hpos as [|? ? Hlen Hpos']; subst. cbn [snd] in Hlen.
  pose proof (sorted_strict_weak vs Hs) as Hw.
  destruct (repeat_app_split op len _ _ _ _ He) as [(Hl & HA & ->)|(A' & -> & HX)].
  + (* the unit lies inside this operation *)
    exists 0, (length A), op, len. rewrite Nat.add_0_r.
    assert (Hidx : unit_index ((op, len) :: cig) 0 (length A) = length A) by reflexivity.
    rewrite HA in Hp |- *. rewrite ref_units_repeat in Hp. rewrite query_units_repeat, repeat_length.
    split; [|split; [reflexivity|split; [lia|exact Hidx]]].
    cbn [iter_cigar]. destruct op; try discriminate; cbn [ref_unit query_unit] in *.
    * (* M *) destruct (span_lt vs (rp + len)) as [a rest] eqn:Esp.
      destruct (span_lt_in vs _ Hw _ _ _ Esp Hin) as [Hina _]. cbn [snd] in Hina.
      apply in_or_app. left. apply in_map_iff. exists (j, v). cbn [fst snd]. split; [|apply Hina; lia].
      f_equal; [f_equal; lia|lia].
    * (* I *) destruct (length A) as [|n] eqn:EA.
      -- destruct vs as [|[j' v'] rest]; [contradiction|].
         assert (Hhead : (j', v') = (j, v)).
         { destruct Hin as [H|H]; [exact H|]. destruct Hs as [Hall _]. rewrite Forall_forall in Hall. specialize (Hall _ H).
           inversion Hlow; subst. cbn [snd] in *. lia. }
         injection Hhead as -> ->. cbn [snd fst].
         assert (E : (vpos v =? rp) = true) by (apply Nat.eqb_eq; lia). rewrite E. left. f_equal. lia.
      -- exfalso. apply (Hreach [] (repeat OpI n)); [rewrite HA; reflexivity|].
         rewrite ref_units_repeat. reflexivity.
    * (* D *) destruct (span_lt vs (rp + len)) as [a rest] eqn:Esp.
      destruct (span_lt_in vs _ Hw _ _ _ Esp Hin) as [Hina _]. cbn [snd] in Hina.
      apply in_or_app. left. apply in_map_iff. exists (j, v). cbn [fst snd]. split; [|apply Hina; lia].
      f_equal; [f_equal; lia|lia].
    * (* = *) destruct (span_lt vs (rp + len)) as [a rest] eqn:Esp.
      destruct (span_lt_in vs _ Hw _ _ _ Esp Hin) as [Hina _]. cbn [snd] in Hina.
      apply in_or_app. left. apply in_map_iff. exists (j, v). cbn [fst snd]. split; [|apply Hina; lia].
      f_equal; [f_equal; lia|lia].
    * (* X *) destruct (span_lt vs (rp + len)) as [a rest] eqn:Esp.
      destruct (span_lt_in vs _ Hw _ _ _ Esp Hin) as [Hina _]. cbn [snd] in Hina.
      apply in_or_app. left. apply in_map_iff. exists (j, v). cbn [fst snd]. split; [|apply Hina; lia].
      f_equal; [f_equal; lia|lia].
  + (* the unit lies in a later operation *)
    rewrite ref_units_app, ref_units_repeat in Hp. rewrite query_units_app, query_units_repeat.
    apply reach_ok_app in Hreach as Hreach'.
    assert (Hgo : forall vs' rp' qp',
              rp' = rp + ref_unit op * len -> qp' = qp + query_unit op * len ->
              sorted_strict vs' -> Forall (fun jv : ivar => rp' <= vpos (snd jv)) vs' -> In (j, v) vs' ->
              forall front, (forall y, In y (iter_cigar cig (S i) vs' rp' qp') ->
                                       In y (front ++ iter_cigar cig (S i) vs' rp' qp')) ->
              exists i' consumed op0 len0,
                In (j, i + i', consumed, qp + (query_unit op * len + query_units A'))
                   (front ++ iter_cigar cig (S i) vs' rp' qp') /\
                nth_error ((op, len) :: cig) i' = Some (op0, len0) /\ consumed <= len0 /\
                unit_index ((op, len) :: cig) i' consumed = length (repeat op len ++ A')).
    { intros vs' rp' qp' -> -> Hs' Hlow' Hin' front Hfront.
      destruct (IH (S i) vs' (rp + ref_unit op * len) (qp + query_unit op * len) A' o B Hpos' Hs' Hlow' Hin' HX Ho Hreach') as (i' & c & op0 & len0 & Hy & Hn & Hc & Hu); [lia|].
      exists (S i'), c, op0, len0. split; [|split; [exact Hn|split; [exact Hc|]]].
      - apply Hfront. replace (i + S i') with (S i + i') by lia.
        replace (qp + (query_unit op * len + query_units A')) with (qp + query_unit op * len + query_units A') by lia. exact Hy.
      - unfold unit_index in *. cbn [firstn]. change (expand ((op, len) :: firstn i' cig)) with (repeat op len ++ expand (firstn i' cig)).
        rewrite !app_length, repeat_length in *. lia. }
    cbn [iter_cigar].
    destruct op; cbn [ref_unit query_unit] in *.
    * (* M *) destruct (span_lt vs (rp + len)) as [a rest] eqn:Esp.
      destruct (span_lt_in vs _ Hw _ _ _ Esp Hin) as [_ Hinb]. cbn [snd] in Hinb.
      destruct (span_lt_spec _ _ _ _ Esp) as (Hvs & _ & Hb). destruct (Hb Hw) as [Hrest _].
      apply Hgo; try lia.
      -- rewrite Hvs in Hs. eapply sorted_strict_suffix; eauto.
      -- eapply Forall_impl; [|exact Hrest]. cbn. intros; lia.
      -- apply Hinb. lia.
      -- intros y Hy. apply in_or_app. now right.
    * (* I *)
      assert (Hgt : rp < vpos v).
      { destruct (Nat.eq_dec (vpos v) rp) as [E|E]; [|rewrite Forall_forall in Hlow; specialize (Hlow _ Hin); cbn [snd] in Hlow; lia].
        exfalso. destruct len as [|n]; [lia|]. apply (Hreach [] (repeat OpI n ++ A')); [reflexivity|].
        rewrite ref_units_app, ref_units_repeat. cbn [ref_unit]. lia. }
      destruct vs as [|[j' v'] rest]; [contradiction|]. cbn [snd fst].
      destruct (vpos v' =? rp) eqn:E.
      -- apply Nat.eqb_eq in E.
         assert (Hin' : In (j, v) rest). { destruct Hin as [H|H]; [injection H as -> ->; lia|exact H]. }
         apply (Hgo rest rp (qp + len)) with (front := [(j', i, 0, qp)]); try lia.
         ++ now destruct Hs.
         ++ now inversion Hlow.
         ++ exact Hin'.
         ++ intros y Hy. now right.
      -- apply (Hgo ((j', v') :: rest) rp (qp + len)) with (front := []); auto; lia.
    * (* D *) destruct (span_lt vs (rp + len)) as [a rest] eqn:Esp.
      destruct (span_lt_in vs _ Hw _ _ _ Esp Hin) as [_ Hinb]. cbn [snd] in Hinb.
      destruct (span_lt_spec _ _ _ _ Esp) as (Hvs & _ & Hb). destruct (Hb Hw) as [Hrest _].
      apply Hgo; try lia.
      -- rewrite Hvs in Hs. eapply sorted_strict_suffix; eauto.
      -- eapply Forall_impl; [|exact Hrest]. cbn. intros; lia.
      -- apply Hinb. lia.
      -- intros y Hy. apply in_or_app. now right.
    * (* N *) unfold skip_lt. destruct (span_lt vs (rp + len)) as [a rest] eqn:Esp. cbn [snd].
      destruct (span_lt_in vs _ Hw _ _ _ Esp Hin) as [_ Hinb]. cbn [snd] in Hinb.
      destruct (span_lt_spec _ _ _ _ Esp) as (Hvs & _ & Hb). destruct (Hb Hw) as [Hrest _].
      apply (Hgo rest (rp + len) qp) with (front := []);
        [lia|lia|rewrite Hvs in Hs; eapply sorted_strict_suffix; eauto
        |eapply Forall_impl; [|exact Hrest]; cbn; intros; lia|apply Hinb; lia|auto].
    * (* S *) apply (Hgo vs rp (qp + len)) with (front := []); auto; lia.
    * (* H *) apply (Hgo vs rp qp) with (front := []); auto; lia.
    * (* P *) apply (Hgo vs rp qp) with (front := []); auto; lia.
    * (* = *) destruct (span_lt vs (rp + len)) as [a rest] eqn:Esp.
      destruct (span_lt_in vs _ Hw _ _ _ Esp Hin) as [_ Hinb]. cbn [snd] in Hinb.
      destruct (span_lt_spec _ _ _ _ Esp) as (Hvs & _ & Hb). destruct (Hb Hw) as [Hrest _].
      apply Hgo; try lia.
      -- rewrite Hvs in Hs. eapply sorted_strict_suffix; eauto.
      -- eapply Forall_impl; [|exact Hrest]. cbn. intros; lia.
      -- apply Hinb. lia.
      -- intros y Hy. apply in_or_app. now right.
    * (* X *) destruct (span_lt vs (rp + len)) as [a rest] eqn:Esp.
      destruct (span_lt_in vs _ Hw _ _ _ Esp Hin) as [_ Hinb]. cbn [snd] in Hinb.
      destruct (span_lt_spec _ _ _ _ Esp) as (Hvs & _ & Hb). destruct (Hb Hw) as [Hrest _].
      apply Hgo; try lia.
      -- rewrite Hvs in Hs. eapply sorted_strict_suffix; eauto.
      -- eapply Forall_impl; [|exact Hrest]. cbn. intros; lia.
      -- apply Hinb. lia.
      -- intros y Hy. apply in_or_app. now right.
Qed.

(* --- the flank hypotheses of realign_correct imply that the variant is reached at a match operation *)
Lemma ref_units_in_N l : In OpN l -> 0 < ref_units l.
Proof.
induction l as [|o l IH]; [contradiction|]. intros [->|H]; cbn [ref_units fold_right ref_unit]; [lia|].
fold (ref_units l). specialize (IH H). lia.
Qed.

Lemma forallb_in {A} (f : A -> bool) l x : forallb f l = true -> In x l -> f x = true.
Proof. rewrite forallb_forall. auto. Qed.

Lemma reach_ok_flank R pre LM : forallb is_match LM = true -> (LM <> [] \/ window_end R (rev pre)) -> reach_ok (pre ++ LM).
Proof.
intros HLM Hc A1 A2 HA.
apply app_eq_app in HA as [l [[Hpre Hl]|[HA1 Hl]]].
- destruct l as [|x l'].
  + cbn [app] in Hl. assert (Hm : is_match OpI = true) by (apply (forallb_in _ LM); [exact HLM|rewrite <- Hl; now left]). discriminate.
  + cbn [app] in Hl. injection Hl as <- ->. rewrite ref_units_app.
    destruct (units_match LM HLM) as [HLr _]. rewrite HLr.
    destruct Hc as [Hne|Hw]; [destruct LM; [contradiction|cbn [length]; lia]|].
    rewrite Hpre in Hw. rewrite rev_app_distr in Hw. cbn [rev] in Hw. rewrite <- app_assoc in Hw. cbn [app] in Hw.
    destruct Hw as [Hclip|(_ & c1 & c2 & Heq & Hclip)].
    * rewrite forallb_app in Hclip. apply andb_prop in Hclip as [_ Hclip]. cbn in Hclip. discriminate.
    * apply app_eq_app in Heq as [l [[H1 H2]|[H1 H2]]].
      -- destruct l as [|y l2]; [cbn in H2; discriminate|]. cbn [app] in H2. injection H2 as <- _.
         assert (HN : In OpN l') by (apply in_rev; rewrite H1; apply in_or_app; right; now left).
         pose proof (ref_units_in_N l' HN). lia.
      -- destruct l as [|y l2]; [cbn in H2; discriminate|]. cbn [app] in H2. injection H2 as <- _.
         assert (Hm : is_clip OpI = true) by (apply (forallb_in _ c1); [exact Hclip|rewrite H1; apply in_or_app; right; now left]).
         discriminate.
- assert (Hm : is_match OpI = true) by (apply (forallb_in _ LM); [exact HLM|rewrite Hl; apply in_or_app; right; now left]).
  discriminate.
Qed.

Lemma index_from_in {A} (l : list A) : forall k n x, nth_error l n = Some x -> In (k + n, x) (index_from k l).
Proof.
induction l as [|y l IH]; intros k [|n] x H; try discriminate.
- cbn in H. injection H as ->. rewrite Nat.add_0_r. now left.
- cbn [nth_error] in H. cbn [index_from]. right. replace (k + S n) with (S k + n) by lia. now apply IH.
Qed.

Lemma realign_all_in R reference overhang variants cig query : forall ys ds j i c qp v a,
  realign_all R reference overhang variants cig query ys = Some ds -> In (j, i, c, qp) ys ->
  nth_error variants j = Some v -> realign R reference overhang v cig query i c qp = Some (Some a) ->
  In (j, a, 30) ds.
Proof.
induction ys as [|[[[j' i'] c'] qp'] ys IH]; intros ds j i c qp v a H Hin Hn Hr; [contradiction|].
cbn [realign_all] in H.
destruct (nth_error variants j') as [v'|] eqn:En'; [|discriminate].
destruct (realign R reference overhang v' cig query i' c' qp') as [r|] eqn:Er'; [|discriminate].
destruct (realign_all R reference overhang variants cig query ys) as [rest|] eqn:Erest; [|discriminate].
injection H as <-. destruct Hin as [Heq|Hin].
- injection Heq as -> -> -> ->. rewrite Hn in En'. injection En' as <-. rewrite Hr in Er'. injection Er' as <-. now left.
- specialize (IH rest j i c qp v a eq_refl Hin Hn Hr). destruct r; [now right|exact IH].
Qed.

(* With a reference: the carried allele of a covered, well separated variant is reported by the alignment *)
Theorem detect_by_alignment_finds :
  forall (R : rules) (reference query : list Z) (overhang : nat) (variants : list variant) (start : nat) (cig : cigar)
         (j : nat) (v : variant) (pre LM V RM post : list cop) (r1 WL WR r2 q1 q2 : list Z) (carried : nat)
         (ds : list det),
  0 < overhang -> positive_lengths cig ->
  sorted_strict (index_from 0 variants) -> nth_error variants j = Some v ->
  expand cig = pre ++ LM ++ V ++ RM ++ post ->
  vpos v = start + ref_units (pre ++ LM) ->
  forallb is_match LM = true -> forallb is_match RM = true -> forallb is_aligned V = true ->
  carried <= 1 ->
  0 < length (vref v) -> ref_units V = length (vref v) -> query_units V = length (get_allele v carried) ->
  (overhang <= length LM \/ window_end R (rev pre)) ->
  (overhang <= length RM \/ window_end R post) ->
  reference = r1 ++ WL ++ vref v ++ WR ++ r2 -> vpos v = length r1 + length WL ->
  query = q1 ++ WL ++ get_allele v carried ++ WR ++ q2 ->
  length WL = length LM -> length WR = length RM -> length q1 = query_units pre ->
  vref v <> valt v -> is_symbolic v = false ->
  detect_by_alignment R reference overhang variants start cig query = Some ds ->
  In (j, carried, 30) ds.
Proof.
intros R reference query overhang variants start cig j v pre LM V RM post r1 WL WR r2 q1 q2 carried ds
       Hov Hpos Hs Hn He Hp HLM HRM HV Hc Hrl HVr HVq Hle Hre Href Hvp Hq HWL HWR Hq1 Hd Hsym Hdet.
destruct V as [|o V']; [cbn in HVr; lia|].
cbn [forallb] in HV. apply andb_prop in HV as [Ho HV'].
assert (He' : expand cig = (pre ++ LM) ++ o :: (V' ++ RM ++ post)) by (rewrite He, <- app_assoc; reflexivity).
assert (Hreach : reach_ok (pre ++ LM)).
{ apply (reach_ok_flank R); [exact HLM|]. destruct Hle as [H|H]; [left; destruct LM; [cbn in H; lia|discriminate]|now right]. }
assert (Hne : cig <> []).
{ intros ->. cbn in He'. destruct (pre ++ LM); discriminate. }
assert (Hdet' : realign_all R reference overhang variants cig query (iterate_cigar (index_from 0 variants) start cig) = Some ds).
{ unfold detect_by_alignment in Hdet. destruct cig; [contradiction|exact Hdet]. }
clear Hdet. rename Hdet' into Hdet.
unfold iterate_cigar, skip_lt in Hdet.
pose proof (sorted_strict_weak _ Hs) as Hw.
destruct (span_lt (index_from 0 variants) start) as [a rest] eqn:Esp. cbn [snd] in Hdet.
assert (Hinv : In (j, v) (index_from 0 variants)) by (apply (index_from_in variants 0 j v Hn)).
destruct (span_lt_in _ _ Hw _ _ _ Esp Hinv) as [_ Hinr]. cbn [snd] in Hinr.
destruct (span_lt_spec _ _ _ _ Esp) as (Hvs & _ & Hb). destruct (Hb Hw) as [Hrest _].
assert (Hsr : sorted_strict rest) by (rewrite Hvs in Hs; eapply sorted_strict_suffix; eauto).
destruct (iter_cigar_complete j v cig 0 rest start 0 (pre ++ LM) o (V' ++ RM ++ post) Hpos Hsr Hrest)
  as (i' & c & op & len & Hy & Hnth & Hcl & Hu); auto; [apply Hinr; lia|].
cbn [Nat.add] in Hy.
eapply realign_all_in; eauto.
eapply realign_correct with (pre := pre) (LM := LM) (V := o :: V') (RM := RM) (post := post); eauto.
- rewrite Hu, He'. apply firstn_middle.
- rewrite Hu, He'. rewrite skipn_app, Nat.sub_diag, skipn_all. reflexivity.
- cbn [forallb]. now rewrite Ho, HV'.
Qed.
