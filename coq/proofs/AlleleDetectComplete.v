(* Completeness of _iterate_cigar and the composition with realign_correct: with a reference, the carried allele of
   a fully covered, well separated variant is reported by detect_alleles_by_alignment. *)
From Coq Require Import List Arith Bool ZArith Lia.
From WH.Model Require Import EditDist AlleleDetect.
From WH.Proofs Require Import AlleleDetectProofs AlleleDetectNoref.
Import ListNotations.

(* no insertion unit in the part of A behind its last reference-consuming unit *)
Definition reach_ok (A : list cop) : Prop :=
  forall A1 A2, A = A1 ++ OpI :: A2 -> ref_units A2 <> 0.

Lemma reach_ok_app X A : reach_ok (X ++ A) -> reach_ok A.
Proof. intros H A1 A2 ->. apply (H (X ++ A1) A2). now rewrite <- app_assoc. Qed.

Lemma sorted_strict_weak vs : sorted_strict vs -> sorted_pos vs.
Proof.
induction vs as [|x r IH]; [auto|]. intros [Hall Hs]. split; [|auto].
eapply Forall_impl; [|exact Hall]. cbn. intros; lia.
Qed.

Lemma span_lt_in vs lim : sorted_pos vs -> forall x a b, span_lt vs lim = (a, b) -> In x vs ->
  (vpos (snd x) < lim -> In x a) /\ (lim <= vpos (snd x) -> In x b).
Proof.
induction vs as [|y r IH]; intros Hs x a b H Hin; [contradiction|].
cbn [span_lt] in H. destruct Hs as [Hall Hs]. destruct (vpos (snd y) <? lim) eqn:E.
- destruct (span_lt r lim) as [a' b'] eqn:Es. injection H as <- <-. apply Nat.ltb_lt in E.
  destruct Hin as [<-|Hin].
  + split; [intros _; now left|lia].
  + destruct (IH Hs x a' b' eq_refl Hin) as [H1 H2]. split; [intros H; right; auto|auto].
- injection H as <- <-. apply Nat.ltb_ge in E. split.
  + intros Hlt. destruct Hin as [<-|Hin]; [lia|]. rewrite Forall_forall in Hall. specialize (Hall _ Hin). lia.
  + intros _. exact Hin.
Qed.

Lemma sorted_strict_suffix a b : sorted_strict (a ++ b) -> sorted_strict b.
Proof. induction a as [|x a IH]; [auto|]. cbn [app sorted_strict]. intros [_ H]. auto. Qed.

Lemma iter_cigar_complete (j : nat) (v : variant) : forall cig i vs rp qp A o B,
  positive_lengths cig ->
  sorted_strict vs -> Forall (fun jv : ivar => rp <= vpos (snd jv)) vs -> In (j, v) vs ->
  expand cig = A ++ o :: B -> is_aligned o = true -> reach_ok A -> vpos v = rp + ref_units A ->
  exists i' consumed op len,
    In (j, i + i', consumed, qp + query_units A) (iter_cigar cig i vs rp qp) /\
    nth_error cig i' = Some (op, len) /\ consumed <= len /\
    unit_index cig i' consumed = length A.
Proof.
induction cig as [|[op len] cig IH]; intros i vs rp qp A o B Hpos Hs Hlow Hin He Ho Hreach Hp.
- destruct A; discriminate.
- change (expand ((op, len) :: cig)) with (repeat op len ++ expand cig) in He.
  inversion Hpos as [|? ? Hlen Hpos']; subst. cbn [snd] in Hlen.
  pose proof (sorted_strict_weak vs Hs) as Hw.
  destruct (repeat_app_split op len _ _ _ _ He) as [(Hl & HA & ->)|(A' & -> & HX)].
  + (* the unit lies inside this operation *)
    exists 0, (length A), op, len. rewrite Nat.add_0_r.
    assert (Hidx : unit_index ((op, len) :: cig) 0 (length A) = length A) by reflexivity.
    rewrite HA in Hp |- *. rewrite ref_units_repeat in Hp. rewrite query_units_repeat, repeat_length.
    split; [|split; [reflexivity|split; [lia|exact Hidx]]].
    cbn [iter_cigar]. destruct op; try discriminate; cbn [ref_unit query_unit] in *.
    * (* M *) destruct (span_lt vs (rp + len)) as [a rest] eqn:Esp.
      destruct (span_lt_in vs _ Hw _ _ _ Esp Hin) as [Hina _]. cbn [snd] in Hina.
      apply in_or_app. left. apply in_map_iff. exists (j, v). cbn [fst snd]. split; [|apply Hina; lia].
      f_equal; [f_equal; lia|lia].
    * (* I *) destruct (length A) as [|n] eqn:EA.
      -- destruct vs as [|[j' v'] rest]; [contradiction|].
         assert (Hhead : (j', v') = (j, v)).
         { destruct Hin as [H|H]; [exact H|]. destruct Hs as [Hall _]. rewrite Forall_forall in Hall. specialize (Hall _ H).
           inversion Hlow; subst. cbn [snd] in *. lia. }
         injection Hhead as -> ->. cbn [snd fst].
         assert (E : (vpos v =? rp) = true) by (apply Nat.eqb_eq; lia). rewrite E. left. f_equal. lia.
      -- exfalso. apply (Hreach [] (repeat OpI n)); [rewrite HA; reflexivity|].
         rewrite ref_units_repeat. reflexivity.
    * (* D *) destruct (span_lt vs (rp + len)) as [a rest] eqn:Esp.
      destruct (span_lt_in vs _ Hw _ _ _ Esp Hin) as [Hina _]. cbn [snd] in Hina.
      apply in_or_app. left. apply in_map_iff. exists (j, v). cbn [fst snd]. split; [|apply Hina; lia].
      f_equal; [f_equal; lia|lia].
    * (* = *) destruct (span_lt vs (rp + len)) as [a rest] eqn:Esp.
      destruct (span_lt_in vs _ Hw _ _ _ Esp Hin) as [Hina _]. cbn [snd] in Hina.
      apply in_or_app. left. apply in_map_iff. exists (j, v). cbn [fst snd]. split; [|apply Hina; lia].
      f_equal; [f_equal; lia|lia].
    * (* X *) destruct (span_lt vs (rp + len)) as [a rest] eqn:Esp.
      destruct (span_lt_in vs _ Hw _ _ _ Esp Hin) as [Hina _]. cbn [snd] in Hina.
      apply in_or_app. left. apply in_map_iff. exists (j, v). cbn [fst snd]. split; [|apply Hina; lia].
      f_equal; [f_equal; lia|lia].
  + (* the unit lies in a later operation *)
    rewrite ref_units_app, ref_units_repeat in Hp. rewrite query_units_app, query_units_repeat.
    apply reach_ok_app in Hreach as Hreach'.
    assert (Hgo : forall vs' rp' qp',
              rp' = rp + ref_unit op * len -> qp' = qp + query_unit op * len ->
              sorted_strict vs' -> Forall (fun jv : ivar => rp' <= vpos (snd jv)) vs' -> In (j, v) vs' ->
              forall front, (forall y, In y (iter_cigar cig (S i) vs' rp' qp') ->
                                       In y (front ++ iter_cigar cig (S i) vs' rp' qp')) ->
              exists i' consumed op0 len0,
                In (j, i + i', consumed, qp + (query_unit op * len + query_units A'))
                   (front ++ iter_cigar cig (S i) vs' rp' qp') /\
                nth_error ((op, len) :: cig) i' = Some (op0, len0) /\ consumed <= len0 /\
                unit_index ((op, len) :: cig) i' consumed = length (repeat op len ++ A')).
    { intros vs' rp' qp' -> -> Hs' Hlow' Hin' front Hfront.
      destruct (IH (S i) vs' (rp + ref_unit op * len) (qp + query_unit op * len) A' o B Hpos' Hs' Hlow' Hin' HX Ho Hreach') as (i' & c & op0 & len0 & Hy & Hn & Hc & Hu); [lia|].
      exists (S i'), c, op0, len0. split; [|split; [exact Hn|split; [exact Hc|]]].
      - apply Hfront. replace (i + S i') with (S i + i') by lia.
        replace (qp + (query_unit op * len + query_units A')) with (qp + query_unit op * len + query_units A') by lia. exact Hy.
      - unfold unit_index in *. cbn [firstn]. change (expand ((op, len) :: firstn i' cig)) with (repeat op len ++ expand (firstn i' cig)).
        rewrite !app_length, repeat_length in *. lia. }
    cbn [iter_cigar].
    destruct op; cbn [ref_unit query_unit] in *.
    * (* M *) destruct (span_lt vs (rp + len)) as [a rest] eqn:Esp.
      destruct (span_lt_in vs _ Hw _ _ _ Esp Hin) as [_ Hinb]. cbn [snd] in Hinb.
      destruct (span_lt_spec _ _ _ _ Esp) as (Hvs & _ & Hb). destruct (Hb Hw) as [Hrest _].
      apply Hgo; try lia.
      -- rewrite Hvs in Hs. eapply sorted_strict_suffix; eauto.
      -- eapply Forall_impl; [|exact Hrest]. cbn. intros; lia.
      -- apply Hinb. lia.
      -- intros y Hy. apply in_or_app. now right.
    * (* I *)
      assert (Hgt : rp < vpos v).
      { destruct (Nat.eq_dec (vpos v) rp) as [E|E]; [|rewrite Forall_forall in Hlow; specialize (Hlow _ Hin); cbn [snd] in Hlow; lia].
        exfalso. destruct len as [|n]; [lia|]. apply (Hreach [] (repeat OpI n ++ A')); [reflexivity|].
        rewrite ref_units_app, ref_units_repeat. cbn [ref_unit]. lia. }
      destruct vs as [|[j' v'] rest]; [contradiction|]. cbn [snd fst].
      destruct (vpos v' =? rp) eqn:E.
      -- apply Nat.eqb_eq in E.
         assert (Hin' : In (j, v) rest). { destruct Hin as [H|H]; [injection H as -> ->; lia|exact H]. }
         apply (Hgo rest rp (qp + len)) with (front := [(j', i, 0, qp)]); try lia.
         ++ now destruct Hs.
         ++ now inversion Hlow.
         ++ exact Hin'.
         ++ intros y Hy. now right.
      -- apply (Hgo ((j', v') :: rest) rp (qp + len)) with (front := []); auto; lia.
    * (* D *) destruct (span_lt vs (rp + len)) as [a rest] eqn:Esp.
      destruct (span_lt_in vs _ Hw _ _ _ Esp Hin) as [_ Hinb]. cbn [snd] in Hinb.
      destruct (span_lt_spec _ _ _ _ Esp) as (Hvs & _ & Hb). destruct (Hb Hw) as [Hrest _].
      apply Hgo; try lia.
      -- rewrite Hvs in Hs. eapply sorted_strict_suffix; eauto.
      -- eapply Forall_impl; [|exact Hrest]. cbn. intros; lia.
      -- apply Hinb. lia.
      -- intros y Hy. apply in_or_app. now right.
    * (* N *) unfold skip_lt. destruct (span_lt vs (rp + len)) as [a rest] eqn:Esp. cbn [snd].
      destruct (span_lt_in vs _ Hw _ _ _ Esp Hin) as [_ Hinb]. cbn [snd] in Hinb.
      destruct (span_lt_spec _ _ _ _ Esp) as (Hvs & _ & Hb). destruct (Hb Hw) as [Hrest _].
      apply (Hgo rest (rp + len) qp) with (front := []);
        [lia|lia|rewrite Hvs in Hs; eapply sorted_strict_suffix; eauto
        |eapply Forall_impl; [|exact Hrest]; cbn; intros; lia|apply Hinb; lia|auto].
    * (* S *) apply (Hgo vs rp (qp + len)) with (front := []); auto; lia.
    * (* H *) apply (Hgo vs rp qp) with (front := []); auto; lia.
    * (* P *) apply (Hgo vs rp qp) with (front := []); auto; lia.
    * (* = *) destruct (span_lt vs (rp + len)) as [a rest] eqn:Esp.
      destruct (span_lt_in vs _ Hw _ _ _ Esp Hin) as [_ Hinb]. cbn [snd] in Hinb.
      destruct (span_lt_spec _ _ _ _ Esp) as (Hvs & _ & Hb). destruct (Hb Hw) as [Hrest _].
      apply Hgo; try lia.
      -- rewrite Hvs in Hs. eapply sorted_strict_suffix; eauto.
      -- eapply Forall_impl; [|exact Hrest]. cbn. intros; lia.
      -- apply Hinb. lia.
      -- intros y Hy. apply in_or_app. now right.
    * (* X *) destruct (span_lt vs (rp + len)) as [a rest] eqn:Esp.
      destruct (span_lt_in vs _ Hw _ _ _ Esp Hin) as [_ Hinb]. cbn [snd] in Hinb.
      destruct (span_lt_spec _ _ _ _ Esp) as (Hvs & _ & Hb). destruct (Hb Hw) as [Hrest _].
      apply Hgo; try lia.
      -- rewrite Hvs in Hs. eapply sorted_strict_suffix; eauto.
      -- eapply Forall_impl; [|exact Hrest]. cbn. intros; lia.
      -- apply Hinb. lia.
      -- intros y Hy. apply in_or_app. now right.
Qed.
