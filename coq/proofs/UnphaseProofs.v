(* C13 — proofs about the model of `whatshap unphase` (coq/model/Unphase.v). Stdlib style only. *)
From Coq Require Import ZArith List Bool Arith Permutation Lia.
From WH.Model Require Import Unphase.
Import ListNotations.
Open Scope Z_scope.

(* ------------------------------------------------------------------------------------- sorting *)
Lemma insert_perm : forall x l, Permutation (insert x l) (x :: l).
Proof.
  intros x l. induction l as [|y t IH]; cbn [insert].
  - apply Permutation_refl.
  - destruct (x <=? y) eqn:E.
    + apply Permutation_refl.
    + eapply Permutation_trans; [apply perm_skip, IH | apply perm_swap].
Qed.

Lemma isort_perm : forall l, Permutation (isort l) l.
Proof.
  induction l as [|x t IH]; cbn [isort].
  - apply Permutation_refl.
  - eapply Permutation_trans; [apply insert_perm | apply perm_skip, IH].
Qed.

Lemma insert_insert : forall x y l, insert x (insert y l) = insert y (insert x l).
Proof.
  intros x y l. induction l as [|z t IH].
  - cbn [insert]. destruct (x <=? y) eqn:E1; destruct (y <=? x) eqn:E2; cbn [insert]; try rewrite E1; try rewrite E2;
      try reflexivity.
    + apply Z.leb_le in E1. apply Z.leb_le in E2. assert (x = y) by lia. subst. reflexivity.
    + apply Z.leb_gt in E1. apply Z.leb_gt in E2. lia.
  - cbn [insert].
    destruct (y <=? z) eqn:Eyz; destruct (x <=? z) eqn:Exz; cbn [insert].
    + destruct (x <=? y) eqn:Exy; destruct (y <=? x) eqn:Eyx; try rewrite Exz; try rewrite Eyz; try reflexivity.
      * apply Z.leb_le in Exy. apply Z.leb_le in Eyx. assert (x = y) by lia. subst. reflexivity.
      * apply Z.leb_gt in Exy. apply Z.leb_gt in Eyx. lia.
    + destruct (x <=? y) eqn:Exy.
      * apply Z.leb_le in Exy. apply Z.leb_le in Eyz. apply Z.leb_gt in Exz. lia.
      * rewrite Exz. rewrite Eyz. reflexivity.
    + destruct (y <=? x) eqn:Eyx.
      * apply Z.leb_le in Eyx. apply Z.leb_le in Exz. apply Z.leb_gt in Eyz. lia.
      * rewrite Eyz. rewrite Exz. reflexivity.
    + rewrite Eyz. rewrite Exz. rewrite IH. reflexivity.
Qed.

Lemma isort_of_perm : forall l l', Permutation l l' -> isort l = isort l'.
Proof.
  intros l l' H. induction H as [|x l l' H IH|x y l|l l' l'' H1 IH1 H2 IH2]; cbn [isort].
  - reflexivity.
  - rewrite IH. reflexivity.
  - apply insert_insert.
  - rewrite IH1. exact IH2.
Qed.

Lemma isort_idem : forall l, isort (isort l) = isort l.
Proof. intros l. apply isort_of_perm. apply isort_perm. Qed.

Lemma isort_length : forall l, length (isort l) = length l.
Proof. intros l. apply Permutation_length. apply isort_perm. Qed.

Lemma zlist_eqb_eq : forall a b, zlist_eqb a b = true -> a = b.
Proof.
  induction a as [|x a IH]; intros [|y b] H; cbn [zlist_eqb] in H; try discriminate.
  - reflexivity.
  - apply andb_true_iff in H. destruct H as [H1 H2]. apply Z.eqb_eq in H1. subst. f_equal. apply IH. exact H2.
Qed.

(* ---------------------------------------------------------------------------------- all_called *)
Lemma all_called_map_Some : forall zs, all_called (map Some zs) = Some zs.
Proof.
  induction zs as [|z t IH]; cbn [map all_called].
  - reflexivity.
  - rewrite IH. reflexivity.
Qed.

Lemma all_called_Some_eq : forall g zs, all_called g = Some zs -> g = map Some zs.
Proof.
  induction g as [|a t IH]; intros zs H; cbn [all_called] in H.
  - inversion H. reflexivity.
  - destruct a as [a|]; [|discriminate].
    destruct (all_called t) as [zs'|] eqn:E; [|discriminate].
    inversion H. subst. cbn [map]. f_equal. apply IH. reflexivity.
Qed.

Lemma all_called_perm : forall g g' zs, Permutation g g' -> all_called g = Some zs ->
  exists zs', all_called g' = Some zs' /\ Permutation zs zs'.
Proof.
  intros g g' zs HP H. apply all_called_Some_eq in H. subst g.
  apply Permutation_sym in HP. apply Permutation_map_inv in HP. destruct HP as [zs' [E P]].
  exists zs'. subst g'. split; [apply all_called_map_Some | exact P].
Qed.

Lemma all_called_forallb : forall g, (exists zs, all_called g = Some zs) <-> forallb is_some g = true.
Proof.
  induction g as [|a t IH]; cbn [all_called forallb].
  - split; [reflexivity | intros _; exists []; reflexivity].
  - destruct a as [a|]; cbn [is_some].
    + rewrite andb_true_l. rewrite <- IH. destruct (all_called t) as [zs'|].
      * split; intros _; eexists; reflexivity.
      * split; intros [zs H]; discriminate.
    + rewrite andb_false_l. split; [intros [zs H]; discriminate | discriminate].
Qed.

(* ------------------------------------------------------------------------------------- fix_gt *)
Lemma fix_gt_perm : forall g, Permutation g (fix_gt g).
Proof.
  intros g. unfold fix_gt. destruct (all_called g) as [zs|] eqn:E.
  - apply all_called_Some_eq in E. subst g. apply Permutation_map. apply Permutation_sym. apply isort_perm.
  - apply Permutation_refl.
Qed.

Lemma fix_gt_idem : forall g, fix_gt (fix_gt g) = fix_gt g.
Proof.
  intros g. destruct (all_called g) as [zs|] eqn:E.
  - assert (H : fix_gt g = map Some (isort zs)) by (unfold fix_gt; rewrite E; reflexivity).
    rewrite H. unfold fix_gt. rewrite all_called_map_Some. rewrite isort_idem. reflexivity.
  - assert (H : fix_gt g = g) by (unfold fix_gt; rewrite E; reflexivity).
    rewrite H. exact H.
Qed.

Lemma fix_gt_of_rel : forall g g', Permutation g g' -> (all_called g = None -> g' = g) -> fix_gt g' = fix_gt g.
Proof.
  intros g g' HP HN. destruct (all_called g) as [zs|] eqn:E.
  - destruct (all_called_perm g g' zs HP E) as [zs' [E' P]].
    unfold fix_gt. rewrite E, E'. f_equal. apply isort_of_perm. apply Permutation_sym. exact P.
  - rewrite (HN eq_refl). reflexivity.
Qed.

(* -------------------------------------------------------------------------------------- strip *)
Lemma strip_idem : forall fs, strip (strip fs) = strip fs.
Proof.
  intros fs. unfold strip. induction fs as [|kv t IH]; cbn [filter].
  - reflexivity.
  - destruct (negb (is_phase_key (fst kv))) eqn:E; cbn [filter].
    + rewrite E. f_equal. exact IH.
    + exact IH.
Qed.

Lemma strip_clean : forall fs, forallb (fun kv => negb (is_phase_key (fst kv))) (strip fs) = true.
Proof.
  intros fs. apply forallb_forall. intros kv H. unfold strip in H. apply filter_In in H. apply H.
Qed.

Lemma strip_noop : forall fs, forallb (fun kv => negb (is_phase_key (fst kv))) fs = true -> strip fs = fs.
Proof.
  intros fs. unfold strip. induction fs as [|kv t IH]; cbn [forallb filter]; intros H.
  - reflexivity.
  - apply andb_true_iff in H. destruct H as [H1 H2]. rewrite H1. f_equal. apply IH. exact H2.
Qed.

Lemma strip_set_field : forall k v fs, is_phase_key k = true -> strip (set_field k v fs) = strip fs.
Proof.
  intros k v fs Hk. unfold strip. induction fs as [|[k' v'] t IH]; cbn [set_field filter fst].
  - rewrite Hk. reflexivity.
  - destruct (k' =? k) eqn:E; cbn [filter fst].
    + apply Z.eqb_eq in E. subst k'. rewrite Hk. reflexivity.
    + rewrite IH. reflexivity.
Qed.

Lemma strip_set_tags : forall tags fs, strip (set_tags tags fs) = strip fs.
Proof.
  intros tags. unfold set_tags. induction tags as [|kv t IH]; intros fs; cbn [fold_left].
  - reflexivity.
  - rewrite IH. destruct (is_phase_key (fst kv)) eqn:E.
    + apply strip_set_field. exact E.
    + reflexivity.
Qed.

(* --------------------------------------------------------------------- the repaired record step *)
Lemma fixed_calls : forall cs, unphase_calls fixed_rule cs = Ok (map unphase_call_fixed cs).
Proof.
  induction cs as [|c t IH]; cbn [unphase_calls map].
  - reflexivity.
  - unfold unphase_call at 1. unfold fixed_rule at 1. rewrite IH. reflexivity.
Qed.

Lemma fixed_rec : forall r, unphase_rec fixed_rule r = Ok (unphase_fixed r).
Proof. intros r. unfold unphase_rec. rewrite fixed_calls. reflexivity. Qed.

Lemma fixed_file : forall rs, unphase_file fixed_rule rs = (map unphase_fixed rs, None).
Proof.
  induction rs as [|r t IH]; cbn [unphase_file map].
  - reflexivity.
  - rewrite fixed_rec. rewrite IH. reflexivity.
Qed.

Lemma fixed_total : forall rs, exists out, unphase_file fixed_rule rs = (out, None) /\ length out = length rs.
Proof. intros rs. exists (map unphase_fixed rs). split; [apply fixed_file | apply map_length]. Qed.

Lemma call_fixed_clean : forall c, call_clean (unphase_call_fixed c) = true.
Proof. intros c. unfold call_clean, unphase_call_fixed. cbn [c_phased c_fields negb andb]. apply strip_clean. Qed.

Lemma fixed_clean_b : forall r, rec_clean (unphase_fixed r) = true.
Proof.
  intros r. unfold rec_clean, unphase_fixed. cbn [r_calls]. apply forallb_forall. intros c H.
  apply in_map_iff in H. destruct H as [c0 [E _]]. subst c. apply call_fixed_clean.
Qed.

Lemma phase_key_cases : forall k, is_phase_key k = false <-> (k <> K_HP /\ k <> K_PS /\ k <> K_PQ).
Proof.
  intros k. unfold is_phase_key, K_HP, K_PS, K_PQ. rewrite !orb_false_iff. rewrite !Z.eqb_neq. tauto.
Qed.

Lemma call_clean_spec : forall c, call_clean c = true <->
  (c_phased c = false /\ forall k v, In (k, v) (c_fields c) -> k <> K_HP /\ k <> K_PS /\ k <> K_PQ).
Proof.
  intros c. unfold call_clean. rewrite andb_true_iff. rewrite negb_true_iff. rewrite forallb_forall. split.
  - intros [H1 H2]. split; [exact H1|]. intros k v Hin. apply phase_key_cases.
    specialize (H2 (k, v) Hin). cbn [fst] in H2. apply negb_true_iff in H2. exact H2.
  - intros [H1 H2]. split; [exact H1|]. intros [k v] Hin. cbn [fst]. apply negb_true_iff. apply phase_key_cases.
    exact (H2 k v Hin).
Qed.

Lemma rec_clean_spec : forall r, rec_clean r = true <->
  (forall c, In c (r_calls r) ->
     c_phased c = false /\ forall k v, In (k, v) (c_fields c) -> k <> K_HP /\ k <> K_PS /\ k <> K_PQ).
Proof.
  intros r. unfold rec_clean. rewrite forallb_forall. split.
  - intros H c Hin. apply call_clean_spec. exact (H c Hin).
  - intros H c Hin. apply call_clean_spec. exact (H c Hin).
Qed.

Lemma fixed_clean : forall r c, In c (r_calls (unphase_fixed r)) ->
  c_phased c = false /\ forall k v, In (k, v) (c_fields c) -> k <> K_HP /\ k <> K_PS /\ k <> K_PQ.
Proof. intros r. apply rec_clean_spec. apply fixed_clean_b. Qed.

(* frames *)
Definition gt_frame (og og' : option (list allele)) : Prop :=
  match og, og' with
  | None, None => True
  | Some g, Some g' => Permutation g g'
  | _, _ => False
  end.

Lemma call_fixed_frame : forall c,
  c_fields (unphase_call_fixed c) = strip (c_fields c) /\ gt_frame (c_gt c) (c_gt (unphase_call_fixed c)).
Proof.
  intros c. unfold unphase_call_fixed. cbn [c_fields c_gt]. split; [reflexivity|].
  destruct (c_gt c) as [g|]; cbn [option_map gt_frame]; [apply fix_gt_perm | exact I].
Qed.

Lemma fixed_frames : forall r,
  r_fixed (unphase_fixed r) = r_fixed r /\
  length (r_calls (unphase_fixed r)) = length (r_calls r) /\
  forall i c, nth_error (r_calls r) i = Some c ->
    exists c', nth_error (r_calls (unphase_fixed r)) i = Some c' /\
      c_fields c' = filter (fun kv => negb (is_phase_key (fst kv))) (c_fields c) /\
      match c_gt c, c_gt c' with
      | None, None => True
      | Some g, Some g' => Permutation g g'
      | _, _ => False
      end.
Proof.
  intros r. unfold unphase_fixed. cbn [r_fixed r_calls]. split; [reflexivity|]. split; [apply map_length|].
  intros i c H. exists (unphase_call_fixed c). split.
  - apply map_nth_error. exact H.
  - apply call_fixed_frame.
Qed.

(* a record that carries no phase information and whose fully called genotypes are ascending is untouched *)
Lemma fixed_noop : forall r,
  rec_clean r = true ->
  (forall c g zs, In c (r_calls r) -> c_gt c = Some g -> all_called g = Some zs -> isort zs = zs) ->
  unphase_fixed r = r.
Proof.
  intros [fx cs] Hc Hs. unfold unphase_fixed. cbn [r_fixed r_calls] in *. f_equal.
  unfold rec_clean in Hc. cbn [r_calls] in Hc. rewrite forallb_forall in Hc.
  induction cs as [|c t IH]; cbn [map].
  - reflexivity.
  - f_equal.
    + assert (Hin : In c (c :: t)) by (left; reflexivity).
      specialize (Hc c Hin). unfold call_clean in Hc. apply andb_true_iff in Hc. destruct Hc as [Hp Hf].
      apply negb_true_iff in Hp. destruct c as [og p fs]. unfold unphase_call_fixed. cbn [c_gt c_phased c_fields] in *.
      subst p. rewrite (strip_noop fs Hf). f_equal.
      destruct og as [g|]; cbn [option_map]; [|reflexivity]. f_equal.
      unfold fix_gt. destruct (all_called g) as [zs|] eqn:E; [|reflexivity].
      rewrite (Hs _ g zs Hin eq_refl E). symmetry. apply all_called_Some_eq. exact E.
    + apply IH.
      * intros c' Hin. apply Hc. right. exact Hin.
      * intros c' g zs Hin. apply Hs. right. exact Hin.
Qed.

(* idempotence *)
Lemma call_fixed_idem : forall c, unphase_call_fixed (unphase_call_fixed c) = unphase_call_fixed c.
Proof.
  intros c. unfold unphase_call_fixed. cbn [c_gt c_phased c_fields]. rewrite strip_idem. f_equal.
  destruct (c_gt c) as [g|]; cbn [option_map]; [|reflexivity]. rewrite fix_gt_idem. reflexivity.
Qed.

Lemma fixed_idem : forall r, unphase_fixed (unphase_fixed r) = unphase_fixed r.
Proof.
  intros r. unfold unphase_fixed. cbn [r_fixed r_calls]. f_equal. rewrite map_map.
  apply map_ext. apply call_fixed_idem.
Qed.

(* unphase after phase *)
Lemma call_fixed_after_phase : forall c c', call_phase_rel c c' -> unphase_call_fixed c' = unphase_call_fixed c.
Proof.
  intros c c' [Hf Hg]. unfold unphase_call_fixed. rewrite Hf. f_equal.
  destruct (c_gt c) as [g|]; destruct (c_gt c') as [g'|]; cbn [option_map]; try contradiction; [|reflexivity].
  destruct Hg as [HP HN]. f_equal. apply fix_gt_of_rel; assumption.
Qed.

Lemma fixed_after_phase : forall r r', rec_phase_rel r r' -> unphase_fixed r' = unphase_fixed r.
Proof.
  intros r r' [Hfx Hcs]. unfold unphase_fixed. rewrite Hfx. f_equal.
  induction Hcs as [|c c' t t' Hc Ht IH]; cbn [map].
  - reflexivity.
  - rewrite (call_fixed_after_phase c c' Hc). rewrite IH. reflexivity.
Qed.

(* the abstract writer satisfies the relation *)
Lemma call_phase_rel_refl : forall c, call_phase_rel c c.
Proof.
  intros c. split; [reflexivity|]. destruct (c_gt c) as [g|]; [|exact I].
  split; [apply Permutation_refl | intros _; reflexivity].
Qed.

Lemma phase_call_rel : forall d c, call_phase_rel c (phase_call d c).
Proof.
  intros d c. unfold call_phase_rel, phase_call. cbn [c_fields c_gt]. split; [apply strip_set_tags|].
  destruct (c_gt c) as [g|]; cbn [phase_gt]; [|destruct (d_order d); exact I].
  destruct (d_order d) as [zs'|].
  - destruct (all_called g) as [zs|] eqn:E.
    + destruct (zlist_eqb (isort zs') (isort zs)) eqn:EZ.
      * split; [|intros H; discriminate].
        apply zlist_eqb_eq in EZ. apply all_called_Some_eq in E. subst g. apply Permutation_map.
        eapply Permutation_trans; [apply Permutation_sym, isort_perm|]. rewrite <- EZ. apply isort_perm.
      * split; [apply Permutation_refl | intros _; reflexivity].
    + split; [apply Permutation_refl | intros _; reflexivity].
  - split; [apply Permutation_refl | intros _; reflexivity].
Qed.

Lemma phase_write_rel : forall ds r, rec_phase_rel r (phase_write ds r).
Proof.
  intros ds r. unfold rec_phase_rel, phase_write. cbn [r_fixed r_calls]. split; [reflexivity|].
  generalize dependent ds. induction (r_calls r) as [|c t IH]; intros ds; cbn [phase_calls].
  - constructor.
  - destruct ds as [|d ds'].
    + constructor; [apply call_phase_rel_refl|]. clear IH. induction t as [|c' t' IH']; constructor.
      * apply call_phase_rel_refl.
      * exact IH'.
    + constructor; [apply phase_call_rel | apply IH].
Qed.

Lemma fixed_after_phase_write : forall ds r, unphase_fixed (phase_write ds r) = unphase_fixed r.
Proof. intros ds r. apply fixed_after_phase. apply phase_write_rel. Qed.

Lemma fixed_history : forall ops r, unphase_fixed (fold_left hstep ops r) = unphase_fixed r.
Proof.
  induction ops as [|o ops IH]; intros r; cbn [fold_left].
  - reflexivity.
  - rewrite IH. destruct o as [ds|]; cbn [hstep].
    + apply fixed_after_phase_write.
    + apply fixed_idem.
Qed.

(* ------------------------------------------------------------------ the code as it is (cur_rule) *)
Definition gtc (og : option (list allele)) : option err := crash_class (mkCall og false []).

Lemma crash_class_gtc : forall c, crash_class c = gtc (c_gt c).
Proof. intros [og p fs]. reflexivity. Qed.

Lemma forallb_is_some_map : forall zs, forallb is_some (map Some zs) = true.
Proof. induction zs as [|z t IH]; cbn [map forallb is_some]; [reflexivity | exact IH]. Qed.

Lemma gtc_full : forall zs, gtc (Some (map Some zs)) = if (length zs <? 2)%nat then Some EIndex else None.
Proof.
  intros [|a [|b t]]; try reflexivity.
  unfold gtc, crash_class. cbn [c_gt map length Nat.ltb Nat.leb].
  rewrite forallb_is_some_map. reflexivity.
Qed.

(* the call step of the current code, as one equation: it raises exactly on the three classes and
   otherwise does what the repaired step does *)
Lemma cur_call_eq : forall c,
  unphase_call cur_rule c = match crash_class c with Some e => Err e | None => Ok (unphase_call_fixed c) end.
Proof.
  intros [og p fs]. unfold unphase_call, unphase_call_fixed, cur_rule, crash_class. cbn [c_gt c_fields].
  destruct og as [g|]; [|reflexivity].
  destruct g as [|[a|] t]; [reflexivity| |reflexivity].
  destruct t as [|[b|] t']; [reflexivity| |].
  - cbn [cur_gt option_map].
    unfold fix_gt. cbn [all_called].
    destruct (all_called t') as [zs|] eqn:E.
    + assert (F : forallb is_some t' = true) by (apply all_called_forallb; exists zs; exact E).
      rewrite F. reflexivity.
    + assert (F : forallb is_some t' = false).
      { destruct (forallb is_some t') eqn:F'; [|reflexivity].
        apply all_called_forallb in F'. destruct F' as [zs F']. rewrite E in F'. discriminate. }
      rewrite F. reflexivity.
  - cbn [cur_gt option_map]. unfold fix_gt. cbn [all_called]. reflexivity.
Qed.

Fixpoint first_crash (cs : list call) : option err :=
  match cs with
  | [] => None
  | c :: t => match crash_class c with Some e => Some e | None => first_crash t end
  end.

Lemma cur_calls_eq : forall cs,
  unphase_calls cur_rule cs = match first_crash cs with Some e => Err e | None => Ok (map unphase_call_fixed cs) end.
Proof.
  induction cs as [|c t IH]; cbn [unphase_calls first_crash map].
  - reflexivity.
  - rewrite cur_call_eq. destruct (crash_class c) as [e|]; [reflexivity|].
    rewrite IH. destruct (first_crash t); reflexivity.
Qed.

Lemma cur_rec_eq : forall r,
  unphase_rec cur_rule r = match first_crash (r_calls r) with Some e => Err e | None => Ok (unphase_fixed r) end.
Proof. intros r. unfold unphase_rec. rewrite cur_calls_eq. destruct (first_crash (r_calls r)); reflexivity. Qed.

Lemma first_crash_none : forall cs, first_crash cs = None <->
  existsb (fun c => match crash_class c with Some _ => true | None => false end) cs = false.
Proof.
  induction cs as [|c t IH]; cbn [first_crash existsb].
  - split; reflexivity.
  - destruct (crash_class c) as [e|]; cbn [orb].
    + split; discriminate.
    + exact IH.
Qed.

(* on inputs where the current code raises nothing it computes the repaired step *)
Lemma cur_rec_ok : forall r r', unphase_rec cur_rule r = Ok r' -> r' = unphase_fixed r.
Proof.
  intros r r' H. rewrite cur_rec_eq in H. destruct (first_crash (r_calls r)); [discriminate|].
  inversion H. reflexivity.
Qed.

Lemma cur_rec_ok_iff : forall r, (exists r', unphase_rec cur_rule r = Ok r') <-> rec_crashes r = false.
Proof.
  intros r. unfold rec_crashes. rewrite <- first_crash_none. rewrite cur_rec_eq. split.
  - intros [r' H]. destruct (first_crash (r_calls r)); [discriminate | reflexivity].
  - intros H. rewrite H. eexists. reflexivity.
Qed.

Lemma cur_rec_crash_witness : forall r e, unphase_rec cur_rule r = Err e ->
  exists c, In c (r_calls r) /\ crash_class c = Some e.
Proof.
  intros r e H. rewrite cur_rec_eq in H. destruct (first_crash (r_calls r)) as [e'|] eqn:E; [|discriminate].
  inversion H. subst e'. clear H. induction (r_calls r) as [|c t IH]; cbn [first_crash] in E; [discriminate|].
  destruct (crash_class c) as [e1|] eqn:E1.
  - inversion E. subst e1. exists c. split; [left; reflexivity | exact E1].
  - destruct (IH E) as [c' [Hin Hc]]. exists c'. split; [right; exact Hin | exact Hc].
Qed.

(* the file: what was written is the repaired output of the prefix before the first raising record *)
Lemma cur_file_prefix : forall rs out e, unphase_file cur_rule rs = (out, e) ->
  out = map unphase_fixed (firstn (length out) rs) /\
  match e with
  | None => length out = length rs
  | Some e' => exists r, nth_error rs (length out) = Some r /\ unphase_rec cur_rule r = Err e'
  end.
Proof.
  induction rs as [|r t IH]; intros out e H; cbn [unphase_file] in H.
  - inversion H. subst. split; reflexivity.
  - destruct (unphase_rec cur_rule r) as [r'|e1] eqn:E.
    + destruct (unphase_file cur_rule t) as [out' e'] eqn:E'. inversion H. subst out e. clear H.
      destruct (IH out' e' eq_refl) as [H1 H2]. cbn [length firstn map]. split.
      * rewrite (cur_rec_ok r r' E). f_equal. exact H1.
      * destruct e' as [e'|].
        -- cbn [nth_error]. exact H2.
        -- f_equal. exact H2.
    + inversion H. subst out e. clear H. cbn [length firstn map nth_error]. split; [reflexivity|].
      exists r. split; [reflexivity | exact E].
Qed.

Lemma gtc_fix : forall og, gtc og = None -> gtc (option_map fix_gt og) = None.
Proof.
  intros [g|] H; cbn [option_map]; [|exact H].
  unfold fix_gt. destruct (all_called g) as [zs|] eqn:E; [|exact H].
  apply all_called_Some_eq in E. subst g. rewrite gtc_full in *. rewrite isort_length. exact H.
Qed.

Lemma gtc_rel : forall c c', call_phase_rel c c' -> gtc (c_gt c') = gtc (c_gt c).
Proof.
  intros c c' [_ Hg]. destruct (c_gt c) as [g|]; destruct (c_gt c') as [g'|]; try contradiction; [|reflexivity].
  destruct Hg as [HP HN]. destruct (all_called g) as [zs|] eqn:E.
  - destruct (all_called_perm g g' zs HP E) as [zs' [E' P]].
    apply all_called_Some_eq in E. apply all_called_Some_eq in E'. subst g g'. rewrite !gtc_full.
    rewrite (Permutation_length P). reflexivity.
  - rewrite (HN eq_refl). reflexivity.
Qed.

Lemma first_crash_fixed : forall cs, first_crash cs = None -> first_crash (map unphase_call_fixed cs) = None.
Proof.
  induction cs as [|c t IH]; cbn [first_crash map]; intros H; [reflexivity|].
  destruct (crash_class c) as [e|] eqn:E; [discriminate|].
  rewrite crash_class_gtc in E. rewrite crash_class_gtc. unfold unphase_call_fixed at 1. cbn [c_gt].
  rewrite (gtc_fix _ E). apply IH. exact H.
Qed.

Lemma cur_idem : forall r r', unphase_rec cur_rule r = Ok r' -> unphase_rec cur_rule r' = Ok r'.
Proof.
  intros r r' H. rewrite cur_rec_eq in H. destruct (first_crash (r_calls r)) eqn:E; [discriminate|].
  inversion H. subst r'. clear H. rewrite cur_rec_eq. unfold unphase_fixed at 1. cbn [r_calls].
  rewrite (first_crash_fixed _ E). rewrite fixed_idem. reflexivity.
Qed.

Lemma first_crash_rel : forall cs cs', Forall2 call_phase_rel cs cs' -> first_crash cs' = first_crash cs.
Proof.
  intros cs cs' H. induction H as [|c c' t t' Hc Ht IH]; cbn [first_crash]; [reflexivity|].
  rewrite !crash_class_gtc. rewrite (gtc_rel c c' Hc). rewrite IH. reflexivity.
Qed.

(* a phasing writer neither creates nor removes a crash, and does not change the unphased result *)
Lemma cur_after_phase : forall r r', rec_phase_rel r r' -> unphase_rec cur_rule r' = unphase_rec cur_rule r.
Proof.
  intros r r' H. rewrite !cur_rec_eq. rewrite (first_crash_rel _ _ (proj2 H)).
  rewrite (fixed_after_phase r r' H). reflexivity.
Qed.

Lemma cur_history : forall ops r r', hrun_cur ops r = Ok r' -> r' = fold_left hstep ops r.
Proof.
  induction ops as [|o ops IH]; intros r r' H; cbn [hrun_cur fold_left] in *.
  - inversion H. reflexivity.
  - destruct o as [ds|]; cbn [hstep].
    + apply IH. exact H.
    + destruct (unphase_rec cur_rule r) as [r1|e] eqn:E; [|discriminate].
      rewrite <- (cur_rec_ok r r1 E). apply IH. exact H.
Qed.

(* the three crash classes *)
Lemma cur_refuted_haploid : unphase_rec cur_rule (mkRec [] [mkCall (Some [Some 1]) false []]) = Err EIndex.
Proof. reflexivity. Qed.
Lemma cur_refuted_partial :
  unphase_rec cur_rule (mkRec [] [mkCall (Some [Some 0; Some 1; None]) true []]) = Err EType.
Proof. reflexivity. Qed.
Lemma cur_refuted_nogt : unphase_rec cur_rule (mkRec [] [mkCall None false [(10, 7)]]) = Err EKey.
Proof. reflexivity. Qed.

(* --------------------------------------------------- the executable checks mean what they say *)
Lemma allele_eqb_eq : forall a b, allele_eqb a b = true <-> a = b.
Proof.
  intros [x|] [y|]; cbn [allele_eqb]; split; intros H; try discriminate; try reflexivity.
  - apply Z.eqb_eq in H. subst. reflexivity.
  - inversion H. apply Z.eqb_refl.
Qed.

Lemma list_eqb_eq : forall (A : Type) (eqb : A -> A -> bool),
  (forall x y, eqb x y = true <-> x = y) -> forall a b, list_eqb eqb a b = true <-> a = b.
Proof.
  intros A eqb Heq. induction a as [|x a IH]; intros [|y b]; cbn [list_eqb]; split; intros H;
    try discriminate; try reflexivity.
  - apply andb_true_iff in H. destruct H as [H1 H2]. apply Heq in H1. apply IH in H2. subst. reflexivity.
  - inversion H. subst. apply andb_true_iff. split; [apply Heq; reflexivity | apply IH; reflexivity].
Qed.

Lemma list_eqb_Forall2 : forall (A B : Type) (f : A -> B -> bool) (P : A -> B -> Prop),
  (forall x y, f x y = true <-> P x y) ->
  forall (a : list A) (b : list B),
    (fix go (a : list A) (b : list B) : bool :=
       match a, b with [], [] => true | x :: a', y :: b' => f x y && go a' b' | _, _ => false end) a b = true
    <-> Forall2 P a b.
Proof.
  intros A B f P Hf. induction a as [|x a IH]; intros [|y b]; split; intros H; try discriminate;
    try (inversion H; fail); try constructor.
  - apply andb_true_iff in H. apply Hf. apply H.
  - apply andb_true_iff in H. apply IH. apply H.
  - inversion H. subst. apply andb_true_iff. split; [apply Hf; assumption | apply IH; assumption].
Qed.

Lemma list_eqb_F2 : forall (A : Type) (f : A -> A -> bool) (P : A -> A -> Prop),
  (forall x y, f x y = true <-> P x y) -> forall a b, list_eqb f a b = true <-> Forall2 P a b.
Proof. intros A f P Hf a b. exact (list_eqb_Forall2 A A f P Hf a b). Qed.

Lemma field_eqb_eq : forall a b, field_eqb a b = true <-> a = b.
Proof.
  intros [k v] [k' v']. unfold field_eqb. cbn [fst snd]. rewrite andb_true_iff. rewrite !Z.eqb_eq. split.
  - intros [H1 H2]. subst. reflexivity.
  - intros H. inversion H. split; reflexivity.
Qed.

Lemma opt_eqb_eq : forall (A : Type) (eqb : A -> A -> bool),
  (forall x y, eqb x y = true <-> x = y) -> forall a b, opt_eqb eqb a b = true <-> a = b.
Proof.
  intros A eqb Heq [x|] [y|]; cbn [opt_eqb]; split; intros H; try discriminate; try reflexivity.
  - apply Heq in H. subst. reflexivity.
  - inversion H. apply Heq. reflexivity.
Qed.

Lemma call_eqb_eq : forall a b, call_eqb a b = true <-> a = b.
Proof.
  intros [g p f] [g' p' f']. unfold call_eqb. cbn [c_gt c_phased c_fields]. rewrite !andb_true_iff.
  rewrite (opt_eqb_eq _ _ (list_eqb_eq _ _ allele_eqb_eq)). rewrite Bool.eqb_true_iff.
  rewrite (list_eqb_eq _ _ field_eqb_eq). split.
  - intros [[H1 H2] H3]. subst. reflexivity.
  - intros H. inversion H. repeat split.
Qed.

Lemma rec_eqb_eq : forall a b, rec_eqb a b = true <-> a = b.
Proof.
  intros [f c] [f' c']. unfold rec_eqb. cbn [r_fixed r_calls]. rewrite andb_true_iff.
  rewrite (list_eqb_eq _ _ Z.eqb_eq). rewrite (list_eqb_eq _ _ call_eqb_eq). split.
  - intros [H1 H2]. subst. reflexivity.
  - intros H. inversion H. split; reflexivity.
Qed.

Lemma recs_eqb_eq : forall a b, recs_eqb a b = true <-> a = b.
Proof. exact (list_eqb_eq _ _ rec_eqb_eq). Qed.

Lemma remove_one_perm : forall a l r, remove_one a l = Some r -> Permutation l (a :: r).
Proof.
  intros a. induction l as [|b t IH]; intros r H; cbn [remove_one] in H; [discriminate|].
  destruct (allele_eqb a b) eqn:E.
  - apply allele_eqb_eq in E. subst b. inversion H. subst. apply Permutation_refl.
  - destruct (remove_one a t) as [r'|] eqn:E'; [|discriminate]. inversion H. subst r.
    eapply Permutation_trans; [apply perm_skip, (IH r' eq_refl) | apply perm_swap].
Qed.

Lemma remove_one_in : forall a l, In a l -> exists r, remove_one a l = Some r.
Proof.
  intros a. induction l as [|b t IH]; intros H; [contradiction|]. cbn [remove_one].
  destruct (allele_eqb a b) eqn:E; [eexists; reflexivity|].
  destruct H as [H|H].
  - subst b. assert (X : allele_eqb a a = true) by (apply allele_eqb_eq; reflexivity). rewrite X in E. discriminate.
  - destruct (IH H) as [r Hr]. rewrite Hr. eexists. reflexivity.
Qed.

Lemma mset_eqb_perm : forall l l', mset_eqb l l' = true <-> Permutation l l'.
Proof.
  induction l as [|a t IH]; intros l'; cbn [mset_eqb].
  - destruct l' as [|b t']; split; intros H; try discriminate; try constructor.
    apply Permutation_nil in H. discriminate.
  - split.
    + intros H. destruct (remove_one a l') as [r|] eqn:E; [|discriminate].
      apply IH in H. apply remove_one_perm in E. apply Permutation_sym.
      eapply Permutation_trans; [exact E | apply perm_skip, Permutation_sym, H].
    + intros H. assert (Hin : In a l') by (eapply Permutation_in; [exact H | left; reflexivity]).
      destruct (remove_one_in a l' Hin) as [r Hr]. rewrite Hr. apply IH.
      apply remove_one_perm in Hr. eapply Permutation_cons_inv. eapply Permutation_trans; [exact H | exact Hr].
Qed.

(* the frame check = the frame statement *)
Definition call_frame_prop (c c' : call) : Prop :=
  strip (c_fields c) = strip (c_fields c') /\
  match c_gt c, c_gt c' with
  | None, None => True
  | Some g, Some g' => Permutation g g'
  | _, _ => False
  end.

Lemma call_frame_spec : forall c c', call_frame c c' = true <-> call_frame_prop c c'.
Proof.
  intros c c'. unfold call_frame, call_frame_prop. rewrite andb_true_iff. rewrite (list_eqb_eq _ _ field_eqb_eq).
  destruct (c_gt c) as [g|]; destruct (c_gt c') as [g'|]; try rewrite mset_eqb_perm; try tauto;
    split; intros [H1 H2]; try discriminate; try contradiction.
Qed.

Lemma rec_frame_spec : forall r r', rec_frame r r' = true <->
  (r_fixed r = r_fixed r' /\ Forall2 call_frame_prop (r_calls r) (r_calls r')).
Proof.
  intros r r'. unfold rec_frame. rewrite andb_true_iff. rewrite (list_eqb_eq _ _ Z.eqb_eq).
  rewrite (list_eqb_F2 _ _ _ call_frame_spec). tauto.
Qed.

Lemma fixed_frame_b : forall r, rec_frame r (unphase_fixed r) = true.
Proof.
  intros r. apply rec_frame_spec. unfold unphase_fixed. cbn [r_fixed r_calls]. split; [reflexivity|].
  induction (r_calls r) as [|c t IH]; cbn [map]; constructor; [|exact IH].
  unfold call_frame_prop. destruct (call_fixed_frame c) as [H1 H2]. rewrite H1. rewrite strip_idem.
  split; [reflexivity | exact H2].
Qed.

(* the boolean writer relation evaluated on real `whatshap phase` output implies the relation *)
Lemma call_phase_relb_spec : forall c c', call_phase_relb c c' = true <-> call_phase_rel c c'.
Proof.
  intros c c'. unfold call_phase_relb, call_phase_rel. rewrite andb_true_iff. rewrite (list_eqb_eq _ _ field_eqb_eq).
  destruct (c_gt c) as [g|]; destruct (c_gt c') as [g'|].
  - rewrite andb_true_iff. rewrite mset_eqb_perm. destruct (all_called g) as [zs|].
    + split.
      * intros [H1 [H2 _]]. split; [exact H1|]. split; [exact H2 | intros H; discriminate].
      * intros [H1 [H2 _]]. repeat split; assumption.
    + rewrite (list_eqb_eq _ _ allele_eqb_eq). split.
      * intros [H1 [H2 H3]]. split; [exact H1|]. split; [exact H2 | intros _; exact H3].
      * intros [H1 [H2 H3]]. split; [exact H1|]. split; [exact H2 | apply H3; reflexivity].
  - split; intros [H1 H2]; [discriminate | contradiction].
  - split; intros [H1 H2]; [discriminate | contradiction].
  - tauto.
Qed.

Lemma rec_phase_relb_spec : forall r r', rec_phase_relb r r' = true <-> rec_phase_rel r r'.
Proof.
  intros r r'. unfold rec_phase_relb, rec_phase_rel. rewrite andb_true_iff. rewrite (list_eqb_eq _ _ Z.eqb_eq).
  rewrite (list_eqb_F2 _ _ _ call_phase_relb_spec). tauto.
Qed.

(* ------------------------------------------ the clauses for the current code, guarded by "no exception" *)
Lemma cur_clean : forall r r', unphase_rec cur_rule r = Ok r' ->
  forall c, In c (r_calls r') ->
    c_phased c = false /\ forall k v, In (k, v) (c_fields c) -> k <> K_HP /\ k <> K_PS /\ k <> K_PQ.
Proof. intros r r' H. rewrite (cur_rec_ok r r' H). apply fixed_clean. Qed.

Lemma cur_frames : forall r r', unphase_rec cur_rule r = Ok r' ->
  r_fixed r' = r_fixed r /\
  length (r_calls r') = length (r_calls r) /\
  forall i c, nth_error (r_calls r) i = Some c ->
    exists c', nth_error (r_calls r') i = Some c' /\
      c_fields c' = filter (fun kv => negb (is_phase_key (fst kv))) (c_fields c) /\
      match c_gt c, c_gt c' with
      | None, None => True
      | Some g, Some g' => Permutation g g'
      | _, _ => False
      end.
Proof. intros r r' H. rewrite (cur_rec_ok r r' H). apply fixed_frames. Qed.

Lemma cur_total_refuted : ~ (forall rs, exists out, unphase_file cur_rule rs = (out, None) /\ length out = length rs).
Proof.
  intros H. destruct (H [mkRec [] [mkCall (Some [Some 1]) false []]]) as [out [H1 _]].
  cbn in H1. discriminate.
Qed.

Lemma cur_history_ok : forall ops r r', hrun_cur ops r = Ok r' ->
  unphase_fixed r' = unphase_fixed r.
Proof. intros ops r r' H. rewrite (cur_history ops r r' H). apply fixed_history. Qed.

(* forms used verbatim by props/C13.v *)
Lemma cur_refuted_haploid_ex :
  exists r, r = mkRec [] [mkCall (Some [Some 1]) false []] /\ unphase_rec cur_rule r = Err EIndex.
Proof. eexists. split; [reflexivity | exact cur_refuted_haploid]. Qed.
Lemma cur_refuted_partial_ex :
  exists r, r = mkRec [] [mkCall (Some [Some 0; Some 1; None]) true []] /\ unphase_rec cur_rule r = Err EType.
Proof. eexists. split; [reflexivity | exact cur_refuted_partial]. Qed.
Lemma cur_refuted_nogt_ex :
  exists r, r = mkRec [] [mkCall None false [(10, 7)]] /\ unphase_rec cur_rule r = Err EKey.
Proof. eexists. split; [reflexivity | exact cur_refuted_nogt]. Qed.

Lemma cur_history_both : forall (ops : list hop) (r r' : vrec),
  hrun_cur ops r = Ok r' -> r' = fold_left hstep ops r /\ unphase_fixed r' = unphase_fixed r.
Proof. intros ops r r' H. split; [exact (cur_history ops r r' H) | exact (cur_history_ok ops r r' H)]. Qed.

Lemma fixed_passes_checks : forall r : vrec,
  rec_clean (unphase_fixed r) = true /\ rec_frame r (unphase_fixed r) = true.
Proof. intros r. exact (conj (fixed_clean_b r) (fixed_frame_b r)). Qed.

Lemma checks_mean :
  (forall r, rec_clean r = true <->
     forall c, In c (r_calls r) ->
       c_phased c = false /\ forall k v, In (k, v) (c_fields c) -> k <> K_HP /\ k <> K_PS /\ k <> K_PQ) /\
  (forall l l' : list allele, mset_eqb l l' = true <-> Permutation l l') /\
  (forall r r', rec_frame r r' = true <->
     r_fixed r = r_fixed r' /\ Forall2 call_frame_prop (r_calls r) (r_calls r')) /\
  (forall a b, recs_eqb a b = true <-> a = b) /\
  (forall r r', rec_phase_relb r r' = true <-> rec_phase_rel r r').
Proof.
  exact (conj rec_clean_spec (conj mset_eqb_perm (conj rec_frame_spec (conj recs_eqb_eq rec_phase_relb_spec)))).
Qed.

(* ---------------------------------------------------------------------------------- the header *)
Lemma filter_filter_comm : forall (A : Type) (f g : A -> bool) (l : list A),
  filter f (filter g l) = filter g (filter f l).
Proof.
  intros A f g l. induction l as [|x t IH]; cbn [filter]; [reflexivity|].
  destruct (g x) eqn:G; destruct (f x) eqn:F; cbn [filter]; try rewrite G; try rewrite F; rewrite IH; reflexivity.
Qed.

Lemma filter_idem : forall (A : Type) (f : A -> bool) (l : list A), filter f (filter f l) = filter f l.
Proof.
  intros A f l. induction l as [|x t IH]; cbn [filter]; [reflexivity|].
  destruct (f x) eqn:F; cbn [filter]; [rewrite F, IH; reflexivity | exact IH].
Qed.

Lemma drop_phasing_rfp : forall h, drop_phasing (remove_first_phasing h) = drop_phasing h.
Proof.
  unfold drop_phasing. induction h as [|[[k i] t] r IH]; cbn [remove_first_phasing]; [reflexivity|].
  destruct (k =? 0) eqn:E.
  - cbn [filter is_phasing_line]. rewrite E. reflexivity.
  - cbn [filter is_phasing_line]. rewrite E. cbn [negb]. rewrite IH. reflexivity.
Qed.

(* apart from `##phasing` lines the output header is the input header without the HP/PS/PQ FORMAT definitions *)
Lemma header_frames : forall h, drop_phasing (unphase_header h) = filter hline_keep (drop_phasing h).
Proof.
  intros h. unfold unphase_header. unfold drop_phasing at 1. rewrite filter_filter_comm.
  fold (drop_phasing (remove_first_phasing h)). rewrite drop_phasing_rfp. reflexivity.
Qed.

Lemma header_clean_unphase : forall h, header_clean (unphase_header h) = true.
Proof.
  intros h. unfold header_clean, unphase_header. apply forallb_forall. intros l H. apply filter_In in H. apply H.
Qed.

Lemma header_clean_spec : forall h, header_clean h = true <->
  forall k i t, In (k, i, t) h -> k = 1 -> i <> K_HP /\ i <> K_PS /\ i <> K_PQ.
Proof.
  intros h. unfold header_clean. rewrite forallb_forall. split.
  - intros H k i t Hin Hk. specialize (H _ Hin). cbn [hline_keep] in H. subst k. cbn [Z.eqb Pos.eqb andb] in H.
    apply negb_true_iff in H. apply phase_key_cases. exact H.
  - intros H [[k i] t] Hin. cbn [hline_keep]. apply negb_true_iff. destruct (k =? 1) eqn:E; [|reflexivity].
    apply Z.eqb_eq in E. cbn [andb]. apply phase_key_cases. exact (H k i t Hin E).
Qed.

Lemma header_idem_modulo_phasing : forall h,
  drop_phasing (unphase_header (unphase_header h)) = drop_phasing (unphase_header h).
Proof. intros h. rewrite (header_frames (unphase_header h)). rewrite header_frames. apply filter_idem. Qed.

(* the `##phasing` lines: exactly the first one is removed *)
Lemma phasing_lines_rfp : forall h, filter is_phasing_line (remove_first_phasing h) = tl (filter is_phasing_line h).
Proof.
  induction h as [|[[k i] t] r IH]; cbn [remove_first_phasing]; [reflexivity|].
  destruct (k =? 0) eqn:E; cbn [filter is_phasing_line]; rewrite E; [reflexivity | exact IH].
Qed.

Lemma phasing_lines_keep : forall h, filter is_phasing_line (filter hline_keep h) = filter is_phasing_line h.
Proof.
  induction h as [|[[k i] t] r IH]; cbn [filter]; [reflexivity|].
  destruct (hline_keep (k, i, t)) eqn:K; cbn [filter].
  - rewrite IH. reflexivity.
  - cbn [hline_keep] in K. apply negb_false_iff in K. apply andb_true_iff in K. destruct K as [K _].
    apply Z.eqb_eq in K. subst k. cbn [is_phasing_line Z.eqb]. exact IH.
Qed.

Lemma header_phasing_lines : forall h,
  filter is_phasing_line (unphase_header h) = tl (filter is_phasing_line h).
Proof. intros h. unfold unphase_header. rewrite phasing_lines_keep. apply phasing_lines_rfp. Qed.

(* hence the whole header is not a fixed point when the input has two `##phasing` lines *)
Lemma header_idem_strict_refuted : ~ (forall h, unphase_header (unphase_header h) = unphase_header h).
Proof. intros H. specialize (H [(0, 0, 5); (0, 0, 6)]). cbn in H. discriminate. Qed.
