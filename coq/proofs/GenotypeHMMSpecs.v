(* C08, part 5: the two specification variants the correspondence check evaluates are the specification:
   posterior_chain_gen (per-bipartition chain recursions) = posterior_gen (plain sum over paths) for every
   list of specification columns, and posterior_spec_memo / posterior_chain_memo (memoised local factors of
   the model) = posterior_spec for well-formed instances.  ssreflect style. *)
From mathcomp Require Import all_ssreflect all_algebra.
From WH.Model Require Import GenotypeHMM.
From WH.Proofs Require Import SemiringDP GenotypeHMMBasics GenotypeHMMRun GenotypeHMMPosterior GenotypeHMMProofs
                              GenotypeHMMInstance.
Set Implicit Arguments.
Unset Strict Implicit.
Unset Printing Implicit Defensive.
Import GRing.Theory.
Local Open Scope ring_scope.

Section Specs.
Variable K : fieldType.
Variable P : ped.
Variable genof : nat -> nat -> nat -> nat.
Let tn := ntrans P.
Let na := nassign P.
Let ts := iota 0 tn.
Let as_ := iota 0 na.

Local Notation divK := (fun x y : K => x / y).
Local Notation subK := (fun x y : K => x - y).
Local Notation scolK := (scol K).
Local Notation post_gen := (@posterior_gen K 0 1 +%R *%R divK tn na genof).
Local Notation post_chain := (@posterior_chain_gen K 0 1 +%R *%R divK tn na genof).
Local Notation chain_MK := (@chain_M K 0 1 +%R *%R tn na).
Local Notation chain_inK := (@chain_in K 0 1 +%R *%R tn na).
Local Notation chain_bwdK := (@chain_bwd K 0 1 +%R *%R tn na).
Local Notation chain_fwdK := (@chain_fwd K 0 1 +%R *%R tn na).
Local Notation pwK := (@path_weight K 1 *%R).
Local Notation states := (hmm_states tn na).

(* ---------------------------------------------------------------- chain form = plain form *)
Lemma size_chain_bwd beta (scs : seq scolK) : size (chain_bwdK beta scs) = tn.
Proof. by case: scs => [|sc scs] /=; rewrite ?size_nseq // size_map size_iota. Qed.

Lemma size_chain_in beta (rcs : seq scolK) sc : size (chain_inK beta rcs sc) = tn.
Proof. by case: rcs => [|sc' rcs] /=; rewrite ?size_nseq // size_map size_iota. Qed.

Lemma chain_inE beta (rcs : seq scolK) sc i : (i < tn)%N ->
  nth 0 (chain_inK beta rcs sc) i = inF P beta rcs sc i.
Proof.
move=> hi; case: rcs => [|sc' rcs]; first by rewrite /= nth_nseq hi.
by rewrite /chain_in (nth_map 0%N) ?size_iota // nth_iota // add0n fsum_map.
Qed.

Lemma chain_ME (cs : seq scolK) c i a :
  (c < size cs)%N -> (i < tn)%N -> (a < na)%N ->
  chain_MK cs c i a
  = \sum_(b <- bits (nreads cs))
      inF P b (rev (take c cs)) (nth (dsc K) cs c) i
      * s_W (nth (dsc K) cs c) (pick (s_ids (nth (dsc K) cs c)) b) i a
      * chainB P b (drop c.+1 cs) i.
Proof.
move=> hc hi ha; rewrite /chain_M memo_nat2E // fsum_map big_map bitvecsE.
apply: eq_bigr => b _ /=.
rewrite (nth_map (0, 0)) ?size_zip ?size_chain_in ?size_chain_bwd ?minnn //.
rewrite nth_zip ?size_chain_in ?size_chain_bwd //= chain_inE // /chainB.
by rewrite mulrAC.
Qed.

Theorem posterior_chain_gen_eq (cs : seq scolK) c ind g :
  (c < size cs)%N -> post_chain cs c ind g = post_gen cs c ind g.
Proof.
move=> hc; rewrite posterior_genE /posterior_chain_gen.
rewrite (nth_map 0%N) ?size_iota // nth_iota // add0n.
have e2 : cs = take c cs ++ nth (dsc K) cs c :: drop c.+1 cs.
  by rewrite -drop_nth // cat_take_drop.
have hszc : size (take c cs) = c by rewrite size_take hc.
have hsum : forall phi : nat -> nat -> bool,
    fsum 0 +%R [seq fsum 0 +%R [seq chain_MK cs c i a | a <- iota 0 na & phi i a] | i <- iota 0 tn]
    = \sum_(b <- bits (nreads cs)) \sum_(p <- seqs states (size cs))
        (if phi (nth (0%N, 0%N) p c).1 (nth (0%N, 0%N) p c).2 then pwK None cs b p else 0).
  move=> phi; rewrite fsum_map.
  rewrite (eq_big_seq (fun i => \sum_(b <- bits (nreads cs)) \sum_(a <- iota 0 na | phi i a)
      inF P b (rev (take c cs)) (nth (dsc K) cs c) i
      * s_W (nth (dsc K) cs c) (pick (s_ids (nth (dsc K) cs c)) b) i a
      * chainB P b (drop c.+1 cs) i)); last first.
    move=> i; rewrite mem_iota add0n => /andP[_ hi]; rewrite fsum_mapf exchange_big /=.
    by apply: eq_sum_seq_cond => a; rewrite mem_iota add0n => /andP[_ ha] _; rewrite chain_ME.
  rewrite exchange_big /=; apply: eq_bigr => b _.
  have := @chain_to_paths K P b (take c cs) (nth (dsc K) cs c) (drop c.+1 cs) (fun s => (phi s.1 s.2)%:R).
  rewrite -e2 hszc => hpaths.
  rewrite [RHS](eq_bigr (fun p => (phi (nth (0%N, 0%N) p c).1 (nth (0%N, 0%N) p c).2)%:R * pwK None cs b p));
    last by move=> p _; case: (phi _ _); rewrite ?mul1r ?mul0r.
  rewrite hpaths; apply: eq_bigr => i _.
  rewrite big_mkcond /=; apply: eq_bigr => a _.
  by case: (phi i a); rewrite ?mul1r ?mul0r.
congr (_ / _); first exact: (hsum (phi_g genof ind g)).
have -> : fsum 0 +%R [seq fsum 0 +%R [seq chain_MK cs c i a | a <- iota 0 na] | i <- iota 0 tn]
        = fsum 0 +%R [seq fsum 0 +%R [seq chain_MK cs c i a | a <- iota 0 na & true] | i <- iota 0 tn].
  by congr fsum; apply: eq_map => i; rewrite filter_predT.
by rewrite (hsum (fun _ _ => true)).
Qed.

Lemma posterior_chain_col_eq (cs : seq scolK) c ind g :
  (c < size cs)%N ->
  @posterior_chain_col K 0 1 +%R *%R divK tn na genof cs c ind g = post_chain cs c ind g.
Proof.
by move=> hc; rewrite /posterior_chain_col /posterior_chain_gen (nth_map 0%N) ?size_iota // nth_iota // add0n.
Qed.

(* ---------------------------------------------------------------- equal columns give equal posteriors *)
Fixpoint cols_eqv (cs cs' : seq scolK) : Prop :=
  match cs, cs' with
  | c :: cs1, c' :: cs1' =>
      [/\ s_ids c = s_ids c',
          forall x i a, size x = size (s_ids c) -> (i < tn)%N -> (a < na)%N -> s_W c x i a = s_W c' x i a,
          forall j i, (j < tn)%N -> (i < tn)%N -> s_T c j i = s_T c' j i
        & cols_eqv cs1 cs1']
  | [::], [::] => True
  | _, _ => False
  end.

Lemma cols_eqv_size cs cs' : cols_eqv cs cs' -> size cs = size cs'.
Proof. by elim: cs cs' => [|c cs IH] [|c' cs'] //= [_ _ _ /IH->]. Qed.

Lemma cols_eqv_nreads cs cs' : cols_eqv cs cs' -> nreads cs = nreads cs'.
Proof.
elim: cs cs' => [|c cs IH] [|c' cs'] //= [hids _ _ /IH h].
by rewrite !nreads_cons hids h.
Qed.

Lemma pw_ext cs cs' prev b (p : seq (nat * nat)) :
  cols_eqv cs cs' -> (if prev is Some j then (j < tn)%N else true) ->
  all (fun s => s \in states) p ->
  pwK prev cs b p = pwK prev cs' b p.
Proof.
elim: cs cs' prev p => [|c cs IH] [|c' cs'] prev [|[i a] p] //= [hids hW hT heqv] hprev /andP[hs hp].
case/allpairsP: hs => [[i' a']] /= [hi ha [e1 e2]]; subst i' a'.
move: hi ha; rewrite !mem_iota !add0n => /andP[_ hi] /andP[_ ha].
rewrite (IH cs' (Some i) p heqv hi hp) -hids hW ?size_map //.
by case: prev hprev => [j|] // hj; rewrite hT.
Qed.

Lemma post_gen_cols_ext cs cs' c ind g :
  cols_eqv cs cs' -> post_gen cs c ind g = post_gen cs' c ind g.
Proof.
move=> heqv; rewrite !posterior_genE -(cols_eqv_size heqv) -(cols_eqv_nreads heqv).
congr (_ / _); apply: eq_bigr => b _; apply: eq_big_seq => p hp;
  by rewrite (@pw_ext cs cs' None b p heqv isT (mem_seqs hp)).
Qed.

End Specs.

Section SpecsInstance.
Variable K : fieldType.
Local Notation divK := (fun x y : K => x / y).
Local Notation subK := (fun x y : K => x - y).
Local Notation posterior_specK := (@posterior_spec K 0 1 +%R subK *%R divK).
Local Notation posterior_spec_memoK := (@posterior_spec_memo K 0 1 +%R subK *%R divK).
Local Notation posterior_chain_memoK := (@posterior_chain_memo K 0 1 +%R subK *%R divK).
Local Notation memo_colsK := (@memo_cols K 0 1 +%R subK *%R divK).
Local Notation spec_colsK := (@spec_cols K 0 1 +%R subK *%R divK).
Local Notation mk_cctxsK := (@mk_cctxs K 0 1 +%R subK *%R divK).
Local Notation WspecK := (@Wspec K 0 1 +%R subK *%R divK).
Local Notation ttrans_rawK := (@ttrans_raw K 0 1 +%R subK *%R divK).

Lemma memo_cols_eqv (P : ped) prev (cols : seq (column K)) :
  all (fun c => all (fun e => e_src e < p_nind P)%N (c_entries c)) cols ->
  cols_eqv P
    [seq SCol (col_ids cc.1) (cc_W cc.2) (cc_T cc.2)
    | cc <- zip cols (mk_cctxsK P (h2p_memo P) (geno_memo P) (gcount_memo P) prev cols)]
    [seq SCol (col_ids c) (WspecK P c) (ttrans_rawK P c) | c <- cols].
Proof.
elim: cols prev => [|c cols IH] prev //= /andP[hsrc hall].
have [hk hW _ hT] := mk_cctx_loc prev (if cols is c' :: _ then col_ids c' else [::]) hsrc.
split=> //; try exact: IH.
Qed.

Theorem posterior_spec_memo_eq (I : inst K) c ind g :
  wf I -> (c < size (i_cols I))%N -> (ind < p_nind (i_ped I))%N ->
  posterior_spec_memoK I c ind g = posterior_specK I c ind g.
Proof.
case/and3P=> _ _ hsrc hc hind; rewrite /posterior_spec_memo /posterior_spec /memo_cols /spec_cols.
set P := i_ped I.
rewrite (post_gen_cols_ext _ _ _ _ (memo_cols_eqv [::] hsrc)).
apply: (@post_gen_ext _ _ _ _ _ _ _ _ _ P) => //; first by rewrite size_map.
by move=> i a hi ha; apply: geno_memoE.
Qed.

Theorem posterior_chain_memo_eq (I : inst K) c ind g :
  wf I -> (c < size (i_cols I))%N -> (ind < p_nind (i_ped I))%N ->
  posterior_chain_memoK I c ind g = posterior_specK I c ind g.
Proof.
move=> hwf hc hind; rewrite -(posterior_spec_memo_eq g hwf hc hind).
rewrite /posterior_chain_memo /posterior_spec_memo; apply: posterior_chain_gen_eq.
by rewrite /memo_cols size_map size_zip size_mk_cctxs minnn.
Qed.

End SpecsInstance.
