(* The specification `lev` of coq/model/EditDist.v is a metric and is the minimum cost over edit
   scripts: together these make "true Levenshtein distance" independent of the shape of the
   recursion that defines `lev`.  Triangle inequality by composing edit scripts. *)
From Coq Require Import List Arith Bool ZArith Lia.
From WH.Model Require Import EditDist.
From WH.Proofs Require Import EditDistProofs.
Import ListNotations.

Section Metric.
Variable A : Type.
Variable eqb : A -> A -> bool.
Hypothesis eqb_spec : forall a b, reflect (a = b) (eqb a b).

Notation lev := (lev eqb).
Notation delta := (delta eqb).
Notation ed := (ed A eqb).

Lemma delta_triangle a b c : delta a c <= delta a b + delta b c.
Proof.
unfold EditDist.delta.
destruct (eqb_spec a c) as [Hac|Hac]; [lia|].
destruct (eqb_spec a b) as [Hab|Hab]; [|lia].
destruct (eqb_spec b c) as [Hbc|Hbc]; [congruence|lia].
Qed.

(* composing a script s ~> t with a script t ~> u *)
Lemma ed_trans s t n : ed s t n -> forall u m, ed t u m -> exists k, ed s u k /\ k <= n + m.
Proof.
induction 1 as [|a s t n H IH|b s t n H IH|a b s t n H IH]; intros u m H2.
- exists m; split; [exact H2|lia].
- destruct (IH _ _ H2) as [k [Hk Hle]]. exists (S k); split; [constructor; exact Hk|lia].
- remember (b :: t) as bt eqn:E. revert b t E H IH.
  induction H2 as [|a2 s2 t2 n2 H2 IH2|b2 s2 t2 n2 H2 IH2|a2 b2 s2 t2 n2 H2 IH2]; intros b t E H IH; try discriminate.
  + injection E as -> ->. destruct (IH _ _ H2) as [k [Hk Hle]]. exists k; split; [exact Hk|lia].
  + destruct (IH2 _ _ E H IH) as [k [Hk Hle]]. exists (S k); split; [constructor; exact Hk|lia].
  + injection E as -> ->. destruct (IH _ _ H2) as [k [Hk Hle]].
    exists (S k); split; [constructor; exact Hk|lia].
- remember (b :: t) as bt eqn:E. revert b t E H IH.
  induction H2 as [|a2 s2 t2 n2 H2 IH2|b2 s2 t2 n2 H2 IH2|a2 b2 s2 t2 n2 H2 IH2]; intros b t E H IH; try discriminate.
  + injection E as -> ->. destruct (IH _ _ H2) as [k [Hk Hle]]. exists (S k); split; [constructor; exact Hk|lia].
  + destruct (IH2 _ _ E H IH) as [k [Hk Hle]]. exists (S k); split; [constructor; exact Hk|lia].
  + injection E as -> ->. destruct (IH _ _ H2) as [k [Hk Hle]].
    exists (k + delta a b2); split; [constructor; exact Hk|].
    pose proof (delta_triangle a b b2). lia.
Qed.

Theorem lev_triangle s t u : lev s u <= lev s t + lev t u.
Proof.
destruct (ed_trans _ _ _ (ed_lev A eqb s t) _ _ (ed_lev A eqb t u)) as [k [Hk Hle]].
apply (lev_le A eqb) in Hk. lia.
Qed.

(* lev is the least cost of an edit script: attained, and a lower bound *)
Theorem lev_is_min_script s t : ed s t (lev s t) /\ forall n, ed s t n -> lev s t <= n.
Proof. split; [apply ed_lev | apply lev_le]. Qed.

(* the implementation's unbanded result inherits the metric laws *)
Theorem edit_distance_metric s t u :
  edit_distance eqb s t (-1)%Z = edit_distance eqb t s (-1)%Z /\
  (edit_distance eqb s t (-1)%Z = 0 <-> s = t) /\
  edit_distance eqb s u (-1)%Z <= edit_distance eqb s t (-1)%Z + edit_distance eqb t u (-1)%Z.
Proof.
rewrite !(edit_distance_is_lev A eqb eqb_spec).
split; [apply (lev_sym A eqb eqb_spec)|split; [apply (lev_zero_iff_eq A eqb eqb_spec)|apply lev_triangle]].
Qed.

End Metric.
