(* C15 — proofs, part 4: one sample end to end (components + superreads + writer) satisfies the per-sample
   predicate that the harness evaluates on real output. *)
From Coq Require Import ZArith List Bool Arith Lia Permutation.
From WH.Model Require Import Polyphase.
From WH.Proofs Require Import PolyphaseProofs PolyphaseProofs2 PolyphaseProofs3.
Import ListNotations.
Open Scope Z_scope.

(* ------------------------------------------------------------------------------------------ is_het *)
Lemma is_het_cons : forall a t, is_het (a :: t) = true <-> exists y, In y t /\ y <> a.
Proof.
  intros a t. cbn [is_het]. rewrite negb_true_iff. split.
  - intros H. induction t as [| y u IH]; cbn [forallb] in H; [discriminate |].
    destruct (Z.eqb a y) eqn:E.
    + cbn [andb] in H. destruct (IH H) as [z [Hz Hne]]. exists z. split; [right; exact Hz | exact Hne].
    + exists y. split; [left; reflexivity |]. apply Z.eqb_neq in E. congruence.
  - intros [y [Hy Hne]]. destruct (forallb (Z.eqb a) t) eqn:E; [| reflexivity].
    rewrite forallb_forall in E. specialize (E y Hy). apply Z.eqb_eq in E. congruence.
Qed.

Lemma is_het_two : forall l, l <> [] -> (is_het l = true <-> exists x y, In x l /\ In y l /\ x <> y).
Proof.
  intros [| a t] Hne; [contradiction |]. rewrite is_het_cons. split.
  - intros [y [Hy Hya]]. exists a, y. split; [left; reflexivity |]. split; [right; exact Hy | congruence].
  - intros [x [y [Hx [Hy Hxy]]]]. destruct (Z.eq_dec x a) as [Hxa | Hxa].
    + subst x. exists y. split; [| congruence]. destruct Hy as [Hy | Hy]; [congruence | exact Hy].
    + exists x. split; [| exact Hxa]. destruct Hx as [Hx | Hx]; [congruence | exact Hx].
Qed.

Lemma is_het_perm : forall l1 l2, Permutation l1 l2 -> l1 <> [] -> is_het l1 = true -> is_het l2 = true.
Proof.
  intros l1 l2 Hp Hne H.
  assert (Hne2 : l2 <> []). { intros Heq. subst. apply Permutation_sym, Permutation_nil in Hp. contradiction. }
  apply (is_het_two l2 Hne2). apply (is_het_two l1 Hne) in H. destruct H as [x [y [Hx [Hy Hxy]]]].
  exists x, y. split; [eapply Permutation_in; eassumption |]. split; [eapply Permutation_in; eassumption | exact Hxy].
Qed.

(* ---------------------------------------------------------------------------------- superread phases *)
Lemma phases_of_spec : forall acc cols pos ph,
  lookup_phase (phases_of acc cols) pos = Some ph ->
  exists p, nth_error acc p = Some pos /\ nth_error cols p = Some ph /\ memZ undet ph = false.
Proof.
  induction acc as [| a acc' IH]; intros cols pos ph H; [discriminate |].
  destruct cols as [| c cols']; [discriminate |]. cbn [phases_of] in H.
  destruct (memZ undet c) eqn:E.
  - destruct (IH cols' pos ph H) as [p [H1 [H2 H3]]]. exists (S p). auto.
  - cbn [lookup_phase] in H. destruct (Z.eqb a pos) eqn:Ea.
    + apply Z.eqb_eq in Ea. inversion H; subst. exists 0%nat. auto.
    + destruct (IH cols' pos ph H) as [p [H1 [H2 H3]]]. exists (S p). auto.
Qed.

(* -------------------------------------------------------------------------------------- index_ofZ *)
Lemma index_ofZ_first : forall l i x, nth_error l i = Some x ->
  (forall j y, (j < i)%nat -> nth_error l j = Some y -> y <> x) -> index_ofZ x l = Some i.
Proof.
  induction l as [| y t IH]; intros i x Hi Hfirst; [destruct i; discriminate |].
  cbn [index_ofZ]. destruct i as [| i']; cbn [nth_error] in Hi.
  - inversion Hi; subst. rewrite Z.eqb_refl. reflexivity.
  - destruct (Z.eqb x y) eqn:E.
    + apply Z.eqb_eq in E. exfalso. apply (Hfirst 0%nat y); [lia | reflexivity | congruence].
    + rewrite (IH i' x Hi); [reflexivity |]. intros j z Hj Hz. apply (Hfirst (S j) z); [lia | exact Hz].
Qed.

Lemma index_ofZ_shifted : forall acc p a, strictly_incZ acc = true -> nth_error acc p = Some a ->
  index_ofZ (a + 1) (map (fun x => x + 1) acc) = Some p.
Proof.
  intros acc p a Hinc Hp. apply index_ofZ_first.
  - rewrite nth_error_map, Hp. reflexivity.
  - intros j y Hj Hy. rewrite nth_error_map in Hy. destruct (nth_error acc j) as [b |] eqn:Eb; [| discriminate].
    cbn [option_map] in Hy. inversion Hy; subst y.
    pose proof (strictly_incZ_lt acc Hinc j p b a Hj Eb Hp). lia.
Qed.

(* ----------------------------------------------------------------------------------- interval clause *)
Definition good_pair (acc : list Z) (cuts : list nat) (pr : Z * Z) : Prop :=
  exists p cp, nth_error acc p = Some (fst pr - 1) /\ nth_error acc cp = Some (snd pr - 1) /\
    In cp cuts /\ (cp <= p)%nat /\ (forall c', In c' cuts -> (c' <= p)%nat -> (c' <= cp)%nat).

Lemma intervals_of_good : forall acc cuts pairs, strictly_incZ acc = true ->
  (forall pr, In pr pairs -> good_pair acc cuts pr) ->
  intervals_okb (map (fun x => x + 1) acc) pairs = true.
Proof.
  intros acc cuts pairs Hinc Hgood. unfold intervals_okb. apply forallb_forall. intros m Hm.
  destruct (Hgood m Hm) as [p [cp [Hp [Hcp [Hin [Hle Hmax]]]]]].
  assert (E1 : index_ofZ (fst m) (map (fun x => x + 1) acc) = Some p).
  { replace (fst m) with (fst m - 1 + 1) by lia. apply index_ofZ_shifted; assumption. }
  assert (E2 : index_ofZ (snd m) (map (fun x => x + 1) acc) = Some cp).
  { replace (snd m) with (snd m - 1 + 1) by lia. apply index_ofZ_shifted; assumption. }
  rewrite E1, E2. apply andb_true_iff. split; [apply Nat.leb_le; exact Hle |].
  apply forallb_forall. intros m' Hm'.
  destruct (Z.eqb (snd m') (snd m)) eqn:Es; [reflexivity |]. cbn [orb]. apply Z.eqb_neq in Es.
  destruct (Hgood m' Hm') as [p' [cp' [Hp' [Hcp' [Hin' [Hle' Hmax']]]]]].
  assert (E3 : index_ofZ (snd m') (map (fun x => x + 1) acc) = Some cp').
  { replace (snd m') with (snd m' - 1 + 1) by lia. apply index_ofZ_shifted; assumption. }
  rewrite E3. apply negb_true_iff. apply andb_false_iff.
  destruct (le_lt_dec cp cp') as [H1 | H1]; [| left; apply Nat.leb_gt; exact H1].
  destruct (le_lt_dec cp' p) as [H2 | H2]; [| right; apply Nat.leb_gt; exact H2].
  exfalso. assert (cp' <= cp)%nat by (apply Hmax; assumption).
  assert (cp' = cp) by lia. subst cp'. rewrite Hcp in Hcp'. inversion Hcp'. lia.
Qed.

(* ---------------------------------------------------------------------------------------- the writer *)
Lemma optZ_eqb_refl : forall a, optZ_eqb a a = true.
Proof. intros [a |]; cbn [optZ_eqb]; [apply Z.eqb_refl | reflexivity]. Qed.

Lemma same_mset_sort_l : forall l, same_mset (sortZ l) l = true.
Proof. intros l. apply same_mset_perm. apply sortZ_perm. Qed.

Definition obs_of (m : dict) (phases : list (Z * list Z)) (r : inrec) : obs :=
  let c := write_call m phases (fst (fst r)) (snd (fst r)) (snd r) false in
  (fst (fst r) + 1, snd (fst r), snd r, fst (fst c), snd (fst c), snd c).

Lemma obs_of_model_map : forall m phases recs,
  obs_of_model recs (map (fun r : inrec => (fst (fst r), write_call m phases (fst (fst r)) (snd (fst r)) (snd r) false)) recs)
  = map (obs_of m phases) recs.
Proof.
  intros m phases recs. unfold obs_of_model. induction recs as [| r t IH]; [reflexivity |].
  cbn [map combine]. rewrite IH. reflexivity.
Qed.

(* what is known about a record whose position has a phase *)
Definition rec_facts (acc : list Z) (cols gs : list (list Z)) (r : inrec) : Prop :=
  forall ph, lookup_phase (phases_of acc cols) (fst (fst r)) = Some ph ->
    Permutation ph (snd (fst r)) /\ ~ In undet (snd (fst r)) /\ is_het (snd (fst r)) = true /\ snd (fst r) <> [].

Lemma col_eqb_refl : forall l, col_eqb l l = true.
Proof. unfold col_eqb. induction l as [| x t IH]; cbn [list_eqb]; [reflexivity |]. rewrite Z.eqb_refl, IH. reflexivity. Qed.

Lemma insertZ_repeat : forall a n, insertZ a (repeat a n) = a :: repeat a n.
Proof. intros a [| n]; cbn [repeat insertZ]; [reflexivity |]. rewrite Z.leb_refl. reflexivity. Qed.

Lemma sortZ_hom : forall g, is_het g = false -> sortZ g = g.
Proof.
  intros [| a t] H; [reflexivity |]. cbn [is_het] in H. apply negb_false_iff in H. rewrite forallb_forall in H.
  assert (Ht : t = repeat a (length t)).
  { clear -H. induction t as [| y u IH]; [reflexivity |]. cbn [length repeat].
    assert (Hy : y = a) by (symmetry; apply Z.eqb_eq; apply H; left; reflexivity). subst y. f_equal.
    apply IH. intros z Hz. apply H. right. exact Hz. }
  rewrite Ht. generalize (length t) as n. intros n. change (a :: repeat a n) with (repeat a (S n)).
  induction (S n) as [| m IH]; [reflexivity |]. cbn [repeat sortZ fold_right]. fold (sortZ (repeat a m)). rewrite IH.
  apply insertZ_repeat.
Qed.

Lemma fixed_gt_false : forall g, ~ In undet g -> is_het g = true -> g <> [] -> fixed_gt g = false.
Proof.
  intros g H1 H2 H3. unfold fixed_gt. rewrite (proj2 (memZ_false undet g) H1), H2. destruct g; [contradiction | reflexivity].
Qed.

Lemma gt_clause_ok : forall m acc cols gs r, rec_facts acc cols gs r -> gt_clause (obs_of m (phases_of acc cols) r) = true.
Proof.
  intros m acc cols gs [[pos in_gt] in_ps] Hf. unfold rec_facts in Hf. cbn [fst snd] in Hf.
  unfold obs_of, write_call. cbn [fst snd].
  destruct (lookup_phase (phases_of acc cols) pos) as [ph |] eqn:Eph.
  - destruct (Hf ph eq_refl) as [Hperm [Hnu [Hhet Hne]]].
    rewrite (proj2 (memZ_false undet in_gt) Hnu).
    pose proof (fixed_gt_false in_gt Hnu Hhet Hne) as Hfx.
    set (changed := negb (col_eqb (sortZ ph) (sortZ in_gt))).
    assert (Hgt : same_mset (if changed then sortZ ph else sortZ in_gt) in_gt = true).
    { destruct changed; apply same_mset_perm; [eapply perm_trans; [apply sortZ_perm | exact Hperm] | apply sortZ_perm]. }
    assert (Hun : forall gt, same_mset gt in_gt = true ->
                  gt_clause (pos + 1, in_gt, in_ps, gt, false, None) = true).
    { intros gt H1. unfold gt_clause, o_phased, o_out, o_in, o_ps, o_inps. cbn [fst snd]. rewrite Hfx, H1. reflexivity. }
    destruct (lookup m pos) as [c |].
    + destruct (is_het (if changed then ph else in_gt)).
      * unfold gt_clause, o_phased, o_out, o_in, o_ps, o_inps. cbn [fst snd]. rewrite Hfx.
        rewrite (proj2 (same_mset_perm ph in_gt) Hperm). rewrite (proj2 (memZ_false undet in_gt) Hnu). rewrite Hhet.
        destruct in_gt; [contradiction | reflexivity].
      * apply Hun. exact Hgt.
    + apply Hun. apply same_mset_sort_l.
  - unfold gt_clause, o_phased, o_out, o_in, o_ps, o_inps. cbn [fst snd].
    destruct (fixed_gt in_gt) eqn:Efx.
    + cbn [negb andb]. rewrite orb_true_l, andb_true_r.
      destruct (memZ undet in_gt) eqn:Em; [apply col_eqb_refl |].
      unfold fixed_gt in Efx. rewrite Em in Efx. cbn [orb] in Efx.
      destruct in_gt as [| a t]; [reflexivity |]. rewrite orb_false_r in Efx. apply negb_true_iff in Efx.
      rewrite (sortZ_hom _ Efx). apply col_eqb_refl.
    + destruct (memZ undet in_gt); [| rewrite same_mset_sort_l; reflexivity].
      rewrite (proj2 (same_mset_perm in_gt in_gt) (Permutation_refl _)). reflexivity.
Qed.

Lemma phased_pair_of : forall m phases r a s,
  In (a, s) (phased_pairs [obs_of m phases r]) ->
  exists ph c, lookup_phase phases (fst (fst r)) = Some ph /\ lookup m (fst (fst r)) = Some c /\
               a = fst (fst r) + 1 /\ s = c + 1.
Proof.
  intros m phases [[pos in_gt] in_ps] a s H. unfold phased_pairs in H. cbn [flat_map] in H. rewrite app_nil_r in H.
  unfold obs_of, write_call, o_phased, o_ps, o_pos in H. cbn [fst snd] in H.
  destruct (lookup_phase phases pos) as [ph |] eqn:Eph; [| destruct H].
  destruct (lookup m pos) as [c |] eqn:Ec; [| destruct H].
  match type of H with context [if is_het ?x then _ else _] => destruct (is_het x) end; cbn [fst snd] in H; [| destruct H].
  destruct H as [H | []]. inversion H; subst. exists ph, c. cbn [fst snd]. auto.
Qed.

Lemma phased_pairs_app : forall a b, phased_pairs (a ++ b) = phased_pairs a ++ phased_pairs b.
Proof. intros. unfold phased_pairs. apply flat_map_app. Qed.

Lemma phased_pairs_in : forall m phases recs pr, In pr (phased_pairs (map (obs_of m phases) recs)) ->
  exists r, In r recs /\ In pr (phased_pairs [obs_of m phases r]).
Proof.
  intros m phases recs pr. induction recs as [| r t IH]; intros H; [contradiction |].
  cbn [map] in H. change (obs_of m phases r :: map (obs_of m phases) t) with ([obs_of m phases r] ++ map (obs_of m phases) t) in H.
  rewrite phased_pairs_app in H. apply in_app_or in H. destruct H as [H | H].
  - exists r. split; [left; reflexivity | exact H].
  - destruct (IH H) as [r' [Hr' Hp]]. exists r'. split; [right; exact Hr' | exact Hp].
Qed.

Theorem sample_output_ok : forall acc cols cuts gs (recs : list inrec),
  strictly_incZ acc = true -> cuts_okb cuts = true -> Forall (fun c => (c < length acc)%nat) cuts ->
  length cols = length acc ->
  Forall2 (fun g c => In undet c \/ Permutation c g) gs cols ->
  (forall p a g r, nth_error acc p = Some a -> nth_error gs p = Some g -> In r recs -> fst (fst r) = a ->
      Permutation (snd (fst r)) g /\ is_het g = true /\ ~ In undet g /\ g <> []) ->
  exists outs, sample_out acc cols cuts recs = Some outs /\
               sample_okb (map (fun a => a + 1) acc) (obs_of_model recs outs) = true.
Proof.
  intros acc cols cuts gs recs Hinc Hcuts Hlt Hlen Hob Hrecs.
  destruct (components_are_intervals acc cuts Hinc Hcuts Hlt) as [m [Hm Hchar]].
  unfold sample_out. rewrite Hm. eexists. split; [reflexivity |].
  rewrite obs_of_model_map. unfold sample_okb. apply andb_true_iff.
  assert (Hfacts : forall r, In r recs -> rec_facts acc cols gs r).
  { intros r Hr ph Hph. destruct (phases_of_spec acc cols _ ph Hph) as [p [Hp [Hc Hnu]]].
    assert (Hg : exists g, nth_error gs p = Some g /\ (In undet ph \/ Permutation ph g)).
    { assert (Hl : length gs = length cols) by (apply (Forall2_to_nth _ _ _ [] [] _ _ Hob)).
      destruct (nth_error gs p) as [g |] eqn:Eg.
      - destruct (Forall2_nth_error_l _ _ _ _ _ p g Hob Eg) as [y [Hy Hyo]]. rewrite Hc in Hy. inversion Hy; subst y. eauto.
      - apply nth_error_None in Eg. assert (p < length cols)%nat by (apply nth_error_Some; congruence). lia. }
    destruct Hg as [g [Hg Hobg]]. destruct Hobg as [Hu | Hperm]; [apply memZ_false in Hnu; contradiction |].
    destruct (Hrecs p (fst (fst r)) g r Hp Hg Hr eq_refl) as [H1 [H2 [H3 H4]]].
    assert (Hne : snd (fst r) <> []).
    { intros Heq. rewrite Heq in H1. apply Permutation_nil in H1. contradiction. }
    split; [eapply perm_trans; [exact Hperm | apply Permutation_sym; exact H1] |]. split; [| split].
    - intros Hc'. apply H3. eapply Permutation_in; [exact H1 | exact Hc'].
    - apply (is_het_perm g); [apply Permutation_sym; exact H1 | exact H4 | exact H2].
    - exact Hne. }
  split.
  - apply forallb_forall. intros o Ho. apply in_map_iff in Ho. destruct Ho as [r [Hr Hrin]]. subst o.
    apply (gt_clause_ok m acc cols gs). apply Hfacts. exact Hrin.
  - apply (intervals_of_good acc cuts); [exact Hinc |]. intros [a s] Hpr.
    destruct (phased_pairs_in _ _ _ _ Hpr) as [r [Hr Hp1]].
    destruct (phased_pair_of _ _ _ _ _ Hp1) as [ph [c [Hph [Hc [Ha Hs]]]]].
    destruct (phases_of_spec acc cols _ ph Hph) as [p [Hp _]].
    destruct (Hchar p _ Hp) as [cp [name [Hin [Hle [Hmax [Hname Hlook]]]]]].
    rewrite Hc in Hlook. inversion Hlook; subst name.
    exists p, cp. cbn [fst snd]. subst a s.
    replace (fst (fst r) + 1 - 1) with (fst (fst r)) by lia. replace (c + 1 - 1) with c by lia.
    repeat split; assumption.
Qed.

(* ------------------------------------------------------------------------ everything composed, one sample *)
Lemma Forall2_weaken : forall A B (R S : A -> B -> Prop) l1 l2,
  (forall a b, R a b -> S a b) -> Forall2 R l1 l2 -> Forall2 S l1 l2.
Proof. intros A B R S l1 l2 H H2. induction H2; constructor; auto. Qed.

Theorem polyphase_sample_ok : forall d k acc gs cols rest sens dec (recs : list inrec),
  SolvesN AlwaysCandidate d k gs cols -> Forall (fun g => length g = k) gs ->
  strictly_incZ acc = true -> length acc = length gs ->
  nondecN (map fst ((0%nat, true) :: rest)) = true ->
  Forall (fun b => (fst b < length acc)%nat) ((0%nat, true) :: rest) ->
  (forall p a g r, nth_error acc p = Some a -> nth_error gs p = Some g -> In r recs -> fst (fst r) = a ->
      Permutation (snd (fst r)) g /\ is_het g = true /\ ~ In undet g /\ g <> []) ->
  exists outs, sample_out acc cols (compute_cuts sens dec ((0%nat, true) :: rest)) recs = Some outs /\
               sample_okb (map (fun a => a + 1) acc) (obs_of_model recs outs) = true.
Proof.
  intros d k acc gs cols rest sens dec recs Hsol Hg Hinc Hlen Hsorted Hin Hrecs.
  pose proof (pipeline_conforms d k gs cols Hsol Hg) as Hconf.
  destruct (cuts_sorted_start_at_zero sens dec rest Hsorted) as [Hok Hsub].
  apply (sample_output_ok acc cols _ gs recs Hinc Hok).
  - apply Forall_forall. intros c Hc. specialize (Hsub c Hc). apply in_map_iff in Hsub.
    destruct Hsub as [b [Hb Hbin]]. subst c. rewrite Forall_forall in Hin. apply Hin. exact Hbin.
  - destruct (Forall2_to_nth _ _ _ [] [] _ _ Hconf) as [Hl _]. lia.
  - eapply Forall2_weaken; [| exact Hconf]. intros g c [_ H]. exact H.
  - exact Hrecs.
Qed.

(* ------------------------------------------------- the boolean envelope checkers used by the harness are sound *)
Lemma natlist_eqb_eq : forall a b, natlist_eqb a b = true -> a = b.
Proof.
  unfold natlist_eqb. induction a as [| x t IH]; intros [| y u] H; cbn [list_eqb] in H; try discriminate; [reflexivity |].
  apply andb_true_iff in H. destruct H as [H1 H2]. apply Nat.eqb_eq in H1. subst. f_equal. apply IH. exact H2.
Qed.

Lemma insert_allN_perm : forall x l p, In p (insert_allN x l) -> Permutation p (x :: l).
Proof.
  intros x l. induction l as [| y t IH]; intros p Hin; cbn [insert_allN In] in Hin.
  - destruct Hin as [Heq | []]. subst. apply Permutation_refl.
  - destruct Hin as [Heq | Hin]; [subst; apply Permutation_refl |].
    apply in_map_iff in Hin. destruct Hin as [q [Heq Hq]]. subst p.
    eapply perm_trans; [apply perm_skip; apply IH; exact Hq | apply perm_swap].
Qed.

Lemma permsN_perm : forall l p, In p (permsN l) -> Permutation p l.
Proof.
  induction l as [| x t IH]; intros p Hin; cbn [permsN In] in Hin.
  - destruct Hin as [Heq | []]. subst. apply Permutation_refl.
  - apply in_flat_map in Hin. destruct Hin as [q [Hq Hp]].
    eapply perm_trans; [apply insert_allN_perm; exact Hp | apply perm_skip; apply IH; exact Hq].
Qed.

Lemma in_force_pos_sound : forall fb g cfg out,
  in_force_pos fb g cfg out = true -> In (Some out) (force_pos_envelope fb g cfg).
Proof.
  intros fb g cfg out H. unfold in_force_pos in H. apply existsb_exists in H. destruct H as [x [Hx Heq]].
  apply ocol_eqb_eq in Heq. subst x. exact Hx.
Qed.

Lemma cuts_replay_sound : forall sens decs bps obs,
  cuts_replay sens decs bps obs = true -> exists dec, compute_cuts sens dec bps = obs.
Proof.
  intros sens decs bps obs H. unfold cuts_replay in H. apply natlist_eqb_eq in H. eexists. exact H.
Qed.

Lemma assignments_in_envelope_sound : forall affs cur obs,
  assignments_in_envelope cur affs obs = true ->
  exists bests, Forall2 (fun b aff => Permutation b aff) bests affs /\ assignments_from cur bests = Some (cur :: obs).
Proof.
  induction affs as [| aff affs' IH]; intros cur obs H; destruct obs as [| nx obs']; cbn [assignments_in_envelope] in H;
    try discriminate.
  - exists []. split; [constructor | reflexivity].
  - apply andb_true_iff in H. destruct H as [H1 H2]. apply existsb_exists in H1. destruct H1 as [p [Hp Hstep]].
    destruct (assign_step cur p) as [y |] eqn:Ey; [| discriminate]. apply natlist_eqb_eq in Hstep. subst y.
    destruct (IH nx obs' H2) as [bests [Hb Ha]]. exists (p :: bests). split.
    + constructor; [apply permsN_perm; exact Hp | exact Hb].
    + cbn [assignments_from]. rewrite Ey, Ha. reflexivity.
Qed.

Theorem envelope_checkers_sound :
  (forall fb g cfg out, in_force_pos fb g cfg out = true -> In (Some out) (force_pos_envelope fb g cfg)) /\
  (forall sens decs bps obs, cuts_replay sens decs bps obs = true -> exists dec, compute_cuts sens dec bps = obs) /\
  (forall affs cur obs, assignments_in_envelope cur affs obs = true ->
     exists bests, Forall2 (fun b aff => Permutation b aff) bests affs /\
                   assignments_from cur bests = Some (cur :: obs)).
Proof.
  split; [exact in_force_pos_sound |]. split; [exact cuts_replay_sound | exact assignments_in_envelope_sound].
Qed.
