(* Proofs about the diploid part of model/Compare.v (C11): switch encoding, Hamming distance,
   switch/flip decomposition, compare_block, BED records, longest-block agreement, block intersection. *)
From Coq Require Import List Bool Arith NArith ZArith Lia Permutation.
From WH.Model Require Import Compare.
Import ListNotations.

(* ------------------------------------------------------------------------------------------ *)
(* basic facts                                                                                 *)
(* ------------------------------------------------------------------------------------------ *)

Lemma complement_length : forall p, length (complement p) = length p.
Proof. intro p. unfold complement. apply map_length. Qed.

Lemma complement_involutive : forall p, complement (complement p) = p.
Proof.
  induction p as [|a p IH]; [reflexivity|].
  cbn [complement map]. rewrite negb_involutive. f_equal. exact IH.
Qed.

Lemma hap_eqb_eq : forall a b, hap_eqb a b = true <-> a = b.
Proof.
  induction a as [|x a IH]; intros [|y b]; cbn [hap_eqb]; split; intro H; try reflexivity; try discriminate.
  - apply andb_true_iff in H. destruct H as [H1 H2]. apply eqb_prop in H1. apply IH in H2. congruence.
  - inversion H; subst. rewrite eqb_reflx. cbn. apply IH. reflexivity.
Qed.

Lemma sw_cons2 : forall a b t, switch_encoding (a :: b :: t) = xorb a b :: switch_encoding (b :: t).
Proof. reflexivity. Qed.

Lemma sw_complement : forall p, switch_encoding (complement p) = switch_encoding p.
Proof.
  induction p as [|a p IH]; [reflexivity|].
  destruct p as [|b p]; [reflexivity|].
  change (complement (a :: b :: p)) with (negb a :: negb b :: complement p).
  change (complement (b :: p)) with (negb b :: complement p) in IH.
  rewrite !sw_cons2, IH. f_equal. destruct a, b; reflexivity.
Qed.

Lemma sw_length : forall p, length (switch_encoding p) = length p - 1.
Proof.
  induction p as [|a p IH]; [reflexivity|].
  destruct p as [|b p]; [reflexivity|].
  cbn [switch_encoding length] in *. lia.
Qed.

Lemma hamming_refl : forall p, hamming p p = 0.
Proof.
  unfold hamming. induction p as [|a p IH]; [reflexivity|].
  cbn [hamming_by]. rewrite xorb_nilpotent. exact IH.
Qed.

Lemma hamming_sym : forall p q, hamming p q = hamming q p.
Proof.
  unfold hamming. induction p as [|a p IH]; intros [|b q]; try reflexivity.
  cbn [hamming_by]. rewrite (xorb_comm a b), IH. reflexivity.
Qed.

Lemma hamming_compl_both : forall p q, hamming (complement p) (complement q) = hamming p q.
Proof.
  unfold hamming, complement. induction p as [|a p IH]; intros [|b q]; try reflexivity.
  cbn [map hamming_by]. rewrite IH. destruct a, b; reflexivity.
Qed.

Lemma hamming_compl_l : forall p q, hamming (complement p) q = hamming p (complement q).
Proof.
  intros p q. rewrite <- (complement_involutive q) at 1. apply hamming_compl_both.
Qed.

Lemma hamming_compl_total : forall p q, length p = length q ->
  hamming p q + hamming p (complement q) = length p.
Proof.
  unfold hamming, complement. induction p as [|a p IH]; intros [|b q] Hl; try discriminate; [reflexivity|].
  cbn [map hamming_by length] in *. specialize (IH q ltac:(lia)).
  destruct a, b; cbn; lia.
Qed.

Lemma hamming_le_length : forall p q, hamming p q <= length p.
Proof.
  unfold hamming. induction p as [|a p IH]; intros [|b q]; cbn [hamming_by length]; try lia.
  specialize (IH q). destruct (xorb a b); lia.
Qed.

Lemma hamming_zero_eq : forall p q, length p = length q -> hamming p q = 0 -> p = q.
Proof.
  unfold hamming. induction p as [|a p IH]; intros [|b q] Hl H; try discriminate; [reflexivity|].
  cbn [hamming_by length] in *.
  destruct (xorb a b) eqn:E; [discriminate|].
  apply xorb_eq in E. subst. f_equal. apply IH; lia.
Qed.

(* ------------------------------------------------------------------------------------------ *)
(* switch/flip decomposition: switches = sf.switches + 2 * sf.flips                            *)
(* ------------------------------------------------------------------------------------------ *)

Lemma csf_loop_inv : forall s0 s1 row fl sw,
  length s0 = length s1 -> (s0 = [] -> row = 0) ->
  fst (csf_loop s0 s1 row fl sw) + 2 * snd (csf_loop s0 s1 row fl sw)
  = sw + 2 * fl + row + hamming s0 s1.
Proof.
  induction s0 as [|a t0 IH]; intros [|b t1] row fl sw Hl Hrow; try discriminate.
  - cbn. rewrite (Hrow eq_refl). lia.
  - cbn [csf_loop]. unfold hamming. cbn [hamming_by]. fold (hamming t0 t1).
    cbn [length] in Hl.
    set (row' := if xorb a b then S row else row).
    destruct (match t0 with [] => true | _ :: _ => false end || negb (xorb a b)) eqn:Hc.
    + rewrite IH by (auto; lia).
      pose proof (Nat.div_mod row' 2 ltac:(lia)) as Hdm.
      subst row'. destruct (xorb a b); lia.
    + apply orb_false_iff in Hc. destruct Hc as [Hlast Hx].
      rewrite IH.
      * subst row'. destruct (xorb a b); lia.
      * lia.
      * intro Ht. subst t0. discriminate.
Qed.

Lemma sf_identity : forall p0 p1, length p0 = length p1 ->
  hamming (switch_encoding p0) (switch_encoding p1)
  = fst (compute_switch_flips p0 p1) + 2 * snd (compute_switch_flips p0 p1).
Proof.
  intros p0 p1 Hl. unfold compute_switch_flips.
  rewrite csf_loop_inv; [lia| rewrite !sw_length; lia | reflexivity].
Qed.

Lemma csf_loop_sym : forall s0 s1 row fl sw, length s0 = length s1 ->
  csf_loop s0 s1 row fl sw = csf_loop s1 s0 row fl sw.
Proof.
  induction s0 as [|a t0 IH]; intros [|b t1] row fl sw Hl; try discriminate; [reflexivity|].
  cbn [csf_loop]. cbn [length] in Hl. rewrite (xorb_comm b a).
  assert (Hlast : match t0 with [] => true | _ :: _ => false end = match t1 with [] => true | _ :: _ => false end).
  { destruct t0, t1; try discriminate; reflexivity. }
  rewrite <- Hlast.
  destruct (match t0 with [] => true | _ :: _ => false end || negb (xorb a b)); apply IH; lia.
Qed.

Lemma compute_switch_flips_sym : forall p0 p1, length p0 = length p1 ->
  compute_switch_flips p0 p1 = compute_switch_flips p1 p0.
Proof.
  intros p0 p1 Hl. unfold compute_switch_flips. apply csf_loop_sym. rewrite !sw_length. lia.
Qed.

Lemma compute_switch_flips_compl_l : forall p0 p1,
  compute_switch_flips (complement p0) p1 = compute_switch_flips p0 p1.
Proof. intros. unfold compute_switch_flips. rewrite sw_complement. reflexivity. Qed.

Lemma compute_switch_flips_compl_r : forall p0 p1,
  compute_switch_flips p0 (complement p1) = compute_switch_flips p0 p1.
Proof. intros. unfold compute_switch_flips. rewrite sw_complement. reflexivity. Qed.

(* ------------------------------------------------------------------------------------------ *)
(* compare_block (ploidy 2) on a heterozygous block                                            *)
(* ------------------------------------------------------------------------------------------ *)

Lemma diff_genotypes_het : forall p0 p1, length p0 = length p1 ->
  diff_genotypes_dip p0 (complement p0) p1 (complement p1) = 0.
Proof.
  unfold complement. induction p0 as [|a p0 IH]; intros [|b p1] Hl; try discriminate; [reflexivity|].
  cbn [map diff_genotypes_dip length] in *. rewrite IH by lia. destruct a, b; reflexivity.
Qed.

Lemma diff_genotypes_swap0 : forall a b c d, diff_genotypes_dip a b c d = diff_genotypes_dip b a c d.
Proof.
  induction a as [|x a IH]; intros [|y b] [|z c] [|w d]; try reflexivity.
  cbn [diff_genotypes_dip]. rewrite (Nat.add_comm (b2n y) (b2n x)), IH. reflexivity.
Qed.

Lemma diff_genotypes_swap1 : forall a b c d, diff_genotypes_dip a b c d = diff_genotypes_dip a b d c.
Proof.
  induction a as [|x a IH]; intros [|y b] [|z c] [|w d]; try reflexivity.
  cbn [diff_genotypes_dip]. rewrite (Nat.add_comm (b2n w) (b2n z)), IH. reflexivity.
Qed.

Lemma diff_genotypes_sym : forall a b c d, diff_genotypes_dip a b c d = diff_genotypes_dip c d a b.
Proof.
  induction a as [|x a IH]; intros [|y b] [|z c] [|w d]; try reflexivity.
  cbn [diff_genotypes_dip]. rewrite (Nat.eqb_sym (b2n z + b2n w)), IH. reflexivity.
Qed.

Lemma half_double : forall n, Nat.div (n + n) 2 = n.
Proof. intro n. replace (n + n) with (n * 2) by lia. apply Nat.div_mul. lia. Qed.

(* the numbers compare_block reports for a heterozygous diploid block *)
Lemma compare_block_het : forall p0 p1, length p0 = length p1 ->
  compare_block_dip (p0, complement p0) (p1, complement p1)
  = Some (PE (hamming (switch_encoding p0) (switch_encoding p1))
             (Nat.min (hamming p0 p1) (hamming p0 (complement p1)))
             (compute_switch_flips p0 p1) 0).
Proof.
  intros p0 p1 Hl. unfold compare_block_dip.
  rewrite !complement_length, <- Hl, Nat.eqb_refl. cbn [andb].
  rewrite diff_genotypes_het by exact Hl.
  rewrite hamming_compl_both, (hamming_sym p1 p0), half_double.
  rewrite (hamming_compl_l p1 p0), (hamming_sym p1 (complement p0)), (hamming_compl_l p0 p1), half_double.
  reflexivity.
Qed.

Lemma compute_switch_flips_refl : forall p, compute_switch_flips p p = (0, 0).
Proof.
  intro p. pose proof (sf_identity p p eq_refl) as H. rewrite hamming_refl in H.
  destruct (compute_switch_flips p p) as [s f]. cbn [fst snd] in H.
  assert (s = 0) by lia. assert (f = 0) by lia. subst. reflexivity.
Qed.

Lemma zero_on_equal : forall p,
  compare_block_dip (p, complement p) (p, complement p) = Some (PE 0 0 (0, 0) 0).
Proof.
  intro p. rewrite compare_block_het by reflexivity.
  rewrite !hamming_refl, compute_switch_flips_refl. reflexivity.
Qed.

(* listing the two haplotypes of either phasing in the other order, or exchanging the two phasings *)
Lemma label_invariance : forall p0 p1, length p0 = length p1 ->
  compare_block_dip (complement p0, p0) (p1, complement p1)
    = compare_block_dip (p0, complement p0) (p1, complement p1) /\
  compare_block_dip (p0, complement p0) (complement p1, p1)
    = compare_block_dip (p0, complement p0) (p1, complement p1) /\
  compare_block_dip (p1, complement p1) (p0, complement p0)
    = compare_block_dip (p0, complement p0) (p1, complement p1).
Proof.
  intros p0 p1 Hl.
  pose proof (compare_block_het (complement p0) p1) as H1.
  rewrite complement_involutive, complement_length in H1. specialize (H1 Hl).
  pose proof (compare_block_het p0 (complement p1)) as H2.
  rewrite complement_involutive, complement_length in H2. specialize (H2 Hl).
  pose proof (compare_block_het p1 p0 (eq_sym Hl)) as H3.
  pose proof (compare_block_het p0 p1 Hl) as H0.
  split; [|split].
  - etransitivity; [exact H1|]. etransitivity; [|symmetry; exact H0].
    rewrite sw_complement, compute_switch_flips_compl_l.
    rewrite (hamming_compl_l p0 p1), (hamming_compl_both p0 p1).
    rewrite (Nat.min_comm (hamming p0 (complement p1)) (hamming p0 p1)). reflexivity.
  - etransitivity; [exact H2|]. etransitivity; [|symmetry; exact H0].
    rewrite sw_complement, compute_switch_flips_compl_r.
    rewrite (Nat.min_comm (hamming p0 (complement p1)) (hamming p0 p1)). reflexivity.
  - etransitivity; [exact H3|]. etransitivity; [|symmetry; exact H0].
    rewrite (hamming_sym (switch_encoding p1)), (hamming_sym p1 p0).
    rewrite (hamming_sym p1 (complement p0)), (hamming_compl_l p0 p1).
    rewrite (compute_switch_flips_sym p1 p0 (eq_sym Hl)). reflexivity.
Qed.

(* ------------------------------------------------------------------------------------------ *)
(* BED records                                                                                 *)
(* ------------------------------------------------------------------------------------------ *)

Lemma bed_loop_length : forall s0 s1 pos, length s0 = length s1 -> length pos = S (length s0) ->
  length (bed_loop s0 s1 pos) = hamming s0 s1.
Proof.
  unfold hamming. induction s0 as [|a t0 IH]; intros [|b t1] pos Hl Hp; try discriminate.
  - destruct pos; reflexivity.
  - destruct pos as [|x pt]; [discriminate|]. cbn [length] in *.
    destruct pt as [|y pt']; [discriminate|].
    cbn [bed_loop hamming_by]. rewrite app_length.
    rewrite (IH t1 (y :: pt')); try (cbn [length] in *; lia).
    destruct (xorb a b); reflexivity.
Qed.

Lemma bed_count : forall p0 p1 pos, length p0 = length p1 -> length pos = length p0 ->
  length (bed_records p0 p1 pos) = hamming (switch_encoding p0) (switch_encoding p1).
Proof.
  intros p0 p1 pos Hl Hp. unfold bed_records.
  destruct p0 as [|a p0].
  - destruct p1; [|discriminate]. destruct pos; [reflexivity|discriminate].
  - apply bed_loop_length; rewrite !sw_length; cbn [length] in *; lia.
Qed.

(* ------------------------------------------------------------------------------------------ *)
(* longest-block agreement vector                                                              *)
(* ------------------------------------------------------------------------------------------ *)

Lemma zeros_eqb : forall p q, zeros (zip_with Bool.eqb p q) = hamming p q.
Proof.
  unfold zeros, hamming. induction p as [|a p IH]; intros [|b q]; try reflexivity.
  cbn [zip_with filter hamming_by]. destruct a, b; cbn; rewrite IH; reflexivity.
Qed.

Lemma zeros_xorb : forall p q, zeros (zip_with xorb p q) = hamming p (complement q).
Proof.
  unfold zeros, hamming, complement. induction p as [|a p IH]; intros [|b q]; try reflexivity.
  cbn [zip_with filter hamming_by map]. destruct a, b; cbn; rewrite IH; reflexivity.
Qed.

Lemma agreement_fixed_zeros : forall p0 h0 p1 h1,
  zeros (agreement_fixed (p0, h0) (p1, h1)) = Nat.min (hamming p0 p1) (hamming p0 (complement p1)).
Proof.
  intros. unfold agreement_fixed, agreement_with, orientation_fixed. cbn [fst snd].
  destruct (Nat.ltb (hamming p0 p1) (hamming p0 (complement p1))) eqn:E.
  - apply Nat.ltb_lt in E. rewrite zeros_eqb. lia.
  - apply Nat.ltb_ge in E. rewrite zeros_xorb. lia.
Qed.

Lemma agreement_fixed_matches_hamming : forall p0 p1 e, length p0 = length p1 ->
  compare_block_dip (p0, complement p0) (p1, complement p1) = Some e ->
  zeros (agreement_fixed (p0, complement p0) (p1, complement p1)) = pe_hamming e.
Proof.
  intros p0 p1 e Hl He. rewrite compare_block_het in He by exact Hl.
  inversion He; subst e. cbn [pe_hamming]. apply agreement_fixed_zeros.
Qed.

Lemma zip_eqb_complement : forall p q, zip_with Bool.eqb p (complement q) = zip_with xorb p q.
Proof.
  unfold complement. induction p as [|a p IH]; intros [|b q]; try reflexivity.
  cbn [map zip_with]. rewrite IH. destruct a, b; reflexivity.
Qed.

Lemma agreement_fixed_alt_eq : forall p0 p1,
  agreement_fixed_alt (p0, complement p0) (p1, complement p1)
  = agreement_fixed (p0, complement p0) (p1, complement p1).
Proof.
  intros. unfold agreement_fixed_alt, agreement_fixed, agreement_with, orientation_fixed. cbn [fst snd].
  rewrite zip_eqb_complement. reflexivity.
Qed.

Lemma agreement_fixed_alt_matches_hamming : forall p0 p1 e, length p0 = length p1 ->
  compare_block_dip (p0, complement p0) (p1, complement p1) = Some e ->
  zeros (agreement_fixed_alt (p0, complement p0) (p1, complement p1)) = pe_hamming e.
Proof.
  intros p0 p1 e Hl He. rewrite agreement_fixed_alt_eq. apply agreement_fixed_matches_hamming; assumption.
Qed.

Definition f1_p0 : hap := [false; false; false].
Definition f1_p1 : hap := [false; false; true].

Lemma agreement_current_refuted : exists p0 p1 e, length p0 = length p1 /\
  compare_block_dip (p0, complement p0) (p1, complement p1) = Some e /\
  zeros (agreement_current (p0, complement p0) (p1, complement p1)) <> pe_hamming e.
Proof.
  exists f1_p0, f1_p1, (PE 1 1 (1, 0) 0).
  split; [reflexivity|]. split; [vm_compute; reflexivity|]. vm_compute. discriminate.
Qed.

(* ------------------------------------------------------------------------------------------ *)
(* switches_def: hamming of the switch encodings = minimum number of switch points             *)
(* ------------------------------------------------------------------------------------------ *)

(* flip entry j of a switch encoding *)
Fixpoint toggle (j : nat) (s : hap) {struct s} : hap :=
  match s with
  | [] => []
  | x :: t => match j with 0 => negb x :: t | S j' => x :: toggle j' t end
  end.

Lemma switch_at_nil : forall j, switch_at j [] = [].
Proof. intro j. reflexivity. Qed.

Lemma switch_at_0 : forall a t, switch_at 0 (a :: t) = a :: complement t.
Proof. reflexivity. Qed.

Lemma switch_at_S : forall j a t, switch_at (S j) (a :: t) = a :: switch_at j t.
Proof. reflexivity. Qed.

Lemma switch_at_head : forall j b t, exists r, switch_at j (b :: t) = b :: r.
Proof. intros [|j] b t; eexists; reflexivity. Qed.

Lemma switch_at_length : forall j p, length (switch_at j p) = length p.
Proof.
  intros j p. revert j. induction p as [|a p IH]; intros j; [reflexivity|].
  destruct j as [|j].
  - rewrite switch_at_0. cbn [length]. rewrite complement_length. reflexivity.
  - rewrite switch_at_S. cbn [length]. rewrite IH. reflexivity.
Qed.

Lemma sw_switch_at : forall p j, switch_encoding (switch_at j p) = toggle j (switch_encoding p).
Proof.
  induction p as [|a t IH]; intros j; [rewrite switch_at_nil; reflexivity|].
  destruct j as [|j].
  - rewrite switch_at_0. destruct t as [|b t']; [reflexivity|].
    change (complement (b :: t')) with (negb b :: complement t').
    rewrite !sw_cons2. change (negb b :: complement t') with (complement (b :: t')).
    rewrite sw_complement. cbn [toggle]. f_equal. destruct a, b; reflexivity.
  - rewrite switch_at_S. destruct t as [|b t']; [reflexivity|].
    destruct (switch_at_head j b t') as [r Hr].
    rewrite sw_cons2. cbn [toggle]. rewrite <- IH, Hr, sw_cons2. reflexivity.
Qed.

Lemma apply_switches_length : forall ss p, length (apply_switches ss p) = length p.
Proof.
  induction ss as [|j ss IH]; intro p; [reflexivity|].
  cbn [apply_switches fold_right]. rewrite switch_at_length. apply IH.
Qed.

Lemma sw_apply_switches : forall ss p,
  switch_encoding (apply_switches ss p) = fold_right toggle (switch_encoding p) ss.
Proof.
  induction ss as [|j ss IH]; intro p; [reflexivity|].
  cbn [apply_switches fold_right]. rewrite sw_switch_at. f_equal. apply IH.
Qed.

Lemma hamming_toggle : forall j s r, hamming (toggle j s) r <= S (hamming s r).
Proof.
  unfold hamming. induction j as [|j IH]; intros [|x s] [|y r]; cbn [toggle hamming_by]; try lia.
  - destruct x, y; cbn; lia.
  - specialize (IH s r). lia.
Qed.

Lemma hamming_toggles : forall ss s, hamming (fold_right toggle s ss) s <= length ss.
Proof.
  induction ss as [|j ss IH]; intro s; cbn [fold_right length].
  - rewrite hamming_refl. lia.
  - pose proof (hamming_toggle j (fold_right toggle s ss) s). specialize (IH s). lia.
Qed.

Lemma sw_eq_cases : forall p q, length p = length q ->
  switch_encoding p = switch_encoding q -> p = q \/ p = complement q.
Proof.
  induction p as [|a t IH]; intros [|b u] Hl Hs; try discriminate; [left; reflexivity|].
  destruct t as [|a' t']; destruct u as [|b' u']; try discriminate.
  - destruct a, b; [left|right|right|left]; reflexivity.
  - rewrite !sw_cons2 in Hs. inversion Hs as [[Hx Ht]].
    cbn [length] in Hl.
    destruct (IH (b' :: u') ltac:(cbn [length]; lia) Ht) as [E|E].
    + injection E as Ea Et. subst a' t'. left. f_equal. clear - Hx. destruct a, b, b'; cbn in Hx; try reflexivity; discriminate.
    + change (complement (b' :: u')) with (negb b' :: complement u') in E.
      injection E as Ea Et. subst a' t'. right.
      change (complement (b :: b' :: u')) with (negb b :: negb b' :: complement u').
      f_equal. clear - Hx. destruct a, b, b'; cbn in Hx; try reflexivity; discriminate.
Qed.

Lemma transforms_iff : forall ss p0 p1,
  transforms ss p0 p1 = true <-> (apply_switches ss p0 = p1 \/ apply_switches ss p0 = complement p1).
Proof.
  intros. unfold transforms. rewrite orb_true_iff, !hap_eqb_eq. tauto.
Qed.

(* every set of switch points that works has at least hamming(sw p0, sw p1) elements *)
Lemma switches_lower_bound : forall ss p0 p1,
  transforms ss p0 p1 = true -> hamming (switch_encoding p0) (switch_encoding p1) <= length ss.
Proof.
  intros ss p0 p1 H. apply transforms_iff in H.
  assert (Hs : switch_encoding (apply_switches ss p0) = switch_encoding p1).
  { destruct H as [H|H]; rewrite H; [reflexivity|apply sw_complement]. }
  rewrite sw_apply_switches in Hs. rewrite <- Hs, hamming_sym. apply hamming_toggles.
Qed.

(* positions (from offset i) at which two switch encodings differ *)
Fixpoint diffpos (s0 s1 : hap) (i : nat) : list nat :=
  match s0, s1 with
  | a :: t0, b :: t1 => (if xorb a b then [i] else []) ++ diffpos t0 t1 (S i)
  | _, _ => []
  end.

Lemma diffpos_shift : forall s0 s1 i, diffpos s0 s1 (S i) = map S (diffpos s0 s1 i).
Proof.
  induction s0 as [|a t0 IH]; intros [|b t1] i; try reflexivity.
  cbn [diffpos]. rewrite map_app, IH. destruct (xorb a b); reflexivity.
Qed.

Lemma diffpos_length : forall s0 s1 i, length (diffpos s0 s1 i) = hamming s0 s1.
Proof.
  unfold hamming. induction s0 as [|a t0 IH]; intros [|b t1] i; try reflexivity.
  cbn [diffpos hamming_by]. rewrite app_length, IH. destruct (xorb a b); reflexivity.
Qed.

Lemma diffpos_bounds : forall s0 s1 i j, In j (diffpos s0 s1 i) -> i <= j < i + length s0.
Proof.
  induction s0 as [|a t0 IH]; intros [|b t1] i j Hj; try (cbn in Hj; contradiction).
  cbn [diffpos length] in *. apply in_app_or in Hj. destruct Hj as [Hj|Hj].
  - destruct (xorb a b); [destruct Hj as [Hj|[]]; lia | destruct Hj].
  - apply IH in Hj. lia.
Qed.

Lemma diffpos_nodup : forall s0 s1 i, NoDup (diffpos s0 s1 i).
Proof.
  induction s0 as [|a t0 IH]; intros [|b t1] i; try constructor.
  cbn [diffpos]. destruct (xorb a b); cbn [app]; [|apply IH].
  constructor; [|apply IH]. intro Hin. apply diffpos_bounds in Hin. lia.
Qed.

Lemma fold_toggle_map_S : forall l a t,
  fold_right toggle (a :: t) (map S l) = a :: fold_right toggle t l.
Proof.
  induction l as [|j l IH]; intros a t; [reflexivity|].
  cbn [map fold_right]. rewrite IH. reflexivity.
Qed.

Lemma fold_toggle_diffpos : forall s0 s1, length s0 = length s1 ->
  fold_right toggle s0 (diffpos s0 s1 0) = s1.
Proof.
  induction s0 as [|a t0 IH]; intros [|b t1] Hl; try discriminate; [reflexivity|].
  cbn [diffpos]. rewrite diffpos_shift, fold_right_app, fold_toggle_map_S, IH by (cbn [length] in Hl; lia).
  destruct a, b; reflexivity.
Qed.

(* a set of exactly hamming(sw p0, sw p1) distinct, in-range switch points that works *)
Lemma switches_attained : forall p0 p1, length p0 = length p1 ->
  exists ss, NoDup ss /\ (forall j, In j ss -> S j < length p0) /\
             length ss = hamming (switch_encoding p0) (switch_encoding p1) /\
             transforms ss p0 p1 = true.
Proof.
  intros p0 p1 Hl.
  exists (diffpos (switch_encoding p0) (switch_encoding p1) 0).
  split; [apply diffpos_nodup|]. split; [|split].
  - intros j Hj. apply diffpos_bounds in Hj. rewrite sw_length in Hj. lia.
  - apply diffpos_length.
  - apply transforms_iff. apply sw_eq_cases.
    + rewrite apply_switches_length. exact Hl.
    + rewrite sw_apply_switches. apply fold_toggle_diffpos. rewrite !sw_length. lia.
Qed.

(* final form, with the transformation spelled out *)
Lemma switches_def : forall p0 p1, length p0 = length p1 ->
  (exists ss, NoDup ss /\ (forall j, In j ss -> S j < length p0) /\
              length ss = hamming (switch_encoding p0) (switch_encoding p1) /\
              (apply_switches ss p0 = p1 \/ apply_switches ss p0 = complement p1)) /\
  (forall ss, (apply_switches ss p0 = p1 \/ apply_switches ss p0 = complement p1) ->
              hamming (switch_encoding p0) (switch_encoding p1) <= length ss).
Proof.
  intros p0 p1 Hl. split.
  - destruct (switches_attained p0 p1 Hl) as [ss [H1 [H2 [H3 H4]]]].
    exists ss. repeat split; try assumption. apply transforms_iff. exact H4.
  - intros ss H. apply switches_lower_bound. apply transforms_iff. exact H.
Qed.
