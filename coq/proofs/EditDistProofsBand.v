(* The banded branch of align.pyx:edit_distance (model: EditDist.banded / band_cols / band_inner):
   soundness (every in-band cell is >= the true distance), exactness for cells whose true distance
   is <= the band (Ukkonen's argument), the early exit, and the contract of the whole function. *)
From Coq Require Import List Arith Bool ZArith Lia.
From WH.Model Require Import EditDist.
From WH.Proofs Require Import EditDistProofs.
Import ListNotations.

(* ---- the costs array *)
Lemma upd_length l : forall i v, length (upd l i v) = length l.
Proof. induction l as [|x l IH]; intros [|i] v; simpl; auto. Qed.

Lemma get_upd_same l : forall i v, i < length l -> get (upd l i v) i = v.
Proof.
induction l as [|x l IH]; intros [|i] v H; simpl in *; try lia.
- reflexivity.
- apply IH. lia.
Qed.

Lemma get_upd_other l : forall i k v, i <> k -> get (upd l i v) k = get l k.
Proof.
induction l as [|x l IH]; intros [|i] [|k] v H; simpl; try reflexivity; try lia.
apply IH. lia.
Qed.

Lemma get_seq0 n i : i < n -> get (seq 0 n) i = i.
Proof. intro H. unfold get. rewrite seq_nth by exact H. reflexivity. Qed.

Section Band.
Variable A : Type.
Variable eqb : A -> A -> bool.

Notation lev := (lev eqb).
Notation delta := (delta eqb).
Notation D := (D A eqb).

Variable s : list A.
Variable e : nat.
Notation m := (length s).

(* ---- facts about the matrix D i ru = lev (first i characters of s) (ru reversed) *)
Lemma D_0 ru : D s 0 ru = length ru.
Proof. reflexivity. Qed.

Lemma D_nil i : i <= m -> D s i [] = i.
Proof. intro H. unfold EditDistProofs.D. rewrite lev_nil_r, rev_length, firstn_length. lia. Qed.

Lemma nth_error_lt i : i < m -> exists a, nth_error s i = Some a.
Proof.
intro H. destruct (nth_error s i) as [a|] eqn:E; [eauto|].
apply nth_error_None in E. lia.
Qed.

Lemma D_S_le i ru : D s (S i) ru <= S (D s i ru).
Proof.
destruct (Nat.lt_ge_cases i m) as [H|H].
- destruct (nth_error_lt i H) as [a Ha]. unfold EditDistProofs.D.
  rewrite (firstn_S_nth A s i a Ha), rev_app_distr. simpl. apply (lev_cons_l_le A eqb).
- unfold EditDistProofs.D. rewrite !firstn_all2 by lia. lia.
Qed.

Lemma D_col_le i b ru : D s i (b :: ru) <= S (D s i ru).
Proof. apply (lev_cons_r_le A eqb). Qed.

Lemma D_diag_le i b ru : D s (S i) (b :: ru) <= S (D s i ru).
Proof.
destruct (Nat.lt_ge_cases i m) as [H|H].
- destruct (nth_error_lt i H) as [a Ha].
  rewrite (D_step A eqb s i a b ru Ha). unfold min3.
  pose proof (delta_le1 A eqb a b). lia.
- pose proof (D_col_le (S i) b ru). unfold EditDistProofs.D in *. rewrite !firstn_all2 in * by lia. lia.
Qed.

Lemma D_le_max i ru : i <= m -> D s i ru <= Nat.max i (length ru).
Proof.
intro H. unfold EditDistProofs.D.
pose proof (lev_le_max A eqb (rev (firstn i s)) ru) as L.
rewrite rev_length, firstn_length in L. lia.
Qed.

Lemma D_ge_diff i ru : i <= m -> i <= D s i ru + length ru /\ length ru <= D s i ru + i.
Proof.
intro H. unfold EditDistProofs.D.
pose proof (lev_ge_diff A eqb (rev (firstn i s)) ru) as L.
rewrite rev_length, firstn_length in L. lia.
Qed.

(* every column of the matrix contains a cell that is at most the final distance *)
Lemma D_column_exists t1 ru :
  exists i, i <= m /\ D s i ru <= lev (rev s) (t1 ++ ru).
Proof.
destruct (lev_split A eqb (rev s) t1 ru) as [s1 [s2 [E H]]].
exists (length s2). split.
- apply (f_equal (@length A)) in E. rewrite rev_length, app_length in E. lia.
- unfold EditDistProofs.D.
  assert (E2 : rev (firstn (length s2) s) = s2).
  { apply (f_equal (@rev A)) in E. rewrite rev_involutive, rev_app_distr in E.
    rewrite E. rewrite <- (rev_length s2). rewrite firstn_app, Nat.sub_diag, firstn_all. simpl.
    rewrite app_nil_r. apply rev_involutive. }
  rewrite E2. exact H.
Qed.

(* ---- what a cell of the array is known to hold, relative to column ru (J = length ru) *)
Definition cell_ok (ru : list A) (i v : nat) : Prop :=
  (length ru + e < i -> v = i) /\
  (length ru <= i + e -> i <= length ru + e -> D s i ru <= v /\ (D s i ru <= e -> v = D s i ru)).

Definition Inv (ru : list A) (costs : list nat) : Prop :=
  length costs = S m /\ forall i, i <= m -> cell_ok ru i (get costs i).

(* a freshly computed in-band cell of the next column *)
Definition good (ru : list A) (i v : nat) : Prop :=
  D s i ru <= v /\ (D s i ru <= e -> v = D s i ru).

Lemma band_inner_spec b ru : forall cnt i costs prev sm costs' sm',
  band_inner eqb cnt i s b costs prev sm = (costs', sm') ->
  1 <= i -> i + cnt <= S m ->
  length ru + 1 <= i + e -> i + cnt <= length ru + 1 + e + 1 ->
  length costs = S m ->
  (forall k, i <= k -> k <= m -> cell_ok ru k (get costs k)) ->
  (i <= m -> cell_ok ru (i - 1) prev) ->
  (i <= m -> D s i (b :: ru) <= get costs (i - 1) + 1 /\
             (D s (i - 1) (b :: ru) < e -> get costs (i - 1) = D s (i - 1) (b :: ru))) ->
  length costs' = S m /\
  (forall k, k < i -> get costs' k = get costs k) /\
  (forall k, i + cnt <= k -> get costs' k = get costs k) /\
  (forall k, i <= k -> k < i + cnt -> good (b :: ru) k (get costs' k) /\ sm' <= get costs' k) /\
  sm' <= sm.
Proof.
induction cnt as [|cnt IH]; intros i costs prev sm costs' sm' Hrun Hi1 Hstop Hlo Hhi Hlen Hold Hprev Hleft.
- simpl in Hrun. injection Hrun as <- <-. repeat split; auto; intros; lia.
- cbn [band_inner] in Hrun.
  assert (Him : i <= m) by lia.
  destruct i as [|i0]; [lia|].
  replace (S i0 - 1) with i0 in * by lia.
  destruct (nth_error_lt i0 ltac:(lia)) as [a Ha]. rewrite Ha in Hrun.
  set (c := min3 (prev + delta a b) (get costs (S i0) + 1) (get costs i0 + 1)) in *.
  (* the new cell is good *)
  assert (Hgood : good (b :: ru) (S i0) c).
  { pose proof (D_step A eqb s i0 a b ru Ha) as E.
    destruct (Hprev Him) as [_ Hp]. specialize (Hp ltac:(lia) ltac:(lia)). destruct Hp as [Hp1 Hp2].
    destruct (Hold (S i0) ltac:(lia) Him) as [Hab Hin].
    destruct (Hleft Him) as [Hl1 Hl2].
    pose proof (D_le_max (S i0) (b :: ru) Him) as Hmax. cbn [length] in Hmax.
    pose proof (D_col_le (S i0) b ru) as Hcol.
    pose proof (D_ge_diff (S i0) ru Him) as [Hd1 Hd2].
    unfold good, min3 in *. subst c. unfold min3.
    destruct (Nat.lt_ge_cases (length ru + e) (S i0)) as [Habove|Hinb].
    - specialize (Hab Habove). split; [lia|].
      intro Hle. rewrite E in Hle |- *. unfold min3 in *. lia.
    - specialize (Hin ltac:(lia) Hinb). destruct Hin as [Hin1 Hin2].
      split; [rewrite E; unfold min3; lia|].
      intro Hle. rewrite E in Hle |- *. unfold min3 in *. lia. }
  assert (Hlenu : length (upd costs (S i0) c) = S m) by (rewrite upd_length; exact Hlen).
  specialize (IH (S (S i0)) (upd costs (S i0) c) (get costs (S i0)) (Nat.min sm c) costs' sm' Hrun
                 ltac:(lia) ltac:(lia) ltac:(lia) ltac:(lia) Hlenu).
  assert (Hsame : get (upd costs (S i0) c) (S i0) = c) by (apply get_upd_same; lia).
  destruct IH as [IH1 [IH2 [IH3 [IH4 IH5]]]].
  + intros k Hk Hkm. rewrite get_upd_other by lia. apply Hold; lia.
  + intros _. apply Hold; lia.
  + intros Hm2. replace (S (S i0) - 1) with (S i0) by lia. rewrite Hsame.
    destruct Hgood as [Hg1 Hg2]. split.
    * pose proof (D_S_le (S i0) (b :: ru)). lia.
    * intro Hlt. apply Hg2. lia.
  + split; [exact IH1|]. split; [|split; [|split; [|lia]]].
    * intros k Hk. rewrite IH2 by lia. apply get_upd_other. lia.
    * intros k Hk. rewrite IH3 by lia. apply get_upd_other. lia.
    * intros k Hk1 Hk2. destruct (Nat.eq_dec k (S i0)) as [->|Hne].
      -- rewrite IH2 by lia. rewrite Hsame. split; [exact Hgood|lia].
      -- apply IH4; lia.
Qed.

(* one column *)
Lemma band_column b ru costs :
  Inv ru costs ->
  let j := S (length ru) in
  let stop := Nat.min (j + e + 1) (m + 1) in
  forall costs1 prev sm1 start costs2 sm2,
  (if j <=? e then (upd costs 0 (get costs 0 + 1), get costs 0, get costs 0 + 1, 1)
   else (costs, get costs (j - e - 1), e + 1, j - e)) = (costs1, prev, sm1, start) ->
  band_inner eqb (stop - start) start s b costs1 prev sm1 = (costs2, sm2) ->
  Inv (b :: ru) costs2 /\
  (forall t1, lev (rev s) (t1 ++ b :: ru) <= e -> sm2 <= e).
Proof.
intros [Hlen Hcells] j stop costs1 prev sm1 start costs2 sm2 Hsel Hrun.
assert (Hj : j = S (length ru)) by reflexivity.
assert (Hstopdef : stop = Nat.min (j + e + 1) (m + 1)) by reflexivity.
clearbody stop. clearbody j.
assert (H0 : cell_ok ru 0 (get costs 0)) by (apply Hcells; lia).
destruct (Nat.leb_spec j e) as [Hje|Hje].
- (* j <= e: costs[0] is advanced *)
  injection Hsel as <- <- <- <-.
  destruct H0 as [_ H0]. specialize (H0 ltac:(lia) ltac:(lia)). rewrite D_0 in H0.
  destruct H0 as [_ H0]. specialize (H0 ltac:(lia)).
  assert (Hc0 : get (upd costs 0 (get costs 0 + 1)) 0 = length ru + 1) by (rewrite get_upd_same; lia).
  destruct (Nat.le_gt_cases stop 1) as [Hs1|Hs1].
  + (* empty window *)
    replace (stop - 1) with 0 in Hrun by lia. simpl in Hrun. injection Hrun as <- <-.
    split.
    * split; [rewrite upd_length; exact Hlen|].
      intros i Hi. assert (i = 0) by lia. subst i. rewrite Hc0. unfold cell_ok. cbn [length]. rewrite D_0. cbn [length].
      split; [lia|]. intros _ _. split; [lia|]. intros _. lia.
    * intros t1 Ht. lia.
  + pose proof (band_inner_spec b ru (stop - 1) 1 _ _ _ _ _ Hrun) as Sp.
    destruct Sp as [S1 [S2 [S3 [S4 S5]]]]; try lia.
    * rewrite upd_length; exact Hlen.
    * intros k Hk Hkm. rewrite get_upd_other by lia. apply Hcells; lia.
    * intros _. simpl. rewrite H0. unfold cell_ok. rewrite D_0. split; [lia|]. intros _ _. split; [lia|]. intros _; reflexivity.
    * intros _. replace (1 - 1) with 0 by lia. rewrite Hc0. rewrite D_0. cbn [length].
      pose proof (D_S_le 0 (b :: ru)) as HS. rewrite D_0 in HS. cbn [length] in HS. split; [lia|]. intros _. lia.
    * split.
      -- split; [exact S1|]. intros i Hi. unfold cell_ok. cbn [length].
         split.
         ++ intro Hab. rewrite S3 by lia. rewrite get_upd_other by lia.
            destruct (Hcells i Hi) as [Ha _]. apply Ha. lia.
         ++ intros Hb1 Hb2. destruct i as [|i0].
            ** rewrite S2 by lia. rewrite Hc0, D_0. cbn [length]. split; [lia|]. intros _. lia.
            ** destruct (S4 (S i0) ltac:(lia) ltac:(lia)) as [Hg _]. exact Hg.
      -- intros t1 Ht.
         destruct (D_column_exists t1 (b :: ru)) as [i [Hi HD]].
         destruct (D_ge_diff i (b :: ru) Hi) as [Hd1 Hd2]. cbn [length] in Hd1, Hd2.
         destruct i as [|i0].
         ++ lia.
         ++ destruct (S4 (S i0) ltac:(lia) ltac:(lia)) as [[Hg1 Hg2] Hsm].
            specialize (Hg2 ltac:(lia)). lia.
- (* j > e: the window starts at j - e *)
  injection Hsel as <- <- <- <-.
  destruct (Nat.le_gt_cases stop (j - e)) as [Hs1|Hs1].
  + (* empty window: m < j - e, nothing of this column is in the band *)
    replace (stop - (j - e)) with 0 in Hrun by lia. simpl in Hrun. injection Hrun as <- <-.
    split.
    * split; [exact Hlen|]. intros i Hi. unfold cell_ok. cbn [length].
      split.
      -- intro Hab. destruct (Hcells i Hi) as [Ha _]. apply Ha. lia.
      -- intros Hb1 Hb2. lia.
    * intros t1 Ht.
      destruct (D_column_exists t1 (b :: ru)) as [i [Hi HD]].
      destruct (D_ge_diff i (b :: ru) Hi) as [Hd1 Hd2]. cbn [length] in Hd1, Hd2. lia.
  + assert (Hsm : j - e <= m) by lia.
    assert (Hpc : cell_ok ru (j - e - 1) (get costs (j - e - 1))) by (apply Hcells; lia).
    assert (P6 : forall k, j - e <= k -> k <= m -> cell_ok ru k (get costs k))
      by (intros k Hk Hkm; apply Hcells; lia).
    assert (P7 : j - e <= m -> cell_ok ru (j - e - 1) (get costs (j - e - 1))) by (intros _; exact Hpc).
    assert (P8 : j - e <= m -> D s (j - e) (b :: ru) <= get costs (j - e - 1) + 1 /\
                 (D s (j - e - 1) (b :: ru) < e -> get costs (j - e - 1) = D s (j - e - 1) (b :: ru))).
    { intros _. destruct Hpc as [_ Hp]. specialize (Hp ltac:(lia) ltac:(lia)). destruct Hp as [Hp1 _].
      split.
      - pose proof (D_diag_le (j - e - 1) b ru) as Hd. replace (S (j - e - 1)) with (j - e) in Hd by lia. lia.
      - intro Hlt. destruct (D_ge_diff (j - e - 1) (b :: ru) ltac:(lia)) as [_ Hd2]. cbn [length] in Hd2. lia. }
    destruct (band_inner_spec b ru (stop - (j - e)) (j - e) _ _ _ _ _ Hrun
                ltac:(lia) ltac:(lia) ltac:(lia) ltac:(lia) Hlen P6 P7 P8) as [S1 [S2 [S3 [S4 S5]]]].
    split.
    * split; [exact S1|]. intros i Hi. unfold cell_ok. cbn [length].
      split.
      -- intro Hab. rewrite S3 by lia. destruct (Hcells i Hi) as [Ha _]. apply Ha. lia.
      -- intros Hb1 Hb2.
         destruct (S4 i ltac:(lia) ltac:(lia)) as [Hg _]. exact Hg.
    * intros t1 Ht.
      destruct (D_column_exists t1 (b :: ru)) as [i [Hi HD]].
      destruct (D_ge_diff i (b :: ru) Hi) as [Hd1 Hd2]. cbn [length] in Hd1, Hd2.
      destruct (S4 i ltac:(lia) ltac:(lia)) as [[Hg1 Hg2] Hsm2].
      specialize (Hg2 ltac:(lia)). lia.
Qed.

(* all columns *)
Lemma band_cols_spec : forall t2 ru costs sm costs' sm',
  band_cols eqb t2 (S (length ru)) s m e costs sm = (costs', sm') ->
  Inv ru costs ->
  (e < sm' \/ Inv (rev t2 ++ ru) costs') /\
  (sm <= e -> lev (rev s) (rev t2 ++ ru) <= e -> sm' <= e).
Proof.
induction t2 as [|b t2 IH]; intros ru costs sm costs' sm' Hrun HInv.
- simpl in Hrun. injection Hrun as <- <-. split; [right; exact HInv|]. intros; assumption.
- cbn [band_cols] in Hrun.
  destruct (if S (length ru) <=? e
            then (upd costs 0 (get costs 0 + 1), get costs 0, get costs 0 + 1, 1)
            else (costs, get costs (S (length ru) - e - 1), e + 1, S (length ru) - e))
    as [[[costs1 prev] sm1] start] eqn:Hsel.
  destruct (band_inner eqb (Nat.min (S (length ru) + e + 1) (m + 1) - start) start s b costs1 prev sm1)
    as [costs2 sm2] eqn:Hin.
  destruct (band_column b ru costs HInv _ _ _ _ _ _ Hsel Hin) as [HInv2 Hsm2].
  cbn [rev]. rewrite <- app_assoc. cbn [app].
  destruct (Nat.ltb_spec e sm2) as [Hbreak|Hcont].
  + injection Hrun as <- <-. split; [left; exact Hbreak|].
    intros _ Ht. apply (Hsm2 (rev t2)). exact Ht.
  + destruct (IH (b :: ru) costs2 sm2 costs' sm' Hrun HInv2) as [IH1 IH2].
    split; [exact IH1|]. intros _ Ht. apply IH2; [exact Hcont|exact Ht].
Qed.

End Band.

Section Contract.
Variable A : Type.
Variable eqb : A -> A -> bool.
Hypothesis eqb_spec : forall a b, reflect (a = b) (eqb a b).

Notation lev := (lev eqb).

Lemma Inv_init (s : list A) e : Inv A eqb s e [] (seq 0 (length s + 1)).
Proof.
split; [rewrite seq_length; lia|].
intros i Hi. rewrite get_seq0 by lia. unfold cell_ok. cbn [length]. rewrite D_nil by exact Hi.
split; [reflexivity|]. intros _ _. split; [lia|]. reflexivity.
Qed.

Theorem banded_spec (s t : list A) (e : nat) :
  absdiff (length s) (length t) <= e ->
  (lev s t <= e -> banded eqb s t e = lev s t) /\
  (e < lev s t -> e < banded eqb s t e).
Proof.
intro Hdiff. unfold banded.
destruct (band_cols eqb t 1 s (length s) e (seq 0 (length s + 1)) 0) as [costs sm] eqn:Hrun.
destruct (band_cols_spec A eqb s e t [] _ _ _ _ Hrun (Inv_init s e)) as [H1 H2].
rewrite app_nil_r in H1, H2.
assert (HD : D A eqb s (length s) (rev t) = lev s t).
{ unfold D. rewrite firstn_all. apply (lev_rev A eqb). }
rewrite (lev_rev A eqb) in H2.
unfold absdiff in Hdiff.
split.
- intro Hle. specialize (H2 ltac:(lia) Hle).
  destruct (Nat.ltb_spec e sm) as [Hb|Hb]; [lia|].
  destruct H1 as [H1|[_ H1]]; [lia|].
  destruct (H1 (length s) (le_n _)) as [_ Hc]. rewrite rev_length in Hc.
  specialize (Hc ltac:(lia) ltac:(lia)). destruct Hc as [_ Hc]. rewrite HD in Hc. apply Hc. exact Hle.
- intro Hgt.
  destruct (Nat.ltb_spec e sm) as [Hb|Hb]; [exact Hb|].
  destruct H1 as [H1|[_ H1]]; [lia|].
  destruct (H1 (length s) (le_n _)) as [_ Hc]. rewrite rev_length in Hc.
  specialize (Hc ltac:(lia) ltac:(lia)). destruct Hc as [Hc _]. rewrite HD in Hc. lia.
Qed.

Theorem banded_exact_or_larger (s t : list A) (maxdiff : Z) :
  maxdiff <> (-1)%Z ->
  ((Z.of_nat (lev s t) <= maxdiff)%Z -> edit_distance eqb s t maxdiff = lev s t) /\
  ((maxdiff < Z.of_nat (lev s t))%Z -> (maxdiff < Z.of_nat (edit_distance eqb s t maxdiff))%Z).
Proof.
intro Hne. unfold edit_distance.
destruct (Z.eqb_spec maxdiff (-1)) as [|_]; [contradiction|]. cbn [negb andb].
pose proof (lev_ge_diff A eqb s t) as [Hg1 Hg2].
pose proof (lev_le_max A eqb s t) as Hmax.
destruct (Z.geb_spec maxdiff (Z.of_nat (Nat.max (length s) (length t)))) as [Hwide|Hnarrow].
- (* the band is at least as wide as the longer string: unbanded computation *)
  cbn [Z.eqb negb andb].
  destruct (trim eqb s t) as [s' t'] eqn:E.
  destruct (trim_spec A eqb eqb_spec _ _ _ _ E) as [Hl _].
  rewrite (dist_is_lev A eqb), Hl. split; intro H; [reflexivity|lia].
- destruct (Z.eqb_spec maxdiff (-1)) as [|_]; [contradiction|]. cbn [negb andb].
  destruct (Z.gtb_spec (Z.of_nat (absdiff (length s) (length t))) maxdiff) as [Hfar|Hnear].
  + unfold absdiff in *. split; intro H; lia.
  + destruct (trim eqb s t) as [s' t'] eqn:E.
    destruct (trim_spec A eqb eqb_spec _ _ _ _ E) as [Hl Hn].
    assert (Hd : absdiff (length s') (length t') <= Z.to_nat maxdiff) by (unfold absdiff in *; lia).
    destruct (banded_spec s' t' (Z.to_nat maxdiff) Hd) as [B1 B2]. rewrite Hl in B1, B2.
    split; intro H.
    * apply B1. lia.
    * specialize (B2 ltac:(lia)). lia.
Qed.

(* the executable form of the contract used by the correspondence check is the same statement *)
Lemma banded_contract_iff (l : nat) (maxdiff : Z) (r : nat) :
  banded_contract l maxdiff r = true <->
  (((Z.of_nat l <= maxdiff)%Z -> r = l) /\ ((maxdiff < Z.of_nat l)%Z -> (maxdiff < Z.of_nat r)%Z)).
Proof.
unfold banded_contract. destruct (Z.leb_spec (Z.of_nat l) maxdiff) as [H|H].
- rewrite Nat.eqb_eq. split; [intro E; split; [auto|lia]|intros [E _]; auto].
- rewrite Z.ltb_lt. split; [intro E; split; [lia|auto]|intros [_ E]; auto].
Qed.

End Contract.
