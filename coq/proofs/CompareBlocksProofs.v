(* C11, block intersection of compare(): the joint blocks are exactly the non-empty intersections of
   the phase sets of the data sets. *)
From Coq Require Import List Bool Arith ZArith Lia.
From WH.Model Require Import Compare.
Import ListNotations.

Lemma zlist_eqb_eq : forall a b, zlist_eqb a b = true <-> a = b.
Proof.
  induction a as [|x a IH]; intros [|y b]; cbn [zlist_eqb]; split; intro H; try reflexivity; try discriminate.
  - apply andb_true_iff in H. destruct H as [H1 H2]. apply Z.eqb_eq in H1. apply IH in H2. congruence.
  - inversion H; subst. rewrite Z.eqb_refl. cbn. apply IH. reflexivity.
Qed.

Lemma zlist_eqb_refl : forall a, zlist_eqb a a = true.
Proof. intro a. apply zlist_eqb_eq. reflexivity. Qed.

Lemma zlist_eqb_neq : forall a b, a <> b -> zlist_eqb a b = false.
Proof.
  intros a b H. destruct (zlist_eqb a b) eqn:E; [|reflexivity]. apply zlist_eqb_eq in E. contradiction.
Qed.

(* does variant row r carry exactly the joint id key? *)
Definition row_key (r : list (option Z)) (key : list Z) : bool :=
  match all_some r with Some k => zlist_eqb k key | None => false end.

Definition members (pre : list (list (option Z))) (key : list Z) : list nat :=
  filter (fun u => row_key (nth u pre []) key) (seq 0 (length pre)).

Definition groups_ok (pre : list (list (option Z))) (g : list (list Z * list nat)) : Prop :=
  NoDup (map fst g) /\
  forall key vs, In (key, vs) g <-> (vs <> [] /\ vs = members pre key).

Lemma members_snoc : forall pre r key,
  members (pre ++ [r]) key = members pre key ++ (if row_key r key then [length pre] else []).
Proof.
  intros pre r key. unfold members.
  rewrite app_length. cbn [length]. rewrite Nat.add_1_r, seq_S, filter_app. cbn [Nat.add filter].
  rewrite nth_middle. f_equal.
  apply filter_ext_in. intros u Hu. apply in_seq in Hu. rewrite app_nth1 by lia. reflexivity.
Qed.

(* ---- group_add ---- *)
Lemma group_add_other : forall key v g key' vs, key' <> key ->
  (In (key', vs) (group_add key v g) <-> In (key', vs) g).
Proof.
  intros key v g key' vs Hne. induction g as [|[k ws] g IH]; cbn [group_add].
  - split; [intros [H|[]]; inversion H; subst; contradiction | intros []].
  - destruct (zlist_eqb k key) eqn:E.
    + apply zlist_eqb_eq in E. subst k. cbn [In].
      split; (intros [H|H]; [inversion H; subst; contradiction | right; exact H]).
    + cbn [In]. rewrite IH. reflexivity.
Qed.

Lemma group_add_absent : forall key v g vs, ~ In key (map fst g) ->
  (In (key, vs) (group_add key v g) <-> vs = [v]).
Proof.
  intros key v g vs. induction g as [|[k ws] g IH]; intro Hab; cbn [group_add].
  - split; [intros [H|[]]; inversion H; reflexivity | intros ->; left; reflexivity].
  - cbn [map fst In] in Hab.
    rewrite zlist_eqb_neq by (intro; apply Hab; left; assumption).
    cbn [In]. rewrite IH by tauto.
    split; [intros [H|H]; [inversion H; subst; exfalso; apply Hab; left; reflexivity | exact H] | intro H; right; exact H].
Qed.

Lemma group_add_present : forall key v g vs, In key (map fst g) -> NoDup (map fst g) ->
  (In (key, vs) (group_add key v g) <-> exists vs0, In (key, vs0) g /\ vs = vs0 ++ [v]).
Proof.
  intros key v g vs. induction g as [|[k ws] g IH]; intros Hin Hnd; [destruct Hin|].
  cbn [map fst] in Hin, Hnd. inversion Hnd as [|? ? Hnotin Hnd']; subst.
  cbn [group_add]. destruct (zlist_eqb k key) eqn:E.
  - apply zlist_eqb_eq in E. subst k. cbn [In]. split.
    + intros [H|H].
      * inversion H; subst. exists ws. split; [left; reflexivity|reflexivity].
      * exfalso. apply Hnotin. change key with (fst (key, vs)). apply in_map. exact H.
    + intros [vs0 [[H|H] ->]].
      * inversion H; subst. left. reflexivity.
      * exfalso. apply Hnotin. change key with (fst (key, vs0)). apply in_map. exact H.
  - assert (Hk : k <> key) by (intro; subst; rewrite zlist_eqb_refl in E; discriminate).
    destruct Hin as [Hin|Hin]; [contradiction|].
    cbn [In]. rewrite (IH Hin Hnd'). split.
    + intros [H|[vs0 [H ->]]]; [inversion H; subst; contradiction|].
      exists vs0. split; [right; exact H|reflexivity].
    + intros [vs0 [[H|H] ->]]; [inversion H; subst; contradiction|].
      right. exists vs0. split; [exact H|reflexivity].
Qed.

Lemma group_add_keys : forall key v g,
  (In key (map fst g) -> map fst (group_add key v g) = map fst g) /\
  (~ In key (map fst g) -> map fst (group_add key v g) = map fst g ++ [key]).
Proof.
  intros key v g. induction g as [|[k ws] g [IH1 IH2]]; cbn [group_add map fst].
  - split; [intros []|reflexivity].
  - destruct (zlist_eqb k key) eqn:E.
    + apply zlist_eqb_eq in E. subst k. cbn [map fst]. split; [reflexivity|].
      intro H. exfalso. apply H. left. reflexivity.
    + assert (Hk : k <> key) by (intro; subst; rewrite zlist_eqb_refl in E; discriminate).
      cbn [map fst In app]. split; intro H.
      * destruct H as [H|H]; [contradiction|]. rewrite IH1 by exact H. reflexivity.
      * rewrite IH2 by tauto. reflexivity.
Qed.

Lemma group_add_nodup : forall key v g, NoDup (map fst g) -> NoDup (map fst (group_add key v g)).
Proof.
  intros key v g Hnd. destruct (group_add_keys key v g) as [H1 H2].
  destruct (in_dec (list_eq_dec Z.eq_dec) key (map fst g)) as [Hin|Hout].
  - rewrite H1 by exact Hin. exact Hnd.
  - rewrite H2 by exact Hout. apply NoDup_rev in Hnd.
    rewrite <- (rev_involutive (map fst g ++ [key])). apply NoDup_rev.
    rewrite rev_app_distr. cbn [rev app]. constructor; [|exact Hnd].
    intro H. apply in_rev in H. contradiction.
Qed.

Lemma row_key_some : forall r key0 key, all_some r = Some key0 ->
  row_key r key = zlist_eqb key0 key.
Proof. intros r key0 key H. unfold row_key. rewrite H. reflexivity. Qed.

Lemma row_key_none : forall r key, all_some r = None -> row_key r key = false.
Proof. intros r key H. unfold row_key. rewrite H. reflexivity. Qed.

Lemma groups_step : forall pre g r, groups_ok pre g ->
  groups_ok (pre ++ [r])
            (match all_some r with Some key => group_add key (length pre) g | None => g end).
Proof.
  intros pre g r [Hnd Hiff]. destruct (all_some r) as [key0|] eqn:Er.
  - split; [apply group_add_nodup; exact Hnd|].
    intros key vs. rewrite members_snoc, (row_key_some r key0 key Er).
    destruct (list_eq_dec Z.eq_dec key key0) as [->|Hne].
    + rewrite zlist_eqb_refl.
      destruct (in_dec (list_eq_dec Z.eq_dec) key0 (map fst g)) as [Hin|Hout].
      * rewrite (group_add_present key0 (length pre) g vs Hin Hnd). split.
        -- intros [vs0 [H0 ->]]. apply Hiff in H0. destruct H0 as [_ ->].
           split; [destruct (members pre key0); discriminate|reflexivity].
        -- intros [_ ->]. exists (members pre key0). split; [|reflexivity].
           apply in_map_iff in Hin. destruct Hin as [[k ws] [Hk Hkw]]. cbn [fst] in Hk. subst k.
           pose proof (proj1 (Hiff key0 ws) Hkw) as [_ Hws]. rewrite <- Hws. exact Hkw.
      * rewrite (group_add_absent key0 (length pre) g vs Hout).
        assert (Hempty : members pre key0 = []).
        { destruct (members pre key0) as [|m ms] eqn:Em; [reflexivity|].
          exfalso. apply Hout. change key0 with (fst (key0, m :: ms)). apply in_map.
          apply Hiff. split; [discriminate|]. symmetry. exact Em. }
        rewrite Hempty. cbn [app]. split; [intros ->; split; [discriminate|reflexivity] | intros [_ ->]; reflexivity].
    + rewrite (group_add_other key0 (length pre) g key vs Hne).
      rewrite zlist_eqb_neq by congruence. rewrite app_nil_r. apply Hiff.
  - split; [exact Hnd|]. intros key vs.
    rewrite members_snoc, (row_key_none r key Er), app_nil_r. apply Hiff.
Qed.

Lemma bi_loop_ok : forall rest pre g, groups_ok pre g ->
  groups_ok (pre ++ rest) (bi_loop rest (length pre) g).
Proof.
  induction rest as [|r rest IH]; intros pre g H.
  - rewrite app_nil_r. exact H.
  - cbn [bi_loop]. replace (pre ++ r :: rest) with ((pre ++ [r]) ++ rest) by (rewrite <- app_assoc; reflexivity).
    replace (S (length pre)) with (length (pre ++ [r])) by (rewrite app_length; cbn [length]; lia).
    apply IH. apply groups_step. exact H.
Qed.

Lemma block_intersection_ok : forall ids, groups_ok ids (block_intersection ids).
Proof.
  intro ids. unfold block_intersection. apply (bi_loop_ok ids [] []).
  split; [constructor|]. intros key vs. split; [intros []|].
  intros [Hne ->]. apply Hne. reflexivity.
Qed.

(* ---- bridge to the intersection of phase sets ---- *)
Fixpoint rm (r : list (option Z)) (key : list Z) : bool :=
  match r, key with
  | [], [] => true
  | Some b :: r', c :: key' => Z.eqb b c && rm r' key'
  | _, _ => false
  end.

Lemma row_key_rm : forall r key, row_key r key = rm r key.
Proof.
  unfold row_key. induction r as [|[b|] r IH]; intros [|c key]; cbn [all_some rm]; try reflexivity.
  - destruct (all_some r); reflexivity.
  - specialize (IH key). destruct (all_some r) as [l|]; cbn [zlist_eqb].
    + rewrite IH. reflexivity.
    + rewrite <- IH. rewrite andb_false_r. reflexivity.
Qed.

Lemma rm_forallb : forall key r i R,
  length r = length key ->
  (forall j, j < length r -> nth (i + j) R None = nth j r None) ->
  rm r key = forallb (fun ib : nat * Z => optz_eqb (nth (fst ib) R None) (Some (snd ib)))
                     (combine (seq i (length key)) key).
Proof.
  induction key as [|c key IH]; intros [|o r] i R Hl Hn; try discriminate; [reflexivity|].
  cbn [length seq combine forallb fst snd rm].
  pose proof (Hn 0 ltac:(cbn [length]; lia)) as H0. rewrite Nat.add_0_r in H0. cbn [nth] in H0.
  rewrite H0.
  rewrite <- (IH r (S i) R).
  - destruct o as [b|]; reflexivity.
  - cbn [length] in Hl. lia.
  - intros j Hj. specialize (Hn (S j) ltac:(cbn [length]; lia)).
    rewrite Nat.add_succ_r in Hn. exact Hn.
Qed.

Lemma mem_nat_filter_seq : forall f n u,
  mem_nat u (filter f (seq 0 n)) = Nat.ltb u n && f u.
Proof.
  intros f n u. unfold mem_nat.
  destruct (Nat.ltb u n && f u) eqn:E.
  - apply andb_true_iff in E. destruct E as [E1 E2]. apply Nat.ltb_lt in E1.
    apply existsb_exists. exists u. split; [|apply Nat.eqb_refl].
    apply filter_In. split; [apply in_seq; lia|exact E2].
  - destruct (existsb (Nat.eqb u) (filter f (seq 0 n))) eqn:E'; [|reflexivity].
    apply existsb_exists in E'. destruct E' as [x [Hx Hux]]. apply Nat.eqb_eq in Hux. subst x.
    apply filter_In in Hx. destruct Hx as [Hx1 Hx2]. apply in_seq in Hx1.
    assert (Nat.ltb u n = true) by (apply Nat.ltb_lt; lia). rewrite H, Hx2 in E. discriminate.
Qed.

Lemma forallb_ext_in' : forall (A : Type) (f g : A -> bool) (l : list A),
  (forall a, In a l -> f a = g a) -> forallb f l = forallb g l.
Proof.
  intros A f g l. induction l as [|a l IH]; intro H; [reflexivity|].
  cbn [forallb]. rewrite (H a (or_introl eq_refl)), IH; [reflexivity|].
  intros x Hx. apply H. right. exact Hx.
Qed.

Lemma members_joint_spec : forall ids key,
  (forall r, In r ids -> length r = length key) ->
  members ids key = joint_spec ids key.
Proof.
  intros ids key Hrows. unfold members, joint_spec.
  apply filter_ext_in. intros u Hu. apply in_seq in Hu.
  rewrite row_key_rm.
  rewrite (rm_forallb key (nth u ids []) 0 (nth u ids [])).
  - apply forallb_ext_in'. intros [i b] _. cbn [fst snd]. unfold phase_set.
    rewrite mem_nat_filter_seq.
    assert (Nat.ltb u (length ids) = true) as -> by (apply Nat.ltb_lt; lia). reflexivity.
  - apply Hrows. apply nth_In. lia.
  - intros j _. reflexivity.
Qed.

(* joint blocks = exactly the non-empty intersections of phase sets (one id per data set) *)
Lemma intersection_blocks : forall ids k,
  (forall r, In r ids -> length r = k) ->
  NoDup (map fst (block_intersection ids)) /\
  forall key vs, length key = k ->
    (In (key, vs) (block_intersection ids) <-> (vs <> [] /\ vs = joint_spec ids key)).
Proof.
  intros ids k Hrows. destruct (block_intersection_ok ids) as [Hnd Hiff].
  split; [exact Hnd|]. intros key vs Hk.
  rewrite <- members_joint_spec by (intros r Hr; rewrite Hk; apply Hrows; exact Hr).
  apply Hiff.
Qed.

(* every key of a joint block has one id per data set (so the previous lemma covers all blocks) *)
Lemma all_some_length : forall r key, all_some r = Some key -> length key = length r.
Proof.
  induction r as [|[b|] r IH]; intros key H; cbn [all_some] in H; try discriminate.
  - inversion H. reflexivity.
  - destruct (all_some r) as [l|]; [|discriminate]. inversion H; subst. cbn [length]. rewrite (IH l eq_refl). reflexivity.
Qed.

Lemma block_key_length : forall ids k key vs,
  (forall r, In r ids -> length r = k) ->
  In (key, vs) (block_intersection ids) -> length key = k.
Proof.
  intros ids k key vs Hrows Hin.
  destruct (block_intersection_ok ids) as [_ Hiff]. apply Hiff in Hin. destruct Hin as [Hne Hvs].
  destruct vs as [|v vs]; [contradiction|].
  assert (Hv : In v (members ids key)) by (rewrite <- Hvs; left; reflexivity).
  unfold members in Hv. apply filter_In in Hv. destruct Hv as [Hv1 Hv2]. apply in_seq in Hv1.
  unfold row_key in Hv2. destruct (all_some (nth v ids [])) as [k0|] eqn:E; [|discriminate].
  apply zlist_eqb_eq in Hv2. subst k0. rewrite (all_some_length _ _ E).
  apply Hrows. apply nth_In. lia.
Qed.

Lemma intersection_blocks_full : forall (ids : list (list (option Z))) (k : nat),
  (forall r, In r ids -> length r = k) ->
  NoDup (map fst (block_intersection ids)) /\
  (forall key vs, In (key, vs) (block_intersection ids) -> length key = k) /\
  (forall key vs, length key = k ->
     (In (key, vs) (block_intersection ids) <-> (vs <> [] /\ vs = joint_spec ids key))).
Proof.
  intros ids k H. split; [exact (proj1 (intersection_blocks ids k H))|].
  split; [intros key vs; exact (block_key_length ids k key vs H)|exact (proj2 (intersection_blocks ids k H))].
Qed.
