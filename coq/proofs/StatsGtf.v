(* C12 — the GTF features written by get_phase_blocks: runs of consecutive phased heterozygous variants
   of one phase set; each lies inside the extent of its set and they are written left to right without
   overlap (repaired rules). *)
From Coq Require Import ZArith List Bool Arith Lia Sorted Permutation.
From WH.Model Require Import Stats.
From WH.Proofs Require Import StatsSort StatsPieces StatsCounts StatsRows StatsSpec.
Import ListNotations.
Open Scope Z_scope.

Local Notation RR := repaired_rules.

Definition gstep (st : gtfblock * list (Z * Z * Z)) (e : key * var) : gtfblock * list (Z * Z * Z) :=
  gtf_step (v_pos (snd e)) (fst e) (fst st) (snd st).
Definition gtf_fold (l : list (key * var)) (st : gtfblock * list (Z * Z * Z)) := fold_left gstep l st.

Lemma gpb_fold_gtf : forall R rows s,
  (g_prev (fold_left (gpb_step R) rows s), g_gtf (fold_left (gpb_step R) rows s)) =
  gtf_fold (entries R rows) (g_prev s, g_gtf s).
Proof.
  intros R. induction rows as [|row rows IH]; intros s. reflexivity.
  cbn [fold_left]. rewrite IH. unfold entries, hrows. cbn [filter]. fold (hrows R rows).
  destruct (counts_as_het R row) eqn:Ec.
  - rewrite (gpb_step_het R s row Ec). cbn [flat_map].
    destruct (eff_phase R row) as [k|] eqn:Ep.
    + assert (Hen : entry_of R row = [(k, mkVar (t_pos row) (t_snv row))]) by (unfold entry_of; rewrite Ep; reflexivity).
      rewrite Hen. cbn [g_prev g_gtf app]. unfold gtf_fold. cbn [fold_left]. f_equal.
      unfold gstep. cbn [fst snd v_pos]. destruct (gtf_step (t_pos row) k (g_prev s) (g_gtf s)); reflexivity.
    + assert (Hen : entry_of R row = []) by (unfold entry_of; rewrite Ep; reflexivity).
      rewrite Hen. reflexivity.
  - rewrite (gpb_step_skip R s row Ec). reflexivity.
Qed.

Definition gend (last : option Z) (g : list (Z * Z * Z)) : option Z :=
  fold_left (fun _ f => Some (snd (fst f))) g last.

Lemma gtf_ok_app : forall bl g1 last g2,
  gtf_ok bl last (g1 ++ g2) = gtf_ok bl last g1 && gtf_ok bl (gend last g1) g2.
Proof.
  intros bl. induction g1 as [|[[s e] i] g1 IH]; intros last g2; cbn [app gtf_ok gend fold_left]. reflexivity.
  destruct (find_line i bl) as [[[[i' f] t] n]|]. 2: reflexivity.
  rewrite IH. cbn [fst snd]. fold (gend (Some e) g1). rewrite !andb_assoc. reflexivity.
Qed.

Lemma gend_snoc : forall last g s e i, gend last (g ++ [(s, e, i)]) = Some e.
Proof. intros. unfold gend. rewrite fold_left_app. reflexivity. Qed.

Definition line_ok (bl : list (Z * Z * Z * Z)) (i p : Z) : Prop :=
  exists f t n, find_line i bl = Some (i, f, t, n) /\ f <= p + 1 /\ p + 1 <= t.

Definition ginv (bl : list (Z * Z * Z * Z)) (prev : gtfblock) (out : list (Z * Z * Z)) : Prop :=
  gtf_ok bl None out = true /\
  match gb_id prev with
  | None => out = []
  | Some i =>
      (exists f t n, find_line i bl = Some (i, f, t, n) /\ f <= gb_start prev + 1 /\ gb_end prev <= t) /\
      gb_start prev + 1 <= gb_end prev /\
      (forall le, gend None out = Some le -> le < gb_start prev + 1)
  end.

Lemma gtf_close : forall bl prev out i, ginv bl prev out -> gb_id prev = Some i ->
  gtf_ok bl None (out ++ [(gb_start prev + 1, gb_end prev, i)]) = true.
Proof.
  intros bl prev out i [Hok Hinv] Ei. rewrite Ei in Hinv. destruct Hinv as ((f & t & n & Ef & Hf & Ht) & Hse & Hle).
  rewrite gtf_ok_app, Hok. cbn [andb gtf_ok]. rewrite Ef.
  assert (E1 : (f <=? gb_start prev + 1) = true) by (apply Z.leb_le; lia).
  assert (E2 : (gb_start prev + 1 <=? gb_end prev) = true) by (apply Z.leb_le; lia).
  assert (E3 : (gb_end prev <=? t) = true) by (apply Z.leb_le; lia).
  rewrite E1, E2, E3. cbn [andb]. destruct (gend None out) as [le|] eqn:Eg. 2: reflexivity.
  specialize (Hle le eq_refl). assert (E4 : (le <? gb_start prev + 1) = true) by (apply Z.ltb_lt; lia).
  rewrite E4. reflexivity.
Qed.

Lemma gtf_fold_inv : forall bl l prev out,
  (forall e, In e l -> exists i, fst e = Some i /\ line_ok bl i (v_pos (snd e))) ->
  StronglySorted Z.lt (map (fun e : key * var => v_pos (snd e)) l) ->
  ginv bl prev out ->
  (gb_id prev <> None -> forall e, In e l -> gb_end prev <= v_pos (snd e)) ->
  ginv bl (fst (gtf_fold l (prev, out))) (snd (gtf_fold l (prev, out))).
Proof.
  intros bl. induction l as [|[k v] l IH]; intros prev out Hl Hs Hinv Hb. exact Hinv.
  unfold gtf_fold. cbn [fold_left]. fold (gtf_fold l (gstep (prev, out) (k, v))).
  destruct (Hl (k, v) (or_introl eq_refl)) as (i & Ek & (f & t & n & Ef & Hf & Ht)). cbn [fst snd] in Ek, Hf, Ht. subst k.
  cbn [map snd] in Hs. inversion Hs as [|? ? Hs' Hall]; subst. rewrite Forall_forall in Hall.
  assert (Hlater : forall e, In e l -> v_pos v < v_pos (snd e)).
  { intros e He. apply Hall. apply in_map_iff. exists e. auto. }
  set (p := v_pos v) in *.
  assert (Hl' : forall e, In e l -> exists i, fst e = Some i /\ line_ok bl i (v_pos (snd e))).
  { intros e He. apply Hl. right; exact He. }
  unfold gstep. cbn [fst snd]. fold p. unfold gtf_step.
  destruct Hinv as [Hok Hinv].
  destruct (gb_id prev) as [pid|] eqn:Eid.
  - destruct Hinv as ((f0 & t0 & n0 & Ef0 & Hf0 & Ht0) & Hse & Hle).
    assert (Hnn : Some pid <> None) by discriminate.
    assert (Hbp : gb_end prev <= p). { apply (Hb Hnn (Some i, v)). left; reflexivity. }
    cbn [key_eqb]. destruct (pid =? i) eqn:Epi.
    + apply Z.eqb_eq in Epi. subst pid.
      assert (t0 = t /\ f0 = f) by (rewrite Ef in Ef0; injection Ef0; auto). destruct H as [-> ->].
      match goal with |- ginv bl (fst (gtf_fold l ?st)) _ => destruct st as [pv ot] eqn:Est end.
      injection Est as <- <-.
      apply IH; try assumption.
      * split. exact Hok. cbn [gb_id gb_start gb_end]. split. exists f, t, n. repeat split; try assumption; lia.
        split. lia. exact Hle.
      * cbn [gb_id gb_end]. intros _ e He. specialize (Hlater e He). lia.
    + match goal with |- ginv bl (fst (gtf_fold l ?st)) _ => destruct st as [pv ot] eqn:Est end.
      injection Est as <- <-.
      apply IH; try assumption.
      * split.
        -- apply (gtf_close bl prev out pid). split. exact Hok. rewrite Eid. split. exists f0, t0, n0. auto. split; assumption. exact Eid.
        -- cbn [gb_id gb_start gb_end]. split. exists f, t, n. repeat split; try assumption; lia. split. lia.
           intros le Hg. rewrite gend_snoc in Hg. injection Hg as <-. lia.
      * cbn [gb_id gb_end]. intros _ e He. specialize (Hlater e He). lia.
  - subst out.
    match goal with |- ginv bl (fst (gtf_fold l ?st)) _ => destruct st as [pv ot] eqn:Est end.
    injection Est as <- <-.
    apply IH; try assumption.
    + split. reflexivity. cbn [gb_id gb_start gb_end]. split. exists f, t, n. repeat split; try assumption; lia.
      split. lia. intros le Hg. discriminate.
    + cbn [gb_id gb_end]. intros _ e He. specialize (Hlater e He). lia.
Qed.

(* ---------------------------------------------------------------------------------------------- *)
(* strictly increasing positions                                                                   *)
Lemma counted_from_strict : forall o recs earlier,
  StronglySorted Z.le (map r_pos (filter (eligible o) recs)) ->
  StronglySorted Z.lt (map r_pos (counted_from o earlier recs)) /\
  forall r, In r (counted_from o earlier recs) -> ~ In (r_pos r) earlier /\ In r (filter (eligible o) recs).
Proof.
  intros o. induction recs as [|r rest IH]; intros earlier Hs; cbn [counted_from filter map] in *.
  - split. constructor. intros r [].
  - destruct (eligible o r) eqn:El.
    + cbn [map] in Hs. inversion Hs as [|? ? Hs' Hall]; subst. rewrite Forall_forall in Hall.
      destruct (zmem (r_pos r) earlier) eqn:Em.
      * destruct (IH earlier Hs') as [H1 H2]. split. exact H1. intros r' Hr'. destruct (H2 r' Hr') as [Ha Hb].
        split. exact Ha. right; exact Hb.
      * destruct (IH (r_pos r :: earlier) Hs') as [H1 H2]. split.
        -- cbn [map]. constructor. exact H1. rewrite Forall_forall. intros x Hx. apply in_map_iff in Hx.
           destruct Hx as (r' & <- & Hr'). destruct (H2 r' Hr') as [Ha Hb].
           assert (r_pos r <= r_pos r') by (apply Hall; apply in_map; exact Hb).
           assert (r_pos r <> r_pos r'). { intro E. apply Ha. left. exact E. } lia.
        -- intros r' [<-|Hr'].
           ++ split. apply zmem_false. exact Em. left; reflexivity.
           ++ destruct (H2 r' Hr') as [Ha Hb]. split. intro Hc. apply Ha. right; exact Hc. right; exact Hb.
    + destruct (IH earlier Hs) as [H1 H2]. split. exact H1. exact H2.
Qed.

Lemma ssorted_filter_map : forall (A : Type) (f : A -> Z) (p : A -> bool) l,
  StronglySorted Z.lt (map f l) -> StronglySorted Z.lt (map f (filter p l)).
Proof.
  induction l as [|x l IH]; intros H; cbn [filter map] in *. constructor.
  inversion H as [|? ? Hs Hall]; subst. destruct (p x).
  - cbn [map]. constructor. apply IH; exact Hs. rewrite Forall_forall in Hall |- *. intros y Hy.
    apply in_map_iff in Hy. destruct Hy as (z & <- & Hz). apply filter_In in Hz. apply Hall. apply in_map. tauto.
  - apply IH; exact Hs.
Qed.

Lemma ents_positions : forall hs,
  map (fun e : key * var => v_pos (snd e)) (ents hs) =
  map r_pos (filter (fun r => match spec_phase_set (r_call r) with Some _ => true | None => false end) hs).
Proof.
  induction hs as [|r hs IH]. reflexivity. rewrite ents_cons, map_app, IH. cbn [filter]. unfold ent.
  destruct (spec_phase_set (r_call r)); reflexivity.
Qed.

Lemma find_line_map : forall (F : Z -> Z * Z * Z * Z) ids i,
  (forall j, fst (fst (fst (F j))) = j) -> In i ids -> find_line i (map F ids) = Some (F i).
Proof.
  intros F ids i HF. induction ids as [|j ids IH]; intros Hin. destruct Hin. cbn [map find_line].
  pose proof (HF j) as Hj. destruct (F j) as [[[a f] t] n] eqn:E. cbn [fst] in Hj. subst a.
  destruct (j =? i) eqn:Eji.
  - apply Z.eqb_eq in Eji. subst. rewrite E. reflexivity.
  - apply Z.eqb_neq in Eji. apply IH. destruct Hin as [->|H]. contradiction. exact H.
Qed.

Theorem gtf_ok_chrom : forall o recs, sorted_recs o recs ->
  gtf_ok (s_blocklist (spec_of o recs)) None (gtf_finish (get_phase_blocks RR (map row_of (counted o recs)))) = true.
Proof.
  intros o recs Hsorted. set (cs := counted o recs). set (hs := hets cs). set (rows := map row_of cs).
  set (bl := s_blocklist (spec_of o recs)).
  pose proof (gpb_fold_gtf RR rows g_init) as Hg. fold (get_phase_blocks RR rows) in Hg.
  assert (Hent : entries RR rows = ents hs) by apply entries_ents.
  rewrite Hent in Hg. cbn [g_init g_prev g_gtf] in Hg.
  assert (Hinv : ginv bl (fst (gtf_fold (ents hs) (mkGB 0 0 None, []))) (snd (gtf_fold (ents hs) (mkGB 0 0 None, [])))).
  { apply gtf_fold_inv.
    - intros e He. unfold ents in He. apply in_flat_map in He. destruct He as (r & Hr & He). unfold ent in He.
      destruct (spec_phase_set (r_call r)) as [i|] eqn:Es. 2: destruct He. destruct He as [<-|[]].
      exists i. split. reflexivity. cbn [snd var_of v_pos].
      assert (Hmem : In r (set_members hs i)).
      { unfold set_members. apply filter_In. split. exact Hr. unfold in_set. rewrite Es. apply Z.eqb_refl. }
      assert (Hid : In i (distinct_ids hs)).
      { unfold distinct_ids, sort_asc. rewrite sort_by_in, znodup_In. apply set_ids_members. intro E. rewrite E in Hmem. destruct Hmem. }
      unfold line_ok, bl, spec_of. fold cs. fold hs. cbn [s_blocklist].
      erewrite find_line_map; [| intros j; reflexivity | exact Hid]. cbv zeta.
      eexists. eexists. eexists. split. reflexivity.
      assert (Hp : In (r_pos r) (map r_pos (set_members hs i))) by (apply in_map; exact Hmem).
      pose proof (zmin_list_le 0 _ _ Hp). pose proof (zmax_list_ge 0 _ _ Hp). lia.
    - rewrite ents_positions. apply ssorted_filter_map. unfold hs, hets. apply ssorted_filter_map.
      apply (counted_from_strict o recs [] Hsorted).
    - split. reflexivity. reflexivity.
    - cbn [gb_id]. intro H. contradiction. }
  rewrite <- Hg in Hinv. cbn [fst snd] in Hinv.
  unfold gtf_finish. destruct (gb_id (g_prev (get_phase_blocks RR rows))) as [pid|] eqn:Eid.
  - apply (gtf_close bl _ _ pid Hinv Eid).
  - apply Hinv.
Qed.
