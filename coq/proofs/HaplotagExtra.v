(* Glue lemmas for props/C10.v: the unrestricted conservation statement is false for the current
   region handling, and true for the repaired one. *)
From Coq Require Import ZArith List Bool Arith Lia Sorted.
From WH.Model Require Import Haplotag.
From WH.Proofs Require Import HaplotagStream.
Import ListNotations.
Open Scope Z_scope.

(* conservation for every run (with or without regions) of a run function *)
Definition conserved_for_all_runs
  (run : config -> list chrom -> option (list (Z * region)) -> list aln -> option (list (Z * tags3))) : Prop :=
  forall cfg chroms user tail out,
    (forall c, In c chroms -> alns_ok (c_alns c) /\ sorted_start (c_alns c)) ->
    (forall l, user = Some l -> regs_valid (map snd l)) ->
    run cfg chroms user tail = Some out ->
    map fst out = expected_ids chroms user tail.

Lemma conserved_current_refuted : ~ conserved_for_all_runs run_current.
Proof.
  intros H.
  specialize (H wcfg w1_chroms (Some w1_l) [] [(1, no_tags); (1, no_tags)]).
  assert (Hc : forall c, In c w1_chroms -> alns_ok (c_alns c) /\ sorted_start (c_alns c)).
  { intros c [<-|[]]. split.
    - intros a [<-|[]]. cbn. lia.
    - cbn [c_alns]. apply SSorted_cons; [apply SSorted_nil|apply Forall_nil]. }
  assert (Hr : forall l, Some w1_l = Some l -> regs_valid (map snd l)).
  { intros l Hl. inversion Hl. subst l. intros r Hin. cbn in Hin.
    destruct Hin as [<-|[<-|[]]]; unfold reg_valid; cbn; lia. }
  specialize (H Hc Hr ltac:(vm_compute; reflexivity)). vm_compute in H. discriminate H.
Qed.

Lemma conserved_fixed : conserved_for_all_runs run_fixed.
Proof.
  intros cfg chroms user tail out Hc Hr Hrun. destruct user as [l|].
  - eapply stream_fixed; eauto.
  - eapply stream_none_fixed; [|eassumption]. intros c Hin. apply Hc. assumption.
Qed.

(* Why names and barcodes must be identified per sample: if two samples' reads are given the same id
   (tables keyed by the bare read name, as before /repo's fix ef2ae7a), the alignment of the first sample
   receives the decision taken for the second sample's read, which is not the best haplotype for its own. *)
Lemma bare_name_tables_refuted :
  exists cfg samples a s0 r0,
    nth_error samples 0 = Some s0 /\ snd s0 = [r0] /\ r_name r0 = a_name a /\
    tag_aln cfg (prepare cfg samples) a = (Some 2, Some 107, Some 30) /\
    decide (phaseinfo (fst s0)) (ploidy cfg) [r0] = Some (0%nat, 30, 7).
Proof.
  exists (mkCfg 2%nat false 20 false),
         [([(10, false, Some (7, [1; 0]))], [mkRead 1 37 None [(10, 1, 30)]]);
          ([(10, false, Some (107, [1; 0]))], [mkRead 1 37 None [(10, 0, 30)]])],
         (mkAln 5 1 32 60 false false false None no_tags),
         ([(10, false, Some (7, [1; 0]))], [mkRead 1 37 None [(10, 1, 30)]]),
         (mkRead 1 37 None [(10, 1, 30)]).
  vm_compute. repeat split.
Qed.
