(* Glue lemmas for props/C10.v: the unrestricted conservation statement is false for the current
   region handling, and true for the repaired one. *)
From Coq Require Import ZArith List Bool Arith Lia Sorted.
From WH.Model Require Import Haplotag.
From WH.Proofs Require Import HaplotagStream.
Import ListNotations.
Open Scope Z_scope.

(* conservation for every run (with or without regions) of a run function *)
Definition conserved_for_all_runs
  (run : config -> list chrom -> option (list (Z * region)) -> list aln -> option (list (Z * tags3))) : Prop :=
  forall cfg chroms user tail out,
    (forall c, In c chroms -> alns_ok (c_alns c) /\ sorted_start (c_alns c)) ->
    (forall l, user = Some l -> regs_valid (map snd l)) ->
    run cfg chroms user tail = Some out ->
    map fst out = expected_ids chroms user tail.

Lemma conserved_current_refuted : ~ conserved_for_all_runs run_current.
Proof.
  intros H.
  specialize (H wcfg w1_chroms (Some w1_l) [] [(1, no_tags); (1, no_tags)]).
  assert (Hc : forall c, In c w1_chroms -> alns_ok (c_alns c) /\ sorted_start (c_alns c)).
  { intros c [<-|[]]. split.
    - intros a [<-|[]]. cbn. lia.
    - cbn [c_alns]. apply SSorted_cons; [apply SSorted_nil|apply Forall_nil]. }
  assert (Hr : forall l, Some w1_l = Some l -> regs_valid (map snd l)).
  { intros l Hl. inversion Hl. subst l. intros r Hin. cbn in Hin.
    destruct Hin as [<-|[<-|[]]]; unfold reg_valid; cbn; lia. }
  specialize (H Hc Hr ltac:(vm_compute; reflexivity)). vm_compute in H. discriminate H.
Qed.

Lemma conserved_fixed : conserved_for_all_runs run_fixed.
Proof.
  intros cfg chroms user tail out Hc Hr Hrun. destruct user as [l|].
  - eapply stream_fixed; eauto.
  - eapply stream_none_fixed; [|eassumption]. intros c Hin. apply Hc. assumption.
Qed.
