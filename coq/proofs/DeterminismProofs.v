(* C16 -- proofs about the ordering mechanisms modelled in WH.Model.Determinism. *)
From Coq Require Import ZArith NArith List Bool Arith Lia Permutation Sorted Relations.
From WH.Model Require Import UnionFind UFSpec Determinism.
From WH.Proofs Require Import UFProofs.
Import ListNotations.

(* ============================================================================================ *)
(* 1. generic: a sorted permutation is unique; insertion sort produces it                         *)
Section SortProofs.
  Variable A : Type.
  Variable lt : A -> A -> bool.
  Hypothesis lt_irrefl : forall x, lt x x = false.
  Hypothesis lt_trans : forall x y z, lt x y = true -> lt y z = true -> lt x z = true.

  Definition ltP (x y : A) : Prop := lt x y = true.

  (* any two elements of l are equal or comparable *)
  Definition comparable (l : list A) : Prop :=
    forall x y, In x l -> In y l -> x = y \/ lt x y = true \/ lt y x = true.

  Lemma sorted_perm_unique : forall l1 l2,
    StronglySorted ltP l1 -> StronglySorted ltP l2 -> Permutation l1 l2 -> l1 = l2.
  Proof.
    induction l1 as [|a t1 IH]; intros l2 S1 S2 P.
    - apply Permutation_nil in P. subst. reflexivity.
    - destruct l2 as [|b t2].
      + apply Permutation_sym, Permutation_nil in P. discriminate.
      + apply StronglySorted_inv in S1. destruct S1 as [S1 F1].
        apply StronglySorted_inv in S2. destruct S2 as [S2 F2].
        rewrite Forall_forall in F1, F2.
        assert (Hab : a = b).
        { assert (Ha : In a (b :: t2)) by (eapply Permutation_in; [exact P | left; reflexivity]).
          assert (Hb : In b (a :: t1)) by (eapply Permutation_in; [apply Permutation_sym; exact P | left; reflexivity]).
          destruct Ha as [Ha | Ha]; [symmetry; exact Ha|].
          destruct Hb as [Hb | Hb]; [exact Hb|].
          exfalso.
          pose proof (F2 a Ha) as L1. pose proof (F1 b Hb) as L2. unfold ltP in L1, L2.
          pose proof (lt_trans _ _ _ L1 L2) as L3. rewrite lt_irrefl in L3. discriminate. }
        subst b. f_equal. apply IH; try assumption.
        eapply Permutation_cons_inv. exact P.
  Qed.

  Lemma sortedb_StronglySorted : forall l, sortedb lt l = true -> StronglySorted ltP l.
  Proof.
    induction l as [|x l IH]; intro H.
    - constructor.
    - cbn [sortedb] in H. destruct l as [|y l'].
      + constructor; constructor.
      + apply andb_true_iff in H. destruct H as [Hxy Hs].
        specialize (IH Hs). constructor; [exact IH|].
        apply StronglySorted_inv in IH. destruct IH as [_ Fy].
        constructor; [exact Hxy|].
        rewrite Forall_forall in *. intros z Hz. unfold ltP in *.
        eapply lt_trans; [exact Hxy | apply Fy; exact Hz].
  Qed.

  Lemma StronglySorted_sortedb : forall l, StronglySorted ltP l -> sortedb lt l = true.
  Proof.
    induction l as [|x l IH]; intro H.
    - reflexivity.
    - apply StronglySorted_inv in H. destruct H as [Hs Fx].
      cbn [sortedb]. destruct l as [|y l']; [reflexivity|].
      apply andb_true_iff. split.
      + apply Forall_inv in Fx. exact Fx.
      + apply IH. exact Hs.
  Qed.

  Lemma insert_perm : forall x l, Permutation (insert lt x l) (x :: l).
  Proof.
    intros x l. induction l as [|y l IH]; cbn [insert].
    - apply Permutation_refl.
    - destruct (lt y x) eqn:E.
      + eapply Permutation_trans; [apply perm_skip; exact IH | apply perm_swap].
      + apply Permutation_refl.
  Qed.

  Lemma isort_perm : forall l, Permutation (isort lt l) l.
  Proof.
    induction l as [|x l IH]; cbn [isort fold_right].
    - constructor.
    - eapply Permutation_trans; [apply insert_perm | apply perm_skip; exact IH].
  Qed.

  Lemma insert_sorted : forall x l,
    StronglySorted ltP l ->
    (forall y, In y l -> lt x y = true \/ lt y x = true) ->
    StronglySorted ltP (insert lt x l).
  Proof.
    intros x l. induction l as [|y l IH]; intros S C; cbn [insert].
    - constructor; constructor.
    - apply StronglySorted_inv in S. destruct S as [S Fy].
      destruct (lt y x) eqn:E.
      + constructor.
        * apply IH; [exact S|]. intros z Hz. apply C. right. exact Hz.
        * rewrite Forall_forall in *. intros z Hz.
          eapply Permutation_in in Hz; [|apply insert_perm].
          destruct Hz as [Hz | Hz]; [subst z; exact E | apply Fy; exact Hz].
      + assert (Hxy : lt x y = true).
        { destruct (C y (or_introl eq_refl)) as [H | H]; [exact H | congruence]. }
        constructor.
        * constructor; assumption.
        * constructor; [exact Hxy|].
          rewrite Forall_forall in *. intros z Hz. unfold ltP.
          eapply lt_trans; [exact Hxy | apply Fy; exact Hz].
  Qed.

  Lemma isort_sorted : forall l, NoDup l -> comparable l -> StronglySorted ltP (isort lt l).
  Proof.
    induction l as [|x l IH]; intros ND C; cbn [isort fold_right].
    - constructor.
    - inversion ND as [|? ? Hx ND']; subst.
      apply insert_sorted.
      + apply IH; [exact ND'|]. intros a b Ha Hb. apply C; right; assumption.
      + intros y Hy. eapply Permutation_in in Hy; [|apply isort_perm].
        destruct (C x y (or_introl eq_refl) (or_intror Hy)) as [H | H]; [|exact H].
        subst y. contradiction.
  Qed.

  Lemma comparable_perm : forall l l', Permutation l l' -> comparable l -> comparable l'.
  Proof.
    intros l l' P C x y Hx Hy.
    apply C; eapply Permutation_in; try apply Permutation_sym; eassumption.
  Qed.

  (* every sorted permutation of l -- whatever algorithm produced it -- is isort l *)
  Theorem any_sorted_perm_is_isort : forall l s,
    NoDup l -> comparable l -> Permutation l s -> sortedb lt s = true -> s = isort lt l.
  Proof.
    intros l s ND C P Hs.
    apply sorted_perm_unique.
    - apply sortedb_StronglySorted. exact Hs.
    - apply isort_sorted; assumption.
    - eapply Permutation_trans; [apply Permutation_sym; exact P | apply Permutation_sym, isort_perm].
  Qed.

  Theorem isort_perm_invariant : forall l l',
    NoDup l -> comparable l -> Permutation l l' -> isort lt l = isort lt l'.
  Proof.
    intros l l' ND C P.
    apply sorted_perm_unique.
    - apply isort_sorted; assumption.
    - apply isort_sorted.
      + eapply Permutation_NoDup; eassumption.
      + eapply comparable_perm; eassumption.
    - eapply Permutation_trans; [apply isort_perm|].
      eapply Permutation_trans; [exact P | apply Permutation_sym, isort_perm].
  Qed.
End SortProofs.

(* NoDup of an image gives NoDup of the list and separates distinct members *)
Lemma NoDup_map_inv' (A B : Type) (f : A -> B) : forall l, NoDup (map f l) -> NoDup l.
Proof.
  induction l as [|x l IH]; intro H; [constructor|].
  cbn [map] in H. inversion H as [|? ? Hx ND]; subst.
  constructor; [|apply IH; exact ND].
  intro Hin. apply Hx. apply in_map. exact Hin.
Qed.

Lemma NoDup_map_sep (A B : Type) (f : A -> B) : forall l, NoDup (map f l) ->
  forall x y, In x l -> In y l -> x = y \/ f x <> f y.
Proof.
  induction l as [|a l IH]; intros H x y Hx Hy; [contradiction|].
  cbn [map] in H. inversion H as [|? ? Ha ND]; subst.
  destruct Hx as [Hx | Hx]; destruct Hy as [Hy | Hy]; subst.
  - left; reflexivity.
  - right. intro E. apply Ha. rewrite E. apply in_map. exact Hy.
  - right. intro E. apply Ha. rewrite <- E. apply in_map. exact Hx.
  - apply IH; assumption.
Qed.

(* ============================================================================================ *)
(* 2. lexicographic comparisons                                                                   *)
Definition lex (c1 c2 : comparison) : comparison := match c1 with Eq => c2 | c => c end.

Record good_cmp (T : Type) (c : T -> T -> comparison) : Prop := {
  g_opp : forall x y, c y x = CompOpp (c x y);
  g_eq : forall x y, c x y = Eq -> x = y;
  g_trans : forall x y z, c x y = Lt -> c y z = Lt -> c x z = Lt
}.

Definition lex_pair (T1 T2 : Type) (c1 : T1 -> T1 -> comparison) (c2 : T2 -> T2 -> comparison)
  (p q : T1 * T2) : comparison := lex (c1 (fst p) (fst q)) (c2 (snd p) (snd q)).

Lemma good_lex (T1 T2 : Type) c1 c2 : good_cmp T1 c1 -> good_cmp T2 c2 ->
  good_cmp (T1 * T2) (lex_pair T1 T2 c1 c2).
Proof.
  intros [o1 e1 t1] [o2 e2 t2]. split.
  - intros [a b] [a' b']. unfold lex_pair; cbn [fst snd].
    rewrite (o1 a a'). destruct (c1 a a') eqn:E; cbn [lex CompOpp]; auto.
  - intros [a b] [a' b']. unfold lex_pair; cbn [fst snd].
    destruct (c1 a a') eqn:E; cbn [lex]; try discriminate.
    intro H. apply e1 in E. apply e2 in H. subst. reflexivity.
  - intros [a b] [a' b'] [a'' b'']. unfold lex_pair; cbn [fst snd].
    destruct (c1 a a') eqn:E1; cbn [lex]; try discriminate.
    + apply e1 in E1. subst a'. destruct (c1 a a'') eqn:E2; cbn [lex]; try discriminate; auto.
      intros H1 H2. eapply t2; eassumption.
    + intros _. destruct (c1 a' a'') eqn:E2; cbn [lex]; try discriminate.
      * apply e1 in E2. subst a''. rewrite E1. reflexivity.
      * intros _. rewrite (t1 _ _ _ E1 E2). reflexivity.
Qed.

Lemma good_Z : good_cmp Z Z.compare.
Proof.
  split.
  - intros x y. apply Z.compare_antisym.
  - intros x y. apply Z.compare_eq.
  - intros x y z H1 H2. rewrite Z.compare_lt_iff in *. lia.
Qed.

Lemma good_N : good_cmp N N.compare.
Proof.
  split.
  - intros x y. apply N.compare_antisym.
  - intros x y. apply N.compare_eq.
  - intros x y z H1 H2. rewrite N.compare_lt_iff in *. lia.
Qed.

Lemma good_name : good_cmp (list N) name_cmp.
Proof.
  split.
  - induction x as [|a x IH]; destruct y as [|b y]; cbn [name_cmp CompOpp]; try reflexivity.
    rewrite (N.compare_antisym a b). destruct (N.compare a b); cbn [CompOpp]; auto.
  - induction x as [|a x IH]; destruct y as [|b y]; cbn [name_cmp]; try discriminate; auto.
    destruct (N.compare a b) eqn:E; try discriminate.
    intro H. apply N.compare_eq in E. apply IH in H. subst. reflexivity.
  - induction x as [|a x IH]; destruct y as [|b y]; destruct z as [|c z]; cbn [name_cmp];
      try discriminate; auto.
    destruct (N.compare a b) eqn:E1; try discriminate.
    + apply N.compare_eq in E1. subst b. destruct (N.compare a c); try discriminate; auto.
      apply IH.
    + intros _. destruct (N.compare b c) eqn:E2; try discriminate.
      * apply N.compare_eq in E2. subst c. rewrite E1. reflexivity.
      * intros _. rewrite N.compare_lt_iff in *.
        assert (H : (a < c)%N) by lia. apply N.compare_lt_iff in H. rewrite H. reflexivity.
Qed.

(* ============================================================================================ *)
(* 3. read_comparator_t is a strict order, total on reads with distinct (name, source)            *)
Section ReadOrder.
  Variable h : list N -> Z -> N.

  (* the tuple the comparator effectively orders by *)
  Definition rkey (r : read) : Z * (Z * (N * (list N * Z))) :=
    (if N.eqb (rnvars r) 0 then 0%Z else 1%Z,
     (if N.eqb (rnvars r) 0 then 0%Z else rfirst r,
      (h (rname r) (rsource r), (rname r, rsource r)))).

  Definition key_cmp :=
    lex_pair _ _ Z.compare (lex_pair _ _ Z.compare (lex_pair _ _ N.compare (lex_pair _ _ name_cmp Z.compare))).

  Lemma good_key : good_cmp _ key_cmp.
  Proof.
    unfold key_cmp. repeat apply good_lex; auto using good_Z, good_N, good_name.
  Qed.

  Lemma tie_lt_cmp r1 r2 :
    tie_lt h r1 r2 = true <->
    lex (N.compare (h (rname r1) (rsource r1)) (h (rname r2) (rsource r2)))
        (lex (name_cmp (rname r1) (rname r2)) (Z.compare (rsource r1) (rsource r2))) = Lt.
  Proof.
    unfold tie_lt.
    destruct (N.eqb (h (rname r1) (rsource r1)) (h (rname r2) (rsource r2))) eqn:E; cbn [negb].
    - apply N.eqb_eq in E. rewrite E, N.compare_refl. cbn [lex].
      destruct (name_cmp (rname r1) (rname r2)); cbn [lex].
      + rewrite Z.ltb_lt. rewrite Z.compare_lt_iff. tauto.
      + tauto.
      + split; discriminate.
    - apply N.eqb_neq in E.
      destruct (N.compare (h (rname r1) (rsource r1)) (h (rname r2) (rsource r2))) eqn:C; cbn [lex].
      + apply N.compare_eq in C. contradiction.
      + apply N.compare_lt_iff in C. rewrite N.ltb_lt. tauto.
      + rewrite N.compare_gt_iff in C. split; [|discriminate].
        rewrite N.ltb_lt. lia.
  Qed.

  Lemma read_lt_cmp r1 r2 : read_lt h r1 r2 = true <-> key_cmp (rkey r1) (rkey r2) = Lt.
  Proof.
    unfold read_lt, key_cmp, rkey, lex_pair; cbn [fst snd].
    destruct (N.eqb (rnvars r1) 0) eqn:E1; destruct (N.eqb (rnvars r2) 0) eqn:E2.
    - apply N.eqb_eq in E1, E2. rewrite E1, E2. cbn [N.ltb N.compare orb Z.compare lex].
      apply tie_lt_cmp.
    - apply N.eqb_eq in E1. apply N.eqb_neq in E2.
      assert (H2 : N.ltb 0 (rnvars r2) = true) by (apply N.ltb_lt; lia).
      rewrite H2, orb_true_r. cbn [Z.compare lex]. tauto.
    - apply N.eqb_neq in E1. apply N.eqb_eq in E2.
      assert (H1 : N.ltb 0 (rnvars r1) = true) by (apply N.ltb_lt; lia).
      rewrite H1. cbn [orb Z.compare lex]. split; discriminate.
    - apply N.eqb_neq in E1.
      assert (H1 : N.ltb 0 (rnvars r1) = true) by (apply N.ltb_lt; lia).
      rewrite H1. cbn [orb Z.compare lex].
      destruct (Z.eqb (rfirst r1) (rfirst r2)) eqn:E; cbn [negb].
      + apply Z.eqb_eq in E. rewrite E, Z.compare_refl. cbn [lex]. apply tie_lt_cmp.
      + apply Z.eqb_neq in E.
        destruct (Z.compare (rfirst r1) (rfirst r2)) eqn:C; cbn [lex].
        * apply Z.compare_eq in C. contradiction.
        * rewrite Z.ltb_lt. apply Z.compare_lt_iff in C. tauto.
        * rewrite Z.compare_gt_iff in C. split; [|discriminate]. rewrite Z.ltb_lt. lia.
  Qed.

  Lemma read_lt_irrefl r : read_lt h r r = false.
  Proof.
    destruct (read_lt h r r) eqn:E; [|reflexivity].
    apply read_lt_cmp in E.
    pose proof (g_opp _ _ good_key (rkey r) (rkey r)) as H. rewrite E in H. discriminate.
  Qed.

  Lemma read_lt_trans r1 r2 r3 :
    read_lt h r1 r2 = true -> read_lt h r2 r3 = true -> read_lt h r1 r3 = true.
  Proof.
    rewrite !read_lt_cmp. apply (g_trans _ _ good_key).
  Qed.

  Lemma read_lt_asym r1 r2 : read_lt h r1 r2 = true -> read_lt h r2 r1 = false.
  Proof.
    intro H. destruct (read_lt h r2 r1) eqn:E; [|reflexivity].
    pose proof (read_lt_trans _ _ _ H E) as H'. rewrite read_lt_irrefl in H'. discriminate.
  Qed.

  Lemma read_lt_total r1 r2 : name_source r1 <> name_source r2 ->
    read_lt h r1 r2 = true \/ read_lt h r2 r1 = true.
  Proof.
    intro Hne. rewrite !read_lt_cmp.
    pose proof (g_opp _ _ good_key (rkey r1) (rkey r2)) as Ho.
    destruct (key_cmp (rkey r1) (rkey r2)) eqn:C.
    - exfalso. apply (g_eq _ _ good_key) in C. apply Hne.
      unfold rkey in C. unfold name_source. congruence.
    - left; reflexivity.
    - right. rewrite Ho. reflexivity.
  Qed.

  Theorem comparator_strict_total :
    (forall r, read_lt h r r = false) /\
    (forall r1 r2 r3, read_lt h r1 r2 = true -> read_lt h r2 r3 = true -> read_lt h r1 r3 = true) /\
    (forall r1 r2, read_lt h r1 r2 = true -> read_lt h r2 r1 = false) /\
    (forall r1 r2, name_source r1 <> name_source r2 -> read_lt h r1 r2 = true \/ read_lt h r2 r1 = true).
  Proof.
    split; [exact read_lt_irrefl|]. split; [exact read_lt_trans|]. split; [exact read_lt_asym|].
    exact read_lt_total.
  Qed.

  Lemma reads_comparable l : NoDup (map name_source l) -> comparable read (read_lt h) l.
  Proof.
    intros ND x y Hx Hy.
    destruct (NoDup_map_sep _ _ name_source l ND x y Hx Hy) as [E | N]; [left; exact E|].
    right. apply read_lt_total. exact N.
  Qed.

  (* the sorted read list is a function of the read SET: any insertion order, same result *)
  Theorem sort_perm_invariant : forall l l',
    NoDup (map name_source l) -> Permutation l l' -> sort_reads h l = sort_reads h l'.
  Proof.
    intros l l' ND P. unfold sort_reads.
    apply (isort_perm_invariant _ _ read_lt_irrefl read_lt_trans);
      [eapply NoDup_map_inv'; exact ND | apply reads_comparable; exact ND | exact P].
  Qed.

  (* ... and whatever std::sort does internally: any permutation that is sorted w.r.t. the
     comparator is that list *)
  Theorem sorted_output_unique : forall l s,
    NoDup (map name_source l) -> Permutation l s -> sortedb (read_lt h) s = true ->
    s = sort_reads h l.
  Proof.
    intros l s ND P Hs. unfold sort_reads.
    apply (any_sorted_perm_is_isort _ _ read_lt_irrefl read_lt_trans);
      [eapply NoDup_map_inv'; exact ND | apply reads_comparable; exact ND | exact P | exact Hs].
  Qed.

  Lemma sort_reads_sorted l : NoDup (map name_source l) ->
    sortedb (read_lt h) (sort_reads h l) = true /\ Permutation (sort_reads h l) l.
  Proof.
    intro ND. split.
    - apply StronglySorted_sortedb. apply (isort_sorted _ _ read_lt_trans);
        [eapply NoDup_map_inv'; exact ND | apply reads_comparable; exact ND].
    - apply isort_perm.
  Qed.
End ReadOrder.

(* ============================================================================================ *)
(* 4. sorting by key: sorted(d.items()), sorted(results, key=block_id)                            *)
Section KeySort.
  Variable V : Type.

  Lemma key_lt_irrefl (x : nat * V) : key_lt x x = false.
  Proof. unfold key_lt. apply Nat.ltb_irrefl. Qed.

  Lemma key_lt_trans (x y z : nat * V) : key_lt x y = true -> key_lt y z = true -> key_lt x z = true.
  Proof. unfold key_lt. rewrite !Nat.ltb_lt. lia. Qed.

  Lemma keys_comparable (l : list (nat * V)) : NoDup (map fst l) -> comparable _ key_lt l.
  Proof.
    intros ND x y Hx Hy.
    destruct (NoDup_map_sep _ _ fst l ND x y Hx Hy) as [E | N]; [left; exact E|].
    right. unfold key_lt. rewrite !Nat.ltb_lt. lia.
  Qed.

  Theorem sorted_items_order_irrelevant : forall d d' : list (nat * V),
    NoDup (map fst d) -> Permutation d d' -> sort_by_key d = sort_by_key d'.
  Proof.
    intros d d' ND P. unfold sort_by_key.
    apply (isort_perm_invariant _ _ key_lt_irrefl key_lt_trans);
      [eapply NoDup_map_inv'; exact ND | apply keys_comparable; exact ND | exact P].
  Qed.

  Lemma results_sequential_sorted (f : nat -> V) : forall n k,
    StronglySorted (ltP _ key_lt) (map (fun i => (i, f i)) (seq k n)).
  Proof.
    induction n as [|n IH]; intro k; cbn [seq map].
    - constructor.
    - constructor; [apply IH|].
      rewrite Forall_forall. intros x Hx. apply in_map_iff in Hx.
      destruct Hx as (i & <- & Hi). apply in_seq in Hi.
      unfold ltP, key_lt; cbn [fst]. apply Nat.ltb_lt. lia.
  Qed.

  Lemma results_sequential_keys (f : nat -> V) n :
    map fst (results_sequential f n) = seq 0 n.
  Proof.
    unfold results_sequential. rewrite map_map. cbn [fst]. apply map_id.
  Qed.

  (* whatever order the workers' results are collected in, re-sorting by block id gives exactly
     the list the single-threaded loop builds *)
  Theorem resort_equals_sequential : forall (f : nat -> V) (n : nat) (collected : list (nat * V)),
    Permutation (results_sequential f n) collected ->
    sort_by_key collected = results_sequential f n.
  Proof.
    intros f n collected P.
    assert (ND : NoDup (map fst (results_sequential f n))).
    { rewrite results_sequential_keys. apply seq_NoDup. }
    symmetry. unfold sort_by_key.
    replace (isort key_lt collected) with (isort key_lt (results_sequential f n)).
    - apply (any_sorted_perm_is_isort _ _ key_lt_irrefl key_lt_trans);
        [eapply NoDup_map_inv'; exact ND | apply keys_comparable; exact ND | apply Permutation_refl |].
      apply StronglySorted_sortedb. apply results_sequential_sorted.
    - apply (isort_perm_invariant _ _ key_lt_irrefl key_lt_trans);
        [eapply NoDup_map_inv'; exact ND | apply keys_comparable; exact ND | exact P].
  Qed.
End KeySort.

(* ============================================================================================ *)
(* 5. per-sample updates commute                                                                  *)
Section UpdateProofs.
  Variable C : Type.

  Lemma apply_updates_ext : forall (us : list (nat * (C -> C))) (r r' : vrecord C),
    (forall s, r s = r' s) -> forall s, apply_updates us r s = apply_updates us r' s.
  Proof.
    induction us as [|u us IH]; intros r r' H s; cbn [apply_updates fold_left].
    - apply H.
    - apply IH. intro s'. unfold apply_update, set_call. rewrite (H (fst u)).
      destruct (Nat.eqb s' (fst u)); auto.
  Qed.

  Lemma apply_update_swap (u v : nat * (C -> C)) (r : vrecord C) : fst u <> fst v ->
    forall s, apply_update (apply_update r u) v s = apply_update (apply_update r v) u s.
  Proof.
    intros Hne s. unfold apply_update, set_call.
    destruct (Nat.eqb_spec s (fst v)) as [Ev | Ev]; destruct (Nat.eqb_spec s (fst u)) as [Eu | Eu].
    - exfalso. apply Hne. rewrite <- Ev, <- Eu. reflexivity.
    - destruct (Nat.eqb_spec (fst v) (fst u)) as [E | E]; [exfalso; apply Hne; auto | reflexivity].
    - destruct (Nat.eqb_spec (fst u) (fst v)) as [E | E]; [exfalso; apply Hne; auto | reflexivity].
    - reflexivity.
  Qed.

  Theorem sample_updates_commute : forall (us us' : list (nat * (C -> C))) (r : vrecord C),
    NoDup (map fst us) -> Permutation us us' ->
    forall s, apply_updates us r s = apply_updates us' r s.
  Proof.
    intros us us' r ND P. revert r ND.
    induction P as [| u l l' P IH | u v l | l l' l'' P1 IH1 P2 IH2]; intros r ND s.
    - reflexivity.
    - cbn [apply_updates fold_left]. apply IH. cbn [map] in ND. inversion ND; assumption.
    - cbn [apply_updates fold_left]. apply apply_updates_ext. intro s'.
      apply apply_update_swap. cbn [map] in ND. inversion ND as [|? ? Hn _]; subst.
      intro E. apply Hn. left. symmetry. exact E.
    - rewrite IH1 by exact ND. apply IH2.
      eapply Permutation_NoDup; [apply Permutation_map; exact P1 | exact ND].
  Qed.
End UpdateProofs.

(* ============================================================================================ *)
(* 6. the family representative does not depend on the order of samples, trios, or parents        *)
Lemma merges_of_family_ops ms : merges_of (family_ops ms) = ms.
Proof.
  induction ms as [|[a b] ms IH]; cbn [family_ops map merges_of fst snd]; [reflexivity|].
  f_equal. exact IH.
Qed.

Lemma existsb_eqb_in x l : In x l -> existsb (Nat.eqb x) l = true.
Proof.
  intro H. apply existsb_exists. exists x. split; [exact H | apply Nat.eqb_refl].
Qed.

Lemma family_ops_wf values ms :
  (forall a b, In (a, b) ms -> a <> b /\ In a values /\ In b values) ->
  forallb (well_formed values) (family_ops ms) = true.
Proof.
  intro H. apply forallb_forall. intros o Ho. unfold family_ops in Ho.
  apply in_map_iff in Ho. destruct Ho as ([a b] & <- & Hab). cbn [fst snd well_formed].
  destruct (H a b Hab) as (Hne & Ha & Hb).
  rewrite (existsb_eqb_in a values Ha), (existsb_eqb_in b values Hb).
  apply Nat.eqb_neq in Hne. rewrite Hne. reflexivity.
Qed.

Lemma conn_edges_sub ms ms' :
  (forall a b, In (a, b) ms -> In (a, b) ms' \/ In (b, a) ms') ->
  forall u v, conn ms u v -> conn ms' u v.
Proof.
  intros He u v H. induction H as [u v H | u | u v _ IH | u w v _ IH1 _ IH2].
  - destruct (He u v H) as [H1 | H1].
    + apply rst_step. exact H1.
    + apply rst_sym. apply rst_step. exact H1.
  - apply rst_refl.
  - apply rst_sym. exact IH.
  - eapply rst_trans; eassumption.
Qed.

Lemma representative_is_min values ms x :
  (forall a b, In (a, b) ms -> a <> b /\ In a values /\ In b values) -> In x values ->
  exists r, representative values ms x = Some r /\ conn ms x r /\ forall y, conn ms x y -> r <= y.
Proof.
  intros Hwf Hx.
  destruct (find_is_component_min values (family_ops ms) x (family_ops_wf values ms Hwf) Hx)
    as (r & s' & Hf & Hc & Hm).
  rewrite merges_of_family_ops in Hc, Hm.
  exists r. unfold representative. rewrite Hf. auto.
Qed.

Theorem components_order_irrelevant : forall (values values' : list nat) (ms ms' : list (nat * nat)) (x : nat),
  (forall a b, In (a, b) ms -> a <> b /\ In a values /\ In b values) ->
  Permutation values values' ->
  (forall a b, In (a, b) ms -> In (a, b) ms' \/ In (b, a) ms') ->
  (forall a b, In (a, b) ms' -> In (a, b) ms \/ In (b, a) ms) ->
  In x values ->
  exists r, representative values ms x = Some r /\ representative values' ms' x = Some r /\
            conn ms x r /\ forall y, conn ms x y -> r <= y.
Proof.
  intros values values' ms ms' x Hwf Pv H12 H21 Hx.
  assert (Hwf' : forall a b, In (a, b) ms' -> a <> b /\ In a values' /\ In b values').
  { intros a b Hab. destruct (H21 a b Hab) as [H | H]; destruct (Hwf _ _ H) as (Hne & Ha & Hb).
    - split; [exact Hne|]. split; eapply Permutation_in; eassumption.
    - split; [auto|]. split; eapply Permutation_in; eassumption. }
  destruct (representative_is_min values ms x Hwf Hx) as (r & Hr & Hc & Hm).
  destruct (representative_is_min values' ms' x Hwf' (Permutation_in _ Pv Hx)) as (r' & Hr' & Hc' & Hm').
  assert (E : r = r').
  { apply Nat.le_antisymm.
    - apply Hm. eapply conn_edges_sub; [exact H21 | exact Hc'].
    - apply Hm'. eapply conn_edges_sub; [exact H12 | exact Hc]. }
  subst r'. exists r. auto.
Qed.

(* ============================================================================================ *)
(* 7. all modelled sources of order at once                                                       *)
Lemma modelled_order_sources_irrelevant :
  forall (h : list N -> Z -> N) (V C : Type)
         (reads reads' : list read)
         (f : nat -> V) (n : nat) (collected collected' : list (nat * V))
         (us us' : list (nat * (C -> C))) (r : vrecord C)
         (d d' : list (nat * V)),
  NoDup (map name_source reads) -> Permutation reads reads' ->
  Permutation (results_sequential f n) collected -> Permutation (results_sequential f n) collected' ->
  NoDup (map fst us) -> Permutation us us' ->
  NoDup (map fst d) -> Permutation d d' ->
  sort_reads h reads = sort_reads h reads' /\
  sort_by_key collected = sort_by_key collected' /\
  (forall s, apply_updates us r s = apply_updates us' r s) /\
  sort_by_key d = sort_by_key d'.
Proof.
  intros h V C reads reads' f n collected collected' us us' r d d' N1 P1 P2 P2' N3 P3 N4 P4.
  split; [apply sort_perm_invariant; assumption|].
  split; [rewrite (resort_equals_sequential V f n collected P2),
                  (resort_equals_sequential V f n collected' P2'); reflexivity|].
  split; [apply sample_updates_commute; assumption|].
  apply sorted_items_order_irrelevant; assumption.
Qed.
