(* Proofs about coq/model/GenotypeIndex.v, part 3: the 64-bit word.  The word built by the Genotype
   constructor is the base-16 number whose digits are: the alleles in descending order, zeros, and the
   ploidy in digit 15; get_position reads the digits back. Sorting facts for isort. *)
From Coq Require Import ZArith List Bool Lia Permutation Sorted.
From WH.Model Require Import GenotypeIndex.
From WH.Proofs Require Import GenotypeIndexProofs GenotypeIndexProofsCNS.
Import ListNotations.
Open Scope Z_scope.

Fixpoint pack (ds : list Z) : Z :=
  match ds with [] => 0 | d :: r => d + 16 * pack r end.

Definition digit (d : Z) : Prop := 0 <= d < 16.

Fixpoint updz (l : list Z) (i : nat) (v : Z) : list Z :=
  match l, i with
  | [], _ => []
  | _ :: r, O => v :: r
  | x :: r, S i' => x :: updz r i' v
  end.

Lemma pack_nonneg ds : Forall digit ds -> 0 <= pack ds.
Proof. induction 1 as [|d r Hd _ IH]; cbn [pack]; unfold digit in *; lia. Qed.

Lemma pack_bound ds : Forall digit ds -> pack ds < 16 ^ Z.of_nat (length ds).
Proof.
induction 1 as [|d r Hd _ IH]; [simpl; lia|].
cbn [pack length]. rewrite Nat2Z.inj_succ, Z.pow_succ_r by lia. unfold digit in *. lia.
Qed.

Lemma get_position_pack ds : Forall digit ds -> forall i : nat,
  get_position (pack ds) (Z.of_nat i) = nth i ds 0.
Proof.
unfold get_position. induction 1 as [|d r Hd Hr IH]; intro i.
- simpl. rewrite Zdiv_0_l. destruct i; reflexivity.
- destruct i as [|i].
  + cbn [pack nth]. change (Z.of_nat 0) with 0. rewrite Z.pow_0_r, Z.div_1_r.
    rewrite (Z.mul_comm 16), Z_mod_plus_full. apply Z.mod_small. exact Hd.
  + cbn [pack nth]. rewrite Nat2Z.inj_succ, Z.pow_succ_r by lia.
    rewrite <- Z.div_div by lia.
    rewrite (Z.mul_comm 16 (pack r)), Z.div_add by lia.
    rewrite (Z.div_small d 16) by exact Hd. rewrite Z.add_0_l. apply IH.
Qed.

Lemma pack_updz ds : forall (i : nat) v, (i < length ds)%nat ->
  pack (updz ds i v) = pack ds + (v - nth i ds 0) * 16 ^ Z.of_nat i.
Proof.
induction ds as [|d r IH]; intros i v Hi; [simpl in Hi; lia|].
destruct i as [|i].
- simpl. lia.
- cbn [updz pack nth]. rewrite IH by (simpl in Hi; lia).
  rewrite Nat2Z.inj_succ, Z.pow_succ_r by lia. ring.
Qed.

Lemma set_position_pack ds (i : nat) v : Forall digit ds -> (i < length ds)%nat ->
  set_position (pack ds) (Z.of_nat i) v = pack (updz ds i v).
Proof.
intros Hd Hi. unfold set_position. rewrite get_position_pack by exact Hd.
rewrite pack_updz by exact Hi. ring.
Qed.

Lemma updz_zeros n X v : updz (repeat 0 (S n) ++ X) n v = repeat 0 n ++ v :: X.
Proof. induction n as [|n IH]; [reflexivity|]. cbn [repeat app updz] in *. rewrite IH. reflexivity. Qed.

Lemma updz_app_zeros (d : list Z) n v :
  updz (d ++ repeat 0 (S n)) (length d + n) v = d ++ repeat 0 n ++ [v].
Proof.
induction d as [|x d IH].
- cbn [app length Nat.add]. pose proof (updz_zeros n [] v) as H. rewrite app_nil_r in H. exact H.
- cbn [app length Nat.add updz]. rewrite IH. reflexivity.
Qed.

Lemma Forall_digit_zeros n : Forall digit (repeat 0 n).
Proof. induction n; simpl; constructor; auto. unfold digit. lia. Qed.

(* ---- the fill loop of the constructor *)
Lemma fill_spec : forall rest done tail,
  Forall digit rest -> Forall digit done -> Forall digit tail ->
  fill rest (Z.of_nat (length done + length rest)) (Z.of_nat (length done))
       (pack (repeat 0 (length rest) ++ rev done ++ tail))
  = Some (pack (rev (done ++ rest) ++ tail)).
Proof.
induction rest as [|a rest IH]; intros done tail Hr Hd Ht.
- simpl. rewrite app_nil_r. reflexivity.
- cbn [fill]. inversion Hr as [|? ? Ha Hr']; subst.
  destruct (Z.geb_spec a 16) as [Hge|_]; [unfold digit in Ha; lia|].
  replace (Z.of_nat (length done + length (a :: rest)) - Z.of_nat (length done) - 1)
    with (Z.of_nat (length rest)) by (cbn [length]; lia).
  rewrite set_position_pack.
  + cbn [length]. rewrite updz_zeros.
    replace (Z.of_nat (length done) + 1) with (Z.of_nat (length (done ++ [a])))
      by (rewrite app_length; simpl; lia).
    replace (length done + S (length rest))%nat with (length (done ++ [a]) + length rest)%nat
      by (rewrite app_length; simpl; lia).
    replace (a :: rev done ++ tail) with (rev (done ++ [a]) ++ tail)
      by (rewrite rev_unit; reflexivity).
    rewrite (IH (done ++ [a]) tail Hr').
    * rewrite <- app_assoc. reflexivity.
    * apply Forall_app. split; [exact Hd|constructor; [exact Ha|constructor]].
    * exact Ht.
  + apply Forall_app. split; [apply Forall_digit_zeros|].
    apply Forall_app. split; [apply Forall_rev; exact Hd|exact Ht].
  + rewrite app_length, repeat_length. cbn [length]. lia.
Qed.

(* ---- sorting *)
Lemma insert_perm x l : Permutation (insert x l) (x :: l).
Proof.
induction l as [|y r IH]; simpl; [reflexivity|].
destruct (x <=? y); [reflexivity|]. rewrite IH. apply perm_swap.
Qed.

Lemma isort_perm l : Permutation (isort l) l.
Proof. induction l as [|x r IH]; simpl; [reflexivity|]. rewrite insert_perm, IH. reflexivity. Qed.

Lemma insert_sorted x l : StronglySorted Z.le l -> StronglySorted Z.le (insert x l).
Proof.
induction 1 as [|y r Hs IH Hy]; simpl.
- constructor; constructor.
- destruct (Z.leb_spec x y) as [Hle|Hgt].
  + constructor; [constructor; assumption|]. constructor; [exact Hle|].
    eapply Forall_impl; [|exact Hy]. intros z Hz. simpl in Hz. lia.
  + constructor; [exact IH|].
    eapply Permutation_Forall; [symmetry; apply insert_perm|]. constructor; [lia|exact Hy].
Qed.

Lemma isort_sorted l : StronglySorted Z.le (isort l).
Proof. induction l as [|x r IH]; simpl; [constructor|]. apply insert_sorted. exact IH. Qed.

Lemma isort_length l : length (isort l) = length l.
Proof. apply Permutation_length, isort_perm. Qed.

Lemma sorted_perm_eq l1 : forall l2, StronglySorted Z.le l1 -> StronglySorted Z.le l2 ->
  Permutation l1 l2 -> l1 = l2.
Proof.
induction l1 as [|x r IH]; intros l2 H1 H2 P.
- apply Permutation_nil in P. subst. reflexivity.
- destruct l2 as [|y r2]; [apply Permutation_sym, Permutation_nil in P; discriminate|].
  inversion H1 as [|? ? Hs1 Hx]; subst. inversion H2 as [|? ? Hs2 Hy]; subst.
  assert (x = y).
  { assert (I1 : In x (y :: r2)) by (eapply Permutation_in; [exact P|left; reflexivity]).
    assert (I2 : In y (x :: r)) by (eapply Permutation_in; [symmetry; exact P|left; reflexivity]).
    rewrite Forall_forall in Hx, Hy.
    destruct I1 as [->|I1]; [reflexivity|]. destruct I2 as [->|I2]; [reflexivity|].
    specialize (Hx _ I2). specialize (Hy _ I1). lia. }
  subst y. f_equal. apply IH; [exact Hs1|exact Hs2|]. eapply Permutation_cons_inv. exact P.
Qed.

Lemma isort_unique l1 l2 : Permutation l1 l2 -> isort l1 = isort l2.
Proof.
intro P. apply sorted_perm_eq; try apply isort_sorted.
rewrite !isort_perm. exact P.
Qed.

(* descending view of an ascending sorted list *)
Lemma okd_snoc d : forall a x, okd a d -> 0 <= x <= a -> Forall (fun y => x <= y) d -> okd a (d ++ [x]).
Proof.
induction d as [|b r IH]; intros a x Hok Hx Hall.
- simpl. split; [lia|exact I].
- destruct Hok as [Hb Hr]. inversion Hall as [|? ? Hxb Hall']; subst.
  simpl. split; [lia|]. apply IH; [exact Hr|lia|exact Hall'].
Qed.

Lemma okd_rev_sorted l a : StronglySorted Z.le l -> Forall (fun x => 0 <= x <= a) l -> okd a (rev l).
Proof.
induction 1 as [|x r Hs IH Hx]; intro Hall; [exact I|].
inversion Hall as [|? ? Hxa Hall']; subst. simpl.
apply okd_snoc; [apply IH; exact Hall'|lia|apply Forall_rev; exact Hx].
Qed.

(* ---- valid allele vectors and their code word *)
Definition valid_alleles (al : list Z) : Prop :=
  (length al < 15)%nat /\ Forall digit al.

Definition digits_of (al : list Z) : list Z :=
  rev (isort al) ++ repeat 0 (15 - length al) ++ [Z.of_nat (length al)].
Definition code (al : list Z) : Z := pack (digits_of al).

Lemma valid_sorted_digits al : valid_alleles al -> Forall digit (isort al).
Proof. intros [_ H]. eapply Permutation_Forall; [symmetry; apply isort_perm|exact H]. Qed.

Lemma digits_of_ok al : valid_alleles al -> Forall digit (digits_of al) /\ length (digits_of al) = 16%nat.
Proof.
intro Hv. pose proof (valid_sorted_digits al Hv) as Hs. destruct Hv as [Hlen Hd]. unfold digits_of. split.
- apply Forall_app. split; [apply Forall_rev; exact Hs|].
  apply Forall_app. split; [apply Forall_digit_zeros|]. constructor; [unfold digit; lia|constructor].
- rewrite !app_length, rev_length, isort_length, repeat_length. cbn [length]. lia.
Qed.

Lemma okd_desc al : valid_alleles al -> okd 15 (rev (isort al)).
Proof.
intro Hv. apply okd_rev_sorted; [apply isort_sorted|].
eapply Forall_impl; [|apply (valid_sorted_digits al Hv)]. unfold digit. cbv beta. intros; lia.
Qed.

Lemma code_position al (i : nat) : valid_alleles al -> (i < length al)%nat ->
  get_position (code al) (Z.of_nat i) = nth i (rev (isort al)) 0.
Proof.
intros Hv Hi. unfold code. rewrite get_position_pack by (apply digits_of_ok; exact Hv).
unfold digits_of. rewrite app_nth1 by (rewrite rev_length, isort_length; exact Hi). reflexivity.
Qed.

Lemma code_ploidy al : valid_alleles al -> get_ploidy (code al) = Z.of_nat (length al).
Proof.
intro Hv. unfold get_ploidy, code. change 15 with (Z.of_nat 15).
rewrite get_position_pack by (apply digits_of_ok; exact Hv).
unfold digits_of. destruct Hv as [Hlen _].
rewrite app_nth2 by (rewrite rev_length, isort_length; lia).
rewrite rev_length, isort_length.
rewrite app_nth2 by (rewrite repeat_length; lia).
rewrite repeat_length. replace (15 - length al - (15 - length al))%nat with 0%nat by lia. reflexivity.
Qed.

Lemma positions_spec gt d : forall (cnt i : nat),
  (forall k : nat, (k < i + cnt)%nat -> get_position gt (Z.of_nat k) = nth k d 0) ->
  (i + cnt = length d)%nat ->
  positions cnt gt (Z.of_nat i) = skipn i d.
Proof.
induction cnt as [|cnt IH]; intros i Hpos Hlen.
- simpl. rewrite skipn_all2 by lia. reflexivity.
- cbn [positions]. rewrite Hpos by lia.
  replace (Z.of_nat i + 1) with (Z.of_nat (S i)) by lia.
  rewrite IH; [|intros k Hk; apply Hpos; lia|lia].
  assert (Hi : (i < length d)%nat) by lia. clear -Hi.
  revert i Hi. induction d as [|x d IHd]; intros i Hi; [simpl in Hi; lia|].
  destruct i as [|i]; [reflexivity|]. simpl. apply IHd. simpl in Hi. lia.
Qed.

Theorem as_vector_code al : valid_alleles al -> as_vector (code al) = rev (isort al).
Proof.
intro Hv. unfold as_vector. rewrite code_ploidy by exact Hv. rewrite Nat2Z.id.
apply (positions_spec (code al) (rev (isort al)) (length al) 0).
- intros k Hk. apply code_position; [exact Hv|lia].
- rewrite rev_length, isort_length. lia.
Qed.

Lemma check_sorted_ok gt d : forall (cnt i : nat),
  (forall k : nat, (k <= i + cnt)%nat -> get_position gt (Z.of_nat k) = nth k d 0) ->
  (forall k : nat, (k < i + cnt)%nat -> nth (S k) d 0 <= nth k d 0) ->
  check_sorted cnt gt (Z.of_nat i) = true.
Proof.
induction cnt as [|cnt IH]; intros i Hpos Hs; [reflexivity|].
cbn [check_sorted]. rewrite Hpos by lia.
replace (Z.of_nat i + 1) with (Z.of_nat (S i)) by lia. rewrite Hpos by lia.
destruct (Z.ltb_spec (nth i d 0) (nth (S i) d 0)) as [Hlt|_].
- specialize (Hs i ltac:(lia)). lia.
- apply IH; intros k Hk; [apply Hpos|apply Hs]; lia.
Qed.

Lemma okd_nth_desc d : forall a k, okd a d -> (S k < length d)%nat -> nth (S k) d 0 <= nth k d 0.
Proof.
induction d as [|b r IH]; intros a k Hok Hk; [simpl in Hk; lia|].
destruct Hok as [Hb Hr]. destruct k as [|k].
- destruct r as [|c r']; [simpl in Hk; lia|]. destruct Hr as [Hc _]. simpl. lia.
- simpl. apply (IH b k Hr). simpl in Hk. lia.
Qed.

Theorem mk_genotype_code al : valid_alleles al -> mk_genotype al = inr (code al).
Proof.
intro Hv. pose proof Hv as [Hlen Hd]. unfold mk_genotype.
destruct (Z.geb_spec (Z.of_nat (length al)) 15) as [|_]; [lia|].
pose proof (fill_spec (isort al) [] (repeat 0 (16 - length al))
              (valid_sorted_digits al Hv) (Forall_nil _) (Forall_digit_zeros _)) as F.
cbn [length rev app Nat.add Z.of_nat] in F. rewrite isort_length in F.
replace (repeat 0 (length al) ++ repeat 0 (16 - length al)) with (repeat 0 16) in F
  by (rewrite <- repeat_app; f_equal; lia).
change (pack (repeat 0 16)) with 0 in F. rewrite F.
(* set_ploidy *)
unfold set_ploidy. change 15 with (Z.of_nat 15).
assert (Hdig : Forall digit (rev (isort al) ++ repeat 0 (16 - length al))).
{ apply Forall_app. split; [apply Forall_rev, valid_sorted_digits; exact Hv|apply Forall_digit_zeros]. }
rewrite set_position_pack; [|exact Hdig|rewrite app_length, rev_length, isort_length, repeat_length; lia].
assert (Hupd : updz (rev (isort al) ++ repeat 0 (16 - length al)) 15 (Z.of_nat (length al)) = digits_of al).
{ unfold digits_of.
  assert (Hl : length (rev (isort al)) = length al) by (rewrite rev_length, isort_length; reflexivity).
  remember (15 - length al)%nat as n eqn:En.
  replace (16 - length al)%nat with (S n) by lia.
  replace 15%nat with (length (rev (isort al)) + n)%nat by lia.
  apply updz_app_zeros. }
rewrite Hupd. fold (code al).
destruct (Z.gtb_spec (Z.of_nat (length al)) 0) as [Hpos|Hzero]; [|reflexivity].
cbn [andb].
assert (Hc : check_sorted (Z.to_nat (Z.of_nat (length al) - 1)) (code al) 0 = true).
{ apply (check_sorted_ok (code al) (rev (isort al)) (Z.to_nat (Z.of_nat (length al) - 1)) 0).
  - intros k Hk. apply code_position; [exact Hv|lia].
  - intros k Hk. apply (okd_nth_desc _ 15 k (okd_desc al Hv)). rewrite rev_length, isort_length. lia. }
rewrite Hc. reflexivity.
Qed.

Theorem code_injective al bl : valid_alleles al -> valid_alleles bl ->
  code al = code bl -> Permutation al bl.
Proof.
intros Ha Hb E.
assert (E2 : rev (isort al) = rev (isort bl)) by (rewrite <- !as_vector_code, E by assumption; reflexivity).
apply (f_equal (@rev Z)) in E2. rewrite !rev_involutive in E2.
rewrite <- (isort_perm al), <- (isort_perm bl), E2. reflexivity.
Qed.

Lemma code_perm al bl : Permutation al bl -> code al = code bl.
Proof.
intro P. unfold code, digits_of. rewrite (isort_unique al bl P), (Permutation_length P). reflexivity.
Qed.
