(* C05 - proofs about the model in WH.Model.Mendel (stdlib style) *)
From Coq Require Import ZArith NArith List Bool Arith Lia Permutation.
From WH.Model Require Import Mendel.
Import ListNotations.
Local Open Scope nat_scope.

(* ------------------------------------------------------------------ triple_of *)
Lemma triple_of_some : forall ts k0 i k tr,
  triple_of ts k0 i = Some (k, tr) ->
  k0 <= k /\ nth_error ts (k - k0) = Some tr /\ tr_child tr = i.
Proof.
  induction ts as [|t0 rest IH]; intros k0 i k tr H; cbn [triple_of] in H.
  - discriminate.
  - destruct (triple_of rest (S k0) i) as [r|] eqn:E.
    + inversion H; subst r. apply IH in E. destruct E as (Hle & Hn & Hc).
      split; [lia|]. split; [|exact Hc].
      replace (k - k0) with (S (k - S k0)) by lia. exact Hn.
    + destruct (tr_child t0 =? i) eqn:Ec; [|discriminate].
      inversion H; subst. apply Nat.eqb_eq in Ec.
      split; [lia|]. split; [|exact Ec]. now rewrite Nat.sub_diag.
Qed.

Lemma triple_of_none : forall ts k0 i,
  triple_of ts k0 i = None <-> ~ In i (map tr_child ts).
Proof.
  induction ts as [|t0 rest IH]; intros k0 i; cbn [triple_of map].
  - split; [intros _ []|reflexivity].
  - destruct (triple_of rest (S k0) i) as [r|] eqn:E.
    + split; [discriminate|]. intros Hn. exfalso. apply Hn. right.
      destruct (in_dec Nat.eq_dec i (map tr_child rest)) as [Hi|Hi]; [exact Hi|].
      apply (IH (S k0)) in Hi. congruence.
    + apply IH in E. destruct (tr_child t0 =? i) eqn:Ec.
      * apply Nat.eqb_eq in Ec. split; [discriminate|]. intros Hn. exfalso. apply Hn. now left.
      * apply Nat.eqb_neq in Ec. split; [|reflexivity]. intros _ [H|H]; [congruence|]. now apply E.
Qed.

Lemma triple_of_nodup : forall ts k0 j tr,
  NoDup (map tr_child ts) -> nth_error ts j = Some tr ->
  triple_of ts k0 (tr_child tr) = Some (k0 + j, tr).
Proof.
  induction ts as [|t0 rest IH]; intros k0 j tr Hnd Hn.
  - destruct j; discriminate.
  - cbn [map] in Hnd. inversion Hnd as [|x l Hni Hnd']; subst. cbn [triple_of].
    destruct j as [|j]; cbn [nth_error] in Hn.
    + inversion Hn; subst t0.
      assert (E : triple_of rest (S k0) (tr_child tr) = None) by (now apply triple_of_none).
      rewrite E, Nat.eqb_refl. f_equal. f_equal. lia.
    + rewrite (IH (S k0) j tr Hnd' Hn). f_equal. f_equal. lia.
Qed.

Lemma triple_of_in : forall ts k0 i k tr, triple_of ts k0 i = Some (k, tr) -> In tr ts.
Proof.
  intros ts k0 i k tr H. apply triple_of_some in H. destruct H as (_ & Hn & _).
  eapply nth_error_In; eauto.
Qed.

(* ------------------------------------------------------------------ h2p_rec: termination, fuel *)
Section Fuel.
Variables (n : nat) (ts : list triple) (rk : nat -> nat).
Hypothesis WF : wf_ped n ts rk.
Variable tb : nat -> bool.

Lemma h2p_rec_terminates : forall fuel i, rk i < fuel \/ is_root ts i = true ->
  exists p, h2p_rec ts tb fuel i = Some p.
Proof.
  induction fuel as [|fuel IH]; intros i Hi.
  - destruct Hi as [Hi|Hi]; [lia|]. unfold is_root in Hi. cbn [h2p_rec].
    destruct (triple_of ts 0 i) as [[k tr]|]; [discriminate|]. eauto.
  - cbn [h2p_rec]. destruct (triple_of ts 0 i) as [[k tr]|] eqn:E; [|eauto].
    destruct Hi as [Hi|Hi]; [|unfold is_root in Hi; rewrite E in Hi; discriminate].
    pose proof (triple_of_in _ _ _ _ _ E) as Hin.
    pose proof (triple_of_some _ _ _ _ _ E) as (_ & _ & Hc).
    destruct (wf_rank _ _ _ WF tr Hin) as [Hf Hm]. rewrite Hc in Hf, Hm.
    destruct (IH (tr_father tr)) as [pf Epf]; [left; lia|].
    destruct (IH (tr_mother tr)) as [pm Epm]; [left; lia|].
    rewrite Epf, Epm. eauto.
Qed.

Lemma h2p_rec_mono : forall fuel i p, h2p_rec ts tb fuel i = Some p ->
  forall fuel', fuel <= fuel' -> h2p_rec ts tb fuel' i = Some p.
Proof.
  induction fuel as [|fuel IH]; intros i p H fuel' Hle.
  - cbn [h2p_rec] in H. destruct fuel'; cbn [h2p_rec];
      destruct (triple_of ts 0 i) as [[k tr]|]; try discriminate; exact H.
  - destruct fuel' as [|fuel']; [lia|]. cbn [h2p_rec] in *.
    destruct (triple_of ts 0 i) as [[k tr]|]; [|exact H].
    destruct (h2p_rec ts tb fuel (tr_father tr)) as [pf|] eqn:Ef; [|discriminate].
    destruct (h2p_rec ts tb fuel (tr_mother tr)) as [pm|] eqn:Em; [|discriminate].
    rewrite (IH _ _ Ef fuel') by lia. rewrite (IH _ _ Em fuel') by lia. exact H.
Qed.

Lemma h2p_rec_total : forall i, i < n -> exists p, h2p_rec ts tb n i = Some p.
Proof.
  intros i Hi. apply h2p_rec_terminates. left. now apply (wf_rank_bound _ _ _ WF).
Qed.

(* the mechanism of the property: the child's haplotype 0 shares its partition with the father's
   haplotype [!(bit 2k)], its haplotype 1 with the mother's haplotype [!(bit 2k+1)] *)
Lemma child_shares_fuel : forall fuel k tr, nth_error ts k = Some tr -> rk (tr_child tr) < fuel ->
  exists pf pm,
    h2p_rec ts tb fuel (tr_father tr) = Some pf /\
    h2p_rec ts tb fuel (tr_mother tr) = Some pm /\
    h2p_rec ts tb fuel (tr_child tr) = Some (sel pf (negb (tb (2 * k))), sel pm (negb (tb (2 * k + 1)))).
Proof.
  intros fuel k tr Hn Rc.
  pose proof (nth_error_In _ _ Hn) as Hin.
  destruct (wf_rank _ _ _ WF tr Hin) as [Rf Rm].
  pose proof (triple_of_nodup ts 0 k tr (wf_child_once _ _ _ WF) Hn) as E. cbn [Nat.add] in E.
  destruct fuel as [|fuel']; [lia|].
  destruct (h2p_rec_terminates fuel' (tr_father tr)) as [pf Epf]; [left; lia|].
  destruct (h2p_rec_terminates fuel' (tr_mother tr)) as [pm Epm]; [left; lia|].
  exists pf, pm. split; [|split].
  - apply (h2p_rec_mono _ _ _ Epf). lia.
  - apply (h2p_rec_mono _ _ _ Epm). lia.
  - cbn [h2p_rec]. rewrite E, Epf, Epm. reflexivity.
Qed.

Lemma child_shares_rec : forall k tr, nth_error ts k = Some tr ->
  exists pf pm,
    h2p_rec ts tb n (tr_father tr) = Some pf /\
    h2p_rec ts tb n (tr_mother tr) = Some pm /\
    h2p_rec ts tb n (tr_child tr) = Some (sel pf (negb (tb (2 * k))), sel pm (negb (tb (2 * k + 1)))).
Proof.
  intros k tr Hn. apply child_shares_fuel; [exact Hn|].
  pose proof (nth_error_In _ _ Hn) as Hin.
  destruct (wf_idx _ _ _ WF tr Hin) as (Hf & Hm & Hc).
  now apply (wf_rank_bound _ _ _ WF).
Qed.
End Fuel.

Lemma h2p_tab_spec : forall n ts t i, i < n -> h2p_tab n ts t i = h2p n ts t i.
Proof.
  intros n ts t i Hi. unfold h2p_tab.
  rewrite (nth_indep _ None (h2p n ts t 0)) by (now rewrite map_length, seq_length).
  rewrite map_nth, seq_nth by exact Hi. reflexivity.
Qed.

Lemma h2p_tab_out : forall n ts t i, n <= i -> h2p_tab n ts t i = None.
Proof.
  intros n ts t i Hi. unfold h2p_tab. apply nth_overflow. now rewrite map_length, seq_length.
Qed.

Theorem child_shares_partition : forall n ts rk, wf_ped n ts rk ->
  forall (t : N) k tr, nth_error ts k = Some tr ->
  exists pf pm,
    h2p n ts t (tr_father tr) = Some pf /\
    h2p n ts t (tr_mother tr) = Some pm /\
    h2p n ts t (tr_child tr) = Some (sel pf (negb (tbit t (2 * k))), sel pm (negb (tbit t (2 * k + 1)))).
Proof. intros n ts rk WF t k tr Hn. unfold h2p. eapply child_shares_rec; eauto. Qed.

(* ------------------------------------------------------------------ allowed assignments *)
Lemma geno_eqb_eq : forall g h, geno_eqb g h = true <-> g = h.
Proof.
  induction g as [|a g IH]; intros [|b h]; cbn [geno_eqb]; split; intros H;
    try reflexivity; try discriminate.
  - apply andb_true_iff in H. destruct H as [H1 H2]. apply Z.eqb_eq in H1. apply IH in H2. now subst.
  - inversion H; subst. rewrite Z.eqb_refl. cbn. now apply IH.
Qed.

Lemma in_enum : forall (a : N) m, In a (map N.of_nat (seq 0 m)) <-> N.to_nat a < m.
Proof.
  intros a m. rewrite in_map_iff. split.
  - intros (x & Hx & Hin). apply in_seq in Hin. subst a. rewrite Nnat.Nat2N.id. lia.
  - intros H. exists (N.to_nat a). split; [apply Nnat.N2Nat.id|]. apply in_seq. lia.
Qed.

Lemma compatible_spec : forall n hp gs ab,
  compatible n hp gs ab = true <->
  forall i, i < n -> exists p, hp i = Some p /\
                     geno_of (alle hp ab i false) (alle hp ab i true) = nth i gs [].
Proof.
  intros n hp gs ab. unfold compatible. rewrite forallb_forall. split.
  - intros H i Hi. specialize (H i). rewrite in_seq in H. specialize (H ltac:(lia)).
    destruct (hp i) as [p|] eqn:E; [|discriminate]. exists p. split; [reflexivity|]. now apply geno_eqb_eq.
  - intros H i Hi. apply in_seq in Hi. destruct (H i ltac:(lia)) as (p & E & G). rewrite E. now apply geno_eqb_eq.
Qed.

Lemma allowed_in : forall n ts t gs a,
  In a (allowed n ts t gs) <->
  N.to_nat a < 2 ^ part_count n ts /\ compatible n (h2p_tab n ts t) gs (abit a) = true.
Proof. intros. unfold allowed. rewrite filter_In, in_enum. tauto. Qed.

Lemma has_allowed_spec : forall n ts t gs,
  has_allowed n ts t gs = true <-> exists a, In a (allowed n ts t gs).
Proof.
  intros. unfold has_allowed. rewrite existsb_exists. split.
  - intros (a & Hin & Hc). exists a. apply allowed_in. split; [now apply in_enum|exact Hc].
  - intros (a & Ha). apply allowed_in in Ha. exists a. split; [now apply in_enum|tauto].
Qed.

Lemma in_geno_of_sel : forall x y h, In (b2z (sel (x, y) h)) (geno_of x y).
Proof. intros [] [] []; cbn; auto. Qed.

Section ChildAlleles.
Variables (n : nat) (ts : list triple) (rk : nat -> nat).
Hypothesis WF : wf_ped n ts rk.

(* for every transmission value and EVERY assignment (allowed or not): the child's two alleles are the
   father's allele on the haplotype selected by bit 2k and the mother's on the one selected by bit 2k+1 *)
Lemma alle_child : forall (t : N) (ab : nat -> bool) k tr, nth_error ts k = Some tr ->
  alle (h2p n ts t) ab (tr_child tr) false = alle (h2p n ts t) ab (tr_father tr) (negb (tbit t (2 * k))) /\
  alle (h2p n ts t) ab (tr_child tr) true = alle (h2p n ts t) ab (tr_mother tr) (negb (tbit t (2 * k + 1))).
Proof.
  intros t ab k tr Hn.
  destruct (child_shares_partition n ts rk WF t k tr Hn) as (pf & pm & Ef & Em & Ec).
  unfold alle. rewrite Ef, Em, Ec. cbn [sel fst snd]. split; reflexivity.
Qed.

Lemma alle_tab : forall t ab i h, i < n -> alle (h2p_tab n ts t) ab i h = alle (h2p n ts t) ab i h.
Proof. intros. unfold alle. now rewrite h2p_tab_spec. Qed.

Lemma allowed_geno : forall t gs a i, In a (allowed n ts t gs) -> i < n ->
  geno_of (alle (h2p n ts t) (abit a) i false) (alle (h2p n ts t) (abit a) i true) = gof gs i.
Proof.
  intros t gs a i Ha Hi. apply allowed_in in Ha. destruct Ha as [_ Hc].
  destruct (proj1 (compatible_spec _ _ _ _) Hc i Hi) as (p & _ & G).
  rewrite !alle_tab in G by exact Hi. exact G.
Qed.

Theorem child_alleles_from_parents : forall (t : N) gs a k tr,
  In a (allowed n ts t gs) -> nth_error ts k = Some tr ->
  let al := alle (h2p n ts t) (abit a) in
  al (tr_child tr) false = al (tr_father tr) (negb (tbit t (2 * k))) /\
  al (tr_child tr) true = al (tr_mother tr) (negb (tbit t (2 * k + 1))) /\
  In (b2z (al (tr_child tr) false)) (gof gs (tr_father tr)) /\
  In (b2z (al (tr_child tr) true)) (gof gs (tr_mother tr)) /\
  geno_of (al (tr_child tr) false) (al (tr_child tr) true) = gof gs (tr_child tr).
Proof.
  intros t gs a k tr Ha Hn al.
  pose proof (nth_error_In _ _ Hn) as Hin.
  destruct (wf_idx _ _ _ WF tr Hin) as (Hf & Hm & Hc).
  destruct (alle_child t (abit a) k tr Hn) as [E0 E1]. fold al in E0, E1.
  split; [exact E0|]. split; [exact E1|].
  split; [|split].
  - rewrite E0, <- (allowed_geno t gs a _ Ha Hf). fold al.
    destruct (negb (tbit t (2 * k))).
    + exact (in_geno_of_sel (al (tr_father tr) false) (al (tr_father tr) true) true).
    + exact (in_geno_of_sel (al (tr_father tr) false) (al (tr_father tr) true) false).
  - rewrite E1, <- (allowed_geno t gs a _ Ha Hm). fold al.
    destruct (negb (tbit t (2 * k + 1))).
    + exact (in_geno_of_sel (al (tr_mother tr) false) (al (tr_mother tr) true) true).
    + exact (in_geno_of_sel (al (tr_mother tr) false) (al (tr_mother tr) true) false).
  - exact (allowed_geno t gs a _ Ha Hc).
Qed.
End ChildAlleles.

(* ------------------------------------------------------------------ get_alleles *)
Lemma nth_map_seq : forall (A : Type) (f : nat -> A) n i d, i < n -> nth i (map f (seq 0 n)) d = f i.
Proof.
  intros A f n i d Hi. rewrite (nth_indep _ d (f 0)) by (now rewrite map_length, seq_length).
  now rewrite map_nth, seq_nth.
Qed.

Lemma best_assignment_fold : forall pc cp (P : N -> Prop) al st,
  (forall a, snd st = Some a -> P a /\ fst st = acost pc cp a) ->
  (forall a, In a al -> P a) ->
  forall a,
    snd (fold_left (fun st a => if (acost pc cp a <=? fst st)%Z then (acost pc cp a, Some a) else st) al st) = Some a ->
    P a /\ fst (fold_left (fun st a => if (acost pc cp a <=? fst st)%Z then (acost pc cp a, Some a) else st) al st)
           = acost pc cp a.
Proof.
  induction al as [|x al IH]; intros st Hst Hal a Hr; cbn [fold_left] in *.
  - now apply Hst.
  - apply (IH _) in Hr; [exact Hr| |].
    + intros b Hb. destruct (acost pc cp x <=? fst st)%Z.
      * cbn [snd fst] in *. inversion Hb; subst. split; [apply Hal; now left|reflexivity].
      * now apply Hst.
    + intros b Hb. apply Hal. now right.
Qed.

Lemma best_assignment_in : forall pc cp al bc a,
  best_assignment pc cp al = (bc, Some a) -> In a al /\ bc = acost pc cp a.
Proof.
  intros pc cp al bc a H. unfold best_assignment in H.
  pose proof (best_assignment_fold pc cp (fun a => In a al) al (UMAX, None)) as F.
  rewrite H in F. cbn [fst snd] in F. apply F; [discriminate|auto|reflexivity].
Qed.

(* the shape of the result: all individuals' alleles come from ONE allowed assignment; single
   haplotypes may be overwritten by the tie code *)
Lemma get_alleles_spec : forall n ts t cp gs l,
  get_alleles n ts t cp gs = Alleles l ->
  exists a,
    In a (allowed n ts t gs) /\
    l = map (fun i => (if is_tie (part_count n ts) cp (h2p_tab n ts t) (allowed n ts t gs) i false
                       then TIE else b2z (alle (h2p_tab n ts t) (abit a) i false),
                       if is_tie (part_count n ts) cp (h2p_tab n ts t) (allowed n ts t gs) i true
                       then TIE else b2z (alle (h2p_tab n ts t) (abit a) i true)))
            (seq 0 n).
Proof.
  intros n ts t cp gs l H. unfold get_alleles in H.
  destruct (negb _); [discriminate|].
  destruct (best_assignment _ _ _) as [bc [a|]] eqn:E; [|discriminate].
  destruct (Z.eqb bc UMAX); [discriminate|]. inversion H; subst l. clear H.
  apply best_assignment_in in E. destruct E as [Hin _].
  exists a. split; [exact Hin|reflexivity].
Qed.

Lemma combine_seq_nth : forall (A : Type) (l : list A) k0 k x,
  In (k, x) (combine (seq k0 (length l)) l) -> k0 <= k /\ nth_error l (k - k0) = Some x.
Proof.
  induction l as [|y l IH]; intros k0 k x H; cbn in H; [contradiction|].
  destruct H as [H|H].
  - inversion H; subst. split; [lia|]. now rewrite Nat.sub_diag.
  - apply IH in H. destruct H as [Hle Hn]. split; [lia|].
    replace (k - k0) with (S (k - S k0)) by lia. exact Hn.
Qed.

Lemma zmem_In : forall x l, In x l -> zmem x l = true.
Proof.
  intros x l H. unfold zmem. apply existsb_exists. exists x. split; [exact H|apply Z.eqb_refl].
Qed.

Lemma b2z_eqb_1 : forall x, Z.eqb (b2z x) 1 = x.
Proof. now intros []. Qed.
Lemma b2z_not_tie : forall x, Z.eqb (b2z x) TIE = false.
Proof. now intros []. Qed.
Lemma b2z_allele_ok : forall x, allele_ok (b2z x) = true.
Proof. now intros []. Qed.

(* transmission_consistent: whatever transmission value and bipartition costs the DP settles on, the
   super-read alleles of the column satisfy the Mendelian predicate that the harness evaluates on the
   implementation's output *)
Theorem get_alleles_mendelian : forall n ts rk, wf_ped n ts rk ->
  forall t cp gs l, get_alleles n ts t cp gs = Alleles l -> sr_column_ok n ts gs t l = true.
Proof.
  intros n ts rk WF t cp gs l H.
  destruct (get_alleles_spec _ _ _ _ _ _ H) as (a & Ha & El).
  set (tie := is_tie (part_count n ts) cp (h2p_tab n ts t) (allowed n ts t gs)) in *.
  set (hp := h2p_tab n ts t) in *.
  assert (Hnth : forall i, i < n -> nth i l (TIE, TIE) =
            (if tie i false then TIE else b2z (alle hp (abit a) i false),
             if tie i true then TIE else b2z (alle hp (abit a) i true))).
  { intros i Hi. rewrite El. now rewrite nth_map_seq. }
  unfold sr_column_ok. apply andb_true_iff. split; [apply andb_true_iff; split|].
  - apply Nat.eqb_eq. rewrite El. now rewrite map_length, seq_length.
  - apply forallb_forall. intros [k tr] Hin.
    apply combine_seq_nth in Hin. destruct Hin as [_ Hn]. rewrite Nat.sub_0_r in Hn.
    pose proof (nth_error_In _ _ Hn) as Hts.
    destruct (wf_idx _ _ _ WF tr Hts) as (Hf & Hm & Hc).
    destruct (child_alleles_from_parents n ts rk WF t gs a k tr Ha Hn) as (E0 & E1 & I0 & I1 & _).
    assert (T : forall i h, i < n -> alle (h2p n ts t) (abit a) i h = alle hp (abit a) i h)
      by (intros; symmetry; now apply alle_tab).
    rewrite !T in E0 by assumption. rewrite !T in E1 by assumption.
    rewrite !T in I0 by assumption. rewrite !T in I1 by assumption.
    rewrite (Hnth _ Hc). cbn [fst snd]. apply andb_true_iff. split.
    + unfold sr_parent_ok. destruct (tie (tr_child tr) false); [reflexivity|].
      rewrite b2z_not_tie, b2z_allele_ok, (zmem_In _ _ I0). cbn [andb].
      rewrite (Hnth _ Hf). destruct (negb (tbit t (2 * k))); cbn [sel fst snd].
      * destruct (tie (tr_father tr) true); [reflexivity|]. rewrite E0, Z.eqb_refl. apply orb_true_r.
      * destruct (tie (tr_father tr) false); [reflexivity|]. rewrite E0, Z.eqb_refl. apply orb_true_r.
    + unfold sr_parent_ok. destruct (tie (tr_child tr) true); [reflexivity|].
      rewrite b2z_not_tie, b2z_allele_ok, (zmem_In _ _ I1). cbn [andb].
      rewrite (Hnth _ Hm). destruct (negb (tbit t (2 * k + 1))); cbn [sel fst snd].
      * destruct (tie (tr_mother tr) true); [reflexivity|]. rewrite E1, Z.eqb_refl. apply orb_true_r.
      * destruct (tie (tr_mother tr) false); [reflexivity|]. rewrite E1, Z.eqb_refl. apply orb_true_r.
  - apply forallb_forall. intros i Hi. apply in_seq in Hi. assert (Hi' : i < n) by lia.
    rewrite (Hnth _ Hi'). cbn [fst snd].
    destruct (tie i false); [reflexivity|]. destruct (tie i true); [now rewrite b2z_not_tie|].
    rewrite !b2z_not_tie, !b2z_allele_ok, !b2z_eqb_1. cbn [orb andb].
    apply geno_eqb_eq. unfold hp. rewrite !alle_tab by exact Hi'.
    now apply allowed_geno.
Qed.

(* ------------------------------------------------------------------ numbers from bit functions *)
Fixpoint b2nat (l : list bool) : nat :=
  match l with [] => 0 | b :: r => (if b then 1 else 0) + 2 * b2nat r end.

Lemma b2nat_bound : forall l, b2nat l < 2 ^ length l.
Proof.
  induction l as [|b r IH]; cbn [b2nat length]; [cbn; lia|].
  rewrite Nat.pow_succ_r'. destruct b; lia.
Qed.

Lemma testbit_b2nat : forall (f : nat -> bool) m s j,
  N.testbit (N.of_nat (b2nat (map f (seq s m)))) (N.of_nat j) = if j <? m then f (s + j) else false.
Proof.
  intros f m. induction m as [|m IH]; intros s j.
  - cbn. reflexivity.
  - cbn [seq map b2nat].
    replace (N.of_nat ((if f s then 1 else 0) + 2 * b2nat (map f (seq (S s) m))))
      with (2 * N.of_nat (b2nat (map f (seq (S s) m))) + N.b2n (f s))%N
      by (destruct (f s); cbn [N.b2n]; lia).
    destruct j as [|j].
    + cbn [N.of_nat]. rewrite N.testbit_0_r. now rewrite Nat.add_0_r.
    + rewrite Nnat.Nat2N.inj_succ, N.testbit_succ_r, IH.
      replace (S s + j) with (s + S j) by lia.
      destruct (j <? m) eqn:E1, (S j <? S m) eqn:E2; try reflexivity;
        [apply Nat.ltb_lt in E1; apply Nat.ltb_ge in E2; lia
        |apply Nat.ltb_ge in E1; apply Nat.ltb_lt in E2; lia].
Qed.

Definition N_of_bits (f : nat -> bool) (m : nat) : N := N.of_nat (b2nat (map f (seq 0 m))).

Lemma N_of_bits_spec : forall f m j, j < m -> N.testbit (N_of_bits f m) (N.of_nat j) = f j.
Proof.
  intros f m j Hj. unfold N_of_bits. rewrite testbit_b2nat.
  apply Nat.ltb_lt in Hj. now rewrite Hj.
Qed.

Lemma N_of_bits_bound : forall f m, N.to_nat (N_of_bits f m) < 2 ^ m.
Proof.
  intros f m. unfold N_of_bits. rewrite Nnat.Nat2N.id.
  pose proof (b2nat_bound (map f (seq 0 m))) as H. now rewrite map_length, seq_length in H.
Qed.

(* ------------------------------------------------------------------ counting roots *)
Lemma filter_length_split : forall (A : Type) (f : A -> bool) l,
  length (filter f l) + length (filter (fun x => negb (f x)) l) = length l.
Proof.
  induction l as [|x l IH]; cbn [filter length]; [reflexivity|].
  destruct (f x); cbn [negb length]; lia.
Qed.

Lemma is_root_iff : forall ts i, is_root ts i = true <-> ~ In i (map tr_child ts).
Proof.
  intros ts i. unfold is_root. rewrite <- (triple_of_none ts 0 i).
  destruct (triple_of ts 0 i); split; congruence.
Qed.

Lemma root_rank_lt : forall ts i j, i < j -> is_root ts i = true -> root_rank ts i < root_rank ts j.
Proof.
  intros ts i j Hij Hr. unfold root_rank.
  replace j with (i + S (j - i - 1)) by lia.
  rewrite seq_app, filter_app, app_length. cbn [seq filter Nat.add]. rewrite Hr. cbn [length]. lia.
Qed.

Lemma roots_count : forall n ts rk, wf_ped n ts rk -> root_rank ts n = n - length ts.
Proof.
  intros n ts rk WF. unfold root_rank.
  pose proof (filter_length_split nat (is_root ts) (seq 0 n)) as H. rewrite seq_length in H.
  assert (P : Permutation (filter (fun x => negb (is_root ts x)) (seq 0 n)) (map tr_child ts)).
  { apply NoDup_Permutation.
    - apply NoDup_filter, seq_NoDup.
    - exact (wf_child_once _ _ _ WF).
    - intros x. rewrite filter_In, in_seq. split.
      + intros [_ Hx]. apply negb_true_iff in Hx.
        destruct (in_dec Nat.eq_dec x (map tr_child ts)) as [Hi|Hi]; [exact Hi|].
        apply is_root_iff in Hi. congruence.
      + intros Hx. split.
        * apply in_map_iff in Hx. destruct Hx as (tr & E & Hin). subst x.
          destruct (wf_idx _ _ _ WF tr Hin) as (_ & _ & Hc). lia.
        * apply negb_true_iff. destruct (is_root ts x) eqn:E; [|reflexivity].
          apply is_root_iff in E. contradiction. }
  apply Permutation_length in P. rewrite map_length in P. lia.
Qed.

Lemma length_ts_le : forall n ts rk, wf_ped n ts rk -> length ts <= n.
Proof.
  intros n ts rk WF.
  assert (H : incl (map tr_child ts) (seq 0 n)).
  { intros x Hx. apply in_map_iff in Hx. destruct Hx as (tr & E & Hin). subst x.
    destruct (wf_idx _ _ _ WF tr Hin) as (_ & _ & Hc). apply in_seq. lia. }
  apply (NoDup_incl_length (wf_child_once _ _ _ WF)) in H. now rewrite map_length, seq_length in H.
Qed.

(* every partition index is below partition_count *)
Lemma h2p_range : forall n ts rk, wf_ped n ts rk -> forall tb fuel i p,
  i < n -> h2p_rec ts tb fuel i = Some p ->
  fst p < part_count n ts /\ snd p < part_count n ts.
Proof.
  intros n ts rk WF tb. induction fuel as [|fuel IH]; intros i p Hi H; cbn [h2p_rec] in H.
  - destruct (triple_of ts 0 i) as [[k tr]|] eqn:E; [discriminate|]. injection H as Hp; subst p. cbn [fst snd].
    assert (R : is_root ts i = true) by (unfold is_root; now rewrite E).
    pose proof (root_rank_lt ts i n Hi R) as L. rewrite (roots_count _ _ _ WF) in L.
    unfold part_count. lia.
  - destruct (triple_of ts 0 i) as [[k tr]|] eqn:E.
    + pose proof (triple_of_in _ _ _ _ _ E) as Hin.
      destruct (wf_idx _ _ _ WF tr Hin) as (Hf & Hm & _).
      destruct (h2p_rec ts tb fuel (tr_father tr)) as [pf|] eqn:Ef; [|discriminate].
      destruct (h2p_rec ts tb fuel (tr_mother tr)) as [pm|] eqn:Em; [|discriminate].
      injection H as Hp; subst p. cbn [fst snd].
      destruct (IH _ _ Hf Ef) as [F0 F1]. destruct (IH _ _ Hm Em) as [M0 M1].
      split; destruct (negb _); cbn [sel]; assumption.
    + injection H as Hp; subst p. cbn [fst snd].
      assert (R : is_root ts i = true) by (unfold is_root; now rewrite E).
      pose proof (root_rank_lt ts i n Hi R) as L. rewrite (roots_count _ _ _ WF) in L.
      unfold part_count. lia.
Qed.

Lemma h2p_rec_ext : forall ts tb tb', (forall j, j < 2 * length ts -> tb j = tb' j) ->
  forall fuel i, h2p_rec ts tb fuel i = h2p_rec ts tb' fuel i.
Proof.
  intros ts tb tb' Hext. induction fuel as [|fuel IH]; intros i; cbn [h2p_rec]; [reflexivity|].
  destruct (triple_of ts 0 i) as [[k tr]|] eqn:E; [|reflexivity].
  rewrite !IH. apply triple_of_some in E. destruct E as (_ & Hn & _). rewrite Nat.sub_0_r in Hn.
  assert (k < length ts) by (apply nth_error_Some; congruence).
  rewrite (Hext (2 * k)) by lia. rewrite (Hext (2 * k + 1)) by lia. reflexivity.
Qed.

(* ------------------------------------------------------------------ conflict <-> no assignment *)
Lemma dipbi_cases : forall g, g_dipbi g = true -> g = [0; 0]%Z \/ g = [1; 0]%Z \/ g = [1; 1]%Z.
Proof.
  intros g H. unfold g_dipbi in H. apply orb_true_iff in H. destruct H as [H|H].
  - apply orb_true_iff in H. destruct H as [H|H]; apply geno_eqb_eq in H; auto.
  - apply geno_eqb_eq in H. auto.
Qed.

Lemma dipbi_not_none : forall g, g_dipbi g = true -> g_none g = false.
Proof. intros g H. destruct (dipbi_cases g H) as [E|[E|E]]; subst; reflexivity. Qed.

Lemma In_zmem : forall x l, zmem x l = true -> In x l.
Proof.
  intros x l H. unfold zmem in H. apply existsb_exists in H. destruct H as (y & Hy & E).
  apply Z.eqb_eq in E. now subst.
Qed.

(* => : an allowed assignment shows that the triple is not conflicting *)
Lemma mc_false : forall x y gf gm,
  In (b2z x) gf -> In (b2z y) gm -> mendelian_conflict gm gf (geno_of x y) = false.
Proof.
  intros x y gf gm Hx Hy. apply zmem_In in Hx. apply zmem_In in Hy. unfold mendelian_conflict.
  destruct x, y; cbn [geno_of nth b2z] in *; rewrite ?Hx, ?Hy; cbn [andb];
    try reflexivity.
  - destruct (zmem 1 gm && zmem 0 gf); reflexivity.
Qed.

(* proof-level witnesses for <= : the phased alleles of every individual can be read off the
   genotypes alone (no recursion): founders keep their as_vector order, a child gets
   (allele from the father, allele from the mother) *)

Definition orient (gf gm gc : geno) : bool * bool :=
  if zmem (nth 0 gc 0%Z) gf && zmem (nth 1 gc 0%Z) gm then (g0 gc, g1 gc) else (g1 gc, g0 gc).

Lemma orient_ok : forall gf gm gc,
  g_dipbi gf = true -> g_dipbi gm = true -> g_dipbi gc = true ->
  mendelian_conflict gm gf gc = false ->
  In (b2z (fst (orient gf gm gc))) gf /\ In (b2z (snd (orient gf gm gc))) gm /\
  geno_of (fst (orient gf gm gc)) (snd (orient gf gm gc)) = gc.
Proof.
  intros gf gm gc Hf Hm Hc.
  destruct (dipbi_cases _ Hf) as [E|[E|E]]; subst gf;
  destruct (dipbi_cases _ Hm) as [E|[E|E]]; subst gm;
  destruct (dipbi_cases _ Hc) as [E|[E|E]]; subst gc;
  vm_compute; intros H; try discriminate; repeat split; auto.
Qed.

Lemma g01_geno : forall g, g_dipbi g = true -> geno_of (g0 g) (g1 g) = g.
Proof. intros g H. destruct (dipbi_cases _ H) as [E|[E|E]]; subst; reflexivity. Qed.

Lemma in_geno_of_cases : forall w x y, In (b2z w) (geno_of x y) -> w = x \/ w = y.
Proof.
  intros [] [] []; cbn; intros H; auto; exfalso;
    repeat (destruct H as [H|H]; [discriminate|]); exact H.
Qed.

Lemma find_unique : forall (f : nat -> bool) l i,
  In i l -> f i = true -> (forall j, In j l -> f j = true -> j = i) -> find f l = Some i.
Proof.
  induction l as [|x l IH]; intros i Hin Hf Hu; [contradiction|]. cbn [find].
  destruct (f x) eqn:E.
  - f_equal. apply Hu; [now left|exact E].
  - destruct Hin as [->|Hin]; [congruence|]. apply IH; auto. intros j Hj. apply Hu. now right.
Qed.

Lemma existsb_false_all : forall (A : Type) (f : A -> bool) l,
  existsb f l = false -> forall x, In x l -> f x = false.
Proof.
  induction l as [|y l IH]; intros H x Hx; [contradiction|]. cbn [existsb] in H.
  apply orb_false_iff in H. destruct H as [H1 H2]. destruct Hx as [->|Hx]; auto.
Qed.

Section Construct.
Variables (n : nat) (ts : list triple) (rk : nat -> nat).
Hypothesis WF : wf_ped n ts rk.
Variable gs : list geno.
Hypothesis DB : forall i, i < n -> g_dipbi (gof gs i) = true.
Hypothesis NC : col_conflict ts gs = false.

Definition ph (i : nat) : bool * bool :=
  match triple_of ts 0 i with
  | None => (g0 (gof gs i), g1 (gof gs i))
  | Some (_, tr) => orient (gof gs (tr_father tr)) (gof gs (tr_mother tr)) (gof gs i)
  end.

(* bit j of the witness transmission value: select the parental haplotype that carries the allele the
   child needs *)
Definition tbw (j : nat) : bool :=
  match nth_error ts (j / 2) with
  | None => false
  | Some tr =>
      let par := if Nat.even j then tr_father tr else tr_mother tr in
      let want := sel (ph (tr_child tr)) (negb (Nat.even j)) in
      if Bool.eqb (snd (ph par)) want then false else true
  end.

(* bit p of the witness assignment: the founder owning partition p carries its genotype in as_vector order *)
Definition abw (p : nat) : bool :=
  match find (fun i => is_root ts i && (root_rank ts i =? p / 2)) (seq 0 n) with
  | Some i => sel (ph i) (Nat.odd p)
  | None => false
  end.

Lemma triple_no_conflict : forall tr, In tr ts ->
  mendelian_conflict (gof gs (tr_mother tr)) (gof gs (tr_father tr)) (gof gs (tr_child tr)) = false.
Proof.
  intros tr Hin. unfold col_conflict in NC.
  destruct (wf_idx _ _ _ WF tr Hin) as (Hf & Hm & Hc).
  pose proof (existsb_false_all _ _ _ NC tr Hin) as H. cbn beta in H.
  rewrite !dipbi_not_none in H by (apply DB; assumption). exact H.
Qed.

Lemma ph_geno : forall i, i < n -> geno_of (fst (ph i)) (snd (ph i)) = gof gs i.
Proof.
  intros i Hi. unfold ph. destruct (triple_of ts 0 i) as [[k tr]|] eqn:E.
  - pose proof (triple_of_in _ _ _ _ _ E) as Hin.
    pose proof (triple_of_some _ _ _ _ _ E) as (_ & _ & Hc). subst i.
    destruct (wf_idx _ _ _ WF tr Hin) as (Hf & Hm & _).
    apply orient_ok; try (apply DB; assumption). now apply triple_no_conflict.
  - cbn [fst snd]. apply g01_geno. now apply DB.
Qed.

Lemma ph_child : forall k tr, nth_error ts k = Some tr ->
  In (b2z (fst (ph (tr_child tr)))) (gof gs (tr_father tr)) /\
  In (b2z (snd (ph (tr_child tr)))) (gof gs (tr_mother tr)).
Proof.
  intros k tr Hn. pose proof (nth_error_In _ _ Hn) as Hin.
  destruct (wf_idx _ _ _ WF tr Hin) as (Hf & Hm & Hc).
  unfold ph. rewrite (triple_of_nodup ts 0 k tr (wf_child_once _ _ _ WF) Hn).
  destruct (orient_ok (gof gs (tr_father tr)) (gof gs (tr_mother tr)) (gof gs (tr_child tr)))
    as (A & B & _); try (apply DB; assumption); [now apply triple_no_conflict|]. split; assumption.
Qed.

Lemma find_root : forall i, i < n -> is_root ts i = true ->
  find (fun j => is_root ts j && (root_rank ts j =? root_rank ts i)) (seq 0 n) = Some i.
Proof.
  intros i Hi Hr. apply find_unique.
  - apply in_seq. lia.
  - now rewrite Hr, Nat.eqb_refl.
  - intros j _ Hj. apply andb_true_iff in Hj. destruct Hj as [Rj Ej]. apply Nat.eqb_eq in Ej.
    destruct (Nat.lt_trichotomy i j) as [L|[L|L]]; [|now symmetry|].
    + pose proof (root_rank_lt ts i j L Hr). lia.
    + pose proof (root_rank_lt ts j i L Rj). lia.
Qed.

Lemma sel_negb_tbw_even : forall k tr, nth_error ts k = Some tr ->
  sel (ph (tr_father tr)) (negb (tbw (2 * k))) = fst (ph (tr_child tr)).
Proof.
  intros k tr Hn. pose proof (nth_error_In _ _ Hn) as Hin.
  destruct (wf_idx _ _ _ WF tr Hin) as (Hf & Hm & Hc).
  unfold tbw. replace (2 * k / 2) with k by (rewrite Nat.mul_comm, Nat.div_mul; lia).
  rewrite Hn. replace (Nat.even (2 * k)) with true
    by (symmetry; rewrite Nat.even_mul; reflexivity).
  cbn [negb sel].
  destruct (Bool.eqb (snd (ph (tr_father tr))) (fst (ph (tr_child tr)))) eqn:E.
  - cbn [negb sel]. now apply eqb_prop.
  - cbn [negb sel]. destruct (ph_child k tr Hn) as [A _].
    rewrite <- (ph_geno _ Hf) in A. apply in_geno_of_cases in A. destruct A as [A|A]; [now symmetry|].
    rewrite A, eqb_reflx in E. discriminate.
Qed.

Lemma sel_negb_tbw_odd : forall k tr, nth_error ts k = Some tr ->
  sel (ph (tr_mother tr)) (negb (tbw (2 * k + 1))) = snd (ph (tr_child tr)).
Proof.
  intros k tr Hn. pose proof (nth_error_In _ _ Hn) as Hin.
  destruct (wf_idx _ _ _ WF tr Hin) as (Hf & Hm & Hc).
  unfold tbw. replace ((2 * k + 1) / 2) with k
    by (rewrite Nat.mul_comm, Nat.div_add_l by lia; cbn; lia).
  rewrite Hn. replace (Nat.even (2 * k + 1)) with false
    by (symmetry; rewrite Nat.add_comm, Nat.even_add_mul_2; reflexivity).
  cbn [negb sel].
  destruct (Bool.eqb (snd (ph (tr_mother tr))) (snd (ph (tr_child tr)))) eqn:E.
  - cbn [negb sel]. now apply eqb_prop.
  - cbn [negb sel]. destruct (ph_child k tr Hn) as [_ A].
    rewrite <- (ph_geno _ Hm) in A. apply in_geno_of_cases in A. destruct A as [A|A]; [now symmetry|].
    rewrite A, eqb_reflx in E. discriminate.
Qed.

(* main claim: under the witness bits, the partitions of individual i carry exactly ph i *)
Lemma witness_alleles : forall fuel i p, i < n -> h2p_rec ts tbw fuel i = Some p ->
  abw (fst p) = fst (ph i) /\ abw (snd p) = snd (ph i).
Proof.
  assert (ROOT : forall i, i < n -> triple_of ts 0 i = None ->
            abw (2 * root_rank ts i) = fst (ph i) /\ abw (2 * root_rank ts i + 1) = snd (ph i)).
  { intros i Hi E. assert (R : is_root ts i = true) by (unfold is_root; now rewrite E).
    unfold abw.
    replace (2 * root_rank ts i / 2) with (root_rank ts i) by (rewrite Nat.mul_comm, Nat.div_mul; lia).
    replace ((2 * root_rank ts i + 1) / 2) with (root_rank ts i)
      by (rewrite Nat.mul_comm, Nat.div_add_l by lia; cbn; lia).
    rewrite (find_root i Hi R).
    replace (Nat.odd (2 * root_rank ts i)) with false
      by (symmetry; unfold Nat.odd; rewrite Nat.even_mul; reflexivity).
    replace (Nat.odd (2 * root_rank ts i + 1)) with true
      by (symmetry; unfold Nat.odd; rewrite Nat.add_comm, Nat.even_add_mul_2; reflexivity).
    split; reflexivity. }
  induction fuel as [|fuel IH]; intros i p Hi H; cbn [h2p_rec] in H.
  - destruct (triple_of ts 0 i) as [[k tr]|] eqn:E; [discriminate|].
    injection H as Hp; subst p. cbn [fst snd]. now apply ROOT.
  - destruct (triple_of ts 0 i) as [[k tr]|] eqn:E.
    + pose proof (triple_of_in _ _ _ _ _ E) as Hin.
      pose proof (triple_of_some _ _ _ _ _ E) as (_ & Hn & Hc). rewrite Nat.sub_0_r in Hn.
      destruct (wf_idx _ _ _ WF tr Hin) as (Hf & Hm & _).
      destruct (h2p_rec ts tbw fuel (tr_father tr)) as [pf|] eqn:Ef; [|discriminate].
      destruct (h2p_rec ts tbw fuel (tr_mother tr)) as [pm|] eqn:Em; [|discriminate].
      injection H as Hp; subst p. cbn [fst snd].
      destruct (IH _ _ Hf Ef) as [F0 F1]. destruct (IH _ _ Hm Em) as [M0 M1].
      pose proof (sel_negb_tbw_even k tr Hn) as S0. pose proof (sel_negb_tbw_odd k tr Hn) as S1.
      rewrite Hc in S0, S1. rewrite <- S0, <- S1.
      change (k + (k + 0)) with (2 * k).
      split; [destruct (negb (tbw (2 * k)))|destruct (negb (tbw (2 * k + 1)))]; cbn [sel]; assumption.
    + injection H as Hp; subst p. cbn [fst snd]. now apply ROOT.
Qed.

Definition t_wit : N := N_of_bits tbw (2 * length ts).
Definition a_wit : N := N_of_bits abw (part_count n ts).

Lemma witness_allowed : In a_wit (allowed n ts t_wit gs).
Proof.
  apply allowed_in. split; [apply N_of_bits_bound|].
  apply compatible_spec. intros i Hi.
  rewrite h2p_tab_spec by exact Hi. unfold h2p.
  assert (X : h2p_rec ts (tbit t_wit) n i = h2p_rec ts tbw n i).
  { apply h2p_rec_ext. intros j Hj. unfold tbit, t_wit. now apply N_of_bits_spec. }
  destruct (h2p_rec_total n ts rk WF tbw i Hi) as [p Ep].
  exists p. split; [congruence|].
  assert (A : forall h, alle (h2p_tab n ts t_wit) (abit a_wit) i h = sel (ph i) h).
  { intros h. unfold alle. rewrite h2p_tab_spec by exact Hi. unfold h2p. rewrite X, Ep.
    destruct (h2p_range n ts rk WF tbw n i p Hi Ep) as [R0 R1].
    destruct (witness_alleles n i p Hi Ep) as [W0 W1].
    unfold abit, a_wit. destruct h; cbn [sel].
    - rewrite N_of_bits_spec by exact R1. exact W1.
    - rewrite N_of_bits_spec by exact R0. exact W0. }
  rewrite !A. cbn [sel]. now apply ph_geno.
Qed.

Lemma t_wit_bound : N.to_nat t_wit < 4 ^ length ts.
Proof.
  unfold t_wit. pose proof (N_of_bits_bound tbw (2 * length ts)) as H.
  rewrite Nat.pow_mul_r in H. exact H.
Qed.
End Construct.

Lemma existsb_all_false : forall (A : Type) (f : A -> bool) l,
  (forall x, In x l -> f x = false) -> existsb f l = false.
Proof.
  induction l as [|y l IH]; intros H; [reflexivity|]. cbn [existsb].
  rewrite (H y) by now left. cbn. apply IH. intros x Hx. apply H. now right.
Qed.

Lemma allowed_no_conflict : forall n ts rk, wf_ped n ts rk ->
  forall t gs a, In a (allowed n ts t gs) -> col_conflict ts gs = false.
Proof.
  intros n ts rk WF t gs a Ha. unfold col_conflict. apply existsb_all_false. intros tr Hin.
  destruct (In_nth_error _ _ Hin) as [k Hn].
  destruct (child_alleles_from_parents n ts rk WF t gs a k tr Ha Hn) as (_ & _ & I0 & I1 & G).
  cbn zeta in I0, I1, G. rewrite <- G, (mc_false _ _ _ _ I0 I1). apply andb_false_r.
Qed.

(* conflict_iff_no_assignment, any acyclic pedigree: some transmission value has an allowed
   assignment iff no triple has a Mendelian conflict *)
Theorem conflict_iff_no_assignment : forall n ts rk gs, wf_ped n ts rk ->
  (forall i, i < n -> g_dipbi (gof gs i) = true) ->
  ((exists t a, N.to_nat t < 4 ^ length ts /\ In a (allowed n ts t gs)) <-> col_conflict ts gs = false).
Proof.
  intros n ts rk gs WF DB. split.
  - intros (t & a & _ & Ha). eapply allowed_no_conflict; eauto.
  - intros NC. exists (t_wit ts gs), (a_wit n ts gs). split.
    + apply t_wit_bound.
    + eapply witness_allowed; eauto.
Qed.

Theorem conflict_no_assignment_any_t : forall n ts rk gs, wf_ped n ts rk ->
  col_conflict ts gs = true -> forall t, allowed n ts t gs = [].
Proof.
  intros n ts rk gs WF C t. destruct (allowed n ts t gs) as [|a r] eqn:E; [reflexivity|].
  assert (Ha : In a (allowed n ts t gs)) by (rewrite E; now left).
  rewrite (allowed_no_conflict n ts rk WF t gs a Ha) in C. discriminate.
Qed.

(* the executable conflict oracle used on the implementation = find_mendelian_conflicts *)
Theorem no_assignment_iff_conflict : forall n ts rk gs, wf_ped n ts rk ->
  (forall i, i < n -> g_dipbi (gof gs i) = true) ->
  no_assignment n ts gs = col_conflict ts gs.
Proof.
  intros n ts rk gs WF DB. destruct (col_conflict ts gs) eqn:C.
  - unfold no_assignment. apply forallb_forall. intros x _. apply negb_true_iff.
    destruct (has_allowed n ts (N.of_nat x) gs) eqn:E; [|reflexivity].
    apply has_allowed_spec in E. destruct E as [a Ha].
    rewrite (allowed_no_conflict n ts rk WF _ gs a Ha) in C. discriminate.
  - destruct (no_assignment n ts gs) eqn:E; [|reflexivity]. exfalso.
    unfold no_assignment in E. rewrite forallb_forall in E.
    specialize (E (N.to_nat (t_wit ts gs))). rewrite in_seq in E.
    pose proof (t_wit_bound ts gs). specialize (E ltac:(lia)).
    rewrite Nnat.N2Nat.id in E. apply negb_true_iff in E.
    assert (X : has_allowed n ts (t_wit ts gs) gs = true).
    { apply has_allowed_spec. exists (a_wit n ts gs). eapply witness_allowed; eauto. }
    congruence.
Qed.

(* the trio form of the statement: mendelian_conflict gm gf gc = true <-> no transmission value has
   an allowed assignment *)
Theorem trio_conflict_iff : forall n f m c rk gs, wf_ped n [(f, m, c)] rk ->
  (forall i, i < n -> g_dipbi (gof gs i) = true) ->
  (mendelian_conflict (gof gs m) (gof gs f) (gof gs c) = true <-> forall t, allowed n [(f, m, c)] t gs = []).
Proof.
  intros n f m c rk gs WF DB.
  assert (Hin : In (f, m, c) [(f, m, c)]) by now left.
  destruct (wf_idx _ _ _ WF _ Hin) as (Hf & Hm & Hc). cbn in Hf, Hm, Hc.
  assert (CC : col_conflict [(f, m, c)] gs = mendelian_conflict (gof gs m) (gof gs f) (gof gs c)).
  { unfold col_conflict. cbn [existsb tr_father tr_mother tr_child fst snd].
    rewrite !dipbi_not_none by (apply DB; assumption). cbn. apply orb_false_r. }
  split.
  - intros H t. apply (conflict_no_assignment_any_t n _ rk gs WF). congruence.
  - intros H. destruct (mendelian_conflict _ _ _) eqn:E; [reflexivity|]. exfalso.
    pose proof (witness_allowed n _ rk WF gs DB CC) as W. rewrite H in W. exact W.
Qed.

(* ------------------------------------------------------------------ the exception of get_alleles *)
Lemma h2p_tab_all_some : forall n ts rk, wf_ped n ts rk -> forall t,
  forallb (fun i => match h2p_tab n ts t i with Some _ => true | None => false end) (seq 0 n) = true.
Proof.
  intros n ts rk WF t. apply forallb_forall. intros i Hi. apply in_seq in Hi.
  rewrite h2p_tab_spec by lia. unfold h2p.
  destruct (h2p_rec_total n ts rk WF (tbit t) i ltac:(lia)) as [p ->]. reflexivity.
Qed.

Lemma best_assignment_some : forall pc cp al st,
  (exists a, snd st = Some a) ->
  exists a, snd (fold_left (fun st a => if (acost pc cp a <=? fst st)%Z then (acost pc cp a, Some a) else st) al st) = Some a.
Proof.
  induction al as [|x al IH]; intros st Hst; cbn [fold_left]; [exact Hst|].
  apply IH. destruct (acost pc cp x <=? fst st)%Z; [eexists; reflexivity|exact Hst].
Qed.

Theorem get_alleles_conflict_iff : forall n ts rk, wf_ped n ts rk -> forall t cp gs,
  (forall a, (0 <= acost (part_count n ts) cp a < UMAX)%Z) ->
  (get_alleles n ts t cp gs = Conflict <-> allowed n ts t gs = []).
Proof.
  intros n ts rk WF t cp gs B. unfold get_alleles. rewrite (h2p_tab_all_some n ts rk WF t). cbn [negb].
  split.
  - intros H. destruct (allowed n ts t gs) as [|x al] eqn:E; [reflexivity|]. exfalso.
    unfold best_assignment in H. cbn [fold_left fst] in H.
    assert (L : (acost (part_count n ts) cp x <=? UMAX)%Z = true) by (apply Z.leb_le; specialize (B x); lia).
    rewrite L in H.
    destruct (best_assignment_some (part_count n ts) cp al (acost (part_count n ts) cp x, Some x)) as [a Ea];
      [eexists; reflexivity|].
    destruct (fold_left _ al _) as [bc oa] eqn:F. cbn [snd] in Ea. subst oa.
    pose proof (best_assignment_fold (part_count n ts) cp (fun _ => True) al
                  (acost (part_count n ts) cp x, Some x)) as G.
    rewrite F in G. cbn [fst snd] in G.
    destruct (G ltac:(intros b Hb; inversion Hb; subst; split; [exact I|reflexivity]) ltac:(auto) a eq_refl) as [_ Ebc].
    destruct (Z.eqb bc UMAX) eqn:U; [|discriminate].
    apply Z.eqb_eq in U. specialize (B a). lia.
  - intros E. rewrite E. reflexivity.
Qed.

(* ------------------------------------------------------------------ forced alleles *)
Lemma bcfa_fold_none : forall (pred : N -> bool) (c : N -> Z) al cur,
  (forall a, In a al -> pred a = false) ->
  fold_left (fun cur a => if pred a && (c a <? cur)%Z then c a else cur) al cur = cur.
Proof.
  induction al as [|x al IH]; intros cur H; cbn [fold_left]; [reflexivity|].
  rewrite (H x) by now left. cbn [andb]. apply IH. intros a Ha. apply H. now right.
Qed.

Lemma bcfa_fold_bounds : forall (pred : N -> bool) (c : N -> Z) al cur,
  let r := fold_left (fun cur a => if pred a && (c a <? cur)%Z then c a else cur) al cur in
  (r <= cur)%Z /\ (r = cur \/ exists a, In a al /\ r = c a) /\
  (forall a, In a al -> pred a = true -> (r <= c a)%Z).
Proof.
  induction al as [|x al IH]; intros cur; cbn [fold_left].
  - cbn zeta. split; [lia|]. split; [now left|]. intros a [].
  - cbn zeta. destruct (pred x && (c x <? cur)%Z) eqn:E.
    + apply andb_true_iff in E. destruct E as [Px Lx]. apply Z.ltb_lt in Lx.
      destruct (IH (c x)) as (R1 & R2 & R3). cbn zeta in R1, R2, R3.
      split; [lia|]. split.
      * right. destruct R2 as [R2|(a & Ha & R2)]; [exists x; split; [now left|exact R2]|exists a; split; [now right|exact R2]].
      * intros a [->|Ha] Pa; [exact R1|now apply R3].
    + destruct (IH cur) as (R1 & R2 & R3). cbn zeta in R1, R2, R3.
      split; [exact R1|]. split.
      * destruct R2 as [R2|(a & Ha & R2)]; [now left|right; exists a; split; [now right|exact R2]].
      * intros a [->|Ha] Pa; [|now apply R3].
        rewrite Pa in E. cbn [andb] in E. apply Z.ltb_ge in E. lia.
Qed.

Lemma is_tie_forced : forall pc cp hp al i h v,
  (forall a, (0 <= acost pc cp a < 2147483647)%Z) ->
  (exists a, In a al) ->
  (forall a, In a al -> alle hp (abit a) i h = v) ->
  is_tie pc cp hp al i h = false.
Proof.
  intros pc cp hp al i h v B [a0 H0] F. unfold is_tie.
  assert (NONE : bcfa pc cp hp al i h (negb v) = UMAX).
  { unfold bcfa. apply bcfa_fold_none. intros a Ha. rewrite (F a Ha). now destruct v. }
  assert (SOME : (0 <= bcfa pc cp hp al i h v < 2147483647)%Z).
  { unfold bcfa.
    destruct (bcfa_fold_bounds (fun a => Bool.eqb (alle hp (abit a) i h) v) (acost pc cp) al UMAX)
      as (R1 & R2 & R3). cbn zeta beta in R1, R2, R3.
    assert (P0 : Bool.eqb (alle hp (abit a0) i h) v = true) by (rewrite (F a0 H0); apply eqb_reflx).
    pose proof (R3 a0 H0 P0) as L. pose proof (B a0) as B0.
    destruct R2 as [R2|(a & Ha & R2)].
    - pose proof (eq_refl : UMAX = 4294967295%Z) as U. lia.
    - pose proof (B a). lia. }
  apply Z.eqb_neq. destruct v; cbn [negb] in NONE; rewrite NONE; unfold to_int, UMAX; cbn [Z.ltb Z.compare Pos.compare Pos.compare_cont];
    destruct (bcfa pc cp hp al i h _ <? 2147483648)%Z eqn:E; try (apply Z.ltb_ge in E; lia); lia.
Qed.

Lemma hom_geno_of : forall x y, g_hom (geno_of x y) = true -> x = y.
Proof. intros [] []; cbn; intros H; congruence. Qed.
Lemma het_geno_of : forall x y, g_het (geno_of x y) = true -> y = negb x.
Proof. intros [] []; cbn; intros H; congruence. Qed.
Lemma g0_geno_of_hom : forall x, g0 (geno_of x x) = x.
Proof. now intros []. Qed.

Lemma forced_child : forall n ts rk, wf_ped n ts rk -> forall t gs a k tr,
  In a (allowed n ts t gs) -> nth_error ts k = Some tr ->
  g_het (gof gs (tr_child tr)) = true ->
  g_hom (gof gs (tr_father tr)) = true \/ g_hom (gof gs (tr_mother tr)) = true ->
  alle (h2p n ts t) (abit a) (tr_child tr) false = forced_paternal gs tr /\
  alle (h2p n ts t) (abit a) (tr_child tr) true = negb (forced_paternal gs tr).
Proof.
  intros n ts rk WF t gs a k tr Ha Hn Het Hom.
  pose proof (nth_error_In _ _ Hn) as Hin.
  destruct (wf_idx _ _ _ WF tr Hin) as (Hf & Hm & Hc).
  destruct (child_alleles_from_parents n ts rk WF t gs a k tr Ha Hn) as (E0 & E1 & _ & _ & G).
  cbn zeta in E0, E1, G.
  pose proof (allowed_geno n ts t gs a _ Ha Hf) as Gf.
  pose proof (allowed_geno n ts t gs a _ Ha Hm) as Gm.
  rewrite <- G in Het. apply het_geno_of in Het.
  unfold forced_paternal.
  destruct (g_hom (gof gs (tr_father tr))) eqn:HF.
  - rewrite <- Gf in HF. apply hom_geno_of in HF.
    assert (X : alle (h2p n ts t) (abit a) (tr_child tr) false = g0 (gof gs (tr_father tr))).
    { rewrite <- Gf, <- HF, g0_geno_of_hom, E0. destruct (negb (tbit t (2 * k))); congruence. }
    split; [exact X|]. now rewrite Het, X.
  - destruct Hom as [Hom|Hom]; [discriminate|].
    rewrite <- Gm in Hom. apply hom_geno_of in Hom.
    assert (X : alle (h2p n ts t) (abit a) (tr_child tr) true = g0 (gof gs (tr_mother tr))).
    { rewrite <- Gm, <- Hom, g0_geno_of_hom, E1. destruct (negb (tbit t (2 * k + 1))); congruence. }
    rewrite X. rewrite X in Het. split.
    + rewrite Het. now rewrite negb_involutive.
    + now rewrite negb_involutive.
Qed.

(* forced_without_reads (stated for ANY partition costs, in particular the all-zero costs of a column
   without reads): child heterozygous, a parent homozygous => both child alleles are determined by
   admissibility alone and neither is flagged as a tie *)
Theorem forced_not_tie : forall n ts rk, wf_ped n ts rk -> forall t cp gs l k tr,
  (forall a, (0 <= acost (part_count n ts) cp a < 2147483647)%Z) ->
  get_alleles n ts t cp gs = Alleles l ->
  nth_error ts k = Some tr ->
  g_het (gof gs (tr_child tr)) = true ->
  g_hom (gof gs (tr_father tr)) = true \/ g_hom (gof gs (tr_mother tr)) = true ->
  nth_error l (tr_child tr) = Some (b2z (forced_paternal gs tr), b2z (negb (forced_paternal gs tr))).
Proof.
  intros n ts rk WF t cp gs l k tr B H Hn Het Hom.
  pose proof (nth_error_In _ _ Hn) as Hin.
  destruct (wf_idx _ _ _ WF tr Hin) as (Hf & Hm & Hc).
  destruct (get_alleles_spec _ _ _ _ _ _ H) as (a & Ha & El).
  assert (F : forall h b, In b (allowed n ts t gs) ->
            alle (h2p_tab n ts t) (abit b) (tr_child tr) h = sel (forced_paternal gs tr, negb (forced_paternal gs tr)) h).
  { intros h b Hb. rewrite alle_tab by exact Hc.
    destruct (forced_child n ts rk WF t gs b k tr Hb Hn Het Hom) as [X0 X1]. destruct h; cbn [sel]; assumption. }
  assert (T : forall h, is_tie (part_count n ts) cp (h2p_tab n ts t) (allowed n ts t gs) (tr_child tr) h = false).
  { intros h. eapply is_tie_forced; [exact B|exists a; exact Ha|]. intros b Hb. apply (F h b Hb). }
  rewrite El. rewrite nth_error_map.
  assert (S : nth_error (seq 0 n) (tr_child tr) = Some (tr_child tr)).
  { rewrite (nth_error_nth' _ 0) by (now rewrite seq_length). now rewrite seq_nth. }
  rewrite S. cbn [option_map]. rewrite !T, !(F _ a Ha). reflexivity.
Qed.

(* ------------------------------------------------------------------ a column without reads costs nothing *)
Lemma nth_map_const : forall (A B : Type) (d : B) (l : list A) p, nth p (map (fun _ => d) l) d = d.
Proof. induction l as [|x l IH]; intros [|p]; cbn; auto. Qed.

Lemma fold_add_zero : forall (A : Type) (f : A -> Z) (l : list A) acc,
  (forall x, f x = 0%Z) -> fold_left (fun acc x => (acc + f x)%Z) l acc = acc.
Proof.
  induction l as [|x l IH]; intros acc H; cbn [fold_left]; [reflexivity|].
  rewrite H, Z.add_0_r. now apply IH.
Qed.

Lemma acost_no_reads : forall n ts t a,
  acost (part_count n ts) (cost_partition n ts t []) a = 0%Z.
Proof.
  intros n ts t a. unfold acost, cost_partition. cbn [fold_left].
  apply (fold_add_zero nat (fun p => sel (nth p (map (fun _ => (0, 0)%Z) (seq 0 (part_count n ts))) (0, 0)%Z) (abit a p))).
  intros p. rewrite nth_map_const. now destruct (abit a p).
Qed.

(* ------------------------------------------------------------------ row removal, solver column and writer together *)
Lemma call_of_with_ps : forall ps (f : nat -> option (Z * Z)) n i,
  call_of (with_ps ps (map f (seq 0 n))) i =
  if i <? n then match f i with Some (a, b) => Some (a, b, ps) | None => None end else None.
Proof.
  intros ps f n i. unfold call_of, with_ps. rewrite map_map.
  destruct (i <? n) eqn:E.
  - apply Nat.ltb_lt in E. now rewrite nth_map_seq.
  - apply Nat.ltb_ge in E. apply nth_overflow. now rewrite map_length, seq_length.
Qed.

Lemma write_call_some : forall ic sr g a b,
  write_call ic sr g = Some (a, b) -> sr = Some (a, b) /\ allele_ok a = true /\ allele_ok b = true /\ ic = true.
Proof.
  intros ic [[a0 a1]|] g a b H; cbn [write_call] in H; [|discriminate].
  destruct (allele_ok a0) eqn:A0; [|discriminate]. destruct (allele_ok a1) eqn:A1; [|discriminate].
  cbn [andb] in H. destruct ic; [|discriminate]. cbn [andb] in H.
  destruct (if geno_eqb _ _ then _ else _); [|discriminate].
  inversion H; subst. auto.
Qed.

Lemma allele_ok_not_tie : forall a, allele_ok a = true -> Z.eqb a TIE = false.
Proof.
  intros a H. unfold allele_ok in H. apply orb_true_iff in H.
  destruct H as [H|H]; apply Z.eqb_eq in H; subst; reflexivity.
Qed.

Lemma nth_error_nth_pair : forall (l : list (Z * Z)) i x d, nth_error l i = Some x -> nth i l d = x.
Proof. intros l i x d H. now apply nth_error_nth. Qed.

Lemma mendel_calls_from_sr : forall n ts gs t l ps,
  (forall tr, In tr ts -> tr_father tr < n /\ tr_mother tr < n /\ tr_child tr < n) ->
  sr_column_ok n ts gs t l = true ->
  mendel_calls_ok ts gs (with_ps ps (map (fun i => write_call true (nth_error l i) (gof gs i)) (seq 0 n))) (Some t) = true.
Proof.
  intros n ts gs t l ps IDX SR.
  unfold sr_column_ok in SR. apply andb_true_iff in SR. destruct SR as [SR _].
  apply andb_true_iff in SR. destruct SR as [_ SR]. rewrite forallb_forall in SR.
  unfold mendel_calls_ok. apply forallb_forall. intros [k tr] Hin.
  specialize (SR (k, tr) Hin). cbn beta iota in SR.
  apply combine_seq_nth in Hin. destruct Hin as [_ Hn]. rewrite Nat.sub_0_r in Hn.
  destruct (IDX tr (nth_error_In _ _ Hn)) as (Hf & Hm & Hc).
  set (cs := with_ps ps _).
  assert (CALL : forall i a b p, i < n -> call_of cs i = Some (a, b, p) ->
            nth i l (TIE, TIE) = (a, b) /\ allele_ok a = true /\ allele_ok b = true /\ p = ps).
  { intros i a b p Hi H. unfold cs in H. rewrite call_of_with_ps in H.
    apply Nat.ltb_lt in Hi. rewrite Hi in H.
    destruct (write_call true (nth_error l i) (gof gs i)) as [[a' b']|] eqn:W; [|discriminate].
    inversion H; subst. apply write_call_some in W. destruct W as (W & A & B & _).
    split; [now apply nth_error_nth_pair|auto]. }
  destruct (call_of cs (tr_child tr)) as [[[a b] p]|] eqn:EC; [|reflexivity].
  destruct (CALL _ _ _ _ Hc EC) as (NC & Aa & Ab & ->).
  rewrite NC in SR. cbn [fst snd] in SR. apply andb_true_iff in SR. destruct SR as [SF SM].
  assert (PAR : forall x par bitpos, par < n -> allele_ok x = true ->
            sr_parent_ok gs l t x par bitpos = true -> parent_ok gs cs (Some t) x ps par bitpos = true).
  { intros x par bitpos Hp Ax S. unfold sr_parent_ok in S. rewrite (allele_ok_not_tie _ Ax), Ax in S.
    cbn [andb] in S. apply andb_true_iff in S. destruct S as [S1 S2].
    unfold parent_ok. rewrite S1. cbn [andb].
    destruct (call_of cs par) as [[[x0 x1] pp]|] eqn:EP; [|reflexivity].
    destruct (CALL _ _ _ _ Hp EP) as (NP & A0 & A1 & ->). rewrite Z.eqb_refl.
    rewrite NP in S2.
    assert (NT : Z.eqb (sel (x0, x1) (negb (tbit t bitpos))) TIE = false)
      by (destruct (negb (tbit t bitpos)); cbn [sel fst snd]; now apply allele_ok_not_tie).
    rewrite NT in S2. cbn [orb] in S2. now rewrite Z.eqb_sym. }
  rewrite (PAR a _ _ Hf Aa SF), (PAR b _ _ Hm Ab SM). reflexivity.
Qed.

Lemma all_unphased_none : forall n ps, all_unphased n (with_ps ps (map (fun _ => None) (seq 0 n))) = true.
Proof.
  intros n ps. unfold all_unphased. apply forallb_forall. intros i _.
  rewrite (call_of_with_ps ps (fun _ => None)). now destruct (i <? n).
Qed.

Lemma existsb_in : forall (A : Type) (f : A -> bool) l x, In x l -> f x = true -> existsb f l = true.
Proof. intros A f l x Hx Hf. apply existsb_exists. eauto. Qed.

(* the property for one variant of one family, for every transmission value / bipartition the DP may
   settle on: what phase_column writes satisfies the predicate the harness evaluates on the real output *)
Theorem phase_column_ok : forall n ts rk, wf_ped n ts rk ->
  forall genetic gs covered t cp ws ps,
  (forall a, (0 <= acost (part_count n ts) cp a < 2147483647)%Z) ->
  phase_column n ts false genetic gs covered t cp = Some ws ->
  c05_variant_ok n ts genetic gs (with_ps ps ws)
                 (if accessible n ts false genetic gs covered then Some t else None) = true.
Proof.
  intros n ts rk WF genetic gs covered t cp ws ps B H.
  unfold phase_column in H. unfold c05_variant_ok.
  destruct (accessible n ts false genetic gs covered) eqn:ACC.
  - (* the column is handed to the solver *)
    destruct (get_alleles n ts t cp gs) as [| |l] eqn:GA; try discriminate.
    inversion H; subst ws. clear H.
    pose proof (get_alleles_mendelian n ts rk WF t cp gs l GA) as SR.
    rewrite (mendel_calls_from_sr n ts gs t l ps (wf_idx _ _ _ WF) SR). cbn [andb].
    unfold accessible in ACC. apply andb_true_iff in ACC. destruct ACC as [RET _].
    unfold retained in RET. apply andb_true_iff in RET. destruct RET as [RET NCF].
    apply andb_true_iff in RET. destruct RET as [_ NMS].
    apply negb_true_iff in NCF. apply negb_true_iff in NMS. rewrite NCF, NMS. cbn [orb].
    assert (FP : forced_phased ts gs (with_ps ps (map (fun i => write_call true (nth_error l i) (gof gs i)) (seq 0 n))) = true).
    { unfold forced_phased. apply forallb_forall. intros tr Hin.
      destruct (g_het (gof gs (tr_child tr)) && (g_hom (gof gs (tr_father tr)) || g_hom (gof gs (tr_mother tr)))) eqn:C;
        [|reflexivity].
      apply andb_true_iff in C. destruct C as [Het Hom]. apply orb_true_iff in Hom.
      destruct (In_nth_error _ _ Hin) as [k Hn].
      destruct (wf_idx _ _ _ WF tr Hin) as (_ & _ & Hc).
      pose proof (forced_not_tie n ts rk WF t cp gs l k tr B GA Hn Het Hom) as F.
      rewrite call_of_with_ps. apply Nat.ltb_lt in Hc. rewrite Hc. rewrite F.
      set (v := forced_paternal gs tr) in *.
      (* the written genotype is the input genotype, which is heterozygous *)
      destruct (get_alleles_spec _ _ _ _ _ _ GA) as (a & Ha & _).
      apply Nat.ltb_lt in Hc.
      destruct (forced_child n ts rk WF t gs a k tr Ha Hn Het Hom) as [X0 X1]. fold v in X0, X1.
      pose proof (allowed_geno n ts t gs a _ Ha Hc) as G. rewrite X0, X1 in G.
      unfold write_call. rewrite !b2z_allele_ok, !b2z_eqb_1. cbn [andb].
      rewrite G. replace (geno_eqb (gof gs (tr_child tr)) (gof gs (tr_child tr))) with true
        by (symmetry; now apply geno_eqb_eq).
      unfold g_het in Het. apply andb_true_iff in Het. destruct Het as [_ Het]. rewrite Het. reflexivity. }
    rewrite FP. now destruct genetic.
  - (* the row was removed (or is not accessible): nothing is phased *)
    inversion H; subst ws. clear H.
    assert (MC : mendel_calls_ok ts gs (with_ps ps (map (fun _ => None) (seq 0 n))) None = true).
    { unfold mendel_calls_ok. apply forallb_forall. intros [k tr] _.
      rewrite (call_of_with_ps ps (fun _ => None)). now destruct (tr_child tr <? n). }
    rewrite MC. cbn [andb]. destruct (col_missing n gs || col_conflict ts gs) eqn:MCF.
    + apply all_unphased_none.
    + destruct genetic; [|reflexivity].
      apply orb_false_iff in MCF. destruct MCF as [NMS NCF].
      unfold forced_phased. apply forallb_forall. intros tr Hin.
      destruct (g_het (gof gs (tr_child tr)) && (g_hom (gof gs (tr_father tr)) || g_hom (gof gs (tr_mother tr)))) eqn:C;
        [|reflexivity].
      exfalso. apply andb_true_iff in C. destruct C as [Het Hom].
      destruct (wf_idx _ _ _ WF tr Hin) as (Hf & Hm & Hc).
      destruct (wf_rank _ _ _ WF tr Hin) as [Rf _].
      assert (N2 : 1 < n) by (destruct (Nat.eq_dec (tr_father tr) (tr_child tr)) as [E|E]; [rewrite E in Rf; lia|lia]).
      unfold accessible, retained in ACC. rewrite NMS, NCF in ACC. cbn [negb andb orb] in ACC.
      assert (HH : col_has_het n gs = true)
        by (unfold col_has_het; apply (existsb_in _ _ _ (tr_child tr)); [apply in_seq; lia|exact Het]).
      assert (HO : col_has_hom n gs = true).
      { unfold col_has_hom. apply orb_true_iff in Hom. destruct Hom as [Hom|Hom].
        - apply (existsb_in _ _ _ (tr_father tr)); [apply in_seq; lia|exact Hom].
        - apply (existsb_in _ _ _ (tr_mother tr)); [apply in_seq; lia|exact Hom]. }
      apply Nat.ltb_lt in N2. rewrite HH, HO, N2 in ACC. cbn [andb orb] in ACC.
      rewrite orb_true_r in ACC. discriminate.
Qed.

(* conflicting / missing-genotype variants never reach the solver and are unphased in all members *)
Theorem removed_rows_unphased : forall n ts ih genetic gs covered t cp,
  col_missing n gs || col_conflict ts gs = true ->
  phase_column n ts ih genetic gs covered t cp = Some (map (fun _ => None) (seq 0 n)).
Proof.
  intros n ts ih genetic gs covered t cp H. unfold phase_column, accessible, retained.
  apply orb_true_iff in H. destruct H as [H|H]; rewrite H; cbn [negb]; rewrite ?andb_false_r; reflexivity.
Qed.

Lemma missing_false_all : forall n gs, col_missing n gs = false -> forall i, i < n -> g_none (gof gs i) = false.
Proof.
  intros n gs H i Hi. unfold col_missing in H.
  apply (existsb_false_all _ _ _ H i). apply in_seq. lia.
Qed.

(* after find_phaseable_variants the solver's "Mendelian conflict" exception is unreachable: every
   retained row admits an assignment for some transmission value (so found_valid_transmission_vector
   holds for every bipartition), and get_alleles raises exactly when there is none *)
Theorem retained_has_assignment : forall n ts rk ih gs, wf_ped n ts rk ->
  (forall i, i < n -> g_none (gof gs i) = true \/ g_dipbi (gof gs i) = true) ->
  retained n ts ih gs = true ->
  exists t a, N.to_nat t < 4 ^ length ts /\ In a (allowed n ts t gs).
Proof.
  intros n ts rk ih gs WF GT R. unfold retained in R.
  apply andb_true_iff in R. destruct R as [R NC]. apply andb_true_iff in R. destruct R as [_ NM].
  apply negb_true_iff in NC. apply negb_true_iff in NM.
  apply (conflict_iff_no_assignment n ts rk gs WF); [|exact NC].
  intros i Hi. destruct (GT i Hi) as [G|G]; [|exact G].
  rewrite (missing_false_all n gs NM i Hi) in G. discriminate.
Qed.

Theorem get_alleles_total : forall n ts rk, wf_ped n ts rk -> forall t cp gs,
  (forall a, (0 <= acost (part_count n ts) cp a < UMAX)%Z) ->
  allowed n ts t gs <> [] -> exists l, get_alleles n ts t cp gs = Alleles l.
Proof.
  intros n ts rk WF t cp gs B NE.
  destruct (get_alleles n ts t cp gs) as [| |l] eqn:E; [| |eauto].
  - exfalso. unfold get_alleles in E. rewrite (h2p_tab_all_some n ts rk WF t) in E. cbn [negb] in E.
    destruct (best_assignment _ _ _) as [bc [a|]]; [destruct (Z.eqb bc UMAX)|]; discriminate.
  - exfalso. apply NE. now apply (get_alleles_conflict_iff n ts rk WF t cp gs B).
Qed.

(* executable well-formedness check *)
Lemma wf_pedb_sound : forall n ts rk, wf_pedb n ts rk = true -> wf_ped n ts rk.
Proof.
  intros n ts rk H. unfold wf_pedb in H.
  apply andb_true_iff in H. destruct H as [H ND]. apply andb_true_iff in H. destruct H as [H1 H2].
  rewrite forallb_forall in H1, H2.
  assert (IDX : forall tr, In tr ts ->
            (tr_father tr < n /\ tr_mother tr < n /\ tr_child tr < n) /\
            (rk (tr_father tr) < rk (tr_child tr) /\ rk (tr_mother tr) < rk (tr_child tr))).
  { intros tr Hin. specialize (H1 tr Hin).
    repeat (apply andb_true_iff in H1; destruct H1 as [H1 ?]).
    repeat match goal with X : (_ <? _) = true |- _ => apply Nat.ltb_lt in X end. auto. }
  constructor.
  - intros tr Hin. apply (IDX tr Hin).
  - revert ND. generalize (map tr_child ts). induction l as [|x l IH]; intros ND; [constructor|].
    apply andb_true_iff in ND. destruct ND as [N1 N2]. constructor; [|now apply IH].
    intros Hx. apply negb_true_iff in N1. rewrite (existsb_in _ _ _ x Hx (Nat.eqb_refl x)) in N1. discriminate.
  - intros tr Hin. apply (IDX tr Hin).
  - intros i Hi. apply Nat.ltb_lt. apply H2. apply in_seq. lia.
Qed.

(* forced_without_reads, literally: a column with no read *)
Theorem forced_without_reads : forall n ts rk, wf_ped n ts rk -> forall t gs l k tr,
  get_alleles n ts t (cost_partition n ts t []) gs = Alleles l ->
  nth_error ts k = Some tr ->
  g_het (gof gs (tr_child tr)) = true ->
  g_hom (gof gs (tr_father tr)) = true \/ g_hom (gof gs (tr_mother tr)) = true ->
  nth_error l (tr_child tr) = Some (b2z (forced_paternal gs tr), b2z (negb (forced_paternal gs tr))).
Proof.
  intros n ts rk WF t gs l k tr H. eapply forced_not_tie; eauto.
  intros a. rewrite acost_no_reads. lia.
Qed.
