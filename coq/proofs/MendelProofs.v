(* C05 - proofs about the model in WH.Model.Mendel *)
From Coq Require Import ZArith NArith List Bool Arith Lia.
From WH.Model Require Import Mendel.
Import ListNotations.
Local Open Scope nat_scope.

Lemma sel_negb_involutive : forall (A : Type) (p : A * A) b, sel p (negb (negb b)) = sel p b.
Proof. intros A p b. now rewrite negb_involutive. Qed.
