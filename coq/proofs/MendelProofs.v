(* C05 - proofs about the model in WH.Model.Mendel (stdlib style) *)
From Coq Require Import ZArith NArith List Bool Arith Lia Permutation.
From WH.Model Require Import Mendel.
Import ListNotations.
Local Open Scope nat_scope.

(* ------------------------------------------------------------------ well-formed (acyclic) pedigrees *)
(* n individuals, triples ts; rk is a topological numbering: parents are numbered below their child *)
Record wf_ped (n : nat) (ts : list triple) (rk : nat -> nat) : Prop := {
  wf_idx : forall tr, In tr ts -> tr_father tr < n /\ tr_mother tr < n /\ tr_child tr < n;
  wf_child_once : NoDup (map tr_child ts);
  wf_rank : forall tr, In tr ts -> rk (tr_father tr) < rk (tr_child tr) /\ rk (tr_mother tr) < rk (tr_child tr);
  wf_rank_bound : forall i, i < n -> rk i < n
}.

(* ------------------------------------------------------------------ triple_of *)
Lemma triple_of_some : forall ts k0 i k tr,
  triple_of ts k0 i = Some (k, tr) ->
  k0 <= k /\ nth_error ts (k - k0) = Some tr /\ tr_child tr = i.
Proof.
  induction ts as [|t0 rest IH]; intros k0 i k tr H; cbn [triple_of] in H.
  - discriminate.
  - destruct (triple_of rest (S k0) i) as [r|] eqn:E.
    + inversion H; subst r. apply IH in E. destruct E as (Hle & Hn & Hc).
      split; [lia|]. split; [|exact Hc].
      replace (k - k0) with (S (k - S k0)) by lia. exact Hn.
    + destruct (tr_child t0 =? i) eqn:Ec; [|discriminate].
      inversion H; subst. apply Nat.eqb_eq in Ec.
      split; [lia|]. split; [|exact Ec]. now rewrite Nat.sub_diag.
Qed.

Lemma triple_of_none : forall ts k0 i,
  triple_of ts k0 i = None <-> ~ In i (map tr_child ts).
Proof.
  induction ts as [|t0 rest IH]; intros k0 i; cbn [triple_of map].
  - split; [intros _ []|reflexivity].
  - destruct (triple_of rest (S k0) i) as [r|] eqn:E.
    + split; [discriminate|]. intros Hn. exfalso. apply Hn. right.
      destruct (in_dec Nat.eq_dec i (map tr_child rest)) as [Hi|Hi]; [exact Hi|].
      apply (IH (S k0)) in Hi. congruence.
    + apply IH in E. destruct (tr_child t0 =? i) eqn:Ec.
      * apply Nat.eqb_eq in Ec. split; [discriminate|]. intros Hn. exfalso. apply Hn. now left.
      * apply Nat.eqb_neq in Ec. split; [|reflexivity]. intros _ [H|H]; [congruence|]. now apply E.
Qed.

Lemma triple_of_nodup : forall ts k0 j tr,
  NoDup (map tr_child ts) -> nth_error ts j = Some tr ->
  triple_of ts k0 (tr_child tr) = Some (k0 + j, tr).
Proof.
  induction ts as [|t0 rest IH]; intros k0 j tr Hnd Hn.
  - destruct j; discriminate.
  - cbn [map] in Hnd. inversion Hnd as [|x l Hni Hnd']; subst. cbn [triple_of].
    destruct j as [|j]; cbn [nth_error] in Hn.
    + inversion Hn; subst t0.
      assert (E : triple_of rest (S k0) (tr_child tr) = None) by (now apply triple_of_none).
      rewrite E, Nat.eqb_refl. f_equal. f_equal. lia.
    + rewrite (IH (S k0) j tr Hnd' Hn). f_equal. f_equal. lia.
Qed.

Lemma triple_of_in : forall ts k0 i k tr, triple_of ts k0 i = Some (k, tr) -> In tr ts.
Proof.
  intros ts k0 i k tr H. apply triple_of_some in H. destruct H as (_ & Hn & _).
  eapply nth_error_In; eauto.
Qed.

(* ------------------------------------------------------------------ h2p_rec: termination, fuel *)
Section Fuel.
Variables (n : nat) (ts : list triple) (rk : nat -> nat).
Hypothesis WF : wf_ped n ts rk.
Variable tb : nat -> bool.

Lemma h2p_rec_terminates : forall fuel i, rk i < fuel \/ is_root ts i = true ->
  exists p, h2p_rec ts tb fuel i = Some p.
Proof.
  induction fuel as [|fuel IH]; intros i Hi.
  - destruct Hi as [Hi|Hi]; [lia|]. unfold is_root in Hi. cbn [h2p_rec].
    destruct (triple_of ts 0 i) as [[k tr]|]; [discriminate|]. eauto.
  - cbn [h2p_rec]. destruct (triple_of ts 0 i) as [[k tr]|] eqn:E; [|eauto].
    destruct Hi as [Hi|Hi]; [|unfold is_root in Hi; rewrite E in Hi; discriminate].
    pose proof (triple_of_in _ _ _ _ _ E) as Hin.
    pose proof (triple_of_some _ _ _ _ _ E) as (_ & _ & Hc).
    destruct (wf_rank _ _ _ WF tr Hin) as [Hf Hm]. rewrite Hc in Hf, Hm.
    destruct (IH (tr_father tr)) as [pf Epf]; [left; lia|].
    destruct (IH (tr_mother tr)) as [pm Epm]; [left; lia|].
    rewrite Epf, Epm. eauto.
Qed.

Lemma h2p_rec_mono : forall fuel i p, h2p_rec ts tb fuel i = Some p ->
  forall fuel', fuel <= fuel' -> h2p_rec ts tb fuel' i = Some p.
Proof.
  induction fuel as [|fuel IH]; intros i p H fuel' Hle.
  - cbn [h2p_rec] in H. destruct fuel'; cbn [h2p_rec];
      destruct (triple_of ts 0 i) as [[k tr]|]; try discriminate; exact H.
  - destruct fuel' as [|fuel']; [lia|]. cbn [h2p_rec] in *.
    destruct (triple_of ts 0 i) as [[k tr]|]; [|exact H].
    destruct (h2p_rec ts tb fuel (tr_father tr)) as [pf|] eqn:Ef; [|discriminate].
    destruct (h2p_rec ts tb fuel (tr_mother tr)) as [pm|] eqn:Em; [|discriminate].
    rewrite (IH _ _ Ef fuel') by lia. rewrite (IH _ _ Em fuel') by lia. exact H.
Qed.

Lemma h2p_rec_total : forall i, i < n -> exists p, h2p_rec ts tb n i = Some p.
Proof.
  intros i Hi. apply h2p_rec_terminates. left. now apply (wf_rank_bound _ _ _ WF).
Qed.

(* the mechanism of the property: the child's haplotype 0 shares its partition with the father's
   haplotype [!(bit 2k)], its haplotype 1 with the mother's haplotype [!(bit 2k+1)] *)
Lemma child_shares_rec : forall k tr, nth_error ts k = Some tr ->
  exists pf pm,
    h2p_rec ts tb n (tr_father tr) = Some pf /\
    h2p_rec ts tb n (tr_mother tr) = Some pm /\
    h2p_rec ts tb n (tr_child tr) = Some (sel pf (negb (tb (2 * k))), sel pm (negb (tb (2 * k + 1)))).
Proof.
  intros k tr Hn.
  pose proof (nth_error_In _ _ Hn) as Hin.
  destruct (wf_idx _ _ _ WF tr Hin) as (Hf & Hm & Hc).
  destruct (wf_rank _ _ _ WF tr Hin) as [Rf Rm].
  pose proof (wf_rank_bound _ _ _ WF _ Hc) as Rc.
  pose proof (triple_of_nodup ts 0 k tr (wf_child_once _ _ _ WF) Hn) as E. cbn [Nat.add] in E.
  destruct n as [|n']; [lia|].
  destruct (h2p_rec_terminates n' (tr_father tr)) as [pf Epf]; [left; lia|].
  destruct (h2p_rec_terminates n' (tr_mother tr)) as [pm Epm]; [left; lia|].
  exists pf, pm. split; [|split].
  - apply (h2p_rec_mono _ _ _ Epf). lia.
  - apply (h2p_rec_mono _ _ _ Epm). lia.
  - cbn [h2p_rec]. rewrite E, Epf, Epm. reflexivity.
Qed.
End Fuel.

Lemma h2p_tab_spec : forall n ts t i, i < n -> h2p_tab n ts t i = h2p n ts t i.
Proof.
  intros n ts t i Hi. unfold h2p_tab.
  rewrite (nth_indep _ None (h2p n ts t 0)) by (now rewrite map_length, seq_length).
  rewrite map_nth, seq_nth by exact Hi. reflexivity.
Qed.

Lemma h2p_tab_out : forall n ts t i, n <= i -> h2p_tab n ts t i = None.
Proof.
  intros n ts t i Hi. unfold h2p_tab. apply nth_overflow. now rewrite map_length, seq_length.
Qed.

Theorem child_shares_partition : forall n ts rk, wf_ped n ts rk ->
  forall (t : N) k tr, nth_error ts k = Some tr ->
  exists pf pm,
    h2p n ts t (tr_father tr) = Some pf /\
    h2p n ts t (tr_mother tr) = Some pm /\
    h2p n ts t (tr_child tr) = Some (sel pf (negb (tbit t (2 * k))), sel pm (negb (tbit t (2 * k + 1)))).
Proof. intros n ts rk WF t k tr Hn. unfold h2p. eapply child_shares_rec; eauto. Qed.
