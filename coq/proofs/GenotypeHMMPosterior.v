(* C08, part 2: the unscaled projection recursions (fwdx / bwdx of GenotypeHMMRun.v) compute the sums over
   all global bipartitions of the per-bipartition chain recursions (chain_fwd / chain_bwd of the model),
   and these are the plain sums over all (bipartition, transmission path, allele-assignment path).
   ssreflect / bigop style. *)
From mathcomp Require Import all_ssreflect all_algebra.
From WH.Model Require Import GenotypeHMM.
From WH.Proofs Require Import SemiringDP GenotypeHMMBasics GenotypeHMMRun.
Set Implicit Arguments.
Unset Strict Implicit.
Unset Printing Implicit Defensive.
Import GRing.Theory.
Local Open Scope ring_scope.

Section Posterior.
Variable K : fieldType.
Variable P : ped.
Let tn := ntrans P.
Let na := nassign P.
Let ts := iota 0 tn.
Let as_ := iota 0 na.

Local Notation scolK := (scol K).
Local Notation cctxK := (cctx K).
Local Notation chain_fwdK := (@chain_fwd K 0 1 +%R *%R tn na).
Local Notation chain_inK := (@chain_in K 0 1 +%R *%R tn na).
Local Notation chain_bwdK := (@chain_bwd K 0 1 +%R *%R tn na).
Local Notation LspecK := (@Lspec K 0 +%R na).
Local Notation bwdxK := (@bwdx K P).
Local Notation fwdxK := (@fwdx K P).
Local Notation prexK := (@prex K P).

Definition hd_ids (cs : seq scolK) : seq nat := if cs is sc :: _ then s_ids sc else [::].

(* a column context agrees with a specification column on the valid index ranges *)
Definition loc_ok (cc : cctxK) (sc : scolK) : Prop :=
  [/\ cc_k cc = size (s_ids sc),
      forall x i a, size x = cc_k cc -> (i < tn)%N -> (a < na)%N -> cc_W cc x i a = s_W sc x i a,
      forall x i, size x = cc_k cc -> (i < tn)%N -> cc_L cc x i = \sum_(a <- as_) s_W sc x i a
    & forall j i, (j < tn)%N -> (i < tn)%N -> cc_T cc j i = s_T sc j i].

(* contexts implement specification columns; m = number of reads seen before, prev = ids of the
   previous column *)
Fixpoint impl_from (m : nat) (prev : seq nat) (ccs : seq cctxK) (cs : seq scolK) : Prop :=
  match ccs, cs with
  | cc :: ccs', sc :: cs' =>
      let ids := s_ids sc in
      let shared := [seq r <- prev | r \in ids] in
      let nnew := (size ids - size shared)%N in
      [/\ ids = shared ++ iota m nnew, cc_bpw cc = size shared,
          cc_fmask cc = [seq r \in hd_ids cs' | r <- ids], loc_ok cc sc
        & impl_from (m + nnew) ids ccs' cs']
  | [::], [::] => True
  | _, _ => False
  end.

Fixpoint newcount (prev : seq nat) (cs : seq scolK) : nat :=
  if cs is sc :: cs' then
    (size (s_ids sc) - size [seq r <- prev | r \in s_ids sc] + newcount (s_ids sc) cs')%N
  else 0%N.

(* ---------------------------------------------------------------- the chain recursions as functions *)
Definition chainB (beta : seq bool) (cs : seq scolK) (j : nat) : K := nth 0 (chain_bwdK beta cs) j.
Definition chainF (beta : seq bool) (rcs : seq scolK) (j : nat) : K := nth 0 (chain_fwdK beta rcs) j.

Lemma LspecE beta sc i : LspecK beta sc i = \sum_(a <- as_) s_W sc (pick (s_ids sc) beta) i a.
Proof. by rewrite /Lspec fsum_map. Qed.

Lemma chainB_nil beta j : (j < tn)%N -> chainB beta [::] j = 1.
Proof. by move=> hj; rewrite /chainB /= nth_nseq hj. Qed.

Lemma chainB_cons beta sc cs j : (j < tn)%N ->
  chainB beta (sc :: cs) j = \sum_(i <- ts) s_T sc j i * (LspecK beta sc i * chainB beta cs i).
Proof.
move=> hj; rewrite /chainB /= (nth_map 0%N) ?size_iota // nth_iota // add0n fsum_map.
apply: eq_big_seq => i; rewrite mem_iota add0n => /andP[_ hi].
by rewrite (nth_map 0%N) ?size_iota // nth_iota // add0n.
Qed.

Lemma size_ids_split (prev ids : seq nat) m :
  ids = [seq r <- prev | r \in ids] ++ iota m (size ids - size [seq r <- prev | r \in ids]) ->
  size ids = (size [seq r <- prev | r \in ids] + (size ids - size [seq r <- prev | r \in ids]))%N.
Proof. by move=> e; rewrite subnKC // {2}e size_cat leq_addr. Qed.

(* the bits of the column ids under beta1 ++ new bits *)
Lemma pick_ids_cat (prev : seq nat) m nnew (b1 v g : seq bool) (S : seq nat) :
  all (fun r => r < m)%N S -> size b1 = m -> size v = nnew ->
  pick (S ++ iota m nnew) (b1 ++ v ++ g) = pick S b1 ++ v.
Proof.
move=> hS hb hv; rewrite /pick map_cat -/(pick S _) -/(pick (iota _ _) _).
rewrite pick_cat_lt ?hb //.
rewrite catA pick_cat_lt; last first.
  by rewrite size_cat hb hv; apply/allP => i; rewrite mem_iota => /andP[].
by rewrite -hb -hv pick_iota_cat.
Qed.

(* ---------------------------------------------------------------- backward *)
Lemma bwdx_spec ccs cs m prev (b1 : seq bool) :
  impl_from m prev ccs cs -> all (fun r => r < m)%N prev -> size b1 = m ->
  forall j, (j < tn)%N ->
    bwdxK ccs (pick [seq r <- prev | r \in hd_ids cs] b1) j
    = \sum_(g <- bits (newcount prev cs)) chainB (b1 ++ g) cs j.
Proof.
elim: ccs cs m prev b1 => [|cc ccs IH] [|sc cs] m prev b1 //=.
  by move=> _ _ _ j hj; rewrite bits0 big_seq1 chainB_nil.
set ids := s_ids sc; set shared := [seq r <- prev | r \in ids].
set nnew := (size ids - size shared)%N.
case=> hids hbpw hfm [hk hW hL hT] himp hprev hb1 j hj.
have hsh : all (fun r => r < m)%N shared.
  by apply/allP => r; rewrite mem_filter => /andP[_ /(allP hprev)].
have hidsm : all (fun r => r < m + nnew)%N ids.
  rewrite hids all_cat; apply/andP; split.
    by apply/allP => r /(allP hsh) h; apply: ltn_addr.
  by apply/allP => r; rewrite mem_iota => /andP[].
have hsz : cc_k cc = (size shared + nnew)%N by rewrite hk -/ids (size_ids_split hids).
have hpick : forall v g, size v = nnew -> pick ids (b1 ++ v ++ g) = pick shared b1 ++ v.
  by move=> v g hv; rewrite hids; apply: pick_ids_cat.
rewrite hsz hbpw sum_split_take ?size_pick // sum_bits_cat.
apply: eq_big_seq => v; rewrite mem_bitsE => /eqP hv.
rewrite (eq_bigr (fun g => \sum_(i <- ts) s_T sc j i *
           (cc_L cc (pick shared b1 ++ v) i * chainB ((b1 ++ v) ++ g) cs i))); last first.
  move=> g _; rewrite chainB_cons //; apply: eq_big_seq => i; rewrite mem_iota add0n => /andP[_ hi].
  rewrite LspecE hpick // hL ?catA // hsz size_cat size_pick hv //.
rewrite exchange_big /=; apply: eq_big_seq => i; rewrite mem_iota add0n => /andP[_ hi].
have hb1v : size (b1 ++ v) = (m + nnew)%N by rewrite size_cat hb1 hv.
have := IH cs (m + nnew)%N ids (b1 ++ v) himp hidsm hb1v i hi.
have -> : pick [seq r <- ids | r \in hd_ids cs] (b1 ++ v) = mask (cc_fmask cc) (pick shared b1 ++ v).
  by rewrite filter_mask pick_mask hfm -(hpick v [::]) // cats0.
move=> ->; rewrite hT // -!big_distrr /= mulrC; congr (_ * _).
by rewrite mulrC.
Qed.

(* ---------------------------------------------------------------- forward *)
(* rp / rcs = reversed prefix of contexts / specification columns; m = number of reads seen in it;
   next = ids of the column that follows the prefix *)
Fixpoint fimpl (rp : seq cctxK) (rcs : seq scolK) (m : nat) (next : seq nat) : Prop :=
  match rp, rcs with
  | cc :: rp', sc :: rcs' =>
      let prev := hd_ids rcs' in
      let ids := s_ids sc in
      let shared := [seq r <- prev | r \in ids] in
      let nnew := (size ids - size shared)%N in
      exists m', [/\ fimpl rp' rcs' m' ids, m = (m' + nnew)%N, ids = shared ++ iota m' nnew,
                     cc_bpw cc = size shared /\ cc_fmask cc = [seq r \in next | r <- ids] & loc_ok cc sc]
  | [::], [::] => m = 0%N
  | _, _ => False
  end.

Lemma fimpl_lt rp rcs m next : fimpl rp rcs m next -> all (fun r => r < m)%N (hd_ids rcs).
Proof.
elim: rp rcs m next => [|cc rp IH] [|sc rcs] m next //=.
case=> m' [/IH hlt -> hids _ _]; rewrite [X in all _ X]hids all_cat; apply/andP; split.
  apply/allP => r; rewrite mem_filter => /andP[_ /(allP hlt) h]; exact: ltn_addr.
by apply/allP => r; rewrite mem_iota => /andP[].
Qed.

Lemma chainF_cons beta sc rcs i : (i < tn)%N ->
  chainF beta (sc :: rcs) i
  = LspecK beta sc i * (if rcs is [::] then 1 else \sum_(j <- ts) chainF beta rcs j * s_T sc j i).
Proof.
move=> hi; rewrite /chainF /= (nth_map 0%N) ?size_iota // nth_iota // add0n.
by case: rcs => // sc' rcs; rewrite fsum_map.
Qed.

Lemma chainF_local rp rcs m next (b1 b2 : seq bool) i :
  fimpl rp rcs m next -> size b1 = m -> (i < tn)%N -> chainF (b1 ++ b2) rcs i = chainF b1 rcs i.
Proof.
elim: rp rcs m next b1 b2 i => [|cc rp IH] [|sc rcs] m next b1 b2 i //=.
move=> himp; have hlt := @fimpl_lt (cc :: rp) (sc :: rcs) m next himp.
case: himp => m' [himp hm hids _ _] hb hi.
rewrite !chainF_cons // !LspecE pick_cat_lt ?hb //; congr (_ * _).
have hle : (m' <= m)%N by rewrite hm leq_addr.
case: rcs himp {hids hlt hm} => [|sc' rcs] himp //.
apply: eq_big_seq => j; rewrite mem_iota add0n => /andP[_ hj]; congr (_ * _).
have e : b1 = take m' b1 ++ drop m' b1 by rewrite cat_take_drop.
have hsz : size (take m' b1) = m'.
  by rewrite size_take hb; case: ltnP => // h; apply/eqP; rewrite eqn_leq h hle.
by rewrite [in LHS]e -catA (IH _ _ _ _ _ _ himp hsz hj) [in RHS]e (IH _ _ _ _ _ _ himp hsz hj).
Qed.

Lemma pick_iota0 (b : seq bool) : pick (iota 0 (size b)) b = b.
Proof. by have := pick_iota_cat [::] b; rewrite cat0s. Qed.

Lemma fwdx_cons cc rp sigma i :
  fwdxK (cc :: rp) sigma i
  = \sum_(x <- bits (cc_k cc) | mask (cc_fmask cc) x == sigma) prexK rp (fwdxK rp) cc x i * cc_L cc x i.
Proof. by []. Qed.

Lemma prex_cons cc' rp' (fw : seq bool -> nat -> K) cc x i :
  prexK (cc' :: rp') fw cc x i = \sum_(j <- ts) fw (take (cc_bpw cc) x) j * cc_T cc j i.
Proof. by []. Qed.

Arguments fwdx : simpl never.
Arguments prex : simpl never.

Lemma fwdx_first cc sc m next :
  fimpl [:: cc] [:: sc] m next ->
  forall sigma i, (i < tn)%N ->
    fwdxK [:: cc] sigma i
    = \sum_(b <- bits m | pick [seq r <- s_ids sc | r \in next] b == sigma) chainF b [:: sc] i.
Proof.
rewrite /=; case=> m' [hm' hm hids [hbpw hfm] [hk hW hL hT]] sigma i hi.
move: hm hids; rewrite hm' add0n subn0 /= => hm hids.
rewrite fwdx_cons /prex hk -hm big_seq_cond [RHS]big_seq_cond.
apply: eq_big => b; rewrite mem_bitsE; case: eqP => //= hb.
  have hpb : pick (s_ids sc) b = b by rewrite hids -hm -hb pick_iota0.
  by rewrite filter_mask -hfm pick_mask hpb.
have hpb : pick (s_ids sc) b = b by rewrite hids -hm -hb pick_iota0.
move=> _; rewrite mul1r chainF_cons // mulr1 LspecE hL ?hpb //.
by rewrite hk -hm.
Qed.

Lemma fwdx_step cc cc' rp' sc sc' rcs' m next :
  fimpl (cc :: cc' :: rp') (sc :: sc' :: rcs') m next ->
  (forall m' s j, fimpl (cc' :: rp') (sc' :: rcs') m' (s_ids sc) ->
     size s = size [seq r <- s_ids sc' | r \in s_ids sc] -> (j < tn)%N ->
     fwdxK (cc' :: rp') s j
     = \sum_(b <- bits m' | pick [seq r <- s_ids sc' | r \in s_ids sc] b == s) chainF b (sc' :: rcs') j) ->
  forall sigma i, (i < tn)%N ->
    fwdxK (cc :: cc' :: rp') sigma i
    = \sum_(b <- bits m | pick [seq r <- s_ids sc | r \in next] b == sigma) chainF b (sc :: sc' :: rcs') i.
Proof.
move=> himp IH sigma i hi.
case: (himp) => m' [himp' hm hids [hbpw hfm] [hk hW hL hT]].
move: hm hids hbpw; rewrite [hd_ids _]/=.
set ids := s_ids sc in hfm hk *.
set shared := [seq r <- s_ids sc' | r \in ids].
set nnew := (size ids - size shared)%N => hm hids hbpw.
have hlt' := @fimpl_lt (cc' :: rp') (sc' :: rcs') m' ids himp'.
have hsh : all (fun r => r < m')%N shared.
  by apply/allP => r; rewrite mem_filter => /andP[_ /(allP hlt')].
have hsz : cc_k cc = (size shared + nnew)%N by rewrite hk -/ids (size_ids_split hids).
have hS : [seq r <- ids | r \in next] = mask (cc_fmask cc) ids by rewrite filter_mask hfm.
have hpick : forall b v, size b = m' -> size v = nnew -> pick ids (b ++ v) = pick shared b ++ v.
  by move=> b v hb hv; rewrite hids -[b ++ v]cats0 -catA; apply: pick_ids_cat.
have hP : forall s j, size s = size shared -> (j < tn)%N ->
    fwdxK (cc' :: rp') s j = \sum_(b <- bits m' | pick shared b == s) chainF b (sc' :: rcs') j.
  by move=> s j hs hj; apply: IH.
pose H b s v := if mask (cc_fmask cc) (s ++ v) == sigma
                then cc_L cc (s ++ v) i * (\sum_(j <- ts) chainF b (sc' :: rcs') j * s_T sc j i)
                else 0.
have rhsE : \sum_(b <- bits m | pick [seq r <- ids | r \in next] b == sigma) chainF b (sc :: sc' :: rcs') i
          = \sum_(b <- bits m') \sum_(v <- bits nnew) H b (pick shared b) v.
  rewrite hm big_mkcond sum_bits_cat /=; apply: eq_big_seq => b; rewrite mem_bitsE => /eqP hb.
  apply: eq_big_seq => v; rewrite mem_bitsE => /eqP hv.
  rewrite hS pick_mask hpick // /H; case: ifP => // _.
  rewrite chainF_cons // LspecE hpick // hL ?hsz ?size_cat ?size_pick ?hv //; congr (_ * _).
  apply: eq_big_seq => j; rewrite mem_iota add0n => /andP[_ hj].
  by rewrite (@chainF_local (cc' :: rp') (sc' :: rcs') m' ids b v j himp' hb hj).
rewrite rhsE fwdx_cons hsz big_mkcond sum_bits_cat /=.
transitivity (\sum_(s <- bits (size shared)) \sum_(b <- bits m' | pick shared b == s)
                \sum_(v <- bits nnew) H b s v).
  apply: eq_big_seq => s; rewrite mem_bitsE => /eqP hs.
  rewrite [RHS]exchange_big /=; apply: eq_bigr => v _.
  rewrite /H; case: ifP => _; last by rewrite big1.
  rewrite prex_cons hbpw -hs take_size_cat //.
  rewrite (eq_big_seq (fun j => \sum_(b <- bits m' | pick shared b == s) chainF b (sc' :: rcs') j * s_T sc j i)); last first.
    move=> j; rewrite mem_iota add0n => /andP[_ hj].
    by rewrite hP // hT // big_distrl.
  by rewrite exchange_big /= mulrC big_distrr.
rewrite (exchange_big_dep xpredT) //=.
apply: eq_big_seq => b; rewrite mem_bitsE => /eqP hb.
under eq_bigl do rewrite eq_sym.
by rewrite (@sum_bits_eq _ (size shared)) // size_pick.
Qed.

Lemma fwdx_spec rp rcs m next :
  fimpl rp rcs m next -> (0 < size rp)%N ->
  forall sigma i, size sigma = size [seq r <- hd_ids rcs | r \in next] -> (i < tn)%N ->
    fwdxK rp sigma i
    = \sum_(b <- bits m | pick [seq r <- hd_ids rcs | r \in next] b == sigma) chainF b rcs i.
Proof.
elim: rp rcs m next => [|cc rp IH] [|sc rcs] m next // himp _ sigma i _ hi.
case: rp rcs IH himp => [|cc' rp'] [|sc' rcs'] IH himp.
- exact: fwdx_first.
- by case: himp => m' [].
- by case: himp => m' [].
- apply: fwdx_step => // m' s j himp' hs hj.
  exact: (IH (sc' :: rcs') m' (s_ids sc) himp').
Qed.

(* ---------------------------------------------------------------- meet in the middle *)
(* mass entering the column sc with transmission value i, for a fixed bipartition *)
Definition inF (beta : seq bool) (rcs : seq scolK) (sc : scolK) (i : nat) : K :=
  if rcs is [::] then 1 else \sum_(j <- ts) chainF beta rcs j * s_T sc j i.

Lemma inF_local rp rcs m next (b1 b2 : seq bool) sc i :
  fimpl rp rcs m next -> size b1 = m -> inF (b1 ++ b2) rcs sc i = inF b1 rcs sc i.
Proof.
case: rcs => [|sc' rcs] // himp hb; rewrite /inF.
apply: eq_big_seq => j; rewrite mem_iota add0n => /andP[_ hj].
by rewrite (chainF_local _ himp hb hj).
Qed.

Lemma pre_spec rp rcs m cc sc (s v : seq bool) i :
  fimpl rp rcs m (s_ids sc) ->
  cc_bpw cc = size [seq r <- hd_ids rcs | r \in s_ids sc] ->
  (forall j i, (j < tn)%N -> (i < tn)%N -> cc_T cc j i = s_T sc j i) ->
  size s = size [seq r <- hd_ids rcs | r \in s_ids sc] -> (i < tn)%N ->
  prexK rp (fwdxK rp) cc (s ++ v) i
  = \sum_(b <- bits m | pick [seq r <- hd_ids rcs | r \in s_ids sc] b == s) inF b rcs sc i.
Proof.
case: rp rcs => [|cc' rp'] [|sc' rcs'] //= himp hbpw hT hs hi.
  by rewrite himp bits0 big_cons big_nil /= (size0nil hs) eqxx addr0.
rewrite prex_cons hbpw -hs take_size_cat //.
rewrite [RHS]exchange_big /=.
apply: eq_big_seq => j; rewrite mem_iota add0n => /andP[_ hj].
rewrite (@fwdx_spec (cc' :: rp') (sc' :: rcs') m (s_ids sc) himp) // hT //.
by rewrite big_distrl.
Qed.

Lemma meet rp rcs m cc suf sc scs (G : seq bool -> K) i :
  fimpl rp rcs m (s_ids sc) ->
  impl_from m (hd_ids rcs) (cc :: suf) (sc :: scs) ->
  (i < tn)%N ->
  \sum_(x <- bits (cc_k cc)) prexK rp (fwdxK rp) cc x i * G x * bwdxK suf (mask (cc_fmask cc) x) i
  = \sum_(b <- bits (m + newcount (hd_ids rcs) (sc :: scs)))
       inF b rcs sc i * G (pick (s_ids sc) b) * chainB b scs i.
Proof.
move=> hf /= [hids hbpw hfm [hk hW hL hT] himp] hi.
have hlt := fimpl_lt hf.
set ids := s_ids sc in hids hfm hk himp hf *.
set shared := [seq r <- hd_ids rcs | r \in ids] in hids hbpw himp *.
set nnew := (size ids - size shared)%N in hids himp *.
have hsh : all (fun r => r < m)%N shared.
  by apply/allP => r; rewrite mem_filter => /andP[_ /(allP hlt)].
have hidsm : all (fun r => r < m + nnew)%N ids.
  rewrite hids all_cat; apply/andP; split.
    by apply/allP => r /(allP hsh) h; apply: ltn_addr.
  by apply/allP => r; rewrite mem_iota => /andP[].
have hsz : cc_k cc = (size shared + nnew)%N by rewrite hk -/ids (size_ids_split hids).
have hpick : forall b v g, size b = m -> size v = nnew -> pick ids (b ++ v ++ g) = pick shared b ++ v.
  by move=> b v g hb hv; rewrite hids; apply: pick_ids_cat.
have hbx : forall b v, size b = m -> size v = nnew ->
    bwdxK suf (mask (cc_fmask cc) (pick shared b ++ v)) i
    = \sum_(g <- bits (newcount ids scs)) chainB (b ++ v ++ g) scs i.
  move=> b v hb hv.
  have hbv : size (b ++ v) = (m + nnew)%N by rewrite size_cat hb hv.
  have := bwdx_spec himp hidsm hbv hi.
  rewrite filter_mask pick_mask -hfm -[b ++ v]cats0 -catA hpick // => ->.
  by apply: eq_bigr => g _; rewrite cats0 catA.
rewrite hsz sum_bits_cat.
transitivity (\sum_(s <- bits (size shared)) \sum_(b <- bits m | pick shared b == s)
                \sum_(v <- bits nnew)
                   inF b rcs sc i * G (s ++ v) * bwdxK suf (mask (cc_fmask cc) (s ++ v)) i).
  apply: eq_big_seq => s; rewrite mem_bitsE => /eqP hs.
  rewrite exchange_big /=; apply: eq_bigr => v _.
  by rewrite (pre_spec _ hf hbpw hT hs hi) !big_distrl.
rewrite (exchange_big_dep xpredT) //=.
rewrite [RHS]sum_bits_cat.
apply: eq_big_seq => b; rewrite mem_bitsE => /eqP hb.
under eq_bigl do rewrite eq_sym.
rewrite (@sum_bits_eq _ (size shared)) ?size_pick // sum_bits_cat.
apply: eq_big_seq => v; rewrite mem_bitsE => /eqP hv.
rewrite hbx // big_distrr /=; apply: eq_bigr => g _.
by rewrite hpick // (inF_local _ _ _ hf hb).
Qed.

(* ---------------------------------------------------------------- chains are sums over paths *)
Local Notation pwK := (@path_weight K 1 *%R).
Local Notation states := (hmm_states tn na).

Definition lastT (prev : option nat) (p : seq (nat * nat)) : option nat :=
  foldl (fun _ s => Some s.1) prev p.
(* weight of a path through the prefix, times the transition into value i of the next column sc *)
Definition pwin (beta : seq bool) (prev : option nat) (pre : seq scolK) (sc : scolK)
                (p : seq (nat * nat)) (i : nat) : K :=
  pwK prev pre beta p * (if lastT prev p is Some j then s_T sc j i else 1).

Lemma sum_states (F : nat * nat -> K) :
  \sum_(s <- states) F s = \sum_(i <- ts) \sum_(a <- as_) F (i, a).
Proof. by rewrite /hmm_states big_allpairs_dep. Qed.

Lemma pw_cat beta prev pre sc scs (p1 : seq (nat * nat)) s p2 :
  size p1 = size pre ->
  pwK prev (pre ++ sc :: scs) beta (p1 ++ s :: p2)
  = pwin beta prev pre sc p1 s.1 * s_W sc (pick (s_ids sc) beta) s.1 s.2 * pwK (Some s.1) scs beta p2.
Proof.
elim: pre prev p1 => [|c0 pre IH] prev [|s0 p1] //= hsz.
  by rewrite /pwin /= mul1r.
case: hsz => hsz; rewrite (IH _ _ hsz) /pwin /= !mulrA.
by [].
Qed.

Lemma bwd_paths beta scs j : (j < tn)%N ->
  \sum_(p <- seqs states (size scs)) pwK (Some j) scs beta p = chainB beta scs j.
Proof.
elim: scs j => [|sc scs IH] j hj; first by rewrite sum_seqs0 chainB_nil.
rewrite [size _]/= sum_seqsS sum_states chainB_cons //.
apply: eq_big_seq => i; rewrite mem_iota add0n => /andP[_ hi].
rewrite LspecE big_distrl big_distrr /=; apply: eq_bigr => a _.
by rewrite /= -big_distrr /= IH // mulrA.
Qed.

Lemma in_paths beta pre sc i : (i < tn)%N ->
  \sum_(p <- seqs states (size pre)) pwin beta None pre sc p i = inF beta (rev pre) sc i.
Proof.
elim/last_ind: pre sc i => [|pre sc' IH] sc i hi.
  by rewrite sum_seqs0 /pwin /= mulr1.
rewrite size_rcons sum_seqs_rcons rev_rcons /inF.
rewrite (eq_big_seq (fun p => \sum_(j <- ts) \sum_(a <- as_)
     pwin beta None pre sc' p j * s_W sc' (pick (s_ids sc') beta) j a * s_T sc j i)); last first.
  move=> p /size_seqs hp; rewrite sum_states; apply: eq_bigr => j _; apply: eq_bigr => a _.
  rewrite /pwin -cats1 -[rcons p _]cats1 (@pw_cat beta None pre sc' [::] p (j, a) [::] hp) /=.
  by rewrite /lastT foldl_cat /= mulr1.
rewrite exchange_big /=; apply: eq_big_seq => j; rewrite mem_iota add0n => /andP[_ hj].
rewrite chainF_cons // LspecE -/(inF beta (rev pre) sc' j) -IH //.
rewrite (eq_bigr (fun p => pwin beta None pre sc' p j
          * (\sum_(a <- as_) s_W sc' (pick (s_ids sc') beta) j a) * s_T sc j i)); last first.
  by move=> p _; rewrite -big_distrl /= -big_distrr.
by rewrite -big_distrl /= -big_distrl /=; congr (_ * _); rewrite mulrC.
Qed.

(* the total over all paths of a weight that depends on the state at column c, for a fixed bipartition *)
Lemma chain_to_paths beta pre sc scs (Phi : nat * nat -> K) :
  \sum_(p <- seqs states (size (pre ++ sc :: scs))) Phi (nth (0%N, 0%N) p (size pre)) * pwK None (pre ++ sc :: scs) beta p
  = \sum_(i <- ts) \sum_(a <- as_)
       Phi (i, a) * (inF beta (rev pre) sc i * s_W sc (pick (s_ids sc) beta) i a * chainB beta scs i).
Proof.
rewrite size_cat /= sum_seqs_add.
rewrite (eq_big_seq (fun p1 => \sum_(i <- ts) \sum_(a <- as_) Phi (i, a) *
     (pwin beta None pre sc p1 i * s_W sc (pick (s_ids sc) beta) i a * chainB beta scs i))); last first.
  move=> p1 /size_seqs hp1; rewrite sum_seqsS sum_states.
  apply: eq_big_seq => i; rewrite mem_iota add0n => /andP[_ hi]; apply: eq_bigr => a _.
  rewrite -(bwd_paths beta scs hi) !big_distrr /=; apply: eq_bigr => p2 _.
  by rewrite nth_cat hp1 ltnn subnn /= pw_cat.
rewrite exchange_big /=; apply: eq_big_seq => i; rewrite mem_iota add0n => /andP[_ hi].
rewrite exchange_big /=; apply: eq_bigr => a _.
by rewrite -(in_paths beta pre sc hi) -big_distrr /= !big_distrl.
Qed.

End Posterior.
