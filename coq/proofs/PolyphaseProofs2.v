(* C15 — proofs, part 2: integrate_sub_results, aggregate_results, compute_cut_positions, components. *)
From Coq Require Import ZArith List Bool Arith Lia Permutation.
From WH.Model Require Import Polyphase.
From WH.Proofs Require Import PolyphaseProofs.
Import ListNotations.
Open Scope Z_scope.
Local Open Scope nat_scope.

(* ------------------------------------------------------------------------------ integrate_sub_results *)
Lemma write_threads_seq : forall ts vals (col : list Z),
  Forall (fun t => t < length col) ts -> length vals = length ts ->
  write_threads col ts vals = Some (write_seq col (combine ts vals)).
Proof.
  induction ts as [| t ts' IH]; intros vals col Hlt Hlen; destruct vals as [| v vs]; cbn [length] in Hlen; try lia.
  - reflexivity.
  - inversion Hlt as [| x xs Ht Hlt']; subst. cbn [write_threads combine write_seq fst snd].
    replace (t <? length col) with true by (symmetry; apply Nat.ltb_lt; exact Ht).
    apply IH; [| lia]. rewrite set_nth_length. exact Hlt'.
Qed.

Lemma Forall_set_nth : forall A (P : A -> Prop) l i v, Forall P l -> P v -> Forall P (set_nth i v l).
Proof.
  intros A P l. induction l as [| y t IH]; intros i v Hl Hv; [destruct i; constructor |].
  inversion Hl as [| z zs Hy Ht]; subst. destruct i; cbn [set_nth]; constructor; auto.
Qed.

Lemma nth_error_nth_default : forall A (l : list A) i x d, nth_error l i = Some x -> nth i l d = x.
Proof. intros A l i x d H. apply nth_error_nth. exact H. Qed.

Lemma integrate_cols_spec : forall k ts snps sub (cols : list (list Z)),
  Forall (fun t => t < k) ts -> NoDup snps -> Forall (fun p => p < length cols) snps ->
  length sub = length snps -> Forall (fun c => length c = length ts) sub -> Forall (fun c => length c = k) cols ->
  exists outs, integrate_cols cols ts snps sub = Some outs /\ length outs = length cols /\
    Forall (fun c => length c = k) outs /\
    (forall p, ~ In p snps -> nth p outs [] = nth p cols []) /\
    (forall i p sc, nth_error snps i = Some p -> nth_error sub i = Some sc ->
        nth p outs [] = write_seq (nth p cols []) (combine ts sc)).
Proof.
  intros k ts snps. induction snps as [| pos snps' IH]; intros sub cols Hts Hnd Hlt Hlen Hsub Hk.
  - cbn [integrate_cols]. exists cols. repeat split; auto.
    intros i p sc H. destruct i; discriminate.
  - destruct sub as [| sc sub']; cbn [length] in Hlen; [lia |].
    inversion Hnd as [| x xs Hnin Hnd']; subst. inversion Hlt as [| x xs Hpos Hlt']; subst.
    inversion Hsub as [| x xs Hsc Hsub']; subst.
    cbn [integrate_cols].
    destruct (nth_error cols pos) as [col |] eqn:Ecol; [| apply nth_error_None in Ecol; lia].
    assert (Hcolk : length col = k).
    { rewrite Forall_forall in Hk. apply Hk. eapply nth_error_In. exact Ecol. }
    rewrite (write_threads_seq ts sc col).
    2:{ rewrite Hcolk. exact Hts. }
    2:{ exact Hsc. }
    set (col' := write_seq col (combine ts sc)).
    assert (Hcol'k : length col' = k) by (unfold col'; rewrite write_seq_length; exact Hcolk).
    destruct (IH sub' (set_nth pos col' cols)) as [outs [Ho [Hl [Hok [Hother Hsame]]]]]; auto.
    { rewrite set_nth_length. exact Hlt'. }
    { apply Forall_set_nth; assumption. }
    exists outs. split; [exact Ho |]. rewrite set_nth_length in Hl. split; [exact Hl |]. split; [exact Hok |]. split.
    + intros p Hp. cbn [In] in Hp. rewrite Hother by tauto. apply set_nth_nth_other. tauto.
    + intros i p sc0 Hi Hs. destruct i as [| i'].
      * cbn [nth_error] in Hi, Hs. inversion Hi; inversion Hs; subst.
        rewrite Hother by exact Hnin. rewrite set_nth_nth_same by exact Hpos.
        unfold col'. rewrite (nth_error_nth_default _ cols p col [] Ecol). reflexivity.
      * cbn [nth_error] in Hi, Hs. rewrite (Hsame i' p sc0 Hi Hs).
        assert (Hne : pos <> p). { intros Heq. subst. apply Hnin. eapply nth_error_In. exact Hi. }
        rewrite set_nth_nth_other by exact Hne. reflexivity.
Qed.

(* what a solved sub-instance owes: each of its result columns has an undetermined allele or lists exactly the
   alleles the covered threads had at that variant (its sub-genotype) *)
Definition sub_ok (cols : list (list Z)) (s : subres) : Prop :=
  forall i p sc, nth_error (sr_snps s) i = Some p -> nth_error (sr_cols s) i = Some sc ->
    In undet sc \/ Permutation sc (restrict_col (sr_threads s) (nth p cols [])).

Record sub_wf (k n : nat) (s : subres) : Prop := {
  wf_tnd : NoDup (sr_threads s);
  wf_tlt : Forall (fun t => t < k) (sr_threads s);
  wf_snd : NoDup (sr_snps s);
  wf_slt : Forall (fun p => p < n) (sr_snps s);
  wf_len : length (sr_cols s) = length (sr_snps s);
  wf_cols : Forall (fun c => length c = length (sr_threads s)) (sr_cols s)
}.

Lemma nodupNb_spec : forall l, nodupNb l = true <-> NoDup l.
Proof.
  induction l as [| x t IH]; cbn [nodupNb].
  - split; [intros; constructor | reflexivity].
  - rewrite andb_true_iff, negb_true_iff, memN_false, IH. split.
    + intros [H1 H2]. constructor; assumption.
    + intros H. inversion H; subst. split; assumption.
Qed.

Lemma sub_wfb_spec : forall k n s, sub_wfb k n s = true -> sub_wf k n s.
Proof.
  intros k n s H. unfold sub_wfb in H.
  apply andb_true_iff in H; destruct H as [H Hf].
  apply andb_true_iff in H; destruct H as [H He].
  apply andb_true_iff in H; destruct H as [H Hd].
  apply andb_true_iff in H; destruct H as [H Hc].
  apply andb_true_iff in H; destruct H as [Ha Hb].
  constructor.
  - apply nodupNb_spec. exact Ha.
  - apply Forall_forall. intros t Ht. apply Nat.ltb_lt. rewrite forallb_forall in Hb. apply Hb. exact Ht.
  - apply nodupNb_spec. exact Hc.
  - apply Forall_forall. intros t Ht. apply Nat.ltb_lt. rewrite forallb_forall in Hd. apply Hd. exact Ht.
  - apply Nat.eqb_eq. exact He.
  - apply Forall_forall. intros c Hcin. apply Nat.eqb_eq. rewrite forallb_forall in Hf. apply Hf. exact Hcin.
Qed.

Definition cells_disjoint (a b : subres) : Prop :=
  (forall p, In p (sr_snps a) -> ~ In p (sr_snps b)) \/ (forall t, In t (sr_threads a) -> ~ In t (sr_threads b)).

Lemma cells_disjointb_spec : forall a b, cells_disjointb a b = true -> cells_disjoint a b.
Proof.
  intros a b H. unfold cells_disjointb in H. apply orb_true_iff in H. destruct H as [H | H]; [left | right];
    apply negb_true_iff in H; intros x Hx Hc.
  - assert (Hex : existsb (fun p => memN p (sr_snps b)) (sr_snps a) = true).
    { apply existsb_exists. exists x. split; [exact Hx | apply memN_In; exact Hc]. }
    congruence.
  - assert (Hex : existsb (fun t => memN t (sr_threads b)) (sr_threads a) = true).
    { apply existsb_exists. exists x. split; [exact Hx | apply memN_In; exact Hc]. }
    congruence.
Qed.

Fixpoint subs_disjoint (subs : list subres) : Prop :=
  match subs with
  | [] => True
  | s :: rest => Forall (cells_disjoint s) rest /\ subs_disjoint rest
  end.

Lemma subs_disjointb_spec : forall subs, subs_disjointb subs = true -> subs_disjoint subs.
Proof.
  induction subs as [| s rest IH]; cbn [subs_disjointb subs_disjoint]; intros H; [exact I |].
  apply andb_true_iff in H. destruct H as [H1 H2]. split; [| apply IH; exact H2].
  apply Forall_forall. intros b Hb. apply cells_disjointb_spec. eapply forallb_forall in H1; [exact H1 | exact Hb].
Qed.

Lemma restrict_col_ext : forall ts (c1 c2 : list Z),
  (forall t, In t ts -> nth t c1 undet = nth t c2 undet) -> restrict_col ts c1 = restrict_col ts c2.
Proof. intros ts c1 c2 H. unfold restrict_col. apply map_ext_in. exact H. Qed.

(* one sub-instance: the columns it touches keep their alleles (or get an undetermined one); cells outside are
   untouched *)
Lemma integrate_one_spec : forall k (cur : list (list Z)) s,
  Forall (fun c => length c = k) cur -> sub_wf k (length cur) s ->
  exists outs, integrate_one cur s = Some outs /\ length outs = length cur /\
    Forall (fun c => length c = k) outs /\
    (forall p, ~ In p (sr_snps s) -> nth p outs [] = nth p cur []) /\
    (forall p t, ~ In t (sr_threads s) -> nth t (nth p outs []) undet = nth t (nth p cur []) undet) /\
    (forall i p sc, nth_error (sr_snps s) i = Some p -> nth_error (sr_cols s) i = Some sc ->
       (In undet sc -> In undet (nth p outs [])) /\
       (Permutation sc (restrict_col (sr_threads s) (nth p cur [])) -> Permutation (nth p outs []) (nth p cur []))).
Proof.
  intros k cur s Hk Hwf. destruct Hwf as [Htnd Htlt Hsnodup Hslt Hlen Hcols]. unfold integrate_one.
  destruct (integrate_cols_spec k (sr_threads s) (sr_snps s) (sr_cols s) cur Htlt Hsnodup Hslt Hlen Hcols Hk)
    as [outs [Ho [Hl [Hok [Hother Hsame]]]]].
  exists outs. split; [exact Ho |]. split; [exact Hl |]. split; [exact Hok |]. split; [exact Hother |].
  assert (Hshape : forall i p sc, nth_error (sr_snps s) i = Some p -> nth_error (sr_cols s) i = Some sc ->
            length sc = length (sr_threads s) /\ p < length cur /\ length (nth p cur []) = k).
  { intros i p sc Hi Hs. split; [| split].
    - rewrite Forall_forall in Hcols. apply Hcols. eapply nth_error_In. exact Hs.
    - rewrite Forall_forall in Hslt. apply Hslt. eapply nth_error_In. exact Hi.
    - rewrite Forall_forall in Hk. apply Hk. apply nth_In. rewrite Forall_forall in Hslt. apply Hslt.
      eapply nth_error_In. exact Hi. }
  split.
  - intros p t Ht. destruct (in_dec Nat.eq_dec p (sr_snps s)) as [Hin | Hnin].
    + apply In_nth_error in Hin. destruct Hin as [i Hi].
      assert (Hsc : exists sc, nth_error (sr_cols s) i = Some sc).
      { destruct (nth_error (sr_cols s) i) eqn:E; [eauto |]. apply nth_error_None in E.
        assert (i < length (sr_snps s)) by (apply nth_error_Some; congruence). lia. }
      destruct Hsc as [sc Hsc]. rewrite (Hsame i p sc Hi Hsc).
      destruct (Hshape i p sc Hi Hsc) as [Hlsc _].
      apply write_seq_other. rewrite map_fst_combine_eq by lia. exact Ht.
    + rewrite Hother by exact Hnin. reflexivity.
  - intros i p sc Hi Hs. rewrite (Hsame i p sc Hi Hs).
    destruct (Hshape i p sc Hi Hs) as [Hlsc [Hp Hcolk]].
    set (col := nth p cur []) in *. set (ivs := combine (sr_threads s) sc).
    assert (Hfst : map fst ivs = sr_threads s) by (unfold ivs; apply map_fst_combine_eq; lia).
    assert (Hsnd : map snd ivs = sc) by (unfold ivs; apply map_snd_combine_eq; lia).
    assert (Hnd : NoDup (map fst ivs)) by (rewrite Hfst; exact Htnd).
    assert (Hlt : Forall (fun i0 => i0 < length col) (map fst ivs)) by (rewrite Hfst, Hcolk; exact Htlt).
    split.
    + intros Hu. apply write_seq_In_new; [exact Hnd | exact Hlt | rewrite Hsnd; exact Hu].
    + intros Hperm. pose proof (write_seq_perm Z ivs col undet Hnd Hlt) as Hw. rewrite Hsnd in Hw.
      assert (Hold : map (fun iv : nat * Z => nth (fst iv) col undet) ivs = restrict_col (sr_threads s) col).
      { unfold restrict_col. rewrite <- Hfst, map_map. reflexivity. }
      rewrite Hold in Hw.
      assert (H2 : Permutation (write_seq col ivs ++ restrict_col (sr_threads s) col)
                               (col ++ restrict_col (sr_threads s) col)).
      { eapply perm_trans; [exact Hw |]. apply Permutation_app_head. exact Hperm. }
      apply Permutation_app_inv_r in H2. exact H2.
Qed.

(* sub_results_preserve: writing the solved sub-instances back only permutes the alleles among the haplotypes of a
   position (or leaves an undetermined allele there), by induction over the sub-instances with the invariant that the
   cells of the sub-instances still to come are untouched *)
Theorem sub_results_preserve : forall k (cols : list (list Z)) subs,
  Forall (fun c => length c = k) cols ->
  Forall (sub_wf k (length cols)) subs -> subs_disjoint subs -> Forall (sub_ok cols) subs ->
  exists outs, integrate cols subs = Some outs /\ length outs = length cols /\
    Forall (fun c => length c = k) outs /\
    forall p, p < length cols -> In undet (nth p outs []) \/ Permutation (nth p outs []) (nth p cols []).
Proof.
  intros k cols subs Hk Hwf Hdis Hok.
  assert (Hgen : forall cur,
    length cur = length cols -> Forall (fun c => length c = k) cur ->
    (forall p, p < length cols -> In undet (nth p cur []) \/ Permutation (nth p cur []) (nth p cols [])) ->
    (forall s, In s subs -> forall p, In p (sr_snps s) ->
        restrict_col (sr_threads s) (nth p cur []) = restrict_col (sr_threads s) (nth p cols [])) ->
    exists outs, integrate cur subs = Some outs /\ length outs = length cols /\
      Forall (fun c => length c = k) outs /\
      forall p, p < length cols -> In undet (nth p outs []) \/ Permutation (nth p outs []) (nth p cols [])).
  { induction subs as [| s rest IH]; intros cur Hlen Hcurk Hinv Hcells; cbn [integrate].
    - exists cur. auto.
    - inversion Hwf as [| x xs Hs Hwf']; subst. destruct Hdis as [Hds Hdis']. inversion Hok as [| x xs Hoks Hok']; subst.
      rewrite <- Hlen in Hs.
      destruct (integrate_one_spec k cur s Hcurk Hs) as [mid [Hm [Hml [Hmk [Hother [Hthr Hcell]]]]]].
      rewrite Hm. apply (IH Hwf' Hdis' Hok' mid).
      + lia.
      + exact Hmk.
      + intros p Hp. destruct (in_dec Nat.eq_dec p (sr_snps s)) as [Hin | Hnin].
        * apply In_nth_error in Hin. destruct Hin as [i Hi].
          assert (Hsc : exists sc, nth_error (sr_cols s) i = Some sc).
          { destruct (nth_error (sr_cols s) i) eqn:E; [eauto |]. apply nth_error_None in E.
            assert (i < length (sr_snps s)) by (apply nth_error_Some; congruence).
            destruct Hs as [_ _ _ _ Hl _]. lia. }
          destruct Hsc as [sc Hsc]. destruct (Hcell i p sc Hi Hsc) as [Hc1 Hc2].
          destruct (Hoks i p sc Hi Hsc) as [Hu | Hperm].
          -- left. apply Hc1. exact Hu.
          -- rewrite <- (Hcells s (or_introl eq_refl) p (nth_error_In _ _ Hi)) in Hperm.
             specialize (Hc2 Hperm). destruct (Hinv p Hp) as [Hu | Hpc].
             ++ left. eapply Permutation_in; [apply Permutation_sym; exact Hc2 | exact Hu].
             ++ right. eapply perm_trans; [exact Hc2 | exact Hpc].
        * rewrite Hother by exact Hnin. apply Hinv. exact Hp.
      + intros s' Hs' p Hp.
        rewrite <- (Hcells s' (or_intror Hs') p Hp).
        rewrite Forall_forall in Hds. destruct (Hds s' Hs') as [Hdp | Hdt].
        * rewrite Hother; [reflexivity |]. intros Hc. apply (Hdp p Hc). exact Hp.
        * apply restrict_col_ext. intros t Ht. apply Hthr. intros Hc. apply (Hdt t Hc). exact Ht. }
  apply Hgen; auto.
Qed.

(* ------------------------------------------------------------------------------------------ aggregate *)
(* sortedness as a Prop: every element is <= all later ones *)
Fixpoint sortedP (l : list nat) : Prop :=
  match l with
  | [] => True
  | x :: t => (forall y, In y t -> x <= y) /\ sortedP t
  end.

Lemma nondecN_sortedP : forall l, nondecN l = true <-> sortedP l.
Proof.
  induction l as [| x t IH]; [cbn; tauto |].
  destruct t as [| y u].
  - cbn [nondecN sortedP]. split; [intros _; split; [intros y [] | exact I] | reflexivity].
  - change (nondecN (x :: y :: u)) with ((x <=? y) && nondecN (y :: u)).
    rewrite andb_true_iff, Nat.leb_le, IH. cbn [sortedP]. split.
    + intros [Hxy [Hy Hu]]. split; [| split; assumption].
      intros z [Hz | Hz]; [subst; exact Hxy |]. specialize (Hy z Hz). lia.
    + intros [Hx Hrest]. split; [apply Hx; left; reflexivity | exact Hrest].
Qed.

Lemma sortedP_app : forall a b, sortedP a -> sortedP b -> (forall x y, In x a -> In y b -> x <= y) -> sortedP (a ++ b).
Proof.
  induction a as [| x t IH]; intros b Ha Hb Hab; cbn [app]; [exact Hb |].
  cbn [sortedP] in *. destruct Ha as [Hx Ht]. split.
  - intros y Hy. apply in_app_or in Hy. destruct Hy as [Hy | Hy]; [apply Hx; exact Hy | apply Hab; [left; reflexivity | exact Hy]].
  - apply IH; [exact Ht | exact Hb |]. intros x' y' Hx' Hy'. apply Hab; [right; exact Hx' | exact Hy'].
Qed.

Lemma sortedP_map_add : forall l off, sortedP l -> sortedP (map (fun x => x + off) l).
Proof.
  induction l as [| x t IH]; intros off H; cbn [map sortedP] in *; [exact I |].
  destruct H as [Hx Ht]. split; [| apply IH; exact Ht].
  intros y Hy. apply in_map_iff in Hy. destruct Hy as [z [Hz Hzin]]. subst. specialize (Hx z Hzin). lia.
Qed.

(* a block result as the theorem needs it: at least one column; its breakpoints sorted and inside the block *)
Definition block_wf (r : blockres) : Prop :=
  fst r <> [] /\ sortedP (map fst (snd r)) /\ Forall (fun b => fst b < length (fst r)) (snd r).

Lemma aggregate_from_spec : forall borders rs off,
  Forall block_wf rs ->
  let out := aggregate_from off borders rs in
  fst out = concat (map fst rs) /\ sortedP (map fst (snd out)) /\
  (forall x, In x (map fst (snd out)) -> off <= x).
Proof.
  intros borders rs. induction rs as [| r rest IH]; intros off Hwf; cbn [aggregate_from].
  - cbn. split; [reflexivity |]. split; [exact I | intros x []].
  - destruct r as [cols bps]. inversion Hwf as [| x xs [Hne [Hs Hin]] Hwf']; subst. cbn [fst snd] in *.
    specialize (IH (off + length cols) Hwf'). cbn zeta in IH. destruct IH as [IH1 [IH2 IH3]].
    cbn [map concat fst snd]. split; [rewrite IH1; reflexivity |].
    set (here := if (match borders with [] => true | _ :: _ => false end || memN off borders || (off =? 0))
                 then [(off, true)] else []).
    assert (Hhere : forall x, In x (map fst here) -> x = off).
    { unfold here. destruct (match borders with [] => true | _ :: _ => false end || memN off borders || (off =? 0));
        cbn [map fst In]; intros x Hx; [destruct Hx as [Hx | []]; auto | contradiction]. }
    assert (Hshift : forall x, In x (map fst (map (fun b : nat * bool => (fst b + off, snd b)) bps)) ->
                       off <= x /\ x < off + length cols).
    { intros x Hx. rewrite map_map in Hx. cbn [fst] in Hx. apply in_map_iff in Hx. destruct Hx as [b [Hb Hbin]].
      rewrite Forall_forall in Hin. specialize (Hin b Hbin). lia. }
    rewrite !map_app. split.
    + apply sortedP_app.
      * unfold here. destruct (match borders with [] => true | _ :: _ => false end || memN off borders || (off =? 0));
          cbn [map fst sortedP]; [split; [intros y [] | exact I] | exact I].
      * apply sortedP_app.
        -- rewrite map_map. cbn [fst]. rewrite <- (map_map fst (fun x => x + off)). apply sortedP_map_add. exact Hs.
        -- exact IH2.
        -- intros x y Hx Hy. apply Hshift in Hx. apply IH3 in Hy. lia.
      * intros x y Hx Hy. apply Hhere in Hx. subst x. apply in_app_or in Hy. destruct Hy as [Hy | Hy].
        -- apply Hshift in Hy. lia.
        -- apply IH3 in Hy. lia.
    + intros x Hx. apply in_app_or in Hx. destruct Hx as [Hx | Hx]; [apply Hhere in Hx; lia |].
      apply in_app_or in Hx. destruct Hx as [Hx | Hx]; [apply Hshift in Hx; lia | apply IH3 in Hx; lia].
Qed.

(* aggregate_results: columns are concatenated unchanged; the breakpoint list is sorted and starts with the
   zero-confidence breakpoint at 0 *)
Theorem aggregate_sorted_from_zero : forall borders rs,
  rs <> [] -> Forall block_wf rs ->
  let out := aggregate borders rs in
  fst out = concat (map fst rs) /\ nondecN (map fst (snd out)) = true /\ exists rest, snd out = (0, true) :: rest.
Proof.
  intros borders rs Hne Hwf. cbn zeta. unfold aggregate.
  destruct (aggregate_from_spec borders rs 0 Hwf) as [H1 [H2 H3]]. split; [exact H1 |]. split; [apply nondecN_sortedP; exact H2 |].
  destruct rs as [| [cols bps] rest]; [contradiction |]. cbn [aggregate_from snd].
  rewrite Nat.eqb_refl, orb_true_r. cbn [app]. eexists. reflexivity.
Qed.

(* --------------------------------------------------------------------------------------------- cuts *)
Fixpoint strictly_decP (l : list nat) : Prop :=
  match l with
  | [] => True
  | x :: t => (forall y, In y t -> y < x) /\ strictly_decP t
  end.

Fixpoint strictly_incP (l : list nat) : Prop :=
  match l with
  | [] => True
  | x :: t => (forall y, In y t -> x < y) /\ strictly_incP t
  end.

Lemma strictly_incN_spec : forall l, strictly_incN l = true <-> strictly_incP l.
Proof.
  induction l as [| x t IH]; [cbn; tauto |].
  destruct t as [| y u].
  - cbn [strictly_incN strictly_incP]. split; [intros _; split; [intros y [] | exact I] | reflexivity].
  - change (strictly_incN (x :: y :: u)) with ((x <? y) && strictly_incN (y :: u)).
    rewrite andb_true_iff, Nat.ltb_lt, IH. cbn [strictly_incP]. split.
    + intros [Hxy [Hy Hu]]. split; [| split; assumption].
      intros z [Hz | Hz]; [subst; exact Hxy |]. specialize (Hy z Hz). lia.
    + intros [Hx Hrest]. split; [apply Hx; left; reflexivity | exact Hrest].
Qed.

Lemma strictly_incP_app1 : forall l x, strictly_incP l -> (forall y, In y l -> y < x) -> strictly_incP (l ++ [x]).
Proof.
  induction l as [| z u IH]; intros x Hl Hx; cbn [app strictly_incP] in *.
  - split; [intros y [] | exact I].
  - destruct Hl as [Hz Hu]. split.
    + intros y Hy. apply in_app_or in Hy. destruct Hy as [Hy | [Hy | []]]; [apply Hz; exact Hy | subst; apply Hx; left; reflexivity].
    + apply IH; [exact Hu |]. intros y Hy. apply Hx. right. exact Hy.
Qed.

Lemma strictly_decP_rev : forall l, strictly_decP l -> strictly_incP (rev l).
Proof.
  induction l as [| x t IH]; intros H; cbn [rev]; [exact I |]. cbn [strictly_decP] in H. destruct H as [Hx Ht].
  apply strictly_incP_app1; [apply IH; exact Ht |]. intros y Hy. apply Hx. apply in_rev. exact Hy.
Qed.

Lemma cuts_loop_spec : forall sens dec bps idx rcuts,
  sortedP (map fst bps) -> strictly_decP rcuts ->
  (forall c p, In c rcuts -> In p (map fst bps) -> c <= p) ->
  let cuts := cuts_loop sens dec bps idx rcuts in
  strictly_incP cuts /\ (forall c, In c cuts -> In c rcuts \/ In c (map fst bps)) /\
  exists more, cuts = rev rcuts ++ more.
Proof.
  intros sens dec bps. induction bps as [| [pos zero] rest IH]; intros idx rcuts Hs Hd Hle; cbn zeta; cbn [cuts_loop].
  - split; [apply strictly_decP_rev; exact Hd |]. split; [intros c Hc; left; apply in_rev; exact Hc |].
    exists []. rewrite app_nil_r. reflexivity.
  - cbn [map fst sortedP] in Hs. destruct Hs as [Hpos Hs].
    assert (Hle' : forall c p, In c rcuts -> In p (map fst rest) -> c <= p).
    { intros c p Hc Hp. apply Hle; [exact Hc | right; exact Hp]. }
    assert (Hskip : let cuts := cuts_loop sens dec rest (S idx) rcuts in
              strictly_incP cuts /\ (forall c, In c cuts -> In c rcuts \/ In c (map fst ((pos, zero) :: rest))) /\
              exists more, cuts = rev rcuts ++ more).
    { destruct (IH (S idx) rcuts Hs Hd Hle') as [H1 [H2 H3]]. cbn zeta. split; [exact H1 |]. split; [| exact H3].
      intros c Hc. destruct (H2 c Hc); [left; assumption | right; right; assumption]. }
    assert (Hstop : let cuts := rev rcuts in
              strictly_incP cuts /\ (forall c, In c cuts -> In c rcuts \/ In c (map fst ((pos, zero) :: rest))) /\
              exists more, cuts = rev rcuts ++ more).
    { cbn zeta. split; [apply strictly_decP_rev; exact Hd |]. split; [intros c Hc; left; apply in_rev; exact Hc |].
      exists []. rewrite app_nil_r. reflexivity. }
    assert (Hcut : (forall c, In c rcuts -> c < pos) ->
              let cuts := cuts_loop sens dec rest (S idx) (pos :: rcuts) in
              strictly_incP cuts /\ (forall c, In c cuts -> In c rcuts \/ In c (map fst ((pos, zero) :: rest))) /\
              exists more, cuts = rev rcuts ++ more).
    { intros Hlt. destruct (IH (S idx) (pos :: rcuts) Hs) as [H1 [H2 [more H3]]].
      - cbn [strictly_decP]. split; [exact Hlt | exact Hd].
      - intros c p [Hc | Hc] Hp; [subst; apply Hpos; exact Hp | apply Hle'; assumption].
      - cbn zeta. split; [exact H1 |]. split.
        + intros c Hc. destruct (H2 c Hc) as [[Hh | Hh] | Hh]; [right; left; exact Hh | left; exact Hh | right; right; exact Hh].
        + exists (pos :: more). rewrite H3. cbn [rev]. rewrite <- app_assoc. reflexivity. }
    destruct rcuts as [| last rc].
    + destruct (decide sens dec idx zero); [apply Hcut; intros c [] | exact Hskip].
    + destruct (Nat.eqb last pos) eqn:E; [exact Hskip |].
      destruct (Nat.eqb sens 0); [exact Hstop |].
      destruct (decide sens dec idx zero); [| exact Hskip].
      apply Hcut. apply Nat.eqb_neq in E.
      assert (Hlp : last <= pos) by (apply Hle; [left; reflexivity | left; reflexivity]).
      intros c [Hc | Hc]; [subst; lia |]. cbn [strictly_decP] in Hd. destruct Hd as [Hd _]. specialize (Hd c Hc). lia.
Qed.

(* the cut list is strictly increasing, starts at 0 and consists of breakpoint positions - for every sensitivity and
   EVERY outcome of the float threshold test *)
Theorem cuts_sorted_start_at_zero : forall sens dec rest,
  nondecN (map fst ((0, true) :: rest)) = true ->
  let cuts := compute_cuts sens dec ((0, true) :: rest) in
  cuts_okb cuts = true /\ forall c, In c cuts -> In c (map fst ((0, true) :: rest)).
Proof.
  intros sens dec rest Hs. cbn zeta. unfold compute_cuts. cbn [cuts_loop decide].
  apply nondecN_sortedP in Hs. cbn [map fst sortedP] in Hs. destruct Hs as [H0 Hs].
  destruct (cuts_loop_spec sens dec rest 1 [0] Hs) as [H1 [H2 [more H3]]].
  - cbn [strictly_decP]. split; [intros y [] | exact I].
  - intros c p [Hc | []] Hp. subst. lia.
  - cbn zeta in *. split.
    + unfold cuts_okb. rewrite H3. cbn [rev app]. rewrite H3 in H1. cbn [rev app] in H1.
      rewrite andb_true_r. apply strictly_incN_spec. exact H1.
    + intros c Hc. destruct (H2 c Hc) as [[Hh | []] | Hh]; [left; exact Hh | right; exact Hh].
Qed.

(* --------------------------------------------------------------------------------------- components *)
Local Open Scope Z_scope.

Lemma strictly_incZ_lt : forall acc, strictly_incZ acc = true ->
  forall p q a b, (p < q)%nat -> nth_error acc p = Some a -> nth_error acc q = Some b -> a < b.
Proof.
  induction acc as [| x t IH]; intros H p q a b Hpq Hp Hq; [destruct p; discriminate |].
  assert (Ht : strictly_incZ t = true).
  { destruct t as [| y u]; [reflexivity |]. change (strictly_incZ (x :: y :: u)) with ((x <? y) && strictly_incZ (y :: u)) in H.
    apply andb_true_iff in H. tauto. }
  assert (Hhd : forall j c, nth_error t j = Some c -> x < c).
  { clear Hp Hq Hpq p q a b. revert x H. induction t as [| y u IHu]; intros x H j c Hj; [destruct j; discriminate |].
    change (strictly_incZ (x :: y :: u)) with ((x <? y) && strictly_incZ (y :: u)) in H.
    apply andb_true_iff in H. destruct H as [Hxy Hyu]. apply Z.ltb_lt in Hxy.
    destruct j as [| j']; cbn [nth_error] in Hj.
    - inversion Hj; subst. exact Hxy.
    - pose proof (IH Ht 0%nat (S j') y c ltac:(lia) eq_refl Hj) as Hyc. lia. }
  destruct q as [| q']; [lia |]. cbn [nth_error] in Hq.
  destruct p as [| p']; cbn [nth_error] in Hp.
  - inversion Hp; subst. eapply Hhd. exact Hq.
  - eapply (IH Ht p' q'); [lia | exact Hp | exact Hq].
Qed.

Lemma lookup_cons_ne : forall k v m key, k <> key -> lookup ((k, v) :: m) key = lookup m key.
Proof. intros k v m key H. cbn [lookup]. destruct (Z.eqb k key) eqn:E; [apply Z.eqb_eq in E; contradiction | reflexivity]. Qed.

Lemma lookup_cons_eq : forall k v m, lookup ((k, v) :: m) k = Some v.
Proof. intros. cbn [lookup]. rewrite Z.eqb_refl. reflexivity. Qed.

Lemma fill_block_spec : forall acc name, strictly_incZ acc = true ->
  forall len s m, (s + len <= length acc)%nat ->
  exists m', fill_block acc name (seq s len) m = Some m' /\
    (forall p a, (p < s)%nat -> nth_error acc p = Some a -> lookup m' a = lookup m a) /\
    (forall p a, (s <= p < s + len)%nat -> nth_error acc p = Some a -> lookup m' a = Some name).
Proof.
  intros acc name Hinc. induction len as [| len IH]; intros s m Hle; cbn [seq fill_block].
  - exists m. split; [reflexivity |]. split; [reflexivity | intros; lia].
  - destruct (nth_error acc s) as [a_s |] eqn:Es; [| apply nth_error_None in Es; lia].
    destruct (IH (S s) ((a_s + 1, name) :: (a_s, name) :: m)) as [m' [Hm' [H1 H2]]]; [lia |].
    exists m'. split; [exact Hm' |]. split.
    + intros p a Hp Ha. rewrite (H1 p a) by (try lia; exact Ha).
      pose proof (strictly_incZ_lt acc Hinc p s a a_s Hp Ha Es) as Hlt.
      rewrite !lookup_cons_ne by lia. reflexivity.
    + intros p a Hp Ha. destruct (Nat.eq_dec p s) as [Heq | Hne].
      * subst p. rewrite Es in Ha. inversion Ha; subst a. rewrite (H1 s a_s) by (try lia; exact Es).
        rewrite lookup_cons_ne by lia. apply lookup_cons_eq.
      * apply (H2 p a); [lia | exact Ha].
Qed.

(* the block an index belongs to, given the extended cut list *)
Fixpoint start_of (ext : list nat) (p : nat) : option nat :=
  match ext with
  | s :: ((e :: _) as rest) => if (s <=? p)%nat && (p <? e)%nat then Some s else start_of rest p
  | _ => None
  end.

Lemma components_from_spec : forall acc, strictly_incZ acc = true ->
  forall ext m, strictly_incP ext -> Forall (fun x => (x <= length acc)%nat) ext ->
  exists m', components_from acc ext m = Some m' /\
    (forall p a, (forall s, hd_error ext = Some s -> (p < s)%nat) -> nth_error acc p = Some a -> lookup m' a = lookup m a) /\
    (forall p a c, start_of ext p = Some c -> nth_error acc p = Some a ->
       exists name, nth_error acc c = Some name /\ lookup m' a = Some name).
Proof.
  intros acc Hinc. induction ext as [| s rest IH]; intros m Hs Hle.
  - exists m. split; [reflexivity |]. split; [reflexivity | intros; discriminate].
  - destruct rest as [| e rest'].
    + exists m. split; [reflexivity |]. split; [reflexivity | intros; discriminate].
    + cbn [strictly_incP] in Hs. destruct Hs as [Hse Hs']. inversion Hle as [| x xs Hsn Hle']; subst.
      inversion Hle' as [| x xs Hen _]; subst.
      assert (Hlt : (s < e)%nat) by (apply Hse; left; reflexivity).
      change (components_from acc (s :: e :: rest') m) with
        (if (s <? e)%nat then
           match nth_error acc s with
           | Some name => match fill_block acc name (seq s (e - s)) m with
                          | Some m' => components_from acc (e :: rest') m'
                          | None => None
                          end
           | None => None
           end
         else components_from acc (e :: rest') m).
      replace (s <? e)%nat with true by (symmetry; apply Nat.ltb_lt; exact Hlt).
      destruct (nth_error acc s) as [name |] eqn:Es; [| apply nth_error_None in Es; lia].
      destruct (fill_block_spec acc name Hinc (e - s) s m) as [m1 [Hm1 [F1 F2]]]; [lia |].
      rewrite Hm1. destruct (IH m1 Hs' Hle') as [m' [Hm' [G1 G2]]].
      exists m'. split; [exact Hm' |]. split.
      * intros p a Hp Ha. specialize (Hp s eq_refl). rewrite (G1 p a); [| intros s0 Hs0; inversion Hs0; subst; lia | exact Ha].
        apply (F1 p a); [exact Hp | exact Ha].
      * intros p a c Hc Ha. cbn [start_of] in Hc. destruct ((s <=? p)%nat && (p <? e)%nat) eqn:E.
        -- inversion Hc; subst c. apply andb_true_iff in E. destruct E as [E1 E2].
           apply Nat.leb_le in E1. apply Nat.ltb_lt in E2.
           exists name. split; [exact Es |]. rewrite (G1 p a); [| intros s0 Hs0; inversion Hs0; subst; lia | exact Ha].
           apply (F2 p a); [lia | exact Ha].
        -- apply (G2 p a c Hc Ha).
Qed.

Lemma start_of_last_cut : forall cuts n p,
  strictly_incP (cuts ++ [n]) -> (exists c0 rest, cuts = c0 :: rest /\ (c0 <= p)%nat) -> (p < n)%nat ->
  exists c, start_of (cuts ++ [n]) p = Some c /\ In c cuts /\ (c <= p)%nat /\
            forall c', In c' cuts -> (c' <= p)%nat -> (c' <= c)%nat.
Proof.
  induction cuts as [| c0 rest IH]; intros n p Hs [c0' [rest' [Heq H0]]] Hp; [discriminate |].
  inversion Heq; subst c0' rest'. destruct rest as [| c1 rest''].
  - cbn [app start_of]. replace ((c0 <=? p)%nat && (p <? n)%nat) with true.
    + exists c0. split; [reflexivity |]. split; [left; reflexivity |]. split; [exact H0 |].
      intros c' [Hc' | []] _. subst. lia.
    + symmetry. apply andb_true_iff. split; [apply Nat.leb_le; exact H0 | apply Nat.ltb_lt; exact Hp].
  - cbn [app] in Hs |- *. cbn [strictly_incP] in Hs. destruct Hs as [Hc0 Hs'].
    cbn [start_of]. destruct ((c0 <=? p)%nat && (p <? c1)%nat) eqn:E.
    + apply andb_true_iff in E. destruct E as [_ E2]. apply Nat.ltb_lt in E2.
      exists c0. split; [reflexivity |]. split; [left; reflexivity |]. split; [exact H0 |].
      intros c' [Hc' | Hc'] Hle; [subst; lia |].
      assert (Hc1 : (c1 <= c')%nat).
      { destruct Hc' as [Hc' | Hc']; [subst; lia |]. cbn [strictly_incP] in Hs'. destruct Hs' as [Hc1 _].
        assert (c1 < c')%nat by (apply Hc1; apply in_or_app; left; exact Hc'). lia. }
      lia.
    + assert (Hc1p : (c1 <= p)%nat).
      { apply andb_false_iff in E. destruct E as [E | E]; [apply Nat.leb_gt in E; lia | apply Nat.ltb_ge in E; exact E]. }
      destruct (IH n p Hs') as [c [Hc [Hin [Hcp Hmax]]]]; [exists c1, rest''; split; [reflexivity | exact Hc1p] | exact Hp |].
      exists c. split; [exact Hc |]. split; [right; exact Hin |]. split; [exact Hcp |].
      intros c' [Hc' | Hc'] Hle; [| apply Hmax; assumption].
      subst c'. assert (c0 < c1)%nat by (apply Hc0; left; reflexivity).
      assert (c1 <= c)%nat by (apply Hmax; [left; reflexivity | exact Hc1p]). lia.
Qed.

Lemma cuts_okb_spec : forall cuts, cuts_okb cuts = true -> strictly_incP cuts /\ exists rest, cuts = 0%nat :: rest.
Proof.
  intros cuts H. unfold cuts_okb in H. apply andb_true_iff in H. destruct H as [H1 H2].
  split; [apply strictly_incN_spec; exact H1 |]. destruct cuts as [| [| c] rest]; try discriminate. eauto.
Qed.

(* components_are_intervals: with a strictly increasing, 0-based cut list every read-covered variant gets as its
   phase-set name the position of the variant at the LAST cut that is <= its index: phase sets are the index intervals
   [cut_i, cut_{i+1}), disjoint by construction, each named by the first variant of the interval *)
Theorem components_are_intervals : forall acc cuts,
  strictly_incZ acc = true -> cuts_okb cuts = true -> Forall (fun c => (c < length acc)%nat) cuts ->
  exists m, components acc cuts = Some m /\
    forall p a, nth_error acc p = Some a ->
      exists c name, In c cuts /\ (c <= p)%nat /\ (forall c', In c' cuts -> (c' <= p)%nat -> (c' <= c)%nat) /\
                     nth_error acc c = Some name /\ lookup m a = Some name.
Proof.
  intros acc cuts Hinc Hok Hlt. destruct (cuts_okb_spec cuts Hok) as [Hsi [rest Hc0]].
  assert (Hext : strictly_incP (cuts ++ [length acc])).
  { apply strictly_incP_app1; [exact Hsi |]. rewrite Forall_forall in Hlt. exact Hlt. }
  assert (Hle : Forall (fun x => (x <= length acc)%nat) (cuts ++ [length acc])).
  { apply Forall_app. split; [| constructor; [lia | constructor]].
    eapply Forall_impl; [| exact Hlt]. intros; cbn in *; lia. }
  unfold components. destruct (components_from_spec acc Hinc (cuts ++ [length acc]) [] Hext Hle) as [m [Hm [_ H2]]].
  exists m. split; [exact Hm |]. intros p a Ha.
  assert (Hp : (p < length acc)%nat) by (apply nth_error_Some; congruence).
  destruct (start_of_last_cut cuts (length acc) p Hext) as [c [Hc [Hin [Hcp Hmax]]]];
    [exists 0%nat, rest; split; [exact Hc0 | lia] | exact Hp |].
  destruct (H2 p a c Hc Ha) as [name [Hn Hl]].
  exists c, name. repeat split; assumption.
Qed.
