(* Lemmas about the phase encoders / decoders of coq/model/VcfRecord.v (used by props/C09.v). *)
From Coq Require Import ZArith List Bool Arith Lia Permutation.
From WH.Model Require Import VcfRecord.
From WH.Proofs Require Import VcfRecordProofs.
Import ListNotations.
Open Scope Z_scope.

(* the phase object a statement (block, alleles) decodes to; whatshap writes no phasing quality *)
Definition lift (q : option token) (e : option (Z * list nat)) : option dphase :=
  option_map (fun bp => mkPhase (Some (fst bp)) (map Some (snd bp)) q) e.

Lemma forallb_allele_map a t :
  forallb (allele_eqb (Some a)) (map Some t) = forallb (Nat.eqb a) t.
Proof. induction t as [|b t IH]; cbn; [reflexivity|]. rewrite IH. reflexivity. Qed.

(* ------------------------------------------------------------------ decode . encode, PS *)
Theorem decode_encode_PS c comp ph :
  ph <> [] -> is_homozygous ph = false ->
  decode_PS true (set_PS c comp ph) = Ok (Some (mkPhase (Some (comp + 1)) (map Some ph) (pq c))).
Proof.
  intros Hne Hh. unfold decode_PS, set_PS. cbn [phased gt ps pq set_ps set_gt negb].
  destruct ph as [|a t]; [congruence|]. cbn [map]. cbn in Hh.
  rewrite forallb_allele_map, Hh. reflexivity.
Qed.

(* ------------------------------------------------------------------ decode . encode, HP *)
Lemma het01 cf ph :
  mav cf = false -> allowed cf ph = true -> length ph = 2%nat -> is_homozygous (sort_asc ph) = false ->
  ph = [0; 1]%nat \/ ph = [1; 0]%nat.
Proof.
  intros Hm Ha Hl Hh. unfold allowed in Ha. rewrite Hm in Ha. cbn in Ha.
  apply andb_prop in Ha. destruct Ha as [_ Ha].
  destruct ph as [|a [|b [|]]]; try discriminate. cbn in Ha.
  rewrite is_homozygous_sort in Hh. cbn in Hh.
  apply andb_prop in Ha. destruct Ha as [Ha Hb]. apply andb_prop in Hb. destruct Hb as [Hb _].
  apply Nat.leb_le in Ha, Hb. rewrite andb_true_r in Hh. apply Nat.eqb_neq in Hh.
  destruct a as [|[|a]], b as [|[|b]]; try lia; auto.
Qed.

Theorem decode_encode_HP guard c comp ph :
  guard = orig_guard \/ guard = fix_guard ->
  gt c = Some [Some 0; Some 1]%nat ->
  ph = [0; 1]%nat \/ ph = [1; 0]%nat ->
  decode_HP guard (set_HP c comp ph) = Ok (Some (mkPhase (Some (comp + 1)) (map Some ph) (pq c))).
Proof.
  intros Hg Hgt Hph. unfold decode_HP, set_HP. cbn [hp gt pq set_hp]. rewrite Hgt.
  destruct Hph as [-> | ->]; destruct Hg as [-> | ->]; cbn; rewrite !Z.eqb_refl; cbn;
    replace (comp + 1 =? comp + 1) with true by (symmetry; apply Z.eqb_refl); reflexivity.
Qed.

(* the current encoder, by contrast, on a descending GT: the HP statement decodes to the flipped phase *)
Theorem decode_encode_HP_descending guard c comp :
  guard = orig_guard \/ guard = fix_guard ->
  gt c = Some [Some 1; Some 0]%nat ->
  decode_HP guard (set_HP c comp [0; 1]%nat) = Ok (Some (mkPhase (Some (comp + 1)) [Some 1; Some 0]%nat (pq c))).
Proof.
  intros Hg Hgt. unfold decode_HP, set_HP. cbn [hp gt pq set_hp]. rewrite Hgt.
  destruct Hg as [-> | ->]; cbn; rewrite !Z.eqb_refl; cbn; reflexivity.
Qed.

(* ------------------------------------------------------------------ the repaired writer step *)
Definition written_t (cf : cfg) (t : target) (p : Z) : option (Z * list nat) :=
  match phase_at cf t p, dict_get p (t_comp t) with
  | Some ph, Some c => if is_homozygous (sort_asc ph) then None else Some (c + 1, ph)
  | _, _ => None
  end.

Lemma written_target cf ts i p t : target_of ts i = Some t -> written cf ts i p = written_t cf t p.
Proof. intros H. unfold written, written_t. rewrite H. reflexivity. Qed.

Lemma written_none cf ts i p : target_of ts i = None -> written cf ts i p = None.
Proof. intros H. unfold written. rewrite H. reflexivity. Qed.

(* both statements of a call, as the decoders see them *)
Definition stmts_exact (tg : tagk) (c : call) (e : option (Z * list nat)) : Prop :=
  match tg with
  | TagPS => decode_PS true c = Ok (lift None e) /\ decode_HP fix_guard c = Ok None
  | TagHP => decode_HP fix_guard c = Ok (lift None e) /\ decode_PS true c = Ok None
  end.

Lemma decode_PS_unphased k c g :
  gt c = Some g -> g <> [] -> phased c = unph g -> decode_PS k c = Ok None.
Proof.
  intros Hg Hne Hp. unfold decode_PS. rewrite Hp, Hg. unfold unph.
  destruct g as [|a [|b g]]; [congruence| |]; cbn; reflexivity.
Qed.

Lemma decode_HP_cleared c : hp c = None \/ hp c = Some [HPdot] -> decode_HP fix_guard c = Ok None.
Proof. intros [H|H]; unfold decode_HP; rewrite H; reflexivity. Qed.

Lemma fix_rm_facts tg c0 l :
  gt c0 = Some l ->
  let c := fix_rm tg c0 in
  ps c = None /\ pq c = None /\ (hp c = None \/ hp c = Some [HPdot]) /\ phased c = unph l /\
  exists g, gt c = Some g /\ length g = length l /\
            (forall ns, all_called l = Some ns -> g = map Some (sort_asc ns)) /\
            (all_called l = None -> g = l).
Proof.
  intros Hg. cbn zeta. unfold fix_rm.
  destruct (clear_hp_facts (set_ps (unphase_call c0) None)) as [_ [G [P [S [Q _]]]]].
  cbn [ps pq hp gt phased set_pq]. rewrite G, P, S. cbn [set_ps ps gt phased].
  split; [reflexivity|]. split; [reflexivity|]. split.
  { unfold clear_hp. destruct (hp (set_ps (unphase_call c0) None)) eqn:E; cbn; rewrite ?E; auto. }
  unfold unphase_call. rewrite Hg.
  destruct (all_called l) as [ns|] eqn:Ea; cbn [gt phased set_gt set_phased].
  - split; [reflexivity|]. eexists. split; [reflexivity|]. split.
    + rewrite map_length, sort_asc_length. apply all_called_Some in Ea. subst l. rewrite map_length. reflexivity.
    + split; [intros ns' H; inversion H; reflexivity|discriminate].
  - split; [reflexivity|]. exists l. rewrite Hg. split; [reflexivity|]. split; [reflexivity|].
    split; [discriminate|reflexivity].
Qed.

Lemma genotype_code_Some_sorted ns : genotype_code (Some (map Some (sort_asc ns))) = sort_asc ns.
Proof. cbn. rewrite all_called_map_Some. apply sort_asc_idem. Qed.

Lemma sort_asc_01 ph : ph = [0; 1]%nat \/ ph = [1; 0]%nat -> sort_asc ph = [0; 1]%nat.
Proof. intros [-> | ->]; reflexivity. Qed.

Theorem fix_call_exact cf t p c0 c' :
  mav cf = false -> Forall (fun e => length (snd e) = 2%nat) (t_super t) ->
  gt c0 <> Some [] ->
  update_call cf fix_rules t p (fix_rm (tag cf) c0) = Ok c' ->
  stmts_exact (tag cf) c' (written_t cf t p).
Proof.
  intros Hmav Hw Hne H. unfold update_call in H.
  destruct (gt (fix_rm (tag cf) c0)) as [g|] eqn:Eg; [|discriminate].
  destruct (gt c0) as [l|] eqn:Eg0.
  2:{ exfalso. pose proof (rk_gt_none _ fix_rules_ok (tag cf) c0) as Hn.
      change (rm_phasing fix_rules (tag cf) c0) with (fix_rm (tag cf) c0) in Hn.
      destruct Hn as [_ Hn]. specialize (Hn Eg0). congruence. }
  destruct (fix_rm_facts (tag cf) c0 l Eg0) as [Fps [Fpq [Fhp [Fph [g' [Fg [Fl [Fs Fn]]]]]]]].
  rewrite Eg in Fg. inversion Fg. subst g'. clear Fg.
  assert (Hgne : g <> []).
  { intros ->. destruct l; [congruence|discriminate]. }
  assert (Hunph : unph g = unph l) by (unfold unph; rewrite Fl; reflexivity).
  set (c := fix_rm (tag cf) c0) in *.
  (* nothing written: both statements are empty *)
  assert (Hunset : forall c1, gt c1 = Some g -> phased c1 = unph g -> (hp c1 = None \/ hp c1 = Some [HPdot]) ->
                   stmts_exact (tag cf) (unset_tag fix_rules (tag cf) c1) None).
  { intros c1 G1 P1 H1. unfold stmts_exact. destruct (tag cf); cbn [unset_tag lift option_map fix_rules unset_hp].
    - split; [eapply decode_PS_unphased; cbn; eauto|apply decode_HP_cleared; cbn; exact H1].
    - split; [apply decode_HP_cleared; cbn; auto|eapply decode_PS_unphased; cbn; eauto]. }
  unfold written_t.
  destruct (phase_at cf t p) as [phv|] eqn:Eph.
  2:{ cbn [fst snd] in H. assert (H' : c' = unset_tag fix_rules (tag cf) c) by (destruct (dict_get p (t_comp t)); congruence).
      subst c'. apply Hunset; [exact Eg|congruence|exact Fhp]. }
  pose proof (phase_at_allowed _ _ _ _ Eph) as Hal.
  assert (Hlen : length phv = 2%nat).
  { unfold phase_at in Eph. clear -Eph Hw. revert Eph. generalize (t_super t) Hw. intros sl Hsl.
    induction sl as [|[k v] sl IH]; cbn [filter dict_get]; [discriminate|].
    inversion Hsl as [|? ? H1 H2]. subst.
    destruct (allowed cf (snd (k, v))); cbn [dict_get]; [|apply IH; exact H2].
    destruct (dict_get p (filter (fun e => allowed cf (snd e)) sl)) eqn:Ed.
    - intros E. inversion E. subst. apply IH; [exact H2|reflexivity].
    - destruct (k =? p); [|discriminate]. intros E. inversion E. subst. exact H1. }
  set (gs := sort_asc phv) in *.
  destruct (list_nat_eqb gs (genotype_code (Some g))) eqn:Eag; cbn [fst snd] in H.
  - (* genotype agrees *)
    apply list_nat_eqb_eq in Eag.
    destruct (dict_get p (t_comp t)) as [comp|] eqn:Ec.
    2:{ inversion H. subst c'. apply Hunset; [exact Eg|congruence|exact Fhp]. }
    rewrite <- Eag in H.
    destruct (is_homozygous gs) eqn:Eh; cbn [negb] in H.
    { inversion H. subst c'. apply Hunset; [exact Eg|congruence|exact Fhp]. }
    inversion H. subst c'. clear H.
    destruct (het01 _ _ Hmav Hal Hlen Eh) as [Hph|Hph].
    + (* the GT of c is ascending 0/1 *)
      assert (Hg01 : g = [Some 0; Some 1]%nat).
      { assert (Hs : gs = [0; 1]%nat) by (unfold gs; rewrite Hph; reflexivity).
        cbn [genotype_code] in Eag. destruct (all_called l) as [ns|] eqn:Ea.
        - rewrite (Fs ns eq_refl) in *. rewrite all_called_map_Some, sort_asc_idem in Eag. rewrite <- Eag, Hs. reflexivity.
        - rewrite (Fn eq_refl) in *. rewrite Ea in Eag. rewrite Hs in Eag. discriminate. }
      unfold stmts_exact. destruct (tag cf); cbn [set_tag lift option_map fst snd].
      * split.
        -- rewrite decode_encode_PS; [rewrite Fpq; reflexivity|subst phv; discriminate|].
           rewrite <- (is_homozygous_sort phv). exact Eh.
        -- apply decode_HP_cleared. cbn. exact Fhp.
      * split.
        -- rewrite (decode_encode_HP fix_guard c comp phv); [rewrite Fpq; reflexivity|auto|rewrite Eg, Hg01; reflexivity|auto].
        -- apply (decode_PS_unphased true _ g); [exact Eg|exact Hgne|change (phased c = unph g); rewrite Fph; symmetry; exact Hunph].
    + assert (Hg01 : g = [Some 0; Some 1]%nat).
      { assert (Hs : gs = [0; 1]%nat) by (unfold gs; rewrite Hph; reflexivity).
        cbn [genotype_code] in Eag. destruct (all_called l) as [ns|] eqn:Ea.
        - rewrite (Fs ns eq_refl) in *. rewrite all_called_map_Some, sort_asc_idem in Eag. rewrite <- Eag, Hs. reflexivity.
        - rewrite (Fn eq_refl) in *. rewrite Ea in Eag. rewrite Hs in Eag. discriminate. }
      unfold stmts_exact. destruct (tag cf); cbn [set_tag lift option_map fst snd].
      * split.
        -- rewrite decode_encode_PS; [rewrite Fpq; reflexivity|subst phv; discriminate|].
           rewrite <- (is_homozygous_sort phv). exact Eh.
        -- apply decode_HP_cleared. cbn. exact Fhp.
      * split.
        -- rewrite (decode_encode_HP fix_guard c comp phv); [rewrite Fpq; reflexivity|auto|rewrite Eg, Hg01; reflexivity|auto].
        -- apply (decode_PS_unphased true _ g); [exact Eg|exact Hgne|change (phased c = unph g); rewrite Fph; symmetry; exact Hunph].
  - (* genotype-change branch: the repaired rule assigns the ascending genotype *)
    cbn [chg_order fix_rules] in H.
    set (c1 := set_gt c (Some (map Some gs)) (unph gs)) in *.
    assert (G1 : gt c1 = Some (map Some gs)) by reflexivity.
    assert (P1 : phased c1 = unph (map Some gs)) by (cbn; rewrite unph_map; reflexivity).
    assert (H1 : hp c1 = None \/ hp c1 = Some [HPdot]) by (cbn; exact Fhp).
    assert (Hgsne : map Some gs <> []).
    { unfold gs. intros E. apply map_eq_nil in E. apply sort_asc_nil in E. subst phv. discriminate. }
    assert (Hunset1 : stmts_exact (tag cf) (unset_tag fix_rules (tag cf) c1) None).
    { unfold stmts_exact. destruct (tag cf); cbn [unset_tag lift option_map fix_rules unset_hp].
      - split; [eapply decode_PS_unphased; cbn; eauto|apply decode_HP_cleared; cbn; exact Fhp].
      - split; [apply decode_HP_cleared; cbn; auto|eapply decode_PS_unphased; cbn; eauto]. }
    destruct (dict_get p (t_comp t)) as [comp|] eqn:Ec.
    2:{ inversion H. subst c'. exact Hunset1. }
    destruct (is_homozygous gs) eqn:Eh; cbn [negb] in H.
    { inversion H. subst c'. exact Hunset1. }
    inversion H. subst c'. clear H.
    assert (Hs : gs = [0; 1]%nat) by (unfold gs; apply sort_asc_01; eapply het01; eauto).
    unfold stmts_exact. destruct (tag cf); cbn [set_tag lift option_map fst snd].
    + split.
      * rewrite decode_encode_PS; [change (pq c1) with (pq c); rewrite Fpq; reflexivity|intros ->; discriminate|].
        rewrite <- (is_homozygous_sort phv). exact Eh.
      * apply decode_HP_cleared. cbn. exact Fhp.
    + split.
      * rewrite (decode_encode_HP fix_guard c1 comp phv); [change (pq c1) with (pq c); rewrite Fpq; reflexivity|auto|rewrite G1, Hs; reflexivity|].
        eapply het01; eauto.
      * eapply decode_PS_unphased; [cbn; reflexivity|exact Hgsne|cbn; rewrite unph_map; reflexivity].
Qed.

(* ------------------------------------------------------------------ records and files, repaired writer *)
(* what pysam guarantees about a parsed call: a GT value has at least one allele; no GT key, no phase *)
Definition wf_call (c : call) : Prop := gt c <> Some [] /\ (gt c = None -> phased c = false).
Definition wf_input (input : list vrec) : Prop := Forall (fun r => Forall wf_call (calls r)) input.
Definition plan_diploid (plan : list (token * list target)) : Prop :=
  Forall (fun e => Forall (fun t => Forall (fun s => length (snd s) = 2%nat) (t_super t)) (snd e)) plan.

Lemma fix_rm_no_stmt tg k c0 :
  wf_call c0 -> decode_HP fix_guard (fix_rm tg c0) = Ok None /\ decode_PS k (fix_rm tg c0) = Ok None.
Proof.
  intros [Hne Hnone]. destruct (gt c0) as [l|] eqn:Eg.
  - destruct (fix_rm_facts tg c0 l Eg) as [_ [_ [Fhp [Fph [g [Fg [Fl _]]]]]]].
    split; [apply decode_HP_cleared; exact Fhp|].
    apply (decode_PS_unphased k _ g); [exact Fg| |].
    + intros ->. destruct l; [congruence|discriminate].
    + rewrite Fph. unfold unph. rewrite Fl. reflexivity.
  - unfold fix_rm. destruct (clear_hp_facts (set_ps (unphase_call c0) None)) as [_ [G [P [_ [_ M]]]]].
    split.
    + apply decode_HP_cleared. cbn [hp set_pq]. unfold clear_hp.
      destruct (hp (set_ps (unphase_call c0) None)) eqn:E; cbn; rewrite ?E; auto.
    + unfold decode_PS. cbn [phased set_pq]. rewrite P. cbn [phased set_ps].
      unfold unphase_call. rewrite Eg, (Hnone eq_refl). reflexivity.
Qed.

Lemma target_of_in ts t : NoDup (map t_sample ts) -> In t ts -> target_of ts (t_sample t) = Some t.
Proof.
  induction ts as [|u ts IH]; intros ND Hin; [contradiction|].
  cbn [map] in ND. inversion ND as [|? ? Hn ND']. subst. rewrite target_of_cons.
  destruct Hin as [->|Hin].
  - rewrite Nat.eqb_refl. reflexivity.
  - destruct (Nat.eqb (t_sample u) (t_sample t)) eqn:E; [|apply IH; assumption].
    apply Nat.eqb_eq in E. exfalso. apply Hn. rewrite E. apply in_map. exact Hin.
Qed.

Lemma stmts_exact_no_stale tg k c e :
  stmts_exact tg c e -> (tg = TagPS -> e <> None -> k = true) -> call_no_stale fix_guard k c e = true.
Proof.
  intros H Hk. unfold call_no_stale.
  assert (Hm : forall q, stmt_ok (Ok (lift q e)) e = true).
  { intros q. destruct e as [[b ph]|]; cbn; [|reflexivity].
    rewrite Z.eqb_refl. cbn. apply all2_refl. intros; apply allele_eqb_refl. }
  destruct tg; cbn in H; destruct H as [H1 H2].
  - rewrite H2. cbn [stmt_ok]. cbn.
    destruct e as [[b ph]|] eqn:Ee.
    + rewrite (Hk eq_refl) by discriminate. rewrite H1. apply Hm.
    + cbn in H1. unfold decode_PS in *. destruct (negb (phased c)); [reflexivity|].
      destruct (gt c) as [[|a t]|]; try discriminate.
      destruct (forallb (allele_eqb a) t); [reflexivity|discriminate].
  - rewrite H1, Hm. cbn.
    unfold decode_PS in *. destruct (negb (phased c)); [reflexivity|].
    destruct (gt c) as [[|a t]|]; try discriminate.
    destruct (forallb (allele_eqb a) t); [reflexivity|discriminate].
Qed.

Lemma steps_no_stale cf ts prev run o :
  mav cf = false -> NoDup (map t_sample ts) ->
  Forall (fun t => Forall (fun s => length (snd s) = 2%nat) (t_super t)) ts ->
  Forall (fun r => Forall wf_call (calls r)) run ->
  steps cf fix_rules ts prev run = Ok o ->
  run_no_stale fix_guard cf ts prev run o = true.
Proof.
  intros Hmav ND Hdip. revert prev o. induction run as [|r run IH]; intros prev o Hwf H; cbn [steps] in H.
  - inversion H. reflexivity.
  - destruct (record_step cf fix_rules ts prev r) as [[p' o']|e] eqn:Er; cbn [bind] in H; [|discriminate].
    cbn [fst snd] in H. destruct (steps cf fix_rules ts p' run) as [out'|e] eqn:Es; cbn [bind] in H; [|discriminate].
    inversion H. subst o. clear H. inversion Hwf as [|? ? Hw1 Hw2]. subst.
    destruct (record_step_spec _ _ _ _ _ _ _ ND Er) as [_ [L [_ [Hp' Hc]]]].
    destruct (sync_end_spec (end_decl cf) o') as [_ [_ [_ [E4 [E5 _]]]]].
    cbn [run_no_stale]. rewrite E4, E5. apply andb_true_intro. split.
    + apply forallb_forall. intros t Ht.
      destruct (nth_error (calls o') (t_sample t)) as [c'|] eqn:En; [|reflexivity].
      assert (Hx : exists c, nth_error (calls r) (t_sample t) = Some c).
      { destruct (nth_error (calls r) (t_sample t)) eqn:E; [eauto|].
        apply nth_error_None in E. rewrite <- L in E. apply nth_error_None in E. congruence. }
      destruct Hx as [c Hx]. specialize (Hc _ _ Hx). rewrite (target_of_in _ _ ND Ht) in Hc.
      assert (Hwc : wf_call c).
      { rewrite Forall_forall in Hw1. apply Hw1. eapply nth_error_In; eauto. }
      rewrite Forall_forall in Hdip. specialize (Hdip t Ht).
      destruct (skip cf ts prev r) as [why|] eqn:Esk.
      * rewrite Hc in En. inversion En. subst c'.
        destruct (fix_rm_no_stmt (tag cf) (ps_key o') c Hwc) as [H1 H2].
        unfold call_no_stale. cbn [rm_phasing fix_rules]. rewrite H1, H2. reflexivity.
      * destruct Hc as [c2 [Hu Hn]]. rewrite Hn in En. inversion En. subst c2.
        apply stmts_exact_no_stale with (tg := tag cf).
        -- rewrite (written_target _ _ _ _ _ (target_of_in _ _ ND Ht)).
           eapply fix_call_exact; eauto. apply Hwc.
        -- intros Et _. unfold record_step in Er. rewrite Esk in Er.
           destruct (update_targets _ _ _ _ _); cbn [bind] in Er; [|discriminate].
           inversion Er. subst. cbn. rewrite Et. destruct ts; [contradiction|reflexivity].
    + rewrite <- Hp'. apply IH; assumption.
Qed.

Lemma steps_length cf ru ts prev run o : steps cf ru ts prev run = Ok o -> length o = length run.
Proof. intros H. apply steps_forall2 in H. induction H; cbn; congruence. Qed.

Lemma Forall_take_run (P : vrec -> Prop) c l run tl :
  take_run c l = (run, tl) -> Forall P l -> Forall P run /\ Forall P tl.
Proof.
  intros H F. apply take_run_app in H. subst l. apply Forall_app in F. exact F.
Qed.

Theorem rephase_no_stale_fixed cf plan input out :
  mav cf = false -> plan_wf plan -> plan_diploid plan -> wf_input input ->
  map fst plan = runs input -> phase_writer cf fix_rules plan input = Ok out ->
  file_no_stale fix_guard cf plan input out = true.
Proof.
  intros Hmav W D Wf Hp H. rewrite phase_writer_simple in H by exact Hp. clear Hp.
  revert input out Wf H. induction plan as [|[c ts] more IH]; intros l out Wf H; [reflexivity|].
  cbn [simple file_no_stale] in *. inversion W as [|? ? W1 W2]. inversion D as [|? ? D1 D2]. subst.
  destruct (take_run c l) as [run tl] eqn:Et.
  destruct (steps cf fix_rules ts None run) as [o|e] eqn:Es; cbn [bind] in H; [|discriminate].
  destruct (simple cf fix_rules more tl) as [out'|e] eqn:Em; cbn [bind] in H; [|discriminate].
  inversion H. subst out. clear H.
  destruct (Forall_take_run _ _ _ _ _ Et Wf) as [F1 F2].
  pose proof (steps_length _ _ _ _ _ _ Es) as Hl.
  rewrite <- Hl, firstn_app, Nat.sub_diag, firstn_all, firstn_O, app_nil_r.
  rewrite skipn_app, Nat.sub_diag, skipn_all, skipn_O. cbn [app].
  apply andb_true_intro. split.
  - apply steps_no_stale; assumption.
  - apply IH; assumption.
Qed.

(* ------------------------------------------------------------------ PS and HP outputs of the repaired writer *)
Definition with_tag (cf : cfg) (tg : tagk) : cfg := mkCfg tg (only_snvs cf) (mav cf) (end_decl cf).

Lemma skip_with_tag cf tg ts prev r : skip (with_tag cf tg) ts prev r = skip cf ts prev r.
Proof. reflexivity. Qed.

Lemma written_t_with_tag cf tg t p : written_t (with_tag cf tg) t p = written_t cf t p.
Proof. reflexivity. Qed.

Lemma decode_PS_none_k k k' c : decode_PS k c = Ok None -> decode_PS k' c = Ok None.
Proof.
  unfold decode_PS. destruct (negb (phased c)); [auto|].
  destruct (gt c) as [[|a t]|]; try discriminate.
  destruct (forallb (allele_eqb a) t); [auto|discriminate].
Qed.

(* the statements of the target calls of one PS-written and one HP-written record *)
Definition rec_equiv (ts : list target) (oP oH : vrec) : Prop :=
  forall t cP cH, In t ts ->
    nth_error (calls oP) (t_sample t) = Some cP -> nth_error (calls oH) (t_sample t) = Some cH ->
    decode_PS (ps_key oP) cP = decode_HP fix_guard cH /\
    decode_HP fix_guard cP = Ok None /\ decode_PS (ps_key oH) cH = Ok None.

Lemma steps_equiv cf ts prev run oP oH :
  mav cf = false -> NoDup (map t_sample ts) ->
  Forall (fun t => Forall (fun s => length (snd s) = 2%nat) (t_super t)) ts ->
  Forall (fun r => Forall wf_call (calls r)) run ->
  steps (with_tag cf TagPS) fix_rules ts prev run = Ok oP ->
  steps (with_tag cf TagHP) fix_rules ts prev run = Ok oH ->
  Forall2 (rec_equiv ts) oP oH.
Proof.
  intros Hmav ND Hdip. revert prev oP oH. induction run as [|r run IH]; intros prev oP oH Hwf HP HH; cbn [steps] in HP, HH.
  - inversion HP. inversion HH. constructor.
  - destruct (record_step (with_tag cf TagPS) fix_rules ts prev r) as [[pP o1]|e] eqn:E1; cbn [bind] in HP; [|discriminate].
    destruct (record_step (with_tag cf TagHP) fix_rules ts prev r) as [[pH o2]|e] eqn:E2; cbn [bind] in HH; [|discriminate].
    cbn [fst snd] in HP, HH.
    destruct (steps (with_tag cf TagPS) fix_rules ts pP run) as [outP|e] eqn:S1; cbn [bind] in HP; [|discriminate].
    destruct (steps (with_tag cf TagHP) fix_rules ts pH run) as [outH|e] eqn:S2; cbn [bind] in HH; [|discriminate].
    inversion HP. inversion HH. subst oP oH. clear HP HH. inversion Hwf as [|? ? Hw1 Hw2]. subst.
    destruct (record_step_spec _ _ _ _ _ _ _ ND E1) as [_ [L1 [_ [Hp1 Hc1]]]].
    destruct (record_step_spec _ _ _ _ _ _ _ ND E2) as [_ [L2 [_ [Hp2 Hc2]]]].
    rewrite skip_with_tag in Hp1, Hp2, Hc1, Hc2.
    constructor.
    + intros t cP cH Ht HnP HnH.
      destruct (sync_end_spec (end_decl cf) o1) as [_ [_ [_ [A4 [A5 _]]]]].
      destruct (sync_end_spec (end_decl cf) o2) as [_ [_ [_ [B4 [B5 _]]]]].
      cbn [end_decl with_tag] in *.
      rewrite A4 in HnP. rewrite B4 in HnH. rewrite A5, B5.
      assert (Hx : exists c, nth_error (calls r) (t_sample t) = Some c).
      { destruct (nth_error (calls r) (t_sample t)) eqn:E; [eauto|].
        apply nth_error_None in E. rewrite <- L1 in E. apply nth_error_None in E. congruence. }
      destruct Hx as [c Hx]. specialize (Hc1 _ _ Hx). specialize (Hc2 _ _ Hx).
      rewrite (target_of_in _ _ ND Ht) in Hc1, Hc2.
      assert (Hwc : wf_call c).
      { rewrite Forall_forall in Hw1. apply Hw1. eapply nth_error_In; eauto. }
      rewrite Forall_forall in Hdip. specialize (Hdip t Ht).
      destruct (skip cf ts prev r) as [why|] eqn:Esk.
      * rewrite Hc1 in HnP. rewrite Hc2 in HnH. inversion HnP. inversion HnH. subst cP cH.
        cbn [rm_phasing fix_rules tag with_tag].
        destruct (fix_rm_no_stmt TagPS (ps_key o1) c Hwc) as [P1 P2].
        destruct (fix_rm_no_stmt TagHP (ps_key o2) c Hwc) as [Q1 Q2].
        rewrite P1, P2, Q1, Q2. auto.
      * destruct Hc1 as [c1 [Hu1 Hn1]]. destruct Hc2 as [c2 [Hu2 Hn2]].
        rewrite Hn1 in HnP. rewrite Hn2 in HnH. inversion HnP. inversion HnH. subst c1 c2.
        pose proof (fix_call_exact (with_tag cf TagPS) t (pos r) c cP Hmav Hdip (proj1 Hwc) Hu1) as X1.
        pose proof (fix_call_exact (with_tag cf TagHP) t (pos r) c cH Hmav Hdip (proj1 Hwc) Hu2) as X2.
        rewrite written_t_with_tag in X1, X2. cbn [tag with_tag stmts_exact] in X1, X2.
        destruct X1 as [X1a X1b]. destruct X2 as [X2a X2b].
        assert (Hk : ps_key o1 = true).
        { unfold record_step in E1. rewrite skip_with_tag, Esk in E1.
          destruct (update_targets _ _ _ _ _); cbn [bind] in E1; [|discriminate].
          inversion E1. subst. cbn. destruct ts; [contradiction|reflexivity]. }
        rewrite Hk, X1a, X2a, X1b. repeat split; auto. eapply decode_PS_none_k; eauto.
    + rewrite Hp1 in S1. rewrite Hp2 in S2. eapply IH; eauto.
Qed.

Theorem ps_hp_equivalent_fixed cf plan input outP outH :
  mav cf = false -> plan_wf plan -> plan_diploid plan -> wf_input input ->
  map fst plan = runs input ->
  phase_writer (with_tag cf TagPS) fix_rules plan input = Ok outP ->
  phase_writer (with_tag cf TagHP) fix_rules plan input = Ok outH ->
  Forall2 (fun a oo => rec_equiv (snd a) (fst oo) (snd oo)) (annotate plan input) (combine outP outH).
Proof.
  intros Hmav W D Wf Hp HP HH. rewrite phase_writer_simple in HP, HH by exact Hp. clear Hp.
  revert input outP outH Wf HP HH. induction plan as [|[c ts] more IH]; intros l outP outH Wf HP HH.
  - cbn in *. inversion HP. inversion HH. constructor.
  - cbn [simple annotate] in *. inversion W as [|? ? W1 W2]. inversion D as [|? ? D1 D2]. subst.
    destruct (take_run c l) as [run tl] eqn:Et.
    destruct (steps (with_tag cf TagPS) fix_rules ts None run) as [o1|e] eqn:S1; cbn [bind] in HP; [|discriminate].
    destruct (steps (with_tag cf TagHP) fix_rules ts None run) as [o2|e] eqn:S2; cbn [bind] in HH; [|discriminate].
    destruct (simple (with_tag cf TagPS) fix_rules more tl) as [m1|e] eqn:M1; cbn [bind] in HP; [|discriminate].
    destruct (simple (with_tag cf TagHP) fix_rules more tl) as [m2|e] eqn:M2; cbn [bind] in HH; [|discriminate].
    inversion HP. inversion HH. subst outP outH. clear HP HH.
    destruct (Forall_take_run _ _ _ _ _ Et Wf) as [F1 F2].
    pose proof (steps_equiv _ _ _ _ _ _ Hmav W1 D1 F1 S1 S2) as Q.
    pose proof (steps_length _ _ _ _ _ _ S1) as L1. pose proof (steps_length _ _ _ _ _ _ S2) as L2.
    assert (Hcomb : combine (o1 ++ m1) (o2 ++ m2) = combine o1 o2 ++ combine m1 m2).
    { clear -L1 L2. assert (L : length o1 = length o2) by congruence. clear L1 L2.
      revert o2 L. induction o1 as [|x o1 IHo]; intros [|y o2] L; cbn in *; try discriminate; [reflexivity|].
      f_equal. apply IHo. congruence. }
    rewrite Hcomb. apply Forall2_app; [|apply IH; assumption].
    clear -Q L1 L2. assert (L : length run = length o1) by congruence. clear L1 L2.
    revert run L. induction Q; intros [|r run] L; cbn in *; try discriminate; constructor; auto.
Qed.

(* ------------------------------------------------------------------ phased_blocks_as_reads *)
Definition centry := (option Z * Z * list nat * option token)%type.   (* block, position, alleles, quality *)
Definition ce_block (e : centry) : option Z := fst (fst (fst e)).
Definition ce_pos (e : centry) : Z := snd (fst (fst e)).
Definition ce_alleles (e : centry) : list nat := snd (fst e).
Definition ce_quality (e : centry) : option token := snd e.

Definition contribs (inset : Z -> bool) (i : nat) (rows : list row) : list centry :=
  flat_map (fun rw => match contributes inset i rw with Some e => [e] | None => [] end) rows.

Definition members (cs : list centry) (b : option Z) : list centry :=
  filter (fun e => oz_eqb (ce_block e) b) cs.

Definition read_of (ms : list centry) (k : nat) : pread :=
  map (fun e => (ce_pos e, nth k (ce_alleles e) O, ce_quality e)) ms.

Lemma oz_eqb_eq a b : oz_eqb a b = true <-> a = b.
Proof.
  unfold oz_eqb, opt_eqb. destruct a, b; split; intros H; try discriminate; try reflexivity.
  - apply Z.eqb_eq in H. congruence.
  - inversion H. apply Z.eqb_refl.
Qed.

Lemma block_ids_in cs seen b :
  In b seen \/ (exists e, In e cs /\ ce_block e = b) -> In b (block_ids cs seen).
Proof.
  revert seen. induction cs as [|[[[b' p] ns] q] cs IH]; intros seen H; cbn [block_ids].
  - destruct H as [H|[e [[] _]]]. apply in_rev in H. exact H.
  - destruct (existsb (oz_eqb b') seen) eqn:Ex.
    + apply IH. destruct H as [H|[e [[<-|He] Hb]]]; [left; exact H| |right; eauto].
      left. cbn in Hb. subst b. apply existsb_exists in Ex. destruct Ex as [x [Hx Hx']].
      apply oz_eqb_eq in Hx'. subst. exact Hx.
    + apply IH. destruct H as [H|[e [[<-|He] Hb]]]; [left; right; exact H| |right; eauto].
      left. left. exact Hb.
Qed.

Lemma block_read_members cs b k :
  (forall e, In e (members cs b) -> length (ce_alleles e) = 2%nat) -> (k < 2)%nat ->
  block_read cs b k = read_of (members cs b) k.
Proof.
  intros Hw Hk. unfold block_read, read_of, members in *.
  induction cs as [|[[[b' p] ns] q] cs IH]; [reflexivity|].
  cbn [flat_map filter]. unfold ce_block at 1. cbn [fst snd].
  destruct (oz_eqb b' b) eqn:E.
  - cbn [map]. rewrite IH.
    + assert (Hl : length ns = 2%nat).
      { apply (Hw (b', p, ns, q)). cbn [filter]. unfold ce_block. cbn [fst]. rewrite E. left. reflexivity. }
      destruct ns as [|a0 [|a1 [|]]]; try discriminate.
      destruct k as [|[|k]]; [reflexivity|reflexivity|lia].
    + intros e He. apply Hw. cbn [filter]. unfold ce_block at 1. cbn [fst]. rewrite E. right. exact He.
  - cbn. apply IH. intros e He. apply Hw. cbn [filter]. unfold ce_block at 1. cbn [fst]. rewrite E. exact He.
Qed.

Lemma find_members cs b e0 ms :
  members cs b = e0 :: ms -> find (fun e => oz_eqb (fst (fst (fst e))) b) cs = Some e0.
Proof.
  unfold members. induction cs as [|e cs IH]; cbn; [discriminate|].
  unfold ce_block. destruct (oz_eqb (fst (fst (fst e))) b); [intros H; inversion H; reflexivity|exact IH].
Qed.

(* the pseudo reads of one phase set *)
Theorem blocks_as_reads_roundtrip inset i rows b :
  let cs := contribs inset i rows in
  let ms := members cs b in
  (forall e, In e ms -> exists a0 a1, ce_alleles e = [a0; a1] /\ a0 <> a1) ->
  (2 <= length ms)%nat ->
  (* exactly the two reads of the set are yielded for this block id *)
  (forall k rd, In (b, k, rd) (blocks_as_reads inset i rows) <->
                (k = 0%nat /\ rd = read_of ms 0) \/ (k = 1%nat /\ rd = read_of ms 1)) /\
  (* they cover the same positions, with complementary alleles *)
  map (fun x => fst (fst x)) (read_of ms 0) = map (fun x => fst (fst x)) (read_of ms 1) /\
  Forall2 (fun x y => snd (fst x) <> snd (fst y)) (read_of ms 0) (read_of ms 1) /\
  (* the bipartition {read 0} | {read 1} has no conflict and its two haplotypes are the phase set *)
  map (fun xy => (fst (fst (fst xy)), [snd (fst (fst xy)); snd (fst (snd xy))]))
      (combine (read_of ms 0) (read_of ms 1))
  = map (fun e => (ce_pos e, ce_alleles e)) ms.
Proof.
  intros cs ms Hc Hlen.
  assert (Hw : forall e, In e (members cs b) -> length (ce_alleles e) = 2%nat).
  { intros e He. destruct (Hc e He) as [a0 [a1 [H _]]]. rewrite H. reflexivity. }
  split; [|split; [|split]].
  - intros k rd. unfold blocks_as_reads. fold (contribs inset i rows). fold cs.
    rewrite in_flat_map. split.
    + intros [b' [Hb' Hin]].
      rewrite in_flat_map in Hin. destruct Hin as [k' [Hk' Hin]].
      destruct (1 <? length (block_read cs b' k'))%nat; [|contradiction].
      destruct Hin as [Hin|[]]. inversion Hin. subst b' k' rd.
      destruct ms as [|e0 ms'] eqn:Em; [cbn in Hlen; lia|].
      fold ms in Em. unfold ms in Em. rewrite (find_members _ _ _ _ Em) in Hk'.
      destruct e0 as [[[b0 p0] ns0] q0].
      assert (Hl0 : length ns0 = 2%nat).
      { apply (Hw (b0, p0, ns0, q0)). rewrite Em. left. reflexivity. }
      rewrite Hl0 in Hk'. cbn in Hk'.
      destruct Hk' as [<-|[<-|[]]]; [left|right]; split; try reflexivity;
        rewrite block_read_members by (auto; lia); unfold ms; rewrite Em; reflexivity.
    + intros Hk.
      assert (Hk2 : (k < 2)%nat /\ rd = read_of ms k).
      { destruct Hk as [[-> ->]|[-> ->]]; split; auto; lia. }
      destruct Hk2 as [Hk2 ->]. clear Hk.
      destruct ms as [|e0 ms'] eqn:Em; [cbn in Hlen; lia|]. fold ms in Em.
      exists b. split.
      * apply block_ids_in. right. exists e0. split.
        -- assert (Hin : In e0 (members cs b)) by (unfold ms in Em; rewrite Em; left; reflexivity).
           unfold members in Hin. apply filter_In in Hin. apply Hin.
        -- assert (Hin : In e0 (members cs b)) by (unfold ms in Em; rewrite Em; left; reflexivity).
           unfold members in Hin. apply filter_In in Hin. destruct Hin as [_ Hin]. apply oz_eqb_eq in Hin. exact Hin.
      * unfold ms in Em. rewrite (find_members _ _ _ _ Em).
        destruct e0 as [[[b0 p0] ns0] q0].
        assert (Hl0 : length ns0 = 2%nat).
        { apply (Hw (b0, p0, ns0, q0)). rewrite Em. left. reflexivity. }
        rewrite Hl0. rewrite in_flat_map. exists k. split.
        -- cbn. destruct k as [|[|k]]; auto; lia.
        -- rewrite block_read_members by (auto; lia). rewrite Em.
           assert (Hlr : (1 <? length (read_of ((b0, p0, ns0, q0) :: ms') k))%nat = true).
           { apply Nat.ltb_lt. unfold read_of. rewrite map_length. cbn [length] in *. lia. }
           match goal with |- In _ (if ?cnd then _ else _) => assert (Hc' : cnd = true) by exact Hlr; rewrite Hc' end.
           left. reflexivity.
  - unfold read_of. rewrite !map_map. reflexivity.
  - unfold read_of. clear Hlen Hw. induction ms as [|e ms' IH]; cbn; constructor.
    + cbn. destruct (Hc e (or_introl eq_refl)) as [a0 [a1 [H Hd]]]. rewrite H. cbn. exact Hd.
    + apply IH. intros e' He'. apply Hc. right. exact He'.
  - unfold read_of. clear Hlen Hw. induction ms as [|e ms' IH]; cbn; [reflexivity|].
    destruct (Hc e (or_introl eq_refl)) as [a0 [a1 [H Hd]]]. rewrite H. cbn. f_equal.
    apply IH. intros e' He'. apply Hc. right. exact He'.
Qed.

(* ------------------------------------------------------------------ decode = written, record by record *)
Fixpoint run_exact (cf : cfg) (ts : list target) (prev : option Z) (inp out : list vrec) : Prop :=
  match inp, out with
  | r :: inp', o :: out' =>
    let sk := skip cf ts prev r in
    (forall t c', In t ts -> nth_error (calls o) (t_sample t) = Some c' ->
       stmts_exact (tag cf) c' (match sk with Some _ => None | None => written cf ts (t_sample t) (pos r) end))
    /\ run_exact cf ts (match sk with Some _ => prev | None => Some (pos r) end) inp' out'
  | _, _ => True
  end.

Fixpoint file_exact (cf : cfg) (plan : list (token * list target)) (inp out : list vrec) : Prop :=
  match plan with
  | [] => True
  | (c, ts) :: more =>
    let '(run, tl) := take_run c inp in
    run_exact cf ts None run (firstn (length run) out) /\ file_exact cf more tl (skipn (length run) out)
  end.

Lemma stmts_exact_none tg c0 : wf_call c0 -> stmts_exact tg (fix_rm tg c0) None.
Proof.
  intros Hw. destruct (fix_rm_no_stmt tg true c0 Hw) as [H1 H2]. destruct tg; cbn; auto.
Qed.

Lemma steps_exact cf ts prev run o :
  mav cf = false -> NoDup (map t_sample ts) ->
  Forall (fun t => Forall (fun s => length (snd s) = 2%nat) (t_super t)) ts ->
  Forall (fun r => Forall wf_call (calls r)) run ->
  steps cf fix_rules ts prev run = Ok o ->
  run_exact cf ts prev run o.
Proof.
  intros Hmav ND Hdip. revert prev o. induction run as [|r run IH]; intros prev o Hwf H; cbn [steps] in H.
  - inversion H. exact I.
  - destruct (record_step cf fix_rules ts prev r) as [[p' o']|e] eqn:Er; cbn [bind] in H; [|discriminate].
    cbn [fst snd] in H. destruct (steps cf fix_rules ts p' run) as [out'|e] eqn:Es; cbn [bind] in H; [|discriminate].
    inversion H. subst o. clear H. inversion Hwf as [|? ? Hw1 Hw2]. subst.
    destruct (record_step_spec _ _ _ _ _ _ _ ND Er) as [_ [L [_ [Hp' Hc]]]].
    destruct (sync_end_spec (end_decl cf) o') as [_ [_ [_ [E4 _]]]].
    cbn [run_exact]. rewrite E4. split.
    + intros t c' Ht En.
      assert (Hx : exists c, nth_error (calls r) (t_sample t) = Some c).
      { destruct (nth_error (calls r) (t_sample t)) eqn:E; [eauto|].
        apply nth_error_None in E. rewrite <- L in E. apply nth_error_None in E. congruence. }
      destruct Hx as [c Hx]. specialize (Hc _ _ Hx). rewrite (target_of_in _ _ ND Ht) in Hc.
      assert (Hwc : wf_call c).
      { rewrite Forall_forall in Hw1. apply Hw1. eapply nth_error_In; eauto. }
      rewrite Forall_forall in Hdip. specialize (Hdip t Ht).
      destruct (skip cf ts prev r) as [why|] eqn:Esk.
      * rewrite Hc in En. inversion En. subst c'. apply (stmts_exact_none (tag cf) c Hwc).
      * destruct Hc as [c2 [Hu Hn]]. rewrite Hn in En. inversion En. subst c2.
        rewrite (written_target _ _ _ _ _ (target_of_in _ _ ND Ht)).
        eapply fix_call_exact; eauto. apply Hwc.
    + rewrite <- Hp'. apply IH; assumption.
Qed.

Theorem decode_written_fixed cf plan input out :
  mav cf = false -> plan_wf plan -> plan_diploid plan -> wf_input input ->
  map fst plan = runs input -> phase_writer cf fix_rules plan input = Ok out ->
  file_exact cf plan input out.
Proof.
  intros Hmav W D Wf Hp H. rewrite phase_writer_simple in H by exact Hp. clear Hp.
  revert input out Wf H. induction plan as [|[c ts] more IH]; intros l out Wf H; [exact I|].
  cbn [simple file_exact] in *. inversion W as [|? ? W1 W2]. inversion D as [|? ? D1 D2]. subst.
  destruct (take_run c l) as [run tl] eqn:Et.
  destruct (steps cf fix_rules ts None run) as [o|e] eqn:Es; cbn [bind] in H; [|discriminate].
  destruct (simple cf fix_rules more tl) as [out'|e] eqn:Em; cbn [bind] in H; [|discriminate].
  inversion H. subst out. clear H.
  destruct (Forall_take_run _ _ _ _ _ Et Wf) as [F1 F2].
  pose proof (steps_length _ _ _ _ _ _ Es) as Hl.
  rewrite <- Hl, firstn_app, Nat.sub_diag, firstn_all, firstn_O, app_nil_r.
  rewrite skipn_app, Nat.sub_diag, skipn_all, skipn_O. cbn [app].
  split; [apply steps_exact; assumption|apply IH; assumption].
Qed.

(* ================================================================== through the reader model *)
(* one record of the writer, everything the reader argument needs *)
Lemma record_exact cf ts prev r p' o' :
  mav cf = false -> NoDup (map t_sample ts) ->
  Forall (fun t => Forall (fun s => length (snd s) = 2%nat) (t_super t)) ts ->
  Forall wf_call (calls r) ->
  record_step cf fix_rules ts prev r = Ok (p', o') ->
  let sk := skip cf ts prev r in
  pos o' = pos r /\ alt_lens o' = alt_lens r /\ ref_len o' = ref_len r /\ chrom o' = chrom r /\
  length (calls o') = length (calls r) /\
  p' = (match sk with Some _ => prev | None => Some (pos r) end) /\
  (sk = None -> tag cf = TagPS -> ps_key o' = true) /\
  forall t c', In t ts -> nth_error (calls o') (t_sample t) = Some c' ->
    stmts_exact (tag cf) c' (match sk with Some _ => None | None => written_t cf t (pos r) end).
Proof.
  intros Hmav ND Hdip Hw1 Er. cbn zeta.
  destruct (record_step_spec _ _ _ _ _ _ _ ND Er) as [[S1 [S2 [S3 [S4 [S5 [S6 S7]]]]]] [L [_ [Hp' Hc]]]].
  repeat split; auto.
  - intros Esk Et. unfold record_step in Er. rewrite Esk in Er.
    destruct (update_targets _ _ _ _ _); cbn [bind] in Er; [|discriminate].
    inversion Er. subst. cbn. rewrite Et.
    destruct ts as [|t0 ts0]; [|reflexivity].
    destruct (skip_none_phased _ _ _ _ Esk) as [t [[] _]].
  - intros t c' Ht En.
    assert (Hx : exists c, nth_error (calls r) (t_sample t) = Some c).
    { destruct (nth_error (calls r) (t_sample t)) eqn:E; [eauto|].
      apply nth_error_None in E. rewrite <- L in E. apply nth_error_None in E. congruence. }
    destruct Hx as [c Hx]. specialize (Hc _ _ Hx). rewrite (target_of_in _ _ ND Ht) in Hc.
    assert (Hwc : wf_call c).
    { rewrite Forall_forall in Hw1. apply Hw1. eapply nth_error_In; eauto. }
    rewrite Forall_forall in Hdip. specialize (Hdip t Ht).
    destruct (skip cf ts prev r) as [why|] eqn:Esk.
    + rewrite Hc in En. inversion En. subst c'. apply (stmts_exact_none (tag cf) c Hwc).
    + destruct Hc as [c2 [Hu Hn]]. rewrite Hn in En. inversion En. subst c2.
      eapply fix_call_exact; eauto. apply Hwc.
Qed.

(* the phase the reader assigns to one call *)
Definition call_phase (k : bool) (c : call) (ph : option dphase) : Prop :=
  exists p1 p2, decode_HP fix_guard c = Ok p1 /\ decode_PS k c = Ok p2 /\
                ph = match p2 with Some _ => p2 | None => p1 end.

Lemma decode_call_spec k det c det' ph :
  decode_call fix_guard k det c = Ok (det', ph) -> call_phase k c ph.
Proof.
  unfold decode_call, call_phase.
  destruct (decode_HP fix_guard c) as [p1|e]; cbn [bind]; [|discriminate].
  match goal with |- context [bind ?x _] => destruct x as [det1|e] end; cbn [bind]; [|discriminate].
  destruct (decode_PS k c) as [p2|e]; cbn [bind]; [|discriminate].
  intros H. exists p1, p2. split; [reflexivity|]. split; [reflexivity|].
  destruct p2 as [d|].
  - destruct det1 as [kk|]; [destruct (pkind_eqb kk KPS)|]; inversion H; reflexivity.
  - inversion H. reflexivity.
Qed.

Lemma decode_calls_spec k det cs det' phs :
  decode_calls fix_guard k det cs = Ok (det', phs) ->
  length phs = length cs /\
  forall i c, nth_error cs i = Some c -> exists ph, nth_error phs i = Some ph /\ call_phase k c ph.
Proof.
  revert det det' phs. induction cs as [|c cs IH]; intros det det' phs H; cbn [decode_calls] in H.
  - inversion H. split; [reflexivity|]. intros [|i] c Hc; discriminate.
  - destruct (decode_call fix_guard k det c) as [[d1 ph]|e] eqn:Ec; cbn [bind] in H; [|discriminate].
    cbn [fst snd] in H.
    destruct (decode_calls fix_guard k d1 cs) as [[d2 phs']|e] eqn:Er; cbn [bind] in H; [|discriminate].
    inversion H. subst. destruct (IH _ _ _ Er) as [L Hn]. split; [cbn; congruence|].
    intros [|i] c0 Hc0; cbn in Hc0.
    + inversion Hc0. subst. exists ph. split; [reflexivity|]. eapply decode_call_spec; eauto.
    + cbn. apply Hn. exact Hc0.
Qed.

Lemma phase_matches_lift q e : phase_matches (lift q e) e = true.
Proof.
  destruct e as [[b ph]|]; cbn; [|reflexivity].
  rewrite Z.eqb_refl. cbn. apply all2_refl. intros; apply allele_eqb_refl.
Qed.

Definition rskip (osnv mv : bool) (r : vrec) : bool :=
  match alt_lens r with
  | [] => true
  | _ => (negb (unph (alt_lens r)) && negb mv)
         || (osnv && negb ((ref_len r =? 1) && forallb (fun a => a =? 1) (alt_lens r)))
  end.

Lemma read_rows_cons g osnv mv prev det r t :
  read_rows g osnv mv prev det (r :: t) =
  if rskip osnv mv r then read_rows g osnv mv prev det t
  else if match prev with Some q => q >? pos r | None => false end then Err EUnsorted
  else if match prev with Some q => q =? pos r | None => false end then read_rows g osnv mv prev det t
  else bind (decode_calls g (ps_key r) det (calls r)) (fun d =>
       bind (read_rows g osnv mv (Some (pos r)) (fst d) t) (fun rows =>
         Ok (mkRow (pos r) (map (fun c => genotype_code (gt c)) (calls r)) (snd d) :: rows))).
Proof. reflexivity. Qed.

Lemma skip_reader cf ts prev r why :
  mav cf = false -> rskip (only_snvs cf) (mav cf) r = false -> skip cf ts prev r = Some why ->
  why = Duplicate \/ why = Unphased.
Proof.
  intros Hm Hr. unfold rskip in Hr. unfold skip, is_snv. rewrite Hm in *.
  destruct (alt_lens r) as [|a [|b l]] eqn:Ea; [discriminate| |cbn in Hr; discriminate].
  cbn in Hr. cbn [unph length Nat.leb negb andb].
  destruct (match prev with Some q => pos r =? q | None => false end); [intros H; inversion H; auto|].
  rewrite andb_true_r in Hr. rewrite Hr.
  destruct (negb (existsb _ ts)); intros H; inversion H; auto.
Qed.

Lemma skip_none_reader cf ts prev r :
  mav cf = false -> skip cf ts prev r = None -> rskip (only_snvs cf) (mav cf) r = false.
Proof.
  intros Hm. unfold rskip, skip, is_snv. rewrite Hm.
  destruct (alt_lens r) as [|a [|b l]] eqn:Ea; [discriminate| |cbn; discriminate].
  cbn [unph length Nat.leb negb andb orb forallb].
  destruct (match prev with Some q => pos r =? q | None => false end); [discriminate|].
  rewrite andb_true_r.
  destruct (only_snvs cf && negb ((ref_len r =? 1) && (a =? 1))); [discriminate|reflexivity].
Qed.

Lemma skip_duplicate_prev cf ts prev r :
  skip cf ts prev r = Some Duplicate -> prev = Some (pos r).
Proof.
  unfold skip. destruct (alt_lens r); [discriminate|].
  destruct (negb (unph (z :: l)) && negb (mav cf)); [discriminate|].
  destruct prev as [q|].
  - destruct (pos r =? q) eqn:E; [intros _; apply Z.eqb_eq in E; congruence|].
    destruct (only_snvs cf && negb (is_snv r)); [discriminate|].
    destruct (negb (existsb _ ts)); discriminate.
  - destruct (only_snvs cf && negb (is_snv r)); [discriminate|].
    destruct (negb (existsb _ ts)); discriminate.
Qed.

Lemma skip_unphased_written cf ts prev r t :
  NoDup (map t_sample ts) -> skip cf ts prev r = Some Unphased -> In t ts ->
  (t_sample t < length (calls r))%nat -> written_t cf t (pos r) = None.
Proof.
  intros ND Hs Ht Hl.
  assert (Hex : existsb (fun t => (t_sample t <? length (calls r))%nat && phased_in cf (pos r) t) ts = false).
  { unfold skip in Hs. destruct (alt_lens r); [discriminate|].
    destruct (negb (unph (z :: l)) && negb (mav cf)); [discriminate|].
    destruct (match prev with Some q => pos r =? q | None => false end); [discriminate|].
    destruct (only_snvs cf && negb (is_snv r)); [discriminate|].
    destruct (existsb _ ts); [discriminate|reflexivity]. }
  assert (Hp : phased_in cf (pos r) t = false).
  { destruct (phased_in cf (pos r) t) eqn:E; [|reflexivity].
    assert (existsb (fun t => (t_sample t <? length (calls r))%nat && phased_in cf (pos r) t) ts = true); [|congruence].
    apply existsb_exists. exists t. split; [exact Ht|]. rewrite E. apply Nat.ltb_lt in Hl. rewrite Hl. reflexivity. }
  unfold written_t. unfold phased_in in Hp.
  destruct (phase_at cf t (pos r)); [|reflexivity].
  destruct (dict_get (pos r) (t_comp t)); [discriminate|reflexivity].
Qed.

Definition rinv (pw pr : option Z) : Prop :=
  match pw with None => True | Some q => exists q', pr = Some q' /\ q <= q' end.

Lemma row_phase_matches tg k c ph e :
  stmts_exact tg c e -> (tg = TagPS -> e <> None -> k = true) -> call_phase k c ph ->
  phase_matches ph e = true.
Proof.
  intros Hs Hk [p1 [p2 [H1 [H2 ->]]]]. destruct tg; cbn in Hs; destruct Hs as [A B].
  - rewrite B in H1. inversion H1. subst p1.
    destruct e as [[b l]|] eqn:Ee.
    + rewrite (Hk eq_refl) in H2 by discriminate. rewrite A in H2. inversion H2. subst p2. cbn [lift option_map].
      apply (phase_matches_lift None (Some (b, l))).
    + cbn in A. rewrite (decode_PS_none_k _ k _ A) in H2. inversion H2. reflexivity.
  - rewrite A in H1. inversion H1. subst p1.
    rewrite (decode_PS_none_k _ k _ B) in H2. inversion H2. subst p2. apply phase_matches_lift.
Qed.

Lemma steps_read cf ts pw pr det run o rows :
  mav cf = false -> NoDup (map t_sample ts) ->
  Forall (fun t => Forall (fun s => length (snd s) = 2%nat) (t_super t)) ts ->
  Forall (fun r => Forall wf_call (calls r)) run ->
  Forall (fun r => Forall (fun t => (t_sample t < length (calls r))%nat) ts) run ->
  steps cf fix_rules ts pw run = Ok o ->
  read_rows fix_guard (only_snvs cf) (mav cf) pr det o = Ok rows ->
  rinv pw pr -> table_decodes cf ts rows = true.
Proof.
  intros Hmav ND Hdip. revert pw pr det o rows.
  induction run as [|r run IH]; intros pw pr det o rows Hwf Hrg H Hr Hinv; cbn [steps] in H.
  - inversion H. subst. cbn in Hr. inversion Hr. reflexivity.
  - destruct (record_step cf fix_rules ts pw r) as [[p' o']|e] eqn:Er; cbn [bind] in H; [|discriminate].
    cbn [fst snd] in H. destruct (steps cf fix_rules ts p' run) as [out'|e] eqn:Es; cbn [bind] in H; [|discriminate].
    inversion H. subst o. clear H.
    inversion Hwf as [|? ? Hw1 Hw2]. inversion Hrg as [|? ? Hr1 Hr2]. subst.
    destruct (record_exact _ _ _ _ _ _ Hmav ND Hdip Hw1 Er) as [X1 [X2 [X3 [_ [XL [Xp [Xk Xs]]]]]]].
    destruct (sync_end_spec (end_decl cf) o') as [_ [E2 [_ [E4 [E5 [E6 [E7 _]]]]]]].
    set (o1 := sync_end (end_decl cf) o') in *.
    assert (Hrs : rskip (only_snvs cf) (mav cf) o1 = rskip (only_snvs cf) (mav cf) r).
    { unfold rskip. rewrite E6, E7, X2, X3. reflexivity. }
    assert (Hpos : pos o1 = pos r) by congruence.
    rewrite read_rows_cons in Hr. rewrite Hrs, Hpos in Hr.
    destruct (rskip (only_snvs cf) (mav cf) r) eqn:Ersk.
    + (* not a row; the writer skipped it as well *)
      assert (Hsk : skip cf ts pw r <> None).
      { intros Hn. rewrite (skip_none_reader _ _ _ _ Hmav Hn) in Ersk. discriminate. }
      destruct (skip cf ts pw r) as [why|]; [|congruence]. subst p'.
      eapply IH; eauto.
    + destruct (match pr with Some q => q >? pos r | None => false end) eqn:Egt; [discriminate|].
      destruct (match pr with Some q => q =? pos r | None => false end) eqn:Eeq.
      * (* duplicate position for the reader *)
        eapply IH; eauto. subst p'.
        destruct (skip cf ts pw r); [exact Hinv|].
        destruct pr as [q|]; [|discriminate]. apply Z.eqb_eq in Eeq. subst q.
        exists (pos r). split; [reflexivity|lia].
      * (* a row *)
        destruct (decode_calls fix_guard (ps_key o1) det (calls o1)) as [[d1 phs]|e] eqn:Ed; cbn [bind] in Hr; [|discriminate].
        cbn [fst snd] in Hr.
        destruct (read_rows fix_guard (only_snvs cf) (mav cf) (Some (pos r)) d1 out') as [rows'|e] eqn:Er'; cbn [bind] in Hr; [|discriminate].
        inversion Hr. subst rows. clear Hr.
        assert (Hlt : match pr with Some q => q < pos r | None => True end).
        { destruct pr as [q|]; [|exact I]. rewrite Z.gtb_ltb in Egt. apply Z.ltb_ge in Egt. apply Z.eqb_neq in Eeq. lia. }
        cbn [table_decodes forallb]. apply andb_true_intro. split.
        -- cbn [row_pos row_phases]. apply forallb_forall. intros t Ht.
           destruct (decode_calls_spec _ _ _ _ _ Ed) as [Lp Hn].
           rewrite Forall_forall in Hr1. specialize (Hr1 t Ht).
           assert (Hc : exists c', nth_error (calls o1) (t_sample t) = Some c').
           { destruct (nth_error (calls o1) (t_sample t)) eqn:E; [eauto|].
             apply nth_error_None in E. rewrite E4, XL in E. lia. }
           destruct Hc as [c' Hc]. destruct (Hn _ _ Hc) as [ph [Hph Hcp]].
           rewrite (nth_error_nth _ _ None Hph).
           rewrite (written_target _ _ _ _ _ (target_of_in _ _ ND Ht)).
           rewrite E4 in Hc. specialize (Xs t c' Ht Hc).
           rewrite E5 in Hcp.
           destruct (skip cf ts pw r) as [why|] eqn:Esk.
           ++ destruct (skip_reader _ _ _ _ _ Hmav Ersk Esk) as [-> | ->].
              ** exfalso. apply skip_duplicate_prev in Esk. subst pw. destruct Hinv as [q' [-> Hq]]. lia.
              ** rewrite (skip_unphased_written _ _ _ _ _ ND Esk Ht Hr1).
                 apply (row_phase_matches (tag cf) (ps_key o') c' ph _ Xs); [|exact Hcp]. intros _ Hne. congruence.
           ++ apply (row_phase_matches (tag cf) (ps_key o') c' ph _ Xs); [|exact Hcp]. intros Et _. apply Xk; auto.
        -- eapply IH; eauto. subst p'.
           destruct (skip cf ts pw r).
           ++ destruct pw as [q|]; [|exact I]. destruct Hinv as [q' [-> Hq]]. exists (pos r). split; [reflexivity|lia].
           ++ exists (pos r). split; [reflexivity|lia].
Qed.

(* ------------------------------------------------------------------ whole files *)
Lemma take_run_all c l run tl : take_run c l = (run, tl) -> Forall (fun r => chrom r = c) run.
Proof.
  revert run tl. induction l as [|r l IH]; intros run tl H; cbn in H.
  - inversion H. constructor.
  - destruct (chrom r =? c) eqn:E.
    + destruct (take_run c l) as [a b] eqn:Et. inversion H. subst. constructor; [apply Z.eqb_eq; exact E|eapply IH; eauto].
    + inversion H. constructor.
Qed.

Lemma take_run_app_all c a b :
  Forall (fun r => chrom r = c) a -> match b with [] => True | x :: _ => chrom x <> c end ->
  take_run c (a ++ b) = (a, b).
Proof.
  intros Fa Hb. induction Fa as [|x a Hx Fa IH]; cbn.
  - destruct b as [|y b]; [reflexivity|]. cbn. apply Z.eqb_neq in Hb. rewrite Hb. reflexivity.
  - rewrite Hx, Z.eqb_refl, IH. reflexivity.
Qed.

Lemma steps_chroms cf ru ts prev run o :
  steps cf ru ts prev run = Ok o -> map chrom o = map chrom run.
Proof.
  intros H. apply steps_forall2 in H. induction H as [|r x run o Hs F IH]; [reflexivity|].
  cbn. rewrite IH. f_equal. destruct (step_rel_site _ _ _ _ _ Hs) as [Hc _]. exact Hc.
Qed.

Lemma simple_chroms cf ru plan l out :
  map fst plan = runs l -> simple cf ru plan l = Ok out -> map chrom out = map chrom l.
Proof.
  intros Hp H. apply simple_forall2_any in H. rewrite (annotate_fst _ _ Hp) in H. clear Hp.
  induction H as [|r o l' out' Hex F IH]; [reflexivity|].
  destruct Hex as [ts Hs]. cbn. rewrite IH. f_equal. destruct (step_rel_site _ _ _ _ _ Hs) as [Hc _]. exact Hc.
Qed.

Lemma read_file_aux_nil fuel g osnv mv : read_file_aux fuel g osnv mv [] = Ok [].
Proof. destruct fuel; reflexivity. Qed.

Definition targets_exist (plan : list (token * list target)) (input : list vrec) : Prop :=
  forall c ts r t, In (c, ts) plan -> In r input -> In t ts -> (t_sample t < length (calls r))%nat.

Lemma plan_targets_other c ts more c' :
  c' <> c -> plan_targets ((c, ts) :: more) c' = plan_targets more c'.
Proof. intros H. unfold plan_targets. cbn. apply Z.eqb_neq in H. rewrite Z.eqb_sym, H. reflexivity. Qed.

Lemma simple_read cf plan l out fuel tabs :
  mav cf = false -> plan_wf plan -> plan_diploid plan -> wf_input l -> targets_exist plan l ->
  NoDup (map fst plan) -> map fst plan = runs l ->
  simple cf fix_rules plan l = Ok out -> (length out <= fuel)%nat ->
  read_file_aux fuel fix_guard (only_snvs cf) (mav cf) out = Ok tabs ->
  map fst tabs = map fst plan /\ file_decodes cf plan tabs = true.
Proof.
  intros Hmav. revert l out fuel tabs.
  induction plan as [|[c ts] more IH]; intros l out fuel tabs W D Wf Tx NDp Hp H Hfuel Hr.
  - cbn in H. inversion H. subst out. rewrite read_file_aux_nil in Hr. inversion Hr. auto.
  - cbn [map fst] in Hp. destruct l as [|r t]; [discriminate|].
    destruct (runs_head r t) as [cs Hcs]. rewrite Hcs in Hp. inversion Hp as [[Hc Hmore]]. subst c.
    cbn [simple] in H. destruct (take_run (chrom r) (r :: t)) as [run tl] eqn:Et.
    assert (Hruns : runs (r :: t) = chrom r :: runs tl /\ match tl with [] => True | x :: _ => chrom x <> chrom r end).
    { cbn [take_run] in Et. rewrite Z.eqb_refl in Et. destruct (take_run (chrom r) t) as [a b] eqn:E.
      inversion Et. subst. apply (runs_cons_take _ _ _ _ E). }
    destruct Hruns as [Hruns Htl]. rewrite Hruns in Hcs. inversion Hcs as [Hcs']. rewrite <- Hcs' in Hmore.
    destruct (steps cf fix_rules ts None run) as [o|e] eqn:Es; cbn [bind] in H; [|discriminate].
    destruct (simple cf fix_rules more tl) as [out'|e] eqn:Em; cbn [bind] in H; [|discriminate].
    inversion H. subst out. clear H.
    inversion W as [|? ? W1 W2]. inversion D as [|? ? D1 D2]. subst.
    cbn [map fst] in NDp. inversion NDp as [|? ? Hnin NDm]. subst.
    destruct (Forall_take_run _ _ _ _ _ Et Wf) as [F1 F2].
    pose proof (take_run_app _ _ _ _ Et) as Happ.
    assert (Hrun1 : exists run0, run = r :: run0).
    { cbn [take_run] in Et. rewrite Z.eqb_refl in Et. destruct (take_run (chrom r) t). inversion Et. eauto. }
    destruct Hrun1 as [run0 ->].
    pose proof (steps_chroms _ _ _ _ _ _ Es) as Hco.
    pose proof (simple_chroms _ _ _ _ _ Hmore Em) as Hco'.
    destruct o as [|o1 orest]; [discriminate|].
    assert (Fo : Forall (fun x => chrom x = chrom r) (o1 :: orest)).
    { pose proof (take_run_all _ _ _ _ Et) as Fr.
      assert (Fm : Forall (fun z => z = chrom r) (map chrom (o1 :: orest))).
      { rewrite Hco. clear -Fr. induction Fr; cbn; constructor; auto. }
      clear -Fm. induction (o1 :: orest) as [|x xs IHx]; [constructor|].
      cbn in Fm. inversion Fm. subst. constructor; auto. }
    assert (Hhead : match out' with [] => True | x :: _ => chrom x <> chrom r end).
    { destruct out' as [|x out'']; [exact I|]. destruct tl as [|y tl']; [discriminate|].
      cbn in Hco'. inversion Hco'. congruence. }
    destruct fuel as [|f]; [cbn in Hfuel; lia|].
    cbn [app] in Hr. cbn [read_file_aux] in Hr.
    inversion Fo as [|? ? Ho1 Forest]. subst.
    rewrite Ho1 in Hr. rewrite (take_run_app_all _ _ _ Forest Hhead) in Hr.
    destruct (read_rows fix_guard (only_snvs cf) (mav cf) None None (o1 :: orest)) as [rows|e] eqn:Err; cbn [bind] in Hr; [|discriminate].
    destruct (read_file_aux f fix_guard (only_snvs cf) (mav cf) out') as [mt|e] eqn:Erm; cbn [bind] in Hr; [|discriminate].
    inversion Hr. subst tabs. clear Hr.
    assert (Hrange : Forall (fun x => Forall (fun t0 => (t_sample t0 < length (calls x))%nat) ts) (r :: run0)).
    { apply Forall_forall. intros x Hx. apply Forall_forall. intros t0 Ht0.
      apply (Tx (chrom r) ts x t0); [left; reflexivity| |exact Ht0].
      rewrite Happ. apply in_or_app. left. exact Hx. }
    pose proof (steps_read _ _ _ _ _ _ _ _ Hmav W1 D1 F1 Hrange Es Err I) as Htab.
    assert (Tx' : targets_exist more tl).
    { intros c' ts' x t0 Hin Hx Ht0. apply (Tx c' ts' x t0); [right; exact Hin| |exact Ht0].
      rewrite Happ. apply in_or_app. right. exact Hx. }
    assert (Hf' : (length out' <= f)%nat).
    { rewrite app_length in Hfuel. cbn in Hfuel. lia. }
    destruct (IH _ _ _ _ W2 D2 F2 Tx' NDm Hmore Em Hf' Erm) as [Hmt Hfd].
    split; [cbn; rewrite Hmt; reflexivity|].
    unfold file_decodes in *. cbn [forallb fst snd]. apply andb_true_intro. split.
    + unfold plan_targets. cbn. rewrite Z.eqb_refl. cbn. exact Htab.
    + rewrite forallb_forall in Hfd. apply forallb_forall. intros tb Htb.
      rewrite plan_targets_other; [apply Hfd; exact Htb|].
      intros Heq. apply Hnin. rewrite <- Hmt, <- Heq. apply in_map. exact Htb.
Qed.

(* decoding a written file returns exactly what was written (code as it is now) *)
Theorem decode_written_file cf plan input out tabs :
  mav cf = false -> plan_wf plan -> plan_diploid plan -> wf_input input -> targets_exist plan input ->
  NoDup (map fst plan) -> map fst plan = runs input ->
  phase_writer cf fix_rules plan input = Ok out ->
  read_file fix_guard (only_snvs cf) (mav cf) out = Ok tabs ->
  map fst tabs = map fst plan /\ file_decodes cf plan tabs = true.
Proof.
  intros Hmav W D Wf Tx ND Hp H Hr. rewrite phase_writer_simple in H by exact Hp.
  eapply simple_read; eauto.
Qed.
