From Coq Require Import ZArith List Bool Arith Lia Permutation.
From WH.Model Require Import Haplotag.
Import ListNotations.
Open Scope Z_scope.
(* Swap symmetry of the haplotag model (property C10):
   permuting the haplotype columns of one phase set bs of the variant table (new column j = old
   column p[j]) changes the prepared state / the written tags exactly by  h |-> pos_in h p  for the
   decisions whose phase set is bs, and nothing else. *)

Definition swap_dec (p : list nat) (bs : Z) (d : decision) : decision :=
  let '(h, q, ps) := d in if ps =? bs then (pos_in h p, q, ps) else d.
Definition swap_state (p : list nat) (bs : Z) (st : pstate) : pstate :=
  mkSt (processed st)
       (map (fun e => (fst e, swap_dec p bs (snd e))) (r2h st))
       (map (fun e => (fst e, map (fun c => let '(s, h, ps) := c in if ps =? bs then (s, pos_in h p, ps) else c) (snd e))) (bx2h st)).
Definition phases_ok (pl : nat) (rows : list vrow) : Prop :=
  forall pos hom b ph, In (pos, hom, Some (b, ph)) rows -> length ph = pl.

(* ------------------------------------------------------------------------------------------------ *)
(* dictionaries under a key-preserving map *)
Definition mapv {A B : Type} (g : Z -> A -> B) (m : list (Z * A)) : list (Z * B) :=
  map (fun e => (fst e, g (fst e) (snd e))) m.

Lemma lookup_mapv : forall (A B : Type) (g : Z -> A -> B) k m,
  lookup k (mapv g m) = option_map (g k) (lookup k m).
Proof.
  intros A B g k m. induction m as [|[k' v] t IH]; cbn [mapv map lookup fst snd option_map].
  - reflexivity.
  - destruct (k =? k') eqn:E.
    + apply Z.eqb_eq in E. subst k'. reflexivity.
    + exact IH.
Qed.

Lemma upd_mapv : forall (A B : Type) (g : Z -> A -> B) k v m,
  upd k (g k v) (mapv g m) = mapv g (upd k v m).
Proof.
  intros A B g k v m. induction m as [|[k' v'] t IH]; cbn [mapv map upd fst snd].
  - reflexivity.
  - destruct (k =? k') eqn:E; cbn [map fst snd].
    + reflexivity.
    + f_equal. exact IH.
Qed.

Lemma lookup_upd : forall (A : Type) k k' (v : A) m,
  lookup k (upd k' v m) = if k =? k' then Some v else lookup k m.
Proof.
  intros A k k' v m. induction m as [|[k2 v2] t IH]; cbn [upd lookup].
  - reflexivity.
  - destruct (k' =? k2) eqn:E2; cbn [lookup].
    + apply Z.eqb_eq in E2. subst k2. destruct (k =? k'); reflexivity.
    + rewrite IH. destruct (k =? k2) eqn:E3; [|reflexivity].
      apply Z.eqb_eq in E3. subst k2. rewrite Z.eqb_sym, E2. reflexivity.
Qed.

Lemma lookup_In : forall (A : Type) k (v : A) m, lookup k m = Some v -> In (k, v) m.
Proof.
  intros A k v m. induction m as [|[k' v'] t IH]; cbn [lookup]; intros H.
  - discriminate.
  - destruct (k =? k') eqn:E.
    + apply Z.eqb_eq in E. subst k'. injection H as ->. left. reflexivity.
    + right. exact (IH H).
Qed.

Lemma Forall_upd : forall (A : Type) (P : Z * A -> Prop) k v m,
  Forall P m -> P (k, v) -> Forall P (upd k v m).
Proof.
  intros A P k v m Hm Hkv. induction Hm as [|[k' v'] t Hx Ht IH]; cbn [upd].
  - constructor; [exact Hkv|constructor].
  - destruct (k =? k'); constructor; assumption.
Qed.

(* ------------------------------------------------------------------------------------------------ *)
(* 1. the table of the permuted rows *)
Lemma swap_phaseinfo_gen : forall p bs rows acc,
  fold_left (fun m r => match r with (ps, _, Some ph) => upd ps ph m | _ => m end)
            (swap_rows p bs rows) (mapv (fun _ => swap_phase p bs) acc)
  = mapv (fun _ => swap_phase p bs)
         (fold_left (fun m (r : vrow) => match r with (ps, _, Some ph) => upd ps ph m | _ => m end) rows acc).
Proof.
  intros p bs rows. induction rows as [|[[pos hom] [ph|]] t IH]; intros acc; cbn [swap_rows map fold_left].
  - reflexivity.
  - rewrite (upd_mapv _ _ (fun _ => swap_phase p bs)). apply IH.
  - apply IH.
Qed.

Theorem swap_phaseinfo : forall p bs rows,
  phaseinfo (swap_rows p bs rows) = map (fun e => (fst e, swap_phase p bs (snd e))) (phaseinfo rows).
Proof.
  intros p bs rows. unfold phaseinfo.
  exact (swap_phaseinfo_gen p bs rows []).
Qed.

(* ------------------------------------------------------------------------------------------------ *)
(* permutations of the column indices *)
Lemma perm_lt : forall p n, Permutation p (seq 0 n) -> forall j, In j p -> (j < n)%nat.
Proof.
  intros p n Hp j Hj. apply (Permutation_in _ Hp) in Hj. apply in_seq in Hj. lia.
Qed.
Lemma perm_length : forall p n, Permutation p (seq 0 n) -> length p = n.
Proof.
  intros p n Hp. rewrite (Permutation_length Hp). apply seq_length.
Qed.
Lemma perm_NoDup : forall p n, Permutation p (seq 0 n) -> NoDup p.
Proof.
  intros p n Hp. apply (Permutation_NoDup (Permutation_sym Hp)). apply seq_NoDup.
Qed.

Lemma permute_length : forall (A : Type) (d : A) p v, length (permute d p v) = length p.
Proof. intros A d p v. unfold permute. apply map_length. Qed.

Lemma map_nth_seq : forall (A : Type) (d : A) v, map (fun j => nth j v d) (seq 0 (length v)) = v.
Proof.
  intros A d v. induction v as [|x t IH]; cbn [length seq map nth].
  - reflexivity.
  - f_equal. rewrite <- seq_shift, map_map. cbn [nth]. exact IH.
Qed.

Lemma permute_Permutation : forall (A : Type) (d : A) p v,
  Permutation p (seq 0 (length v)) -> Permutation (permute d p v) v.
Proof.
  intros A d p v Hp. unfold permute.
  apply Permutation_trans with (map (fun j => nth j v d) (seq 0 (length v))).
  - apply Permutation_map. exact Hp.
  - rewrite map_nth_seq. apply Permutation_refl.
Qed.

Lemma existsb_Permutation : forall (A : Type) (f : A -> bool) l l',
  Permutation l l' -> existsb f l = existsb f l'.
Proof.
  intros A f l l' H. induction H as [|x l l' H IH|x y l|l l' l'' H1 IH1 H2 IH2]; cbn [existsb].
  - reflexivity.
  - rewrite IH. reflexivity.
  - destruct (f x), (f y); reflexivity.
  - rewrite IH1. exact IH2.
Qed.

Lemma permute_repeat0 : forall p n, (forall j, In j p -> (j < n)%nat) ->
  permute 0 p (repeat 0 n) = repeat 0 (length p).
Proof.
  intros p n. unfold permute. induction p as [|j t IH]; intros Hlt; cbn [map length repeat].
  - reflexivity.
  - f_equal.
    + apply nth_repeat.
    + apply IH. intros k Hk. apply Hlt. right. exact Hk.
Qed.

(* ------------------------------------------------------------------------------------------------ *)
(* 2. score accumulation *)
Lemma add_match_length : forall v ph al q, length (add_match v ph al q) = length v.
Proof.
  intros v. induction v as [|x t IH]; intros ph al q; cbn [add_match length].
  - reflexivity.
  - destruct ph as [|a ph']; cbn [length]; [reflexivity|]. rewrite IH. reflexivity.
Qed.

Lemma nth_add_match : forall v ph al q i, length v = length ph -> (i < length v)%nat ->
  nth i (add_match v ph al q) 0 = if nth i ph 0 =? al then nth i v 0 + q else nth i v 0.
Proof.
  intros v. induction v as [|x t IH]; intros ph al q i Hl Hi; cbn [length] in *.
  - lia.
  - destruct ph as [|a ph']; cbn [length] in Hl; [lia|]. cbn [add_match].
    destruct i as [|i]; cbn [nth].
    + reflexivity.
    + apply IH; lia.
Qed.

Lemma add_match_permute : forall p v ph al q, length v = length ph ->
  (forall j, In j p -> (j < length v)%nat) ->
  add_match (permute 0 p v) (permute 0 p ph) al q = permute 0 p (add_match v ph al q).
Proof.
  intros p v ph al q Hl. unfold permute. induction p as [|j t IH]; intros Hlt; cbn [map add_match].
  - reflexivity.
  - rewrite (nth_add_match v ph al q j Hl (Hlt j (or_introl eq_refl))).
    f_equal. apply IH. intros k Hk. apply Hlt. right. exact Hk.
Qed.

Definition swap_vec (p : list nat) (bs : Z) (k : Z) (v : list Z) : list Z :=
  if k =? bs then permute 0 p v else v.

Definition vec_ok (pl : nat) (costs : list (Z * list Z)) : Prop :=
  Forall (fun e => length (snd e) = pl) costs.
Definition inf_ok (pl : nat) (inf : info) : Prop :=
  forall pos b ph, lookup pos inf = Some (b, ph) -> length ph = pl.

Lemma swap_acc_var : forall p bs inf pl costs var,
  Permutation p (seq 0 pl) -> inf_ok pl inf -> vec_ok pl costs ->
  acc_var (mapv (fun _ => swap_phase p bs) inf) pl (mapv (swap_vec p bs) costs) var
  = mapv (swap_vec p bs) (acc_var inf pl costs var)
  /\ vec_ok pl (acc_var inf pl costs var).
Proof.
  intros p bs inf pl costs [[pos al] q] Hp Hinf Hc. unfold acc_var.
  rewrite lookup_mapv.
  destruct (lookup pos inf) as [[ps ph]|] eqn:El; cbn [option_map].
  2:{ split; [reflexivity|exact Hc]. }
  pose proof (Hinf pos ps ph El) as Hph.
  assert (Hv : length (match lookup ps costs with Some v => v | None => repeat 0 pl end) = pl).
  { destruct (lookup ps costs) as [v|] eqn:Ev.
    - apply lookup_In in Ev. unfold vec_ok in Hc. rewrite Forall_forall in Hc. exact (Hc _ Ev).
    - apply repeat_length. }
  assert (Hex : existsb (Z.eqb al) (snd (swap_phase p bs (ps, ph))) = existsb (Z.eqb al) ph).
  { unfold swap_phase. cbn [fst snd]. destruct (ps =? bs); cbn [snd]; [|reflexivity].
    apply existsb_Permutation. apply permute_Permutation. rewrite Hph. exact Hp. }
  assert (Hfst : fst (swap_phase p bs (ps, ph)) = ps).
  { unfold swap_phase. cbn [fst]. destruct (ps =? bs); reflexivity. }
  destruct (swap_phase p bs (ps, ph)) as [ps' ph'] eqn:Esw. cbn [fst snd] in Hex, Hfst. subst ps'.
  rewrite Hex.
  destruct (existsb (Z.eqb al) ph) eqn:Eex.
  2:{ split; [reflexivity|exact Hc]. }
  split.
  - rewrite lookup_mapv.
    rewrite <- (upd_mapv _ _ (swap_vec p bs)). f_equal.
    unfold swap_phase in Esw. cbn [fst snd] in Esw. unfold swap_vec.
    destruct (ps =? bs) eqn:Eb.
    + injection Esw as <-.
      rewrite <- add_match_permute.
      * f_equal. destruct (lookup ps costs) as [v|]; cbn [option_map]; [reflexivity|].
        rewrite permute_repeat0; [|exact (perm_lt p pl Hp)].
        rewrite (perm_length p pl Hp). reflexivity.
      * rewrite Hv, Hph. reflexivity.
      * rewrite Hv. exact (perm_lt p pl Hp).
    + injection Esw as <-. f_equal.
      destruct (lookup ps costs) as [v|]; reflexivity.
  - apply Forall_upd; [exact Hc|]. cbn [snd]. rewrite add_match_length. exact Hv.
Qed.

Lemma swap_acc_read : forall p bs inf pl r costs,
  Permutation p (seq 0 pl) -> inf_ok pl inf -> vec_ok pl costs ->
  acc_read (mapv (fun _ => swap_phase p bs) inf) pl (mapv (swap_vec p bs) costs) r
  = mapv (swap_vec p bs) (acc_read inf pl costs r)
  /\ vec_ok pl (acc_read inf pl costs r).
Proof.
  intros p bs inf pl r costs Hp Hinf. unfold acc_read.
  generalize (r_vars r) as vars. intros vars. revert costs.
  induction vars as [|var t IH]; intros costs Hc; cbn [fold_left].
  - split; [reflexivity|exact Hc].
  - destruct (swap_acc_var p bs inf pl costs var Hp Hinf Hc) as [E Hc'].
    rewrite E. apply IH. exact Hc'.
Qed.

Lemma swap_acc_group_gen : forall p bs inf pl g costs,
  Permutation p (seq 0 pl) -> inf_ok pl inf -> vec_ok pl costs ->
  fold_left (acc_read (mapv (fun _ => swap_phase p bs) inf) pl) g (mapv (swap_vec p bs) costs)
  = mapv (swap_vec p bs) (fold_left (acc_read inf pl) g costs)
  /\ vec_ok pl (fold_left (acc_read inf pl) g costs).
Proof.
  intros p bs inf pl g costs Hp Hinf. revert costs.
  induction g as [|r t IH]; intros costs Hc; cbn [fold_left].
  - split; [reflexivity|exact Hc].
  - destruct (swap_acc_read p bs inf pl r costs Hp Hinf Hc) as [E Hc'].
    rewrite E. apply IH. exact Hc'.
Qed.

Lemma swap_vec_form : forall p bs (m : list (Z * list Z)),
  map (fun e => if fst e =? bs then (fst e, permute 0 p (snd e)) else e) m = mapv (swap_vec p bs) m.
Proof.
  intros p bs m. unfold mapv. apply map_ext. intros [k v]. unfold swap_vec. cbn [fst snd].
  destruct (k =? bs); reflexivity.
Qed.

Theorem swap_acc_group : forall p bs inf pl g,
  Permutation p (seq 0 pl) ->
  (forall pos b ph, lookup pos inf = Some (b, ph) -> length ph = pl) ->
  acc_group (map (fun e => (fst e, swap_phase p bs (snd e))) inf) pl g
  = map (fun e => if fst e =? bs then (fst e, permute 0 p (snd e)) else e) (acc_group inf pl g)
  /\ Forall (fun e => length (snd e) = pl) (acc_group inf pl g).
Proof.
  intros p bs inf pl g Hp Hinf. rewrite swap_vec_form. unfold acc_group.
  exact (swap_acc_group_gen p bs inf pl g [] Hp Hinf (Forall_nil _)).
Qed.

(* ------------------------------------------------------------------------------------------------ *)
(* 3. the maximum, the winner within a phase set, the winning phase set *)
Lemma fold_max_ge_init : forall t x, x <= fold_left Z.max t x.
Proof.
  intros t. induction t as [|y t IH]; intros x; cbn [fold_left].
  - lia.
  - specialize (IH (Z.max x y)). lia.
Qed.
Lemma fold_max_ge_in : forall t x y, In y t -> y <= fold_left Z.max t x.
Proof.
  intros t. induction t as [|z t IH]; intros x y Hy; cbn [fold_left].
  - destruct Hy.
  - destruct Hy as [->|Hy].
    + pose proof (fold_max_ge_init t (Z.max x y)). lia.
    + apply IH. exact Hy.
Qed.
Lemma fold_max_in : forall t x, fold_left Z.max t x = x \/ In (fold_left Z.max t x) t.
Proof.
  intros t. induction t as [|z t IH]; intros x; cbn [fold_left].
  - left. reflexivity.
  - destruct (IH (Z.max x z)) as [E|Hin].
    + rewrite E. destruct (Z.max_spec x z) as [[_ ->]|[_ ->]]; [right; left; reflexivity|left; reflexivity].
    + right. right. exact Hin.
Qed.

Lemma maxl_ge : forall v y, In y v -> y <= maxl v.
Proof.
  intros [|x t] y Hy; cbn [maxl].
  - destruct Hy.
  - destruct Hy as [->|Hy]; [apply fold_max_ge_init|apply fold_max_ge_in; exact Hy].
Qed.
Lemma maxl_in : forall v, v <> [] -> In (maxl v) v.
Proof.
  intros [|x t] Hne; [congruence|]. cbn [maxl].
  destruct (fold_max_in t x) as [E|Hin]; [left; symmetry; exact E|right; exact Hin].
Qed.

Lemma maxl_Permutation : forall v v', Permutation v v' -> maxl v = maxl v'.
Proof.
  intros v v' H. destruct v as [|x t].
  - apply Permutation_nil in H. subst v'. reflexivity.
  - assert (Hne' : v' <> []).
    { intros ->. apply Permutation_sym, Permutation_nil in H. discriminate. }
    assert (Hne : x :: t <> []) by discriminate.
    pose proof (maxl_in _ Hne) as H1. pose proof (maxl_in _ Hne') as H2.
    apply (Permutation_in _ H) in H1. apply (Permutation_in _ (Permutation_sym H)) in H2.
    apply maxl_ge in H1. apply maxl_ge in H2. lia.
Qed.

Lemma maxl_permute : forall p v, Permutation p (seq 0 (length v)) -> maxl (permute 0 p v) = maxl v.
Proof. intros p v Hp. apply maxl_Permutation. apply permute_Permutation. exact Hp. Qed.

(* remove_nth (index_of m v) v removes the first occurrence of m *)
Lemma remove_first_Permutation : forall m v, In m v ->
  Permutation v (m :: remove_nth (index_of m v) v).
Proof.
  intros m v. induction v as [|x t IH]; intros Hin; cbn [index_of].
  - destruct Hin.
  - destruct (x =? m) eqn:E; cbn [remove_nth].
    + apply Z.eqb_eq in E. subst x. apply Permutation_refl.
    + destruct Hin as [->|Hin]; [rewrite Z.eqb_refl in E; discriminate|].
      apply Permutation_trans with (x :: m :: remove_nth (index_of m t) t).
      * apply perm_skip. exact (IH Hin).
      * apply perm_swap.
Qed.

Lemma nth_index_of : forall m v, In m v -> nth (index_of m v) v 0 = m /\ (index_of m v < length v)%nat.
Proof.
  intros m v. induction v as [|x t IH]; intros Hin; cbn [index_of].
  - destruct Hin.
  - destruct (x =? m) eqn:E; cbn [nth length].
    + apply Z.eqb_eq in E. split; [exact E|lia].
    + destruct Hin as [->|Hin]; [rewrite Z.eqb_refl in E; discriminate|].
      destruct (IH Hin) as [H1 H2]. split; [exact H1|lia].
Qed.

Lemma in_remove_nth_other : forall v h j, j <> h -> (j < length v)%nat -> In (nth j v 0) (remove_nth h v).
Proof.
  intros v. induction v as [|x t IH]; intros h j Hne Hj; cbn [length] in Hj.
  - lia.
  - destruct h as [|h]; cbn [remove_nth].
    + destruct j as [|j]; [congruence|]. cbn [nth]. apply nth_In. lia.
    + destruct j as [|j]; cbn [nth].
      * left. reflexivity.
      * right. apply IH; lia.
Qed.

Lemma in_remove_nth_sub : forall v h y, In y (remove_nth h v) -> In y v.
Proof.
  intros v. induction v as [|x t IH]; intros h y Hy.
  - destruct h; destruct Hy.
  - destruct h as [|h]; cbn [remove_nth] in Hy.
    + right. exact Hy.
    + destruct Hy as [->|Hy]; [left; reflexivity|right; exact (IH h y Hy)].
Qed.

Lemma pos_in_cons : forall h x t, pos_in h (x :: t) = if Nat.eqb x h then 0%nat else S (pos_in h t).
Proof. intros h x t. reflexivity. Qed.

Lemma index_of_map_pos_in : forall (f : nat -> Z) m h p,
  (forall j, In j p -> (f j = m <-> j = h)) ->
  index_of m (map f p) = pos_in h p.
Proof.
  intros f m h p. induction p as [|x t IH]; intros Hf.
  - reflexivity.
  - rewrite pos_in_cons. cbn [map index_of].
    destruct (Hf x (or_introl eq_refl)) as [H1 H2].
    destruct (Nat.eqb x h) eqn:E.
    + apply Nat.eqb_eq in E. rewrite (H2 E), Z.eqb_refl. reflexivity.
    + apply Nat.eqb_neq in E. destruct (f x =? m) eqn:E2.
      * apply Z.eqb_eq in E2. elim E. exact (H1 E2).
      * f_equal. apply IH. intros j Hj. apply Hf. right. exact Hj.
Qed.

Theorem swap_best_of : forall p v,
  Permutation p (seq 0 (length v)) -> (2 <= length v)%nat ->
  best_of (permute 0 p v) = option_map (fun hq => (pos_in (fst hq) p, snd hq)) (best_of v).
Proof.
  intros p v Hp Hlen.
  pose proof (permute_Permutation Z 0 p v Hp) as HP.
  assert (Hne : v <> []) by (intros ->; cbn [length] in Hlen; lia).
  pose proof (maxl_in v Hne) as Hmin.
  assert (Hmin' : In (maxl v) (permute 0 p v)).
  { exact (Permutation_in _ (Permutation_sym HP) Hmin). }
  unfold best_of. rewrite (maxl_permute p v Hp).
  set (m := maxl v) in *.
  assert (Hq : maxl (remove_nth (index_of m (permute 0 p v)) (permute 0 p v))
               = maxl (remove_nth (index_of m v) v)).
  { apply maxl_Permutation. apply (Permutation_cons_inv (a := m)).
    apply Permutation_trans with (permute 0 p v).
    - apply Permutation_sym. apply remove_first_Permutation. exact Hmin'.
    - apply Permutation_trans with v; [exact HP|].
      apply remove_first_Permutation. exact Hmin. }
  rewrite Hq.
  destruct (m - maxl (remove_nth (index_of m v) v) =? 0) eqn:Eq; cbn [option_map fst snd].
  - reflexivity.
  - apply Z.eqb_neq in Eq. f_equal. f_equal.
    unfold permute. apply index_of_map_pos_in.
    intros j Hj. pose proof (perm_lt p (length v) Hp j Hj) as Hjl.
    destruct (nth_index_of m v Hmin) as [Hn Hl].
    split.
    + intros Hjm. destruct (Nat.eq_dec j (index_of m v)) as [E|E]; [exact E|].
      exfalso. apply Eq.
      pose proof (in_remove_nth_other v (index_of m v) j E Hjl) as Hin.
      rewrite Hjm in Hin.
      pose proof (maxl_ge _ _ Hin) as Hge.
      assert (Hne2 : remove_nth (index_of m v) v <> []) by (intros E0; rewrite E0 in Hin; destruct Hin).
      pose proof (maxl_in _ Hne2) as Hin2. apply in_remove_nth_sub in Hin2.
      apply maxl_ge in Hin2. fold m in Hin2. lia.
    + intros ->. exact Hn.
Qed.

Lemma swap_first_best_gen : forall (g : Z -> list Z -> list Z) l,
  (forall e, In e l -> maxl (g (fst e) (snd e)) = maxl (snd e)) ->
  first_best (mapv g l) = option_map (fun e => (fst e, g (fst e) (snd e))) (first_best l).
Proof.
  intros g l. induction l as [|e t IH]; intros Hm; cbn [mapv map first_best].
  - reflexivity.
  - fold (mapv g t). rewrite IH by (intros e' He'; apply Hm; right; exact He').
    assert (Hin : forall b, first_best t = Some b -> In b t).
    { clear. induction t as [|e t IH]; cbn [first_best]; intros b Hb; [discriminate|].
      destruct (first_best t) as [b'|].
      - destruct (maxl (snd b') >? maxl (snd e)); injection Hb as <-;
          [right; apply IH; reflexivity|left; reflexivity].
      - injection Hb as <-. left. reflexivity. }
    destruct (first_best t) as [b|] eqn:Eb; cbn [option_map snd].
    + rewrite (Hm b (or_intror (Hin b eq_refl))), (Hm e (or_introl eq_refl)).
      destruct (maxl (snd b) >? maxl (snd e)); reflexivity.
    + reflexivity.
Qed.

Theorem swap_first_best : forall p bs pl l,
  Permutation p (seq 0 pl) -> Forall (fun e => length (snd e) = pl) l ->
  first_best (map (fun e => if fst e =? bs then (fst e, permute 0 p (snd e)) else e) l)
  = option_map (fun e => if fst e =? bs then (fst e, permute 0 p (snd e)) else e) (first_best l).
Proof.
  intros p bs pl l Hp Hl. rewrite swap_vec_form. rewrite swap_first_best_gen.
  - destruct (first_best l) as [[k v]|]; cbn [option_map fst snd]; [|reflexivity].
    unfold swap_vec. destruct (k =? bs); reflexivity.
  - intros [k v] He. cbn [fst snd]. unfold swap_vec. destruct (k =? bs); [|reflexivity].
    apply maxl_permute. rewrite Forall_forall in Hl. pose proof (Hl _ He) as Hk. cbn [snd] in Hk. rewrite Hk. exact Hp.
Qed.

(* ------------------------------------------------------------------------------------------------ *)
(* 4. the decision for one group of reads *)
Lemma phaseinfo_from_rows_gen : forall rows acc pos ph,
  lookup pos (fold_left (fun m (r : vrow) => match r with (ps, _, Some ph) => upd ps ph m | _ => m end) rows acc)
  = Some ph ->
  lookup pos acc = Some ph \/ exists hom, In (pos, hom, Some ph) rows.
Proof.
  intros rows. induction rows as [|[[pos' hom'] [ph'|]] t IH]; intros acc pos ph H; cbn [fold_left] in H.
  - left. exact H.
  - destruct (IH _ _ _ H) as [H1|[hom H1]].
    + rewrite lookup_upd in H1. destruct (pos =? pos') eqn:E.
      * apply Z.eqb_eq in E. subst pos'. injection H1 as ->.
        right. exists hom'. left. reflexivity.
      * left. exact H1.
    + right. exists hom. right. exact H1.
  - destruct (IH _ _ _ H) as [H1|[hom H1]].
    + left. exact H1.
    + right. exists hom. right. exact H1.
Qed.

Lemma phaseinfo_inf_ok : forall pl rows, phases_ok pl rows -> inf_ok pl (phaseinfo rows).
Proof.
  intros pl rows Hok pos b ph H. unfold phaseinfo in H.
  destruct (phaseinfo_from_rows_gen rows [] pos (b, ph) H) as [H1|[hom H1]].
  - discriminate.
  - exact (Hok pos hom b ph H1).
Qed.

Theorem swap_decide : forall p bs rows pl g,
  Permutation p (seq 0 pl) -> (2 <= pl)%nat -> phases_ok pl rows ->
  decide (phaseinfo (swap_rows p bs rows)) pl g = option_map (swap_dec p bs) (decide (phaseinfo rows) pl g).
Proof.
  intros p bs rows pl g Hp Hpl Hok. unfold decide.
  rewrite swap_phaseinfo.
  destruct (swap_acc_group p bs (phaseinfo rows) pl g Hp (phaseinfo_inf_ok pl rows Hok)) as [E Hlen].
  rewrite E. rewrite (swap_first_best p bs pl _ Hp Hlen).
  destruct (first_best (acc_group (phaseinfo rows) pl g)) as [[ps scores]|] eqn:Efb; cbn [option_map fst snd].
  2:{ reflexivity. }
  assert (Hs : length scores = pl).
  { assert (Hin : forall l b, first_best l = Some b -> In b l).
    { clear. induction l as [|e t IH]; cbn [first_best]; intros b Hb; [discriminate|].
      destruct (first_best t) as [b'|].
      - destruct (maxl (snd b') >? maxl (snd e)); injection Hb as <-;
          [right; apply IH; reflexivity|left; reflexivity].
      - injection Hb as <-. left. reflexivity. }
    rewrite Forall_forall in Hlen. exact (Hlen _ (Hin _ _ Efb)). }
  destruct (ps =? bs) eqn:Eb.
  - rewrite swap_best_of by (rewrite Hs; assumption).
    destruct (best_of scores) as [[h q]|]; cbn [option_map fst snd swap_dec].
    + rewrite Eb. reflexivity.
    + reflexivity.
  - destruct (best_of scores) as [[h q]|]; cbn [option_map swap_dec].
    + rewrite Eb. reflexivity.
    + reflexivity.
Qed.

(* ------------------------------------------------------------------------------------------------ *)
(* 5. prepare_haplotag_information *)
Definition swap_cloud (p : list nat) (bs : Z) (c : Z * nat * Z) : Z * nat * Z :=
  let '(s, h, ps) := c in if ps =? bs then (s, pos_in h p, ps) else c.

Lemma swap_state_form : forall p bs st,
  swap_state p bs st = mkSt (processed st) (mapv (fun _ => swap_dec p bs) (r2h st))
                            (mapv (fun _ => map (swap_cloud p bs)) (bx2h st)).
Proof. intros p bs st. reflexivity. Qed.

Lemma fold_upd_mapv : forall (A B : Type) (f : A -> B) (d : A) (g : list read) m,
  fold_left (fun m r => upd (r_name r) (f d) m) g (mapv (fun _ => f) m)
  = mapv (fun _ => f) (fold_left (fun m r => upd (r_name r) d m) g m).
Proof.
  intros A B f d g. induction g as [|r t IH]; intros m; cbn [fold_left].
  - reflexivity.
  - rewrite (upd_mapv _ _ (fun _ => f)). apply IH.
Qed.

Lemma app_at_mapv : forall (A B : Type) (f : A -> B) k x m,
  app_at k (f x) (mapv (fun _ => map f) m) = mapv (fun _ => map f) (app_at k x m).
Proof.
  intros A B f k x m. unfold app_at, lookup_list.
  rewrite lookup_mapv. rewrite <- (upd_mapv _ _ (fun _ => map f)). f_equal.
  rewrite map_app. cbn [map]. f_equal.
  destruct (lookup k m); reflexivity.
Qed.

Lemma swap_step : forall p bs cfg rows rs st rd,
  Permutation p (seq 0 (ploidy cfg)) -> (2 <= ploidy cfg)%nat -> phases_ok (ploidy cfg) rows ->
  step cfg (phaseinfo (swap_rows p bs rows)) rs (swap_state p bs st) rd
  = swap_state p bs (step cfg (phaseinfo rows) rs st rd).
Proof.
  intros p bs cfg rows rs st rd Hp Hpl Hok. unfold step.
  change (processed (swap_state p bs st)) with (processed st).
  destruct (memZ (r_name rd) (processed st)); [reflexivity|].
  rewrite (swap_decide p bs rows (ploidy cfg) _ Hp Hpl Hok).
  destruct (decide (phaseinfo rows) (ploidy cfg) (group_of cfg rs (r_name rd :: processed st) rd))
    as [d|]; cbn [option_map].
  2:{ reflexivity. }
  rewrite !swap_state_form. cbn [processed r2h bx2h]. f_equal.
  - apply fold_upd_mapv.
  - destruct (linked cfg); [|reflexivity]. destruct (r_bx rd) as [b|]; [|reflexivity].
    rewrite <- app_at_mapv. f_equal.
    destruct d as [[h q] ps]. cbn [swap_dec swap_cloud fst snd].
    destruct (ps =? bs); reflexivity.
Qed.

Lemma swap_prepare_sample : forall p bs cfg st s,
  Permutation p (seq 0 (ploidy cfg)) -> (2 <= ploidy cfg)%nat -> phases_ok (ploidy cfg) (fst s) ->
  prepare_sample cfg (swap_state p bs st) (swap_rows p bs (fst s), snd s)
  = swap_state p bs (prepare_sample cfg st s).
Proof.
  intros p bs cfg st [rows rs] Hp Hpl Hok. unfold prepare_sample. cbn [fst snd] in *.
  change (mkSt [] (r2h (swap_state p bs st)) (bx2h (swap_state p bs st)))
    with (swap_state p bs (mkSt [] (r2h st) (bx2h st))).
  generalize (mkSt [] (r2h st) (bx2h st)) as st0.
  generalize rs at 2 4 as l.
  induction l as [|rd t IH]; intros st0; cbn [fold_left].
  - reflexivity.
  - rewrite (swap_step p bs cfg rows rs st0 rd Hp Hpl Hok). apply IH.
Qed.

Lemma swap_prepare_gen : forall p bs cfg samples st,
  Permutation p (seq 0 (ploidy cfg)) -> (2 <= ploidy cfg)%nat ->
  (forall s, In s samples -> phases_ok (ploidy cfg) (fst s)) ->
  fold_left (prepare_sample cfg) (swap_samples p bs samples) (swap_state p bs st)
  = swap_state p bs (fold_left (prepare_sample cfg) samples st).
Proof.
  intros p bs cfg samples st Hp Hpl. revert st.
  induction samples as [|s t IH]; intros st Hok; cbn [swap_samples map fold_left].
  - reflexivity.
  - rewrite (swap_prepare_sample p bs cfg st s Hp Hpl (Hok s (or_introl eq_refl))).
    apply IH. intros s' Hs'. apply Hok. right. exact Hs'.
Qed.

Theorem swap_prepare : forall p bs cfg samples,
  Permutation p (seq 0 (ploidy cfg)) -> (2 <= ploidy cfg)%nat ->
  (forall s, In s samples -> phases_ok (ploidy cfg) (fst s)) ->
  prepare cfg (swap_samples p bs samples) = swap_state p bs (prepare cfg samples).
Proof.
  intros p bs cfg samples Hp Hpl Hok. unfold prepare.
  exact (swap_prepare_gen p bs cfg samples (mkSt [] [] []) Hp Hpl Hok).
Qed.

(* ------------------------------------------------------------------------------------------------ *)
(* 6. the tags written *)
Lemma find_map_fst : forall (A : Type) (P : A -> bool) (F : A -> A) l,
  (forall c, P (F c) = P c) -> find P (map F l) = option_map F (find P l).
Proof.
  intros A P F l HP. induction l as [|c t IH]; cbn [map find].
  - reflexivity.
  - rewrite HP. destruct (P c); [reflexivity|exact IH].
Qed.

Lemma swap_tag_state : forall p bs cfg st a,
  tag_aln cfg (swap_state p bs st) a = swap_tags p bs (tag_aln cfg st a).
Proof.
  intros p bs cfg st a. unfold tag_aln. rewrite swap_state_form. cbn [r2h bx2h].
  rewrite lookup_mapv.
  destruct (lookup (a_name a) (r2h st)) as [[[h q] ps]|]; cbn [option_map swap_dec].
  - cbn [swap_tags]. destruct (ps =? bs); [|reflexivity].
    replace (Z.to_nat (Z.of_nat h + 1 - 1)) with h by lia. reflexivity.
  - destruct (linked cfg); [|reflexivity].
    destruct (a_bx a) as [b|]; [|reflexivity].
    unfold lookup_list. rewrite lookup_mapv.
    destruct (lookup b (bx2h st)) as [clouds|]; cbn [option_map]; [|reflexivity].
    rewrite find_map_fst.
    2:{ intros [[s h] ps]. cbn [swap_cloud]. destruct (ps =? bs); reflexivity. }
    destruct (find (fun c => close (cutoff cfg) (fst (fst c)) (a_start a)) clouds) as [[[s h] ps]|];
      cbn [option_map swap_cloud]; [|reflexivity].
    cbn [swap_tags]. destruct (ps =? bs); [|reflexivity].
    replace (Z.to_nat (Z.of_nat h + 1 - 1)) with h by lia. reflexivity.
Qed.

Theorem swap_tag_aln : forall p bs cfg samples a,
  Permutation p (seq 0 (ploidy cfg)) -> (2 <= ploidy cfg)%nat ->
  (forall s, In s samples -> phases_ok (ploidy cfg) (fst s)) ->
  tag_aln cfg (prepare cfg (swap_samples p bs samples)) a
  = swap_tags p bs (tag_aln cfg (prepare cfg samples) a).
Proof.
  intros p bs cfg samples a Hp Hpl Hok.
  rewrite (swap_prepare p bs cfg samples Hp Hpl Hok). apply swap_tag_state.
Qed.

Theorem swap_out_rec : forall p bs cfg samples a,
  Permutation p (seq 0 (ploidy cfg)) -> (2 <= ploidy cfg)%nat ->
  (forall s, In s samples -> phases_ok (ploidy cfg) (fst s)) ->
  out_rec cfg (prepare cfg (swap_samples p bs samples)) a
  = (fst (out_rec cfg (prepare cfg samples) a), swap_tags p bs (snd (out_rec cfg (prepare cfg samples) a))).
Proof.
  intros p bs cfg samples a Hp Hpl Hok. unfold out_rec. cbn [fst snd]. f_equal.
  destruct (ignore_read cfg a); [reflexivity|].
  apply swap_tag_aln; assumption.
Qed.

Theorem swap_out_of_plan : forall p bs cfg (pl : plan),
  Permutation p (seq 0 (ploidy cfg)) -> (2 <= ploidy cfg)%nat ->
  (forall x s, In x pl -> In s (c_samples (snd (fst x))) -> phases_ok (ploidy cfg) (fst s)) ->
  out_of_plan cfg (map (fun x => (fst (fst x), swap_chrom p bs (snd (fst x)), snd x)) pl)
  = map (fun o => (fst o, swap_tags p bs (snd o))) (out_of_plan cfg pl).
Proof.
  intros p bs cfg pl Hp Hpl. unfold out_of_plan.
  induction pl as [|x t IH]; intros Hok; cbn [map flat_map].
  - reflexivity.
  - rewrite map_app. rewrite IH by (intros x' s Hx' Hs; apply (Hok x' s); [right; exact Hx'|exact Hs]).
    f_equal. cbn [fst snd swap_chrom c_samples].
    rewrite map_map. apply map_ext. intros a.
    apply swap_out_rec; try assumption.
    intros s Hs. apply (Hok x s); [left; reflexivity|exact Hs].
Qed.

(* ------------------------------------------------------------------------------------------------ *)
(* 7. a phase set that occurs in one sample only *)
Theorem swap_rows_absent : forall p bs rows,
  (forall pos hom b ph, In (pos, hom, Some (b, ph)) rows -> b <> bs) ->
  swap_rows p bs rows = rows.
Proof.
  intros p bs rows. unfold swap_rows. induction rows as [|r t IH]; intros H; cbn [map].
  - reflexivity.
  - rewrite IH by (intros pos hom b ph Hin; apply (H pos hom b ph); right; exact Hin).
    f_equal. destruct r as [[pos hom] [[b ph]|]]; [|reflexivity].
    unfold swap_phase. cbn [fst snd].
    destruct (b =? bs) eqn:E; [|reflexivity].
    apply Z.eqb_eq in E. elim (H pos hom b ph (or_introl eq_refl)). exact E.
Qed.

Lemma one_sample_is_swap : forall p bs (samples samples' : list sample_in),
  length samples' = length samples ->
  (forall i s s', nth_error samples i = Some s -> nth_error samples' i = Some s' ->
     snd s' = snd s /\
     (fst s' = swap_rows p bs (fst s) \/
      (fst s' = fst s /\ forall pos hom b ph, In (pos, hom, Some (b, ph)) (fst s) -> b <> bs))) ->
  samples' = swap_samples p bs samples.
Proof.
  intros p bs samples. induction samples as [|s t IH]; intros samples' Hlen H.
  - destruct samples'; [reflexivity|discriminate].
  - destruct samples' as [|s' t']; [discriminate|]. cbn [swap_samples map]. f_equal.
    + destruct (H 0%nat s s' eq_refl eq_refl) as [H2 [H1|[H1 H3]]]; destruct s' as [rows' rs'];
        cbn [fst snd] in *; subst.
      * reflexivity.
      * rewrite (swap_rows_absent p bs (fst s) H3). reflexivity.
    + apply IH.
      * cbn [length] in Hlen. lia.
      * intros i a a' Ha Ha'. exact (H (S i) a a' Ha Ha').
Qed.

Theorem swap_one_sample : forall p bs cfg samples samples',
  Permutation p (seq 0 (ploidy cfg)) -> (2 <= ploidy cfg)%nat ->
  (forall s, In s samples -> phases_ok (ploidy cfg) (fst s)) ->
  length samples' = length samples ->
  (forall i s s', nth_error samples i = Some s -> nth_error samples' i = Some s' ->
     snd s' = snd s /\
     (fst s' = swap_rows p bs (fst s) \/
      (fst s' = fst s /\ forall pos hom b ph, In (pos, hom, Some (b, ph)) (fst s) -> b <> bs))) ->
  prepare cfg samples' = swap_state p bs (prepare cfg samples).
Proof.
  intros p bs cfg samples samples' Hp Hpl Hok Hlen H.
  rewrite (one_sample_is_swap p bs samples samples' Hlen H).
  apply swap_prepare; assumption.
Qed.

Theorem swap_one_sample_tags : forall p bs cfg samples samples' a,
  Permutation p (seq 0 (ploidy cfg)) -> (2 <= ploidy cfg)%nat ->
  (forall s, In s samples -> phases_ok (ploidy cfg) (fst s)) ->
  length samples' = length samples ->
  (forall i s s', nth_error samples i = Some s -> nth_error samples' i = Some s' ->
     snd s' = snd s /\
     (fst s' = swap_rows p bs (fst s) \/
      (fst s' = fst s /\ forall pos hom b ph, In (pos, hom, Some (b, ph)) (fst s) -> b <> bs))) ->
  out_rec cfg (prepare cfg samples') a
  = (fst (out_rec cfg (prepare cfg samples) a), swap_tags p bs (snd (out_rec cfg (prepare cfg samples) a))).
Proof.
  intros p bs cfg samples samples' a Hp Hpl Hok Hlen H.
  rewrite (one_sample_is_swap p bs samples samples' Hlen H).
  apply swap_out_rec; assumption.
Qed.

(* ------------------------------------------------------------------------------------------------ *)
(* 8. non-vacuity *)
Ltac solve_phases_ok :=
  let pos := fresh "pos" in let hom := fresh "hom" in let b := fresh "b" in let ph := fresh "ph" in
  let Hin := fresh "Hin" in
  intros pos hom b ph Hin; cbn [In fst snd] in Hin;
  repeat (destruct Hin as [Hin|Hin]; [inversion Hin; reflexivity|]); destruct Hin.

(* diploid: sample 0 has the phase sets 100 and 200, sample 1 only the phase set 300 *)
Definition ex_cfg2 : config := mkCfg 2 true 50000 false.
Definition ex_rows2a : list vrow :=
  [(10, false, Some (100, [0; 1])); (20, false, Some (100, [1; 0])); (25, true, None);
   (30, false, Some (200, [0; 1])); (40, false, Some (200, [1; 0]))].
Definition ex_reads2a : list read :=
  [mkRead 1 5 None [(10, 0, 30); (20, 1, 20)];
   mkRead 2 25 None [(30, 1, 10); (40, 0, 10)];
   mkRead 3 8 (Some 7) [(10, 1, 15)]].
Definition ex_rows2b : list vrow := [(10, false, Some (300, [1; 0]))].
Definition ex_reads2b : list read := [mkRead 5 6 None [(10, 1, 9)]].
Definition ex_samples2 : list sample_in := [(ex_rows2a, ex_reads2a); (ex_rows2b, ex_reads2b)].
Definition ex_alns2 : list aln :=
  [mkAln 101 1 5 60 false false false None no_tags;
   mkAln 102 2 25 80 false false false None no_tags;
   mkAln 103 3 8 50 false false false (Some 7) no_tags;
   mkAln 104 4 100 150 false false false (Some 7) no_tags;   (* tagged through the read cloud of BX 7 *)
   mkAln 105 5 6 40 false false false None no_tags;
   mkAln 106 6 6 40 false false false None no_tags].
Definition ex_plan2 : plan := [(0, mkChrom ex_samples2 ex_alns2, ex_alns2)].

Example ex_perm2 : Permutation [1; 0]%nat (seq 0 (ploidy ex_cfg2)).
Proof. apply perm_swap. Qed.
Example ex_phases2 : forall s, In s ex_samples2 -> phases_ok (ploidy ex_cfg2) (fst s).
Proof.
  intros s [<-|[<-|[]]]; cbn [fst ex_cfg2 ploidy]; unfold ex_rows2a, ex_rows2b; solve_phases_ok.
Qed.

(* before: read 1 -> HP 1 / PS 100, read 2 -> HP 2 / PS 200, read 3 and the cloud hit -> HP 2 / PS 100 *)
Example ex_out2 :
  out_of_plan ex_cfg2 ex_plan2 =
  [(101, (Some 1, Some 100, Some 50)); (102, (Some 2, Some 200, Some 20));
   (103, (Some 2, Some 100, Some 15)); (104, (Some 2, Some 100, None));
   (105, (Some 1, Some 300, Some 9)); (106, no_tags)].
Proof. vm_compute. reflexivity. Qed.
(* after exchanging the two columns of phase set 100: HP flips 1 <-> 2 exactly for PS 100 *)
Example ex_out2_swapped :
  out_of_plan ex_cfg2 (map (fun x => (fst (fst x), swap_chrom [1; 0]%nat 100 (snd (fst x)), snd x)) ex_plan2) =
  [(101, (Some 2, Some 100, Some 50)); (102, (Some 2, Some 200, Some 20));
   (103, (Some 1, Some 100, Some 15)); (104, (Some 1, Some 100, None));
   (105, (Some 1, Some 300, Some 9)); (106, no_tags)].
Proof. vm_compute. reflexivity. Qed.
Example ex_out2_thm :
  out_of_plan ex_cfg2 (map (fun x => (fst (fst x), swap_chrom [1; 0]%nat 100 (snd (fst x)), snd x)) ex_plan2)
  = map (fun o => (fst o, swap_tags [1; 0]%nat 100 (snd o))) (out_of_plan ex_cfg2 ex_plan2).
Proof.
  apply swap_out_of_plan.
  - exact ex_perm2.
  - cbn [ex_cfg2 ploidy]. lia.
  - intros x s [<-|[]] Hs. exact (ex_phases2 s Hs).
Qed.

(* only sample 0 is permuted; phase set 100 does not occur in sample 1 *)
Example ex_one_sample2 :
  prepare ex_cfg2 [(swap_rows [1; 0]%nat 100 ex_rows2a, ex_reads2a); (ex_rows2b, ex_reads2b)]
  = swap_state [1; 0]%nat 100 (prepare ex_cfg2 ex_samples2).
Proof.
  apply swap_one_sample.
  - exact ex_perm2.
  - cbn [ex_cfg2 ploidy]. lia.
  - exact ex_phases2.
  - reflexivity.
  - intros [|[|i]] s s' Hs Hs'; cbn [nth_error ex_samples2] in Hs, Hs'.
    + injection Hs as <-. injection Hs' as <-. split; [reflexivity|left; reflexivity].
    + injection Hs as <-. injection Hs' as <-. split; [reflexivity|right]. split; [reflexivity|].
      intros pos hom b ph [Hin|[]]. inversion Hin. discriminate.
    + destruct i; discriminate.
Qed.
Example ex_state2 :
  prepare ex_cfg2 ex_samples2 =
  mkSt [5] [(1, (0%nat, 50, 100)); (2, (1%nat, 20, 200)); (3, (1%nat, 15, 100)); (5, (0%nat, 9, 300))]
       [(7, [(8, 1%nat, 100)])]
  /\ prepare ex_cfg2 (swap_samples [1; 0]%nat 100 ex_samples2) =
  mkSt [5] [(1, (1%nat, 50, 100)); (2, (1%nat, 20, 200)); (3, (0%nat, 15, 100)); (5, (0%nat, 9, 300))]
       [(7, [(8, 0%nat, 100)])].
Proof. split; vm_compute; reflexivity. Qed.

(* triploid, p = [2;0;1]: new columns = old columns 2, 0, 1; the old haplotype 1 is the new haplotype 2 *)
Definition ex_cfg3 : config := mkCfg 3 false 50000 false.
Definition ex_rows3 : list vrow :=
  [(10, false, Some (100, [0; 1; 1])); (20, false, Some (100, [1; 0; 1])); (30, false, Some (200, [1; 0; 0]))].
Definition ex_reads3 : list read :=
  [mkRead 1 5 None [(10, 1, 30); (20, 0, 20)]; mkRead 2 25 None [(30, 1, 10)]].
Definition ex_samples3 : list sample_in := [(ex_rows3, ex_reads3)].
Definition ex_alns3 : list aln :=
  [mkAln 101 1 5 60 false false false None no_tags; mkAln 102 2 25 80 false false false None no_tags].
Definition ex_plan3 : plan := [(0, mkChrom ex_samples3 ex_alns3, ex_alns3)].

Example ex_perm3 : Permutation [2; 0; 1]%nat (seq 0 (ploidy ex_cfg3)).
Proof.
  cbn [ex_cfg3 ploidy seq]. apply Permutation_trans with [0; 2; 1]%nat.
  - apply perm_swap.
  - apply perm_skip. apply perm_swap.
Qed.
Example ex_phases3 : forall s, In s ex_samples3 -> phases_ok (ploidy ex_cfg3) (fst s).
Proof.
  intros s [<-|[]]; cbn [fst ex_cfg3 ploidy]; unfold ex_rows3; solve_phases_ok.
Qed.
Example ex_rows3_swapped :
  swap_rows [2; 0; 1]%nat 100 ex_rows3 =
  [(10, false, Some (100, [1; 0; 1])); (20, false, Some (100, [1; 1; 0])); (30, false, Some (200, [1; 0; 0]))].
Proof. vm_compute. reflexivity. Qed.
Example ex_out3 :
  out_of_plan ex_cfg3 ex_plan3 = [(101, (Some 2, Some 100, Some 20)); (102, (Some 1, Some 200, Some 10))]
  /\ out_of_plan ex_cfg3 (map (fun x => (fst (fst x), swap_chrom [2; 0; 1]%nat 100 (snd (fst x)), snd x)) ex_plan3)
     = [(101, (Some 3, Some 100, Some 20)); (102, (Some 1, Some 200, Some 10))].
Proof. split; vm_compute; reflexivity. Qed.
Example ex_out3_thm :
  out_of_plan ex_cfg3 (map (fun x => (fst (fst x), swap_chrom [2; 0; 1]%nat 100 (snd (fst x)), snd x)) ex_plan3)
  = map (fun o => (fst o, swap_tags [2; 0; 1]%nat 100 (snd o))) (out_of_plan ex_cfg3 ex_plan3).
Proof.
  apply swap_out_of_plan.
  - exact ex_perm3.
  - cbn [ex_cfg3 ploidy]. lia.
  - intros x s [<-|[]] Hs. exact (ex_phases3 s Hs).
Qed.

(* hypotheses of the component theorems *)
Example ex_best_of3 :
  Permutation [2; 0; 1]%nat (seq 0 (length [5; 9; 7])) /\ (2 <= length [5; 9; 7])%nat
  /\ best_of [5; 9; 7] = Some (1%nat, 2) /\ best_of (permute 0 [2; 0; 1]%nat [5; 9; 7]) = Some (2%nat, 2).
Proof.
  split; [exact ex_perm3|]. split; [cbn [length]; lia|]. split; vm_compute; reflexivity.
Qed.
Example ex_acc_group3 :
  (forall pos b ph, lookup pos (phaseinfo ex_rows3) = Some (b, ph) -> length ph = 3%nat)
  /\ acc_group (phaseinfo ex_rows3) 3 ex_reads3 = [(100, [0; 50; 30]); (200, [10; 0; 0])]
  /\ acc_group (phaseinfo (swap_rows [2; 0; 1]%nat 100 ex_rows3)) 3 ex_reads3 = [(100, [30; 0; 50]); (200, [10; 0; 0])].
Proof.
  split.
  - apply (phaseinfo_inf_ok 3 ex_rows3). unfold ex_rows3. solve_phases_ok.
  - split; vm_compute; reflexivity.
Qed.
Example ex_rows_absent :
  (forall pos hom b ph, In (pos, hom, Some (b, ph)) ex_rows2b -> b <> 100)
  /\ swap_rows [1; 0]%nat 100 ex_rows2b = ex_rows2b.
Proof.
  split; [|reflexivity]. intros pos hom b ph [Hin|[]]. inversion Hin. discriminate.
Qed.

Print Assumptions swap_phaseinfo.
Print Assumptions swap_acc_group.
Print Assumptions swap_best_of.
Print Assumptions swap_first_best.
Print Assumptions swap_decide.
Print Assumptions swap_prepare.
Print Assumptions swap_tag_aln.
Print Assumptions swap_out_rec.
Print Assumptions swap_out_of_plan.
Print Assumptions swap_rows_absent.
Print Assumptions swap_one_sample.
Print Assumptions swap_one_sample_tags.
