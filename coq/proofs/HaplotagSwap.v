(* Swap symmetry of the haplotag model (property C10):
   permuting the haplotype columns of one phase set bs of the variant table (new column j = old
   column p[j]) changes the prepared state / the written tags exactly by  h |-> pos_in h p  for the
   decisions whose phase set is bs, and nothing else. *)
From Coq Require Import ZArith List Bool Arith Lia Permutation.
From WH.Model Require Import Haplotag.
Import ListNotations.
Open Scope Z_scope.

Definition swap_dec (p : list nat) (bs : Z) (d : decision) : decision :=
  let '(h, q, ps) := d in if ps =? bs then (pos_in h p, q, ps) else d.
Definition swap_state (p : list nat) (bs : Z) (st : pstate) : pstate :=
  mkSt (processed st)
       (map (fun e => (fst e, swap_dec p bs (snd e))) (r2h st))
       (map (fun e => (fst e, map (fun c => let '(s, h, ps) := c in if ps =? bs then (s, pos_in h p, ps) else c) (snd e))) (bx2h st)).
Definition phases_ok (pl : nat) (rows : list vrow) : Prop :=
  forall pos hom b ph, In (pos, hom, Some (b, ph)) rows -> length ph = pl.

(* ------------------------------------------------------------------------------------------------ *)
(* dictionaries under a key-preserving map *)
Definition mapv {A B : Type} (g : Z -> A -> B) (m : list (Z * A)) : list (Z * B) :=
  map (fun e => (fst e, g (fst e) (snd e))) m.

Lemma lookup_mapv : forall (A B : Type) (g : Z -> A -> B) k m,
  lookup k (mapv g m) = option_map (g k) (lookup k m).
Proof.
  intros A B g k m. induction m as [|[k' v] t IH]; cbn [mapv map lookup fst snd option_map].
  - reflexivity.
  - destruct (k =? k') eqn:E.
    + apply Z.eqb_eq in E. subst k'. reflexivity.
    + exact IH.
Qed.

Lemma upd_mapv : forall (A B : Type) (g : Z -> A -> B) k v m,
  upd k (g k v) (mapv g m) = mapv g (upd k v m).
Proof.
  intros A B g k v m. induction m as [|[k' v'] t IH]; cbn [mapv map upd fst snd].
  - reflexivity.
  - destruct (k =? k') eqn:E; cbn [map fst snd].
    + reflexivity.
    + f_equal. exact IH.
Qed.

Lemma lookup_upd : forall (A : Type) k k' (v : A) m,
  lookup k (upd k' v m) = if k =? k' then Some v else lookup k m.
Proof.
  intros A k k' v m. induction m as [|[k2 v2] t IH]; cbn [upd lookup].
  - reflexivity.
  - destruct (k' =? k2) eqn:E2; cbn [lookup].
    + apply Z.eqb_eq in E2. subst k2. destruct (k =? k'); reflexivity.
    + rewrite IH. destruct (k =? k2) eqn:E3; [|reflexivity].
      apply Z.eqb_eq in E3. subst k2. rewrite Z.eqb_sym, E2. reflexivity.
Qed.

Lemma lookup_In : forall (A : Type) k (v : A) m, lookup k m = Some v -> In (k, v) m.
Proof.
  intros A k v m. induction m as [|[k' v'] t IH]; cbn [lookup]; intros H.
  - discriminate.
  - destruct (k =? k') eqn:E.
    + apply Z.eqb_eq in E. subst k'. injection H as ->. left. reflexivity.
    + right. exact (IH H).
Qed.

Lemma Forall_upd : forall (A : Type) (P : Z * A -> Prop) k v m,
  Forall P m -> P (k, v) -> Forall P (upd k v m).
Proof.
  intros A P k v m Hm Hkv. induction Hm as [|[k' v'] t Hx Ht IH]; cbn [upd].
  - constructor; [exact Hkv|constructor].
  - destruct (k =? k'); constructor; assumption.
Qed.

(* ------------------------------------------------------------------------------------------------ *)
(* 1. the table of the permuted rows *)
Lemma swap_phaseinfo_gen : forall p bs rows acc,
  fold_left (fun m r => match r with (ps, _, Some ph) => upd ps ph m | _ => m end)
            (swap_rows p bs rows) (mapv (fun _ => swap_phase p bs) acc)
  = mapv (fun _ => swap_phase p bs)
         (fold_left (fun m (r : vrow) => match r with (ps, _, Some ph) => upd ps ph m | _ => m end) rows acc).
Proof.
  intros p bs rows. induction rows as [|[[pos hom] [ph|]] t IH]; intros acc; cbn [swap_rows map fold_left].
  - reflexivity.
  - rewrite (upd_mapv _ _ (fun _ => swap_phase p bs)). apply IH.
  - apply IH.
Qed.

Theorem swap_phaseinfo : forall p bs rows,
  phaseinfo (swap_rows p bs rows) = map (fun e => (fst e, swap_phase p bs (snd e))) (phaseinfo rows).
Proof.
  intros p bs rows. unfold phaseinfo.
  exact (swap_phaseinfo_gen p bs rows []).
Qed.

(* ------------------------------------------------------------------------------------------------ *)
(* permutations of the column indices *)
Lemma perm_lt : forall p n, Permutation p (seq 0 n) -> forall j, In j p -> (j < n)%nat.
Proof.
  intros p n Hp j Hj. apply (Permutation_in _ Hp) in Hj. apply in_seq in Hj. lia.
Qed.
Lemma perm_length : forall p n, Permutation p (seq 0 n) -> length p = n.
Proof.
  intros p n Hp. rewrite (Permutation_length Hp). apply seq_length.
Qed.
Lemma perm_NoDup : forall p n, Permutation p (seq 0 n) -> NoDup p.
Proof.
  intros p n Hp. apply (Permutation_NoDup (Permutation_sym Hp)). apply seq_NoDup.
Qed.

Lemma permute_length : forall (A : Type) (d : A) p v, length (permute d p v) = length p.
Proof. intros A d p v. unfold permute. apply map_length. Qed.

Lemma map_nth_seq : forall (A : Type) (d : A) v, map (fun j => nth j v d) (seq 0 (length v)) = v.
Proof.
  intros A d v. induction v as [|x t IH]; cbn [length seq map nth].
  - reflexivity.
  - f_equal. rewrite <- seq_shift, map_map. cbn [nth]. exact IH.
Qed.

Lemma permute_Permutation : forall (A : Type) (d : A) p v,
  Permutation p (seq 0 (length v)) -> Permutation (permute d p v) v.
Proof.
  intros A d p v Hp. unfold permute.
  apply Permutation_trans with (map (fun j => nth j v d) (seq 0 (length v))).
  - apply Permutation_map. exact Hp.
  - rewrite map_nth_seq. apply Permutation_refl.
Qed.

Lemma existsb_Permutation : forall (A : Type) (f : A -> bool) l l',
  Permutation l l' -> existsb f l = existsb f l'.
Proof.
  intros A f l l' H. induction H as [|x l l' H IH|x y l|l l' l'' H1 IH1 H2 IH2]; cbn [existsb].
  - reflexivity.
  - rewrite IH. reflexivity.
  - destruct (f x), (f y); reflexivity.
  - rewrite IH1. exact IH2.
Qed.

Lemma permute_repeat0 : forall p n, (forall j, In j p -> (j < n)%nat) ->
  permute 0 p (repeat 0 n) = repeat 0 (length p).
Proof.
  intros p n. unfold permute. induction p as [|j t IH]; intros Hlt; cbn [map length repeat].
  - reflexivity.
  - f_equal.
    + apply nth_repeat.
    + apply IH. intros k Hk. apply Hlt. right. exact Hk.
Qed.

(* ------------------------------------------------------------------------------------------------ *)
(* 2. score accumulation *)
Lemma add_match_length : forall v ph al q, length (add_match v ph al q) = length v.
Proof.
  intros v. induction v as [|x t IH]; intros ph al q; cbn [add_match length].
  - reflexivity.
  - destruct ph as [|a ph']; cbn [length]; [reflexivity|]. rewrite IH. reflexivity.
Qed.

Lemma nth_add_match : forall v ph al q i, length v = length ph -> (i < length v)%nat ->
  nth i (add_match v ph al q) 0 = if nth i ph 0 =? al then nth i v 0 + q else nth i v 0.
Proof.
  intros v. induction v as [|x t IH]; intros ph al q i Hl Hi; cbn [length] in *.
  - lia.
  - destruct ph as [|a ph']; cbn [length] in Hl; [lia|]. cbn [add_match].
    destruct i as [|i]; cbn [nth].
    + reflexivity.
    + apply IH; lia.
Qed.

Lemma add_match_permute : forall p v ph al q, length v = length ph ->
  (forall j, In j p -> (j < length v)%nat) ->
  add_match (permute 0 p v) (permute 0 p ph) al q = permute 0 p (add_match v ph al q).
Proof.
  intros p v ph al q Hl. unfold permute. induction p as [|j t IH]; intros Hlt; cbn [map add_match].
  - reflexivity.
  - rewrite (nth_add_match v ph al q j Hl (Hlt j (or_introl eq_refl))).
    f_equal. apply IH. intros k Hk. apply Hlt. right. exact Hk.
Qed.

Definition swap_vec (p : list nat) (bs : Z) (k : Z) (v : list Z) : list Z :=
  if k =? bs then permute 0 p v else v.

Definition vec_ok (pl : nat) (costs : list (Z * list Z)) : Prop :=
  Forall (fun e => length (snd e) = pl) costs.
Definition inf_ok (pl : nat) (inf : info) : Prop :=
  forall pos b ph, lookup pos inf = Some (b, ph) -> length ph = pl.

Lemma swap_acc_var : forall p bs inf pl costs var,
  Permutation p (seq 0 pl) -> inf_ok pl inf -> vec_ok pl costs ->
  acc_var (mapv (fun _ => swap_phase p bs) inf) pl (mapv (swap_vec p bs) costs) var
  = mapv (swap_vec p bs) (acc_var inf pl costs var)
  /\ vec_ok pl (acc_var inf pl costs var).
Proof.
  intros p bs inf pl costs [[pos al] q] Hp Hinf Hc. unfold acc_var.
  rewrite lookup_mapv.
  destruct (lookup pos inf) as [[ps ph]|] eqn:El; cbn [option_map].
  2:{ split; [reflexivity|exact Hc]. }
  pose proof (Hinf pos ps ph El) as Hph.
  assert (Hv : length (match lookup ps costs with Some v => v | None => repeat 0 pl end) = pl).
  { destruct (lookup ps costs) as [v|] eqn:Ev.
    - apply lookup_In in Ev. unfold vec_ok in Hc. rewrite Forall_forall in Hc. exact (Hc _ Ev).
    - apply repeat_length. }
  assert (Hex : existsb (Z.eqb al) (snd (swap_phase p bs (ps, ph))) = existsb (Z.eqb al) ph).
  { unfold swap_phase. cbn [fst snd]. destruct (ps =? bs); cbn [snd]; [|reflexivity].
    apply existsb_Permutation. apply permute_Permutation. rewrite Hph. exact Hp. }
  assert (Hfst : fst (swap_phase p bs (ps, ph)) = ps).
  { unfold swap_phase. cbn [fst]. destruct (ps =? bs); reflexivity. }
  destruct (swap_phase p bs (ps, ph)) as [ps' ph'] eqn:Esw. cbn [fst snd] in Hex, Hfst. subst ps'.
  rewrite Hex.
  destruct (existsb (Z.eqb al) ph) eqn:Eex.
  2:{ split; [reflexivity|exact Hc]. }
  split.
  - rewrite lookup_mapv.
    rewrite <- (upd_mapv _ _ (swap_vec p bs)). f_equal.
    unfold swap_phase in Esw. cbn [fst snd] in Esw. unfold swap_vec.
    destruct (ps =? bs) eqn:Eb.
    + injection Esw as <-.
      rewrite <- add_match_permute.
      * f_equal. destruct (lookup ps costs) as [v|]; cbn [option_map]; [reflexivity|].
        rewrite permute_repeat0; [|exact (perm_lt p pl Hp)].
        rewrite (perm_length p pl Hp). reflexivity.
      * rewrite Hv, Hph. reflexivity.
      * rewrite Hv. exact (perm_lt p pl Hp).
    + injection Esw as <-. f_equal.
      destruct (lookup ps costs) as [v|]; reflexivity.
  - apply Forall_upd; [exact Hc|]. cbn [snd]. rewrite add_match_length. exact Hv.
Qed.

Lemma swap_acc_read : forall p bs inf pl r costs,
  Permutation p (seq 0 pl) -> inf_ok pl inf -> vec_ok pl costs ->
  acc_read (mapv (fun _ => swap_phase p bs) inf) pl (mapv (swap_vec p bs) costs) r
  = mapv (swap_vec p bs) (acc_read inf pl costs r)
  /\ vec_ok pl (acc_read inf pl costs r).
Proof.
  intros p bs inf pl r costs Hp Hinf. unfold acc_read.
  generalize (r_vars r) as vars. intros vars. revert costs.
  induction vars as [|var t IH]; intros costs Hc; cbn [fold_left].
  - split; [reflexivity|exact Hc].
  - destruct (swap_acc_var p bs inf pl costs var Hp Hinf Hc) as [E Hc'].
    rewrite E. apply IH. exact Hc'.
Qed.

Lemma swap_acc_group_gen : forall p bs inf pl g costs,
  Permutation p (seq 0 pl) -> inf_ok pl inf -> vec_ok pl costs ->
  fold_left (acc_read (mapv (fun _ => swap_phase p bs) inf) pl) g (mapv (swap_vec p bs) costs)
  = mapv (swap_vec p bs) (fold_left (acc_read inf pl) g costs)
  /\ vec_ok pl (fold_left (acc_read inf pl) g costs).
Proof.
  intros p bs inf pl g costs Hp Hinf. revert costs.
  induction g as [|r t IH]; intros costs Hc; cbn [fold_left].
  - split; [reflexivity|exact Hc].
  - destruct (swap_acc_read p bs inf pl r costs Hp Hinf Hc) as [E Hc'].
    rewrite E. apply IH. exact Hc'.
Qed.

Lemma swap_vec_form : forall p bs (m : list (Z * list Z)),
  map (fun e => if fst e =? bs then (fst e, permute 0 p (snd e)) else e) m = mapv (swap_vec p bs) m.
Proof.
  intros p bs m. unfold mapv. apply map_ext. intros [k v]. unfold swap_vec. cbn [fst snd].
  destruct (k =? bs); reflexivity.
Qed.

Theorem swap_acc_group : forall p bs inf pl g,
  Permutation p (seq 0 pl) ->
  (forall pos b ph, lookup pos inf = Some (b, ph) -> length ph = pl) ->
  acc_group (map (fun e => (fst e, swap_phase p bs (snd e))) inf) pl g
  = map (fun e => if fst e =? bs then (fst e, permute 0 p (snd e)) else e) (acc_group inf pl g)
  /\ Forall (fun e => length (snd e) = pl) (acc_group inf pl g).
Proof.
  intros p bs inf pl g Hp Hinf. rewrite swap_vec_form. unfold acc_group.
  exact (swap_acc_group_gen p bs inf pl g [] Hp Hinf (Forall_nil _)).
Qed.
