(* Every tag written by the haplotag model stems from a decision on a group of reads of one sample
   (invariant of prepare), hence from a strict maximum of agreement sums; alignments whose read was
   not detected (no phased heterozygous variant) stay untagged; the model output satisfies the
   executable tag specification that the harness evaluates on the implementation's output. *)
From Coq Require Import ZArith List Bool Arith Lia.
From WH.Model Require Import Haplotag.
From WH.Proofs Require Import HaplotagProofs.
Import ListNotations.
Open Scope Z_scope.

(* a group: a read of the read set and, only for linked reads, further reads of the same read set with
   the same BX tag within the distance cut-off of the first one *)
Definition is_group (cfg : config) (rs g : list read) : Prop :=
  exists rd others, g = rd :: others /\ In rd rs /\
    forall r, In r others ->
      In r rs /\ linked cfg = true /\
      exists b, r_bx rd = Some b /\ r_bx r = Some b /\ close (cutoff cfg) (r_start rd) (r_start r) = true.

Lemma opt_eqb_true : forall o b, opt_eqb o b = true -> o = Some b.
Proof. intros [x|] b H; cbn [opt_eqb] in H; [apply Z.eqb_eq in H; congruence|discriminate]. Qed.

Lemma group_of_is_group : forall cfg rs proc rd, In rd rs -> is_group cfg rs (group_of cfg rs proc rd).
Proof.
  intros cfg rs proc rd Hin. unfold group_of, is_group.
  eexists. eexists. split; [reflexivity|]. split; [assumption|].
  intros r Hr. destruct (linked cfg) eqn:El; [|destruct Hr].
  destruct (r_bx rd) as [b|] eqn:Eb; [|destruct Hr].
  apply filter_In in Hr. destruct Hr as [Hr Hc].
  apply andb_true_iff in Hc. destruct Hc as [Hc Hclose]. apply andb_true_iff in Hc. destruct Hc as [Hbx _].
  split; [assumption|]. split; [reflexivity|]. exists b. split; [reflexivity|]. split; [apply opt_eqb_true; assumption|assumption].
Qed.

Lemma is_group_unlinked : forall cfg rs rd others, is_group cfg rs (rd :: others) ->
  linked cfg = false \/ r_bx rd = None -> others = [].
Proof.
  intros cfg rs rd others (rd' & others' & Heq & _ & H) Hor. inversion Heq. subst rd' others'.
  destruct others as [|r t]; [reflexivity|]. exfalso.
  destruct (H r (or_introl eq_refl)) as (_ & Hl & b & Hb & _). destruct Hor; congruence.
Qed.

Definition entry_ok (cfg : config) (samples : list sample_in) (n : Z) (d : decision) : Prop :=
  exists s g, In s samples /\ is_group cfg (snd s) g /\ In n (map r_name g)
              /\ decide (phaseinfo (fst s)) (ploidy cfg) g = Some d.

Definition cloud_ok (cfg : config) (samples : list sample_in) (b : Z) (c : Z * nat * Z) : Prop :=
  linked cfg = true /\
  exists s rd others q, In s samples /\ is_group cfg (snd s) (rd :: others) /\
    r_bx rd = Some b /\ r_start rd = fst (fst c) /\
    decide (phaseinfo (fst s)) (ploidy cfg) (rd :: others) = Some (snd (fst c), q, snd c).

Definition st_ok (cfg : config) (samples : list sample_in) (st : pstate) : Prop :=
  (forall n d, lookup n (r2h st) = Some d -> entry_ok cfg samples n d) /\
  (forall b l c, lookup b (bx2h st) = Some l -> In c l -> cloud_ok cfg samples b c).

Lemma fold_upd_lookup : forall (g : list read) (d : decision) m n d',
  lookup n (fold_left (fun m r => upd (r_name r) d m) g m) = Some d' ->
  (In n (map r_name g) /\ d' = d) \/ lookup n m = Some d'.
Proof.
  induction g as [|r t IH]; intros d m n d' H; cbn [fold_left] in H.
  - right. assumption.
  - apply IH in H. destruct H as [[Hin Heq]|H].
    + left. split; [right; assumption|assumption].
    + rewrite lookup_upd in H. destruct (n =? r_name r) eqn:E.
      * apply Z.eqb_eq in E. inversion H. left. split; [left; congruence|reflexivity].
      * right. assumption.
Qed.

Lemma app_at_lookup : forall (A : Type) (b b' : Z) (x : A) m l,
  lookup b' (app_at b x m) = Some l ->
  (b' = b /\ l = lookup_list b m ++ [x]) \/ (b' <> b /\ lookup b' m = Some l).
Proof.
  intros A b b' x m l H. unfold app_at in H. rewrite lookup_upd in H.
  destruct (b' =? b) eqn:E.
  - apply Z.eqb_eq in E. inversion H. left. split; [assumption|reflexivity].
  - apply Z.eqb_neq in E. right. split; assumption.
Qed.

Lemma step_ok : forall cfg samples s st rd,
  In s samples -> In rd (snd s) -> st_ok cfg samples st ->
  st_ok cfg samples (step cfg (phaseinfo (fst s)) (snd s) st rd).
Proof.
  intros cfg samples s st rd Hs Hrd [Hr Hb]. unfold step.
  destruct (memZ (r_name rd) (processed st)); [split; assumption|].
  pose proof (group_of_is_group cfg (snd s) (r_name rd :: processed st) rd Hrd) as Hg.
  set (g := group_of cfg (snd s) (r_name rd :: processed st) rd) in *.
  destruct (decide (phaseinfo (fst s)) (ploidy cfg) g) as [d|] eqn:Ed; cbn [r2h bx2h]; [|split; assumption].
  split.
  - cbn [r2h]. intros n d' H. apply fold_upd_lookup in H. destruct H as [[Hin Heq]|H]; [|auto].
    subst d'. exists s, g. auto.
  - cbn [bx2h]. intros b l c Hl Hc.
    destruct (linked cfg) eqn:El; [|eauto].
    destruct (r_bx rd) as [b0|] eqn:Eb; [|eauto].
    apply app_at_lookup in Hl. destruct Hl as [[Heq Hl]|[Hne Hl]]; [|eauto].
    subst b l. apply in_app_or in Hc. destruct Hc as [Hc|Hc].
    + unfold lookup_list in Hc. destruct (lookup b0 (bx2h st)) eqn:E0; [eauto|destruct Hc].
    + destruct Hc as [Hc|[]]. subst c. destruct d as [[h q] ps]. cbn [fst snd].
      split; [assumption|]. unfold g, group_of in *. fold g.
      eexists s, rd, _, q. split; [assumption|]. split; [exact Hg|]. split; [assumption|]. split; [reflexivity|exact Ed].
Qed.

Lemma prepare_sample_ok : forall cfg samples s st,
  In s samples -> st_ok cfg samples st -> st_ok cfg samples (prepare_sample cfg st s).
Proof.
  intros cfg samples s st Hs Hst. unfold prepare_sample.
  assert (H : forall l st0, incl l (snd s) -> st_ok cfg samples st0 ->
                            st_ok cfg samples (fold_left (step cfg (phaseinfo (fst s)) (snd s)) l st0)).
  { induction l as [|rd l IH]; intros st0 Hincl H0; cbn [fold_left]; [assumption|].
    apply IH; [intros x Hx; apply Hincl; right; assumption|].
    apply step_ok; [assumption|apply Hincl; left; reflexivity|assumption]. }
  apply H; [apply incl_refl|]. destruct Hst as [Hr Hb]. split; cbn [r2h bx2h]; assumption.
Qed.

Theorem prepare_ok : forall cfg samples, st_ok cfg samples (prepare cfg samples).
Proof.
  intros cfg samples. unfold prepare.
  assert (H : forall l st0, incl l samples -> st_ok cfg samples st0 ->
                            st_ok cfg samples (fold_left (prepare_sample cfg) l st0)).
  { induction l as [|s l IH]; intros st0 Hincl H0; cbn [fold_left]; [assumption|].
    apply IH; [intros x Hx; apply Hincl; right; assumption|].
    apply prepare_sample_ok; [apply Hincl; left; reflexivity|assumption]. }
  apply H; [apply incl_refl|]. split; cbn [r2h bx2h]; intros; discriminate.
Qed.

(* ------------------------------------------------------------------------------------------------ *)
(* the tags of an alignment *)
Theorem tag_shape : forall cfg st a,
  tag_aln cfg st a = no_tags \/ exists hp ps pc, tag_aln cfg st a = (Some hp, Some ps, pc).
Proof.
  intros cfg st a. unfold tag_aln.
  destruct (lookup (a_name a) (r2h st)) as [[[h q] ps]|]; [right; eauto|].
  destruct (linked cfg); [|left; reflexivity].
  destruct (a_bx a) as [b|]; [|left; reflexivity].
  destruct (find _ _) as [[[s h] ps]|]; [right; eauto|left; reflexivity].
Qed.

Theorem tagged_alignment_best : forall cfg samples a hp ps pc,
  (2 <= ploidy cfg)%nat ->
  tag_aln cfg (prepare cfg samples) a = (Some hp, Some ps, pc) ->
  exists s g h, In s samples /\ is_group cfg (snd s) g /\ hp = Z.of_nat h + 1 /\
    strict_best (phaseinfo (fst s)) (ploidy cfg) g ps h = true /\
    covers (phaseinfo (fst s)) g ps /\
    match pc with
    | Some q => In (a_name a) (map r_name g) /\ 0 < q /\
                decide (phaseinfo (fst s)) (ploidy cfg) g = Some (h, q, ps)
    | None => linked cfg = true /\
              exists b rd others, g = rd :: others /\ a_bx a = Some b /\ r_bx rd = Some b /\
                close (cutoff cfg) (r_start rd) (a_start a) = true
    end.
Proof.
  intros cfg samples a hp ps pc Hpl Ht.
  destruct (prepare_ok cfg samples) as [Hr Hb]. unfold tag_aln in Ht.
  destruct (lookup (a_name a) (r2h (prepare cfg samples))) as [[[h q] ps0]|] eqn:El.
  - inversion Ht. subst hp ps0 pc. clear Ht.
    destruct (Hr _ _ El) as (s & g & Hs & Hg & Hn & Hd).
    destruct (decide_some _ _ _ _ _ _ Hpl Hd) as (Hsb & Hq & Hcov & _).
    exists s, g, h. repeat split; assumption.
  - destruct (linked cfg) eqn:Elk; [|discriminate].
    destruct (a_bx a) as [b|] eqn:Ebx; [|discriminate].
    destruct (find _ _) as [[[st0 h] ps0]|] eqn:Ef; [|discriminate].
    inversion Ht. subst hp ps0 pc. clear Ht.
    apply find_some in Ef. destruct Ef as [Hin Hclose]. cbn [fst] in Hclose.
    unfold lookup_list in Hin. destruct (lookup b (bx2h (prepare cfg samples))) as [l|] eqn:Elb; [|destruct Hin].
    destruct (Hb _ _ _ Elb Hin) as (_ & s & rd & others & q & Hs & Hg & Hrb & Hst & Hd). cbn [fst snd] in *.
    destruct (decide_some _ _ _ _ _ _ Hpl Hd) as (Hsb & Hq & Hcov & _).
    exists s, (rd :: others), h. repeat split; try assumption.
    exists b, rd, others. repeat split; try assumption. rewrite Hst. assumption.
Qed.

(* keys of read_to_haplotype are names of detected reads *)
Lemma r2h_key_is_read : forall cfg samples n d,
  lookup n (r2h (prepare cfg samples)) = Some d ->
  exists s r, In s samples /\ In r (snd s) /\ r_name r = n.
Proof.
  intros cfg samples n d H. destruct (prepare_ok cfg samples) as [Hr _].
  destruct (Hr _ _ H) as (s & g & Hs & (rd & others & Hg & Hrd & Ho) & Hn & _).
  apply in_map_iff in Hn. destruct Hn as (r & Hrn & Hrin). subst g.
  exists s, r. split; [assumption|]. split; [|assumption].
  destruct Hrin as [Heq|Hin]; [subst; assumption|apply Ho; assumption].
Qed.

(* reads without phased heterozygous variants (not in any read set) stay untagged *)
Theorem undetected_read_untagged : forall cfg samples a,
  (forall s r, In s samples -> In r (snd s) -> r_name r <> a_name a) ->
  linked cfg = false \/ a_bx a = None ->
  tag_aln cfg (prepare cfg samples) a = no_tags.
Proof.
  intros cfg samples a Hno Hor. unfold tag_aln.
  destruct (lookup (a_name a) (r2h (prepare cfg samples))) as [d|] eqn:El.
  - exfalso. destruct (r2h_key_is_read _ _ _ _ El) as (s & r & Hs & Hr & Hn). eapply Hno; eassumption.
  - destruct Hor as [H|H]; rewrite H; [reflexivity|]. destruct (linked cfg); reflexivity.
Qed.

(* ignored records (unmapped, secondary, supplementary unless requested) are written without tags *)
Theorem ignored_untagged : forall cfg st a, ignore_read cfg a = true -> out_rec cfg st a = (a_id a, no_tags).
Proof. intros cfg st a H. unfold out_rec. rewrite H. reflexivity. Qed.

(* ------------------------------------------------------------------------------------------------ *)
(* the model satisfies the executable tag specification (the predicate evaluated by the harness) *)
Lemma forallb_combine_map : forall (A B : Type) (f : A -> B) (P : A * B -> bool) l,
  forallb P (combine l (map f l)) = forallb (fun a => P (a, f a)) l.
Proof.
  intros A B f P l. induction l as [|x l IH]; cbn [map combine forallb]; [reflexivity|].
  rewrite IH. reflexivity.
Qed.

Lemma existsb_false_forall : forall (A : Type) (P : A -> bool) l x,
  existsb P l = false -> In x l -> P x = false.
Proof.
  intros A P l x H Hin. destruct (P x) eqn:E; [|reflexivity].
  assert (existsb P l = true) by (apply existsb_exists; eauto). congruence.
Qed.

Theorem model_satisfies_tag_spec : forall cfg c alns,
  (2 <= ploidy cfg)%nat -> incl alns (c_alns c) ->
  tags_ok_chrom cfg c alns (map (out_rec cfg (prepare cfg (c_samples c))) alns) = true.
Proof.
  intros cfg c alns Hpl Hincl. unfold tags_ok_chrom. rewrite forallb_combine_map.
  apply forallb_forall. intros a Ha. cbn beta iota.
  destruct (unlinked cfg c a) eqn:Eu; [cbn [negb orb]|reflexivity].
  unfold out_rec. cbn [snd].
  destruct (ignore_read cfg a); [reflexivity|].
  destruct (tag_shape cfg (prepare cfg (c_samples c)) a) as [Hn|(hp & ps & pc & Ht)]; [rewrite Hn; reflexivity|].
  rewrite Ht. cbn [tag_ok].
  destruct (tagged_alignment_best _ _ _ _ _ _ Hpl Ht) as (s & g & h & Hs & Hg & Hhp & Hsb & Hcov & Hpc).
  (* what unlinked says *)
  unfold unlinked in Eu. apply orb_true_iff in Eu.
  assert (Hsingle : exists rd, g = [rd] /\ r_name rd = a_name a /\ In rd (snd s)).
  { destruct Hg as (rd & others & Hgeq & Hrd & Ho).
    destruct pc as [q|].
    - destruct Hpc as (Hname & _ & _).
      assert (Hoth : others = []).
      { destruct others as [|r0 t]; [reflexivity|]. exfalso.
        destruct (Ho r0 (or_introl eq_refl)) as (_ & Hlk & b & Hb & _).
        destruct Eu as [Eu|Eu]; [rewrite Hlk in Eu; discriminate|].
        apply andb_true_iff in Eu. destruct Eu as [_ Eu]. apply negb_true_iff in Eu.
        (* the read named a_name a in g has a BX tag *)
        subst g. apply in_map_iff in Hname. destruct Hname as (r & Hrn & Hrin).
        assert (Hrr : In r (snd s) /\ exists b', r_bx r = Some b').
        { destruct Hrin as [Heq|Hin]; [subst r; split; [assumption|eauto]|].
          destruct (Ho r Hin) as (Hin' & _ & b' & _ & Hb' & _). split; [assumption|eauto]. }
        destruct Hrr as [Hrs [b' Hb']].
        pose proof (existsb_false_forall _ _ _ s Eu Hs) as E1. cbn beta in E1.
        pose proof (existsb_false_forall _ _ _ r E1 Hrs) as E2. cbn beta in E2.
        rewrite Hrn, Z.eqb_refl, Hb' in E2. discriminate. }
      subst others g. exists rd. split; [reflexivity|]. split; [|assumption].
      destruct Hname as [Hn|[]]. assumption.
    - exfalso. destruct Hpc as (Hlk & b & rd0 & oth0 & _ & Hab & _).
      destruct Eu as [Eu|Eu]; [rewrite Hlk in Eu; discriminate|].
      apply andb_true_iff in Eu. destruct Eu as [Eu _]. apply negb_true_iff in Eu.
      pose proof (existsb_false_forall _ _ _ a Eu (Hincl a Ha)) as E1. cbn beta in E1.
      rewrite Z.eqb_refl, Hab in E1. discriminate. }
  destruct Hsingle as (rd & Hgeq & Hrn & Hrd). subst g.
  apply andb_true_iff. split; [apply Z.leb_le; lia|].
  apply existsb_exists. exists (phaseinfo (fst s), rd). split.
  - unfold reads_named. apply in_flat_map. exists s. split; [assumption|].
    apply in_map_iff. exists rd. split; [reflexivity|]. apply filter_In. split; [assumption|].
    apply Z.eqb_eq. assumption.
  - cbn [fst snd]. replace (Z.to_nat (hp - 1)) with h by lia. assumption.
Qed.

(* ------------------------------------------------------------------------------------------------ *)
(* --output-haplotag-list *)

(* the repaired list rule reports exactly the HP/PS written to the records *)
Theorem list_fixed_consistent : forall cfg st k w,
  flat_map (list_rec list_entry_fixed cfg st k) w
  = map (fun t => (t, k)) (list_of_written (map (fun a => (a, snd (out_rec cfg st a))) w)).
Proof.
  intros cfg st k w. induction w as [|a w IH]; cbn [flat_map map list_of_written]; [reflexivity|].
  fold (list_of_written (map (fun a0 => (a0, snd (out_rec cfg st a0))) w)).
  rewrite map_app, <- IH. f_equal. unfold list_rec. cbn [fst snd].
  destruct (a_secondary a || a_suppl a); reflexivity.
Qed.

(* the current rule agrees with it whenever the record is tagged or has no BX-cloud candidates ... *)
Theorem list_current_tagged_agrees : forall cfg st a hp,
  fst (list_entry cfg st a) = Some hp -> list_entry cfg st a = list_entry_fixed cfg st a.
Proof.
  intros cfg st a hp H. unfold list_entry, list_entry_fixed, out_rec, tag_aln in *. cbn [snd].
  destruct (ignore_read cfg a); [discriminate|].
  destruct (lookup (a_name a) (r2h st)) as [[[h q] ps]|]; [reflexivity|].
  destruct (linked cfg); [|discriminate].
  destruct (a_bx a) as [b|]; [|discriminate].
  destruct (find _ _) as [[[s h] ps]|]; [reflexivity|discriminate].
Qed.

(* ... but an untagged record whose barcode has a read cloud beyond the cut-off is listed with that
   cloud's phase set (loop variable of attempt_add_phase_information leaks) *)
Theorem list_current_leak_refuted :
  exists cfg samples a ps,
    snd (out_rec cfg (prepare cfg samples) a) = no_tags /\
    list_entry cfg (prepare cfg samples) a = (None, Some ps) /\
    list_entry_fixed cfg (prepare cfg samples) a = (None, None).
Proof.
  exists (mkCfg 2%nat true 10 false),
         [([(10, false, Some (100, [0; 1]))], [mkRead 1 0 (Some 5) [(10, 0, 30)]])],
         (mkAln 7 2 500 600 false false false (Some 5) no_tags), 100.
  vm_compute. repeat split.
Qed.
