(* C12 — PhasedBlock.add / split and PhasingStats.get_nonoverlapping_blocks:
   termination within the stated fuel, the pieces are sub-ranges of input blocks, pairwise
   non-overlapping from left to right, and the sum of their lengths is bounded by the span. *)
From Coq Require Import ZArith List Bool Arith Lia Sorted Permutation.
From WH.Model Require Import Stats.
From WH.Proofs Require Import StatsSort.
Import ListNotations.
Open Scope Z_scope.

(* ---------------------------------------------------------------------------------------------- *)
(* subseq                                                                                          *)
Lemma subseq_refl : forall (A : Type) (l : list A), subseq l l.
Proof. induction l as [|x l IH]. constructor. constructor. exact IH. Qed.
Lemma subseq_filter : forall (A : Type) (f : A -> bool) (l : list A), subseq (filter f l) l.
Proof.
  induction l as [|x l IH]; cbn [filter]. constructor.
  destruct (f x). constructor; exact IH. apply ss_skip; exact IH.
Qed.
Lemma subseq_trans : forall (A : Type) (a b c : list A), subseq a b -> subseq b c -> subseq a c.
Proof.
  intros A a b c Hab Hbc. revert a Hab. induction Hbc as [l|x b c Hbc IH|x b c Hbc IH]; intros a Hab.
  - inversion Hab; subst. constructor.
  - inversion Hab as [l'|y a' b' Hab'|y a' b' Hab']; subst.
    + constructor.
    + constructor. apply IH. exact Hab'.
    + apply ss_skip. apply IH. exact Hab'.
  - apply ss_skip. apply IH. exact Hab.
Qed.
Lemma subseq_In : forall (A : Type) (a b : list A) x, subseq a b -> In x a -> In x b.
Proof.
  intros A a b x H. induction H as [l|y a b H IH|y a b H IH]; intros Hin.
  - destruct Hin.
  - destruct Hin as [->|Hin]. left; reflexivity. right; apply IH; exact Hin.
  - right; apply IH; exact Hin.
Qed.

Lemma subseq_length : forall (A : Type) (a b : list A), subseq a b -> (length a <= length b)%nat.
Proof. intros A a b H. induction H; cbn [length]; lia. Qed.

(* ---------------------------------------------------------------------------------------------- *)
(* PhasedBlock.add                                                                                 *)
Lemma pb_add_vars : forall b v, pb_vars (pb_add b v) = pb_vars b ++ [v].
Proof. intros b v. unfold pb_add. destruct (pb_vars b) eqn:E; cbn [pb_vars]. reflexivity. reflexivity. Qed.

Lemma pb_add_lm_rm : forall b v, pb_vars b <> [] ->
  pb_lm (pb_add b v) = Z.min (pb_lm b) (v_pos v) /\ pb_rm (pb_add b v) = Z.max (pb_rm b) (v_pos v).
Proof.
  intros b v H. unfold pb_add. destruct (pb_vars b) eqn:E. contradiction. cbn [pb_lm pb_rm]. split.
  - destruct (v_pos v <? pb_lm b) eqn:C. apply Z.ltb_lt in C. lia. apply Z.ltb_ge in C. lia.
  - destruct (pb_rm b <? v_pos v) eqn:C. apply Z.ltb_lt in C. lia. apply Z.ltb_ge in C. lia.
Qed.

Lemma pb_fold_spec : forall l b, pb_vars b <> [] ->
  pb_vars (fold_left pb_add l b) = pb_vars b ++ l /\
  pb_lm (fold_left pb_add l b) = fold_left Z.min (map v_pos l) (pb_lm b) /\
  pb_rm (fold_left pb_add l b) = fold_left Z.max (map v_pos l) (pb_rm b).
Proof.
  induction l as [|v l IH]; intros b Hb; cbn [fold_left map].
  - rewrite app_nil_r. auto.
  - assert (Hb' : pb_vars (pb_add b v) <> []).
    { rewrite pb_add_vars. intro E. apply app_eq_nil in E. destruct E; discriminate. }
    destruct (IH _ Hb') as (E1 & E2 & E3). destruct (pb_add_lm_rm b v Hb) as [L R].
    rewrite E1, E2, E3, pb_add_vars, L, R, <- app_assoc. auto.
Qed.

Lemma pb_of_vars_nil : pb_of_vars [] = pb_empty.
Proof. reflexivity. Qed.

Lemma pb_of_vars_spec : forall l, l <> [] ->
  pb_vars (pb_of_vars l) = l /\
  pb_lm (pb_of_vars l) = zmin_list 0 (map v_pos l) /\
  pb_rm (pb_of_vars l) = zmax_list 0 (map v_pos l).
Proof.
  intros [|v l] H. contradiction. unfold pb_of_vars. cbn [fold_left].
  assert (E : pb_add pb_empty v = mkPB [v] (v_pos v) (v_pos v)) by reflexivity.
  rewrite E. destruct (pb_fold_spec l (mkPB [v] (v_pos v) (v_pos v))) as (E1 & E2 & E3).
  { cbn. discriminate. }
  rewrite E1, E2, E3. cbn [pb_vars pb_lm pb_rm map zmin_list zmax_list app]. auto.
Qed.

Lemma pb_of_vars_vars : forall l, pb_vars (pb_of_vars l) = l.
Proof. intros [|v l]. reflexivity. apply pb_of_vars_spec. discriminate. Qed.
Lemma pb_of_vars_len : forall l, pb_len (pb_of_vars l) = length l.
Proof. intros l. unfold pb_len. rewrite pb_of_vars_vars. reflexivity. Qed.

Lemma pb_of_vars_wf : forall l, l <> [] -> pb_wf (pb_of_vars l).
Proof.
  intros l H. destruct (pb_of_vars_spec l H) as (E1 & E2 & E3). unfold pb_wf. rewrite E1, E2, E3.
  assert (Hm : map v_pos l <> []) by (destruct l; [contradiction|discriminate]).
  repeat split.
  - exact H.
  - apply zmin_list_in. exact Hm.
  - apply zmax_list_in. exact Hm.
  - rewrite Forall_forall. intros v Hv. split.
    apply zmin_list_le. apply in_map. exact Hv. apply zmax_list_ge. apply in_map. exact Hv.
Qed.

Lemma pb_wf_lm_le_rm : forall b, pb_wf b -> pb_lm b <= pb_rm b.
Proof.
  intros b (Hne & Hl & Hr & Hall). apply in_map_iff in Hl. destruct Hl as (v & Ev & Hv).
  rewrite Forall_forall in Hall. specialize (Hall v Hv). lia.
Qed.

(* a well-formed block whose variants all come from l *)
Lemma wf_lm_from : forall b (P : var -> Prop), pb_wf b -> (forall v, In v (pb_vars b) -> P v) ->
  exists v, In v (pb_vars b) /\ v_pos v = pb_lm b /\ P v.
Proof.
  intros b P (Hne & Hl & Hr & Hall) HP. apply in_map_iff in Hl. destruct Hl as (v & Ev & Hv).
  exists v. auto.
Qed.
Lemma wf_rm_from : forall b (P : var -> Prop), pb_wf b -> (forall v, In v (pb_vars b) -> P v) ->
  exists v, In v (pb_vars b) /\ v_pos v = pb_rm b /\ P v.
Proof.
  intros b P (Hne & Hl & Hr & Hall) HP. apply in_map_iff in Hr. destruct Hr as (v & Ev & Hv).
  exists v. auto.
Qed.

(* ---------------------------------------------------------------------------------------------- *)
(* sum_len, sortedness of the pool                                                                 *)
Lemma sum_len_app : forall a b, sum_len (a ++ b) = (sum_len a + sum_len b)%nat.
Proof.
  induction a as [|x a IH]; intros b; unfold sum_len in *; cbn [fold_right app].
  - reflexivity.
  - rewrite IH. lia.
Qed.
Lemma sum_len_perm : forall a b, Permutation a b -> sum_len a = sum_len b.
Proof. intros a b H. induction H; unfold sum_len in *; cbn [fold_right] in *; lia. Qed.

Definition desc (pool : list pblock) : Prop := StronglySorted (fun a b => pb_lm b <= pb_lm a) pool.

Lemma sort_desc_desc : forall l, desc (sort_desc l).
Proof.
  intros l. unfold desc, sort_desc.
  assert (H : StronglySorted (ord before_desc) (sort_by before_desc l)).
  { apply sort_by_sorted.
    - intros x. unfold before_desc. apply Z.ltb_irrefl.
    - intros x y z H1 H2. unfold before_desc in *. apply Z.ltb_lt in H1. apply Z.ltb_ge in H2. apply Z.ltb_ge. lia. }
  induction H as [|a l0 Hs IH Hall]. constructor.
  constructor. exact IH. rewrite Forall_forall in Hall |- *. intros z Hz. specialize (Hall z Hz).
  unfold ord, before_desc in Hall. apply Z.ltb_ge in Hall. exact Hall.
Qed.

Lemma ssorted_app_single : forall (A : Type) (R : A -> A -> Prop) l x,
  StronglySorted R (l ++ [x]) -> StronglySorted R l /\ Forall (fun y => R y x) l.
Proof.
  intros A R l x. induction l as [|a l IH]; cbn [app]; intros H.
  - split; constructor.
  - inversion H as [|? ? Hs Hall]; subst. destruct (IH Hs) as [H1 H2]. split.
    + constructor. exact H1. rewrite Forall_forall in Hall |- *. intros z Hz. apply Hall. apply in_or_app. left; exact Hz.
    + constructor. rewrite Forall_forall in Hall. apply Hall. apply in_or_app. right; left; reflexivity. exact H2.
Qed.

Lemma filter_desc : forall f l, desc l -> desc (filter f l).
Proof.
  intros f l H. induction H as [|a l Hs IH Hall]; cbn [filter]. constructor.
  destruct (f a). constructor. exact IH.
  rewrite Forall_forall in Hall |- *. intros z Hz. apply filter_In in Hz. apply Hall. tauto. exact IH.
Qed.

Lemma filter_len_le : forall (A : Type) (f : A -> bool) l, (length (filter f l) <= length l)%nat.
Proof. induction l as [|y l IH]; cbn [filter length]. lia. destruct (f y); cbn [length]; lia. Qed.

Lemma filter_length_lt : forall (A : Type) (f : A -> bool) l x, In x l -> f x = false ->
  (length (filter f l) < length l)%nat.
Proof.
  intros A f l x. induction l as [|y l IH]; intros Hin Hf. destruct Hin. cbn [filter length].
  pose proof (filter_len_le A f l) as Hle.
  destruct Hin as [->|Hin].
  - rewrite Hf. lia.
  - specialize (IH Hin Hf). destruct (f y); cbn [length]; lia.
Qed.

(* ---------------------------------------------------------------------------------------------- *)
(* the loop invariant                                                                              *)
Definition good (blocks : list pblock) (p : pblock) : Prop :=
  pb_wf p /\ (2 <= pb_len p)%nat /\ exists b, In b blocks /\ subseq (pb_vars p) (pb_vars b).
Definition chain (l : list pblock) : Prop := ForallOrdPairs (fun p q => pb_rm p <= pb_lm q) l.

Lemma chain_app_single : forall l x, chain l -> (forall p, In p l -> pb_rm p <= pb_lm x) -> chain (l ++ [x]).
Proof.
  intros l x H. induction H as [|a l Hall Hc IH]; intros Hx; cbn [app].
  - constructor. constructor. constructor.
  - constructor.
    + rewrite Forall_forall in Hall |- *. intros z Hz. apply in_app_or in Hz. destruct Hz as [Hz|[<-|[]]].
      apply Hall; exact Hz. apply Hx. left; reflexivity.
    + apply IH. intros p Hp. apply Hx. right; exact Hp.
Qed.

Record inv (blocks pool acc : list pblock) : Prop := mkInv {
  inv_pool : Forall (good blocks) pool;
  inv_desc : desc pool;
  inv_acc : Forall (good blocks) acc;
  inv_chain : chain acc;
  inv_sep : forall p b, In p acc -> In b pool -> pb_rm p <= pb_lm b }.

Lemma good_sub : forall blocks block f,
  good blocks block -> (2 <= length (filter f (pb_vars block)))%nat ->
  good blocks (pb_of_vars (filter f (pb_vars block))).
Proof.
  intros blocks block f (Hwf & Hlen & b0 & Hb0 & Hsub) H2.
  assert (Hne : filter f (pb_vars block) <> []) by (intro E; rewrite E in H2; cbn in H2; lia).
  split; [|split].
  - apply pb_of_vars_wf. exact Hne.
  - rewrite pb_of_vars_len. exact H2.
  - exists b0. split. exact Hb0. rewrite pb_of_vars_vars. eapply subseq_trans. apply subseq_filter. exact Hsub.
Qed.

(* positions of a filtered sub-block *)
Lemma sub_lm_prop : forall block f, filter f (pb_vars block) <> [] ->
  exists v, In v (pb_vars block) /\ f v = true /\ v_pos v = pb_lm (pb_of_vars (filter f (pb_vars block))).
Proof.
  intros block f Hne. pose proof (pb_of_vars_wf _ Hne) as Hwf.
  destruct (wf_lm_from _ (fun v => In v (pb_vars block) /\ f v = true) Hwf) as (v & _ & Ev & Hin & Hf).
  { intros v Hv. rewrite pb_of_vars_vars in Hv. apply filter_In in Hv. exact Hv. }
  exists v. auto.
Qed.
Lemma sub_rm_prop : forall block f, filter f (pb_vars block) <> [] ->
  exists v, In v (pb_vars block) /\ f v = true /\ v_pos v = pb_rm (pb_of_vars (filter f (pb_vars block))).
Proof.
  intros block f Hne. pose proof (pb_of_vars_wf _ Hne) as Hwf.
  destruct (wf_rm_from _ (fun v => In v (pb_vars block) /\ f v = true) Hwf) as (v & _ & Ev & Hin & Hf).
  { intros v Hv. rewrite pb_of_vars_vars in Hv. apply filter_In in Hv. exact Hv. }
  exists v. auto.
Qed.

Lemma wf_bounds : forall b v, pb_wf b -> In v (pb_vars b) -> pb_lm b <= v_pos v <= pb_rm b.
Proof. intros b v (_ & _ & _ & Hall) Hv. rewrite Forall_forall in Hall. apply Hall. exact Hv. Qed.

Lemma nonempty_of_len : forall (A : Type) (l : list A) n, (n <= length l)%nat -> (1 <= n)%nat -> l <> [].
Proof. intros A l n H1 H2 E. subst. cbn in H1. lia. Qed.

Lemma nonoverlap_ok : forall blocks fuel pool acc,
  (sum_len pool < fuel)%nat -> inv blocks pool acc ->
  exists pieces, nonoverlap fuel pool acc = NOk pieces /\
    Forall (good blocks) pieces /\ chain pieces /\ (pool <> [] \/ acc <> [] -> pieces <> []).
Proof.
  intros blocks fuel. induction fuel as [|f IH]; intros pool acc Hfuel Hinv. lia.
  cbn [nonoverlap]. destruct (rev pool) as [|block rrest] eqn:Erev.
  - (* pool empty *)
    assert (pool = []) by (rewrite <- (rev_involutive pool), Erev; reflexivity). subst pool.
    exists acc. destruct Hinv. repeat split; try assumption. intros [H|H]; [contradiction|exact H].
  - assert (Epool : pool = rev rrest ++ [block]) by (rewrite <- (rev_involutive pool), Erev; reflexivity).
    destruct Hinv as [Hpool Hdesc Hacc Hchain Hsep].
    assert (Hgb : good blocks block).
    { rewrite Forall_forall in Hpool. apply Hpool. rewrite Epool. apply in_or_app. right; left; reflexivity. }
    assert (Hrest : Forall (good blocks) (rev rrest)).
    { rewrite Forall_forall in Hpool |- *. intros z Hz. apply Hpool. rewrite Epool. apply in_or_app. left; exact Hz. }
    rewrite Epool in Hdesc. apply ssorted_app_single in Hdesc. destruct Hdesc as [Hdrest Hminb].
    assert (Hsl : sum_len pool = (sum_len (rev rrest) + pb_len block)%nat).
    { rewrite Epool, sum_len_app. cbn [sum_len fold_right]. lia. }
    destruct Hgb as (Hwfb & Hlenb & Hsubb).
    assert (Hsep_rest : forall p b, In p acc -> In b (rev rrest) -> pb_rm p <= pb_lm b).
    { intros p b Hp Hb. apply Hsep. exact Hp. rewrite Epool. apply in_or_app. left; exact Hb. }
    assert (Hsep_block : forall p, In p acc -> pb_rm p <= pb_lm block).
    { intros p Hp. apply Hsep. exact Hp. rewrite Epool. apply in_or_app. right; left; reflexivity. }
    destruct rrest as [|next rr].
    + (* last block of the pool *)
      destruct (IH [] (acc ++ [block])) as (pieces & E & H1 & H2 & H3).
      * cbn. cbn [rev app sum_len fold_right] in Hsl. lia.
      * constructor.
        -- constructor.
        -- constructor.
        -- apply Forall_app. split. exact Hacc. constructor. exact (conj Hwfb (conj Hlenb Hsubb)). constructor.
        -- apply chain_app_single. exact Hchain. exact Hsep_block.
        -- intros p b _ [].
      * exists pieces. repeat split; try assumption. intros _. apply H3. right.
        intro E'. apply app_eq_nil in E'. destruct E'; discriminate.
    + (* next block exists *)
      assert (Hnext_in : In next (rev (next :: rr))) by (cbn [rev]; apply in_or_app; right; left; reflexivity).
      assert (Hgn : good blocks next) by (rewrite Forall_forall in Hrest; apply Hrest; exact Hnext_in).
      assert (Hle_next : pb_lm block <= pb_lm next) by (rewrite Forall_forall in Hminb; apply Hminb; exact Hnext_in).
      assert (Hnext_min : forall b, In b (rev (next :: rr)) -> pb_lm next <= pb_lm b).
      { intros b Hb. cbn [rev] in Hb, Hdrest. apply ssorted_app_single in Hdrest. destruct Hdrest as [_ Hm].
        apply in_app_or in Hb. destruct Hb as [Hb|[<-|[]]]. rewrite Forall_forall in Hm. apply Hm; exact Hb. lia. }
      destruct (pb_lm next <? pb_rm block) eqn:Eov.
      * (* overlap: split *)
        apply Z.ltb_lt in Eov.
        destruct Hgn as (Hwfn & Hlenn & Hsubn).
        pose proof (pb_wf_lm_le_rm next Hwfn) as Hnle.
        destruct (pb_rm next <? pb_lm next) eqn:Eas. { apply Z.ltb_lt in Eas. lia. }
        cbv zeta. unfold pb_split. cbn [fst snd].
        set (fl := fun v => v_pos v <? pb_lm next).
        set (fr := fun v => negb (v_pos v <? pb_lm next) && (pb_rm next <? v_pos v)).
        set (L := pb_of_vars (filter fl (pb_vars block))).
        set (Rb := pb_of_vars (filter fr (pb_vars block))).
        (* the right block is strictly smaller than the block *)
        assert (HRlt : (pb_len Rb < pb_len block)%nat).
        { unfold Rb. rewrite pb_of_vars_len. unfold pb_len.
          destruct Hwfb as (Hne & Hl & _ & _). apply in_map_iff in Hl. destruct Hl as (v & Ev & Hv).
          apply (filter_length_lt _ fr _ v Hv). unfold fr.
          destruct (v_pos v <? pb_lm next) eqn:C1; cbn [negb andb]. reflexivity.
          apply Z.ltb_ge. lia. }
        set (pool' := if Nat.ltb 1 (pb_len Rb) then sort_desc (rev (next :: rr) ++ [Rb]) else rev (next :: rr)).
        assert (Hpool'_in : forall b, In b pool' -> In b (rev (next :: rr)) \/ (b = Rb /\ (2 <= pb_len Rb)%nat)).
        { intros b Hb. unfold pool' in Hb. destruct (Nat.ltb 1 (pb_len Rb)) eqn:C.
          - apply Nat.ltb_lt in C. unfold sort_desc in Hb. apply sort_by_in in Hb. apply in_app_or in Hb.
            destruct Hb as [Hb|[<-|[]]]. left; exact Hb. right; split; [reflexivity|lia].
          - left; exact Hb. }
        assert (Hpool'_sum : (sum_len pool' < f)%nat).
        { unfold pool'. destruct (Nat.ltb 1 (pb_len Rb)) eqn:C.
          - unfold sort_desc. rewrite (sum_len_perm _ _ (sort_by_perm before_desc _)), sum_len_app.
            cbn [sum_len fold_right]. lia.
          - lia. }
        assert (Hpool'_desc : desc pool').
        { unfold pool'. destruct (Nat.ltb 1 (pb_len Rb)). apply sort_desc_desc. exact Hdrest. }
        assert (Hpool'_ne : pool' <> []).
        { unfold pool'. destruct (Nat.ltb 1 (pb_len Rb)).
          - intro E. apply (f_equal (@length _)) in E. unfold sort_desc in E. rewrite sort_by_length, app_length in E. cbn in E. lia.
          - intro E. rewrite E in Hnext_in. destruct Hnext_in. }
        assert (HgR : (2 <= pb_len Rb)%nat -> good blocks Rb).
        { intros H2. apply good_sub. exact (conj Hwfb (conj Hlenb Hsubb)). unfold Rb in H2. rewrite pb_of_vars_len in H2. exact H2. }
        assert (HRlm : (2 <= pb_len Rb)%nat -> pb_rm next < pb_lm Rb).
        { intros H2. unfold Rb in *. rewrite pb_of_vars_len in H2.
          destruct (sub_lm_prop block fr) as (v & Hv & Hf & Ev). eapply nonempty_of_len. exact H2. lia.
          rewrite <- Ev. unfold fr in Hf. apply andb_true_iff in Hf. destruct Hf as [_ Hf]. apply Z.ltb_lt in Hf. exact Hf. }
        assert (Hpool'_good : Forall (good blocks) pool').
        { rewrite Forall_forall. intros b Hb. destruct (Hpool'_in b Hb) as [Hb'|[-> H2]].
          rewrite Forall_forall in Hrest. apply Hrest. exact Hb'. apply HgR. exact H2. }
        assert (Hsep' : forall p b, In p acc -> In b pool' -> pb_rm p <= pb_lm b).
        { intros p b Hp Hb. destruct (Hpool'_in b Hb) as [Hb'|[-> H2]].
          apply Hsep_rest; assumption. specialize (HRlm H2). specialize (Hsep_block p Hp). lia. }
        fold fl fr. fold L Rb. fold pool'.
        destruct (Nat.ltb (pb_len L) 2) eqn:EL.
        -- (* left part dropped *)
           destruct (IH pool' acc Hpool'_sum) as (pieces & E & H1 & H2 & H3).
           { constructor; assumption. }
           exists pieces. repeat split; try assumption. intros _. apply H3. left. exact Hpool'_ne.
        -- apply Nat.ltb_ge in EL.
           assert (HgL : good blocks L).
           { apply good_sub. exact (conj Hwfb (conj Hlenb Hsubb)). unfold L in EL. rewrite pb_of_vars_len in EL. exact EL. }
           assert (HLne : filter fl (pb_vars block) <> []).
           { unfold L in EL. rewrite pb_of_vars_len in EL. eapply nonempty_of_len. exact EL. lia. }
           assert (HLrm : pb_rm L < pb_lm next).
           { destruct (sub_rm_prop block fl HLne) as (v & Hv & Hf & Ev). fold L in Ev. rewrite <- Ev.
             unfold fl in Hf. apply Z.ltb_lt in Hf. exact Hf. }
           assert (HLlm : pb_lm block <= pb_lm L).
           { destruct (sub_lm_prop block fl HLne) as (v & Hv & Hf & Ev). fold L in Ev. rewrite <- Ev.
             apply (wf_bounds block v Hwfb Hv). }
           destruct (IH pool' (acc ++ [L]) Hpool'_sum) as (pieces & E & H1 & H2 & H3).
           { constructor; try assumption.
             - apply Forall_app. split. exact Hacc. constructor. exact HgL. constructor.
             - apply chain_app_single. exact Hchain. intros p Hp. specialize (Hsep_block p Hp). lia.
             - intros p b Hp Hb. apply in_app_or in Hp. destruct Hp as [Hp|[<-|[]]].
               + apply Hsep'; assumption.
               + destruct (Hpool'_in b Hb) as [Hb'|[-> H2]].
                 * specialize (Hnext_min b Hb'). lia.
                 * specialize (HRlm H2). lia. }
           exists pieces. repeat split; try assumption. intros _. apply H3. left. exact Hpool'_ne.
      * (* no overlap *)
        apply Z.ltb_ge in Eov.
        destruct (IH (rev (next :: rr)) (acc ++ [block])) as (pieces & E & H1 & H2 & H3).
        -- lia.
        -- constructor; try assumption.
           ++ apply Forall_app. split. exact Hacc. constructor. exact (conj Hwfb (conj Hlenb Hsubb)). constructor.
           ++ apply chain_app_single. exact Hchain. exact Hsep_block.
           ++ intros p b Hp Hb. apply in_app_or in Hp. destruct Hp as [Hp|[<-|[]]].
              apply Hsep_rest; assumption. specialize (Hnext_min b Hb). lia.
        -- exists pieces. repeat split; try assumption. intros _. apply H3. left.
           intro E'. rewrite E' in Hnext_in. destruct Hnext_in.
Qed.

(* ---------------------------------------------------------------------------------------------- *)
(* the entry point                                                                                 *)
Lemma pool_inv : forall blocks, Forall pb_wf blocks -> inv blocks (nonoverlap_pool blocks) [].
Proof.
  intros blocks Hwf. unfold nonoverlap_pool. constructor.
  - rewrite Forall_forall. intros b Hb. apply filter_In in Hb. destruct Hb as [Hb Hlen].
    unfold sort_desc in Hb. apply sort_by_in in Hb. apply Nat.ltb_lt in Hlen.
    rewrite Forall_forall in Hwf. split; [apply Hwf; exact Hb|split; [lia|]].
    exists b. split. exact Hb. apply subseq_refl.
  - apply filter_desc. apply sort_desc_desc.
  - constructor.
  - constructor.
  - intros p b [].
Qed.

Lemma chain_sum_bound : forall ps hi, chain ps -> (forall p, In p ps -> pb_lm p <= pb_rm p /\ pb_rm p <= hi) ->
  forall p0 rest, ps = p0 :: rest -> zsum (map pb_span ps) <= hi - pb_lm p0.
Proof.
  intros ps hi H. induction H as [|a l Hall Hc IH]; intros Hb p0 rest E. discriminate.
  injection E as <- <-. unfold zsum in *. cbn [map fold_right]. unfold pb_span at 1.
  destruct l as [|q qs].
  - cbn [map fold_right]. destruct (Hb a (or_introl eq_refl)). lia.
  - specialize (IH (fun p Hp => Hb p (or_intror Hp)) q qs eq_refl).
    rewrite Forall_forall in Hall. specialize (Hall q (or_introl eq_refl)).
    destruct (Hb a (or_introl eq_refl)). lia.
Qed.

Theorem nonoverlapping_blocks_spec : forall blocks, Forall pb_wf blocks ->
  exists pieces, get_nonoverlapping_blocks blocks = NOk pieces /\
    Forall (fun p => pb_wf p /\ (2 <= pb_len p)%nat /\
                     exists b, In b blocks /\ subseq (pb_vars p) (pb_vars b)) pieces /\
    ForallOrdPairs (fun p q => pb_rm p <= pb_lm q) pieces /\
    ((exists b, In b blocks /\ (2 <= pb_len b)%nat) -> pieces <> []) /\
    (forall lo hi, (forall b, In b blocks -> (2 <= pb_len b)%nat -> lo <= pb_lm b /\ pb_rm b <= hi) ->
                   pieces <> [] -> zsum (map pb_span pieces) <= hi - lo).
Proof.
  intros blocks Hwf. unfold get_nonoverlapping_blocks.
  destruct (nonoverlap_ok blocks (S (sum_len (nonoverlap_pool blocks))) (nonoverlap_pool blocks) [])
    as (pieces & E & Hgood & Hchain & Hne). lia. apply pool_inv; exact Hwf.
  exists pieces. split. exact E. split. exact Hgood. split. exact Hchain. split.
  - intros (b & Hb & Hlen). apply Hne. left. intro E'.
    assert (In b (nonoverlap_pool blocks)).
    { unfold nonoverlap_pool. apply filter_In. split. unfold sort_desc. apply sort_by_in. exact Hb.
      apply Nat.ltb_lt. lia. }
    rewrite E' in H. destruct H.
  - intros lo hi Hb Hpne. destruct pieces as [|p0 rest]. contradiction.
    assert (Hbounds : forall p, In p (p0 :: rest) -> lo <= pb_lm p /\ pb_lm p <= pb_rm p /\ pb_rm p <= hi).
    { intros p Hp. rewrite Forall_forall in Hgood. destruct (Hgood p Hp) as (Hwfp & Hlenp & b & Hbin & Hsub).
      pose proof (pb_wf_lm_le_rm p Hwfp) as Hle.
      rewrite Forall_forall in Hwf. pose proof (Hwf b Hbin) as Hwfb.
      assert (Hblen : (2 <= pb_len b)%nat).
      { unfold pb_len in *. pose proof (subseq_length _ _ _ Hsub). lia. }
      destruct (Hb b Hbin Hblen) as [Hlo Hhi].
      destruct Hwfp as (_ & Hl & Hr & _). apply in_map_iff in Hl, Hr.
      destruct Hl as (vl & El & Hvl). destruct Hr as (vr & Er & Hvr).
      pose proof (wf_bounds b vl Hwfb (subseq_In _ _ _ _ Hsub Hvl)).
      pose proof (wf_bounds b vr Hwfb (subseq_In _ _ _ _ Hsub Hvr)). lia. }
    pose proof (chain_sum_bound (p0 :: rest) hi Hchain) as Hs.
    specialize (Hs (fun p Hp => let '(conj _ (conj a b)) := Hbounds p Hp in conj a b) p0 rest eq_refl).
    destruct (Hbounds p0 (or_introl eq_refl)). lia.
Qed.
