(* C08, part 3: assembly.  For column contexts that implement a well-formed list of specification
   columns, the run of the model (scaled, projected, check-pointed forward-backward) outputs the
   posterior posterior_gen = plain sum over (bipartition, transmission path, assignment path),
   normalised.  Then the instance level: mk_cctxs implements spec_cols, hence fb_run = posterior_spec.
   ssreflect / bigop style. *)
From mathcomp Require Import all_ssreflect all_algebra.
From WH.Model Require Import GenotypeHMM.
From WH.Proofs Require Import SemiringDP GenotypeHMMBasics GenotypeHMMRun GenotypeHMMPosterior.
Set Implicit Arguments.
Unset Strict Implicit.
Unset Printing Implicit Defensive.
Import GRing.Theory.
Local Open Scope ring_scope.

Section Generic.
Variable K : fieldType.
Variable P : ped.
Variable genof : nat -> nat -> nat -> nat.
Let tn := ntrans P.
Let na := nassign P.
Let ts := iota 0 tn.
Let as_ := iota 0 na.

Local Notation scolK := (scol K).
Local Notation cctxK := (cctx K).
Local Notation dccK := (@dcc K 0).
Local Notation implK := (@impl_from K P).
Local Notation fimplK := (@fimpl K P).
Local Notation hdK := (@hd_ids K).
Local Notation pwK := (@path_weight K 1 *%R).
Local Notation states := (hmm_states tn na).

(* ---------------------------------------------------------------- splitting an implementation at a column *)
Lemma impl_split pre pre' racc racc' m rest rest' :
  size pre = size pre' ->
  fimplK racc racc' m (hdK (pre' ++ rest')) ->
  implK m (hdK racc') (pre ++ rest) (pre' ++ rest') ->
  exists m2, [/\ fimplK (rev pre ++ racc) (rev pre' ++ racc') m2 (hdK rest'),
                 implK m2 (hdK (rev pre' ++ racc')) rest rest'
               & (m2 + newcount (hdK (rev pre' ++ racc')) rest' = m + newcount (hdK racc') (pre' ++ rest'))%N].
Proof.
elim: pre pre' racc racc' m => [|cc pre IH] [|sc pre'] racc racc' m //= hsz hf himp.
  by exists m.
case: hsz => hsz; case: himp => hids hbpw hfm hloc himp.
rewrite !rev_cons !cat_rcons addnA.
apply: (IH pre' (cc :: racc) (sc :: racc') _ hsz) => //.
by exists m; split.
Qed.

(* ---------------------------------------------------------------- shapes *)
Lemma shape_of_impl m prev ccs cs : implK m prev ccs cs -> shape_ok ccs.
Proof.
elim: ccs cs m prev => [|cc ccs IH] [|sc cs] m prev //= [hids hbpw hfm [hk hW hL hT] himp].
have hsz := size_ids_split hids.
move=> c; case: c => [|c] /= hc.
  split; first by rewrite hfm size_map hk.
    by rewrite hbpw hk hsz leq_addr.
  move=> hc1; case: ccs cs himp {IH} hfm hc hc1 => [|cc' ccs] [|sc' cs] //= [_ hbpw' _ _ _] hfm _ _.
  by rewrite /cc_fw hfm hbpw' size_filter count_map; apply: eq_count.
have := IH cs _ _ himp c hc.
by case=> h1 h2 h3; split.
Qed.

(* ---------------------------------------------------------------- the number of reads *)
Lemma foldr_maxn_cat (s1 s2 : seq nat) :
  foldr maxn 0%N (s1 ++ s2) = maxn (foldr maxn 0%N s1) (foldr maxn 0%N s2).
Proof. by elim: s1 => [|x s1 IH] /=; rewrite ?max0n // IH maxnA. Qed.

Lemma nreads_cons (sc : scolK) cs :
  nreads (sc :: cs) = maxn (foldr maxn 0%N [seq r.+1 | r <- s_ids sc]) (nreads cs).
Proof. by rewrite /nreads /= foldr_maxn_cat. Qed.

Lemma maxn_ids (s : seq nat) m : all (fun r => r < m)%N s -> (foldr maxn 0%N [seq r.+1 | r <- s] <= m)%N.
Proof. by elim: s => //= r s IH /andP[hr /IH hs]; rewrite geq_max hr hs. Qed.

Lemma maxn_iota m d : (0 < d)%N -> foldr maxn 0%N [seq r.+1 | r <- iota m d] = (m + d)%N.
Proof.
elim: d m => // d IH m _ /=; case: d IH => [|d] IH; first by rewrite /= maxn0 addn1.
by rewrite IH // addSnnS; apply/maxn_idPr; rewrite -addSnnS leq_addr.
Qed.

Lemma nreads_impl m prev ccs cs :
  implK m prev ccs cs -> all (fun r => r < m)%N prev -> maxn m (nreads cs) = (m + newcount prev cs)%N.
Proof.
elim: ccs cs m prev => [|cc ccs IH] [|sc cs] m prev //=.
  by move=> _ _; rewrite /nreads /= maxn0 addn0.
case=> hids hbpw hfm hloc himp hprev.
set shared := [seq r <- prev | r \in s_ids sc] in hids himp *.
set nnew := (size (s_ids sc) - size shared)%N in hids himp *.
have hsh : all (fun r => r < m)%N shared.
  by apply/allP => r; rewrite mem_filter => /andP[_ /(allP hprev)].
have hidsm : all (fun r => r < m + nnew)%N (s_ids sc).
  rewrite hids all_cat; apply/andP; split.
    by apply/allP => r /(allP hsh) h; apply: ltn_addr.
  by apply/allP => r; rewrite mem_iota => /andP[].
rewrite nreads_cons maxnA addnA -(IH cs _ _ himp hidsm); congr (maxn _ _).
rewrite {1}hids map_cat foldr_maxn_cat maxnA (maxn_idPl (maxn_ids hsh)).
case: (posnP nnew) => [->|hn]; first by rewrite /= maxn0 addn0.
by rewrite maxn_iota //; apply/maxn_idPr; rewrite leq_addr.
Qed.

(* ---------------------------------------------------------------- Nm is the plain sum *)
Definition dsc : scolK := SCol [::] (fun _ _ _ => 0) (fun _ _ => 0).

Lemma impl_size m prev ccs cs : implK m prev ccs cs -> size ccs = size cs.
Proof. by elim: ccs cs m prev => [|cc ccs IH] [|sc cs] m prev //= [_ _ _ _ /IH->]. Qed.

Lemma Nm_spec ccs cs c (phi : nat -> nat -> bool) :
  implK 0 [::] ccs cs -> (c < size cs)%N ->
  Nm P ccs c phi
  = \sum_(b <- bits (nreads cs)) \sum_(p <- seqs states (size cs))
       (if phi (nth (0%N, 0%N) p c).1 (nth (0%N, 0%N) p c).2 then pwK None cs b p else 0).
Proof.
move=> himp hc.
have hsz := impl_size himp.
have hc' : (c < size ccs)%N by rewrite hsz.
have e1 : ccs = take c ccs ++ nth dccK ccs c :: drop c.+1 ccs.
  by rewrite -drop_nth // cat_take_drop.
have e2 : cs = take c cs ++ nth dsc cs c :: drop c.+1 cs.
  by rewrite -drop_nth // cat_take_drop.
set cc := nth dccK ccs c in e1 *; set sc := nth dsc cs c in e2 *.
have hst : size (take c ccs) = size (take c cs) by rewrite !size_take hsz.
have hf0 : fimplK [::] [::] 0 (hdK (take c cs ++ sc :: drop c.+1 cs)) by [].
have himp0 : implK 0 (hdK [::]) (take c ccs ++ cc :: drop c.+1 ccs) (take c cs ++ sc :: drop c.+1 cs).
  by rewrite -e1 -e2.
case: (impl_split hst hf0 himp0) => m []; rewrite !cats0 [hdK (_ :: _)]/= => hf himp1.
rewrite -e2 add0n [hdK [::]]/= => hcount.
have hR : nreads cs = (m + newcount (hdK (rev (take c cs))) (sc :: drop c.+1 cs))%N.
  have := nreads_impl himp (isT : all (fun r => r < 0)%N [::]).
  by rewrite max0n add0n hcount.
have hloc : loc_ok P cc sc by case: himp1.
case: hloc => hk hW _ _.
have hszc : size (take c cs) = c by rewrite size_take hc.
rewrite hR /Nm -/cc.
rewrite (eq_big_seq (fun i => \sum_(a <- iota 0 na | phi i a)
    \sum_(b <- bits (m + newcount (hdK (rev (take c cs))) (sc :: drop c.+1 cs)))
       inF P b (rev (take c cs)) sc i * s_W sc (pick (s_ids sc) b) i a * chainB P b (drop c.+1 cs) i)); last first.
  move=> i; rewrite mem_iota add0n => /andP[_ hi].
  apply: eq_sum_seq_cond => a; rewrite mem_iota add0n => /andP[_ ha] _.
  rewrite (meet (fun x => cc_W cc x i a) hf himp1 hi).
  by apply: eq_bigr => b _; rewrite hW // size_pick -hk.
rewrite (eq_bigr (fun i => \sum_(b <- bits (m + newcount (hdK (rev (take c cs))) (sc :: drop c.+1 cs)))
    \sum_(a <- iota 0 na | phi i a)
       inF P b (rev (take c cs)) sc i * s_W sc (pick (s_ids sc) b) i a * chainB P b (drop c.+1 cs) i)); last first.
  by move=> i _; rewrite exchange_big.
rewrite exchange_big /=; apply: eq_bigr => b _.
have := @chain_to_paths K P b (take c cs) sc (drop c.+1 cs) (fun s => (phi s.1 s.2)%:R).
rewrite -e2 hszc => hpaths.
rewrite (eq_bigr (fun p => (phi (nth (0%N, 0%N) p c).1 (nth (0%N, 0%N) p c).2)%:R * pwK None cs b p)); last first.
  by move=> p _; case: (phi _ _); rewrite ?mul1r ?mul0r.
rewrite hpaths; apply: eq_bigr => i _.
rewrite big_mkcond /=; apply: eq_bigr => a _.
by case: (phi i a); rewrite ?mul1r ?mul0r.
Qed.

(* ---------------------------------------------------------------- the generic theorem *)
Local Notation divK := (fun x y : K => x / y).
Local Notation subK := (fun x y : K => x - y).
Local Notation eq0K := (fun x : K => x == 0).
Local Notation post_gen := (@posterior_gen K 0 1 +%R *%R divK tn na genof).

Lemma posterior_genE cs c ind g :
  post_gen cs c ind g
  = (\sum_(b <- bits (nreads cs)) \sum_(p <- seqs states (size cs))
       (if phi_g genof ind g (nth (0%N, 0%N) p c).1 (nth (0%N, 0%N) p c).2 then pwK None cs b p else 0))
  / (\sum_(b <- bits (nreads cs)) \sum_(p <- seqs states (size cs)) pwK None cs b p).
Proof.
rewrite /posterior_gen /joint_mass /total_mass /weighted_paths /phi_g.
rewrite !fsum_map !big_map /=; congr (_ / _).
  rewrite exchange_big /=; apply: eq_bigr => p _.
  by rewrite fsum_map bitvecsE; case: ifP => _ //; rewrite big1.
rewrite exchange_big /=; apply: eq_bigr => p _.
by rewrite fsum_map bitvecsE.
Qed.

Theorem gen_ok ccs cs k :
  implK 0 [::] ccs cs -> (0 < k)%N ->
  let fs := @fb_run_state_k K 0 1 +%R subK *%R divK eq0K P genof ccs k in
  err (f_b fs) = false ->
  size (f_out fs) = size cs /\
  forall c ind g, (c < size cs)%N -> (ind < p_nind P)%N -> (g < 3)%N ->
    out_at (f_out fs) c ind g = post_gen cs c ind g.
Proof.
move=> himp hk fs herr.
have hshape := shape_of_impl himp.
have hsz := impl_size himp.
case: (run_k_ok hshape hk herr) => hs hout; split; first by rewrite hs.
move=> c ind g hc hind hg.
have hc' : (c < size ccs)%N by rewrite hsz.
case: (hout c hc') => _ /(_ ind g hind hg) ->.
by rewrite /post posterior_genE !(Nm_spec _ himp hc).
Qed.

(* the three likelihoods of an individual at a column sum to one *)
Lemma Nm_partition (ccs : seq cctxK) c ind :
  (forall i a, (i < tn)%N -> (a < na)%N -> (genof i a ind < 3)%N) ->
  \sum_(g <- iota 0 3) Nm P ccs c (phi_g genof ind g) = Nm P ccs c (fun _ _ => true).
Proof.
move=> hg; rewrite /Nm exchange_big /=; apply: eq_big_seq => i; rewrite mem_iota add0n => /andP[_ hi].
rewrite (eq_bigr (fun g => \sum_(a <- iota 0 na) (if phi_g genof ind g i a then
     \sum_(x <- bits (cc_k (nth dccK ccs c)))
        prex P (rev (take c ccs)) (fwdx P (rev (take c ccs))) (nth dccK ccs c) x i
        * cc_W (nth dccK ccs c) x i a
        * bwdx P (drop c.+1 ccs) (mask (cc_fmask (nth dccK ccs c)) x) i else 0))); last first.
  by move=> g _; rewrite big_mkcond.
rewrite exchange_big /=; apply: eq_big_seq => a; rewrite mem_iota add0n => /andP[_ ha].
rewrite /phi_g; move: (hg i a hi ha).
rewrite !big_cons big_nil; case: (genof i a ind) => [|[|[|v]]] //= _;
  by rewrite ?addr0 ?add0r.
Qed.

Theorem gen_sums_one ccs cs k c ind :
  implK 0 [::] ccs cs -> (0 < k)%N ->
  let fs := @fb_run_state_k K 0 1 +%R subK *%R divK eq0K P genof ccs k in
  err (f_b fs) = false ->
  (c < size cs)%N -> (ind < p_nind P)%N ->
  (forall i a, (i < tn)%N -> (a < na)%N -> (genof i a ind < 3)%N) ->
  \sum_(g <- iota 0 3) out_at (f_out fs) c ind g = 1.
Proof.
move=> himp hk fs herr hc hind hg.
have hshape := shape_of_impl himp.
have hc' : (c < size ccs)%N by rewrite (impl_size himp).
case: (run_k_ok hshape hk herr) => _ /(_ c hc') [hnz ho].
rewrite (eq_big_seq (fun g => post P genof ccs c ind g)); last first.
  by move=> g; rewrite mem_iota add0n => /andP[_ hg3]; apply: ho.
by rewrite /post -big_distrl /= Nm_partition // divff.
Qed.

End Generic.
