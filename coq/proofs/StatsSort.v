(* C12 — generic facts about the insertion sort `sort_by`, minima / maxima and sums of Z lists. *)
From Coq Require Import ZArith List Bool Arith Lia Sorted Permutation.
From WH.Model Require Import Stats.
Import ListNotations.
Open Scope Z_scope.

Section Sort.
  Context {A : Type}.
  Variable before : A -> A -> bool.

  Lemma insert_by_perm : forall x l, Permutation (insert_by before x l) (x :: l).
  Proof.
    intros x l. induction l as [|y l IH]; cbn [insert_by].
    - apply Permutation_refl.
    - destruct (before x y) eqn:E.
      + apply Permutation_refl.
      + eapply perm_trans. apply perm_skip. exact IH. apply perm_swap.
  Qed.

  Lemma sort_by_fold_perm : forall l acc,
    Permutation (fold_left (fun acc x => insert_by before x acc) l acc) (acc ++ l).
  Proof.
    induction l as [|x l IH]; intros acc; cbn [fold_left].
    - rewrite app_nil_r. apply Permutation_refl.
    - eapply perm_trans. apply IH.
      eapply perm_trans. apply Permutation_app_tail. apply insert_by_perm.
      cbn [app]. apply Permutation_middle.
  Qed.

  Lemma sort_by_perm : forall l, Permutation (sort_by before l) l.
  Proof. intros l. unfold sort_by. apply (sort_by_fold_perm l []). Qed.

  Lemma sort_by_in : forall l x, In x (sort_by before l) <-> In x l.
  Proof.
    intros l x. split; intro H.
    - eapply Permutation_in. apply sort_by_perm. exact H.
    - eapply Permutation_in. apply Permutation_sym, sort_by_perm. exact H.
  Qed.

  Lemma sort_by_length : forall l, length (sort_by before l) = length l.
  Proof. intros l. apply Permutation_length, sort_by_perm. Qed.

  Definition ord (a b : A) : Prop := before b a = false.

  Hypothesis before_irrefl : forall x, before x x = false.
  Hypothesis before_trans : forall x y z, before x y = true -> before z y = false -> before z x = false.

  Lemma insert_by_sorted : forall x l, StronglySorted ord l -> StronglySorted ord (insert_by before x l).
  Proof.
    intros x l. induction l as [|y l IH]; intros Hs; cbn [insert_by].
    - constructor. constructor. constructor.
    - inversion Hs as [|? ? Hs' Hall]; subst.
      destruct (before x y) eqn:E.
      + constructor. exact Hs.
        constructor.
        * unfold ord. eapply before_trans. exact E. apply before_irrefl.
        * rewrite Forall_forall in Hall |- *. intros z Hz. unfold ord.
          eapply before_trans. exact E. apply Hall. exact Hz.
      + constructor. apply IH. exact Hs'.
        rewrite Forall_forall in Hall |- *. intros z Hz.
        apply (Permutation_in _ (insert_by_perm x l)) in Hz. destruct Hz as [Hz|Hz].
        * subst z. exact E.
        * apply Hall. exact Hz.
  Qed.

  Lemma sort_by_fold_sorted : forall l acc, StronglySorted ord acc ->
    StronglySorted ord (fold_left (fun acc x => insert_by before x acc) l acc).
  Proof.
    induction l as [|x l IH]; intros acc Hs; cbn [fold_left].
    - exact Hs.
    - apply IH. apply insert_by_sorted. exact Hs.
  Qed.

  Lemma sort_by_sorted : forall l, StronglySorted ord (sort_by before l).
  Proof. intros l. unfold sort_by. apply sort_by_fold_sorted. constructor. Qed.
End Sort.

(* ---------------------------------------------------------------------------------------------- *)
(* Z lists                                                                                         *)
Lemma sort_asc_sorted : forall l, StronglySorted Z.le (sort_asc l).
Proof.
  intros l. unfold sort_asc.
  assert (H : StronglySorted (ord Z.ltb) (sort_by Z.ltb l)).
  { apply sort_by_sorted.
    - intros x. apply Z.ltb_irrefl.
    - intros x y z H1 H2. apply Z.ltb_lt in H1. apply Z.ltb_ge in H2. apply Z.ltb_ge. lia. }
  eapply StronglySorted_ind with (P := fun l => StronglySorted Z.le l) in H.
  - exact H.
  - constructor.
  - intros a l0 _ IH Hall. constructor. exact IH.
    rewrite Forall_forall in Hall |- *. intros z Hz. specialize (Hall z Hz). unfold ord in Hall.
    apply Z.ltb_ge in Hall. exact Hall.
Qed.

Lemma sort_asc_perm : forall l, Permutation (sort_asc l) l.
Proof. intros l. apply sort_by_perm. Qed.

Lemma zsum_app : forall a b, zsum (a ++ b) = zsum a + zsum b.
Proof.
  induction a as [|x a IH]; intros b; unfold zsum in *; cbn [fold_right app].
  - lia.
  - rewrite IH. lia.
Qed.

Lemma zsum_perm : forall a b, Permutation a b -> zsum a = zsum b.
Proof.
  intros a b H. induction H; cbn [zsum fold_right] in *; unfold zsum in *; try lia.
Qed.

Lemma zsum_sort_asc : forall l, zsum (sort_asc l) = zsum l.
Proof. intros l. apply zsum_perm, sort_asc_perm. Qed.

Lemma sort_asc_length : forall l, length (sort_asc l) = length l.
Proof. intros l. apply Permutation_length, sort_asc_perm. Qed.

Lemma sort_asc_nil_iff : forall l, sort_asc l = [] <-> l = [].
Proof.
  intros l. split; intro H.
  - apply length_zero_iff_nil. rewrite <- sort_asc_length, H. reflexivity.
  - subst. reflexivity.
Qed.

(* minimum / maximum *)
Lemma fold_min_le_init : forall l x, fold_left Z.min l x <= x.
Proof. induction l as [|y l IH]; intros x; cbn [fold_left]. lia. specialize (IH (Z.min x y)). lia. Qed.
Lemma fold_min_le : forall l x y, In y l -> fold_left Z.min l x <= y.
Proof.
  induction l as [|z l IH]; intros x y Hin; cbn [fold_left]. destruct Hin.
  destruct Hin as [->|Hin].
  - pose proof (fold_min_le_init l (Z.min x y)). lia.
  - apply IH. exact Hin.
Qed.
Lemma fold_min_in : forall l x, fold_left Z.min l x = x \/ In (fold_left Z.min l x) l.
Proof.
  induction l as [|z l IH]; intros x; cbn [fold_left]. left; reflexivity.
  destruct (IH (Z.min x z)) as [H|H].
  - rewrite H. destruct (Z.min_spec x z) as [[_ E]|[_ E]]; rewrite E. left; reflexivity. right; left; reflexivity.
  - right; right; exact H.
Qed.
Lemma fold_max_ge_init : forall l x, x <= fold_left Z.max l x.
Proof. induction l as [|y l IH]; intros x; cbn [fold_left]. lia. specialize (IH (Z.max x y)). lia. Qed.
Lemma fold_max_ge : forall l x y, In y l -> y <= fold_left Z.max l x.
Proof.
  induction l as [|z l IH]; intros x y Hin; cbn [fold_left]. destruct Hin.
  destruct Hin as [->|Hin].
  - pose proof (fold_max_ge_init l (Z.max x y)). lia.
  - apply IH. exact Hin.
Qed.
Lemma fold_max_in : forall l x, fold_left Z.max l x = x \/ In (fold_left Z.max l x) l.
Proof.
  induction l as [|z l IH]; intros x; cbn [fold_left]. left; reflexivity.
  destruct (IH (Z.max x z)) as [H|H].
  - rewrite H. destruct (Z.max_spec x z) as [[_ E]|[_ E]]; rewrite E. right; left; reflexivity. left; reflexivity.
  - right; right; exact H.
Qed.

Lemma zmin_list_in : forall d l, l <> [] -> In (zmin_list d l) l.
Proof.
  intros d [|x r] H. contradiction. cbn [zmin_list].
  destruct (fold_min_in r x) as [E|E]. rewrite E. left; reflexivity. right; exact E.
Qed.
Lemma zmin_list_le : forall d l y, In y l -> zmin_list d l <= y.
Proof.
  intros d [|x r] y H. destruct H. cbn [zmin_list]. destruct H as [->|H].
  apply fold_min_le_init. apply fold_min_le. exact H.
Qed.
Lemma zmax_list_in : forall d l, l <> [] -> In (zmax_list d l) l.
Proof.
  intros d [|x r] H. contradiction. cbn [zmax_list].
  destruct (fold_max_in r x) as [E|E]. rewrite E. left; reflexivity. right; exact E.
Qed.
Lemma zmax_list_ge : forall d l y, In y l -> y <= zmax_list d l.
Proof.
  intros d [|x r] y H. destruct H. cbn [zmax_list]. destruct H as [->|H].
  apply fold_max_ge_init. apply fold_max_ge. exact H.
Qed.
Lemma zmin_list_unique : forall d l m, In m l -> (forall y, In y l -> m <= y) -> zmin_list d l = m.
Proof.
  intros d l m Hin Hle.
  assert (l <> []) by (intro; subst; destruct Hin).
  pose proof (zmin_list_in d l H). pose proof (zmin_list_le d l m Hin). specialize (Hle _ H0). lia.
Qed.
Lemma zmax_list_unique : forall d l m, In m l -> (forall y, In y l -> y <= m) -> zmax_list d l = m.
Proof.
  intros d l m Hin Hle.
  assert (l <> []) by (intro; subst; destruct Hin).
  pose proof (zmax_list_in d l H). pose proof (zmax_list_ge d l m Hin). specialize (Hle _ H0). lia.
Qed.
Lemma zmin_list_perm : forall d a b, Permutation a b -> zmin_list d a = zmin_list d b.
Proof.
  intros d a b H. destruct a as [|x a].
  - apply Permutation_nil in H. subst. reflexivity.
  - apply zmin_list_unique.
    + eapply Permutation_in. apply Permutation_sym, H. apply zmin_list_in.
      intro Hb; subst b; apply Permutation_sym, Permutation_nil in H; discriminate.
    + intros y Hy. apply zmin_list_le. eapply Permutation_in. exact H. exact Hy.
Qed.
Lemma zmax_list_perm : forall d a b, Permutation a b -> zmax_list d a = zmax_list d b.
Proof.
  intros d a b H. destruct a as [|x a].
  - apply Permutation_nil in H. subst. reflexivity.
  - apply zmax_list_unique.
    + eapply Permutation_in. apply Permutation_sym, H. apply zmax_list_in.
      intro Hb; subst b; apply Permutation_sym, Permutation_nil in H; discriminate.
    + intros y Hy. apply zmax_list_ge. eapply Permutation_in. exact H. exact Hy.
Qed.

Lemma sorted_hd_min : forall d l, StronglySorted Z.le l -> hd d l = zmin_list d l.
Proof.
  intros d [|x r] H. reflexivity. cbn [hd]. symmetry. apply zmin_list_unique. left; reflexivity.
  inversion H as [|? ? _ Hall]; subst. rewrite Forall_forall in Hall.
  intros y [->|Hy]. lia. apply Hall. exact Hy.
Qed.
Lemma sorted_last_max : forall d l, StronglySorted Z.le l -> last l d = zmax_list d l.
Proof.
  intros d l H. destruct l as [|x r]. reflexivity.
  symmetry. apply zmax_list_unique.
  - clear H. revert x. induction r as [|y r IH]; intros x. left; reflexivity.
    right. change (last (x :: y :: r) d) with (last (y :: r) d). apply IH.
  - revert x H. induction r as [|y r IH]; intros x H z Hz.
    + destruct Hz as [->|[]]. cbn. lia.
    + change (last (x :: y :: r) d) with (last (y :: r) d).
      inversion H as [|? ? Hs Hall]; subst.
      destruct Hz as [->|Hz].
      * rewrite Forall_forall in Hall.
        assert (In (last (y :: r) d) (y :: r)).
        { clear. revert y. induction r as [|w r IH]; intros y. left; reflexivity.
          right. change (last (y :: w :: r) d) with (last (w :: r) d). apply IH. }
        apply Hall. exact H0.
      * apply IH. exact Hs. exact Hz.
Qed.

Lemma hd_sort_asc : forall l, hd 0 (sort_asc l) = zmin_list 0 l.
Proof.
  intros l. rewrite (sorted_hd_min 0 _ (sort_asc_sorted l)). apply zmin_list_perm, sort_asc_perm.
Qed.
Lemma last_sort_asc : forall l, last (sort_asc l) 0 = zmax_list 0 l.
Proof.
  intros l. rewrite (sorted_last_max 0 _ (sort_asc_sorted l)). apply zmax_list_perm, sort_asc_perm.
Qed.

Lemma zmin_list_app : forall a b, a <> [] -> b <> [] ->
  zmin_list 0 (a ++ b) = Z.min (zmin_list 0 a) (zmin_list 0 b).
Proof.
  intros a b Ha Hb. apply zmin_list_unique.
  - apply in_or_app. destruct (Z.min_spec (zmin_list 0 a) (zmin_list 0 b)) as [[_ E]|[_ E]]; rewrite E.
    left. apply zmin_list_in; assumption. right. apply zmin_list_in; assumption.
  - intros y Hy. apply in_app_or in Hy. destruct Hy as [Hy|Hy].
    pose proof (zmin_list_le 0 a y Hy). lia. pose proof (zmin_list_le 0 b y Hy). lia.
Qed.
Lemma zmax_list_app : forall a b, a <> [] -> b <> [] ->
  zmax_list 0 (a ++ b) = Z.max (zmax_list 0 a) (zmax_list 0 b).
Proof.
  intros a b Ha Hb. apply zmax_list_unique.
  - apply in_or_app. destruct (Z.max_spec (zmax_list 0 a) (zmax_list 0 b)) as [[_ E]|[_ E]]; rewrite E.
    right. apply zmax_list_in; assumption. left. apply zmax_list_in; assumption.
  - intros y Hy. apply in_app_or in Hy. destruct Hy as [Hy|Hy].
    pose proof (zmax_list_ge 0 a y Hy). lia. pose proof (zmax_list_ge 0 b y Hy). lia.
Qed.

(* strictly sorted lists with the same elements are equal *)
Lemma strict_sorted_unique : forall l1 l2 : list Z,
  StronglySorted Z.lt l1 -> StronglySorted Z.lt l2 -> (forall x, In x l1 <-> In x l2) -> l1 = l2.
Proof.
  induction l1 as [|a l1 IH]; intros l2 H1 H2 Hiff.
  - destruct l2 as [|b l2]. reflexivity. exfalso. apply (proj2 (Hiff b)). left; reflexivity.
  - destruct l2 as [|b l2]. exfalso. apply (proj1 (Hiff a)). left; reflexivity.
    inversion H1 as [|? ? Hs1 Ha]; subst. inversion H2 as [|? ? Hs2 Hb]; subst.
    rewrite Forall_forall in Ha, Hb.
    assert (a = b).
    { destruct (proj1 (Hiff a) (or_introl eq_refl)) as [E|E]; [congruence|].
      destruct (proj2 (Hiff b) (or_introl eq_refl)) as [E'|E']; [congruence|].
      specialize (Ha _ E'). specialize (Hb _ E). lia. }
    subst b. f_equal. apply IH; try assumption.
    intros x. split; intro Hx.
    + destruct (proj1 (Hiff x) (or_intror Hx)) as [E|E]; [|exact E]. subst x. specialize (Ha _ Hx). lia.
    + destruct (proj2 (Hiff x) (or_intror Hx)) as [E|E]; [|exact E]. subst x. specialize (Hb _ Hx). lia.
Qed.

Lemma sorted_nodup_strict : forall l : list Z, StronglySorted Z.le l -> NoDup l -> StronglySorted Z.lt l.
Proof.
  induction l as [|a l IH]; intros Hs Hn. constructor.
  inversion Hs as [|? ? Hs' Hall]; subst. inversion Hn as [|? ? Hnin Hn']; subst.
  constructor. apply IH; assumption.
  rewrite Forall_forall in Hall |- *. intros x Hx. specialize (Hall x Hx).
  assert (a <> x) by (intro; subst; contradiction). lia.
Qed.

(* zmem / znodup *)
Lemma zmem_In : forall x l, zmem x l = true <-> In x l.
Proof.
  intros x l. induction l as [|y l IH]; cbn [zmem In]. split; [discriminate|tauto].
  rewrite orb_true_iff, IH, Z.eqb_eq. split; intros [H|H]; auto.
Qed.
Lemma zmem_false : forall x l, zmem x l = false <-> ~ In x l.
Proof.
  intros x l. rewrite <- zmem_In. destruct (zmem x l); split; intro H; try reflexivity; try discriminate.
  exfalso. apply H. reflexivity.
Qed.
Lemma znodup_In : forall x l, In x (znodup l) <-> In x l.
Proof.
  intros x l. induction l as [|y l IH]; cbn [znodup]. tauto.
  destruct (zmem y l) eqn:E.
  - rewrite IH. split; intro H. right; exact H. destruct H as [->|H]. apply zmem_In; exact E. exact H.
  - cbn [In]. rewrite IH. tauto.
Qed.
Lemma znodup_NoDup : forall l, NoDup (znodup l).
Proof.
  induction l as [|y l IH]; cbn [znodup]. constructor.
  destruct (zmem y l) eqn:E. exact IH.
  constructor. rewrite znodup_In. apply zmem_false. exact E. exact IH.
Qed.
