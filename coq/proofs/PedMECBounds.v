(* The 32-bit guard of C01: every finite value in the tables of the model's forward pass is bounded
   by total_bound (so that, under no_overflow, the unsigned arithmetic of the code neither wraps
   around nor reaches UINT_MAX). ssreflect style. *)
From mathcomp Require Import all_ssreflect.
From WH.Model Require Import PedMEC.
From WH.Proofs Require Import SemiringDP Tropical PedMECProofs PedMECWitness.
Set Implicit Arguments.
Unset Strict Implicit.
Unset Printing Implicit Defensive.

Lemma flip_cost_le hp ents x a : flip_cost hp ents x a <= sumn [seq ent_weight se.2 | se <- ents].
Proof.
rewrite /flip_cost; elim: ents x => [|[s e] ents IH] [|b x] //=.
apply: leq_add (IH x); case: e => [[al w]|] //=.
by case: ifP.
Qed.

Lemma hamming_le nb a b : hamming nb a b <= nb.
Proof.
elim: nb a b => [|nb IH] a b //=; rewrite -add1n; apply: leq_add (IH _ _).
by case: (_ != _).
Qed.

Section Bounds.
Variable I : inst.

Lemma geno_fold_le hp (gs : seq gspec) a s g0 g :
  foldl (fun acc i =>
           if acc is Some g then
             let k := allele_of hp a i false + allele_of hp a i true in
             match nth (GT 0) gs i with
             | GT n => if k == n then Some g else None
             | GL g0 g1 g2 => Some (g + nth 0 [:: g0; g1; g2] k)
             end
           else None) (Some g0) s = Some g ->
  g <= g0 + sumn [seq gl_max (nth (GT 0) gs i) | i <- s].
Proof.
elim: s g0 => [|i s IH] g0 /=; first by case=> ->; rewrite addn0.
case: (nth (GT 0) gs i) => [k|g0' g1 g2] /=.
  case: ifP => _; first by move/IH => h; apply: leq_trans h _; rewrite leq_add2l leq_addl.
  by rewrite (_ : foldl _ None s = None) //; elim: s {IH}.
move/IH => h; apply: leq_trans h _; rewrite -addnA leq_add2l leq_add2r.
set k := _ + _; case: k => [|[|[|k]]] /=; rewrite ?leq_max ?leqnn ?orbT //.
by rewrite nth_nil.
Qed.

Lemma geno_cost_le hp gs a g : geno_cost I hp gs a = Some g ->
  g <= sumn [seq gl_max (nth (GT 0) gs i) | i <- iota 0 (i_nind I)].
Proof. by move/geno_fold_le; rewrite add0n. Qed.

Lemma local_cost_le c x t v : local_cost I c x t = Some v ->
  v <= sumn [seq ent_weight se.2 | se <- colents I c]
       + sumn [seq gl_max (nth (GT 0) (nth [::] (i_geno I) c) i) | i <- iota 0 (i_nind I)].
Proof.
case/local_cost_attained => a [g [/allowedP[_ hg] ->]].
by rewrite addnC; apply: leq_add (geno_cost_le hg); exact: flip_cost_le.
Qed.

Hypothesis Hs : sorted_reads I.
Let n := i_ncols I.
Let m c := size (active I c).
Definition Bd c := sumn [seq colbound I c' | c' <- iota 0 c].

Lemma BdS c : Bd c.+1 = Bd c + colbound I c.
Proof. by rewrite /Bd -addn1 iotaD map_cat sumn_cat /= addn0 add0n. Qed.

Lemma Bd_mono c c' : c <= c' -> Bd c <= Bd c'.
Proof. by move/subnKC<-; elim: (c' - c) => [|k IH]; rewrite ?addn0 // addnS BdS (leq_trans IH) // leq_addr. Qed.

Lemma values_le c :
  (forall s t v, size s = size (kept I c) -> t < nT I -> W I c s t = Some v -> v <= Bd c) /\
  (forall x t v, size x = m c -> t < nT I -> Vg I c x t = Some v -> v <= Bd c.+1).
Proof.
elim: c => [|c [IHW IHV]].
  have h0 : forall s t v, size s = size (kept I 0) -> t < nT I -> W I 0 s t = Some v -> v <= Bd 0.
    by move=> s t v; rewrite kept0 => /size0nil-> ht; rewrite W0 // => -[<-].
  split=> // x t v hx ht; rewrite /Vg.
  case hl: (local_cost I 0 x t) => [l|] //; case hu: (ominl _) => [u|] //= [<-].
  case: (ominl_mem [seq oadd (W I 0 (take (bw I 0) x) j) (Some (trans_cost I 0 j t)) | j <- ts I]); first by rewrite hu.
  rewrite hu => /mapP[j]; rewrite mem_iota add0n /= => hj.
  rewrite /= take0 W0 //= add0n => -[->]; rewrite BdS /Bd /= add0n /colbound.
  by apply: leq_add (local_cost_le hl) _; rewrite /trans_cost leq_mul2r hamming_le orbT.
have hW : forall s t v, size s = size (kept I c.+1) -> t < nT I -> W I c.+1 s t = Some v -> v <= Bd c.+1.
  move=> s t v hs ht; rewrite WS // => hv.
  case: (ominl_mem [seq Vg I c x t | x <- bvs (m c) & mask (fmask I c) x == s]); first by rewrite hv.
  rewrite hv => /mapP[x]; rewrite mem_filter mem_bvs => /andP[_ /eqP hx] hvx.
  exact: (IHV x t v hx ht (esym hvx)).
split=> // x t v hx ht; rewrite /Vg.
case hl: (local_cost I c.+1 x t) => [l|] //; case hu: (ominl _) => [u|] //= [<-].
case: (ominl_mem [seq oadd (W I c.+1 (take (bw I c.+1) x) j) (Some (trans_cost I c.+1 j t)) | j <- ts I]); first by rewrite hu.
rewrite hu => /mapP[j]; rewrite mem_iota add0n /= => hj.
case hw: (W I c.+1 _ j) => [w|] //= [->].
have hwb := hW _ _ _ (size_take_bw Hs hx) hj hw.
rewrite [Bd c.+2]BdS addnC /colbound -addnA; apply: leq_add hwb _.
rewrite addnC; apply: leq_add (local_cost_le hl) _.
by rewrite /trans_cost leq_mul2r hamming_le orbT.
Qed.
End Bounds.

Lemma table_le_mktab I B ks g :
  (forall k t v, k \in ks -> t < nT I -> g k t = Some v -> v <= B) -> table_le B (mktab I ks g).
Proof.
move=> h; rewrite /table_le /mktab all_map; apply/allP => k hk /=.
rewrite all_map; apply/allP => t; rewrite mem_iota add0n /= => ht.
by case e: (g k t) => [v|] //; apply: h e.
Qed.

Lemma PrevTS_mktab I : sorted_reads I -> forall c,
  exists g, PrevT I c.+1 = mktab I (bvs (size (kept I c.+1))) g.
Proof.
move=> Hs c; rewrite /= -/(ColT I c) ColTE projectE //.
by eexists.
Qed.

Theorem values_bounded I : wf I -> no_conflict I ->
  forall recs, dp_forward I (iota 0 (i_ncols I)) (prev0 I) = Some recs ->
  all (fun r => [&& table_le (total_bound I) (cr_lrows r), table_le (total_bound I) (cr_prev r)
                  & table_le (total_bound I) (cr_col r)]) recs.
Proof.
move=> hwf hnc recs; have Hs := wf_sorted hwf.
have := @dp_forward_ok I hnc (i_ncols I) 0; rewrite add0n => /(_ erefl) /= -> [<-].
rewrite all_map; apply/allP => c; rewrite mem_iota add0n /= => hc.
have hB k : k <= i_ncols I -> Bd I k <= total_bound I by exact: Bd_mono.
have [hW hV] := values_le Hs c.
apply/and3P; split.
- rewrite local_rowsE; apply: table_le_mktab => x t v _ ht /local_cost_le h.
  apply: leq_trans (hB c.+1 hc); rewrite BdS /colbound; apply: leq_trans h _.
  by rewrite [Bd I c + _]addnC -addnA leq_addr.

- case: c hc hW {hV} => [|c] hc hW.
    by rewrite /= /table_le /= andbT all_nseq leq0n orbT.
  have [g hg] := PrevTS_mktab Hs c; rewrite hg; apply: table_le_mktab => s t v hs ht hv.
  apply: leq_trans (hB c.+1 (ltnW hc)); apply: (hW s t) => //; first by move: hs; rewrite mem_bvs => /eqP.
  by rewrite /W hg tlook_mktab.
- rewrite ColTE; apply: table_le_mktab => x t v; rewrite mem_bvs => /eqP hx ht hv.
  by apply: leq_trans (hB c.+1 hc); apply: (hV x t).
Qed.
