(* Generic column-DP theorem over an arbitrary commutative semiring (DESIGN.md §5.3, Appendix A).
   ssreflect / bigop style. Used by C01 ((min,+) instance) and C08 (sum-product instance). *)
From mathcomp Require Import all_ssreflect.
Set Implicit Arguments.
Unset Strict Implicit.
Unset Printing Implicit Defensive.
Import Monoid.Theory.

Fixpoint bits (n : nat) : seq (seq bool) :=
  if n is n'.+1 then [seq b :: v | b <- [:: false; true], v <- bits n'] else [:: [::]].

Lemma bitsS n : bits n.+1 = [seq b :: v | b <- [:: false; true], v <- bits n].
Proof. by []. Qed.
Lemma bits0 : bits 0 = [:: [::]]. Proof. by []. Qed.
Arguments bits : simpl never.

Lemma size_bits n v : v \in bits n -> size v = n.
Proof.
elim: n v => [|n IH] v; first by rewrite bits0 inE => /eqP->.
by rewrite bitsS => /allpairsP[[b w]] /= [_ /IH<- ->].
Qed.

Lemma bits_uniq n : uniq (bits n).
Proof.
elim: n => [|n IH] //; rewrite bitsS.
apply: allpairs_uniq => //.
by move=> [b1 v1] [b2 v2] _ _ /= [-> ->].
Qed.

Lemma mem_bits v : v \in bits (size v).
Proof.
elim: v => [|b v IH] //=; rewrite bitsS.
apply/allpairsP; exists (b, v) => /=; split=> //.
by case: b; rewrite !inE.
Qed.

Lemma mem_bitsE n v : (v \in bits n) = (size v == n).
Proof.
apply/idP/eqP; first exact: size_bits.
by move<-; exact: mem_bits.
Qed.

Lemma bits_add a b : perm_eq (bits (a + b)) [seq s ++ v | s <- bits a, v <- bits b].
Proof.
apply: uniq_perm; first exact: bits_uniq.
  apply: allpairs_uniq; try exact: bits_uniq.
  move=> [s1 v1] [s2 v2] /= /allpairsP[[x1 y1] /= [hx1 hy1 [e1 e2]]] /allpairsP[[x2 y2] /= [hx2 hy2 [e3 e4]]] e.
  subst.
  have hsz : size x1 = size x2 by rewrite (size_bits hx1) (size_bits hx2).
  by move: e; move/eqP; rewrite eqseq_cat // => /andP[/eqP-> /eqP->].
move=> w; rewrite mem_bitsE; apply/eqP/allpairsP.
  move=> hw; exists (take a w, drop a w) => /=; rewrite cat_take_drop !mem_bitsE.
  rewrite size_take size_drop hw addKn eqxx.
  by split=> //; case: ltnP => // h; rewrite eqn_leq h leq_addr.
case=> [[s v]] /= []; rewrite !mem_bitsE => /eqP hs /eqP hv ->.
by rewrite size_cat hs hv.
Qed.

Section Semiring.
Variables (R : Type) (zero : R).
Variable times : Monoid.mul_law zero.
Variable plus : Monoid.add_law zero times.
Hypothesis timesA : associative times.

Local Notation "x + y" := (plus x y).
Local Notation "x * y" := (times x y).
Local Notation "\sum_ ( i <- r | P ) F" := (\big[plus/zero]_(i <- r | P) F).
Local Notation "\sum_ ( i <- r ) F" := (\big[plus/zero]_(i <- r) F).

Definition pick (ids : seq nat) (beta : seq bool) : seq bool := [seq nth false beta i | i <- ids].

Lemma size_pick ids beta : size (pick ids beta) = size ids.
Proof. by rewrite size_map. Qed.

Lemma pick_cat_lt ids b1 b2 : all (fun i => i < size b1) ids -> pick ids (b1 ++ b2) = pick ids b1.
Proof. by move=> h; apply/eq_in_map => i /(allP h) hi; rewrite nth_cat hi. Qed.

Lemma pick_iota_cat b1 b2 : pick (iota (size b1) (size b2)) (b1 ++ b2) = b2.
Proof.
apply: (@eq_from_nth _ false); first by rewrite size_map size_iota.
move=> i; rewrite size_map size_iota => hi.
by rewrite (nth_map 0) ?size_iota // nth_iota // nth_cat ltnNge leq_addr /= addKn.
Qed.

Lemma pick_mask m ids beta : pick (mask m ids) beta = mask m (pick ids beta).
Proof. by rewrite /pick map_mask. Qed.

Lemma sum_pick1 k (f : seq bool -> R) (v : seq bool) : size v = k ->
  \sum_(s <- bits k | s == v) f s = f v.
Proof.
move=> hv; rewrite -big_filter.
have -> : [seq s <- bits k | s == v] = [:: v]; last by rewrite big_seq1.
have hin : v \in bits k by rewrite mem_bitsE hv.
apply: perm_small_eq => //.
apply: uniq_perm; [exact/filter_uniq/bits_uniq | by [] |].
by move=> s; rewrite mem_filter inE; case: eqP => // ->; rewrite hin.
Qed.

Lemma sum_bits_add a b (f : seq bool -> R) :
  \sum_(x <- bits (a + b)) f x = \sum_(s <- bits a) \sum_(v <- bits b) f (s ++ v).
Proof. by rewrite (perm_big _ (bits_add a b)) /= big_allpairs_dep. Qed.

Variable Tn : nat.
Let ts := iota 0 Tn.

Section Step.
Variables (m : nat) (S : seq nat).
Variables (P : seq bool -> nat -> R) (F : seq bool -> nat -> R).
Variables (nnew : nat) (L : seq bool -> nat -> R) (T : nat -> nat -> R) (msk : seq bool).

Definition act := S ++ iota m nnew.
Definition D (x : seq bool) (t : nat) : R :=
  L x t * \sum_(t' <- ts) (P (take (size S) x) t' * T t' t).
Definition P' (sigma : seq bool) (t : nat) : R :=
  \sum_(x <- bits (size S + nnew) | mask msk x == sigma) D x t.
Definition F' (beta : seq bool) (t : nat) : R :=
  L (pick act beta) t * \sum_(t' <- ts) (F beta t' * T t' t).

Hypothesis S_lt : all (fun i => i < m) S.
Hypothesis P_ok : forall sigma t, size sigma = size S ->
  P sigma t = \sum_(beta <- bits m | pick S beta == sigma) F beta t.
Hypothesis F_local : forall b1 b2 t, size b1 = m -> F (b1 ++ b2) t = F b1 t.

Lemma step_ok sigma t :
  P' sigma t = \sum_(beta <- bits (m + nnew) | pick (mask msk act) beta == sigma) F' beta t.
Proof.
pose H b s v := if mask msk (s ++ v) == sigma
                then L (s ++ v) t * \sum_(t' <- ts) (F b t' * T t' t) else zero.
have rhsE : \sum_(beta <- bits (m + nnew) | pick (mask msk act) beta == sigma) F' beta t
          = \sum_(b <- bits m) \sum_(v <- bits nnew) H b (pick S b) v.
  rewrite big_mkcond sum_bits_add /=; apply: eq_big_seq => b; rewrite mem_bitsE => /eqP hb.
  apply: eq_big_seq => v; rewrite mem_bitsE => /eqP hv.
  have hact : pick act (b ++ v) = pick S b ++ v.
    rewrite /act /pick map_cat -/(pick S _) -/(pick (iota _ _) _) pick_cat_lt ?hb //.
    by rewrite -hb -hv pick_iota_cat.
  rewrite pick_mask hact /H; case: ifP => // _.
  rewrite /F' hact; congr (_ * _); apply: eq_bigr => t' _.
  by rewrite F_local.
have lhsE : P' sigma t
          = \sum_(s <- bits (size S)) \sum_(b <- bits m | pick S b == s) \sum_(v <- bits nnew) H b s v.
  rewrite /P' big_mkcond sum_bits_add /=; apply: eq_big_seq => s; rewrite mem_bitsE => /eqP hs.
  rewrite [RHS]exchange_big /=; apply: eq_bigr => v _.
  rewrite /H /D; case: ifP => _; last by rewrite big1.
  rewrite take_size_cat //.
  under eq_bigr do rewrite P_ok // big_distrl /=.
  by rewrite exchange_big /= big_distrr.
rewrite lhsE rhsE.
rewrite (exchange_big_dep xpredT) //=.
apply: eq_big_seq => b; rewrite mem_bitsE => /eqP hb.
under eq_bigl do rewrite eq_sym.
by rewrite (@sum_pick1 (size S)) // size_pick.
Qed.
End Step.
End Semiring.

Section Run.
Variables (R : Type) (zero : R).
Variable times : Monoid.mul_law zero.
Variable plus : Monoid.add_law zero times.
Local Notation "x + y" := (plus x y).
Local Notation "x * y" := (times x y).
Local Notation "\sum_ ( i <- r | P ) F" := (\big[plus/zero]_(i <- r | P) F).
Local Notation "\sum_ ( i <- r ) F" := (\big[plus/zero]_(i <- r) F).
Variable Tn : nat.
Let ts := iota 0 Tn.

Record col := Col { nnew : nat; Lc : seq bool -> nat -> R; Tc : nat -> nat -> R; msk : seq bool }.
Record st := St { sm : nat; sS : seq nat; sP : seq bool -> nat -> R; sF : seq bool -> nat -> R }.

Definition step (s : st) (c : col) : st :=
  St (sm s + nnew c)
     (mask (msk c) (act (sm s) (sS s) (nnew c)))
     (P' plus Tn (sS s) (sP s) (nnew c) (Lc c) (Tc c) (msk c))
     (F' plus Tn (sm s) (sS s) (sF s) (nnew c) (Lc c) (Tc c)).

Variable ini : nat -> R.
Definition init_st : st := St 0 [::] (fun _ t => ini t) (fun _ t => ini t).
Definition run (cols : seq col) : st := foldl step init_st cols.

Definition Inv (s : st) : Prop :=
  [/\ all (fun i => i < sm s) (sS s),
      forall sigma t, size sigma = size (sS s) ->
        sP s sigma t = \sum_(beta <- bits (sm s) | pick (sS s) beta == sigma) sF s beta t
    & forall b1 b2 t, size b1 = sm s -> sF s (b1 ++ b2) t = sF s b1 t].

Lemma Inv_init : Inv init_st.
Proof.
split=> //= sigma t /size0nil->.
by rewrite /bits big_cons big_nil /= addm0.
Qed.

Lemma Inv_step s c : Inv s -> Inv (step s c).
Proof.
case=> hS hP hF; split=> /=.
- apply/allP=> i /mem_mask; rewrite /act mem_cat => /orP[/(allP hS) hi|].
    exact: ltn_addr.
  by rewrite mem_iota => /andP[].
- by move=> sigma t _; apply: step_ok.
- move=> b1 b2 t hb; rewrite /F'.
  have hact : pick (act (sm s) (sS s) (nnew c)) (b1 ++ b2) = pick (act (sm s) (sS s) (nnew c)) b1.
    apply: pick_cat_lt; rewrite hb; apply/allP=> i; rewrite /act mem_cat => /orP[/(allP hS) hi|].
      exact: ltn_addr.
    by rewrite mem_iota => /andP[].
  rewrite hact; congr (_ * _); apply: eq_bigr => t' _; congr (_ * _).
  have e : b1 = take (sm s) b1 ++ drop (sm s) b1 by rewrite cat_take_drop.
  have hsz : size (take (sm s) b1) = sm s by rewrite size_take hb; case: ltnP => // h; apply/eqP; rewrite eqn_leq h leq_addr.
  by rewrite [in LHS]e -catA hF // [in RHS]e hF.
Qed.

Lemma Inv_run cols : Inv (run cols).
Proof.
rewrite /run; elim/last_ind: cols => [|cols c IH]; first exact: Inv_init.
by rewrite -cats1 foldl_cat /=; apply: Inv_step.
Qed.

Definition dp_total (s : st) : R :=
  \sum_(sigma <- bits (size (sS s))) \sum_(t <- ts) sP s sigma t.

Theorem dp_total_spec cols :
  dp_total (run cols) =
  \sum_(beta <- bits (sm (run cols))) \sum_(t <- ts) sF (run cols) beta t.
Proof.
case: (Inv_run cols) => hS hP hF; rewrite /dp_total.
transitivity (\sum_(sigma <- bits (size (sS (run cols))))
              \sum_(beta <- bits (sm (run cols)) | pick (sS (run cols)) beta == sigma)
              \sum_(t <- ts) sF (run cols) beta t).
  apply: eq_big_seq => sigma; rewrite mem_bitsE => /eqP hs.
  rewrite exchange_big /=; apply: eq_bigr => t _.
  by rewrite hP.
rewrite (exchange_big_dep xpredT) //=.
apply: eq_bigr => beta _.
under eq_bigl do rewrite eq_sym.
by rewrite (@sum_pick1 _ _ _ plus (size (sS (run cols)))) // size_pick.
Qed.
End Run.
