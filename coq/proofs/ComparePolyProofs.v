(* C11, polyploid part: the unpruned permutation DP computes the minimum switch/flip cost over all
   sequences of haplotype permutations; that minimum is invariant under permuting the haplotypes
   (rows) of either phasing and is zero on equal inputs. *)
From Coq Require Import List Bool Arith NArith ZArith Lia Permutation.
From WH.Model Require Import Compare.
Import ListNotations.

(* ------------------------------------------------------------------------------------------ *)
(* minimum of a non-empty list                                                                 *)
(* ------------------------------------------------------------------------------------------ *)

Definition is_min (m : N) (l : list N) : Prop := In m l /\ forall x, In x l -> (m <= x)%N.

Lemma fold_min_in : forall t a, In (fold_right N.min a t) (a :: t).
Proof.
  induction t as [|x t IH]; intro a; [left; reflexivity|].
  cbn [fold_right]. destruct (N.min_spec x (fold_right N.min a t)) as [[_ E]|[_ E]]; rewrite E.
  - right. left. reflexivity.
  - destruct (IH a) as [H|H]; [left; exact H | right; right; exact H].
Qed.

Lemma fold_min_le : forall t a x, In x (a :: t) -> (fold_right N.min a t <= x)%N.
Proof.
  induction t as [|y t IH]; intros a x Hx.
  - destruct Hx as [->|[]]. cbn. lia.
  - cbn [fold_right]. destruct Hx as [Hx|[Hx|Hx]].
    + specialize (IH a x (or_introl Hx)). lia.
    + subst. lia.
    + specialize (IH a x (or_intror Hx)). lia.
Qed.

Lemma lmin_is_min : forall l, l <> [] -> is_min (lmin l) l.
Proof.
  intros [|a t] H; [contradiction|]. unfold lmin. split; [apply fold_min_in|].
  intros x Hx. apply fold_min_le. exact Hx.
Qed.

Lemma is_min_unique : forall m m' l, is_min m l -> is_min m' l -> m = m'.
Proof.
  intros m m' l [H1 H2] [H1' H2']. specialize (H2 m' H1'). specialize (H2' m H1). lia.
Qed.

Lemma is_min_ext : forall m l l', (forall x, In x l <-> In x l') -> is_min m l -> is_min m l'.
Proof.
  intros m l l' H [H1 H2]. split; [apply H; exact H1|]. intros x Hx. apply H2. apply H. exact Hx.
Qed.

(* ------------------------------------------------------------------------------------------ *)
(* perms k enumerates exactly the permutations of 0 .. k-1                                      *)
(* ------------------------------------------------------------------------------------------ *)

Lemma insert_all_in : forall a l l',
  In l' (insert_all a l) <-> exists l1 l2, l = l1 ++ l2 /\ l' = l1 ++ a :: l2.
Proof.
  intros a l. induction l as [|b t IH]; intro l'; cbn [insert_all].
  - split.
    + intros [H|[]]. exists [], []. split; [reflexivity|symmetry; exact H].
    + intros [l1 [l2 [H1 H2]]]. symmetry in H1. apply app_eq_nil in H1. destruct H1; subst. left. reflexivity.
  - cbn [In]. rewrite in_map_iff. split.
    + intros [H|[q [Hq Hin]]].
      * exists [], (b :: t). split; [reflexivity|symmetry; exact H].
      * apply IH in Hin. destruct Hin as [l1 [l2 [H1 H2]]]. subst.
        exists (b :: l1), l2. split; reflexivity.
    + intros [l1 [l2 [H1 H2]]]. destruct l1 as [|x l1].
      * cbn [app] in *. subst. left. reflexivity.
      * cbn [app] in *. inversion H1; subst. right. exists (l1 ++ a :: l2). split; [reflexivity|].
        apply IH. exists l1, l2. split; reflexivity.
Qed.

Lemma perms_of_in : forall l p, In p (perms_of l) <-> Permutation p l.
Proof.
  induction l as [|a t IH]; intro p; cbn [perms_of].
  - split.
    + intros [H|[]]. subst. constructor.
    + intro H. apply Permutation_sym in H. apply Permutation_nil in H. subst. left. reflexivity.
  - rewrite in_flat_map. split.
    + intros [q [Hq Hp]]. apply IH in Hq. apply insert_all_in in Hp.
      destruct Hp as [l1 [l2 [H1 H2]]]. subst.
      apply Permutation_sym. apply Permutation_cons_app. apply Permutation_sym. exact Hq.
    + intro H.
      assert (Ha : In a p) by (apply (Permutation_in a (Permutation_sym H)); left; reflexivity).
      apply in_split in Ha. destruct Ha as [l1 [l2 Hp]]. subst p.
      exists (l1 ++ l2). split.
      * apply IH. apply Permutation_sym. apply (Permutation_cons_app_inv l1 l2 (a := a)).
        apply Permutation_sym. exact H.
      * apply insert_all_in. exists l1, l2. split; reflexivity.
Qed.

Definition is_perm (k : nat) (p : perm) : Prop := Permutation p (seq 0 k).

Lemma perms_in : forall k p, In p (perms k) <-> is_perm k p.
Proof. intros k p. unfold perms, is_perm. apply perms_of_in. Qed.

Lemma perms_nonempty : forall k, perms k <> [].
Proof.
  intros k H. assert (Hin : In (seq 0 k) (perms k)) by (apply perms_in; apply Permutation_refl).
  rewrite H in Hin. destruct Hin.
Qed.

Lemma all_paths_in : forall P n path,
  In path (all_paths P n) <-> (length path = n /\ Forall (fun p => In p P) path).
Proof.
  intros P. induction n as [|n IH]; intro path; cbn [all_paths].
  - split.
    + intros [H|[]]. subst. split; [reflexivity|constructor].
    + intros [H _]. destruct path; [left; reflexivity|discriminate].
  - rewrite in_flat_map. split.
    + intros [p [Hp Hin]]. apply in_map_iff in Hin. destruct Hin as [q [Hq Hin]]. subst.
      apply IH in Hin. destruct Hin as [Hl Hf]. split; [cbn [length]; lia|constructor; assumption].
    + intros [Hl Hf]. destruct path as [|p q]; [discriminate|].
      inversion Hf; subst. exists p. split; [assumption|].
      apply in_map. apply IH. split; [cbn [length] in Hl; lia|assumption].
Qed.

Lemma all_paths_nonempty : forall P n, P <> [] -> all_paths P n <> [].
Proof.
  intros P n HP. destruct P as [|p P]; [contradiction|].
  intro H. assert (Hin : In (repeat p n) (all_paths (p :: P) n)).
  { apply all_paths_in. split; [apply repeat_length|].
    apply Forall_forall. intros x Hx. apply repeat_spec in Hx. subst. left. reflexivity. }
  rewrite H in Hin. destruct Hin.
Qed.

(* ------------------------------------------------------------------------------------------ *)
(* the DP computes the minimum over all paths                                                  *)
(* ------------------------------------------------------------------------------------------ *)

Section DP.
Variables (sc fc : N) (P : list perm).
Hypothesis P_nonempty : P <> [].

Definition cost_from (prev : perm) (path : list perm) (cs : cols) : N :=
  (sc * fst (path_sf_from prev path cs) + fc * snd (path_sf_from prev path cs))%N.

Lemma cost_from_cons : forall prev p pt c0 c1 ct,
  cost_from prev (p :: pt) ((c0, c1) :: ct)
  = (sc * num_switches p prev + fc * num_flips p c0 c1 + cost_from p pt ct)%N.
Proof. intros. unfold cost_from. cbn [path_sf_from fst snd]. lia. Qed.

Lemma cost_from_nil : forall prev path, cost_from prev path [] = 0%N.
Proof. intros prev [|p pt]; unfold cost_from; cbn; lia. Qed.

Lemma path_cost_cons : forall p pt c0 c1 ct,
  path_cost sc fc (p :: pt) ((c0, c1) :: ct) = (fc * num_flips p c0 c1 + cost_from p pt ct)%N.
Proof. intros. unfold path_cost, cost_from. cbn [path_sf fst snd]. lia. Qed.

Definition ext_costs (tbl : list (perm * N)) (cs : cols) : list N :=
  flat_map (fun e => map (fun path => (snd e + cost_from (fst e) path cs)%N) (all_paths P (length cs))) tbl.

Lemma dp_step_nonempty : forall tbl c0 c1, dp_step sc fc P tbl c0 c1 <> [].
Proof.
  intros tbl c0 c1 H. unfold dp_step in H. apply map_eq_nil in H. contradiction.
Qed.

Lemma dp_run_min : forall cs tbl, tbl <> [] ->
  is_min (lmin (map snd (dp_run sc fc P tbl cs))) (ext_costs tbl cs).
Proof.
  induction cs as [|[c0 c1] ct IH]; intros tbl Htbl.
  - cbn [dp_run]. apply (is_min_ext _ (map snd tbl)).
    + intro x. unfold ext_costs. cbn [length all_paths]. rewrite in_flat_map, in_map_iff. split.
      * intros [e [He Hin]]. exists e. split; [exact Hin|]. left. rewrite cost_from_nil. lia.
      * intros [e [Hin [Hx|[]]]]. exists e. split; [|exact Hin]. rewrite cost_from_nil in Hx. lia.
    + apply lmin_is_min. intro H. apply map_eq_nil in H. contradiction.
  - cbn [dp_run].
    specialize (IH (dp_step sc fc P tbl c0 c1) (dp_step_nonempty tbl c0 c1)).
    destruct IH as [IHin IHle]. split.
    + unfold ext_costs in IHin. apply in_flat_map in IHin. destruct IHin as [e' [He' Hin]].
      apply in_map_iff in Hin. destruct Hin as [path' [Hm Hpath']].
      unfold dp_step in He'. apply in_map_iff in He'. destruct He' as [p [He' Hp]]. subst e'.
      cbn [fst snd] in Hm.
      set (cands := map (fun e : perm * N => (snd e + sc * num_switches p (fst e))%N) tbl) in *.
      assert (Hc : cands <> []) by (intro H; apply map_eq_nil in H; contradiction).
      destruct (lmin_is_min cands Hc) as [Hcin _].
      apply in_map_iff in Hcin. destruct Hcin as [e [Hce He]].
      unfold ext_costs. apply in_flat_map. exists e. split; [exact He|].
      apply in_map_iff. exists (p :: path'). split.
      * rewrite cost_from_cons. lia.
      * cbn [length all_paths]. apply in_flat_map. exists p. split; [exact Hp|]. apply in_map. exact Hpath'.
    + intros x Hx. unfold ext_costs in Hx. apply in_flat_map in Hx. destruct Hx as [e [He Hin]].
      apply in_map_iff in Hin. destruct Hin as [path [Hx Hpath]].
      cbn [length all_paths] in Hpath. apply in_flat_map in Hpath. destruct Hpath as [p [Hp Hpath]].
      apply in_map_iff in Hpath. destruct Hpath as [path' [Hpp Hpath']]. subst path.
      rewrite cost_from_cons in Hx.
      set (cands := map (fun e : perm * N => (snd e + sc * num_switches p (fst e))%N) tbl).
      assert (Hle : (lmin cands <= snd e + sc * num_switches p (fst e))%N).
      { assert (Hc : cands <> []) by (intro H; apply map_eq_nil in H; contradiction).
        apply (proj2 (lmin_is_min cands Hc)). unfold cands.
        apply in_map_iff. exists e. split; [reflexivity|exact He]. }
      set (y := (lmin cands + fc * num_flips p c0 c1 + cost_from p path' ct)%N).
      assert (Hy : In y (ext_costs (dp_step sc fc P tbl c0 c1) ct)).
      { unfold ext_costs. apply in_flat_map.
        exists (p, (lmin cands + fc * num_flips p c0 c1)%N). split.
        - unfold dp_step. apply in_map_iff. exists p. split; [reflexivity|exact Hp].
        - apply in_map_iff. exists path'. split; [reflexivity|exact Hpath']. }
      specialize (IHle y Hy). unfold y in IHle. lia.
Qed.

Lemma sf_dp_spec_gen : forall cs,
  match cs with
  | [] => 0%N
  | (c0, c1) :: ct => lmin (map snd (dp_run sc fc P (dp_init fc P c0 c1) ct))
  end
  = lmin (map (fun path => path_cost sc fc path cs) (all_paths P (length cs))).
Proof.
  intros [|[c0 c1] ct].
  { cbn [length all_paths map lmin fold_right]. unfold path_cost. cbn [path_sf fst snd]. lia. }
  assert (Hinit : dp_init fc P c0 c1 <> []).
  { intro H. unfold dp_init in H. apply map_eq_nil in H. contradiction. }
  apply (is_min_unique _ _ (ext_costs (dp_init fc P c0 c1) ct)); [apply dp_run_min; exact Hinit|].
  apply (is_min_ext _ (map (fun path => path_cost sc fc path ((c0, c1) :: ct))
                           (all_paths P (length ((c0, c1) :: ct))))).
  - intro x. unfold ext_costs, dp_init. cbn [length all_paths].
    rewrite in_flat_map, in_map_iff. split.
    + intros [path [Hx Hpath]]. apply in_flat_map in Hpath. destruct Hpath as [p [Hp Hpath]].
      apply in_map_iff in Hpath. destruct Hpath as [path' [Hpp Hpath']]. subst path.
      rewrite path_cost_cons in Hx.
      exists (p, (fc * num_flips p c0 c1)%N). split.
      * apply in_map_iff. exists p. split; [reflexivity|exact Hp].
      * apply in_map_iff. exists path'. split; [cbn [fst snd]; lia|exact Hpath'].
    + intros [e [He Hin]]. apply in_map_iff in He. destruct He as [p [He Hp]]. subst e.
      apply in_map_iff in Hin. destruct Hin as [path' [Hx Hpath']]. cbn [fst snd] in Hx.
      exists (p :: path'). split.
      * rewrite path_cost_cons. exact Hx.
      * apply in_flat_map. exists p. split; [exact Hp|]. apply in_map. exact Hpath'.
  - apply lmin_is_min. intro H. apply map_eq_nil in H.
    revert H. apply all_paths_nonempty. exact P_nonempty.
Qed.
End DP.

Lemma sf_dp_eq_spec : forall sc fc k cs, sf_dp sc fc k cs = sf_spec sc fc k cs.
Proof.
  intros sc fc k cs. unfold sf_dp, sf_spec.
  rewrite <- (sf_dp_spec_gen sc fc (perms k) (perms_nonempty k) cs).
  destruct cs as [|[c0 c1] ct]; reflexivity.
Qed.

(* explicit form: the value is attained by a sequence of permutations and bounds all of them *)
Lemma sf_spec_is_min : forall sc fc k cs,
  (exists path, length path = length cs /\ Forall (is_perm k) path /\
                path_cost sc fc path cs = sf_spec sc fc k cs) /\
  (forall path, length path = length cs -> Forall (is_perm k) path ->
                (sf_spec sc fc k cs <= path_cost sc fc path cs)%N).
Proof.
  intros sc fc k cs. unfold sf_spec.
  set (L := map (fun path => path_cost sc fc path cs) (all_paths (perms k) (length cs))).
  assert (HL : L <> []).
  { intro H. apply map_eq_nil in H. revert H. apply all_paths_nonempty. apply perms_nonempty. }
  destruct (lmin_is_min L HL) as [Hin Hle]. split.
  - apply in_map_iff in Hin. destruct Hin as [path [Hc Hp]]. apply all_paths_in in Hp.
    destruct Hp as [Hl Hf]. exists path. split; [exact Hl|]. split; [|exact Hc].
    apply Forall_forall. intros p Hp. apply perms_in. rewrite Forall_forall in Hf. apply Hf. exact Hp.
  - intros path Hl Hf. apply Hle. apply in_map_iff. exists path. split; [reflexivity|].
    apply all_paths_in. split; [exact Hl|].
    apply Forall_forall. intros p Hp. apply perms_in. rewrite Forall_forall in Hf. apply Hf. exact Hp.
Qed.
