(* C11, polyploid part: the unpruned permutation DP computes the minimum switch/flip cost over all
   sequences of haplotype permutations; that minimum is invariant under permuting the haplotypes
   (rows) of either phasing and is zero on equal inputs. *)
From Coq Require Import List Bool Arith NArith ZArith Lia Permutation.
From WH.Model Require Import Compare.
Import ListNotations.

(* ------------------------------------------------------------------------------------------ *)
(* minimum of a non-empty list                                                                 *)
(* ------------------------------------------------------------------------------------------ *)

Definition is_min (m : N) (l : list N) : Prop := In m l /\ forall x, In x l -> (m <= x)%N.

Lemma fold_min_in : forall t a, In (fold_right N.min a t) (a :: t).
Proof.
  induction t as [|x t IH]; intro a; [left; reflexivity|].
  cbn [fold_right]. destruct (N.min_spec x (fold_right N.min a t)) as [[_ E]|[_ E]]; rewrite E.
  - right. left. reflexivity.
  - destruct (IH a) as [H|H]; [left; exact H | right; right; exact H].
Qed.

Lemma fold_min_le : forall t a x, In x (a :: t) -> (fold_right N.min a t <= x)%N.
Proof.
  induction t as [|y t IH]; intros a x Hx.
  - destruct Hx as [->|[]]. cbn. lia.
  - cbn [fold_right]. destruct Hx as [Hx|[Hx|Hx]].
    + specialize (IH a x (or_introl Hx)). lia.
    + subst. lia.
    + specialize (IH a x (or_intror Hx)). lia.
Qed.

Lemma lmin_is_min : forall l, l <> [] -> is_min (lmin l) l.
Proof.
  intros [|a t] H; [contradiction|]. unfold lmin. split; [apply fold_min_in|].
  intros x Hx. apply fold_min_le. exact Hx.
Qed.

Lemma is_min_unique : forall m m' l, is_min m l -> is_min m' l -> m = m'.
Proof.
  intros m m' l [H1 H2] [H1' H2']. specialize (H2 m' H1'). specialize (H2' m H1). lia.
Qed.

Lemma is_min_ext : forall m l l', (forall x, In x l <-> In x l') -> is_min m l -> is_min m l'.
Proof.
  intros m l l' H [H1 H2]. split; [apply H; exact H1|]. intros x Hx. apply H2. apply H. exact Hx.
Qed.

(* ------------------------------------------------------------------------------------------ *)
(* perms k enumerates exactly the permutations of 0 .. k-1                                      *)
(* ------------------------------------------------------------------------------------------ *)

Lemma insert_all_in : forall a l l',
  In l' (insert_all a l) <-> exists l1 l2, l = l1 ++ l2 /\ l' = l1 ++ a :: l2.
Proof.
  intros a l. induction l as [|b t IH]; intro l'; cbn [insert_all].
  - split.
    + intros [H|[]]. exists [], []. split; [reflexivity|symmetry; exact H].
    + intros [l1 [l2 [H1 H2]]]. symmetry in H1. apply app_eq_nil in H1. destruct H1; subst. left. reflexivity.
  - cbn [In]. rewrite in_map_iff. split.
    + intros [H|[q [Hq Hin]]].
      * exists [], (b :: t). split; [reflexivity|symmetry; exact H].
      * apply IH in Hin. destruct Hin as [l1 [l2 [H1 H2]]]. subst.
        exists (b :: l1), l2. split; reflexivity.
    + intros [l1 [l2 [H1 H2]]]. destruct l1 as [|x l1].
      * cbn [app] in *. subst. left. reflexivity.
      * cbn [app] in *. inversion H1; subst. right. exists (l1 ++ a :: l2). split; [reflexivity|].
        apply IH. exists l1, l2. split; reflexivity.
Qed.

Lemma perms_of_in : forall l p, In p (perms_of l) <-> Permutation p l.
Proof.
  induction l as [|a t IH]; intro p; cbn [perms_of].
  - split.
    + intros [H|[]]. subst. constructor.
    + intro H. apply Permutation_sym in H. apply Permutation_nil in H. subst. left. reflexivity.
  - rewrite in_flat_map. split.
    + intros [q [Hq Hp]]. apply IH in Hq. apply insert_all_in in Hp.
      destruct Hp as [l1 [l2 [H1 H2]]]. subst.
      apply Permutation_sym. apply Permutation_cons_app. apply Permutation_sym. exact Hq.
    + intro H.
      assert (Ha : In a p) by (apply (Permutation_in a (Permutation_sym H)); left; reflexivity).
      apply in_split in Ha. destruct Ha as [l1 [l2 Hp]]. subst p.
      exists (l1 ++ l2). split.
      * apply IH. apply Permutation_sym. apply (Permutation_cons_app_inv l1 l2 (a := a)).
        apply Permutation_sym. exact H.
      * apply insert_all_in. exists l1, l2. split; reflexivity.
Qed.

Definition is_perm (k : nat) (p : perm) : Prop := Permutation p (seq 0 k).

Lemma perms_in : forall k p, In p (perms k) <-> is_perm k p.
Proof. intros k p. unfold perms, is_perm. apply perms_of_in. Qed.

Lemma perms_nonempty : forall k, perms k <> [].
Proof.
  intros k H. assert (Hin : In (seq 0 k) (perms k)) by (apply perms_in; apply Permutation_refl).
  rewrite H in Hin. destruct Hin.
Qed.

Lemma all_paths_in : forall P n path,
  In path (all_paths P n) <-> (length path = n /\ Forall (fun p => In p P) path).
Proof.
  intros P. induction n as [|n IH]; intro path; cbn [all_paths].
  - split.
    + intros [H|[]]. subst. split; [reflexivity|constructor].
    + intros [H _]. destruct path; [left; reflexivity|discriminate].
  - rewrite in_flat_map. split.
    + intros [p [Hp Hin]]. apply in_map_iff in Hin. destruct Hin as [q [Hq Hin]]. subst.
      apply IH in Hin. destruct Hin as [Hl Hf]. split; [cbn [length]; lia|constructor; assumption].
    + intros [Hl Hf]. destruct path as [|p q]; [discriminate|].
      inversion Hf; subst. exists p. split; [assumption|].
      apply in_map. apply IH. split; [cbn [length] in Hl; lia|assumption].
Qed.

Lemma all_paths_nonempty : forall P n, P <> [] -> all_paths P n <> [].
Proof.
  intros P n HP. destruct P as [|p P]; [contradiction|].
  intro H. assert (Hin : In (repeat p n) (all_paths (p :: P) n)).
  { apply all_paths_in. split; [apply repeat_length|].
    apply Forall_forall. intros x Hx. apply repeat_spec in Hx. subst. left. reflexivity. }
  rewrite H in Hin. destruct Hin.
Qed.

(* ------------------------------------------------------------------------------------------ *)
(* the DP computes the minimum over all paths                                                  *)
(* ------------------------------------------------------------------------------------------ *)

Section DP.
Variables (sc fc : N) (P : list perm).
Hypothesis P_nonempty : P <> [].

Definition cost_from (prev : perm) (path : list perm) (cs : cols) : N :=
  (sc * fst (path_sf_from prev path cs) + fc * snd (path_sf_from prev path cs))%N.

Lemma cost_from_cons : forall prev p pt c0 c1 ct,
  cost_from prev (p :: pt) ((c0, c1) :: ct)
  = (sc * num_switches p prev + fc * num_flips p c0 c1 + cost_from p pt ct)%N.
Proof. intros. unfold cost_from. cbn [path_sf_from fst snd]. lia. Qed.

Lemma cost_from_nil : forall prev path, cost_from prev path [] = 0%N.
Proof. intros prev [|p pt]; unfold cost_from; cbn; lia. Qed.

Lemma path_cost_cons : forall p pt c0 c1 ct,
  path_cost sc fc (p :: pt) ((c0, c1) :: ct) = (fc * num_flips p c0 c1 + cost_from p pt ct)%N.
Proof. intros. unfold path_cost, cost_from. cbn [path_sf fst snd]. lia. Qed.

Definition ext_costs (tbl : list (perm * N)) (cs : cols) : list N :=
  flat_map (fun e => map (fun path => (snd e + cost_from (fst e) path cs)%N) (all_paths P (length cs))) tbl.

Lemma dp_step_nonempty : forall tbl c0 c1, dp_step sc fc P tbl c0 c1 <> [].
Proof.
  intros tbl c0 c1 H. unfold dp_step in H. apply map_eq_nil in H. contradiction.
Qed.

Lemma dp_run_min : forall cs tbl, tbl <> [] ->
  is_min (lmin (map snd (dp_run sc fc P tbl cs))) (ext_costs tbl cs).
Proof.
  induction cs as [|[c0 c1] ct IH]; intros tbl Htbl.
  - cbn [dp_run]. apply (is_min_ext _ (map snd tbl)).
    + intro x. unfold ext_costs. cbn [length all_paths]. rewrite in_flat_map, in_map_iff. split.
      * intros [e [He Hin]]. exists e. split; [exact Hin|]. left. rewrite cost_from_nil. lia.
      * intros [e [Hin [Hx|[]]]]. exists e. split; [|exact Hin]. rewrite cost_from_nil in Hx. lia.
    + apply lmin_is_min. intro H. apply map_eq_nil in H. contradiction.
  - cbn [dp_run].
    specialize (IH (dp_step sc fc P tbl c0 c1) (dp_step_nonempty tbl c0 c1)).
    destruct IH as [IHin IHle]. split.
    + unfold ext_costs in IHin. apply in_flat_map in IHin. destruct IHin as [e' [He' Hin]].
      apply in_map_iff in Hin. destruct Hin as [path' [Hm Hpath']].
      unfold dp_step in He'. apply in_map_iff in He'. destruct He' as [p [He' Hp]]. subst e'.
      cbn [fst snd] in Hm.
      set (cands := map (fun e : perm * N => (snd e + sc * num_switches p (fst e))%N) tbl) in *.
      assert (Hc : cands <> []) by (intro H; apply map_eq_nil in H; contradiction).
      destruct (lmin_is_min cands Hc) as [Hcin _].
      apply in_map_iff in Hcin. destruct Hcin as [e [Hce He]].
      unfold ext_costs. apply in_flat_map. exists e. split; [exact He|].
      apply in_map_iff. exists (p :: path'). split.
      * rewrite cost_from_cons. lia.
      * cbn [length all_paths]. apply in_flat_map. exists p. split; [exact Hp|]. apply in_map. exact Hpath'.
    + intros x Hx. unfold ext_costs in Hx. apply in_flat_map in Hx. destruct Hx as [e [He Hin]].
      apply in_map_iff in Hin. destruct Hin as [path [Hx Hpath]].
      cbn [length all_paths] in Hpath. apply in_flat_map in Hpath. destruct Hpath as [p [Hp Hpath]].
      apply in_map_iff in Hpath. destruct Hpath as [path' [Hpp Hpath']]. subst path.
      rewrite cost_from_cons in Hx.
      set (cands := map (fun e : perm * N => (snd e + sc * num_switches p (fst e))%N) tbl).
      assert (Hle : (lmin cands <= snd e + sc * num_switches p (fst e))%N).
      { assert (Hc : cands <> []) by (intro H; apply map_eq_nil in H; contradiction).
        apply (proj2 (lmin_is_min cands Hc)). unfold cands.
        apply in_map_iff. exists e. split; [reflexivity|exact He]. }
      set (y := (lmin cands + fc * num_flips p c0 c1 + cost_from p path' ct)%N).
      assert (Hy : In y (ext_costs (dp_step sc fc P tbl c0 c1) ct)).
      { unfold ext_costs. apply in_flat_map.
        exists (p, (lmin cands + fc * num_flips p c0 c1)%N). split.
        - unfold dp_step. apply in_map_iff. exists p. split; [reflexivity|exact Hp].
        - apply in_map_iff. exists path'. split; [reflexivity|exact Hpath']. }
      specialize (IHle y Hy). unfold y in IHle. lia.
Qed.

Lemma sf_dp_spec_gen : forall cs,
  match cs with
  | [] => 0%N
  | (c0, c1) :: ct => lmin (map snd (dp_run sc fc P (dp_init fc P c0 c1) ct))
  end
  = lmin (map (fun path => path_cost sc fc path cs) (all_paths P (length cs))).
Proof.
  intros [|[c0 c1] ct].
  { cbn [length all_paths map lmin fold_right]. unfold path_cost. cbn [path_sf fst snd]. lia. }
  assert (Hinit : dp_init fc P c0 c1 <> []).
  { intro H. unfold dp_init in H. apply map_eq_nil in H. contradiction. }
  apply (is_min_unique _ _ (ext_costs (dp_init fc P c0 c1) ct)); [apply dp_run_min; exact Hinit|].
  apply (is_min_ext _ (map (fun path => path_cost sc fc path ((c0, c1) :: ct))
                           (all_paths P (length ((c0, c1) :: ct))))).
  - intro x. unfold ext_costs, dp_init. cbn [length all_paths].
    rewrite in_flat_map, in_map_iff. split.
    + intros [path [Hx Hpath]]. apply in_flat_map in Hpath. destruct Hpath as [p [Hp Hpath]].
      apply in_map_iff in Hpath. destruct Hpath as [path' [Hpp Hpath']]. subst path.
      rewrite path_cost_cons in Hx.
      exists (p, (fc * num_flips p c0 c1)%N). split.
      * apply in_map_iff. exists p. split; [reflexivity|exact Hp].
      * apply in_map_iff. exists path'. split; [cbn [fst snd]; lia|exact Hpath'].
    + intros [e [He Hin]]. apply in_map_iff in He. destruct He as [p [He Hp]]. subst e.
      apply in_map_iff in Hin. destruct Hin as [path' [Hx Hpath']]. cbn [fst snd] in Hx.
      exists (p :: path'). split.
      * rewrite path_cost_cons. exact Hx.
      * apply in_flat_map. exists p. split; [exact Hp|]. apply in_map. exact Hpath'.
  - apply lmin_is_min. intro H. apply map_eq_nil in H.
    revert H. apply all_paths_nonempty. exact P_nonempty.
Qed.
End DP.

Lemma sf_dp_eq_spec : forall sc fc k cs, sf_dp sc fc k cs = sf_spec sc fc k cs.
Proof.
  intros sc fc k cs. unfold sf_dp, sf_spec.
  rewrite <- (sf_dp_spec_gen sc fc (perms k) (perms_nonempty k) cs).
  destruct cs as [|[c0 c1] ct]; reflexivity.
Qed.

(* explicit form: the value is attained by a sequence of permutations and bounds all of them *)
Lemma sf_spec_is_min : forall sc fc k cs,
  (exists path, length path = length cs /\ Forall (is_perm k) path /\
                path_cost sc fc path cs = sf_spec sc fc k cs) /\
  (forall path, length path = length cs -> Forall (is_perm k) path ->
                (sf_spec sc fc k cs <= path_cost sc fc path cs)%N).
Proof.
  intros sc fc k cs. unfold sf_spec.
  set (L := map (fun path => path_cost sc fc path cs) (all_paths (perms k) (length cs))).
  assert (HL : L <> []).
  { intro H. apply map_eq_nil in H. revert H. apply all_paths_nonempty. apply perms_nonempty. }
  destruct (lmin_is_min L HL) as [Hin Hle]. split.
  - apply in_map_iff in Hin. destruct Hin as [path [Hc Hp]]. apply all_paths_in in Hp.
    destruct Hp as [Hl Hf]. exists path. split; [exact Hl|]. split; [|exact Hc].
    apply Forall_forall. intros p Hp. apply perms_in. rewrite Forall_forall in Hf. apply Hf. exact Hp.
  - intros path Hl Hf. apply Hle. apply in_map_iff. exists path. split; [reflexivity|].
    apply all_paths_in. split; [exact Hl|].
    apply Forall_forall. intros p Hp. apply perms_in. rewrite Forall_forall in Hf. apply Hf. exact Hp.
Qed.

(* ------------------------------------------------------------------------------------------ *)
(* zero on equal inputs                                                                        *)
(* ------------------------------------------------------------------------------------------ *)

Lemma num_switches_refl : forall p, num_switches p p = 0%N.
Proof. induction p as [|a p IH]; [reflexivity|]. cbn [num_switches]. rewrite Nat.eqb_refl, IH. reflexivity. Qed.

Lemma num_flips_id_gen : forall c1 pre,
  num_flips (seq (length pre) (length c1)) (pre ++ c1) c1 = 0%N.
Proof.
  induction c1 as [|b t IH]; intro pre; [reflexivity|].
  cbn [length seq num_flips]. rewrite nth_middle, Z.eqb_refl.
  specialize (IH (pre ++ [b])). rewrite app_length in IH. cbn [length] in IH.
  rewrite Nat.add_1_r, <- app_assoc in IH. cbn [app] in IH. rewrite IH. reflexivity.
Qed.

Lemma num_flips_id : forall c, num_flips (seq 0 (length c)) c c = 0%N.
Proof. intro c. apply (num_flips_id_gen c []). Qed.

Definition dup_cols (cl : list column) : cols := map (fun c => (c, c)) cl.

Lemma path_sf_from_id : forall k cl, Forall (fun c => length c = k) cl ->
  path_sf_from (seq 0 k) (repeat (seq 0 k) (length cl)) (dup_cols cl) = (0%N, 0%N).
Proof.
  intros k cl H. induction H as [|c cl Hc _ IH]; [reflexivity|].
  cbn [length repeat dup_cols map path_sf_from]. fold (dup_cols cl).
  rewrite IH, num_switches_refl. subst k. rewrite num_flips_id. reflexivity.
Qed.

Lemma sf_spec_zero_on_equal : forall sc fc k cl, Forall (fun c => length c = k) cl ->
  sf_spec sc fc k (dup_cols cl) = 0%N.
Proof.
  intros sc fc k cl H.
  destruct (sf_spec_is_min sc fc k (dup_cols cl)) as [_ Hle].
  specialize (Hle (repeat (seq 0 k) (length cl))).
  assert (Hcost : path_cost sc fc (repeat (seq 0 k) (length cl)) (dup_cols cl) = 0%N).
  { unfold path_cost. destruct H as [|c cl Hc Hcl]; [cbn; lia|].
    cbn [length repeat dup_cols map path_sf]. fold (dup_cols cl).
    rewrite (path_sf_from_id k cl Hcl). subst k. rewrite num_flips_id. cbn [fst snd]. lia. }
  rewrite Hcost in Hle.
  assert ((sf_spec sc fc k (dup_cols cl) <= 0)%N).
  { apply Hle.
    - rewrite repeat_length. unfold dup_cols. rewrite map_length. reflexivity.
    - apply Forall_forall. intros p Hp. apply repeat_spec in Hp. subst. apply Permutation_refl. }
  lia.
Qed.

(* ------------------------------------------------------------------------------------------ *)
(* invariance under permuting the rows of either phasing                                       *)
(* ------------------------------------------------------------------------------------------ *)

(* (compose a b)[i] = a[b[i]] *)
Definition compose (a b : perm) : perm := map (fun x => nth x a 0) b.

Definition nsum (l : list N) : N := fold_right N.add 0%N l.

Lemma nsum_perm : forall l l', Permutation l l' -> nsum l = nsum l'.
Proof. intros l l' H. unfold nsum. induction H; cbn [fold_right]; lia. Qed.

Lemma map_nth_seq : forall (A : Type) (l : list A) (d : A),
  map (fun i => nth i l d) (seq 0 (length l)) = l.
Proof.
  intros A l d. induction l as [|a l IH]; [reflexivity|].
  cbn [length seq map nth]. f_equal.
  rewrite <- seq_shift, map_map. cbn [nth]. exact IH.
Qed.

Lemma nth_map_lt : forall (A B : Type) (f : A -> B) (l : list A) (d : A) (d' : B) (x : nat),
  x < length l -> nth x (map f l) d' = f (nth x l d).
Proof.
  intros A B f l d d' x Hx. rewrite (nth_indep (map f l) d' (f d)) by (rewrite map_length; exact Hx).
  apply map_nth.
Qed.

Lemma is_perm_length : forall k p, is_perm k p -> length p = k.
Proof. intros k p H. apply Permutation_length in H. rewrite seq_length in H. exact H. Qed.

Lemma is_perm_lt : forall k p x, is_perm k p -> In x p -> x < k.
Proof. intros k p x H Hx. apply (Permutation_in x H) in Hx. apply in_seq in Hx. lia. Qed.

Lemma is_perm_nodup : forall k p, is_perm k p -> NoDup p.
Proof. intros k p H. apply (Permutation_NoDup (Permutation_sym H)). apply seq_NoDup. Qed.

Lemma compose_is_perm : forall k a b, is_perm k a -> is_perm k b -> is_perm k (compose a b).
Proof.
  intros k a b Ha Hb. unfold is_perm, compose.
  apply (Permutation_trans (Permutation_map (fun x => nth x a 0) Hb)).
  rewrite <- (is_perm_length k a Ha) at 1. rewrite map_nth_seq. exact Ha.
Qed.

Lemma num_flips_map : forall (s : list nat) (f : nat -> nat) (h : nat -> Z) c0,
  num_flips (map f s) c0 (map h s)
  = nsum (map (fun x => if Z.eqb (nth (f x) c0 0%Z) (h x) then 0%N else 1%N) s).
Proof.
  induction s as [|x s IH]; intros f h c0; [reflexivity|].
  cbn [map num_flips nsum fold_right]. rewrite IH. reflexivity.
Qed.

Lemma num_switches_map : forall (s : list nat) (f g : nat -> nat),
  num_switches (map f s) (map g s)
  = nsum (map (fun x => if Nat.eqb (f x) (g x) then 0%N else 1%N) s).
Proof.
  induction s as [|x s IH]; intros f g; [reflexivity|].
  cbn [map num_switches nsum fold_right]. rewrite IH. reflexivity.
Qed.

(* --- rows of phasing1 permuted: path r on (c0, c1)  |->  path (compose r s) on (c0, c1 o s) --- *)
Lemma num_flips_permute1 : forall k s r c0 c1, is_perm k s -> length r = k -> length c1 = k ->
  num_flips (compose r s) c0 (permute_col s c1) = num_flips r c0 c1.
Proof.
  intros k s r c0 c1 Hs Hr Hc. unfold compose, permute_col.
  rewrite (num_flips_map s (fun x => nth x r 0) (fun i => nth i c1 0%Z) c0).
  rewrite (nsum_perm _ _ (Permutation_map _ Hs)).
  rewrite <- (num_flips_map (seq 0 k) (fun x => nth x r 0) (fun i => nth i c1 0%Z) c0).
  rewrite <- Hr at 1. rewrite map_nth_seq. rewrite <- Hc at 1. rewrite map_nth_seq. reflexivity.
Qed.

Lemma num_switches_permute1 : forall k s r r', is_perm k s -> length r = k -> length r' = k ->
  num_switches (compose r s) (compose r' s) = num_switches r r'.
Proof.
  intros k s r r' Hs Hr Hr'. unfold compose.
  rewrite (num_switches_map s (fun x => nth x r 0) (fun x => nth x r' 0)).
  rewrite (nsum_perm _ _ (Permutation_map _ Hs)).
  rewrite <- (num_switches_map (seq 0 k) (fun x => nth x r 0) (fun x => nth x r' 0)).
  rewrite <- Hr at 1. rewrite map_nth_seq. rewrite <- Hr' at 1. rewrite map_nth_seq. reflexivity.
Qed.

(* --- rows of phasing0 permuted: path p on (c0 o s, c1)  |->  path (compose s p) on (c0, c1) --- *)
Lemma num_flips_permute0 : forall s p c0 c1, Forall (fun x => x < length s) p ->
  num_flips (compose s p) c0 c1 = num_flips p (permute_col s c0) c1.
Proof.
  intros s p c0. induction p as [|x p IH]; intros c1 Hp; [reflexivity|].
  destruct c1 as [|b c1]; [reflexivity|].
  inversion Hp as [|? ? Hx Hp']; subst.
  unfold compose in *. cbn [map num_flips]. rewrite IH by exact Hp'.
  unfold permute_col. rewrite (nth_map_lt _ _ (fun i => nth i c0 0%Z) s 0 0%Z x Hx). reflexivity.
Qed.

Lemma num_switches_permute0 : forall s p q, NoDup s ->
  Forall (fun x => x < length s) p -> Forall (fun x => x < length s) q ->
  num_switches (compose s p) (compose s q) = num_switches p q.
Proof.
  intros s p q Hnd. revert q. induction p as [|x p IH]; intros q Hp Hq; [reflexivity|].
  destruct q as [|y q]; [reflexivity|].
  inversion Hp as [|? ? Hx Hp']; subst. inversion Hq as [|? ? Hy Hq']; subst.
  unfold compose in *. cbn [map num_switches]. rewrite IH by assumption. f_equal.
  destruct (Nat.eqb x y) eqn:E.
  - apply Nat.eqb_eq in E. subst. rewrite Nat.eqb_refl. reflexivity.
  - destruct (Nat.eqb (nth x s 0) (nth y s 0)) eqn:E'; [|reflexivity].
    apply Nat.eqb_eq in E'. apply (proj1 (NoDup_nth s 0) Hnd x y Hx Hy) in E'.
    subst. rewrite Nat.eqb_refl in E. discriminate.
Qed.

Definition cols_ok (k : nat) (cs : cols) : Prop :=
  Forall (fun c => length (fst c) = k /\ length (snd c) = k) cs.

Lemma is_perm_forall_lt : forall k s p, is_perm k s -> is_perm k p -> Forall (fun x => x < length s) p.
Proof.
  intros k s p Hs Hp. apply Forall_forall. intros x Hx.
  rewrite (is_perm_length k s Hs). apply (is_perm_lt k p x Hp Hx).
Qed.

Lemma path_sf_from_permute0 : forall k s, is_perm k s -> forall cs path prev,
  is_perm k prev -> Forall (is_perm k) path ->
  path_sf_from (compose s prev) (map (compose s) path) cs = path_sf_from prev path (permute0 s cs).
Proof.
  intros k s Hs. induction cs as [|[c0 c1] ct IH]; intros path prev Hprev Hpath.
  - destruct path; reflexivity.
  - destruct path as [|p pt]; [reflexivity|]. inversion Hpath as [|? ? Hp Hpt]; subst.
    cbn [map path_sf_from permute0 fst snd]. fold (permute0 s ct).
    rewrite (IH pt p Hp Hpt).
    rewrite (num_switches_permute0 s p prev (is_perm_nodup k s Hs)
               (is_perm_forall_lt k s p Hs Hp) (is_perm_forall_lt k s prev Hs Hprev)).
    rewrite (num_flips_permute0 s p c0 c1 (is_perm_forall_lt k s p Hs Hp)). reflexivity.
Qed.

Lemma path_cost_permute0 : forall sc fc k s cs path, is_perm k s -> Forall (is_perm k) path ->
  path_cost sc fc (map (compose s) path) cs = path_cost sc fc path (permute0 s cs).
Proof.
  intros sc fc k s cs path Hs Hpath. unfold path_cost.
  destruct cs as [|[c0 c1] ct]; [destruct path; reflexivity|].
  destruct path as [|p pt]; [reflexivity|]. inversion Hpath as [|? ? Hp Hpt]; subst.
  cbn [map path_sf permute0 fst snd]. fold (permute0 s ct).
  rewrite (path_sf_from_permute0 k s Hs ct pt p Hp Hpt).
  rewrite (num_flips_permute0 s p c0 c1 (is_perm_forall_lt k s p Hs Hp)). reflexivity.
Qed.

Lemma path_sf_from_permute1 : forall k s, is_perm k s -> forall cs path prev,
  cols_ok k cs -> is_perm k prev -> Forall (is_perm k) path ->
  path_sf_from (compose prev s) (map (fun r => compose r s) path) (permute1 s cs)
  = path_sf_from prev path cs.
Proof.
  intros k s Hs. induction cs as [|[c0 c1] ct IH]; intros path prev Hok Hprev Hpath.
  - destruct path; reflexivity.
  - destruct path as [|p pt]; [reflexivity|]. inversion Hpath as [|? ? Hp Hpt]; subst.
    inversion Hok as [|? ? Hc01 Hok']; subst. destruct Hc01 as [_ Hc1]. cbn [snd] in Hc1.
    cbn [map path_sf_from permute1 fst snd]. fold (permute1 s ct).
    rewrite (IH pt p Hok' Hp Hpt).
    rewrite (num_switches_permute1 k s p prev Hs (is_perm_length k p Hp) (is_perm_length k prev Hprev)).
    rewrite (num_flips_permute1 k s p c0 c1 Hs (is_perm_length k p Hp) Hc1). reflexivity.
Qed.

Lemma path_cost_permute1 : forall sc fc k s cs path, is_perm k s -> cols_ok k cs ->
  Forall (is_perm k) path ->
  path_cost sc fc (map (fun r => compose r s) path) (permute1 s cs) = path_cost sc fc path cs.
Proof.
  intros sc fc k s cs path Hs Hok Hpath. unfold path_cost.
  destruct cs as [|[c0 c1] ct]; [destruct path; reflexivity|].
  destruct path as [|p pt]; [reflexivity|]. inversion Hpath as [|? ? Hp Hpt]; subst.
  inversion Hok as [|? ? Hc01 Hok']; subst. destruct Hc01 as [_ Hc1]. cbn [snd] in Hc1.
  cbn [map path_sf permute1 fst snd]. fold (permute1 s ct).
  rewrite (path_sf_from_permute1 k s Hs ct pt p Hok' Hp Hpt).
  rewrite (num_flips_permute1 k s p c0 c1 Hs (is_perm_length k p Hp) Hc1). reflexivity.
Qed.

Lemma permute0_length : forall s cs, length (permute0 s cs) = length cs.
Proof. intros. unfold permute0. apply map_length. Qed.
Lemma permute1_length : forall s cs, length (permute1 s cs) = length cs.
Proof. intros. unfold permute1. apply map_length. Qed.

(* one inequality each, by mapping paths *)
Lemma sf_spec_permute0_le : forall sc fc k s cs, is_perm k s ->
  (sf_spec sc fc k cs <= sf_spec sc fc k (permute0 s cs))%N.
Proof.
  intros sc fc k s cs Hs.
  destruct (sf_spec_is_min sc fc k (permute0 s cs)) as [[path [Hl [Hf Hc]]] _].
  destruct (sf_spec_is_min sc fc k cs) as [_ Hle].
  rewrite <- Hc, <- (path_cost_permute0 sc fc k s cs path Hs Hf).
  apply Hle.
  - rewrite map_length, Hl. apply permute0_length.
  - apply Forall_forall. intros p Hp. apply in_map_iff in Hp. destruct Hp as [q [Hq Hin]]. subst.
    apply compose_is_perm; [exact Hs|]. rewrite Forall_forall in Hf. apply Hf. exact Hin.
Qed.

Lemma sf_spec_permute1_le : forall sc fc k s cs, is_perm k s -> cols_ok k cs ->
  (sf_spec sc fc k (permute1 s cs) <= sf_spec sc fc k cs)%N.
Proof.
  intros sc fc k s cs Hs Hok.
  destruct (sf_spec_is_min sc fc k cs) as [[path [Hl [Hf Hc]]] _].
  destruct (sf_spec_is_min sc fc k (permute1 s cs)) as [_ Hle].
  rewrite <- Hc, <- (path_cost_permute1 sc fc k s cs path Hs Hok Hf).
  apply Hle.
  - rewrite map_length, Hl. symmetry. apply permute1_length.
  - apply Forall_forall. intros p Hp. apply in_map_iff in Hp. destruct Hp as [q [Hq Hin]]. subst.
    apply compose_is_perm; [|exact Hs]. rewrite Forall_forall in Hf. apply Hf. exact Hin.
Qed.

(* inverse permutation *)
Lemma preimages : forall (s : list nat) (l : list nat), (forall j, In j l -> In j s) ->
  exists t, map (fun x => nth x s 0) t = l /\ Forall (fun x => x < length s) t.
Proof.
  intros s l. induction l as [|j l IH]; intro H.
  - exists []. split; [reflexivity|constructor].
  - destruct IH as [t [Ht Hf]]; [intros x Hx; apply H; right; exact Hx|].
    destruct (In_nth s j 0 (H j (or_introl eq_refl))) as [i [Hi Hn]].
    exists (i :: t). split; [cbn [map]; rewrite Hn, Ht; reflexivity|constructor; assumption].
Qed.

Lemma inverse_perm : forall k s, is_perm k s ->
  exists t, is_perm k t /\ compose s t = seq 0 k.
Proof.
  intros k s Hs.
  destruct (preimages s (seq 0 k)) as [t [Ht Hf]].
  { intros j Hj. apply (Permutation_in j (Permutation_sym Hs)). exact Hj. }
  exists t. split; [|exact Ht].
  assert (Hlen : length t = k).
  { rewrite <- (map_length (fun x => nth x s 0) t), Ht. apply seq_length. }
  unfold is_perm. apply NoDup_Permutation_bis.
  - apply (NoDup_map_inv (fun x => nth x s 0)). rewrite Ht. apply seq_NoDup.
  - rewrite seq_length, Hlen. lia.
  - intros x Hx. rewrite Forall_forall in Hf. specialize (Hf x Hx).
    rewrite (is_perm_length k s Hs) in Hf. apply in_seq. lia.
Qed.

Lemma permute_col_compose : forall s t c, Forall (fun x => x < length s) t ->
  permute_col t (permute_col s c) = permute_col (compose s t) c.
Proof.
  intros s t c Hf. unfold permute_col, compose. rewrite map_map.
  apply map_ext_in. intros x Hx. rewrite Forall_forall in Hf.
  apply (nth_map_lt _ _ (fun i => nth i c 0%Z) s 0 0%Z x (Hf x Hx)).
Qed.

Lemma permute_col_id : forall c, permute_col (seq 0 (length c)) c = c.
Proof. intro c. unfold permute_col. apply map_nth_seq. Qed.

Lemma permute_col_length : forall s c, length (permute_col s c) = length s.
Proof. intros. unfold permute_col. apply map_length. Qed.

Lemma permute0_inverse : forall k s t cs, is_perm k s -> is_perm k t -> compose s t = seq 0 k ->
  cols_ok k cs -> permute0 t (permute0 s cs) = cs.
Proof.
  intros k s t cs Hs Ht Hst Hok. unfold permute0. rewrite map_map. cbn [fst snd].
  rewrite <- (map_id cs) at 2. apply map_ext_in. intros [c0 c1] Hc. cbn [fst snd].
  unfold cols_ok in Hok. rewrite Forall_forall in Hok. destruct (Hok _ Hc) as [H0 _]. cbn [fst] in H0.
  rewrite (permute_col_compose s t c0 (is_perm_forall_lt k s t Hs Ht)), Hst, <- H0, permute_col_id.
  reflexivity.
Qed.

Lemma permute1_inverse : forall k s t cs, is_perm k s -> is_perm k t -> compose s t = seq 0 k ->
  cols_ok k cs -> permute1 t (permute1 s cs) = cs.
Proof.
  intros k s t cs Hs Ht Hst Hok. unfold permute1. rewrite map_map. cbn [fst snd].
  rewrite <- (map_id cs) at 2. apply map_ext_in. intros [c0 c1] Hc. cbn [fst snd].
  unfold cols_ok in Hok. rewrite Forall_forall in Hok. destruct (Hok _ Hc) as [_ H1]. cbn [snd] in H1.
  rewrite (permute_col_compose s t c1 (is_perm_forall_lt k s t Hs Ht)), Hst, <- H1, permute_col_id.
  reflexivity.
Qed.

Lemma cols_ok_permute0 : forall k s cs, is_perm k s -> cols_ok k cs -> cols_ok k (permute0 s cs).
Proof.
  intros k s cs Hs Hok. unfold cols_ok, permute0 in *. rewrite Forall_forall in *.
  intros c Hc. apply in_map_iff in Hc. destruct Hc as [[c0 c1] [Hc Hin]]. subst c. cbn [fst snd].
  destruct (Hok _ Hin) as [_ H1]. split; [rewrite permute_col_length; apply (is_perm_length k s Hs)|exact H1].
Qed.

Lemma cols_ok_permute1 : forall k s cs, is_perm k s -> cols_ok k cs -> cols_ok k (permute1 s cs).
Proof.
  intros k s cs Hs Hok. unfold cols_ok, permute1 in *. rewrite Forall_forall in *.
  intros c Hc. apply in_map_iff in Hc. destruct Hc as [[c0 c1] [Hc Hin]]. subst c. cbn [fst snd].
  destruct (Hok _ Hin) as [H0 _]. split; [exact H0|rewrite permute_col_length; apply (is_perm_length k s Hs)].
Qed.

Lemma sf_spec_permute0 : forall sc fc k s cs, is_perm k s -> cols_ok k cs ->
  sf_spec sc fc k (permute0 s cs) = sf_spec sc fc k cs.
Proof.
  intros sc fc k s cs Hs Hok.
  destruct (inverse_perm k s Hs) as [t [Ht Hst]].
  pose proof (sf_spec_permute0_le sc fc k s cs Hs) as H1.
  pose proof (sf_spec_permute0_le sc fc k t (permute0 s cs) Ht) as H2.
  rewrite (permute0_inverse k s t cs Hs Ht Hst Hok) in H2. lia.
Qed.

Lemma sf_spec_permute1 : forall sc fc k s cs, is_perm k s -> cols_ok k cs ->
  sf_spec sc fc k (permute1 s cs) = sf_spec sc fc k cs.
Proof.
  intros sc fc k s cs Hs Hok.
  destruct (inverse_perm k s Hs) as [t [Ht Hst]].
  pose proof (sf_spec_permute1_le sc fc k s cs Hs Hok) as H1.
  pose proof (sf_spec_permute1_le sc fc k t (permute1 s cs) Ht (cols_ok_permute1 k s cs Hs Hok)) as H2.
  rewrite (permute1_inverse k s t cs Hs Ht Hst Hok) in H2. lia.
Qed.

Lemma sf_permutation_invariance : forall (sc fc : N) (k : nat) (s : perm) (cs : cols),
  Permutation s (seq 0 k) ->
  Forall (fun c => length (fst c) = k /\ length (snd c) = k) cs ->
  sf_spec sc fc k (permute0 s cs) = sf_spec sc fc k cs /\
  sf_spec sc fc k (permute1 s cs) = sf_spec sc fc k cs.
Proof.
  intros sc fc k s cs Hs Hok.
  split; [exact (sf_spec_permute0 sc fc k s cs Hs Hok)|exact (sf_spec_permute1 sc fc k s cs Hs Hok)].
Qed.
