(* C12 — assembly: the statements used in props/C12.v in propositional form, and the witnesses
   refuting the "independent count" clause for the rules the code implements as found. *)
From Coq Require Import ZArith List Bool Arith Lia Sorted Permutation.
From WH.Model Require Import Stats.
From WH.Proofs Require Import StatsSort StatsPieces StatsCounts StatsRows StatsSpec StatsAll.
Import ListNotations.
Open Scope Z_scope.

(* ---------------------------------------------------------------------------------------------- *)
(* boolean checks as propositions                                                                  *)
Lemma identities_ok_prop : forall d bl, identities_ok d bl = true ->
  d_phased d + d_unphased d + d_singletons d = d_het d /\
  d_vsum d = d_phased d /\
  zsum (map (fun l : key * Z * Z * Z => snd l) (filter (fun l => 1 <? snd l) bl)) = d_phased d /\
  count (fun l : key * Z * Z * Z => 1 <? snd l) bl = d_blocks d /\
  count (fun l : key * Z * Z * Z => snd l =? 1) bl = d_singletons d.
Proof.
  intros d bl H. unfold identities_ok in H. repeat (apply andb_true_iff in H; destruct H as [H ?]).
  repeat match goal with E : (_ =? _) = true |- _ => apply Z.eqb_eq in E end. auto.
Qed.

Lemma counts_ok_prop : forall s d, counts_ok s d = true ->
  d_variants d = s_variants s /\ d_het d = s_het s /\ d_hetsnv d = s_hetsnv s /\ d_phased d = s_phased s /\
  d_unphased d = s_unphased s /\ d_singletons d = s_singletons s /\ d_blocks d = s_blocks s /\
  d_vmin d = s_vmin s /\ d_vmax d = s_vmax s /\ d_phsnv d = s_phsnv s.
Proof.
  intros s d H. unfold counts_ok in H. repeat (apply andb_true_iff in H; destruct H as [H ?]).
  repeat match goal with E : (_ =? _) = true |- _ => apply Z.eqb_eq in E end. repeat split; assumption.
Qed.

Lemma lengths_ok_prop : forall s d, lengths_ok s d = true ->
  0 <= d_bmin d /\ d_bmin d <= d_bmax d /\ d_bmax d <= d_bsum d /\ d_bsum d <= s_span s.
Proof.
  intros s d H. unfold lengths_ok in H. repeat (apply andb_true_iff in H; destruct H as [H ?]).
  repeat match goal with E : (_ <=? _) = true |- _ => apply Z.leb_le in E end. repeat split; assumption.
Qed.

Definition inj_line (l : Z * Z * Z * Z) : key * Z * Z * Z :=
  match l with (i, f, t, n) => (Some i, f, t, n) end.
Lemma blocklist_check_prop : forall a b, list_eqb2 spec_blline_eqb a b = true -> a = map inj_line b.
Proof.
  induction a as [|x a IH]; intros [|y b] H; cbn [list_eqb2] in H; try discriminate. reflexivity.
  apply andb_true_iff in H. destruct H as [H1 H2]. cbn [map]. rewrite (IH b H2). f_equal.
  destruct x as [[[k f] t] n]. destruct y as [[[i f'] t'] n']. unfold spec_blline_eqb in H1.
  repeat (apply andb_true_iff in H1; destruct H1 as [H1 ?]).
  apply key_eqb_eq in H1. repeat match goal with E : (_ =? _) = true |- _ => apply Z.eqb_eq in E end.
  subst. reflexivity.
Qed.

(* ---------------------------------------------------------------------------------------------- *)
(* one chromosome, repaired rules: no crash, counts, block list, length bound                      *)
Theorem chrom_repaired_props : forall only_snvs recs chrlen cid, sorted_recs only_snvs recs ->
  exists rows cr,
    read_rows only_snvs None recs = Some rows /\
    process_rows repaired_rules chrlen cid rows = Some cr /\
    counts_ok (spec_of only_snvs recs) (cr_row cr) = true /\
    identities_ok (cr_row cr) (cr_blocklist cr) = true /\
    lengths_ok (spec_of only_snvs recs) (cr_row cr) = true /\
    cr_blocklist cr = map inj_line (s_blocklist (spec_of only_snvs recs)).
Proof.
  intros o recs chrlen cid Hs. destruct (chrom_spec_repaired o recs chrlen cid Hs) as (cr & E1 & E2 & E3).
  exists (map row_of (counted o recs)), cr. split. exact E1. split. exact E2.
  unfold l1_row in E3. cbv zeta in E3.
  apply andb_true_iff in E3. destruct E3 as [E3 _].
  apply andb_true_iff in E3. destruct E3 as [E3 E4]. apply andb_true_iff in E3. destruct E3 as [E3 E5].
  apply andb_true_iff in E3. destruct E3 as [E6 E7].
  split. exact E7. split. exact E6. split. exact E5. apply blocklist_check_prop. exact E4.
Qed.

(* ---------------------------------------------------------------------------------------------- *)
(* the ALL row of any sequence of successfully processed chromosomes                               *)
Theorem all_row_additive : forall R chrlen (crs : list chrom_result),
  Forall (fun cr => exists cid rows, process_rows R chrlen cid rows = Some cr) crs ->
  exists d,
    get_detailed_stats chrlen (fold_left ps_iadd (map cr_stats crs) ps_empty) = Some d /\
    print_ok d = true /\
    dstats_int_eqb d (row_sum (map cr_row crs)) = true.
Proof.
  intros R chrlen crs H.
  assert (Hg : Forall good_st (map cr_stats crs)).
  { rewrite Forall_forall in H |- *. intros st Hst. apply in_map_iff in Hst. destruct Hst as (cr & <- & Hcr).
    destruct (H cr Hcr) as (cid & rows & E). apply (process_rows_good _ _ _ _ _ E). }
  assert (Hp : Forall (fun st => print_ok (rowfun chrlen st) = true) (map cr_stats crs)).
  { rewrite Forall_forall in H |- *. intros st Hst. apply in_map_iff in Hst. destruct Hst as (cr & <- & Hcr).
    destruct (H cr Hcr) as (cid & rows & E). destruct (process_rows_good _ _ _ _ _ E) as (_ & E2 & E3).
    rewrite <- E2. exact E3. }
  destruct (all_row_spec chrlen (map cr_stats crs) Hg Hp) as (A1 & A2 & A3). cbv zeta in A1, A2, A3.
  eexists. split. exact A1. split. exact A2.
  replace (map cr_row crs) with (map (rowfun chrlen) (map cr_stats crs)). exact A3.
  rewrite map_map. apply map_ext_in. intros cr Hcr. rewrite Forall_forall in H.
  destruct (H cr Hcr) as (cid & rows & E). destruct (process_rows_good _ _ _ _ _ E) as (_ & E2 & _). symmetry. exact E2.
Qed.

(* ---------------------------------------------------------------------------------------------- *)
(* witnesses against the rules the code implements as found (finding F4 and the PS="." crash)      *)
Definition f4_witness : list vrec :=
  [ mkRec 99 true 1 (mkCall (Some [Some 0; Some 1]) true (PSVal 100) None);     (* 0|1:100 *)
    mkRec 199 true 1 (mkCall (Some [None; None]) false PSMissing None);         (* ./.     *)
    mkRec 299 true 1 (mkCall (Some [Some 0; None]) false PSMissing None);       (* 0/.     *)
    mkRec 399 true 1 (mkCall (Some [Some 1; Some 0]) true (PSVal 100) None);    (* 1|0:100 *)
    mkRec 499 true 1 (mkCall (Some [Some 0; Some 1]) false PSMissing None);     (* 0/1     *)
    mkRec 599 true 1 (mkCall (Some [Some 1; Some 1]) false PSMissing None) ].   (* 1/1     *)

Lemma f4_witness_sorted : sorted_recs false f4_witness.
Proof. unfold sorted_recs, f4_witness. cbn. repeat constructor; lia. Qed.

Lemma f4_witness_legacy :
  exists rows cr,
    read_rows false None f4_witness = Some rows /\
    process_rows legacy_rules (fun _ => None) 1 rows = Some cr /\
    d_het (cr_row cr) = 5 /\ d_unphased (cr_row cr) = 3 /\
    s_het (spec_of false f4_witness) = 3 /\ s_unphased (spec_of false f4_witness) = 1 /\
    counts_ok (spec_of false f4_witness) (cr_row cr) = false.
Proof.
  eexists. eexists. split. vm_compute. reflexivity. split. vm_compute. reflexivity.
  vm_compute. repeat split; reflexivity.
Qed.

Definition psmissing_witness : list vrec :=
  [ mkRec 99 true 1 (mkCall (Some [Some 0; Some 1]) true (PSVal 100) None);     (* 0|1:100 *)
    mkRec 199 true 1 (mkCall (Some [Some 1; Some 0]) true PSMissing None) ].    (* 1|0:.   *)

Lemma psmissing_witness_sorted : sorted_recs false psmissing_witness.
Proof. unfold sorted_recs, psmissing_witness. cbn. repeat constructor; lia. Qed.

Lemma psmissing_witness_legacy :
  exists rows, read_rows false None psmissing_witness = Some rows /\
               process_rows legacy_rules (fun _ => None) 1 rows = None.
Proof. eexists. split. vm_compute. reflexivity. vm_compute. reflexivity. Qed.

Lemma counts_partition_legacy_refuted :
  ~ (forall (only_snvs : bool) (recs : list vrec) (chrlen : Z -> option Z) (cid : Z),
     sorted_recs only_snvs recs ->
     exists rows cr,
       read_rows only_snvs None recs = Some rows /\
       process_rows legacy_rules chrlen cid rows = Some cr /\
       let d := cr_row cr in
       let s := spec_of only_snvs recs in
       d_variants d = s_variants s /\ d_het d = s_het s /\ d_hetsnv d = s_hetsnv s /\ d_phased d = s_phased s /\
       d_unphased d = s_unphased s /\ d_singletons d = s_singletons s /\ d_blocks d = s_blocks s /\
       d_vmin d = s_vmin s /\ d_vmax d = s_vmax s /\ d_phsnv d = s_phsnv s).
Proof.
  intro H. destruct (H false f4_witness (fun _ => None) 1 f4_witness_sorted) as (rows & cr & E1 & E2 & Hf).
  destruct f4_witness_legacy as (rows' & cr' & E1' & E2' & H5 & _ & H3 & _).
  rewrite E1' in E1. injection E1 as <-. rewrite E2' in E2. injection E2 as <-.
  cbv zeta in Hf. destruct Hf as (_ & Hhet & _). rewrite H5, H3 in Hhet. discriminate.
Qed.

Lemma counts_partition_legacy_witness :
  exists recs, sorted_recs false recs /\
  exists rows cr,
    read_rows false None recs = Some rows /\
    process_rows legacy_rules (fun _ => None) 1 rows = Some cr /\
    d_het (cr_row cr) = 5 /\ s_het (spec_of false recs) = 3 /\
    d_unphased (cr_row cr) = 3 /\ s_unphased (spec_of false recs) = 1.
Proof.
  exists f4_witness. split. exact f4_witness_sorted.
  destruct f4_witness_legacy as (rows & cr & E1 & E2 & H5 & H3u & H3 & H1 & _).
  exists rows, cr. repeat split; assumption.
Qed.

Lemma no_crash_legacy_refuted :
  exists recs, sorted_recs false recs /\
  exists rows, read_rows false None recs = Some rows /\
               process_rows legacy_rules (fun _ => None) 1 rows = None.
Proof.
  exists psmissing_witness. split. exact psmissing_witness_sorted. exact psmissing_witness_legacy.
Qed.

(* the propositional form of chrom_repaired_props *)
Theorem chrom_repaired_statement :
  forall (only_snvs : bool) (recs : list vrec) (chrlen : Z -> option Z) (cid : Z),
  sorted_recs only_snvs recs ->
  exists rows cr,
    read_rows only_snvs None recs = Some rows /\
    process_rows repaired_rules chrlen cid rows = Some cr /\
    let d := cr_row cr in
    let s := spec_of only_snvs recs in
    d_variants d = s_variants s /\ d_het d = s_het s /\ d_hetsnv d = s_hetsnv s /\ d_phased d = s_phased s /\
    d_unphased d = s_unphased s /\ d_singletons d = s_singletons s /\ d_blocks d = s_blocks s /\
    d_vmin d = s_vmin s /\ d_vmax d = s_vmax s /\ d_phsnv d = s_phsnv s.
Proof.
  intros o recs chrlen cid Hs. destruct (chrom_repaired_props o recs chrlen cid Hs) as (rows & cr & E1 & E2 & Hc & _).
  exists rows, cr. split. exact E1. split. exact E2. cbv zeta. apply counts_ok_prop. exact Hc.
Qed.

Theorem block_list_repaired :
  forall (only_snvs : bool) (recs : list vrec) (chrlen : Z -> option Z) (cid : Z),
  sorted_recs only_snvs recs ->
  exists rows cr,
    read_rows only_snvs None recs = Some rows /\
    process_rows repaired_rules chrlen cid rows = Some cr /\
    cr_blocklist cr = map inj_line (s_blocklist (spec_of only_snvs recs)).
Proof.
  intros o recs chrlen cid Hs. destruct (chrom_repaired_props o recs chrlen cid Hs) as (rows & cr & E1 & E2 & _ & _ & _ & Hb).
  exists rows, cr. auto.
Qed.

Theorem lengths_repaired :
  forall (only_snvs : bool) (recs : list vrec) (chrlen : Z -> option Z) (cid : Z),
  sorted_recs only_snvs recs ->
  exists rows cr,
    read_rows only_snvs None recs = Some rows /\
    process_rows repaired_rules chrlen cid rows = Some cr /\
    0 <= d_bmin (cr_row cr) /\ d_bmin (cr_row cr) <= d_bmax (cr_row cr) /\ d_bmax (cr_row cr) <= d_bsum (cr_row cr) /\
    d_bsum (cr_row cr) <= s_span (spec_of only_snvs recs).
Proof.
  intros o recs chrlen cid Hs. destruct (chrom_repaired_props o recs chrlen cid Hs) as (rows & cr & E1 & E2 & _ & _ & Hl & _).
  exists rows, cr. split. exact E1. split. exact E2. apply lengths_ok_prop. exact Hl.
Qed.

Theorem pieces_repaired :
  forall (only_snvs : bool) (recs : list vrec) (chrlen : Z -> option Z) (cid : Z),
  sorted_recs only_snvs recs ->
  exists rows cr,
    read_rows only_snvs None recs = Some rows /\
    process_rows repaired_rules chrlen cid rows = Some cr /\
    pieces_ok only_snvs recs (cr_row cr) = true.
Proof.
  intros o recs chrlen cid Hs. destruct (chrom_spec_repaired o recs chrlen cid Hs) as (cr & E1 & E2 & E3).
  exists (map row_of (counted o recs)), cr. split. exact E1. split. exact E2.
  unfold l1_row in E3. cbv zeta in E3. apply andb_true_iff in E3. destruct E3 as [_ E3]. exact E3.
Qed.
