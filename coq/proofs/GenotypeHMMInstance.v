(* C08, part 4: the instance level.  The column contexts mk_cctxs builds (memoised emission products,
   allele-assignment factors, transmission transitions; memoised haplotype_to_partition / genotype /
   multiplicity tables) implement the specification columns spec_cols of a well-formed instance; hence
   the run of the model equals posterior_spec.  ssreflect style. *)
From mathcomp Require Import all_ssreflect all_algebra.
From WH.Model Require Import GenotypeHMM.
From WH.Proofs Require Import SemiringDP GenotypeHMMBasics GenotypeHMMRun GenotypeHMMPosterior GenotypeHMMProofs.
Set Implicit Arguments.
Unset Strict Implicit.
Unset Printing Implicit Defensive.
Import GRing.Theory.
Local Open Scope ring_scope.

(* ---------------------------------------------------------------- the memoised pedigree tables *)
Lemma h2p_memoE (P : ped) tv ind hap :
  (tv < ntrans P)%N -> (ind < p_nind P)%N -> h2p_memo P tv ind hap = h2p P tv ind hap.
Proof.
move=> htv hind; rewrite /h2p_memo (nth_map 0%N) ?size_iota // nth_iota // add0n.
by rewrite (nth_map 0%N) ?size_iota // nth_iota // add0n; case: hap.
Qed.

Lemma geno_memoE (P : ped) tv a ind :
  (tv < ntrans P)%N -> (a < nassign P)%N -> (ind < p_nind P)%N -> geno_memo P tv a ind = geno P tv a ind.
Proof.
move=> htv ha hind; rewrite /geno_memo (nth_map 0%N) ?size_iota // nth_iota // add0n.
rewrite (nth_map 0%N) ?size_iota // nth_iota // add0n.
by rewrite /gvec (nth_map 0%N) ?size_iota // nth_iota // add0n.
Qed.

Lemma gcount_memoE (P : ped) tv a :
  (tv < ntrans P)%N -> (a < nassign P)%N -> gcount_memo P tv a = gcount P tv a.
Proof.
move=> htv ha; rewrite /gcount_memo (nth_map [::]) ?size_map ?size_iota //.
rewrite (nth_map 0%N) ?size_iota // nth_iota // add0n.
rewrite (nth_map [::]) ?size_map ?size_iota // (nth_map 0%N) ?size_iota // nth_iota // add0n.
by rewrite count_map /gcount; apply: eq_count => a' /=; rewrite eq_sym.
Qed.

Section Instance.
Variable K : fieldType.

Local Notation divK := (fun x y : K => x / y).
Local Notation subK := (fun x y : K => x - y).
Local Notation eq0K := (fun x : K => x == 0).
Local Notation instK := (inst K).
Local Notation columnK := (column K).
Local Notation costK := (@cost K 1 subK *%R).
Local Notation cost_rowK := (@cost_row K 1 subK *%R).
Local Notation cost_partitionK := (@cost_partition K 1 subK *%R).
Local Notation paa_unnormK := (@paa_unnorm K 0 1 +%R *%R divK).
Local Notation paa_rawK := (@paa_raw K 0 1 +%R *%R divK).
Local Notation ttrans_rawK := (@ttrans_raw K 0 1 +%R subK *%R divK).
Local Notation bernK := (@bern K 1 subK *%R).
Local Notation WspecK := (@Wspec K 0 1 +%R subK *%R divK).
Local Notation mk_cctxK := (@mk_cctx K 0 1 +%R subK *%R divK).
Local Notation mk_cctxsK := (@mk_cctxs K 0 1 +%R subK *%R divK).
Local Notation spec_colsK := (@spec_cols K 0 1 +%R subK *%R divK).

Variable P : ped.
Let tn := ntrans P.
Let na := nassign P.

(* ---------------------------------------------------------------- emission products *)
Lemma cost_rowE partf (c : columnK) tv x a :
  (a < na)%N -> nth 0 (cost_rowK P partf c tv x) a = costK P partf c tv x a.
Proof.
move=> ha; rewrite /cost_row (nth_map 0%N) ?size_iota // nth_iota // add0n /cost.
congr (fprod _ _ _).
rewrite -[in RHS](@map_id _ (iota 0 (npart P))) -{1}(@unzip1_zip _ _ (iota 0 (npart P))
   [seq (cost_partitionK partf c tv x p false, cost_partitionK partf c tv x p true) | p <- iota 0 (npart P)]);
   last by rewrite size_map.
rewrite /unzip1 -map_comp.
elim: (iota 0 (npart P)) => //= p l ->.
by case: (tbit a p).
Qed.

Lemma cost_ext partf partf' (c : columnK) tv x a :
  (forall s b, (s < p_nind P)%N -> partf tv s b = partf' tv s b) ->
  all (fun e => e_src e < p_nind P)%N (c_entries c) ->
  costK P partf c tv x a = costK P partf' c tv x a.
Proof.
move=> h hall; rewrite /cost; congr (fprod _ _ _); apply: eq_map => p.
rewrite /cost_partition; congr (fprod _ _ _); congr (map _ _).
elim: (c_entries c) x hall => [|e es IH] [|b x] //= /andP[he hall].
by rewrite /entry_part h // IH.
Qed.

(* ---------------------------------------------------------------- allele-assignment factors *)
Lemma paa_unnorm_ext genof genof' gcntf gcntf' (c : columnK) tv a :
  (forall ind, (ind < p_nind P)%N -> genof tv a ind = genof' tv a ind) ->
  gcntf tv a = gcntf' tv a ->
  paa_unnormK P genof gcntf c tv a = paa_unnormK P genof' gcntf' c tv a.
Proof.
move=> hg hc; rewrite /paa_unnorm hc; congr (_ / _); congr (fprod _ _ _).
by apply/eq_in_map => ind; rewrite mem_iota add0n => /andP[_ hi]; rewrite hg.
Qed.

Lemma paa_memoE (c : columnK) tv a :
  (tv < tn)%N -> (a < na)%N ->
  paa_unnormK P (geno_memo P) (gcount_memo P) c tv a = paa_unnormK P (geno P) (gcount P) c tv a.
Proof.
move=> htv ha; apply: paa_unnorm_ext; last exact: gcount_memoE.
by move=> ind hind; apply: geno_memoE.
Qed.

(* ---------------------------------------------------------------- the contexts implement the specification *)
Lemma mk_cctx_loc prev (c : columnK) next :
  all (fun e => e_src e < p_nind P)%N (c_entries c) ->
  loc_ok P (mk_cctxK P (h2p_memo P) (geno_memo P) (gcount_memo P) prev c next)
           (SCol (col_ids c) (WspecK P c) (ttrans_rawK P c)).
Proof.
move=> hall.
have hW : forall x i a, size x = size (col_ids c) -> (i < tn)%N -> (a < na)%N ->
    cc_W (mk_cctxK P (h2p_memo P) (geno_memo P) (gcount_memo P) prev c next) x i a = WspecK P c x i a.
  move=> x i a hx hi ha; rewrite /= memo3E // cost_rowE // /Wspec.
  rewrite (@cost_ext (h2p_memo P) (h2p P)) //; last by move=> s b hs; apply: h2p_memoE.
  congr (_ * _); rewrite memo_nat2E // memo_nat2E // memo_nat2E // /paa_raw /paa_norm paa_memoE //.
  congr (_ / _); congr (fsum _ _ _); apply/eq_in_map => a'; rewrite mem_iota add0n => /andP[_ ha'].
  by rewrite memo_nat2E // paa_memoE.
split.
- by [].
- by move=> x i a hx hi ha; apply: hW.
- move=> x i hx hi; rewrite /= memoE // fsum_map; apply: eq_big_seq => a; rewrite mem_iota add0n => /andP[_ ha].
  exact: hW.
- move=> j i hj hi.
  have hh : forall j', (hamdist P j j' < (2 * size (p_trios P)).+1)%N.
    by move=> j'; rewrite ltnS /hamdist (leq_trans (count_size _ _)) // size_iota.
  rewrite /= memo_nat2E // memo_nat2E ?hh // /ttrans_raw.
  rewrite memo_nat2E //; congr (_ / _); congr (fsum _ _ _).
  by apply/eq_in_map => j' _; rewrite memo_nat2E.
Qed.

Local Notation ccs_of cols := (mk_cctxsK P (h2p_memo P) (geno_memo P) (gcount_memo P) [::] cols).

Lemma mk_impl m prev (cols : seq columnK) :
  wf_cols m prev cols -> all (fun r => r < m)%N prev ->
  all (fun c => all (fun e => e_src e < p_nind P)%N (c_entries c)) cols ->
  impl_from P m prev (mk_cctxsK P (h2p_memo P) (geno_memo P) (gcount_memo P) prev cols)
                     [seq SCol (col_ids c) (WspecK P c) (ttrans_rawK P c) | c <- cols].
Proof.
elim: cols m prev => [|c cols IH] m prev //= /andP[/eqP hids hwf] hprev /andP[hsrc hall].
set ids := col_ids c in hids hwf *.
set shared := [seq r <- prev | r \in ids] in hids hwf *.
set nnew := (size ids - size shared)%N in hids hwf *.
have hsh : all (fun r => r < m)%N shared.
  by apply/allP => r; rewrite mem_filter => /andP[_ /(allP hprev)].
have hidsm : all (fun r => r < m + nnew)%N ids.
  rewrite hids all_cat; apply/andP; split.
    by apply/allP => r /(allP hsh) h; apply: ltn_addr.
  by apply/allP => r; rewrite mem_iota => /andP[].
split=> //.
- rewrite {1}hids count_cat.
  have -> : count (fun r => r \in prev) shared = size shared.
    by apply/eqP; rewrite -all_count; apply/allP => r; rewrite mem_filter => /andP[].
  rewrite (@eq_in_count _ _ pred0) ?count_pred0 ?addn0 // => r.
  rewrite mem_iota => /andP[hmr _]; apply/negbTE/negP => /(allP hprev).
  by rewrite ltnNge hmr.
- by case: (cols).
- exact: mk_cctx_loc.
- exact: IH.
Qed.

Lemma size_mk_cctxs prev (cols : seq columnK) :
  size (mk_cctxsK P (h2p_memo P) (geno_memo P) (gcount_memo P) prev cols) = size cols.
Proof. by elim: cols prev => //= c cols IH prev; rewrite IH. Qed.

End Instance.

(* ---------------------------------------------------------------- posterior_gen and the genotype function *)
Lemma mem_seqs (T : eqType) (S : seq T) n p : p \in seqs S n -> all (fun s => s \in S) p.
Proof.
elim: n p => [|n IH] p /=; first by rewrite inE => /eqP->.
by case/allpairsP=> [[s q]] /= [hs /IH hq ->] /=; rewrite hs hq.
Qed.

Section Final.
Variable K : fieldType.
Local Notation divK := (fun x y : K => x / y).
Local Notation subK := (fun x y : K => x - y).
Local Notation eq0K := (fun x : K => x == 0).
Local Notation post_genK := (@posterior_gen K 0 1 +%R *%R divK).
Local Notation fb_runK := (@fb_run K 0 1 +%R subK *%R divK eq0K).
Local Notation fb_run_kK := (@fb_run_k K 0 1 +%R subK *%R divK eq0K).
Local Notation posterior_specK := (@posterior_spec K 0 1 +%R subK *%R divK).
Local Notation spec_colsK := (@spec_cols K 0 1 +%R subK *%R divK).

Lemma post_gen_ext tn na genof genof' (cs : seq (scol K)) c ind g P :
  tn = ntrans P -> na = nassign P ->
  (c < size cs)%N ->
  (forall i a, (i < tn)%N -> (a < na)%N -> genof i a ind = genof' i a ind) ->
  post_genK tn na genof cs c ind g = post_genK tn na genof' cs c ind g.
Proof.
move=> -> -> hc h; rewrite !posterior_genE; congr (_ / _).
apply: eq_bigr => b _; apply: eq_big_seq => p hp.
have hsz := size_seqs hp.
have : nth (0%N, 0%N) p c \in hmm_states (ntrans P) (nassign P).
  by apply: (allP (mem_seqs hp)); apply: mem_nth; rewrite hsz.
case: (nth _ p c) => i a /allpairsP[[i' a'] /= [hi ha [-> ->]]].
move: hi ha; rewrite !mem_iota !add0n => /andP[_ hi] /andP[_ ha].
by rewrite /phi_g h.
Qed.

Lemma geno_lt3 P tv a ind : (geno P tv a ind < 3)%N.
Proof. by rewrite /geno; case: (tbit _ _); case: (tbit _ _). Qed.

Theorem posterior_exact_k (I : inst K) k out :
  wf I -> (0 < k)%N -> fb_run_kK k I = Some out ->
  size out = size (i_cols I) /\
  forall c ind g, (c < size (i_cols I))%N -> (ind < p_nind (i_ped I))%N -> (g < 3)%N ->
    out_at out c ind g = posterior_specK I c ind g.
Proof.
case/and3P=> _ hwf hsrc hk; rewrite /fb_run_k.
set P := i_ped I; set ccs := mk_cctxs _ _ _ _ _ _ _ _ _ _ _ _.
case herr: (err _) => //; case=> <-.
have himp := @mk_impl K P 0 [::] (i_cols I) hwf isT hsrc; rewrite -/ccs in himp.
case: (gen_ok himp hk herr); rewrite size_map => hs ho; split=> // c ind g hc hind hg.
rewrite ho ?size_map // /posterior_spec -/P.
apply: (@post_gen_ext _ _ _ _ _ _ _ _ P) => //; first by rewrite size_map.
by move=> i a hi ha; apply: geno_memoE.
Qed.

Theorem posterior_exact (I : inst K) out :
  wf I -> fb_runK I = Some out ->
  size out = size (i_cols I) /\
  forall c ind g, (c < size (i_cols I))%N -> (ind < p_nind (i_ped I))%N -> (g < 3)%N ->
    out_at out c ind g = posterior_specK I c ind g.
Proof.
move=> hwf hrun.
case: (posnP (size (i_cols I))) => [n0|npos]; last first.
  apply: (@posterior_exact_k I (isqrt (size (i_cols I)))) => //; first exact: isqrt_gt0.
  by move: hrun; rewrite /fb_run /fb_run_k /fb_run_state size_mk_cctxs.
move: hrun; rewrite /fb_run /fb_run_state /fb_run_state_k (size0nil n0) /=.
by case=> <-; split.
Qed.

Theorem gl_sums_to_one_k (I : inst K) k out c ind :
  wf I -> (0 < k)%N -> fb_run_kK k I = Some out ->
  (c < size (i_cols I))%N -> (ind < p_nind (i_ped I))%N ->
  \sum_(g <- iota 0 3) out_at out c ind g = 1.
Proof.
case/and3P=> _ hwf hsrc hk; rewrite /fb_run_k.
set P := i_ped I; set ccs := mk_cctxs _ _ _ _ _ _ _ _ _ _ _ _.
case herr: (err _) => //; case=> <- hc hind.
have himp := @mk_impl K P 0 [::] (i_cols I) hwf isT hsrc; rewrite -/ccs in himp.
apply: (gen_sums_one himp hk herr) => //; first by rewrite size_map.
by move=> i a hi ha; rewrite geno_memoE // geno_lt3.
Qed.

Theorem gl_sums_to_one (I : inst K) out c ind :
  wf I -> fb_runK I = Some out ->
  (c < size (i_cols I))%N -> (ind < p_nind (i_ped I))%N ->
  \sum_(g <- iota 0 3) out_at out c ind g = 1.
Proof.
move=> hwf hrun hc hind.
have npos : (0 < size (i_cols I))%N by apply: leq_ltn_trans hc.
apply: (@gl_sums_to_one_k I (isqrt (size (i_cols I)))) => //; first exact: isqrt_gt0.
by move: hrun; rewrite /fb_run /fb_run_k /fb_run_state size_mk_cctxs.
Qed.

(* the result does not depend on the check-pointing stride *)
Theorem storage_independent (I : inst K) k1 k2 out1 out2 c ind g :
  wf I -> (0 < k1)%N -> (0 < k2)%N ->
  fb_run_kK k1 I = Some out1 -> fb_run_kK k2 I = Some out2 ->
  (c < size (i_cols I))%N -> (ind < p_nind (i_ped I))%N -> (g < 3)%N ->
  out_at out1 c ind g = out_at out2 c ind g.
Proof.
move=> hwf h1 h2 r1 r2 hc hind hg.
case: (posterior_exact_k hwf h1 r1) => _ ->//.
by case: (posterior_exact_k hwf h2 r2) => _ ->.
Qed.

End Final.
