(* Proofs about coq/model/AlleleDetect.v (property C06).
   Part 1: CIGAR prefix arithmetic on unit operations, windows of realign, realign_correct. *)
From Coq Require Import List Arith Bool ZArith Lia.
From WH.Model Require Import EditDist AlleleDetect.
From WH.Proofs Require Import EditDistProofs.
Import ListNotations.

(* ------------------------------------------------------------------ generic list facts *)
Lemma slice_app_mid {A} (a b c : list A) l x :
  l <= length b -> x <= length c ->
  slice (a ++ b ++ c) (length a + length b - l) (length a + length b + x) = skipn (length b - l) b ++ firstn x c.
Proof.
intros Hl Hx. unfold slice.
replace (length a + length b - l) with (length a + (length b - l)) by lia.
rewrite skipn_app, skipn_all2 by lia. cbn [app].
replace (length a + (length b - l) - length a) with (length b - l) by lia.
rewrite skipn_app. replace (length b - l - length b) with 0 by lia. cbn [skipn].
rewrite firstn_app. rewrite skipn_length.
replace (length a + length b + x - (length a + (length b - l))) with (l + x) by lia.
rewrite firstn_all2 by (rewrite skipn_length; lia).
replace (l + x - (length b - (length b - l))) with x by lia.
reflexivity.
Qed.

Lemma repeat_rev {A} (x : A) n : rev (repeat x n) = repeat x n.
Proof.
induction n as [|n IH]; [reflexivity|]. cbn [repeat rev]. rewrite IH.
clear IH. induction n as [|n IH]; [reflexivity|]. cbn [repeat app]. now rewrite IH.
Qed.

(* ------------------------------------------------------------------ unit operations *)

Fixpoint prefix_unit (R : rules) (u : list cop) (want rp qp : nat) : option (nat * nat) :=
  match u with
  | [] => if rp <? want then Some (rp, qp) else None
  | op :: u' =>
      match op with
      | OpM | OpEQ | OpX =>
          if want <=? rp + 1 then Some (want, qp + 1 + want - (rp + 1))
          else prefix_unit R u' want (rp + 1) (qp + 1)
      | OpD => if want <=? rp + 1 then Some (want, qp) else prefix_unit R u' want (rp + 1) qp
      | OpI => prefix_unit R u' want rp (qp + 1)
      | OpS | OpH => prefix_unit R u' want rp qp
      | OpN => Some (if r_skip_consumed R then rp else want, qp)
      | OpP => None
      end
  end.

Lemma expand_app a b : expand (a ++ b) = expand a ++ expand b.
Proof. unfold expand. apply flat_map_app. Qed.

Lemma expand_rev c : expand (rev c) = rev (expand c).
Proof.
induction c as [|[op len] c IH]; [reflexivity|].
cbn [rev]. rewrite expand_app, IH. unfold expand at 2 3. cbn [flat_map fst snd].
rewrite app_nil_r, rev_app_distr, repeat_rev. reflexivity.
Qed.

Lemma ref_units_app a b : ref_units (a ++ b) = ref_units a + ref_units b.
Proof. induction a as [|o a IH]; [reflexivity|]. cbn [app ref_units fold_right] in *. fold (ref_units (a ++ b)). fold (ref_units a). lia. Qed.
Lemma query_units_app a b : query_units (a ++ b) = query_units a + query_units b.
Proof. induction a as [|o a IH]; [reflexivity|]. cbn [app query_units fold_right] in *. fold (query_units (a ++ b)). fold (query_units a). lia. Qed.

Lemma units_match u : forallb is_match u = true -> ref_units u = length u /\ query_units u = length u.
Proof.
induction u as [|o u IH]; [now split|]. cbn [forallb]. intros H. apply andb_prop in H as [Ho Hu].
destruct (IH Hu) as [IH1 IH2]. cbn [ref_units query_units fold_right length].
fold (ref_units u). fold (query_units u). destruct o; try discriminate; cbn [ref_unit query_unit]; lia.
Qed.

(* runs of equal unit operations *)
Lemma run_match R op u want : is_match op = true -> forall len rp qp, rp < want ->
  prefix_unit R (repeat op len ++ u) want rp qp =
  if want <=? rp + len then Some (want, qp + len + want - (rp + len)) else prefix_unit R u want (rp + len) (qp + len).
Proof.
intros Hop. induction len as [|len IH]; intros rp qp Hlt.
- cbn [repeat app]. rewrite !Nat.add_0_r. destruct (want <=? rp) eqn:E; [apply Nat.leb_le in E; lia|reflexivity].
- cbn [repeat app].
  assert (Hstep : prefix_unit R (op :: repeat op len ++ u) want rp qp =
                  if want <=? rp + 1 then Some (want, qp + 1 + want - (rp + 1))
                  else prefix_unit R (repeat op len ++ u) want (rp + 1) (qp + 1)).
  { destruct op; try discriminate; reflexivity. }
  rewrite Hstep. destruct (want <=? rp + 1) eqn:E1.
  + apply Nat.leb_le in E1. destruct (want <=? rp + S len) eqn:E2; [|apply Nat.leb_gt in E2; lia].
    f_equal. f_equal. lia.
  + apply Nat.leb_gt in E1. rewrite IH by lia.
    replace (rp + 1 + len) with (rp + S len) by lia. replace (qp + 1 + len) with (qp + S len) by lia.
    reflexivity.
Qed.

Lemma run_del R u want : forall len rp qp, rp < want ->
  prefix_unit R (repeat OpD len ++ u) want rp qp =
  if want <=? rp + len then Some (want, qp) else prefix_unit R u want (rp + len) qp.
Proof.
induction len as [|len IH]; intros rp qp Hlt.
- cbn [repeat app]. rewrite !Nat.add_0_r. destruct (want <=? rp) eqn:E; [apply Nat.leb_le in E; lia|reflexivity].
- cbn [repeat app prefix_unit]. destruct (want <=? rp + 1) eqn:E1.
  + apply Nat.leb_le in E1. destruct (want <=? rp + S len) eqn:E2; [reflexivity|apply Nat.leb_gt in E2; lia].
  + apply Nat.leb_gt in E1. rewrite IH by lia. replace (rp + 1 + len) with (rp + S len) by lia. reflexivity.
Qed.

Lemma run_ins R u want rp : forall len qp,
  prefix_unit R (repeat OpI len ++ u) want rp qp = prefix_unit R u want rp (qp + len).
Proof.
induction len as [|len IH]; intros qp.
- cbn [repeat app]. now rewrite Nat.add_0_r.
- cbn [repeat app prefix_unit]. rewrite IH. f_equal. lia.
Qed.

Lemma run_clip R op u want rp qp : is_clip op = true -> forall len,
  prefix_unit R (repeat op len ++ u) want rp qp = prefix_unit R u want rp qp.
Proof.
intros Hop. induction len as [|len IH]; [reflexivity|].
cbn [repeat app]. destruct op; try discriminate; cbn [prefix_unit]; exact IH.
Qed.


(* cigar_prefix_length on a CIGAR = the walk over its unit operations *)
Lemma prefix_len_expand R c : positive_lengths c -> forall want rp qp, rp < want ->
  prefix_len R c want rp qp = prefix_unit R (expand c) want rp qp.
Proof.
induction 1 as [|[op len] c Hpos Hc IH]; intros want rp qp Hlt; [reflexivity|].
cbn [snd] in Hpos. unfold expand. cbn [flat_map fst snd]. fold (expand c).
cbn [prefix_len].
destruct op.
- rewrite run_match by easy. destruct (want <=? rp + len) eqn:E; [reflexivity|]. apply Nat.leb_gt in E. now apply IH.
- rewrite run_ins. now apply IH.
- rewrite run_del by easy. destruct (want <=? rp + len) eqn:E; [reflexivity|]. apply Nat.leb_gt in E. now apply IH.
- destruct len; [lia|]. reflexivity.
- rewrite run_clip by easy. now apply IH.
- rewrite run_clip by easy. now apply IH.
- destruct len; [lia|]. reflexivity.
- rewrite run_match by easy. destruct (want <=? rp + len) eqn:E; [reflexivity|]. apply Nat.leb_gt in E. now apply IH.
- rewrite run_match by easy. destruct (want <=? rp + len) eqn:E; [reflexivity|]. apply Nat.leb_gt in E. now apply IH.
Qed.

(* ------------------------------------------------------------------ splitting at (i, consumed) *)

Lemma positive_firstn c n : positive_lengths c -> positive_lengths (firstn n c).
Proof. unfold positive_lengths. intros H. revert n. induction H; intros [|n]; cbn [firstn]; try constructor; auto. Qed.
Lemma positive_skipn c n : positive_lengths c -> positive_lengths (skipn n c).
Proof. unfold positive_lengths. intros H. revert n. induction H; intros [|n]; cbn [skipn]; try constructor; auto. Qed.
Lemma positive_rev c : positive_lengths c -> positive_lengths (rev c).
Proof. unfold positive_lengths. rewrite !Forall_forall. intros H x Hx. apply H. now apply in_rev. Qed.

Lemma nth_error_split_cigar (c : cigar) i op len :
  nth_error c i = Some (op, len) -> c = firstn i c ++ (op, len) :: skipn (S i) c.
Proof.
revert i. induction c as [|x c IH]; intros [|i] H; try discriminate.
- cbn in H. injection H as ->. reflexivity.
- cbn [nth_error] in H. cbn [firstn skipn app]. f_equal. now apply IH.
Qed.

Lemma expand_split_right c i op len consumed :
  nth_error c i = Some (op, len) -> consumed <= len ->
  expand (split_right c i consumed) = skipn (unit_index c i consumed) (expand c).
Proof.
intros Hn Hle. unfold split_right, unit_index. rewrite Hn.
pose proof (nth_error_split_cigar c i op len Hn) as Hc.
remember (firstn i c) as A eqn:EA. remember (skipn (S i) c) as B eqn:EB. clear EA EB.
rewrite Hc at 1. clear Hc Hn.
rewrite (expand_app A). rewrite skipn_app.
replace (length (expand A) + consumed - length (expand A)) with consumed by lia.
rewrite skipn_all2 by lia. cbn [app].
change (expand ((op, len) :: B)) with (repeat op len ++ expand B).
rewrite skipn_app, repeat_length.
assert (Hs : skipn consumed (repeat op len) = repeat op (len - consumed)).
{ clear. revert consumed. induction len as [|len IH]; intros [|k]; cbn [repeat skipn Nat.sub]; auto. }
rewrite Hs. replace (consumed - len) with 0 by lia. cbn [skipn].
destruct (consumed <? len) eqn:E.
- change (expand ([(op, len - consumed)] ++ B)) with (repeat op (len - consumed) ++ expand B). reflexivity.
- apply Nat.ltb_ge in E. replace (len - consumed) with 0 by lia. reflexivity.
Qed.

Lemma expand_split_left c i op len consumed :
  nth_error c i = Some (op, len) -> consumed <= len ->
  expand (split_left c i consumed) = rev (firstn (unit_index c i consumed) (expand c)).
Proof.
intros Hn Hle. unfold split_left, unit_index. rewrite Hn.
pose proof (nth_error_split_cigar c i op len Hn) as Hc.
remember (firstn i c) as A eqn:EA. remember (skipn (S i) c) as B eqn:EB. clear EA EB.
rewrite Hc at 1. clear Hc Hn.
rewrite (expand_app A), firstn_app.
replace (length (expand A) + consumed - length (expand A)) with consumed by lia.
rewrite firstn_all2 by lia.
change (expand ((op, len) :: B)) with (repeat op len ++ expand B).
rewrite firstn_app, repeat_length.
assert (Hf : firstn consumed (repeat op len) = repeat op consumed).
{ clear - Hle. revert len Hle. induction consumed as [|k IH]; intros [|len] H; cbn [repeat firstn]; auto; try lia.
  f_equal. apply IH. lia. }
rewrite Hf. replace (consumed - len) with 0 by lia. cbn [firstn]. rewrite app_nil_r.
rewrite rev_app_distr, repeat_rev, expand_app, expand_rev.
destruct (0 <? consumed) eqn:E.
- change (expand [(op, consumed)]) with (repeat op consumed ++ []). now rewrite app_nil_r.
- apply Nat.ltb_ge in E. replace consumed with 0 by lia. reflexivity.
Qed.

Lemma positive_split_left c i consumed : positive_lengths c -> positive_lengths (split_left c i consumed).
Proof.
intros H. unfold split_left. destruct (nth_error c i) as [[op len]|]; [|constructor].
apply Forall_app. split.
- destruct (0 <? consumed) eqn:E; constructor; [|constructor]. now apply Nat.ltb_lt in E.
- apply positive_rev, positive_firstn, H.
Qed.
Lemma positive_split_right c i consumed : positive_lengths c -> positive_lengths (split_right c i consumed).
Proof.
intros H. unfold split_right. destruct (nth_error c i) as [[op len]|]; [|constructor].
apply Forall_app. split.
- destruct (consumed <? len) eqn:E; constructor; [|constructor]. apply Nat.ltb_lt in E. cbn [snd]. lia.
- apply positive_skipn, H.
Qed.

(* ------------------------------------------------------------------ walking the window *)
(* a block of aligned operations that does not reach the requested number of reference bases is passed *)
Lemma walk_aligned R V : forallb is_aligned V = true -> forall u want rp qp,
  rp + ref_units V < want ->
  prefix_unit R (V ++ u) want rp qp = prefix_unit R u want (rp + ref_units V) (qp + query_units V).
Proof.
induction V as [|o V IH]; intros HV u want rp qp Hlt.
- cbn [app ref_units query_units fold_right]. now rewrite !Nat.add_0_r.
- cbn [forallb] in HV. apply andb_prop in HV as [Ho HV].
  cbn [ref_units query_units fold_right] in *. fold (ref_units V) in *. fold (query_units V) in *.
  cbn [app].
  destruct o; try discriminate; cbn [prefix_unit ref_unit query_unit] in *.
  + destruct (want <=? rp + 1) eqn:E; [apply Nat.leb_le in E; lia|]. rewrite IH by (auto; lia). f_equal; lia.
  + rewrite IH by (auto; lia). f_equal; lia.
  + destruct (want <=? rp + 1) eqn:E; [apply Nat.leb_le in E; lia|]. rewrite IH by (auto; lia). f_equal; lia.
  + destruct (want <=? rp + 1) eqn:E; [apply Nat.leb_le in E; lia|]. rewrite IH by (auto; lia). f_equal; lia.
  + destruct (want <=? rp + 1) eqn:E; [apply Nat.leb_le in E; lia|]. rewrite IH by (auto; lia). f_equal; lia.
Qed.


Lemma walk_clips R u : forallb is_clip u = true -> forall want rp qp, rp < want ->
  prefix_unit R u want rp qp = Some (rp, qp).
Proof.
induction u as [|o u IH]; intros Hu want rp qp Hlt.
- cbn [prefix_unit]. destruct (rp <? want) eqn:E; [reflexivity|apply Nat.ltb_ge in E; lia].
- cbn [forallb] in Hu. apply andb_prop in Hu as [Ho Hu]. destruct o; try discriminate; cbn [prefix_unit]; auto.
Qed.

Lemma walk_clips_then R u1 u2 : forallb is_clip u1 = true -> forall want rp qp,
  prefix_unit R (u1 ++ u2) want rp qp = prefix_unit R u2 want rp qp.
Proof.
induction u1 as [|o u IH]; intros Hu want rp qp; [reflexivity|].
cbn [forallb] in Hu. apply andb_prop in Hu as [Ho Hu]. destruct o; try discriminate; cbn [app prefix_unit]; auto.
Qed.

Lemma walk_end R rest : window_end R rest -> forall want rp qp, rp < want ->
  prefix_unit R rest want rp qp = Some (rp, qp).
Proof.
intros [Hc|(HR & r1 & r2 & -> & Hc)] want rp qp Hlt.
- now apply walk_clips.
- rewrite walk_clips_then by exact Hc. cbn [prefix_unit]. now rewrite HR.
Qed.

(* a flank of matching bases followed by a window end: the walk covers min(|flank|, want - rp) bases *)
Lemma walk_flank R F rest want rp qp :
  forallb is_match F = true -> rp < want ->
  (want <= rp + length F \/ window_end R rest) ->
  prefix_unit R (F ++ rest) want rp qp =
  Some (rp + Nat.min (length F) (want - rp), qp + Nat.min (length F) (want - rp)).
Proof.
revert rp qp. induction F as [|o F IH]; intros rp qp HF Hlt Hend.
- cbn [app length] in *. destruct Hend as [H|H]; [lia|]. rewrite walk_end by auto.
  cbn [Nat.min]. now rewrite !Nat.add_0_r.
- cbn [forallb] in HF. apply andb_prop in HF as [Ho HF]. cbn [app length] in *.
  assert (Hstep : prefix_unit R (o :: F ++ rest) want rp qp =
                  if want <=? rp + 1 then Some (want, qp + 1 + want - (rp + 1))
                  else prefix_unit R (F ++ rest) want (rp + 1) (qp + 1)).
  { destruct o; try discriminate; reflexivity. }
  rewrite Hstep. destruct (want <=? rp + 1) eqn:E.
  + apply Nat.leb_le in E. f_equal. f_equal; lia.
  + apply Nat.leb_gt in E. rewrite IH; auto; try lia.
    * f_equal. f_equal; lia.
    * destruct Hend as [H|H]; [left; lia|now right].
Qed.

(* ------------------------------------------------------------------ edit distance facts (C19) *)
Lemma edist_refl s : edist s s = 0.
Proof. unfold edist. rewrite (edit_distance_is_lev Z Z.eqb Z.eqb_spec). apply (lev_refl Z Z.eqb Z.eqb_spec). Qed.
Lemma edist_pos s t : s <> t -> 0 < edist s t.
Proof.
intros H. unfold edist. rewrite (edit_distance_is_lev Z Z.eqb Z.eqb_spec).
destruct (lev Z.eqb s t) eqn:E; [|lia]. apply (lev_zero_iff_eq Z Z.eqb Z.eqb_spec) in E. contradiction.
Qed.

Lemma decide_first x y : x <> y -> decide (edist x x) (edist x y) = Some 0.
Proof. intros H. unfold decide. rewrite edist_refl. pose proof (edist_pos x y H) as Hp. destruct (0 <? edist x y) eqn:E; [reflexivity|apply Nat.ltb_ge in E; lia]. Qed.
Lemma decide_second x y : x <> y -> decide (edist x y) (edist x x) = Some 1.
Proof.
intros H. unfold decide. rewrite edist_refl. pose proof (edist_pos x y H) as Hp.
destruct (edist x y <? 0) eqn:E; [apply Nat.ltb_lt in E; lia|].
destruct (0 <? edist x y) eqn:E2; [reflexivity|apply Nat.ltb_ge in E2; lia].
Qed.

Lemma forallb_rev {A} (f : A -> bool) l : forallb f (rev l) = forallb f l.
Proof.
induction l as [|x l IH]; [reflexivity|]. cbn [rev forallb]. rewrite forallb_app, IH. cbn [forallb].
rewrite andb_true_r. apply andb_comm.
Qed.

(* ------------------------------------------------------------------ the windows of realign *)
Section Realign.
Variable R : rules.
Variables (reference query : list Z) (overhang : nat) (v : variant) (cig : cigar) (i consumed qpos : nat).
Variables (op : cop) (len : nat).
Variables (pre LM V RM post : list cop).           (* unit operations of the CIGAR around the variant *)
Variables (r1 WL WR r2 q1 q2 al : list Z).          (* shared flanks WL, WR; al = the allele the read carries *)

Hypothesis Hov : 0 < overhang.
Hypothesis Hpos : positive_lengths cig.
Hypothesis Hnth : nth_error cig i = Some (op, len).
Hypothesis Hcons : consumed <= len.
Hypothesis Hleft : firstn (unit_index cig i consumed) (expand cig) = pre ++ LM.
Hypothesis Hright : skipn (unit_index cig i consumed) (expand cig) = V ++ RM ++ post.
Hypothesis HLM : forallb is_match LM = true.
Hypothesis HRM : forallb is_match RM = true.
Hypothesis HV : forallb is_aligned V = true.
Hypothesis HVref : ref_units V = length (vref v).
Hypothesis HVqry : query_units V = length al.
Hypothesis Hlend : overhang <= length LM \/ window_end R (rev pre).
Hypothesis Hrend : overhang <= length RM \/ window_end R post.
Hypothesis Href : reference = r1 ++ WL ++ vref v ++ WR ++ r2.
Hypothesis Hvpos : vpos v = length r1 + length WL.
Hypothesis Hqry : query = q1 ++ WL ++ al ++ WR ++ q2.
Hypothesis HWL : length WL = length LM.
Hypothesis HWR : length WR = length RM.
Hypothesis Hqpos : qpos = length q1 + length WL.

Let l := Nat.min (length LM) overhang.
Let m := Nat.min (length RM) overhang.

Lemma left_window : cigar_prefix_length R (split_left cig i consumed) overhang = Some (l, l).
Proof.
unfold cigar_prefix_length.
rewrite prefix_len_expand by (auto using positive_split_left).
rewrite (expand_split_left cig i op len consumed Hnth Hcons), Hleft, rev_app_distr.
rewrite walk_flank.
- rewrite rev_length, Nat.sub_0_r. reflexivity.
- now rewrite forallb_rev.
- exact Hov.
- rewrite rev_length. destruct Hlend; [left; lia|now right].
Qed.

Lemma right_window :
  cigar_prefix_length R (split_right cig i consumed) (length (vref v) + overhang)
  = Some (length (vref v) + m, length al + m).
Proof.
unfold cigar_prefix_length.
rewrite prefix_len_expand by (auto using positive_split_right; lia).
rewrite (expand_split_right cig i op len consumed Hnth Hcons), Hright.
rewrite walk_aligned by (auto; lia).
rewrite walk_flank.
- cbn [Nat.add]. rewrite HVref, HVqry.
  replace (length (vref v) + overhang - length (vref v)) with overhang by lia. reflexivity.
- exact HRM.
- lia.
- destruct Hrend; [left; lia|now right].
Qed.

Lemma windows_value :
  windows R reference overhang v cig query i consumed qpos =
  let X := skipn (length WL - l) WL in
  let Y := firstn m WR in
  Some (X ++ al ++ Y, X ++ vref v ++ Y, X ++ valt v ++ Y).
Proof.
unfold windows. rewrite left_window, right_window.
assert (Hl : l <= length WL) by (unfold l; lia).
assert (Hm : m <= length WR) by (unfold m; lia).
assert (Hlen : length reference = length r1 + length WL + length (vref v) + length WR + length r2).
{ rewrite Href. rewrite !app_length. lia. }
destruct (l <=? vpos v) eqn:E1; [|apply Nat.leb_gt in E1; lia].
destruct (vpos v + (length (vref v) + m) <=? length reference) eqn:E2; [|apply Nat.leb_gt in E2; lia].
cbn [andb]. cbv zeta.
(* query window *)
assert (Hq : slice query (qpos - l) (qpos + (length al + m)) = skipn (length WL - l) WL ++ al ++ firstn m WR).
{ rewrite Hqry, Hqpos. rewrite slice_app_mid by (rewrite ?app_length; lia).
  f_equal. rewrite firstn_app_2. f_equal. rewrite firstn_app. replace (m - length WR) with 0 by lia.
  cbn [firstn]. now rewrite app_nil_r. }
(* padded reference *)
assert (Hp : slice reference (vpos v - l) (vpos v + (length (vref v) + m)) =
             skipn (length WL - l) WL ++ vref v ++ firstn m WR).
{ rewrite Href, Hvpos. rewrite slice_app_mid by (rewrite ?app_length; lia).
  f_equal. rewrite firstn_app_2. f_equal. rewrite firstn_app. replace (m - length WR) with 0 by lia.
  cbn [firstn]. now rewrite app_nil_r. }
assert (Hlp : slice reference (vpos v - l) (vpos v) = skipn (length WL - l) WL).
{ rewrite Href, Hvpos. replace (length r1 + length WL) with (length r1 + length WL + 0) at 2 by lia.
  rewrite slice_app_mid by lia. cbn [firstn]. now rewrite app_nil_r. }
assert (Hrp : slice reference (vpos v + length (vref v)) (vpos v + (length (vref v) + m)) = firstn m WR).
{ rewrite Href, Hvpos.
  replace (r1 ++ WL ++ vref v ++ WR ++ r2) with ((r1 ++ WL) ++ vref v ++ (WR ++ r2)) by (now rewrite <- !app_assoc).
  replace (length r1 + length WL + length (vref v)) with (length (r1 ++ WL) + length (vref v) - 0)
    by (rewrite app_length; lia).
  replace (length r1 + length WL + (length (vref v) + m)) with (length (r1 ++ WL) + length (vref v) + m)
    by (rewrite app_length; lia).
  rewrite slice_app_mid by (rewrite ?app_length; lia).
  rewrite Nat.sub_0_r, skipn_all. cbn [app]. rewrite firstn_app. replace (m - length WR) with 0 by lia.
  cbn [firstn]. now rewrite app_nil_r. }
rewrite Hq, Hp, Hlp, Hrp. reflexivity.
Qed.

Hypothesis Hdiff : vref v <> valt v.
Hypothesis Hsym : is_symbolic v = false.

Lemma realign_ref_carried : al = vref v ->
  realign R reference overhang v cig query i consumed qpos = Some (Some 0).
Proof.
intros Hal. unfold realign. rewrite Hsym, windows_value. cbv zeta. rewrite Hal.
rewrite decide_first; [reflexivity|].
intros H. apply app_inv_head in H. apply app_inv_tail in H. contradiction.
Qed.

Lemma realign_alt_carried : al = valt v ->
  realign R reference overhang v cig query i consumed qpos = Some (Some 1).
Proof.
intros Hal. unfold realign. rewrite Hsym, windows_value. cbv zeta. rewrite Hal.
rewrite decide_second; [reflexivity|].
intros H. apply app_inv_head in H. apply app_inv_tail in H. congruence.
Qed.

End Realign.

(* realign finds the carried allele (both alleles in one statement) *)
Theorem realign_correct :
  forall (R : rules) (reference query : list Z) (overhang : nat) (v : variant) (cig : cigar)
         (i consumed qpos : nat) (op : cop) (len : nat) (pre LM V RM post : list cop)
         (r1 WL WR r2 q1 q2 : list Z) (carried : nat),
  0 < overhang -> positive_lengths cig ->
  nth_error cig i = Some (op, len) -> consumed <= len ->
  firstn (unit_index cig i consumed) (expand cig) = pre ++ LM ->
  skipn (unit_index cig i consumed) (expand cig) = V ++ RM ++ post ->
  forallb is_match LM = true -> forallb is_match RM = true -> forallb is_aligned V = true ->
  carried <= 1 ->
  ref_units V = length (vref v) -> query_units V = length (get_allele v carried) ->
  (overhang <= length LM \/ window_end R (rev pre)) ->
  (overhang <= length RM \/ window_end R post) ->
  reference = r1 ++ WL ++ vref v ++ WR ++ r2 -> vpos v = length r1 + length WL ->
  query = q1 ++ WL ++ get_allele v carried ++ WR ++ q2 ->
  length WL = length LM -> length WR = length RM ->
  length q1 = query_units pre -> qpos = query_units (pre ++ LM) ->
  vref v <> valt v -> is_symbolic v = false ->
  realign R reference overhang v cig query i consumed qpos = Some (Some carried).
Proof.
intros R reference query overhang v cig i consumed qpos op len pre LM V RM post r1 WL WR r2 q1 q2 carried
       Hov Hpos Hnth Hcons Hleft Hright HLM HRM HV Hc HVr HVq Hle Hre Href Hvp Hq HWL HWR Hq1 Hqpos Hd Hs.
assert (Hqp : qpos = length q1 + length WL).
{ rewrite Hqpos, query_units_app, Hq1, HWL. destruct (units_match LM HLM) as [_ ->]. reflexivity. }
destruct carried as [|[|c]]; [| |lia].
- eapply realign_ref_carried with (al := vref v); eauto.
- eapply realign_alt_carried with (al := valt v); eauto.
Qed.

(* ------------------------------------------------------------------ _iterate_cigar *)
Lemma span_lt_spec vs lim : forall a b, span_lt vs lim = (a, b) ->
  vs = a ++ b /\ Forall (fun jv : ivar => vpos (snd jv) < lim) a /\
  (sorted_pos vs -> Forall (fun jv : ivar => lim <= vpos (snd jv)) b /\ sorted_pos b).
Proof.
induction vs as [|jv r IH]; intros a b H.
- cbn in H. injection H as <- <-. repeat split; constructor.
- cbn [span_lt] in H. destruct (vpos (snd jv) <? lim) eqn:E.
  + destruct (span_lt r lim) as [a' b'] eqn:Es. injection H as <- <-.
    destruct (IH a' b' eq_refl) as (-> & Ha & Hs). apply Nat.ltb_lt in E.
    split; [reflexivity|]. split; [now constructor|].
    intros [_ Hsr]. now apply Hs.
  + injection H as <- <-. apply Nat.ltb_ge in E. split; [reflexivity|]. split; [constructor|].
    intros [Hall Hsr]. split; [|now split].
    constructor; [exact E|]. eapply Forall_impl; [|exact Hall]. cbn. intros; lia.
Qed.

Lemma ref_units_expand_snoc pre op len :
  ref_units (expand (pre ++ [(op, len)])) = ref_units (expand pre) + ref_unit op * len.
Proof.
rewrite expand_app, ref_units_app. f_equal. unfold expand. cbn [flat_map fst snd]. rewrite app_nil_r.
induction len as [|len IH]; [now rewrite Nat.mul_0_r|]. cbn [repeat ref_units fold_right]. fold (ref_units (repeat op len)).
rewrite IH. lia.
Qed.
Lemma query_units_expand_snoc pre op len :
  query_units (expand (pre ++ [(op, len)])) = query_units (expand pre) + query_unit op * len.
Proof.
rewrite expand_app, query_units_app. f_equal. unfold expand. cbn [flat_map fst snd]. rewrite app_nil_r.
induction len as [|len IH]; [now rewrite Nat.mul_0_r|]. cbn [repeat query_units fold_right]. fold (query_units (repeat op len)).
rewrite IH. lia.
Qed.

Lemma nth_error_middle {A} (pre : list A) x post : nth_error (pre ++ x :: post) (length pre) = Some x.
Proof. rewrite nth_error_app2 by lia. now rewrite Nat.sub_diag. Qed.
Lemma firstn_middle {A} (pre : list A) post : firstn (length pre) (pre ++ post) = pre.
Proof. rewrite firstn_app, Nat.sub_diag, firstn_all. cbn [firstn]. now rewrite app_nil_r. Qed.

Lemma iter_cigar_sound start whole : forall cig pre vs j i consumed qpos,
  whole = pre ++ cig ->
  Forall (fun jv : ivar => start + ref_units (expand pre) <= vpos (snd jv)) vs -> sorted_pos vs ->
  In (j, i, consumed, qpos)
     (iter_cigar cig (length pre) vs (start + ref_units (expand pre)) (query_units (expand pre))) ->
  exists v, In (j, v) vs /\ yield_ok start whole (vpos v) (j, i, consumed, qpos).
Proof.
induction cig as [|[op len] cig IH]; intros pre vs j i consumed qpos Hw Hge Hs Hin; [contradiction|].
assert (Hw' : whole = (pre ++ [(op, len)]) ++ cig) by (rewrite <- app_assoc; exact Hw).
assert (Hlen' : length (pre ++ [(op, len)]) = S (length pre)) by (rewrite app_length; cbn; lia).
pose proof (ref_units_expand_snoc pre op len) as Hru.
pose proof (query_units_expand_snoc pre op len) as Hqu.
(* the three shapes of a step *)
assert (Hrec : forall vs', (forall x, In x vs' -> In x vs) -> sorted_pos vs' ->
           Forall (fun jv : ivar => start + ref_units (expand (pre ++ [(op, len)])) <= vpos (snd jv)) vs' ->
           In (j, i, consumed, qpos)
              (iter_cigar cig (S (length pre)) vs' (start + ref_units (expand (pre ++ [(op, len)])))
                          (query_units (expand (pre ++ [(op, len)])))) ->
           exists v, In (j, v) vs /\ yield_ok start whole (vpos v) (j, i, consumed, qpos)).
{ intros vs' Hsub Hs' Hge' Hin'. rewrite <- Hlen' in Hin'.
  destruct (IH _ _ _ _ _ _ Hw' Hge' Hs' Hin') as (v & Hv & Hy). exists v. split; [now apply Hsub|exact Hy]. }
assert (Hhere : forall v, In (j, v) vs -> i = length pre ->
           ((is_match op = true /\ consumed < len /\ vpos v = start + ref_units (expand pre) + consumed /\ qpos = query_units (expand pre) + consumed) \/
            (op = OpD /\ consumed < len /\ vpos v = start + ref_units (expand pre) + consumed /\ qpos = query_units (expand pre)) \/
            (op = OpI /\ consumed = 0 /\ vpos v = start + ref_units (expand pre) /\ qpos = query_units (expand pre))) ->
           exists v, In (j, v) vs /\ yield_ok start whole (vpos v) (j, i, consumed, qpos)).
{ intros v Hv -> Hcase. exists v. split; [exact Hv|]. unfold yield_ok. exists op, len.
  rewrite Hw, nth_error_middle, firstn_middle. split; [reflexivity|]. cbv zeta. exact Hcase. }
cbn [iter_cigar] in Hin.
assert (Hmatch : is_match op = true ->
   In (j, i, consumed, qpos)
     (let (a, rest) := span_lt vs (start + ref_units (expand pre) + len) in
      map (fun jv : ivar => (fst jv, length pre, vpos (snd jv) - (start + ref_units (expand pre)),
                             query_units (expand pre) + (vpos (snd jv) - (start + ref_units (expand pre))))) a
      ++ iter_cigar cig (S (length pre)) rest (start + ref_units (expand pre) + len) (query_units (expand pre) + len)) ->
   exists v, In (j, v) vs /\ yield_ok start whole (vpos v) (j, i, consumed, qpos)).
{ intros Hop Hin'.
  destruct (span_lt vs (start + ref_units (expand pre) + len)) as [a rest] eqn:Esp.
  destruct (span_lt_spec _ _ _ _ Esp) as (Hvs & Ha & Hb). destruct (Hb Hs) as [Hrest Hsrest].
  apply in_app_or in Hin' as [Hin'|Hin'].
  - apply in_map_iff in Hin' as ([j' v] & Heq & Hjv). cbn [fst snd] in Heq. injection Heq as -> <- <- <-.
    assert (Hv : In (j, v) vs) by (rewrite Hvs; apply in_or_app; now left).
    rewrite Forall_forall in Ha, Hge. specialize (Ha _ Hjv). specialize (Hge _ Hv). cbn [snd] in *.
    apply (Hhere v Hv eq_refl). left. repeat split; auto; lia.
  - apply Hrec with (vs' := rest); auto.
    + intros x Hx. rewrite Hvs. apply in_or_app. now right.
    + rewrite Hru. assert (ref_unit op = 1) as -> by (destruct op; try discriminate; reflexivity).
      eapply Forall_impl; [|exact Hrest]. cbn. intros; lia.
    + rewrite Hru, Hqu. assert (ref_unit op = 1) as -> by (destruct op; try discriminate; reflexivity).
      assert (query_unit op = 1) as -> by (destruct op; try discriminate; reflexivity).
      rewrite !Nat.mul_1_l, !Nat.add_assoc. exact Hin'. }
destruct op; try (now apply Hmatch).
- (* I *)
  assert (Hcont : In (j, i, consumed, qpos)
            (iter_cigar cig (S (length pre)) vs (start + ref_units (expand pre)) (query_units (expand pre) + len)) ->
          exists v, In (j, v) vs /\ yield_ok start whole (vpos v) (j, i, consumed, qpos)).
  { intros Hin'. apply Hrec with (vs' := vs); auto.
    - rewrite Hru. cbn [ref_unit]. now rewrite Nat.mul_0_l, Nat.add_0_r.
    - rewrite Hru, Hqu. cbn [ref_unit query_unit]. now rewrite Nat.mul_0_l, Nat.add_0_r, Nat.mul_1_l. }
  destruct vs as [|[j' v'] rest]; [now apply Hcont|].
  cbn [snd fst] in Hin. destruct (vpos v' =? start + ref_units (expand pre)) eqn:E; [|now apply Hcont].
  apply Nat.eqb_eq in E. destruct Hin as [Heq|Hin].
  + injection Heq as <- <- <- <-. apply (Hhere v' (or_introl eq_refl) eq_refl). right. right. auto.
  + apply Hrec with (vs' := rest); auto.
    * intros x Hx. now right.
    * now destruct Hs.
    * rewrite Hru. cbn [ref_unit]. rewrite Nat.mul_0_l, Nat.add_0_r. now inversion Hge.
    * rewrite Hru, Hqu. cbn [ref_unit query_unit]. now rewrite Nat.mul_0_l, Nat.add_0_r, Nat.mul_1_l.
- (* D *)
  destruct (span_lt vs (start + ref_units (expand pre) + len)) as [a rest] eqn:Esp.
  destruct (span_lt_spec _ _ _ _ Esp) as (Hvs & Ha & Hb). destruct (Hb Hs) as [Hrest Hsrest].
  apply in_app_or in Hin as [Hin|Hin].
  + apply in_map_iff in Hin as ([j' v] & Heq & Hjv). cbn [fst snd] in Heq. injection Heq as -> <- <- <-.
    assert (Hv : In (j, v) vs) by (rewrite Hvs; apply in_or_app; now left).
    rewrite Forall_forall in Ha, Hge. specialize (Ha _ Hjv). specialize (Hge _ Hv). cbn [snd] in *.
    apply (Hhere v Hv eq_refl). right. left. repeat split; auto; lia.
  + apply Hrec with (vs' := rest); auto.
    * intros x Hx. rewrite Hvs. apply in_or_app. now right.
    * rewrite Hru. cbn [ref_unit]. rewrite Nat.mul_1_l. eapply Forall_impl; [|exact Hrest]. cbn. intros; lia.
    * rewrite Hru, Hqu. cbn [ref_unit query_unit]. now rewrite Nat.mul_1_l, Nat.mul_0_l, Nat.add_0_r, !Nat.add_assoc.
- (* N *)
  unfold skip_lt in Hin.
  destruct (span_lt vs (start + ref_units (expand pre) + len)) as [a rest] eqn:Esp.
  destruct (span_lt_spec _ _ _ _ Esp) as (Hvs & Ha & Hb). destruct (Hb Hs) as [Hrest Hsrest].
  cbn [snd] in Hin. apply Hrec with (vs' := rest); auto.
  + intros x Hx. rewrite Hvs. apply in_or_app. now right.
  + rewrite Hru. cbn [ref_unit]. rewrite Nat.mul_1_l. eapply Forall_impl; [|exact Hrest]. cbn. intros; lia.
  + rewrite Hru, Hqu. cbn [ref_unit query_unit]. now rewrite Nat.mul_1_l, Nat.mul_0_l, Nat.add_0_r, !Nat.add_assoc.
- (* S *)
  apply Hrec with (vs' := vs); auto.
  + rewrite Hru. cbn [ref_unit]. now rewrite Nat.mul_0_l, Nat.add_0_r.
  + rewrite Hru, Hqu. cbn [ref_unit query_unit]. now rewrite Nat.mul_0_l, Nat.add_0_r, Nat.mul_1_l.
- (* H *)
  apply Hrec with (vs' := vs); auto.
  + rewrite Hru. cbn [ref_unit]. now rewrite Nat.mul_0_l, Nat.add_0_r.
  + rewrite Hru, Hqu. cbn [ref_unit query_unit]. now rewrite !Nat.mul_0_l, !Nat.add_0_r.
- (* P *)
  apply Hrec with (vs' := vs); auto.
  + rewrite Hru. cbn [ref_unit]. now rewrite Nat.mul_0_l, Nat.add_0_r.
  + rewrite Hru, Hqu. cbn [ref_unit query_unit]. now rewrite !Nat.mul_0_l, !Nat.add_0_r.
Qed.

Lemma ref_units_repeat op len : ref_units (repeat op len) = ref_unit op * len.
Proof. induction len as [|len IH]; [now rewrite Nat.mul_0_r|]. cbn [repeat ref_units fold_right]. fold (ref_units (repeat op len)). rewrite IH. lia. Qed.

Lemma ref_units_nth cig i op len : nth_error cig i = Some (op, len) ->
  ref_units (expand (firstn i cig)) + ref_unit op * len <= ref_units (expand cig).
Proof.
intros Hn. rewrite (nth_error_split_cigar cig i op len Hn) at 2.
rewrite expand_app, ref_units_app.
change (expand ((op, len) :: skipn (S i) cig)) with (repeat op len ++ expand (skipn (S i) cig)).
rewrite ref_units_app, ref_units_repeat. lia.
Qed.

(* every yield of _iterate_cigar belongs to a variant of the list, describes its position exactly, and that
   position lies within the reference span of the alignment *)
Theorem iterate_cigar_sound : forall (vs : list ivar) (start : nat) (cig : cigar) (j i consumed qpos : nat),
  sorted_pos vs ->
  In (j, i, consumed, qpos) (iterate_cigar vs start cig) ->
  exists v, In (j, v) vs /\ yield_ok start cig (vpos v) (j, i, consumed, qpos) /\
            start <= vpos v /\ vpos v <= start + ref_units (expand cig) /\
            (vpos v < start + ref_units (expand cig) \/ exists len, nth_error cig i = Some (OpI, len)).
Proof.
intros vs start cig j i consumed qpos Hs Hin. unfold iterate_cigar, skip_lt in Hin.
destruct (span_lt vs start) as [a rest] eqn:Esp.
destruct (span_lt_spec _ _ _ _ Esp) as (Hvs & _ & Hb). destruct (Hb Hs) as [Hrest Hsrest]. cbn [snd] in Hin.
destruct (iter_cigar_sound start cig cig [] rest j i consumed qpos eq_refl) as (v & Hv & Hy); auto.
{ cbn. eapply Forall_impl; [|exact Hrest]. cbn. intros; lia. }
{ cbn. rewrite Nat.add_0_r. exact Hin. }
exists v. split; [rewrite Hvs; apply in_or_app; now right|]. split; [exact Hy|].
destruct Hy as (op & len & Hn & Hcase). cbv zeta in Hcase.
pose proof (ref_units_nth cig i op len Hn) as Hle.
destruct Hcase as [(Hop & Hc & Hp & _)|[(-> & Hc & Hp & _)|(-> & Hc & Hp & _)]].
- assert (ref_unit op = 1) as Hu by (destruct op; try discriminate; reflexivity). rewrite Hu in Hle.
  split; [lia|]. split; [lia|]. left. lia.
- cbn [ref_unit] in Hle. split; [lia|]. split; [lia|]. left. lia.
- cbn [ref_unit] in Hle. split; [lia|]. split; [lia|]. right. now exists len.
Qed.
