(* C08, part 1: the table bookkeeping of GenotypeDPTable (scaling sums, sqrt check-pointing of the
   backward projection columns, their re-computation during the forward pass) is transparent:
   whenever the run reports no error, every likelihood it outputs is the quotient Nm phi / Nm top of
   the *unscaled* forward / backward projection recursions (fwdx / bwdx below) over the same column
   contexts.  Nothing here depends on what the local factors cc_W / cc_L / cc_T mean.
   ssreflect / bigop style. *)
From mathcomp Require Import all_ssreflect all_algebra.
From WH.Model Require Import GenotypeHMM.
From WH.Proofs Require Import SemiringDP GenotypeHMMBasics.
Set Implicit Arguments.
Unset Strict Implicit.
Unset Printing Implicit Defensive.
Import GRing.Theory.
Local Open Scope ring_scope.

Section Run.
Variable K : fieldType.
Variable P : ped.
Variable genof : nat -> nat -> nat -> nat.
Let tn := ntrans P.
Let na := nassign P.
Let ts := iota 0 tn.

Local Notation divK := (fun x y : K => x / y).
Local Notation subK := (fun x y : K => x - y).
Local Notation eq0K := (fun x : K => x == 0).
Local Notation cctxK := (cctx K).
Local Notation dccK := (@dcc K 0).
Local Notation memoK := (@memo K 0).
Local Notation tscaleK := (@tscale K 0 divK P).
Local Notation bcolK := (@bcol K 0 1 +%R *%R P).
Local Notation fcolK := (@fcol K 0 1 +%R *%R divK eq0K P genof).

(* ---------------------------------------------------------------- unscaled recursions *)
Fixpoint bwdx (suffix : seq cctxK) : seq bool -> nat -> K :=
  if suffix is cc :: rest then
    fun sigma j =>
      \sum_(x <- bits (cc_k cc) | take (cc_bpw cc) x == sigma)
        \sum_(i <- ts) bwdx rest (mask (cc_fmask cc) x) i * cc_L cc x i * cc_T cc j i
  else fun _ _ => 1.

(* mass entering column cc at (x, i) given the forward projection column fw of the columns rp before it *)
Definition prex (rp : seq cctxK) (fw : seq bool -> nat -> K) (cc : cctxK) (x : seq bool) (i : nat) : K :=
  if rp is [::] then 1 else \sum_(j <- ts) fw (take (cc_bpw cc) x) j * cc_T cc j i.

(* rp = reversed prefix of columns (head = the latest one) *)
Fixpoint fwdx (rp : seq cctxK) : seq bool -> nat -> K :=
  if rp is cc :: rp' then
    fun sigma i =>
      \sum_(x <- bits (cc_k cc) | mask (cc_fmask cc) x == sigma) prex rp' (fwdx rp') cc x i * cc_L cc x i
  else fun _ _ => 1.

Variable ccs : seq cctxK.
Let n := size ccs.
Local Notation cc_ c := (nth dccK ccs c).

(* Nm phi = mass of (i, a) satisfying phi at column c *)
Definition Nm (c : nat) (phi : nat -> nat -> bool) : K :=
  \sum_(i <- ts) \sum_(a <- iota 0 na | phi i a) \sum_(x <- bits (cc_k (cc_ c)))
     prex (rev (take c ccs)) (fwdx (rev (take c ccs))) (cc_ c) x i * cc_W (cc_ c) x i a
     * bwdx (drop c.+1 ccs) (mask (cc_fmask (cc_ c)) x) i.

(* shapes: projection widths fit together *)
Definition shape_ok : Prop :=
  forall c, (c < n)%N ->
    [/\ size (cc_fmask (cc_ c)) = cc_k (cc_ c), (cc_bpw (cc_ c) <= cc_k (cc_ c))%N
      & (c.+1 < n)%N -> cc_fw (cc_ c) = cc_bpw (cc_ c.+1)].
Hypothesis shape : shape_ok.

Lemma size_fproj c (x : seq bool) : (c < n)%N -> size x = cc_k (cc_ c) -> size (mask (cc_fmask (cc_ c)) x) = cc_fw (cc_ c).
Proof. by move=> hc hx; case: (shape hc) => hm _ _; rewrite size_mask ?hm. Qed.

Lemma size_bproj c (x : seq bool) : (c < n)%N -> size x = cc_k (cc_ c) -> size (take (cc_bpw (cc_ c)) x) = cc_bpw (cc_ c).
Proof.
move=> hc hx; case: (shape hc) => _ hb _; rewrite size_take hx.
by case: ltnP => // h; apply/eqP; rewrite eqn_leq h hb.
Qed.

(* ---------------------------------------------------------------- one backward column *)
(* t is a nonzero multiple of the exact backward projection column of column c *)
Definition Bgood (c : nat) (t : seq bool -> nat -> K) : Prop :=
  exists2 lam : K, lam != 0 &
    forall sigma j, size sigma = cc_fw (cc_ c) -> (j < tn)%N -> t sigma j = lam * bwdx (drop c.+1 ccs) sigma j.

Lemma bcol_spec c last prevB lam :
  (c < n)%N ->
  (forall x i, size x = cc_k (cc_ c) -> (i < tn)%N ->
     (if last then 1 else prevB (mask (cc_fmask (cc_ c)) x) i)
     = lam * bwdx (drop c.+1 ccs) (mask (cc_fmask (cc_ c)) x) i) ->
  forall sigma j, (j < tn)%N ->
    (bcolK (cc_ c) last prevB).1 sigma j = lam * bwdx (drop c ccs) sigma j.
Proof.
move=> hc hB sigma j hj.
rewrite (drop_nth dccK hc) /= /bcol /= fsum_mapf bitvecsE big_distrr /=.
apply: eq_sum_seq_cond => x; rewrite mem_bitsE => /eqP hx _.
rewrite fsum_map big_distrr /=; apply: eq_big_seq => i; rewrite mem_iota add0n => /andP[_ hi].
by rewrite memoE // hB // !mulrA.
Qed.

Opaque bcol.

(* ---------------------------------------------------------------- the table of backward columns *)
Local Notation bstateK := (bstate K).
Local Notation bstepK := (@bstep K 0 1 +%R *%R divK eq0K P ccs).
Local Notation bpassK := (@bpass K 0 1 +%R *%R divK eq0K P ccs).
Local Notation bensureK := (@bensure K 0 1 +%R *%R divK eq0K P ccs).
Local Notation fstepK := (@fstep K 0 1 +%R *%R divK eq0K P genof ccs).

Definition bt_good (b : seq (option (seq bool -> nat -> K))) : Prop :=
  size b = n /\ forall c t, (c.+1 < n)%N -> nth None b c = Some t -> Bgood c t.
Definition Bt_ok (st : bstateK) : Prop := bt_good (bt st) /\ size (sc st) = n.

Lemma bt_good_set b d t :
  bt_good b -> (d < n)%N -> ((d.+1 < n)%N -> Bgood d t) -> bt_good (set_nth None b d (Some t)).
Proof.
move=> [hs hg] hd ht; split; first by rewrite size_set_nth hs; apply/maxn_idPr.
move=> c t' hc; rewrite nth_set_nth /=; case: eqP => [e|_]; last exact: hg.
by case=> <-; rewrite e; apply: ht; rewrite -e.
Qed.

Lemma bt_good_setN b d : bt_good b -> (d < n)%N -> bt_good (set_nth None b d None).
Proof.
move=> [hs hg] hd; split; first by rewrite size_set_nth hs; apply/maxn_idPr.
by move=> c t' hc; rewrite nth_set_nth /=; case: eqP => [_|_] //; apply: hg.
Qed.

Lemma tscale_good c t s :
  s != 0 -> Bgood c t -> Bgood c (tscaleK (cc_fw (cc_ c)) t s).
Proof.
move=> hs [lam hl ht]; exists (lam / s); first by rewrite mulf_neq0 ?invr_eq0.
move=> sigma j hsg hj; rewrite /tscale memoE // ht //.
by rewrite mulrAC.
Qed.

Lemma bstep_ok c st :
  (c < n)%N -> Bt_ok st ->
  (c.+1 == n) || isSome (nth None (bt st) c) ->
  err (bstepK c st) = false ->
  [/\ Bt_ok (bstepK c st), err st = false,
      (0 < c)%N -> isSome (nth None (bt (bstepK c st)) c.-1)
    & forall d, isSome (nth None (bt st) d) -> isSome (nth None (bt (bstepK c st)) d)].
Proof.
move=> hc [hgood hss] havail.
case hearly: ((0 < c)%N && isSome (nth None (bt st) c.-1)).
  by rewrite /bstep hearly => he; split=> //; case/andP: hearly.
have [prevB hsel [lam hlam hB]] : exists2 prevB,
    (if c.+1 == n then Some (fun _ _ => 1) else nth None (bt st) c) = Some prevB &
    (exists2 lam : K, lam != 0 & forall x i, size x = cc_k (cc_ c) -> (i < tn)%N ->
       (if c.+1 == n then 1 else prevB (mask (cc_fmask (cc_ c)) x) i)
        = lam * bwdx (drop c.+1 ccs) (mask (cc_fmask (cc_ c)) x) i).
  case hl: (c.+1 == n).
    exists (fun _ _ => 1) => //; exists 1; first exact: oner_neq0.
    by move=> x i _ _; rewrite drop_oversize ?mul1r // -/n -(eqP hl).
  move: havail; rewrite hl /=; case hbt: (nth None (bt st) c) => [t|] // _.
  exists t => //.
  have hc1 : (c.+1 < n)%N by rewrite ltn_neqAle hl hc.
  case: hgood => _ /(_ c t hc1 hbt) [lam hlam ht]; exists lam => // x i hx hi.
  by rewrite ht // size_fproj.
rewrite /bstep hearly hsel /=.
set cs := bcolK (cc_ c) (c.+1 == n) prevB.
move/negbT; rewrite negb_or => /andP[/negbTE he hs].
have hcur : forall sigma j, (j < tn)%N -> cs.1 sigma j = lam * bwdx (drop c ccs) sigma j.
  exact: bcol_spec.
set bt1 := (if c.+1 == n then _ else _).
have hbt1 : bt_good bt1.
  rewrite /bt1; case hl: (c.+1 == n) => //.
  apply: bt_good_set => // hc1; apply: tscale_good => //.
  move: hsel; rewrite hl => hbt.
  by case: hgood => _ /(_ c prevB hc1 hbt).
have hmono1 : forall d, isSome (nth None (bt st) d) -> isSome (nth None bt1 d).
  by rewrite /bt1 => d; case: ifP => // _; rewrite nth_set_nth /=; case: eqP.
split=> //.
- split=> /=; last by rewrite size_set_nth hss; apply/maxn_idPr.
  case h0: (0 < c)%N => //.
  have hc' : (c.-1 < n)%N by apply: leq_ltn_trans hc; exact: leq_pred.
  apply: bt_good_set => // hc1.
  exists (lam / cs.2); first by rewrite mulf_neq0 ?invr_eq0.
  move=> sigma j hsg hj; rewrite /tscale memoE //.
    by rewrite hcur // prednK // mulrAC.
  by case: (shape hc') => _ _; rewrite prednK // => /(_ hc) <-.
- by move=> h0 /=; rewrite h0 nth_set_nth /= eqxx.
- move=> d hd /=; case: ifP => _; last exact: hmono1.
  by rewrite nth_set_nth /=; case: eqP => // _; apply: hmono1.
Qed.

Lemma bstep_err c st : err (bstepK c st) = false -> err st = false.
Proof.
rewrite /bstep; case: ifP => // _.
case: (if _ then _ else _) => [prevB|] //=.
by move/negbT; rewrite negb_or => /andP[/negbTE].
Qed.

Lemma bsteps_err l st : err (foldr (fun i st => bstepK i st) st l) = false -> err st = false.
Proof. by elim: l => //= i l IH /bstep_err. Qed.

(* a run of backward steps for the columns lo + d - 1, ..., lo *)
Lemma bsteps_ok d lo st :
  (lo + d <= n)%N -> Bt_ok st ->
  ((0 < d)%N -> (lo + d == n)%N || isSome (nth None (bt st) (lo + d)%N.-1)) ->
  err (foldr (fun i st => bstepK i st) st (iota lo d)) = false ->
  let st' := foldr (fun i st => bstepK i st) st (iota lo d) in
  [/\ Bt_ok st', err st = false,
      (0 < d)%N -> (0 < lo)%N -> isSome (nth None (bt st') lo.-1)
    & forall e, isSome (nth None (bt st) e) -> isSome (nth None (bt st') e)].
Proof.
elim: d lo st => [|d IH] lo st hle hok hav /= herr; first by split.
have hin := bstep_err herr.
have hle' : (lo.+1 + d <= n)%N by rewrite addSnnS.
have hav' : (0 < d)%N -> (lo.+1 + d == n)%N || isSome (nth None (bt st) (lo.+1 + d)%N.-1).
  by move=> _; rewrite addSnnS; apply: hav.
case: (IH lo.+1 st hle' hok hav' hin) => hok1 he1 hcr1 hmono1.
have hlo : (lo < n)%N by apply: leq_trans hle; rewrite addnS ltnS leq_addr.
have hav1 : (lo.+1 == n) ||
    isSome (nth None (bt (foldr (fun i st => bstepK i st) st (iota lo.+1 d))) lo).
  case: d {IH hle hle' hav' herr hin hok1 he1 hmono1} hav hcr1 => [|d] hav hcr1 /=.
    by move: (hav isT); rewrite addn1.
  by rewrite (hcr1 isT isT) orbT.
case: (bstep_ok hlo hok1 hav1 herr) => hok2 _ hcr2 hmono2.
split=> //; try by move=> _; apply: hcr2.
by move=> e he; apply: hmono2; apply: hmono1.
Qed.

(* ---------------------------------------------------------------- the backward pass *)
Definition avail (k c : nat) (st : bstateK) : Prop :=
  forall e, (c <= e)%N -> (e.+1 < n)%N -> (k <= 1)%N || (e %% k == 0)%N -> isSome (nth None (bt st) e).

Local Notation bpass_step k :=
  (fun c (st : bstateK) => let st' := bstepK c st in
     if (1 < k)%N && (c.+1 < n)%N && (c.+1 %% k != 0)%N then bdrop c.+1 st' else st').

Lemma bpass_steps_ok k d lo st :
  (lo + d = n)%N -> Bt_ok st ->
  err (foldr (bpass_step k) st (iota lo d)) = false ->
  let st' := foldr (bpass_step k) st (iota lo d) in
  [/\ Bt_ok st', err st = false,
      (0 < d)%N -> (0 < lo)%N -> isSome (nth None (bt st') lo.-1)
    & (0 < d)%N -> avail k lo st'].
Proof.
elim: d lo st => [|d IH] lo st hle hok /= herr; first by split.
set inner := foldr (bpass_step k) st (iota lo.+1 d) in herr *.
have hin : err inner = false.
  by move: herr; case: ifP => _ /=; move/bstep_err.
have hle' : (lo.+1 + d = n)%N by rewrite addSnnS.
case: (IH lo.+1 st hle' hok hin) => hok1 he1 hcr1 hav1; rewrite -/inner in hok1 hcr1 hav1.
have hlo : (lo < n)%N by rewrite -hle addnS ltnS leq_addr.
have havl : (lo.+1 == n) || isSome (nth None (bt inner) lo).
  case: (posnP d) => [d0|dpos]; first by rewrite -hle d0 addn1 eqxx.
  by rewrite (hcr1 dpos isT) orbT.
have herr2 : err (bstepK lo inner) = false.
  by move: herr; case: ifP.
case: (bstep_ok hlo hok1 havl herr2) => hok2 _ hcr2 hmono2.
have hav2 : avail k lo (bstepK lo inner) /\
    (forall e, (lo.+1 < e)%N -> isSome (nth None (bt inner) e) -> isSome (nth None (bt (bstepK lo inner)) e)).
  split=> [e hloe he hk|e _]; last exact: hmono2.
  move: hloe he hk; rewrite leq_eqVlt => /orP[/eqP<-|hlt] he hk.
    have : (lo.+1 == n) = false by apply/negbTE; rewrite neq_ltn he.
    by move=> h; move: havl; rewrite h /= => /hmono2.
  case: (posnP d) => [d0|dpos].
    by move: he; rewrite -hle d0 addn1 ltnS => he'; move: (ltn_trans hlt he'); rewrite ltnn.
  by apply: hmono2; apply: (hav1 dpos).
case: hav2 => hav2 _.
case hcond: ((1 < k)%N && (lo.+1 < n)%N && (lo.+1 %% k != 0)%N); last by split.
case/andP: hcond => /andP[hk1 hlo1] hmod.
split=> //=.
- case: hok2 => hg hs; split=> //=; exact: bt_good_setN.
- move=> _ h0; rewrite nth_set_nth /=; case: eqP => [e|_]; last exact: hcr2.
  by move: (leq_pred lo); rewrite e ltnn.
- move=> _ e hloe he hk; rewrite nth_set_nth /=; case: eqP => [ee|_]; last exact: hav2.
  by move: hk; rewrite ee leqNgt hk1 /= (negbTE hmod).
Qed.

Lemma bpass_ok k :
  let st0 := BState (nseq n None) (nseq n (0 - 1 : K)) false in
  err (bpassK k st0) = false ->
  Bt_ok (bpassK k st0) /\ avail k 0 (bpassK k st0).
Proof.
move=> st0; rewrite /bpass foldl_rev -/n => herr.
have hok0 : Bt_ok st0.
  split; last by rewrite /= size_nseq.
  split; first by rewrite /= size_nseq.
  by move=> c t _ /=; rewrite nth_nseq; case: ifP.
case: (@bpass_steps_ok k n 0 st0 (add0n n) hok0 herr) => hok _ _ hav; split=> //.
case: (posnP n) => [n0|npos]; last exact: hav.
by move=> e _; rewrite n0.
Qed.

(* ---------------------------------------------------------------- making a backward column available *)
Lemma bensure_err k c st : err (bensureK k c st) = false -> err st = false.
Proof.
rewrite /bensure; case: ifP => // _; case: (nth None (bt st) c) => // .
rewrite foldl_rev; case: (nth None _ c) => [t|] //=.
by move/negbT; rewrite negb_or => /andP[/negbTE /bsteps_err].
Qed.

Lemma bensure_ok k c st :
  (0 < k)%N -> (c.+1 < n)%N -> Bt_ok st -> avail k c st ->
  err (bensureK k c st) = false ->
  [/\ Bt_ok (bensureK k c st), isSome (nth None (bt (bensureK k c st)) c)
    & forall e, isSome (nth None (bt st) e) -> isSome (nth None (bt (bensureK k c st)) e)].
Proof.
move=> hk hc hok hav; rewrite /bensure hc.
case hbt: (nth None (bt st) c) => [t|]; first by move=> _; split=> //; rewrite hbt.
rewrite foldl_rev.
set m := ((c + k) %/ k * k)%N; set next := minn m n.-1.
have hcm : (c < m)%N.
  have := divn_eq (c + k) k; rewrite -/m => e.
  have hr : ((c + k) %% k < k)%N by rewrite ltn_pmod.
  by rewrite -(ltn_add2r k) {1}e ltn_add2l.
have hcn : (c < n.-1)%N by rewrite -ltnS prednK // (leq_trans _ hc).
have hcnext : (c < next)%N by rewrite /next leq_min hcm hcn.
have hnext : (next.+1 <= n)%N.
  by rewrite -[X in (_ <= X)%N](@prednK n) ?ltnS ?geq_minr // (leq_trans _ hc).
have hd : (c.+1 + (next - c) = next.+1)%N by rewrite addSn subnKC // ltnW.
set st' := foldr _ st _.
move=> herr.
have herr' : err st' = false.
  move: herr; case: (nth None (bt st') c) => [t|] //=.
  by move/negbT; rewrite negb_or => /andP[/negbTE].
have hav' : (0 < next - c)%N ->
    (c.+1 + (next - c) == n)%N || isSome (nth None (bt st) (c.+1 + (next - c))%N.-1).
  move=> _; rewrite hd /=.
  rewrite /next; case: (leqP m n.-1) => hmn.
    case: (ltngtP m n.-1) hmn => // [hlt _|-> _]; last first.
      by rewrite prednK ?eqxx // (leq_trans _ hc).
    rewrite hav ?orbT //; first exact: ltnW.
      by rewrite -ltn_predRL.
    by rewrite /m modnMl eqxx orbT.
  by rewrite prednK ?eqxx // (leq_trans _ hc).
have hle : (c.+1 + (next - c) <= n)%N by rewrite hd.
case: (@bsteps_ok (next - c) c.+1 st hle hok hav' herr') => hok1 _ hcr1 hmono1.
rewrite -/st' in hok1 hcr1 hmono1.
have hsome : isSome (nth None (bt st') c) by apply: hcr1 => //; rewrite subn_gt0.
move: herr; case hbt': (nth None (bt st') c) hsome => [t|] // _ /=.
move/negbT; rewrite negb_or => /andP[_ hs].
split=> /=.
- case: hok1 => hg hsz; split=> //=.
  apply: bt_good_set => //; first exact: ltnW.
  move=> _; apply: tscale_good => //.
  by case: hg => _ /(_ c t hc hbt').
- by rewrite nth_set_nth /= eqxx.
- by move=> e /hmono1 he; rewrite nth_set_nth /=; case: eqP.
Qed.

(* ---------------------------------------------------------------- one forward column *)
Definition phi_g (ind g : nat) : nat -> nat -> bool := fun i a => genof i a ind == g.
Definition post (c ind g : nat) : K := Nm c (phi_g ind g) / Nm c (fun _ _ => true).

Lemma fcol_spec c prevF B s mu lam :
  (c < n)%N -> s != 0 -> mu != 0 -> lam != 0 ->
  (forall x i, size x = cc_k (cc_ c) -> (i < tn)%N ->
     (if c == 0%N then 1 else \sum_(j <- ts) prevF (take (cc_bpw (cc_ c)) x) j * cc_T (cc_ c) j i)
     = mu * prex (rev (take c ccs)) (fwdx (rev (take c ccs))) (cc_ c) x i) ->
  (forall x i, size x = cc_k (cc_ c) -> (i < tn)%N ->
     (if c.+1 == n then 1 else B (mask (cc_fmask (cc_ c)) x) i)
     = lam * bwdx (drop c.+1 ccs) (mask (cc_fmask (cc_ c)) x) i) ->
  let r := fcolK (cc_ c) (c == 0%N) (c.+1 == n) prevF B s in
  r.2 = false ->
  [/\ forall sigma i, size sigma = cc_fw (cc_ c) -> (i < tn)%N ->
        r.1.1 sigma i = (mu / s) * fwdx (rev (take c.+1 ccs)) sigma i,
      Nm c (fun _ _ => true) != 0
    & forall ind g, (ind < p_nind P)%N -> (g < 3)%N ->
        nth 0 (nth [::] r.1.2 ind) g = post c ind g].
Proof.
move=> hc hs hmu hlam hF hB.
rewrite /fcol /= -/tn -/na -/ts.
set sumprev := memoK (cc_k (cc_ c)) tn _.
set fprob := memo3 _ _ _ _ _.
set M := memo_nat2 _ _ _ _.
have hsp : forall x i, size x = cc_k (cc_ c) -> (i < tn)%N ->
    sumprev x i = mu / s * prex (rev (take c ccs)) (fwdx (rev (take c ccs))) (cc_ c) x i.
  move=> x i hx hi; rewrite /sumprev memoE // mulrAC -hF //.
  by case: ifP => _ //; rewrite fsum_map.
pose Q i a := \sum_(x <- bits (cc_k (cc_ c)))
     prex (rev (take c ccs)) (fwdx (rev (take c ccs))) (cc_ c) x i * cc_W (cc_ c) x i a
     * bwdx (drop c.+1 ccs) (mask (cc_fmask (cc_ c)) x) i.
have hM : forall i a, (i < tn)%N -> (a < na)%N -> M i a = (mu / s * lam) * Q i a.
  move=> i a hi ha; rewrite /M memo_nat2E // fsum_map bitvecsE /Q big_distrr /=.
  apply: eq_big_seq => x; rewrite mem_bitsE => /eqP hx.
  rewrite /fprob memo3E // hsp // hB //.
  rewrite -!mulrA; congr (_ * _); congr (_ * _).
  by rewrite [RHS]mulrCA; congr (_ * _); rewrite mulrCA.
have hkap : mu / s * lam != 0 by rewrite !mulf_neq0 ?invr_eq0.
have hsum : forall phi : nat -> nat -> bool,
    fsum 0 +%R [seq fsum 0 +%R [seq M i a | a <- iota 0 na & phi i a] | i <- ts]
    = (mu / s * lam) * Nm c phi.
  move=> phi; rewrite fsum_map /Nm big_distrr /=.
  apply: eq_big_seq => i; rewrite mem_iota add0n => /andP[_ hi].
  rewrite fsum_mapf big_distrr /=.
  apply: eq_sum_seq_cond => a; rewrite mem_iota add0n => /andP[_ ha] _.
  by rewrite hM.
have hden : fsum 0 +%R [seq fsum 0 +%R [seq M i a | a <- iota 0 na] | i <- ts]
        = (mu / s * lam) * Nm c (fun _ _ => true).
  by rewrite -hsum; congr fsum; apply: eq_map => i; rewrite filter_predT.
move=> hnorm; split.
- move=> sigma i hsg hi; rewrite memoE // fsum_mapf bitvecsE.
  rewrite (take_nth dccK hc) rev_rcons /= big_distrr /=.
  apply: eq_sum_seq_cond => x; rewrite mem_bitsE => /eqP hx _.
  by rewrite hsp // mulrA.
- by move: hnorm; rewrite hden mulf_eq0 (negbTE hkap) /= => ->.
- move=> ind g hind hg.
  rewrite (nth_map 0%N) ?size_iota // nth_iota // add0n.
  by case: g hg => [|[|[|g]]] //= _;
     rewrite hden (hsum (phi_g ind _)) /post -mulf_div divff // mul1r.
Qed.

Opaque fcol.

(* ---------------------------------------------------------------- the forward pass *)
Local Notation fstateK := (fstate K).
Definition out_at (o : seq (seq (seq K))) (c ind g : nat) : K := nth 0 (nth [::] (nth [::] o c) ind) g.

Definition Inv_f (k c : nat) (fs : fstateK) : Prop :=
  [/\ Bt_ok (f_b fs),
      (0 < c)%N -> exists2 mu : K, mu != 0 &
         forall sigma j, size sigma = cc_fw (cc_ c.-1) -> (j < tn)%N ->
           f_prev fs sigma j = mu * fwdx (rev (take c ccs)) sigma j,
      avail k c (f_b fs),
      size (f_out fs) = c
    & forall c', (c' < c)%N -> Nm c' (fun _ _ => true) != 0 /\
        forall ind g, (ind < p_nind P)%N -> (g < 3)%N -> out_at (f_out fs) c' ind g = post c' ind g].

Lemma fstep_err k fs c : err (f_b (fstepK k fs c)) = false -> err (f_b fs) = false.
Proof.
rewrite /fstep; case: (if _ then _ else _) => [B|] //=.
by move/negbT; rewrite !negb_or => /andP[/andP[/negbTE /bensure_err]].
Qed.

Lemma fsteps_err k l fs : err (f_b (foldl (fstepK k) fs l)) = false -> err (f_b fs) = false.
Proof. by elim: l fs => //= c l IH fs /IH /fstep_err. Qed.

Lemma fstep_ok k c fs :
  (0 < k)%N -> (c < n)%N -> Inv_f k c fs ->
  err (f_b (fstepK k fs c)) = false -> Inv_f k c.+1 (fstepK k fs c).
Proof.
move=> hk hc [hok hprev hav hsz hout] herr.
have herr1 : err (bensureK k c (f_b fs)) = false.
  move: herr; rewrite /fstep; case: (if _ then _ else _) => [B|] //=.
  by move/negbT; rewrite !negb_or => /andP[/andP[/negbTE]].
set st := bensureK k c (f_b fs) in herr1.
have [hok1 hsome1 hmono1] : [/\ Bt_ok st, (c.+1 < n)%N -> isSome (nth None (bt st) c)
     & forall e, isSome (nth None (bt (f_b fs)) e) -> isSome (nth None (bt st) e)].
  case hc1: (c.+1 < n)%N.
    by case: (bensure_ok hk hc1 hok hav herr1).
  by rewrite /st /bensure hc1; split.
have [B hselB [lam hlam hB]] : exists2 B,
    (if c.+1 == n then Some (fun _ _ => 1) else nth None (bt st) c) = Some B &
    (exists2 lam : K, lam != 0 & forall x i, size x = cc_k (cc_ c) -> (i < tn)%N ->
       (if c.+1 == n then 1 else B (mask (cc_fmask (cc_ c)) x) i)
        = lam * bwdx (drop c.+1 ccs) (mask (cc_fmask (cc_ c)) x) i).
  case hl: (c.+1 == n).
    exists (fun _ _ => 1) => //; exists 1; first exact: oner_neq0.
    by move=> x i _ _; rewrite drop_oversize ?mul1r // -/n -(eqP hl).
  have hc1 : (c.+1 < n)%N by rewrite ltn_neqAle hl hc.
  case hbt: (nth None (bt st) c) (hsome1 hc1) => [t|] // _.
  exists t => //.
  case: hok1 => [[_ hg] _]; case: (hg c t hc1 hbt) => lam hlam ht; exists lam => // x i hx hi.
  by rewrite ht // size_fproj.
have [mu hmu hF] : exists2 mu : K, mu != 0 &
    forall x i, size x = cc_k (cc_ c) -> (i < tn)%N ->
     (if c == 0%N then 1 else \sum_(j <- ts) f_prev fs (take (cc_bpw (cc_ c)) x) j * cc_T (cc_ c) j i)
     = mu * prex (rev (take c ccs)) (fwdx (rev (take c ccs))) (cc_ c) x i.
  case: (posnP c) => [c0|cpos].
    by exists 1; [exact: oner_neq0 | move=> x i _ _; rewrite c0 /= take0 /= mul1r].
  case: (hprev cpos) => mu hmu hp; exists mu => // x i hx hi.
  have -> : prex (rev (take c ccs)) (fwdx (rev (take c ccs))) (cc_ c) x i
          = \sum_(j <- ts) fwdx (rev (take c ccs)) (take (cc_bpw (cc_ c)) x) j * cc_T (cc_ c) j i.
    rewrite /prex; case e: (rev (take c ccs)) => [|a l] //.
    move/(congr1 size): e; rewrite size_rev size_take hc /= => e0.
    by move: cpos; rewrite e0.
  rewrite big_distrr /=; apply: eq_big_seq => j; rewrite mem_iota add0n => /andP[_ hj].
  have hc' : (c.-1 < n)%N by apply: leq_ltn_trans hc; exact: leq_pred.
  have hw : size (take (cc_bpw (cc_ c)) x) = cc_fw (cc_ c.-1).
    case: (shape hc') => _ _; rewrite prednK // => /(_ hc) ->.
    exact: size_bproj.
  by rewrite hp ?mulrA.
move: herr; rewrite /fstep -/st hselB /=.
set s := nth 0 (sc st) c.
move/negbT; rewrite !negb_or => /andP[/andP[_ hs] hr]; move/negbTE: hr => hr.
case: (fcol_spec hc hs hmu hlam hF hB hr) => hnewF hnz hlik.
split=> /=.
- case: hok1 => hg hss; split=> //=; exact: bt_good_setN.
- move=> _; exists (mu / s); first by rewrite mulf_neq0 ?invr_eq0.
  exact: hnewF.
- move=> e hce he hke /=; rewrite nth_set_nth /=; case: eqP => [ee|_].
    by move: hce; rewrite ee ltnn.
  by apply: hmono1; apply: hav => //; apply: ltnW.
- by rewrite size_rcons hsz.
- move=> c'; rewrite ltnS leq_eqVlt => /orP[/eqP->|hlt].
    by split=> // ind g hind hg; rewrite /out_at nth_rcons hsz ltnn eqxx; apply: hlik.
  case: (hout c' hlt) => hnz' ho; split=> // ind g hind hg.
  by rewrite /out_at nth_rcons hsz hlt; apply: ho.
Qed.

Lemma isqrt_gt0 m : (0 < m)%N -> (0 < isqrt m)%N.
Proof. by case: m. Qed.

Local Notation runK := (@fb_run_state_k K 0 1 +%R subK *%R divK eq0K P genof ccs).

Theorem run_k_ok k :
  (0 < k)%N ->
  err (f_b (runK k)) = false ->
  size (f_out (runK k)) = n /\
  forall c, (c < n)%N -> Nm c (fun _ _ => true) != 0 /\
    forall ind g, (ind < p_nind P)%N -> (g < 3)%N -> out_at (f_out (runK k)) c ind g = post c ind g.
Proof.
move=> hk; rewrite /fb_run_state_k -/n.
set st0 := BState _ _ _; set fs0 := FState _ _ _.
move=> herr.
have herr0 : err (bpassK k st0) = false by move/fsteps_err: herr.
have hinv0 : Inv_f k 0 fs0.
  by case: (bpass_ok herr0) => hok hav; split.
have hall : forall c, (c <= n)%N -> Inv_f k c (foldl (fstepK k) fs0 (iota 0 c)).
  elim=> [|c IH] hc //.
  have e : iota 0 n = iota 0 c.+1 ++ iota c.+1 (n - c.+1) by rewrite -iotaD subnKC.
  have herrc : err (f_b (foldl (fstepK k) fs0 (iota 0 c.+1))) = false.
    by move: herr; rewrite e foldl_cat => /fsteps_err.
  move: herrc; rewrite -addn1 iotaD foldl_cat /= add0n => herrc.
  by rewrite addn1; apply: fstep_ok => //; apply: IH; apply: ltnW.
by case: (hall n (leqnn n)) => _ _ _ hsz hout; split.
Qed.

Theorem run_ok :
  err (f_b (@fb_run_state K 0 1 +%R subK *%R divK eq0K P genof ccs)) = false ->
  size (f_out (@fb_run_state K 0 1 +%R subK *%R divK eq0K P genof ccs)) = n /\
  forall c, (c < n)%N -> Nm c (fun _ _ => true) != 0 /\
    forall ind g, (ind < p_nind P)%N -> (g < 3)%N ->
      out_at (f_out (@fb_run_state K 0 1 +%R subK *%R divK eq0K P genof ccs)) c ind g = post c ind g.
Proof.
rewrite /fb_run_state -/n.
case: (posnP n) => [n0|npos]; last by apply: run_k_ok; apply: isqrt_gt0.
by rewrite /fb_run_state_k -/n n0 /=; split.
Qed.

End Run.
