(* C08, part 1: the table bookkeeping of GenotypeDPTable (scaling sums, sqrt check-pointing of the
   backward projection columns, their re-computation during the forward pass) is transparent:
   whenever the run reports no error, every likelihood it outputs is the quotient Nm phi / Nm top of
   the *unscaled* forward / backward projection recursions (fwdx / bwdx below) over the same column
   contexts.  Nothing here depends on what the local factors cc_W / cc_L / cc_T mean.
   ssreflect / bigop style. *)
From mathcomp Require Import all_ssreflect all_algebra.
From WH.Model Require Import GenotypeHMM.
From WH.Proofs Require Import SemiringDP GenotypeHMMBasics.
Set Implicit Arguments.
Unset Strict Implicit.
Unset Printing Implicit Defensive.
Import GRing.Theory.
Local Open Scope ring_scope.

Section Run.
Variable K : fieldType.
Variable P : ped.
Variable genof : nat -> nat -> nat -> nat.
Let tn := ntrans P.
Let na := nassign P.
Let ts := iota 0 tn.

Local Notation divK := (fun x y : K => x / y).
Local Notation subK := (fun x y : K => x - y).
Local Notation eq0K := (fun x : K => x == 0).
Local Notation cctxK := (cctx K).
Local Notation dccK := (@dcc K 0).
Local Notation memoK := (@memo K 0).
Local Notation tscaleK := (@tscale K 0 divK P).
Local Notation bcolK := (@bcol K 0 1 +%R *%R P).
Local Notation fcolK := (@fcol K 0 1 +%R *%R divK eq0K P genof).

(* ---------------------------------------------------------------- unscaled recursions *)
Fixpoint bwdx (suffix : seq cctxK) : seq bool -> nat -> K :=
  if suffix is cc :: rest then
    fun sigma j =>
      \sum_(x <- bits (cc_k cc) | take (cc_bpw cc) x == sigma)
        \sum_(i <- ts) bwdx rest (mask (cc_fmask cc) x) i * cc_L cc x i * cc_T cc j i
  else fun _ _ => 1.

(* mass entering column cc at (x, i) given the forward projection column fw of the columns rp before it *)
Definition prex (rp : seq cctxK) (fw : seq bool -> nat -> K) (cc : cctxK) (x : seq bool) (i : nat) : K :=
  if rp is [::] then 1 else \sum_(j <- ts) fw (take (cc_bpw cc) x) j * cc_T cc j i.

(* rp = reversed prefix of columns (head = the latest one) *)
Fixpoint fwdx (rp : seq cctxK) : seq bool -> nat -> K :=
  if rp is cc :: rp' then
    fun sigma i =>
      \sum_(x <- bits (cc_k cc) | mask (cc_fmask cc) x == sigma) prex rp' (fwdx rp') cc x i * cc_L cc x i
  else fun _ _ => 1.

Variable ccs : seq cctxK.
Let n := size ccs.
Local Notation cc_ c := (nth dccK ccs c).

(* Nm phi = mass of (i, a) satisfying phi at column c *)
Definition Nm (c : nat) (phi : nat -> nat -> bool) : K :=
  \sum_(i <- ts) \sum_(a <- iota 0 na | phi i a) \sum_(x <- bits (cc_k (cc_ c)))
     prex (rev (take c ccs)) (fwdx (rev (take c ccs))) (cc_ c) x i * cc_W (cc_ c) x i a
     * bwdx (drop c.+1 ccs) (mask (cc_fmask (cc_ c)) x) i.

(* shapes: projection widths fit together *)
Definition shape_ok : Prop :=
  forall c, (c < n)%N ->
    [/\ size (cc_fmask (cc_ c)) = cc_k (cc_ c), (cc_bpw (cc_ c) <= cc_k (cc_ c))%N
      & (c.+1 < n)%N -> cc_fw (cc_ c) = cc_bpw (cc_ c.+1)].
Hypothesis shape : shape_ok.

Lemma size_fproj c (x : seq bool) : (c < n)%N -> size x = cc_k (cc_ c) -> size (mask (cc_fmask (cc_ c)) x) = cc_fw (cc_ c).
Proof. by move=> hc hx; case: (shape hc) => hm _ _; rewrite size_mask ?hm. Qed.

Lemma size_bproj c (x : seq bool) : (c < n)%N -> size x = cc_k (cc_ c) -> size (take (cc_bpw (cc_ c)) x) = cc_bpw (cc_ c).
Proof.
move=> hc hx; case: (shape hc) => _ hb _; rewrite size_take hx.
by case: ltnP => // h; apply/eqP; rewrite eqn_leq h hb.
Qed.

(* ---------------------------------------------------------------- one backward column *)
(* t is a nonzero multiple of the exact backward projection column of column c *)
Definition Bgood (c : nat) (t : seq bool -> nat -> K) : Prop :=
  exists2 lam : K, lam != 0 &
    forall sigma j, size sigma = cc_fw (cc_ c) -> (j < tn)%N -> t sigma j = lam * bwdx (drop c.+1 ccs) sigma j.

Lemma bcol_spec c last prevB lam :
  (c < n)%N ->
  (forall x i, size x = cc_k (cc_ c) -> (i < tn)%N ->
     (if last then 1 else prevB (mask (cc_fmask (cc_ c)) x) i)
     = lam * bwdx (drop c.+1 ccs) (mask (cc_fmask (cc_ c)) x) i) ->
  forall sigma j, (j < tn)%N ->
    (bcolK (cc_ c) last prevB).1 sigma j = lam * bwdx (drop c ccs) sigma j.
Proof.
move=> hc hB sigma j hj.
rewrite (drop_nth dccK hc) /= /bcol /= fsum_mapf bitvecsE big_distrr /=.
apply: eq_sum_seq_cond => x; rewrite mem_bitsE => /eqP hx _.
rewrite fsum_map big_distrr /=; apply: eq_big_seq => i; rewrite mem_iota add0n => /andP[_ hi].
by rewrite memoE // hB // !mulrA.
Qed.

(* ---------------------------------------------------------------- the table of backward columns *)
Local Notation bstateK := (bstate K).
Local Notation bstepK := (@bstep K 0 1 +%R *%R divK eq0K P ccs).
Local Notation bpassK := (@bpass K 0 1 +%R *%R divK eq0K P ccs).
Local Notation bensureK := (@bensure K 0 1 +%R *%R divK eq0K P ccs).
Local Notation fstepK := (@fstep K 0 1 +%R *%R divK eq0K P genof ccs).

Definition bt_good (b : seq (option (seq bool -> nat -> K))) : Prop :=
  size b = n /\ forall c t, (c.+1 < n)%N -> nth None b c = Some t -> Bgood c t.
Definition Bt_ok (st : bstateK) : Prop := bt_good (bt st) /\ size (sc st) = n.

Lemma bt_good_set b d t :
  bt_good b -> (d < n)%N -> ((d.+1 < n)%N -> Bgood d t) -> bt_good (set_nth None b d (Some t)).
Proof.
move=> [hs hg] hd ht; split; first by rewrite size_set_nth hs; apply/maxn_idPr.
move=> c t' hc; rewrite nth_set_nth /=; case: eqP => [e|_]; last exact: hg.
by case=> <-; rewrite e; apply: ht; rewrite -e.
Qed.

Lemma bt_good_setN b d : bt_good b -> (d < n)%N -> bt_good (set_nth None b d None).
Proof.
move=> [hs hg] hd; split; first by rewrite size_set_nth hs; apply/maxn_idPr.
by move=> c t' hc; rewrite nth_set_nth /=; case: eqP => [_|_] //; apply: hg.
Qed.

Lemma tscale_good c t s :
  s != 0 -> Bgood c t -> Bgood c (tscaleK (cc_fw (cc_ c)) t s).
Proof.
move=> hs [lam hl ht]; exists (lam / s); first by rewrite mulf_neq0 ?invr_eq0.
move=> sigma j hsg hj; rewrite /tscale memoE // ht //.
by rewrite mulrAC.
Qed.

Lemma bstep_ok c st :
  (c < n)%N -> Bt_ok st ->
  (c.+1 == n) || isSome (nth None (bt st) c) ->
  err (bstepK c st) = false ->
  [/\ Bt_ok (bstepK c st), err st = false,
      (0 < c)%N -> isSome (nth None (bt (bstepK c st)) c.-1)
    & forall d, isSome (nth None (bt st) d) -> isSome (nth None (bt (bstepK c st)) d)].
Proof.
move=> hc [hgood hss] havail.
case hearly: ((0 < c)%N && isSome (nth None (bt st) c.-1)).
  by rewrite /bstep hearly => he; split=> //; case/andP: hearly.
have [prevB hsel [lam hlam hB]] : exists2 prevB,
    (if c.+1 == n then Some (fun _ _ => 1) else nth None (bt st) c) = Some prevB &
    (exists2 lam : K, lam != 0 & forall x i, size x = cc_k (cc_ c) -> (i < tn)%N ->
       (if c.+1 == n then 1 else prevB (mask (cc_fmask (cc_ c)) x) i)
        = lam * bwdx (drop c.+1 ccs) (mask (cc_fmask (cc_ c)) x) i).
  case hl: (c.+1 == n).
    exists (fun _ _ => 1) => //; exists 1; first exact: oner_neq0.
    by move=> x i _ _; rewrite drop_oversize ?mul1r // -/n -(eqP hl).
  move: havail; rewrite hl /=; case hbt: (nth None (bt st) c) => [t|] // _.
  exists t => //.
  have hc1 : (c.+1 < n)%N by rewrite ltn_neqAle hl hc.
  case: hgood => _ /(_ c t hc1 hbt) [lam hlam ht]; exists lam => // x i hx hi.
  by rewrite ht // size_fproj.
rewrite /bstep hearly hsel /=.
set cs := bcolK (cc_ c) (c.+1 == n) prevB.
move/negbT; rewrite negb_or => /andP[/negbTE he hs].
have hcur : forall sigma j, (j < tn)%N -> cs.1 sigma j = lam * bwdx (drop c ccs) sigma j.
  exact: bcol_spec.
set bt1 := (if c.+1 == n then _ else _).
have hbt1 : bt_good bt1.
  rewrite /bt1; case hl: (c.+1 == n) => //.
  apply: bt_good_set => // hc1; apply: tscale_good => //.
  move: hsel; rewrite hl => hbt.
  by case: hgood => _ /(_ c prevB hc1 hbt).
have hmono1 : forall d, isSome (nth None (bt st) d) -> isSome (nth None bt1 d).
  by rewrite /bt1 => d; case: ifP => // _; rewrite nth_set_nth /=; case: eqP.
split=> //.
- split=> /=; last by rewrite size_set_nth hss; apply/maxn_idPr.
  case h0: (0 < c)%N => //.
  have hc' : (c.-1 < n)%N by apply: leq_ltn_trans hc; exact: leq_pred.
  apply: bt_good_set => // hc1.
  exists (lam / cs.2); first by rewrite mulf_neq0 ?invr_eq0.
  move=> sigma j hsg hj; rewrite /tscale memoE //.
    by rewrite hcur // prednK // mulrAC.
  by case: (shape hc') => _ _; rewrite prednK // => /(_ hc) <-.
- by move=> h0 /=; rewrite h0 nth_set_nth /= eqxx.
- move=> d hd /=; case: ifP => _; last exact: hmono1.
  by rewrite nth_set_nth /=; case: eqP => // _; apply: hmono1.
Qed.

End Run.
