(* Link between the two solver models for the classical MEC case: one individual, no trios, trusted
   genotypes, every column heterozygous.
     - PedMEC (model/PedMEC.v, ssreflect): the model of PedigreeDPTable with its proved optimality and
       backtrace (proofs/PedMECProofs.v, PedMECWitness.v);
     - Mec (model/Mec.v, stdlib): the weighted MEC objective over sparse reads of C02 with
       "every zero-cost solution is the truth up to a flip per read-connected component" (MecProofs.v).
   The sparse view `mec_reads` of a single-individual PedMEC instance is a Mec instance; for error-free
   reads with positive weights the modelled solver reports cost 0, and the haplotypes read off its
   super reads (get_alleles at the backtraced witness) have Mec cost 0, no tie on a covered column, and
   hence equal the truth up to a flip on every read-connected component. ssreflect style. *)
From mathcomp Require Import all_ssreflect.
From WH.Model Require Import PedMEC.
From WH.Model Require Mec.
From WH.Proofs Require Import SemiringDP Tropical PedMECProofs PedMECWitness.
From WH.Proofs Require MecProofs.
Set Implicit Arguments.
Unset Strict Implicit.
Unset Printing Implicit Defensive.

(* ------------------------------------------------------------------ the translation *)
(* a single-individual, all-heterozygous, trusted-genotype instance with zero recombination costs *)
Definition single (n : nat) (rs : seq read) : inst :=
  MkInst rs n 1 [::] (nseq n [:: GT 1]) (nseq n 0).

(* sparse (column, allele, weight) view of a dense read *)
Definition mec_read (r : read) : Mec.read :=
  pmap (fun ke : nat * entry => omap (fun aw : bool * nat => (ke.1, aw.1, aw.2)) ke.2)
       (zip (iota (r_first r) (size (r_ents r))) (r_ents r)).
Definition mec_reads (I : inst) : seq Mec.read := [seq mec_read r | r <- i_reads I].

(* the haplotype pair of the super reads: get_alleles at bipartition beta (allele codes 0/1; 3 = tie) *)
Definition witness_haps (I : inst) (beta : seq bool) : Mec.haps :=
  fun c => match get_alleles I c (restrict (active I c) beta) 0 with
           | Some ((k0, k1, _) :: _) => (k0 == 1, k1 == 1)
           | _ => (false, false)
           end.

(* flip cost of one entry against haplotype pair p on side b *)
Definition gcost (p : bool * bool) (b : bool) (e : entry) : nat :=
  if e is Some (a, w) then (if a != (if b then p.2 else p.1) then w else 0) else 0.

(* ------------------------------------------------------------------ Mec.read_cost on the sparse view *)
Lemma read_cost_dense (h : Mec.haps) b f (ents : seq entry) :
  Mec.read_cost h b
    (pmap (fun ke : nat * entry => omap (fun aw : bool * nat => (ke.1, aw.1, aw.2)) ke.2)
          (zip (iota f (size ents)) ents))
  = \sum_(c <- iota f (size ents)) gcost (h c) b (nth None ents (c - f)).
Proof.
elim: ents f => [|e ents IH] f; first by rewrite /= big_nil.
rewrite [size _]/= [iota _ _]/= big_cons subnn [nth _ _ 0]/=.
have -> : \sum_(c <- iota f.+1 (size ents)) gcost (h c) b (nth None (e :: ents) (c - f))
        = \sum_(c <- iota f.+1 (size ents)) gcost (h c) b (nth None ents (c - f.+1)).
  apply: eq_big_seq => c; rewrite mem_iota => /andP[hc _].
  by rewrite -[c - f]/(c.+1 - f.+1) subSn.
rewrite -IH; case: e => [[a w]|] //=.
congr (_ + _).
by rewrite /Mec.hap_allele {IH}; case: b; case: (h f) => x y /=; case: a; case: x; case: y.
Qed.

Lemma read_cost_cols (h : Mec.haps) b (r : read) n : r_last r < n -> r_ents r != [::] ->
  Mec.read_cost h b (mec_read r) = \sum_(c <- iota 0 n) gcost (h c) b (r_entry r c).
Proof.
move=> hl hne; rewrite /mec_read read_cost_dense.
set f := r_first r; set m := size (r_ents r).
have hm : 0 < m by rewrite /m; case: (r_ents r) hne.
have hfm : f + m <= n by rewrite -(prednK hm) addnS; exact: hl.
rewrite -{1}(addKn f m) -/(index_iota f (f + m)) -{1}(subn0 n) -/(index_iota 0 n).
rewrite (@big_cat_nat _ _ _ f 0 n) ?(leq_trans (leq_addr m f) hfm) //=.
rewrite (@big_cat_nat _ _ _ (f + m) f n) ?leq_addr //=.
rewrite [X in _ = X + _]big_nat [X in _ = X + _]big1 ?add0n; last first.
  by move=> c /andP[_ hc]; rewrite /r_entry -/f leqNgt hc.
rewrite [X in _ = _ + X]big_nat [X in _ = _ + X]big1 ?addn0; last first.
  move=> c /andP[hc _]; rewrite /r_entry -/f (leq_trans (leq_addr _ _) hc).
  by rewrite nth_default // -/m leq_subRL ?(leq_trans (leq_addr _ _) hc).
by rewrite big_nat [RHS]big_nat; apply: eq_bigr => c /andP[hc _]; rewrite /r_entry -/f hc.
Qed.

(* ------------------------------------------------------------------ the single-individual instance *)
Section Single.
Variables (n : nat) (rs : seq read).
Let I := single n rs.
Hypothesis Hwf : wf I.
Let N := nreads I.

Lemma single_nT : nT I = 1. Proof. by []. Qed.

Lemma single_read i : i < N ->
  [/\ r_ents (rd I i) != [::], r_last (rd I i) < n & r_sample (rd I i) = 0].
Proof.
move=> hi; move: Hwf; rewrite /wf /wf_reads => /andP[/andP[/andP[_ /(all_nthP dflt_read) h] _] _].
have /andP[/andP[h1 h2] h3] := h _ hi; split=> //.
by move: h3; rewrite /= ltnS leqn0 => /eqP.
Qed.

Lemma mk_cc_single c : c < n ->
  mk_cc I c 0 = ([:: (0, 1)], [:: ([:: true; false], 0); ([:: false; true], 0)]).
Proof. by move=> hc; rewrite /mk_cc /= nth_nseq hc. Qed.

(* column sums *)
Definition colsum (beta : seq bool) (c : nat) (p : bool * bool) : nat :=
  \sum_(i <- iota 0 N) gcost p (nth false beta i) (r_entry (rd I i) c).

Lemma flip_single beta c (p : bool * bool) :
  flip_cost [:: (0, 1)] (colents I c) (restrict (active I c) beta) [:: p.1; p.2] = colsum beta c p.
Proof.
rewrite /flip_cost /colents /restrict zip_map -map_comp foldrE big_map /colsum.
rewrite /active big_filter big_mkcond /=; apply: eq_big_seq => i; rewrite mem_iota add0n /= => hi.
have [hne hl hs] := single_read hi.
case: ifP => [_|hact].
  rewrite hs /allele_of /hp_get /= /gcost; case: (r_entry _ _) => [[a w]|] //.
  by case: (nth false beta i).
rewrite /r_entry; case: leqP => // hf; move: hact; rewrite hf /= => /negbT; rewrite -ltnNge => hlt.
have hpos : 0 < size (r_ents (rd I i)) by rewrite lt0n size_eq0.
by rewrite [nth None _ _]nth_default // leq_subRL // -(prednK hpos) addnS; exact: hlt.
Qed.

Lemma mec_cost_cols (h : Mec.haps) beta : size beta = N ->
  Mec.cost h beta (mec_reads I) = \sum_(c <- iota 0 n) colsum beta c (h c).
Proof.
move=> hb.
have -> : Mec.cost h beta (mec_reads I) =
          \sum_(br <- zip beta rs) Mec.read_cost h br.1 (mec_read br.2).
  rewrite /mec_reads /=; elim: rs beta {hb} => [|r rs' IH] [|b beta] //=; rewrite ?big_nil //.
  by rewrite big_cons IH.
rewrite (big_nth (false, dflt_read)) size_zip hb minnn /colsum exchange_big /=.
rewrite /index_iota subn0; apply: eq_big_seq => i; rewrite mem_iota add0n /= => hi.
have [hne hl _] := single_read hi.
by rewrite nth_zip //= (read_cost_cols _ _ hl hne).
Qed.

Definition fl (c : nat) (x : seq bool) (a : seq bool) : nat := flip_cost [:: (0, 1)] (colents I c) x a.

Lemma local_cost_single c x : c < n ->
  local_cost I c x 0 = Some (minn (fl c x [:: true; false]) (fl c x [:: false; true])).
Proof. by move=> hc; rewrite /local_cost mk_cc_single // /lcost /assignment_costs /= !add0n. Qed.

Lemma oaddl_somes (A : Type) (f : A -> nat) (s : seq A) :
  oaddl [seq Some (f a) | a <- s] = Some (\sum_(a <- s) f a).
Proof. by elim: s => [|a s IH] /=; rewrite ?big_nil // IH big_cons. Qed.

Lemma cost_of_single beta tau : size tau = n -> all (fun t => t < 1) tau ->
  cost_of I beta tau =
  Some (\sum_(c <- iota 0 n) minn (colsum beta c (true, false)) (colsum beta c (false, true))).
Proof.
move=> hsz /all_nthP hall; rewrite /cost_of -oaddl_somes; congr oaddl.
apply/eq_in_map => c; rewrite mem_iota add0n /= => hc.
have ht : nth 0 tau c = 0 by have := hall 0 c; rewrite hsz => /(_ hc); case: (nth 0 tau c).
rewrite /term ht local_cost_single // /fl -!flip_single /=.
by case: c {hc ht}.
Qed.

Lemma alleles_single c x : c < n ->
  minn (fl c x [:: true; false]) (fl c x [:: false; true]) = 0 ->
  0 < fl c x [:: true; false] + fl c x [:: false; true] ->
  exists k0 k1 q,
    [/\ get_alleles I c x 0 = Some [:: (k0, k1, q)], k0 != 3, k1 != 3,
        (k0 == 1) != (k1 == 1) & fl c x [:: k0 == 1; k1 == 1] = 0].
Proof.
move=> hc; rewrite /get_alleles mk_cc_single // /get_alleles_cc /assignment_costs /= !add0n -/(fl c x _) -/(fl c x _).
case hA: (fl c x [:: true; false]) => [|a]; case hB: (fl c x [:: false; true]) => [|b] /= hmin hpos.
- by [].
- by exists 1, 0, b.+1; rewrite /best_for /= /quality /= ?subn0 ?sub0n /acode /= ?add0n ?addn0; split.
- by exists 0, 1, a.+1; rewrite /best_for /= /quality /= ?subn0 ?sub0n /acode /= ?add0n ?addn0; split.
- by move: hmin; rewrite minnSS.
Qed.
End Single.

(* ------------------------------------------------------------------ small bridges *)
Lemma In_mem (T : eqType) (x : T) (s : seq T) : List.In x s <-> x \in s.
Proof.
elim: s => [|y s IH] /=; first by split.
rewrite inE; split=> [[->|/IH->]|/orP[/eqP->|/IH h]]; rewrite ?eqxx ?orbT //; [by left | by right].
Qed.

Lemma sum_seq_eq0 (A : eqType) (s : seq A) (f : A -> nat) :
  \sum_(a <- s) f a = 0 -> forall a, a \in s -> f a = 0.
Proof.
elim: s => [|b s IH] //; rewrite big_cons => /eqP; rewrite addn_eq0 => /andP[/eqP h1 /eqP h2] a.
by rewrite inE => /orP[/eqP->|/(IH h2)].
Qed.

Lemma entry_in_mec_read (r : read) c a w : r_entry r c = Some (a, w) -> (c, a, w) \in mec_read r.
Proof.
rewrite /r_entry; case: leqP => // hf he.
have hlt : c - r_first r < size (r_ents r).
  by case: ltnP => // /(nth_default None); rewrite he.
rewrite /mec_read mem_pmap; apply/mapP; exists (c, Some (a, w)) => //.
have -> : (c, Some (a, w)) = nth (0, None) (zip (iota (r_first r) (size (r_ents r))) (r_ents r)) (c - r_first r).
  by rewrite nth_zip ?size_iota // nth_iota // subnKC // he.
by apply: mem_nth; rewrite size_zip size_iota minnn.
Qed.

Lemma mec_read_entry (r : read) c a w : (c, a, w) \in mec_read r -> r_entry r c = Some (a, w).
Proof.
rewrite /mec_read mem_pmap => /mapP[[c' e]] /(nthP (0, None))[k].
rewrite size_zip size_iota minnn => hk; rewrite nth_zip ?size_iota // nth_iota // => -[<- <-].
case he: (nth None (r_ents r) k) => [[a1 w1]|] //= [e1 e2 e3]; subst.
by rewrite /r_entry leq_addr addKn he.
Qed.

Lemma gcost_swap_sum p a w b : p.1 != p.2 ->
  gcost p b (Some (a, w)) + gcost (p.2, p.1) b (Some (a, w)) = w.
Proof. by case: p => x y /=; case: a; case: b; case: x; case: y => //= _; rewrite ?addn0 ?add0n. Qed.

(* ------------------------------------------------------------------ the chain *)
Section Chain.
Variables (n : nat) (rs : seq read) (truth : Mec.haps) (origin : seq bool).
Let I := single n rs.
Let reads := mec_reads I.
Let N := nreads I.
Hypothesis Hwf : wf I.
Hypothesis Hpos : forall r, List.In r reads -> Mec.positive r.
Hypothesis Hef : Mec.error_free truth origin reads = true.
Hypothesis Hhet : forall c, (exists r, List.In r reads /\ Mec.covers r c) -> Mec.het truth c.

Definition covered (c : nat) : Prop := exists r, List.In r reads /\ Mec.covers r c.

Lemma read_in i : i < N -> List.In (mec_read (rd I i)) reads.
Proof.
move=> hi; apply/In_mem; rewrite -(nth_map dflt_read [::] mec_read) //.
by apply: mem_nth; rewrite size_map.
Qed.

Lemma entry_covered i c a w : i < N -> r_entry (rd I i) c = Some (a, w) -> covered c /\ 0 < w.
Proof.
move=> hi he; have hin := entry_in_mec_read he; split.
  by exists (mec_read (rd I i)); split; [exact: read_in | exists a, w; apply/In_mem].
by apply/ltP; apply: (Hpos (read_in hi)); apply/In_mem; exact: hin.
Qed.

Lemma covered_entry c : covered c -> exists i a w, i < N /\ r_entry (rd I i) c = Some (a, w).
Proof.
case=> r [/In_mem/(nthP [::])[i]]; rewrite size_map => hi <- [a [w /In_mem]].
rewrite (nth_map dflt_read) // => hin.
by exists i, a, w; split=> //; apply: mec_read_entry.
Qed.

Lemma covered_lt c : covered c -> c < n.
Proof.
case/covered_entry => i [a [w [hi he]]]; have [_ hl _] := single_read Hwf hi.
apply: leq_ltn_trans hl; move: he; rewrite /r_entry /r_last; case: leqP => // hf he.
have : c - r_first (rd I i) < size (r_ents (rd I i)) by case: ltnP => // /(nth_default None); rewrite he.
by rewrite ltn_subLR // -/I; case: (size _) => [|m]; rewrite ?addn0 ?addnS ?ltnS //= => /ltnW.
Qed.

Lemma error_free_rd : size origin = N /\
  forall i, i < N -> Mec.read_error_free truth (nth false origin i) (mec_read (rd I i)) = true.
Proof.
move: Hef; rewrite /reads /mec_reads /N /nreads /rd /=.
elim: rs origin => [|r rs' IH] [|o origin'] //= /andP[h1 /IH[h2 h3]]; split; first by rewrite h2.
by case=> [|i] //= /h3.
Qed.

Lemma error_free_entry i c a w : i < N -> r_entry (rd I i) c = Some (a, w) ->
  a = (if nth false origin i then (truth c).2 else (truth c).1).
Proof.
move=> hi /entry_in_mec_read hin; case: error_free_rd => _ /(_ i hi) /allP /(_ _ hin) /= {hin}.
by rewrite /Mec.hap_allele; case: (nth false origin i); case: a; case: (truth c) => x y; case: x; case: y.
Qed.

Lemma truth_colsum c : colsum n rs origin c (truth c) = 0.
Proof.
rewrite /colsum big1_seq // => i; rewrite mem_iota add0n /= => hi.
case he: (r_entry _ _) => [[a w]|] //=.
by rewrite (error_free_entry hi he); case: (nth false origin i); rewrite eqxx.
Qed.

Lemma uncovered_colsum beta c p : ~ covered c -> colsum n rs beta c p = 0.
Proof.
move=> hnc; rewrite /colsum big1_seq // => i; rewrite mem_iota add0n /= => hi.
case he: (r_entry _ _) => [[a w]|] //=.
by case: hnc; case: (entry_covered hi he).
Qed.

Lemma het_pair c : covered c -> truth c = (true, false) \/ truth c = (false, true).
Proof.
by move/Hhet; rewrite /Mec.het; case: (truth c) => [[] []] /= h; [case: h | left | right | case: h].
Qed.

Lemma covered_dec c : covered c \/ ~ covered c.
Proof.
case h: (has (fun i => isSome (r_entry (rd I i) c)) (iota 0 N)).
  case/hasP: h => i; rewrite mem_iota add0n /= => hi; case he: (r_entry _ _) => [[a w]|] // _.
  by left; case: (entry_covered hi he).
right=> /covered_entry[i [a [w [hi he]]]]; move/hasPn: h => /(_ i); rewrite mem_iota add0n /= he.
by move/(_ hi).
Qed.

Lemma truth_min c :
  minn (colsum n rs origin c (true, false)) (colsum n rs origin c (false, true)) = 0.
Proof.
case: (covered_dec c) => [hc|hnc]; last by rewrite !uncovered_colsum.
by case: (het_pair hc) (truth_colsum c) => -> ->; rewrite ?min0n ?minn0.
Qed.

Lemma no_conflict_single : no_conflict I.
Proof.
apply/allP => c; rewrite mem_iota add0n => /andP[_ hc]; apply/hasP; exists 0 => //.
by rewrite /allowed mk_cc_single.
Qed.

Theorem solver_reproduces_truth :
  exists beta tau,
    [/\ dp_witness I = Some (beta, tau), dp_cost I = Cost (Some 0),
        Mec.cost (witness_haps I beta) beta reads = 0,
        (forall c, covered c ->
           exists k0 k1 q, [/\ get_alleles I c (restrict (active I c) beta) 0 = Some [:: (k0, k1, q)],
                               k0 != 3 & k1 != 3])
      & forall c c', covered c -> covered c' -> Mec.connected reads c c' ->
          (Mec.same_at (witness_haps I beta) truth c /\ Mec.same_at (witness_haps I beta) truth c') \/
          (Mec.swapped_at (witness_haps I beta) truth c /\ Mec.swapped_at (witness_haps I beta) truth c')].
Proof.
have hnc := no_conflict_single.
have [beta [tau [v [hw hsb hst hall [hcost hdp hopt]]]]] := dp_witness_optimal Hwf hnc.
(* the optimum is 0 *)
have [hso _] := error_free_rd.
have h0 : cost_of I origin (nseq n 0) = Some 0.
  rewrite (cost_of_single Hwf) ?size_nseq //; last by rewrite all_nseq orbT.
  by rewrite big1_seq // => c _; exact: truth_min.
have hv : v = 0.
  have := @witness_cost I origin (nseq n 0) hso; rewrite size_nseq all_nseq /= orbT h0 hopt.
  by move/(_ erefl isT); rewrite /= leqn0 => /eqP.
rewrite hv in hcost hdp.
(* every column of the witness costs 0 *)
have hcols c : c < n ->
    minn (colsum n rs beta c (true, false)) (colsum n rs beta c (false, true)) = 0.
  move=> hc; move: hcost; rewrite (cost_of_single Hwf) // => -[hsum].
  by apply: (sum_seq_eq0 hsum); rewrite mem_iota.
(* alleles of covered columns *)
have hal c : covered c ->
    exists k0 k1 q, [/\ get_alleles I c (restrict (active I c) beta) 0 = Some [:: (k0, k1, q)],
                        k0 != 3, k1 != 3, (k0 == 1) != (k1 == 1)
                      & colsum n rs beta c (k0 == 1, k1 == 1) = 0].
  move=> hcov; have hc := covered_lt hcov.
  have [i [a [w [hi he]]]] := covered_entry hcov.
  have [_ hw0] := entry_covered hi he.
  have hfl p : fl n rs c (restrict (active I c) beta) [:: p.1; p.2] = colsum n rs beta c p.
    exact: (flip_single Hwf).
  have hpos : 0 < colsum n rs beta c (true, false) + colsum n rs beta c (false, true).
    rewrite /colsum (bigD1_seq i) ?mem_iota ?iota_uniq //= [X in _ + X](bigD1_seq i) ?mem_iota ?iota_uniq //=.
    rewrite he addnACA (@gcost_swap_sum (true, false)) //.
    by apply: leq_trans hw0 _; rewrite leq_addr.
  have := @alleles_single n rs c (restrict (active I c) beta) hc.
  rewrite (hfl (true, false)) (hfl (false, true)) (hcols c hc) => /(_ erefl hpos).
  case=> k0 [k1 [q [h1 h2 h3 h4 h5]]]; exists k0, k1, q; split=> //.
  by rewrite -(hfl (k0 == 1, k1 == 1)).
have hwh c k0 k1 q : get_alleles I c (restrict (active I c) beta) 0 = Some [:: (k0, k1, q)] ->
    witness_haps I beta c = (k0 == 1, k1 == 1).
  by rewrite /witness_haps => ->.
(* Mec cost of the witness haplotypes *)
have hmec : Mec.cost (witness_haps I beta) beta reads = 0.
  rewrite (mec_cost_cols Hwf) // big1_seq // => c _.
  case: (covered_dec c) => [hcov|hnc']; last exact: uncovered_colsum.
  by have [k0 [k1 [q [h1 _ _ _ h5]]]] := hal c hcov; rewrite (hwh _ _ _ _ h1).
exists beta, tau; split=> //.
- move=> c /hal[k0 [k1 [q [h1 h2 h3 _ _]]]]; by exists k0, k1, q.
- apply: (@MecProofs.zero_cost_truth_up_to_component_flip reads truth (witness_haps I beta) origin beta) => //.
    by rewrite /reads /mec_reads -[length beta]/(size beta) -[length _]/(size [seq mec_read r | r <- i_reads I]) size_map.
  move=> c hcov; split; first exact: Hhet.
  have [k0 [k1 [q [h1 _ _ h4 _]]]] := hal c hcov.
  by rewrite /Mec.het (hwh _ _ _ _ h1) /=; apply/eqP.
Qed.
End Chain.

(* the same statement in stdlib vocabulary (for props/C02.v) *)
Theorem solver_reproduces_truth_std :
  forall (n : nat) (rs : list read) (truth : Mec.haps) (origin : list bool),
  let I := single n rs in
  let reads := mec_reads I in
  wf I = true ->
  (forall r, List.In r reads -> Mec.positive r) ->
  Mec.error_free truth origin reads = true ->
  (forall c, (exists r, List.In r reads /\ Mec.covers r c) -> Mec.het truth c) ->
  exists (beta : list bool) (tau : list nat),
    let h := witness_haps I beta in
    dp_witness I = Some (beta, tau) /\
    dp_cost I = Cost (Some 0) /\
    Mec.cost h beta reads = 0 /\
    (forall c, (exists r, List.In r reads /\ Mec.covers r c) ->
       exists k0 k1 q,
         get_alleles I c (restrict (active I c) beta) 0 = Some (cons (k0, k1, q) nil) /\
         k0 <> 3 /\ k1 <> 3) /\
    (forall c c', (exists r, List.In r reads /\ Mec.covers r c) ->
       (exists r, List.In r reads /\ Mec.covers r c') ->
       Mec.connected reads c c' ->
       (Mec.same_at h truth c /\ Mec.same_at h truth c') \/
       (Mec.swapped_at h truth c /\ Mec.swapped_at h truth c')).
Proof.
move=> n rs truth origin I reads hwf hpos hef hhet.
have [beta [tau [h1 h2 h3 h4 h5]]] := @solver_reproduces_truth n rs truth origin hwf hpos hef hhet.
exists beta, tau; split=> //; split=> //; split=> //; split=> //.
move=> c hc; have [k0 [k1 [q [e1 e2 e3]]]] := h4 c hc.
by exists k0, k1, q; split=> //; split; apply/eqP.
Qed.

(* non-vacuity: three error-free reads over four heterozygous columns in two components *)
Example single_example :
  let rs := [:: MkRead 0 0 [:: Some (false, 5); Some (true, 7)];
               MkRead 0 0 [:: Some (true, 3); Some (false, 3)];
               MkRead 0 2 [:: Some (true, 9); Some (false, 1)]] in
  let I := single 4 rs in
  [/\ wf I, mec_reads I = [:: [:: (0, false, 5); (1, true, 7)]; [:: (0, true, 3); (1, false, 3)];
                              [:: (2, true, 9); (3, false, 1)]],
      dp_cost I = Cost (Some 0), dp_witness I = Some ([:: true; false; false], [:: 0; 0; 0; 0])
    & [seq witness_haps I [:: true; false; false] c | c <- iota 0 4]
      = [:: (true, false); (false, true); (true, false); (false, true)]].
Proof. by vm_compute. Qed.
