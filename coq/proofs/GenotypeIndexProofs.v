(* Proofs about coq/model/GenotypeIndex.v, part 1: binomial coefficients.
   - choose (Pascal recursion) basic facts, absorption identity, symmetry;
   - the fast Pascal-row evaluator equals choose;
   - the multiply-then-divide loop of binomial.cpp, in unbounded arithmetic, returns C(n,k) and every
     one of its divisions is exact;
   - the 32-bit instance agrees with the unbounded one for all n <= 29 (finite sweep). *)
From Coq Require Import ZArith List Bool Lia.
From WH.Model Require Import GenotypeIndex.
Import ListNotations.
Open Scope Z_scope.

Lemma ideal_id z : ideal z = z.
Proof. reflexivity. Qed.

(* ---- choose *)
Lemma choose_0_r n : choose n 0 = 1.
Proof. destruct n; reflexivity. Qed.

Lemma choose_S n k : choose (S n) (S k) = choose n k + choose n (S k).
Proof. reflexivity. Qed.

Lemma choose_nonneg n : forall k, 0 <= choose n k.
Proof.
induction n as [|n IH]; intros [|k]; simpl; try lia.
pose proof (IH k). pose proof (IH (S k)). lia.
Qed.

Lemma choose_gt n : forall k, (n < k)%nat -> choose n k = 0.
Proof.
induction n as [|n IH]; intros [|k] H; simpl; try lia.
rewrite !IH by lia. reflexivity.
Qed.

Lemma choose_pos n : forall k, (k <= n)%nat -> 1 <= choose n k.
Proof.
induction n as [|n IH]; intros [|k] H; simpl; try lia.
pose proof (choose_nonneg n (S k)). specialize (IH k ltac:(lia)). lia.
Qed.

Lemma choose_diag n : choose n n = 1.
Proof. induction n as [|n IH]; [reflexivity|]. rewrite choose_S, IH, choose_gt by lia. reflexivity. Qed.

(* absorption: C(n,k+1) (k+1) = C(n,k) (n-k) *)
Lemma choose_absorb n : forall k,
  choose n (S k) * Z.of_nat (S k) = choose n k * (Z.of_nat n - Z.of_nat k).
Proof.
induction n as [|n IH]; intros k.
- destruct k; simpl; lia.
- rewrite choose_S. destruct k as [|k].
  + rewrite !choose_0_r. specialize (IH 0%nat). rewrite choose_0_r in IH. lia.
  + rewrite (choose_S n k). pose proof (IH k) as H1. pose proof (IH (S k)) as H2. nia.
Qed.

Lemma choose_sym n : forall k, (k <= n)%nat -> choose n k = choose n (n - k).
Proof.
induction n as [|n IH]; intros k H.
- replace k with 0%nat by lia. reflexivity.
- destruct k as [|k].
  + rewrite choose_0_r. replace (S n - 0)%nat with (S n) by lia. rewrite choose_diag. reflexivity.
  + rewrite choose_S. replace (S n - S k)%nat with (n - k)%nat by lia.
    destruct (Nat.eq_dec k n) as [->|Hne].
    * rewrite Nat.sub_diag, choose_0_r, choose_diag, choose_gt by lia. reflexivity.
    * replace (n - k)%nat with (S (n - S k)) by lia. rewrite choose_S.
      rewrite (IH k) by lia. rewrite (IH (S k)) by lia.
      replace (n - k)%nat with (S (n - S k)) by lia. lia.
Qed.

(* ---- chooseZ *)
Lemma chooseZ_nonneg n k : 0 <= chooseZ n k.
Proof. unfold chooseZ. destruct ((n <? 0) || (k <? 0)); [lia|apply choose_nonneg]. Qed.

Lemma chooseZ_neg_k n k : k < 0 -> chooseZ n k = 0.
Proof. intro H. unfold chooseZ. destruct (Z.ltb_spec k 0); [|lia]. rewrite orb_true_r. reflexivity. Qed.

Lemma chooseZ_gt n k : n < k -> chooseZ n k = 0.
Proof.
intro H. unfold chooseZ. destruct (Z.ltb_spec n 0); [reflexivity|].
destruct (Z.ltb_spec k 0); [reflexivity|]. simpl. apply choose_gt. lia.
Qed.

Lemma chooseZ_0_r n : 0 <= n -> chooseZ n 0 = 1.
Proof. intro H. unfold chooseZ. destruct (Z.ltb_spec n 0); [lia|]. simpl. apply choose_0_r. Qed.

Lemma chooseZ_pos n k : 0 <= k <= n -> 1 <= chooseZ n k.
Proof.
intro H. unfold chooseZ. destruct (Z.ltb_spec n 0); [lia|]. destruct (Z.ltb_spec k 0); [lia|]. simpl.
apply choose_pos. lia.
Qed.

Lemma chooseZ_pascal n k : 0 <= n -> 0 <= k -> chooseZ (n + 1) (k + 1) = chooseZ n k + chooseZ n (k + 1).
Proof.
intros Hn Hk. unfold chooseZ.
destruct (Z.ltb_spec (n + 1) 0); [lia|]. destruct (Z.ltb_spec (k + 1) 0); [lia|].
destruct (Z.ltb_spec n 0); [lia|]. destruct (Z.ltb_spec k 0); [lia|]. simpl.
replace (Z.to_nat (n + 1)) with (S (Z.to_nat n)) by lia.
replace (Z.to_nat (k + 1)) with (S (Z.to_nat k)) by lia.
apply choose_S.
Qed.

Lemma chooseZ_sym n k : 0 <= k <= n -> chooseZ n k = chooseZ n (n - k).
Proof.
intro H. unfold chooseZ.
destruct (Z.ltb_spec n 0); [lia|]. destruct (Z.ltb_spec k 0); [lia|]. destruct (Z.ltb_spec (n - k) 0); [lia|].
simpl. rewrite choose_sym by lia. f_equal. lia.
Qed.

Lemma choose_1_r n : choose n 1 = Z.of_nat n.
Proof. induction n as [|m IH]; [reflexivity|]. rewrite choose_S, choose_0_r, IH. lia. Qed.

Lemma chooseZ_1_r n : 0 <= n -> chooseZ n 1 = n.
Proof.
intro H. unfold chooseZ. destruct (Z.ltb_spec n 0); [lia|]. simpl.
change (Pos.to_nat 1) with 1%nat. rewrite choose_1_r. lia.
Qed.

(* ---- the Pascal-row evaluator *)
Lemma pascal_next_nth r : forall prev k,
  nth k (pascal_next r prev) 0 = nth k (prev :: r) 0 + nth k r 0.
Proof.
induction r as [|x r IH]; intros prev k.
- destruct k as [|[|k]]; simpl; lia.
- destruct k as [|k]; simpl; [lia|]. rewrite IH. reflexivity.
Qed.

Lemma pascal_row_nth n : forall k, nth k (pascal_row n) 0 = choose n k.
Proof.
induction n as [|n IH]; intros k.
- destruct k as [|[|k]]; reflexivity.
- cbn [pascal_row]. rewrite pascal_next_nth. destruct k as [|k].
  + simpl. rewrite IH, choose_0_r. reflexivity.
  + cbn [nth]. rewrite !IH. reflexivity.
Qed.

Theorem choose_fast_correct n k : choose_fast n k = chooseZ n k.
Proof.
unfold choose_fast, chooseZ. destruct ((n <? 0) || (k <? 0)); [reflexivity|]. apply pascal_row_nth.
Qed.

(* ---- the loop of binomial.cpp in unbounded arithmetic *)
Lemma binom_loop_ideal n : forall cnt i,
  (i + cnt <= n)%nat ->
  binom_loop ideal cnt (Z.of_nat n) (Z.of_nat i) (choose n i) = choose n (i + cnt) /\
  binom_loop_exact ideal cnt (Z.of_nat n) (Z.of_nat i) (choose n i) = true.
Proof.
induction cnt as [|cnt IH]; intros i H.
- simpl. rewrite Nat.add_0_r. split; reflexivity.
- cbn [binom_loop binom_loop_exact]. unfold ideal in *.
  pose proof (choose_absorb n i) as Ha.
  assert (E : choose n i * (Z.of_nat n - Z.of_nat i) = choose n (S i) * (Z.of_nat i + 1)) by lia.
  rewrite E.
  assert (Hq : Z.quot (choose n (S i) * (Z.of_nat i + 1)) (Z.of_nat i + 1) = choose n (S i)).
  { apply Z.quot_mul. lia. }
  assert (Hr : Z.rem (choose n (S i) * (Z.of_nat i + 1)) (Z.of_nat i + 1) = 0).
  { apply Z.rem_mul. lia. }
  rewrite Hq, Hr. replace (Z.of_nat i + 1) with (Z.of_nat (S i)) by lia.
  destruct (IH (S i) ltac:(lia)) as [IH1 IH2].
  rewrite IH1, IH2. replace (S i + cnt)%nat with (i + S cnt)%nat by lia. split; reflexivity.
Qed.

Theorem binom_ideal_correct n k : binom ideal n k = chooseZ n k /\ binom_exact ideal n k = true.
Proof.
unfold binom, binom_exact.
destruct (Z.ltb_spec k 0) as [Hk|Hk]; [cbn [orb]; rewrite chooseZ_neg_k by lia; split; reflexivity|].
destruct (Z.ltb_spec n 0) as [Hn|Hn]; [cbn [orb]; rewrite chooseZ_gt by lia; split; reflexivity|].
destruct (Z.ltb_spec n k) as [Hnk|Hnk]; [cbn [orb]; rewrite chooseZ_gt by lia; split; reflexivity|].
cbn [orb]. unfold ideal.
set (k' := if k >? n - k then n - k else k).
assert (Hk' : 0 <= k' <= n /\ chooseZ n k = chooseZ n k').
{ subst k'. destruct (Z.gtb_spec k (n - k)).
  - split; [lia|apply chooseZ_sym; lia].
  - split; [lia|reflexivity]. }
destruct Hk' as [Hr Hc]. rewrite Hc.
pose proof (binom_loop_ideal (Z.to_nat n) (Z.to_nat k') 0%nat ltac:(lia)) as [L1 L2]. unfold ideal in L1, L2.
rewrite choose_0_r in L1, L2. rewrite Z2Nat.id in L1, L2 by lia. cbn [Z.of_nat] in L1, L2.
rewrite L1, L2. split; [|reflexivity].
unfold chooseZ. destruct (Z.ltb_spec n 0); [lia|]. destruct (Z.ltb_spec k' 0); [lia|]. reflexivity.
Qed.

(* ---- 32-bit instance: no intermediate leaves the int range for n <= 29 (hence within the limits
   ploidy <= 14, alleles <= 16, where every call has n <= 14 + 16 - 1). Finite sweep. *)
Definition range (lo : Z) (cnt : nat) : list Z := map (fun i => lo + Z.of_nat i) (seq 0 cnt).

Lemma range_in lo cnt x : lo <= x < lo + Z.of_nat cnt -> In x (range lo cnt).
Proof.
intro H. unfold range. apply in_map_iff. exists (Z.to_nat (x - lo)). split; [lia|].
apply in_seq. lia.
Qed.

Definition binom32_sweep : bool :=
  forallb (fun n => forallb (fun k => (binom wrap_s32 n k =? binom ideal n k) && binom_exact wrap_s32 n k)
                            (range 0 31)) (range 0 30).

Lemma binom32_sweep_ok : binom32_sweep = true.
Proof. vm_compute. reflexivity. Qed.

Theorem binom32_no_overflow n k : 0 <= n <= 29 ->
  binom wrap_s32 n k = chooseZ n k /\ binom_exact wrap_s32 n k = true.
Proof.
intro Hn.
destruct (Z.ltb_spec k 0) as [Hk|Hk].
{ unfold binom, binom_exact. destruct (Z.ltb_spec k 0); [|lia]. cbn [orb]. rewrite chooseZ_neg_k by lia. split; reflexivity. }
destruct (Z.ltb_spec n k) as [Hnk|Hnk].
{ unfold binom, binom_exact. destruct (Z.ltb_spec n k); [|lia]. rewrite !orb_true_r. rewrite chooseZ_gt by lia. split; reflexivity. }
pose proof binom32_sweep_ok as S. unfold binom32_sweep in S. rewrite forallb_forall in S.
specialize (S n (range_in 0 30 n ltac:(lia))). rewrite forallb_forall in S.
specialize (S k (range_in 0 31 k ltac:(lia))). apply andb_true_iff in S. destruct S as [S1 S2].
apply Z.eqb_eq in S1. rewrite S1. split; [apply binom_ideal_correct|exact S2].
Qed.
