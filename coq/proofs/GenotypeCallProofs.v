(* Proofs about the executable model of the genotype call (property C08), model/GenotypeCall.v:
     determine_genotype returns Some g exactly when g is the unique maximum of the three likelihoods
     and exceeds the threshold, None exactly when there is no such g;
     the mass entering GQ is the complement of the called likelihood;
     two correct roundings of the same phred value differ by at most one.
   stdlib style. *)
From Coq Require Import ZArith QArith Qabs Qpower List Bool Lia Lqa.
From WH.Model Require Import GenotypeCall.
Import ListNotations.
Open Scope Q_scope.

(* ---------------------------------------------------------------- determine_genotype *)

Ltac dg_cases :=
  unfold determine_genotype, sort3; simpl fold_right; unfold insert_by; simpl fst;
  repeat (match goal with
          | |- context [Qlt_le_dec ?a ?b] => destruct (Qlt_le_dec a b)
          | H : context [Qlt_le_dec ?a ?b] |- _ => destruct (Qlt_le_dec a b)
          end; simpl fst in *; simpl snd in * ).

Lemma determine_genotype_some :
  forall l0 l1 l2 thr g, determine_genotype l0 l1 l2 thr = Some g ->
    unique_max_above [l0; l1; l2] thr g.
Proof.
  intros l0 l1 l2 thr g.
  dg_cases; intros H; try discriminate H; injection H as <-;
    (split; [lia|]); (split; [unfold nthq; simpl; assumption|]);
    intros h Hh Hne; destruct h as [|[|[|h]]]; try lia; unfold nthq; simpl; lra.
Qed.
Print Assumptions determine_genotype_some.

Lemma determine_genotype_complete :
  forall l0 l1 l2 thr g, unique_max_above [l0; l1; l2] thr g ->
    determine_genotype l0 l1 l2 thr = Some g.
Proof.
  intros l0 l1 l2 thr g (Hg & Hthr & Hmax).
  destruct g as [|[|[|g]]]; try lia.
  - assert (H1 := Hmax 1%nat ltac:(lia) ltac:(lia)).
    assert (H2 := Hmax 2%nat ltac:(lia) ltac:(lia)).
    unfold nthq in *; simpl in Hthr, H1, H2.
    dg_cases; try reflexivity; exfalso; lra.
  - assert (H1 := Hmax 0%nat ltac:(lia) ltac:(lia)).
    assert (H2 := Hmax 2%nat ltac:(lia) ltac:(lia)).
    unfold nthq in *; simpl in Hthr, H1, H2.
    dg_cases; try reflexivity; exfalso; lra.
  - assert (H1 := Hmax 0%nat ltac:(lia) ltac:(lia)).
    assert (H2 := Hmax 1%nat ltac:(lia) ltac:(lia)).
    unfold nthq in *; simpl in Hthr, H1, H2.
    dg_cases; try reflexivity; exfalso; lra.
Qed.
Print Assumptions determine_genotype_complete.

Lemma determine_genotype_none :
  forall l0 l1 l2 thr, determine_genotype l0 l1 l2 thr = None <->
    (forall g, ~ unique_max_above [l0; l1; l2] thr g).
Proof.
  intros l0 l1 l2 thr; split.
  - intros H g Hg. apply determine_genotype_complete in Hg. rewrite H in Hg. discriminate Hg.
  - intros H. destruct (determine_genotype l0 l1 l2 thr) as [g|] eqn:E; [|reflexivity].
    exfalso. apply (H g). apply determine_genotype_some. exact E.
Qed.
Print Assumptions determine_genotype_none.

(* ---------------------------------------------------------------- GQ mass *)

Lemma other_mass_complement :
  forall l0 l1 l2 g, (g < 3)%nat ->
    other_mass [l0; l1; l2] g + nthq [l0; l1; l2] g == sumq [l0; l1; l2].
Proof.
  intros l0 l1 l2 g Hg.
  destruct g as [|[|[|g]]]; try lia; unfold other_mass, nthq, sumq; simpl; ring.
Qed.
Print Assumptions other_mass_complement.

Lemma gq_is_other_mass :
  forall l0 l1 l2 g, (g < 3)%nat -> sumq [l0; l1; l2] == 1 ->
    other_mass [l0; l1; l2] g == 1 - nthq [l0; l1; l2] g.
Proof.
  intros l0 l1 l2 g Hg Hs.
  rewrite <- Hs. rewrite <- (other_mass_complement l0 l1 l2 g Hg). ring.
Qed.
Print Assumptions gq_is_other_mass.

(* ---------------------------------------------------------------- call_gt *)

Lemma call_gt_spec :
  forall l0 l1 l2 thr,
    match call_gt [l0; l1; l2] thr with
    | Some g => unique_max_above [l0; l1; l2] thr g
    | None => forall g, ~ unique_max_above [l0; l1; l2] thr g
    end.
Proof.
  intros l0 l1 l2 thr. unfold call_gt.
  change (nthq [l0; l1; l2] 0) with l0.
  change (nthq [l0; l1; l2] 1) with l1.
  change (nthq [l0; l1; l2] 2) with l2.
  destruct (determine_genotype l0 l1 l2 thr) as [g|] eqn:E.
  - apply determine_genotype_some. exact E.
  - apply determine_genotype_none. exact E.
Qed.
Print Assumptions call_gt_spec.

(* ---------------------------------------------------------------- phred rounding *)

Lemma pow10_lt : forall a b, (a < b)%Z -> pow10 a < pow10 b.
Proof.
  intros a b H. unfold pow10. apply Qpower_lt_compat_l; [exact H|reflexivity].
Qed.

Lemma phred_round_bounds :
  forall m n, phred_round m n = true ->
    pow10 (- (2 * n + 1)) <= m ^ 20 /\ m ^ 20 <= pow10 (- (2 * n - 1)).
Proof.
  intros m n H. unfold phred_round in H. apply andb_true_iff in H. destruct H as [H1 H2].
  apply Qle_bool_iff in H1. apply Qle_bool_iff in H2. split; assumption.
Qed.

Lemma phred_round_unique :
  forall m n1 n2, 0 < m -> phred_round m n1 = true -> phred_round m n2 = true ->
    (Z.abs (n1 - n2) <= 1)%Z.
Proof.
  intros m n1 n2 _ H1 H2.
  apply phred_round_bounds in H1. apply phred_round_bounds in H2.
  destruct H1 as [L1 U1]. destruct H2 as [L2 U2].
  destruct (Z_lt_le_dec 1 (Z.abs (n1 - n2))) as [Hd|Hd]; [exfalso|exact Hd].
  destruct (Z_lt_le_dec n1 n2) as [Hc|Hc].
  - assert (Hlt : pow10 (- (2 * n2 - 1)) < pow10 (- (2 * n1 + 1))) by (apply pow10_lt; lia).
    apply (Qlt_irrefl (m ^ 20)).
    eapply Qle_lt_trans; [exact U2|]. eapply Qlt_le_trans; [exact Hlt|exact L1].
  - assert (Hlt : pow10 (- (2 * n1 - 1)) < pow10 (- (2 * n2 + 1))) by (apply pow10_lt; lia).
    apply (Qlt_irrefl (m ^ 20)).
    eapply Qle_lt_trans; [exact U1|]. eapply Qlt_le_trans; [exact Hlt|exact L2].
Qed.
Print Assumptions phred_round_unique.

(* ---------------------------------------------------------------- non-vacuity *)

Example dg_ex1 : determine_genotype (1#4) (1#2) (1#4) 0 = Some 1%nat.
Proof. vm_compute; reflexivity. Qed.
Example dg_ex2 : determine_genotype (3#8) (3#8) (1#4) 0 = None.
Proof. vm_compute; reflexivity. Qed.
Example dg_ex3 : determine_genotype (1#4) (1#2) (1#4) (1#2) = None.
Proof. vm_compute; reflexivity. Qed.
Example gq_ex1 : gq_rule (2747 # 10000) 6 = true /\ gq_rule (2747 # 10000) 5 = false.
Proof. split; vm_compute; reflexivity. Qed.
