(* Witnesses: the code as it was (original_rules; single_alignment_kept: as it is, current_rules) refutes statements that hold for the repaired rules on the
   same inputs.  Each witness was first found on the real implementation by the correspondence check. *)
From Coq Require Import List Arith Bool ZArith Lia.
From WH.Model Require Import EditDist AlleleDetect.
From WH.Proofs Require Import AlleleDetectProofs AlleleDetectNoref.
Import ListNotations.

(* bases: A=65 C=67 G=71 T=84 *)

(* 1. reference TCTGCATCGTAGTCTCGC, deletion GC>G at 3, read TGCATCC = ref[2..8) + ref[13], CIGAR 6M5N1M at 2:
      the read carries REF, realign reports ALT *)
Theorem realign_with_skips_original_refuted : ~ realign_correct_with_skips_statement original_rules.
Proof.
intros H.
specialize (H [84;67;84;71;67;65;84;67;71;84;65;71;84;67;84;67;71;67]%Z [84;71;67;65;84;67;67]%Z 10
              (mkVar 3 [71;67]%Z [71]%Z) [(OpM, 6); (OpN, 5); (OpM, 1)] 0 1 1 OpM 6
              [] [OpM] [OpM; OpM] [OpM; OpM; OpM] [OpN; OpN; OpN; OpN; OpN; OpM]
              [84;67]%Z [84]%Z [65;84;67]%Z [71;84;65;71;84;67;84;67;71;67]%Z [] [67]%Z 0).
assert (Hr : realign original_rules [84;67;84;71;67;65;84;67;71;84;65;71;84;67;84;67;71;67]%Z 10
               (mkVar 3 [71;67]%Z [71]%Z) [(OpM, 6); (OpN, 5); (OpM, 1)] [84;71;67;65;84;67;67]%Z 0 1 1
             = Some (Some 1)) by (vm_compute; reflexivity).
rewrite Hr in H.
assert (Hc : Some (Some 1) = Some (Some 0) -> False) by discriminate.
apply Hc, H; try (vm_compute; reflexivity); try lia.
- repeat constructor.
- right. left. reflexivity.
- right. right. split; [reflexivity|]. exists [], [OpN; OpN; OpN; OpN; OpM]. split; reflexivity.
- cbn. discriminate.
Qed.

Lemma realign_with_skips_repaired : realign_correct_with_skips_statement repaired_rules.
Proof. unfold realign_correct_with_skips_statement. intros. eapply realign_correct; eauto. Qed.

(* the code as it is now (skip rule repaired by 8735279) *)
Lemma window_end_skip R R' rest : r_skip_consumed R = r_skip_consumed R' -> window_end R rest -> window_end R' rest.
Proof. intros E [H|[H1 H2]]; [now left|right]. split; [now rewrite <- E|exact H2]. Qed.

Lemma realign_with_skips_current : realign_correct_with_skips_statement current_rules.
Proof.
unfold realign_correct_with_skips_statement. intros.
eapply realign_correct; eauto.
Qed.

(* 2. reference GATCAGTC, insertion C>CGG at 3 (normalised: GG before 4), read GATTTCGGAGTC, CIGAR 3M2I1M2I4M:
      the read carries the listed insertion (second I) behind an unrelated insertion TT; reported: REF *)
Theorem detect_noref_never_wrong_original_refuted : ~ detect_noref_never_wrong_statement original_rules.
Proof.
intros H.
specialize (H [mkVar 3 [67]%Z [67;71;71]%Z] 0 [(OpM, 3); (OpI, 2); (OpM, 1); (OpI, 2); (OpM, 4)]
              [71;65;84;84;84;67;71;71;65;71;84;67]%Z [] 0 0 30 (mkVar 4 [] [71;71]%Z) 1
              [OpM; OpM; OpM; OpI; OpI; OpM] [OpI; OpI] [OpM; OpM; OpM; OpM]
              [71;65;84;84;84;67]%Z [65;71;84;67]%Z).
assert (Hc : 0 = 1 -> False) by discriminate.
apply Hc, H; try (vm_compute; reflexivity); try lia.
- vm_compute. split; constructor.
- vm_compute. now left.
- right. left. split; [reflexivity|discriminate].
- cbn. discriminate.
- exists []. repeat split.
- intros _. split; [exists [OpM; OpM; OpM; OpI; OpI], OpM|exists OpM, [OpM; OpM; OpM]]; split; reflexivity.
Qed.

(* 3. reference GATCAGTC, insertion C>CTT at 3, read AGTC aligned 4M at 4 (does not contain the anchor): reported REF *)
Theorem detect_noref_only_overlapped_original_refuted : ~ detect_noref_only_overlapped_statement original_rules.
Proof.
intros H.
specialize (H [mkVar 3 [67]%Z [67;84;84]%Z] 4 [(OpM, 4)] [65;71;84;67]%Z [] 0 0 30 (mkVar 3 [67]%Z [67;84;84]%Z)).
destruct H as [H _]; try (vm_compute; reflexivity).
- vm_compute. split; constructor.
- vm_compute. now left.
- vm_compute in H. lia.
Qed.

(* 4. a forward/reverse read pair: the allele of the forward mate is lost *)
Theorem pair_keeps_both_mates_original_refuted : ~ pair_keeps_both_mates_statement original_rules.
Proof.
intros H.
specialize (H 100000%Z (mkAR 0 false false 0 5 [(2, 1, 30)]) (mkAR 0 false true 5 10 [(7, 1, 30)]) (2, 1, 30)).
destruct H as (vs & Hv & Hin); try reflexivity.
- now left.
- intros y [<-|[<-|[]]]; [reflexivity|]. cbn. discriminate.
- vm_compute in Hv. injection Hv as <-. destruct Hin as [Hin|[]]. discriminate.
Qed.

(* 5. a primary alignment whose reference span exceeds the distance threshold drops out of its own group *)
Theorem single_alignment_kept_current_refuted : ~ single_alignment_kept_statement current_rules.
Proof.
intros H.
specialize (H 30%Z (mkAR 0 false false 0 40 [(2, 1, 30)]) (2, 1, 30)).
destruct H as (vs & Hv & Hin); try reflexivity; try lia.
- cbn. lia.
- now left.
- intros y [<-|[]]. reflexivity.
- vm_compute in Hv. injection Hv as <-. destruct Hin.
Qed.

Lemma pair_keeps_both_mates_repaired_example :
  read_from_group repaired_rules 100000%Z [mkAR 0 false false 0 5 [(2, 1, 30)]; mkAR 0 false true 5 10 [(7, 1, 30)]]
  = Some (0, [(2, 1, 30); (7, 1, 30)]).
Proof. vm_compute. reflexivity. Qed.
