(* Witnesses: the code as it was (original_rules) refutes statements that hold for the repaired rules on the
   same inputs.  Each witness was first found on the real implementation by the correspondence check. *)
From Coq Require Import List Arith Bool ZArith Lia.
From WH.Model Require Import EditDist AlleleDetect.
From WH.Proofs Require Import AlleleDetectProofs AlleleDetectNoref.
Import ListNotations.

(* bases: A=65 C=67 G=71 T=84 *)

(* 1. reference TCTGCATCGTAGTCTCGC, deletion GC>G at 3, read TGCATCC = ref[2..8) + ref[13], CIGAR 6M5N1M at 2:
      the read carries REF, realign reports ALT *)
Theorem realign_with_skips_original_refuted : ~ realign_correct_with_skips_statement original_rules.
Proof.
intros H.
specialize (H [84;67;84;71;67;65;84;67;71;84;65;71;84;67;84;67;71;67]%Z [84;71;67;65;84;67;67]%Z 10
              (mkVar 3 [71;67]%Z [71]%Z) [(OpM, 6); (OpN, 5); (OpM, 1)] 0 1 1 OpM 6
              [] [OpM] [OpM; OpM] [OpM; OpM; OpM] [OpN; OpN; OpN; OpN; OpN; OpM]
              [84;67]%Z [84]%Z [65;84;67]%Z [71;84;65;71;84;67;84;67;71;67]%Z [] [67]%Z 0).
assert (Hr : realign original_rules [84;67;84;71;67;65;84;67;71;84;65;71;84;67;84;67;71;67]%Z 10
               (mkVar 3 [71;67]%Z [71]%Z) [(OpM, 6); (OpN, 5); (OpM, 1)] [84;71;67;65;84;67;67]%Z 0 1 1
             = Some (Some 1)) by (vm_compute; reflexivity).
rewrite Hr in H.
assert (Hc : Some (Some 1) = Some (Some 0) -> False) by discriminate.
apply Hc, H; try (vm_compute; reflexivity); try lia.
- repeat constructor.
- right. left. reflexivity.
- right. right. split; [reflexivity|]. exists [], [OpN; OpN; OpN; OpN; OpM]. split; reflexivity.
- cbn. discriminate.
Qed.

Lemma realign_with_skips_repaired : realign_correct_with_skips_statement repaired_rules.
Proof. unfold realign_correct_with_skips_statement. intros. eapply realign_correct; eauto. Qed.

(* the code as it is now (skip rule repaired by 8735279) *)
Lemma window_end_skip R R' rest : r_skip_consumed R = r_skip_consumed R' -> window_end R rest -> window_end R' rest.
Proof. intros E [H|[H1 H2]]; [now left|right]. split; [now rewrite <- E|exact H2]. Qed.

Lemma realign_with_skips_current : realign_correct_with_skips_statement current_rules.
Proof.
unfold realign_correct_with_skips_statement. intros.
eapply realign_correct; eauto.
Qed.

(* 2. reference GATCAGTC, insertion C>CGG at 3 (normalised: GG before 4), read GATTTCGGAGTC, CIGAR 3M2I1M2I4M:
      the read carries the listed insertion (second I) behind an unrelated insertion TT; reported: REF *)
Theorem detect_noref_never_wrong_original_refuted : ~ detect_noref_never_wrong_statement original_rules.
Proof.
intros H.
specialize (H [mkVar 3 [67]%Z [67;71;71]%Z] 0 [(OpM, 3); (OpI, 2); (OpM, 1); (OpI, 2); (OpM, 4)]
              [71;65;84;84;84;67;71;71;65;71;84;67]%Z [] 0 0 30 (mkVar 4 [] [71;71]%Z) 1
              [OpM; OpM; OpM; OpI; OpI; OpM] [OpI; OpI] [OpM; OpM; OpM; OpM]
              [71;65;84;84;84;67]%Z [65;71;84;67]%Z).
assert (Hc : 0 = 1 -> False) by discriminate.
apply Hc, H; try (vm_compute; reflexivity); try lia.
- vm_compute. split; constructor.
- repeat constructor.
- vm_compute. now left.
- right. left. split; [reflexivity|discriminate].
- cbn. discriminate.
- exists []. repeat split.
- intros _. split; [exists [OpM; OpM; OpM; OpI; OpI], OpM|exists OpM, [OpM; OpM; OpM]]; split; reflexivity.
Qed.

(* 3. reference GATCAGTC, insertion C>CTT at 3, read AGTC aligned 4M at 4 (does not contain the anchor): reported REF *)
Theorem detect_noref_only_overlapped_original_refuted : ~ detect_noref_only_overlapped_statement original_rules.
Proof.
intros H.
specialize (H [mkVar 3 [67]%Z [67;84;84]%Z] 4 [(OpM, 4)] [65;71;84;67]%Z [] 0 0 30 (mkVar 3 [67]%Z [67;84;84]%Z)).
destruct H as [H _]; try (vm_compute; reflexivity).
- vm_compute. split; constructor.
- vm_compute. now left.
- vm_compute in H. lia.
Qed.

(* 4. a forward/reverse read pair: the allele of the forward mate is lost *)
Theorem pair_keeps_both_mates_original_refuted : ~ pair_keeps_both_mates_statement original_rules.
Proof.
intros H.
specialize (H 100000%Z (mkAR 0 false false 0 5 [(2, 1, 30)]) (mkAR 0 false true 5 10 [(7, 1, 30)]) (2, 1, 30)).
destruct H as (vs & Hv & Hin); try reflexivity; try lia.
- cbn. lia.
- now left.
- intros y [<-|[<-|[]]]; [reflexivity|]. cbn. discriminate.
- vm_compute in Hv. injection Hv as <-. destruct Hin as [Hin|[]]. discriminate.
Qed.

(* 5. a primary alignment whose reference span exceeds the distance threshold drops out of its own group *)
Theorem single_alignment_kept_original_refuted : ~ single_alignment_kept_statement original_rules.
Proof.
intros H.
specialize (H 30%Z (mkAR 0 false false 0 40 [(2, 1, 30)]) (2, 1, 30)).
destruct H as (vs & Hv & Hin); try reflexivity; try lia.
- cbn. lia.
- now left.
- intros y [<-|[]]. reflexivity.
- vm_compute in Hv. injection Hv as <-. destruct Hin.
Qed.

Lemma pair_keeps_both_mates_repaired_example :
  read_from_group repaired_rules 100000%Z [mkAR 0 false false 0 5 [(2, 1, 30)]; mkAR 0 false true 5 10 [(7, 1, 30)]]
  = Some (0, [(2, 1, 30); (7, 1, 30)]).
Proof. vm_compute. reflexivity. Qed.

(* --- the code as it is now satisfies the two grouping statements *)
Lemma lookup_pos_some p l y : lookup_pos p l = Some y -> In y l /\ fst (fst y) = p.
Proof.
induction l as [|[[p' a] q] l IH]; [discriminate|]. cbn [lookup_pos]. destruct (p' =? p) eqn:E.
- intros H. injection H as <-. apply Nat.eqb_eq in E. split; [now left|exact E].
- intros H. destruct (IH H). split; [now right|assumption].
Qed.

Lemma collect_keeps (x : rvar) : forall vs seen skip seen' skip',
  collect vs seen skip = (seen', skip') ->
  (In x seen \/ In x vs) ->
  (forall y, In y seen \/ In y vs -> fst (fst y) = fst (fst x) -> y = x) ->
  ~ In (fst (fst x)) skip ->
  In x seen' /\ ~ In (fst (fst x)) skip'.
Proof.
induction vs as [|[[p a] q] vs IH]; intros seen skip seen' skip' H Hin Hu Hs.
- cbn in H. injection H as <- <-. destruct Hin as [Hin|[]]. now split.
- cbn [collect] in H. destruct (lookup_pos p seen) as [[[p0 a0] q0]|] eqn:El.
  + destruct (lookup_pos_some _ _ _ El) as [Hy0 Hp0]. cbn [fst] in Hp0. subst p0.
    apply (IH seen (if a0 =? a then skip else p :: skip) seen' skip' H).
    * destruct Hin as [Hin|[Hin|Hin]]; [now left| |now right].
      left. assert (E : (p, a0, q0) = x) by (apply Hu; [now left|rewrite <- Hin; reflexivity]).
      rewrite <- E. exact Hy0.
    * intros y [Hy|Hy] Hp; apply Hu; auto. right. now right.
    * destruct (a0 =? a) eqn:Ea; [exact Hs|]. intros [Hp|Hp]; [|now apply Hs].
      apply Nat.eqb_neq in Ea. apply Ea.
      assert (H1 : (p, a0, q0) = x) by (apply Hu; [now left|exact Hp]).
      assert (H2 : (p, a, q) = x) by (apply Hu; [right; now left|exact Hp]).
      rewrite <- H2 in H1. now injection H1.
  + apply (IH (seen ++ [(p, a, q)]) skip seen' skip' H).
    * destruct Hin as [Hin|[Hin|Hin]]; [left; apply in_or_app; now left|left; apply in_or_app; right; now left|now right].
    * intros y [Hy|Hy] Hp; apply Hu; auto.
      -- apply in_app_or in Hy as [Hy|[Hy|[]]]; [now left|right; now left].
      -- right. now right.
    * exact Hs.
Qed.

Lemma insert_sorted_in (x y : rvar) l : In y (insert_sorted x l) <-> y = x \/ In y l.
Proof.
induction l as [|z l IH]; cbn [insert_sorted].
- split; [intros [H|[]]; now left|intros [->|[]]; now left].
- destruct (fst (fst z) <=? fst (fst x)).
  + cbn [In]. rewrite IH. tauto.
  + cbn [In]. split; [intros [H|H]; [left; now symmetry|now right]|intros [->|H]; [now left|now right]].
Qed.

Lemma sort_rvars_in (y : rvar) l : In y (sort_rvars l) <-> In y l.
Proof.
unfold sort_rvars.
assert (H : forall acc, In y (fold_left (fun acc x => insert_sorted x acc) l acc) <-> In y acc \/ In y l).
{ induction l as [|x l IH]; intros acc; cbn [fold_left]; [cbn [In]; tauto|]. rewrite IH, insert_sorted_in. cbn [In]. split; intros; intuition congruence. }
rewrite H. cbn [In]. tauto.
Qed.

Lemma group_output_contains (used : list aligned_read) (x : rvar) :
  In x (flat_map ar_vars used) ->
  (forall y, In y (flat_map ar_vars used) -> fst (fst y) = fst (fst x) -> y = x) ->
  forall seen skip, collect (flat_map ar_vars used) [] [] = (seen, skip) ->
  In x (sort_rvars (filter (fun v : rvar => negb (existsb (Nat.eqb (fst (fst v))) skip)) seen)).
Proof.
intros Hin Hu seen skip Hc.
destruct (collect_keeps x _ [] [] seen skip Hc) as [Hs Hk]; auto.
- intros y [[]|Hy] Hp. now apply Hu.
- apply sort_rvars_in, filter_In. split; [exact Hs|].
  destruct (existsb (Nat.eqb (fst (fst x))) skip) eqn:E; [|reflexivity].
  apply existsb_exists in E as (p & Hp & Ep). apply Nat.eqb_eq in Ep. subst p. contradiction.
Qed.

Theorem single_alignment_kept_current : single_alignment_kept_statement current_rules.
Proof.
intros threshold r x Hth Hsupp Hse Hin Hu.
unfold read_from_group. cbn [last_primary filter]. rewrite Hsupp. cbn [negb length Nat.ltb Nat.leb].
assert (Hused : group_member_used current_rules threshold r r = true).
{ unfold group_member_used. rewrite eqb_reflx. cbn [orb andb]. unfold ar_distance. cbn [r_distance current_rules].
  apply Z.leb_le. lia. }
rewrite Hused. cbn [flat_map]. rewrite app_nil_r.
destruct (collect (ar_vars r) [] []) as [seen skip] eqn:Ec.
eexists. split; [reflexivity|].
apply (group_output_contains [r]); cbn [flat_map]; rewrite ?app_nil_r; auto.
Qed.

Theorem pair_keeps_both_mates_current : pair_keeps_both_mates_statement current_rules.
Proof.
intros threshold r1 r2 x Hth Hse Hs1 Hs2 Hname Hd Hin Hu.
unfold read_from_group. cbn [last_primary filter]. rewrite Hs1, Hs2. cbn [negb length Nat.ltb Nat.leb].
assert (Hu1 : group_member_used current_rules threshold r2 r1 = true).
{ unfold group_member_used. rewrite Hs1, Hd. cbn. now rewrite orb_true_r. }
assert (Hu2 : group_member_used current_rules threshold r2 r2 = true).
{ unfold group_member_used. rewrite eqb_reflx. cbn [orb andb]. unfold ar_distance. cbn [r_distance current_rules].
  apply Z.leb_le. lia. }
rewrite Hu1, Hu2. cbn [flat_map]. rewrite app_nil_r.
destruct (collect (ar_vars r1 ++ ar_vars r2) [] []) as [seen skip] eqn:Ec.
eexists. split; [reflexivity|].
apply (group_output_contains [r1; r2]); cbn [flat_map]; rewrite ?app_nil_r; auto.
apply in_or_app. now left.
Qed.

(* --- read groups: the groups of a sample do not depend on the order of the @RG lines *)
Lemma sample_groups_spec (h : rg_header) (s g : nat) : In g (sample_groups h s) <-> In (g, Some s) h.
Proof.
unfold sample_groups. rewrite in_map_iff. split.
- intros ([g' sm] & <- & Hin). apply filter_In in Hin as [Hin Hs]. cbn [fst snd] in *.
  destruct sm as [s'|]; [|discriminate]. apply Nat.eqb_eq in Hs. now subst.
- intros Hin. exists (g, Some s). split; [reflexivity|]. apply filter_In. split; [exact Hin|]. cbn. apply Nat.eqb_refl.
Qed.

Lemma select_by_rg_spec {A} (gs : list nat) : forall (rgs : list (option nat)) (alns : list A) (a : A),
  In a (select_by_rg gs rgs alns) <->
  exists k g, nth_error alns k = Some a /\ nth_error rgs k = Some (Some g) /\ In g gs.
Proof.
induction rgs as [|r rgs IH]; intros alns a.
- cbn. split; [intros []|]. intros (k & g & _ & H & _). destruct k; discriminate.
- destruct alns as [|b alns].
  + destruct r; cbn; (split; [intros []|]); intros (k & g & H & _); destruct k; discriminate.
  + assert (Hshift : (exists k g, nth_error alns k = Some a /\ nth_error rgs k = Some (Some g) /\ In g gs) ->
                     exists k g, nth_error (b :: alns) k = Some a /\ nth_error (r :: rgs) k = Some (Some g) /\ In g gs).
    { intros (k & g & H1 & H2 & H3). exists (S k), g. auto. }
    destruct r as [g0|]; cbn [select_by_rg].
    * destruct (existsb (Nat.eqb g0) gs) eqn:E.
      -- cbn [In]. rewrite IH. split.
         ++ intros [<-|H]; [|auto]. exists 0, g0. repeat split.
            apply existsb_exists in E as (x & Hx & Ex). apply Nat.eqb_eq in Ex. now subst.
         ++ intros ([|k] & g & H1 & H2 & H3); [left; cbn in H1; congruence|right; exists k, g; auto].
      -- rewrite IH. split; [auto|].
         intros ([|k] & g & H1 & H2 & H3); [|exists k, g; auto].
         cbn in H2. injection H2 as <-. exfalso.
         assert (existsb (Nat.eqb g0) gs = true); [|congruence].
         apply existsb_exists. exists g0. split; [exact H3|apply Nat.eqb_refl].
    * rewrite IH. split; [auto|]. intros ([|k] & g & H1 & H2 & H3); [cbn in H2; discriminate|exists k, g; auto].
Qed.

(* fetch(sample = s) delivers exactly the alignments whose RG tag names a read group with SM = s, wherever the @RG
   lines of the sample stand in the header *)
Theorem sample_select_spec (h : rg_header) (s : nat) (rgs : list (option nat)) (alns l : list alignment) (a : alignment) :
  sample_select h (Some s) rgs alns = (Some l, 0) ->
  (In a l <-> exists k g, nth_error alns k = Some a /\ nth_error rgs k = Some (Some g) /\ In (g, Some s) h).
Proof.
unfold sample_select. destruct (sample_groups h s) as [|g0 gs] eqn:Eg; [discriminate|].
destruct (existsb _ rgs); [discriminate|]. intros H. injection H as <-.
rewrite select_by_rg_spec. split; intros (k & g & H1 & H2 & H3); exists k, g; repeat split; auto.
- apply sample_groups_spec. now rewrite Eg.
- rewrite <- Eg. now apply sample_groups_spec.
Qed.

(* --- restricted genotypes *)
Lemma realign_all_r_none R reference overhang variants cig query ys :
  realign_all_r R reference overhang variants None cig query ys = realign_all R reference overhang variants cig query ys.
Proof.
induction ys as [|[[[j i] c] qp] ys IH]; [reflexivity|].
cbn [realign_all_r realign_all restriction_of]. destruct (nth_error variants j); [|reflexivity].
cbn [realign_restricted]. rewrite IH. reflexivity.
Qed.

Lemma alignments_to_reads_r_none R reference overhang variants alns :
  alignments_to_reads_r R reference overhang variants None alns = alignments_to_reads R reference overhang variants alns.
Proof.
induction alns as [|a r IH]; [reflexivity|]. cbn [alignments_to_reads_r alignments_to_reads]. rewrite IH.
assert (H : detect_one_r R reference overhang variants None a = detect_one R reference overhang variants a).
{ unfold detect_one_r, detect_one, detect_by_alignment_r, detect_by_alignment. destruct reference; [|reflexivity].
  destruct (a_cigar a); [reflexivity|]. now rewrite realign_all_r_none. }
now rewrite H.
Qed.

(* without restriction (every caller except haplotagphase) the restricted functions are the unrestricted ones *)
Theorem read_set_r_none R reference overhang mapq use_supp dup threshold variants alns :
  read_set_r R reference overhang mapq use_supp dup threshold variants None alns
  = read_set R reference overhang mapq use_supp dup threshold variants alns.
Proof. unfold read_set_r, read_set. now rewrite alignments_to_reads_r_none. Qed.

(* under the hypotheses of realign_correct, a restriction to any genotype that contains the carried allele still
   yields the carried allele (and a genotype consisting of the carried allele alone yields it as well) *)
Theorem realign_restricted_correct :
  forall (R : rules) (reference query : list Z) (overhang : nat) (v : variant) (cig : cigar)
         (i consumed qpos : nat) (op : cop) (len : nat) (pre LM V RM post : list cop)
         (r1 WL WR r2 q1 q2 : list Z) (carried : nat) (g : list nat),
  0 < overhang -> positive_lengths cig ->
  nth_error cig i = Some (op, len) -> consumed <= len ->
  firstn (unit_index cig i consumed) (expand cig) = pre ++ LM ->
  skipn (unit_index cig i consumed) (expand cig) = V ++ RM ++ post ->
  forallb is_match LM = true -> forallb is_match RM = true -> forallb is_aligned V = true ->
  carried <= 1 ->
  ref_units V = length (vref v) -> query_units V = length (get_allele v carried) ->
  (overhang <= length LM \/ window_end R (rev pre)) ->
  (overhang <= length RM \/ window_end R post) ->
  reference = r1 ++ WL ++ vref v ++ WR ++ r2 -> vpos v = length r1 + length WL ->
  query = q1 ++ WL ++ get_allele v carried ++ WR ++ q2 ->
  length WL = length LM -> length WR = length RM ->
  length q1 = query_units pre -> qpos = query_units (pre ++ LM) ->
  vref v <> valt v -> is_symbolic v = false ->
  In carried g ->
  realign_restricted R reference overhang v cig query i consumed qpos (Some g) = Some (Some carried).
Proof.
intros R reference query overhang v cig i consumed qpos op len pre LM V RM post r1 WL WR r2 q1 q2 carried g
       Hov Hpos Hnth Hcons Hleft Hright HLM HRM HV Hc HVr HVq Hle Hre Href Hvp Hq HWL HWR Hq1 Hqpos Hd Hs Hin.
pose proof (realign_correct R reference query overhang v cig i consumed qpos op len pre LM V RM post r1 WL WR r2 q1 q2
              carried Hov Hpos Hnth Hcons Hleft Hright HLM HRM HV Hc HVr HVq Hle Hre Href Hvp Hq HWL HWR Hq1 Hqpos Hd Hs) as Hr.
unfold realign in Hr. rewrite Hs in Hr. unfold realign_restricted. rewrite Hs.
destruct g as [|g0 g']; [contradiction|].
destruct (windows R reference overhang v cig query i consumed qpos) as [[[q pref] palt]|]; [|discriminate].
assert (Hex : existsb (Nat.eqb carried) (g0 :: g') = true).
{ apply existsb_exists. exists carried. split; [exact Hin|apply Nat.eqb_refl]. }
destruct carried as [|[|c]]; [| |lia]; rewrite Hex.
- destruct (existsb (Nat.eqb 1) (g0 :: g')); [exact Hr|reflexivity].
- destruct (existsb (Nat.eqb 0) (g0 :: g')); [exact Hr|reflexivity].
Qed.
