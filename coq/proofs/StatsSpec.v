(* C12 — with the repaired classification, what one chromosome reports equals the independent
   count over its record list (counts, block list, length bound). *)
From Coq Require Import ZArith List Bool Arith Lia Sorted Permutation.
From WH.Model Require Import Stats.
From WH.Proofs Require Import StatsSort StatsPieces StatsCounts StatsRows.
Import ListNotations.
Open Scope Z_scope.

Local Notation RR := repaired_rules.

(* ---------------------------------------------------------------------------------------------- *)
(* per call: the repaired model classifies like the specification                                  *)
Lemma forallb_false_exists : forall (A : Type) (f : A -> bool) l, forallb f l = false -> exists x, In x l /\ f x = false.
Proof.
  induction l as [|x l IH]; cbn [forallb]; intros H. discriminate.
  destruct (f x) eqn:E.
  - destruct (IH H) as (y & Hy & Ey). exists y. split. right; exact Hy. exact Ey.
  - exists x. split. left; reflexivity. exact E.
Qed.

Lemma pair_differs : forall a r,
  existsb (fun x => existsb (fun y => negb (x =? y)) (a :: r)) (a :: r) = negb (forallb (Z.eqb a) r).
Proof.
  intros a r. destruct (forallb (Z.eqb a) r) eqn:E; cbn [negb].
  - apply not_true_is_false. intro H. apply existsb_exists in H. destruct H as (x & Hx & H).
    apply existsb_exists in H. destruct H as (y & Hy & H).
    rewrite forallb_forall in E.
    assert (Hall : forall z, In z (a :: r) -> z = a).
    { intros z [<-|Hz]. reflexivity. specialize (E z Hz). apply Z.eqb_eq in E. congruence. }
    rewrite (Hall x Hx), (Hall y Hy), Z.eqb_refl in H. discriminate.
  - destruct (forallb_false_exists _ _ _ E) as (y & Hy & Ey).
    apply existsb_exists. exists a. split. left; reflexivity.
    apply existsb_exists. exists y. split. right; exact Hy. rewrite Ey. reflexivity.
Qed.

Lemma all_some_map : forall l g, all_some l = Some g -> l = map Some g.
Proof.
  induction l as [|[a|] l IH]; cbn [all_some]; intros g H.
  - injection H as <-. reflexivity.
  - destruct (all_some l) as [g'|] eqn:E; [|discriminate]. injection H as <-. cbn [map]. rewrite (IH g' eq_refl). reflexivity.
  - discriminate.
Qed.

Lemma het_agree : forall r, counts_as_het RR (row_of r) = spec_het (r_call r).
Proof.
  intros r. unfold counts_as_het, row_of, spec_het, genotype_code. cbn [t_gt skip_missing_gt repaired_rules andb].
  destruct (c_gt (r_call r)) as [l|]. 2: reflexivity.
  destruct (all_some l) as [g|]. 2: reflexivity.
  destruct g as [|a g]. reflexivity.
  cbn [is_homozygous is_none negb]. rewrite andb_true_r. symmetry. apply pair_differs.
Qed.

Lemma forallb_map_some : forall a r, forallb (key_eqb (Some a)) (map Some r) = forallb (Z.eqb a) r.
Proof. induction r as [|b r IH]; cbn [map forallb key_eqb]. reflexivity. rewrite IH. reflexivity. Qed.

Lemma phase_agree : forall r, spec_het (r_call r) = true ->
  eff_phase RR (row_of r) = match spec_phase_set (r_call r) with Some i => Some (Some i) | None => None end.
Proof.
  intros r H. unfold eff_phase, row_of. cbn [t_phase]. unfold extract_phase, spec_phase_set.
  set (c := r_call r) in *. destruct (c_hp c) as [b|]. reflexivity.
  assert (Hraw : raw_het (c_gt c) = true).
  { unfold spec_het in H. destruct (c_gt c) as [l|]. 2: discriminate.
    destruct (all_some l) as [g|] eqn:E. 2: discriminate.
    rewrite (all_some_map l g E). destruct g as [|a g]. discriminate.
    cbn [map raw_het]. rewrite forallb_map_some. rewrite pair_differs in H. exact H. }
  rewrite Hraw, andb_true_r. destruct (c_phased c). 2: reflexivity.
  destruct (c_ps c); reflexivity.
Qed.

(* ---------------------------------------------------------------------------------------------- *)
(* the entries of the dictionary in terms of the heterozygous records                              *)
Definition var_of (r : vrec) : var := mkVar (r_pos r) (r_snv r).
Definition ent (r : vrec) : list (key * var) :=
  match spec_phase_set (r_call r) with Some i => [(Some i, var_of r)] | None => [] end.
Definition ents (hs : list vrec) : list (key * var) := flat_map ent hs.

Lemma ents_cons : forall r hs, ents (r :: hs) = ent r ++ ents hs.
Proof. reflexivity. Qed.

Lemma hrows_hets : forall cs, hrows RR (map row_of cs) = map row_of (hets cs).
Proof.
  intros cs. unfold hrows, hets. rewrite filter_map_comm. f_equal. apply filter_ext_in'.
  intros r _. apply het_agree.
Qed.

Lemma entries_ents : forall cs, entries RR (map row_of cs) = ents (hets cs).
Proof.
  intros cs. unfold entries. rewrite hrows_hets.
  assert (H : forall hs, (forall r, In r hs -> spec_het (r_call r) = true) ->
                         flat_map (entry_of RR) (map row_of hs) = ents hs).
  { induction hs as [|r hs IH]; intros Hh. reflexivity.
    cbn [map flat_map ents]. rewrite IH. 2:{ intros r' Hr'. apply Hh. right; exact Hr'. }
    f_equal. unfold entry_of, ent.
    rewrite (phase_agree _ (Hh r (or_introl eq_refl))). destruct (spec_phase_set (r_call r)); reflexivity. }
  apply H. intros r Hr. unfold hets in Hr. apply filter_In in Hr. tauto.
Qed.

Lemma sel_ents_some : forall hs i, sel (Some i) (ents hs) = map var_of (set_members hs i).
Proof.
  intros hs i. induction hs as [|r hs IH]. reflexivity.
  rewrite ents_cons, sel_app, IH. unfold set_members. cbn [filter].
  unfold in_set at 2, ent. destruct (spec_phase_set (r_call r)) as [j|].
  - unfold sel. cbn [filter fst key_eqb]. destruct (j =? i); reflexivity.
  - reflexivity.
Qed.
Lemma sel_ents_none : forall hs, sel None (ents hs) = [].
Proof.
  induction hs as [|r hs IH]. reflexivity.
  rewrite ents_cons, sel_app, IH. unfold ent.
  destruct (spec_phase_set (r_call r)); reflexivity.
Qed.
Lemma cnt_ents : forall hs i, length (sel (Some i) (ents hs)) = set_size hs i.
Proof. intros hs i. rewrite sel_ents_some, map_length. reflexivity. Qed.

Lemma set_ids_members : forall hs i, In i (set_ids hs) <-> set_members hs i <> [].
Proof.
  intros hs i. induction hs as [|r hs IH]; cbn [set_ids]. split. intros []. intro H; apply H; reflexivity.
  unfold set_members in *. cbn [filter]. unfold in_set at 1.
  destruct (spec_phase_set (r_call r)) as [j|].
  - cbn [In]. destruct (j =? i) eqn:E.
    + apply Z.eqb_eq in E. subst. split. intros _. discriminate. intros _. left; reflexivity.
    + apply Z.eqb_neq in E. rewrite IH. split. intros [H|H]. contradiction. exact H. intro H. right; exact H.
  - exact IH.
Qed.

Lemma ents_keys_some : forall hs e, In e (ents hs) -> exists i, fst e = Some i.
Proof.
  intros hs e H. unfold ents in H. apply in_flat_map in H. destruct H as (r & _ & H). unfold ent in H.
  destruct (spec_phase_set (r_call r)) as [i|]. destruct H as [<-|[]]. exists i. reflexivity. destruct H.
Qed.

(* counting through the entries *)
Lemma count_transfer : forall (P : nat -> bool) hs, P O = false -> forall hs',
  length (filter (fun r => P (own_set_size hs r)) hs') =
  length (filter (fun e => P (length (sel (fst e) (ents hs)))) (ents hs')).
Proof.
  intros P hs P0. induction hs' as [|r hs' IH]. reflexivity.
  rewrite ents_cons. cbn [filter]. rewrite filter_app, app_length, <- IH.
  unfold own_set_size at 1, ent. destruct (spec_phase_set (r_call r)) as [i|].
  - cbn [filter fst]. rewrite cnt_ents. destruct (P (set_size hs i)); cbn [length]; lia.
  - rewrite P0. reflexivity.
Qed.
Lemma count_transfer_snv : forall (P : nat -> bool) hs, P O = false -> forall hs',
  length (filter r_snv (filter (fun r => P (own_set_size hs r)) hs')) =
  length (filter (fun e => P (length (sel (fst e) (ents hs)))) (filter (fun e => v_snv (snd e)) (ents hs'))).
Proof.
  intros P hs P0. induction hs' as [|r hs' IH]. reflexivity.
  rewrite ents_cons. cbn [filter]. rewrite !filter_app, app_length, <- IH.
  unfold own_set_size at 1, ent. destruct (spec_phase_set (r_call r)) as [i|].
  - cbn [filter snd var_of v_snv].
    destruct (r_snv r) eqn:ES; destruct (P (set_size hs i)) eqn:EP; cbn [filter length fst]; rewrite ?ES, ?cnt_ents, ?EP; cbn [length]; lia.
  - rewrite P0. reflexivity.
Qed.

(* ---------------------------------------------------------------------------------------------- *)
(* the sorted dictionary is the list of phase sets in id order                                     *)
Lemma ssorted_map_in : forall (A B : Type) (R : A -> A -> Prop) (R' : B -> B -> Prop) (f : A -> B) L,
  StronglySorted R L -> (forall a b, In a L -> In b L -> R a b -> R' (f a) (f b)) -> StronglySorted R' (map f L).
Proof.
  intros A B R R' f L H. induction H as [|a L Hs IH Hall]; intros Hf; cbn [map]. constructor.
  constructor.
  - apply IH. intros x y Hx Hy. apply Hf; right; assumption.
  - rewrite Forall_forall in Hall |- *. intros y Hy. apply in_map_iff in Hy. destruct Hy as (b & <- & Hb).
    apply Hf. left; reflexivity. right; exact Hb. apply Hall. exact Hb.
Qed.
Lemma map_canon : forall (A B : Type) (g : B -> A) (h : A -> B) L, (forall x, In x L -> x = g (h x)) -> L = map g (map h L).
Proof.
  induction L as [|x L IH]; intros H. reflexivity. cbn [map]. rewrite <- (H x (or_introl eq_refl)).
  f_equal. apply IH. intros y Hy. apply H. right; exact Hy.
Qed.

Definition unS (k : key) : Z := match k with Some i => i | None => 0 end.

Lemma before_key_irrefl : forall x, before_key x x = false.
Proof. intros [[i|] b]; unfold before_key; cbn [fst key_ltb]. apply Z.ltb_irrefl. reflexivity. Qed.
Lemma before_key_trans : forall x y z, before_key x y = true -> before_key z y = false -> before_key z x = false.
Proof.
  intros [[i|] bx] [[j|] by_] [[k|] bz]; unfold before_key; cbn [fst key_ltb]; intros H1 H2; try reflexivity; try discriminate.
  apply Z.ltb_lt in H1. apply Z.ltb_ge in H2. apply Z.ltb_ge. lia.
Qed.

(* the dictionary lists the phase sets in order of first occurrence *)
Lemma keys_dict_build : forall l d,
  map fst (dict_build l d) =
  fold_left (fun ks (e : key * var) => if existsb (key_eqb (fst e)) ks then ks else ks ++ [fst e]) l (map fst d).
Proof.
  induction l as [|[k v] l IH]; intros d; unfold dict_build in *; cbn [fold_left fst snd]. reflexivity.
  rewrite IH, keys_dict_add. reflexivity.
Qed.
Lemma existsb_some : forall i zs, existsb (key_eqb (Some i)) (map Some zs) = zmem i zs.
Proof. induction zs as [|z zs IH]; cbn [map existsb zmem key_eqb]. reflexivity. rewrite IH. reflexivity. Qed.
Lemma keys_ents : forall hs zs,
  fold_left (fun ks (e : key * var) => if existsb (key_eqb (fst e)) ks then ks else ks ++ [fst e]) (ents hs) (map Some zs) =
  map Some (fold_left (fun acc i => if zmem i acc then acc else acc ++ [i]) (set_ids hs) zs).
Proof.
  induction hs as [|r hs IH]; intros zs. reflexivity.
  rewrite ents_cons, fold_left_app. cbn [set_ids]. unfold ent. destruct (spec_phase_set (r_call r)) as [i|].
  - cbn [fold_left fst]. rewrite existsb_some. destruct (zmem i zs).
    + apply IH.
    + rewrite <- (IH (zs ++ [i])). rewrite map_app. reflexivity.
  - cbn [fold_left]. apply IH.
Qed.

Section ChromSpec.
  Variable hs : list vrec.
  Let l := ents hs.
  Let d := dict_build l [].
  Let Hd : dinv d l := dict_build_dinv l.

  Definition G (i : Z) : key * pblock := (Some i, pb_of_vars (map var_of (set_members hs i))).

  Lemma keys_all_some : forall k, In k (map fst d) -> exists i, k = Some i /\ In i (set_ids hs).
  Proof.
    intros k Hk. apply (dict_keys d l Hd) in Hk. destruct k as [i|].
    - exists i. split. reflexivity. apply set_ids_members. unfold l in Hk. rewrite sel_ents_some in Hk.
      intro E. rewrite E in Hk. apply Hk. reflexivity.
    - unfold l in Hk. rewrite sel_ents_none in Hk. contradiction.
  Qed.
  Lemma some_key_in : forall i, In i (set_ids hs) -> In (Some i) (map fst d).
  Proof.
    intros i Hi. apply (dict_keys d l Hd). unfold l. rewrite sel_ents_some. apply set_ids_members in Hi.
    intro E. apply map_eq_nil in E. contradiction.
  Qed.
  Lemma not_mixed : mixed_keys d = false.
  Proof.
    unfold mixed_keys. apply andb_false_iff. left. apply not_true_is_false. intro H.
    apply existsb_exists in H. destruct H as ([k b] & Hin & Hk). cbn [fst] in Hk.
    destruct (keys_all_some k) as (i & -> & _). apply in_map_iff. exists (k, b). auto. discriminate.
  Qed.

  Lemma dict_elem : forall kb, In kb d -> kb = G (unS (fst kb)) /\ In (unS (fst kb)) (set_ids hs).
  Proof.
    intros [k b] Hin. destruct (dict_entry d l Hd k b Hin) as [_ Eb].
    destruct (keys_all_some k) as (i & -> & Hi). apply in_map_iff. exists (k, b). auto.
    cbn [fst unS]. split. 2: exact Hi. unfold G. f_equal. rewrite Eb. unfold l. rewrite sel_ents_some. reflexivity.
  Qed.

  Lemma sorted_keys_eq : sort_keys d = map G (distinct_ids hs).
  Proof.
    set (sd := sort_keys d).
    assert (Hin : forall kb, In kb sd <-> In kb d) by (intros kb; apply sort_by_in).
    rewrite (map_canon _ _ G (fun kb => unS (fst kb)) sd).
    2:{ intros kb Hkb. apply dict_elem. apply Hin. exact Hkb. }
    f_equal. apply strict_sorted_unique.
    - (* strictly sorted *)
      apply sorted_nodup_strict.
      + apply (ssorted_map_in _ _ (ord before_key) Z.le (fun kb => unS (fst kb)) sd).
        * apply sort_by_sorted. apply before_key_irrefl. apply before_key_trans.
        * intros a b Ha Hb Hab. apply Hin in Ha, Hb.
          destruct (dict_elem a Ha) as [Ea _]. destruct (dict_elem b Hb) as [Eb _].
          unfold ord, before_key in Hab. rewrite Ea, Eb in Hab |- *. cbn [G fst unS key_ltb] in *.
          apply Z.ltb_ge in Hab. exact Hab.
      + assert (Hn : NoDup (map fst sd)).
        { eapply Permutation_NoDup. apply Permutation_sym. apply Permutation_map. apply sort_by_perm.
          exact (dinv_nodup d l Hd). }
        assert (Hsome : forall k, In k (map fst sd) -> exists i, k = Some i).
        { intros k Hk. apply in_map_iff in Hk. destruct Hk as (kb & <- & Hkb). apply Hin in Hkb.
          destruct (keys_all_some (fst kb)) as (i & E & _). apply in_map. exact Hkb. exists i. exact E. }
        rewrite <- (map_map fst unS).
        revert Hn Hsome. generalize (map fst sd). intros ks Hn. induction Hn as [|k ks Hnin Hn IH]; intros Hs; cbn [map]. constructor.
        constructor.
        * intro Hc. apply in_map_iff in Hc. destruct Hc as (k' & E & Hk').
          destruct (Hs k (or_introl eq_refl)) as (i & ->). destruct (Hs k' (or_intror Hk')) as (i' & ->).
          cbn [unS] in E. subst i'. contradiction.
        * apply IH. intros k' Hk'. apply Hs. right; exact Hk'.
    - apply sorted_nodup_strict. apply sort_asc_sorted.
      eapply Permutation_NoDup. apply Permutation_sym. apply sort_asc_perm. apply znodup_NoDup.
    - intros x. unfold distinct_ids, sort_asc. rewrite sort_by_in, znodup_In. split.
      + intros Hx. apply in_map_iff in Hx. destruct Hx as (kb & <- & Hkb). apply Hin in Hkb.
        apply dict_elem. exact Hkb.
      + intros Hx. apply some_key_in in Hx. apply in_map_iff in Hx. destruct Hx as ([k b] & E & Hkb).
        cbn [fst] in E. subst k. apply in_map_iff. exists (Some x, b). split. reflexivity. apply Hin. exact Hkb.
  Qed.

  Lemma sizes_G : forall zs,
    map zlen (filter bigb (map snd (map G zs))) =
    map (fun i => Z.of_nat (set_size hs i)) (filter (fun i => Nat.ltb 1 (set_size hs i)) zs).
  Proof.
    induction zs as [|i zs IH]; cbn [map filter snd G]. reflexivity.
    unfold bigb at 1. rewrite pb_of_vars_len, map_length. fold (set_size hs i).
    destruct (Nat.ltb 1 (set_size hs i)); cbn [map]; rewrite IH. 2: reflexivity.
    f_equal. unfold zlen. rewrite pb_of_vars_len, map_length. reflexivity.
  Qed.

  Lemma members_nonempty : forall i, In i (distinct_ids hs) -> set_members hs i <> [].
  Proof.
    intros i Hi. unfold distinct_ids, sort_asc in Hi. rewrite sort_by_in, znodup_In in Hi.
    apply set_ids_members. exact Hi.
  Qed.

  Lemma blocklist_eq :
    map bl_line (sort_keys d) =
    map (fun i => let m := map r_pos (set_members hs i) in (Some i, zmin_list 0 m + 1, zmax_list 0 m + 1, Z.of_nat (length m)))
        (distinct_ids hs).
  Proof.
    rewrite sorted_keys_eq, map_map. apply map_ext_in. intros i Hi. cbv zeta.
    unfold G, bl_line. cbn [fst snd].
    assert (Hne : map var_of (set_members hs i) <> []).
    { intro E. apply map_eq_nil in E. apply (members_nonempty i Hi). exact E. }
    destruct (pb_of_vars_spec _ Hne) as (_ & E2 & E3). rewrite E2, E3, pb_of_vars_len, !map_map, !map_length.
    cbn [var_of v_pos]. reflexivity.
  Qed.
  Lemma blocks_eq : map snd d = spec_blocks hs.
  Proof.
    rewrite (map_canon _ _ G (fun kb => unS (fst kb)) d). 2:{ intros kb Hkb. apply dict_elem. exact Hkb. }
    assert (Ek : map (fun kb : key * pblock => unS (fst kb)) d = first_ids (set_ids hs)).
    { rewrite <- (map_map fst unS). unfold d. rewrite keys_dict_build.
      change (map fst (@nil (key * pblock))) with (map (@Some Z) []). unfold l.
      rewrite (keys_ents hs []). rewrite map_map. cbn [unS]. rewrite map_id. reflexivity. }
    rewrite Ek, map_map. reflexivity.
  Qed.
End ChromSpec.

(* ---------------------------------------------------------------------------------------------- *)
(* phased SNVs                                                                                     *)
Lemma sel_filter_snv : forall k l,
  filter v_snv (sel k l) = sel k (filter (fun e : key * var => v_snv (snd e)) l).
Proof.
  intros k l. unfold sel. induction l as [|e l IH]; cbn [filter map]. reflexivity.
  destruct (key_eqb (fst e) k) eqn:E; destruct (v_snv (snd e)) eqn:S; cbn [filter map]; rewrite ?E, ?S; cbn [map]; rewrite IH; reflexivity.
Qed.

Lemma dict_snv_entries : forall d l, dinv d l ->
  zsum (map pb_count_snvs (filter bigb (map snd d))) =
  Z.of_nat (length (filter (fun e => Nat.ltb 1 (length (sel (fst e) l))) (filter (fun e : key * var => v_snv (snd e)) l))).
Proof.
  intros d l Hd. set (lsnv := filter (fun e : key * var => v_snv (snd e)) l).
  rewrite (partition_count (fun k => Nat.ltb 1 (length (sel k l))) (map fst d) lsnv (dinv_nodup d l Hd)).
  2:{ intros e He. apply (dict_covers d l Hd). unfold lsnv in He. apply filter_In in He. tauto. }
  assert (H : forall d', incl d' d ->
    zsum (map pb_count_snvs (filter bigb (map snd d'))) =
    Z.of_nat (ksum (fun k => if Nat.ltb 1 (length (sel k l)) then length (sel k lsnv) else O) (map fst d'))).
  { induction d' as [|[k b] d' IH]; intros Hinc. reflexivity.
    cbn [map snd filter fst ksum fold_right].
    fold (ksum (fun k => if Nat.ltb 1 (length (sel k l)) then length (sel k lsnv) else O) (map fst d')).
    specialize (IH (fun x Hx => Hinc x (or_intror Hx))).
    assert (Hin : In (k, b) d) by (apply Hinc; left; reflexivity).
    unfold bigb at 1. rewrite (dict_len d l Hd k b Hin).
    destruct (Nat.ltb 1 (length (sel k l))).
    - cbn [map]. unfold zsum in *. cbn [fold_right]. rewrite IH.
      destruct (dict_entry d l Hd k b Hin) as [_ ->]. unfold pb_count_snvs. rewrite pb_of_vars_vars, sel_filter_snv.
      fold lsnv. lia.
    - rewrite IH. reflexivity. }
  apply H. apply incl_refl.
Qed.

Lemma rowfun_phsnv : forall chrlen st, d_phsnv (rowfun chrlen st) = st_phsnv st.
Proof.
  intros chrlen st. unfold rowfun. destruct (st_sizes st) eqn:E; cbn [d_phsnv]. 2: reflexivity.
  unfold st_sizes in E. apply map_eq_nil in E. unfold st_phsnv. rewrite E. reflexivity.
Qed.
Lemma rowfun_lens : forall chrlen st, st_sizes st <> [] ->
  d_bmin (rowfun chrlen st) = zmin_list 0 (st_lens st) /\ d_bmax (rowfun chrlen st) = zmax_list 0 (st_lens st) /\
  d_bsum (rowfun chrlen st) = zsum (st_lens st).
Proof. intros chrlen st H. unfold rowfun. destruct (st_sizes st). contradiction. cbn. auto. Qed.
Lemma rowfun_lens_nil : forall chrlen st, st_sizes st = [] ->
  d_bmin (rowfun chrlen st) = 0 /\ d_bmax (rowfun chrlen st) = 0 /\ d_bsum (rowfun chrlen st) = 0.
Proof. intros chrlen st H. unfold rowfun. rewrite H. cbn. auto. Qed.

Lemma count_map : forall (A B : Type) (f : A -> B) (p : B -> bool) l, count p (map f l) = count (fun x => p (f x)) l.
Proof. intros A B f p l. unfold count. rewrite filter_map_comm, map_length. reflexivity. Qed.
Lemma count_ext_in : forall (A : Type) (p q : A -> bool) l, (forall x, In x l -> p x = q x) -> count p l = count q l.
Proof. intros A p q l H. unfold count. rewrite (filter_ext_in' _ p q l H). reflexivity. Qed.

Lemma minmax_le : forall L, zmin_list 0 L <= zmax_list 0 L.
Proof.
  intros [|x r]. cbn. lia.
  assert (H : x :: r <> []) by discriminate.
  pose proof (zmin_list_in 0 _ H). apply (zmax_list_ge 0) in H0. exact H0.
Qed.

Lemma blocklist_check : forall (f1 : Z -> key * Z * Z * Z) (f2 : Z -> Z * Z * Z * Z) ids,
  (forall i, f1 i = (Some (fst (fst (fst (f2 i)))), snd (fst (fst (f2 i))), snd (fst (f2 i)), snd (f2 i))) ->
  list_eqb2 spec_blline_eqb (map f1 ids) (map f2 ids) = true.
Proof.
  intros f1 f2 ids H. induction ids as [|i ids IH]; cbn [map list_eqb2]. reflexivity.
  rewrite IH, andb_true_r, H. destruct (f2 i) as [[[a b] c] n]. cbn [fst snd spec_blline_eqb key_eqb].
  rewrite !Z.eqb_refl. reflexivity.
Qed.

(* ---------------------------------------------------------------------------------------------- *)
Theorem chrom_spec_repaired : forall o recs chrlen cid, sorted_recs o recs ->
  exists cr,
    read_rows o None recs = Some (map row_of (counted o recs)) /\
    process_rows RR chrlen cid (map row_of (counted o recs)) = Some cr /\
    l1_row o recs (cr_row cr) (cr_blocklist cr) = true.
Proof.
  intros o recs chrlen cid Hsorted.
  set (cs := counted o recs). set (rows := map row_of cs). set (hs := hets cs).
  assert (Hent : entries RR rows = ents hs) by apply entries_ents.
  assert (Hmix : mixed_keys (dict_build (entries RR rows) []) = false) by (rewrite Hent; apply not_mixed).
  destruct (process_rows_spec RR chrlen cid rows Hmix) as (pieces & Eno & Hgood & Hchain & Hsum & Hsz & Hlens & Eproc).
  eexists. split. apply read_rows_counted. exact Hsorted. split. exact Eproc.
  pose proof (process_rows_identities _ _ _ _ _ Eproc) as Hident. cbn [cr_row cr_blocklist] in Hident |- *.
  set (st := chrom_stats RR cid rows pieces) in *.
  set (l := ents hs). set (d := dict_build l []).
  assert (Hd : dinv d l) by apply dict_build_dinv.
  assert (Hblocks : ps_blocks st = map snd d) by (unfold st, chrom_stats; cbn [ps_blocks]; rewrite Hent; reflexivity).
  assert (Hsizes : st_sizes st = map zlen (filter bigb (map snd d))) by (unfold st_sizes; rewrite Hblocks; reflexivity).
  assert (Hhrows : hrows RR rows = map row_of hs) by apply hrows_hets.
  destruct (rowfun_fields chrlen st) as (F1 & F2 & F3 & F4 & F5 & F6 & F7 & F8 & F9 & F10).
  (* the sizes, up to permutation, are the sizes of the sets in id order *)
  set (ids := distinct_ids hs).
  set (big_ids := filter (fun i => Nat.ltb 1 (set_size hs i)) ids).
  set (ssizes := map (fun i => Z.of_nat (set_size hs i)) big_ids).
  assert (Hperm : Permutation (st_sizes st) ssizes).
  { rewrite Hsizes. unfold ssizes, big_ids, ids. rewrite <- sizes_G, <- sorted_keys_eq. fold l. fold d.
    apply perm_sizes. apply Permutation_sym. apply sort_by_perm. }
  set (phased_recs := filter (fun r => Nat.ltb 1 (own_set_size hs r)) hs).
  unfold l1_row. rewrite Hident. cbn [andb].
  apply andb_true_iff; split; [apply andb_true_iff; split; [apply andb_true_iff; split|]|].
  - (* counts_ok *)
    unfold counts_ok, spec_of. fold cs. fold hs. fold ids. fold big_ids. fold ssizes. fold phased_recs.
    cbn [s_variants s_het s_hetsnv s_phased s_unphased s_singletons s_blocks s_vmin s_vmax s_phsnv].
    rewrite F1, F2, F3, F4, F5, F7, F8, F9, F10, rowfun_phsnv.
    assert (Hv : ps_variants st = Z.of_nat (length rows)) by reflexivity.
    assert (Hu : ps_unphased st = count (phase_none RR) (hrows RR rows)) by reflexivity.
    assert (Hh : ps_het st = Z.of_nat (length (hrows RR rows))) by reflexivity.
    assert (Hhsn : ps_hetsnv st = count t_snv (hrows RR rows)) by reflexivity.
    rewrite Hv, Hu, Hh, Hhsn, Hhrows.
    repeat (apply andb_true_iff; split); apply Z.eqb_eq.
    + unfold rows. rewrite map_length. reflexivity.
    + rewrite map_length. reflexivity.
    + rewrite count_map. reflexivity.
    + rewrite Hsizes, (dict_phased_entries d l Hd). f_equal. unfold l. symmetry.
      apply (count_transfer (Nat.ltb 1) hs eq_refl hs).
    + rewrite count_map. apply count_ext_in. intros r Hr. unfold phase_none.
      rewrite phase_agree. destruct (spec_phase_set (r_call r)); reflexivity.
      unfold hs, hets in Hr. apply filter_In in Hr. tauto.
    + unfold st_singles. rewrite Hblocks, (dict_singles_entries d l Hd). unfold count. f_equal. unfold l. symmetry.
      apply (count_transfer (fun n => Nat.eqb n 1) hs eq_refl hs).
    + rewrite (Permutation_length Hperm). unfold ssizes. rewrite map_length. reflexivity.
    + apply zmin_list_perm. exact Hperm.
    + apply zmax_list_perm. exact Hperm.
    + unfold st_phsnv. rewrite Hblocks, (dict_snv_entries d l Hd). unfold count, phased_recs. f_equal. unfold l. symmetry.
      apply (count_transfer_snv (Nat.ltb 1) hs eq_refl hs).
  - (* lengths_ok *)
    unfold lengths_ok, spec_of. fold cs. fold hs. fold phased_recs. cbn [s_span].
    set (ppos := map r_pos phased_recs).
    destruct pieces as [|p0 ps] eqn:Epieces.
    + destruct (rowfun_lens_nil chrlen st (proj2 Hsz eq_refl)) as (B1 & B2 & B3). rewrite B1, B2, B3.
      pose proof (minmax_le ppos). repeat (apply andb_true_iff; split); apply Z.leb_le; lia.
    + assert (Hne : st_sizes st <> []). { intro E. apply Hsz in E. discriminate. }
      destruct (rowfun_lens chrlen st Hne) as (B1 & B2 & B3). rewrite B1, B2, B3, Hlens.
      set (lens := map pb_span (p0 :: ps)).
      assert (Hlne : lens <> []) by discriminate.
      assert (Hnn : forall y, In y lens -> 0 <= y).
      { intros y Hy. apply in_map_iff in Hy. destruct Hy as (p & <- & Hp). rewrite Forall_forall in Hgood.
        destruct (Hgood p Hp) as (Hwf & _). pose proof (pb_wf_lm_le_rm p Hwf). unfold pb_span. lia. }
      pose proof (zmin_list_in 0 lens Hlne) as Hmin. pose proof (zmax_list_in 0 lens Hlne) as Hmax.
      pose proof (Hnn _ Hmin). pose proof (zmin_list_le 0 lens _ Hmax). pose proof (zsum_nonneg_mem lens _ Hnn Hmax).
      assert (Hb : zsum lens <= zmax_list 0 ppos - zmin_list 0 ppos).
      { apply Hsum. 2: discriminate. intros b Hb Hlen. rewrite Hent in Hb. fold l in Hb. fold d in Hb.
        apply in_map_iff in Hb. destruct Hb as ([k b'] & Eb & Hin). cbn [snd] in Eb. subst b'.
        destruct (dict_elem hs (k, b) Hin) as [EG _]. cbn [fst] in EG. set (i := unS k) in *.
        unfold G in EG. injection EG as Ek Eb.
        assert (Hmne : map var_of (set_members hs i) <> []).
        { intro E. rewrite E in Eb. subst b. cbn in Hlen. lia. }
        destruct (pb_of_vars_spec _ Hmne) as (_ & E2 & E3). rewrite Eb, E2, E3, !map_map.
        change (map (fun x => v_pos (var_of x)) (set_members hs i)) with (map r_pos (set_members hs i)).
        assert (Hsize : (2 <= set_size hs i)%nat).
        { unfold set_size. rewrite Eb, pb_of_vars_len, map_length in Hlen. exact Hlen. }
        assert (Hmem : forall r, In r (set_members hs i) -> In (r_pos r) ppos).
        { intros r Hr. unfold ppos. apply in_map. unfold phased_recs. unfold set_members in Hr. apply filter_In in Hr.
          destruct Hr as [Hr Hset]. apply filter_In. split. exact Hr. apply Nat.ltb_lt.
          unfold own_set_size. unfold in_set in Hset. destruct (spec_phase_set (r_call r)) as [j|]. 2: discriminate.
          apply Z.eqb_eq in Hset. subst j. lia. }
        assert (Hpne : map r_pos (set_members hs i) <> []).
        { intro E. apply map_eq_nil in E. rewrite E in Hmne. apply Hmne. reflexivity. }
        pose proof (zmin_list_in 0 _ Hpne) as Hq1. pose proof (zmax_list_in 0 _ Hpne) as Hq2.
        apply in_map_iff in Hq1, Hq2. destruct Hq1 as (r1 & E1 & Hr1). destruct Hq2 as (r2 & E2' & Hr2).
        split.
        - rewrite <- E1. apply zmin_list_le. apply Hmem. exact Hr1.
        - rewrite <- E2'. apply zmax_list_ge. apply Hmem. exact Hr2. }
      repeat (apply andb_true_iff; split); apply Z.leb_le; lia.
  - (* block list *)
    unfold spec_of. fold cs. fold hs. cbn [s_blocklist].
    rewrite Hent. fold l. fold d. unfold d, l. rewrite blocklist_eq.
    apply blocklist_check. intros i. reflexivity.
  - (* the lengths are those of the independently determined pieces *)
    unfold pieces_ok, spec_piece_lens. fold cs. fold hs. rewrite <- (blocks_eq hs). rewrite Hent in Eno. rewrite Eno.
    destruct pieces as [|p0 ps] eqn:Epieces.
    + destruct (rowfun_lens_nil chrlen st (proj2 Hsz eq_refl)) as (B1 & B2 & B3). rewrite B1, B2, B3. reflexivity.
    + assert (Hne : st_sizes st <> []). { intro E. apply Hsz in E. discriminate. }
      destruct (rowfun_lens chrlen st Hne) as (B1 & B2 & B3). rewrite B1, B2, B3, Hlens. cbn [map]. rewrite !Z.eqb_refl. reflexivity.
Qed.
